(* Run/C12.v — executable entry points for the C12 correspondence:
   [run_C12] drives Model/Group.v on a generated case, [spec_C12] is the
   property as a boolean over an observation (run on the implementation's
   observation and, by theorem C12_model, true on the model's own). *)
From HpoV Require Import Model.Base Model.Group Spec.Sets.

(* case = (kind, xs, ys)
   kind 0: insertion history xs into an empty group, probes ys
   kind 1: two groups from xs / ys: | & + and | id
   kind 2: the constructors (Vec<HpoTermId>, Vec<u32>, HashSet, FromIterator<HpoTermId>, FromIterator<HpoTerm>) *)
Definition case_C12 : Type := N * list N * list N.
Definition obs_C12 : Type := list (list N).

Fixpoint hist (xs : list N) (g : group) : list N * group :=
  match xs with
  | [] => ([], g)
  | x :: t =>
      let (g', b) := g_insert x g in
      let (fl, gf) := hist t g' in (boolN b :: fl, gf)
  end.

Definition enc_opt (o : option N) : N := match o with None => 0 | Some x => x + 1 end.

Definition run_C12 (c : case_C12) : obs_C12 :=
  let '(k, xs, ys) := c in
  match k with
  | 0 =>
      let (fl, g) := hist xs [] in
      [ fl; g; [g_len g; boolN (g_is_empty g)];
        map (fun y => boolN (g_contains y g)) ys;
        map (fun i => enc_opt (g_get g (N.of_nat i))) (seq 0 (length g + 2)) ]
  | 1 =>
      let a := g_from_list xs in
      let b := g_from_list ys in
      let p1 := hd 0 ys in
      let p2 := hd 0 xs in
      [ a; b; g_union a b; g_union b a; g_inter a b; g_inter b a;
        g_plus a p1; g_bitor_id a p1; g_plus a p2; g_bitor_id a p2;
        [g_len (g_union a b); g_len (g_inter a b); boolN (g_is_empty (g_inter a b))] ]
  | _ =>
      let a := g_from_list xs in [a; a; a; a; a]
  end.

(* ---------------- the property, executable ---------------- *)

Fixpoint spec_flags (seen xs fl : list N) : bool :=
  match xs, fl with
  | [], [] => true
  | x :: xs', f :: fl' => (f =? boolN (negb (mem x seen))) && spec_flags (x :: seen) xs' fl'
  | _, _ => false
  end.

Definition spec_C12 (c : case_C12) (o : obs_C12) : bool :=
  let '(k, xs, ys) := c in
  match k, o with
  | 0, [fl; g; [len; emp]; cont; gets] =>
      spec_flags [] xs fl
      && list_eqb g (set_of xs)                       (* ascending, no duplicates, = the set *)
      && (len =? Nlen (set_of xs)) && (emp =? boolN (Nlen (set_of xs) =? 0))
      && list_eqb cont (map (fun y => boolN (mem y xs)) ys)
      && list_eqb gets (map (fun x => x + 1) (set_of xs) ++ [0; 0])
  | 1, [a; b; ab; ba; iab; iba; ap1; op1; ap2; op2; [lu; li; ie]] =>
      let p1 := hd 0 ys in let p2 := hd 0 xs in
      list_eqb a (set_of xs) && list_eqb b (set_of ys)
      && list_eqb ab (set_union xs ys) && list_eqb ba (set_union xs ys)
      && list_eqb iab (set_inter xs ys) && list_eqb iba (set_inter xs ys)
      && list_eqb ap1 (set_of (p1 :: xs)) && list_eqb op1 (set_of (p1 :: xs))
      && list_eqb ap2 (set_of (p2 :: xs)) && list_eqb op2 (set_of (p2 :: xs))
      && (lu =? Nlen (set_union xs ys)) && (li =? Nlen (set_inter xs ys))
      && (ie =? boolN (Nlen (set_inter xs ys) =? 0))
  | 0, _ | 1, _ => false
  | _, [a; b; c'; d; e] =>
      list_eqb a (set_of xs) && list_eqb b (set_of xs)
      && list_eqb c' (set_of xs) && list_eqb d (set_of xs) && list_eqb e (set_of xs)
  | _, _ => false
  end.
