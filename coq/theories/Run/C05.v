(* Run/C05.v — set similarity = funSimAvg / funSimMax / BMA of the pairwise matrix (C05) *)
From HpoV Require Import Model.Base Model.F32 Model.Matrix Model.Combine Spec.CombineSpec.

(* ---------------- binary32 instance ---------------- *)

Definition c_rowmax := row_maxes f32 fgt.
Definition c_colmax := col_maxes f32 fgt.
Definition c_calc := combiner_calculate f32 fadd fdiv fmax fgt f_zero f_nzero f_two f_of_N.

Definition bits_res (r : res f32) : res N :=
  match r with Ok x => Ok (to_bits x) | Err e => Err e | Panic => Panic | Fuel => Fuel end.
Definition bitsl_res (r : res (list f32)) : res (list N) :=
  match r with Ok x => Ok (map to_bits x) | Err e => Err e | Panic => Panic | Fuel => Fuel end.

(* f32::max may return either zero for max(-0.0, +0.0) (IEEE maxNum leaves it open; the x86
   lowering is operand-order dependent): the sign of a zero result of funSimMax is not compared *)
Definition canon_zero (b : N) : N := if b =? 2147483648 then 0 else b.
Definition canon_zero_res (r : res N) : res N := match r with Ok b => Ok (canon_zero b) | x => x end.

(* inputs:
   CMat r c data            SimilarityCombiner::{row_maxes, col_maxes, calculate} on Matrix::new(r, c, data)
   CSets table queries      GroupSimilarity / HpoSet::similarity with a table-driven (asymmetric)
                            user similarity, plain and wrapped in ONE CachedSimilarity for all queries *)
Inductive input_C05 :=
| CMat (r c : N) (data : list N)
| CSets (table : list (N * N * N)) (queries : list (list N * list N)) (table2 : list (N * N * N)).

(* matrix: row maxima, column maxima, funSimAvg, funSimMax, BMA;
   sets: per query (funSimAvg, funSimMax, BMA) plain and the same three through the cache, and
   the pairs for which the cache called the wrapped similarity, in call order *)
Inductive obs_C05 :=
| OMat (rm cm : res (list N)) (avg mx bma : res N)
| OSets (plain cached : list (res N * res N * res N)) (inner_calls : list (N * N))
        (* a SECOND cached adaptor, around another similarity (table2), alive at the same time and used
           alternately with the first on the same queries: funSimAvg plain and through that cache *)
        (other_plain other_cached : list (res N)).

Definition mat_of (r c : N) (data : list N) : matrix f32 := mkMat (nat_of r) (nat_of c) (map of_bits data).

Definition calc3 (m : matrix f32) : res N * res N * res N :=
  (bits_res (c_calc FunSimAvg m), canon_zero_res (bits_res (c_calc FunSimMax m)), bits_res (c_calc Bma m)).

Fixpoint table_find (a b : N) (t : list (N * N * N)) : N :=
  match t with
  | [] => 0
  | (x, y, v) :: t' => if (x =? a) && (y =? b) then v else table_find a b t'
  end.
Definition table_sim (t : list (N * N * N)) (a b : N) : f32 := of_bits (table_find a b t).

Definition group3 {S} (sim : S -> N -> N -> S * f32) (a b : list N) (s : S) : S * (res N * res N * res N) :=
  let (s', v) := pair_loop f32 S sim a b s in
  (s', calc3 (mkMat (length a) (length b) v)).

Definition run_C05 (i : input_C05) : obs_C05 :=
  match i with
  | CMat r c data =>
      let m := mat_of r c data in
      let '(a, x, b) := calc3 m in
      if m_is_empty m then OMat (Ok []) (Ok []) a x b
      else OMat (bitsl_res (c_rowmax m)) (bitsl_res (c_colmax m)) a x b
  | CSets table queries table2 =>
      let f := table_sim table in
      let f2 := table_sim table2 in
      let avg_of (r : res N * res N * res N) : res N := let '(a, _, _) := r in a in
      let other_plain := map (fun q : list N * list N => avg_of (snd (group3 (plain_sim f32 f2) (fst q) (snd q) tt))) queries in
      let other_cached :=
        snd (fold_left (fun (st : cache f32 * list (res N)) (q : list N * list N) =>
                     let (c, acc) := st in
                     let (c', r) := group3 (cached_sim f32 f2) (fst q) (snd q) c in (c', acc ++ [avg_of r]))
                  queries ([], [])) in
      let plain := map (fun q : list N * list N => snd (group3 (plain_sim f32 f) (fst q) (snd q) tt)) queries in
      let '(c, cached) :=
        fold_left (fun (st : cache f32 * list (res N * res N * res N)) (q : list N * list N) =>
                     let (c, acc) := st in
                     let (c', r) := group3 (cached_sim f32 f) (fst q) (snd q) c in (c', acc ++ [r]))
                  queries ([], []) in
      OSets plain cached (rev (map (fun e : N * N * f32 => fst e) c)) other_plain other_cached
  end.

(* ---------------- the property, by index arithmetic on the row-major data ---------------- *)

Definition ref_rows32 := ref_rows f32 f_zero.
Definition ref_cols32 := ref_cols f32 f_zero.
Definition ref_max32 := ref_max f32 fgt f_zero.
Definition ref_calc32 := ref_calc f32 fadd fdiv fmax fgt f_zero f_nzero f_two f_of_N.

Definition ref3 (m : matrix f32) : N * N * N :=
  (to_bits (ref_calc32 FunSimAvg m), canon_zero (to_bits (ref_calc32 FunSimMax m)), to_bits (ref_calc32 Bma m)).

Definition resN_is (r : res N) (x : N) : bool := match r with Ok y => y =? x | _ => false end.
Definition res3_is (r : res N * res N * res N) (x : N * N * N) : bool :=
  let '(a, b, c) := r in let '(a', b', c') := x in resN_is a a' && resN_is b b' && resN_is c c'.
Definition resl_is (r : res (list N)) (x : list N) : bool := match r with Ok y => list_eqb y x | _ => false end.

Definition res3_eqb (a b : res N * res N * res N) : bool :=
  let '(a1, a2, a3) := a in
  match a1, a2, a3 with
  | Ok x, Ok y, Ok z => res3_is b (x, y, z)
  | _, _, _ => false
  end.

Definition wf_mat (r c : N) (data : list N) : bool := (Nlen data =? r * c) && (r <=? 65535) && (c <=? 65535).

Definition table_symmetric (t : list (N * N * N)) (ids : list N) : bool :=
  forallb (fun a => forallb (fun b => table_find a b t =? table_find b a t) ids) ids.

Definition matrix_of_table (t : list (N * N * N)) (a b : list N) : matrix f32 :=
  mkMat (length a) (length b) (flat_map (fun x => map (fun y => table_sim t x y) b) a).

Fixpoint pairs_eqb (a b : list (N * N)) : bool :=
  match a, b with
  | [], [] => true
  | (x1, y1) :: a', (x2, y2) :: b' => (x1 =? x2) && (y1 =? y2) && pairs_eqb a' b'
  | _, _ => false
  end.

(* the first occurrence of every (id, id) pair, in query order: what a per-pair cache must ask *)
Definition first_pairs (queries : list (list N * list N)) : list (N * N) :=
  fold_left (fun acc (p : N * N) => if existsb (fun q : N * N => (fst q =? fst p) && (snd q =? snd p)) acc then acc else acc ++ [p])
            (flat_map (fun q : list N * list N => flat_map (fun x => map (fun y => (x, y)) (snd q)) (fst q)) queries) [].

Definition spec_C05 (i : input_C05) (o : obs_C05) : bool :=
  match i, o with
  | CMat r c data, OMat rm cm avg mx bma =>
      if wf_mat r c data then
        let m := mat_of r c data in
        res3_is (avg, mx, bma) (ref3 m)
        && (if m_is_empty m then true
            else resl_is rm (map (fun l => to_bits (ref_max32 l)) (ref_rows32 m))
                 && resl_is cm (map (fun l => to_bits (ref_max32 l)) (ref_cols32 m)))
      else true     (* |data| <> rows*cols: outside Matrix's contract *)
  | CSets table queries table2, OSets plain cached calls oplain ocached =>
      (Nlen plain =? Nlen queries) && (Nlen cached =? Nlen queries) && (Nlen oplain =? Nlen queries) && (Nlen ocached =? Nlen queries)
      (* two cached adaptors around different similarities do not see each other's memo *)
      && forallb (fun qp : (list N * list N) * res N =>
                    let '((a, b), r) := qp in resN_is r (to_bits (ref_calc32 FunSimAvg (matrix_of_table table2 a b)))) (combine queries oplain)
      && forallb (fun pc : res N * res N => match fst pc with Ok x => resN_is (snd pc) x | _ => false end) (combine oplain ocached)
      (* the documented combination of the |A| x |B| matrix of pairwise similarities *)
      && forallb (fun qp : (list N * list N) * (res N * res N * res N) =>
                    let '((a, b), r) := qp in res3_is r (ref3 (matrix_of_table table a b))) (combine queries plain)
      (* the caching adaptor never changes a result, and asks the wrapped similarity once per pair *)
      && forallb (fun pc : (res N * res N * res N) * (res N * res N * res N) => res3_eqb (fst pc) (snd pc)) (combine plain cached)
      && pairs_eqb calls (first_pairs queries)
      (* with a symmetric similarity the result does not depend on the argument order *)
      && (let ids := flat_map (fun q : list N * list N => fst q ++ snd q) queries in
          if table_symmetric table ids then
            forallb (fun qp : (list N * list N) * (res N * res N * res N) =>
                       let '((a, b), r) := qp in
                       forallb (fun qp' : (list N * list N) * (res N * res N * res N) =>
                                  let '((a', b'), r') := qp' in
                                  if list_eqb a b' && list_eqb b a' then res3_eqb r r' else true)
                               (combine queries plain))
                    (combine queries plain)
          else true)
  | _, _ => false
  end.
