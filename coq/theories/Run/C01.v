(* Run/C01.v — ancestor sets are the exact transitive closure (C01) *)
From HpoV Require Import Gen.Consts Model.Base Model.Group Model.Onto Model.Query Model.Dump
  Model.Script Spec.Sets Run.World.

(* per term: id, parents, children, all parents *)
Definition p01 : Type := N * list N * list N * list N.
Definition p_id (t : p01) : N := let '(x, _, _, _) := t in x.
Definition p_parents (t : p01) : list N := let '(_, x, _, _) := t in x.
Definition p_children (t : p01) : list N := let '(_, _, x, _) := t in x.
Definition p_allp (t : p01) : list N := let '(_, _, _, x) := t in x.

(* terms ascending by id; matrix[a][b] = child_of(a,b) + 2 * parent_of(a,b) *)
Definition obs_C01 : Type := res (list p01 * list (list N)).

Definition proj01 (t : dterm) : p01 := (d_id t, d_parents t, d_children t, d_allp t).

Definition matrix_of (ts : list term) : list (list N) :=
  map (fun a => map (fun b => boolN (child_of a b) + 2 * boolN (parent_of a b)) ts) ts.

Definition run_C01 (i : winput) : obs_C01 :=
  let (w, tbl) := i in
  do r <- build_world tbl w ;;
  do o <- snd r ;;
  do d <- dump_onto o ;;
  Ok (map proj01 (do_terms d), matrix_of (sort_by t_id (ar_terms (o_arena o)))).

(* ---------------- the property, executable on an observation ---------------- *)

Definition pfind (id : N) (ts : list p01) : option p01 := find_by p_id id ts.

Definition term_ok (ts : list p01) (t : p01) : bool :=
  ascb (p_parents t) && ascb (p_children t) && ascb (p_allp t)
  (* never the term itself *)
  && negb (mem (p_id t) (p_allp t))
  (* every parent is an ancestor, brings its own ancestors, and lists t as child *)
  && forallb (fun p => mem p (p_allp t) &&
                match pfind p ts with
                | Some tp => subsetb (p_allp tp) (p_allp t) && mem (p_id t) (p_children tp)
                | None => false
                end) (p_parents t)
  (* nothing else: every ancestor is a parent or an ancestor of a parent *)
  && forallb (fun a => mem a (p_parents t) ||
                existsb (fun p => match pfind p ts with
                                  | Some tp => mem a (p_allp tp)
                                  | None => false
                                  end) (p_parents t)) (p_allp t)
  (* children are exactly the inverse of parents *)
  && forallb (fun c => match pfind c ts with
                       | Some tc => mem (p_id t) (p_parents tc)
                       | None => false
                       end) (p_children t).

Definition matrix_ref (ts : list p01) : list (list N) :=
  map (fun a => map (fun b => boolN (mem (p_id b) (p_allp a)) + 2 * boolN (mem (p_id a) (p_allp b))) ts) ts.

Fixpoint matrix_eqb (a b : list (list N)) : bool :=
  match a, b with
  | [], [] => true
  | x :: a', y :: b' => list_eqb x y && matrix_eqb a' b'
  | _, _ => false
  end.

Definition closure_ok (ts : list p01) : bool :=
  ascb (map p_id ts) && forallb (term_ok ts) ts.

Definition spec_C01 (i : winput) (o : obs_C01) : bool :=
  match o with
  | Ok (ts, m) => closure_ok ts && matrix_eqb m (matrix_ref ts)
  | _ => true      (* no ontology was built: nothing is reported *)
  end.
