(* Run/C17.v — hierarchical clustering returns a valid dendrogram built from closest pairs (C17) *)
From HpoV Require Import Model.Base Model.Group Model.F32 Model.Linkage Spec.Sets.

(* method (0 union, 1 single, 2 complete, 3 average); the input sets (term ids, ascending);
   a symmetric table of pairwise term distances (bits); the mode of the user distance:
   0: min over member pairs, 1: max over member pairs, 2: min + (|A| + |B|) / 64 *)
Definition input_C17 : Type := N * list (list N) * list (N * N * N) * N.

Definition method_of (m : N) : method :=
  match m with 0 => MUnion | 1 => MSingle | 2 => MComplete | _ => MAverage end.

Fixpoint tfind (a b : N) (t : list (N * N * N)) : N :=
  match t with
  | [] => 0
  | (x, y, v) :: t' => if (x =? a) && (y =? b) then v else tfind a b t'
  end.

Definition f_64 : f32 := of_bits 1115684864.     (* 64.0 *)

(* the user's distance, a pure function of the two sets' contents *)
Definition dist_fn (t : list (N * N * N)) (mode : N) (a b : list N) : f32 :=
  let vals := flat_map (fun x => map (fun y => of_bits (tfind x y t)) b) a in
  match vals with
  | [] => f_zero
  | v :: vs =>
      let mn := fold_left (fun acc z => if flt z acc then z else acc) vs v in
      let mx := fold_left (fun acc z => if fgt z acc then z else acc) vs v in
      match mode with
      | 0 => mn
      | 1 => mx
      | 2 => fadd mn (fdiv (f_of_N (Nlen a + Nlen b)) f_64)
      (* shrinks when sets grow: under union linkage a later merge can be CLOSER than an earlier one *)
      | _ => fdiv mn (f_of_N (Nlen a + Nlen b))
      end
  end.

Definition mean32 (a b : f32) : f32 := fdiv (fadd a b) f_two.

(* tie flag (model only; the harness prints 0), clusters (lhs, rhs, distance bits, size),
   indicies(), callback log: per invocation the pairs (set, set) it was handed *)
Definition obs_C17 : Type := res (N * list (N * N * N * N) * list N * list (list (list N * list N))).

Definition run_C17 (i : input_C17) : obs_C17 :=
  let '(m, sets, table, mode) := i in
  do s <- linkage f32 flt fgt mean32 (dist_fn table mode) (method_of m) sets ;;
  Ok (boolN (l_tie f32 s),
      map (fun c : nat * nat * f32 * nat => let '(l, r, d, z) := c in (N.of_nat l, N.of_nat r, to_bits d, N.of_nat z)) (l_clusters f32 s),
      map N.of_nat (indicies f32 s),
      l_calls f32 s).

(* ---------------- the property: replay of the reported merges ---------------- *)

(* reference state: live node indices with their leaf sets, and the distance of every live pair *)
Definition rnode : Type := N * list N.          (* index, content (union of the member sets) *)
Definition rdist : Type := list (N * N * f32).  (* (i, j) with i < j *)

Fixpoint rd_get (i j : N) (m : rdist) : option f32 :=
  match m with
  | [] => None
  | (a, b, v) :: t => if (a =? i) && (b =? j) then Some v else rd_get i j t
  end.
Definition rd_sym (i j : N) (m : rdist) : option f32 := if i <? j then rd_get i j m else rd_get j i m.

Definition size_ref (n : N) (sizes : list N) (idx : N) : option N :=
  if idx <? n then Some 1 else nth_error sizes (nat_of (idx - n)).

(* one reported merge (l, r, d, z) checked against the reference state; returns the next state *)
Definition replay_step (mt : method) (table : list (N * N * N)) (mode : N) (n : N)
    (st : list rnode * rdist * list N) (c : N * N * N * N) : option (list rnode * rdist * list N) :=
  let '(live, dm, sizes) := st in
  let '(l, r, d, z) := c in
  let k := n + Nlen sizes in                      (* the index of the new cluster *)
  match find_by fst l live, find_by fst r live, rd_get l r dm, size_ref n sizes l, size_ref n sizes r with
  | Some (_, cl), Some (_, cr), Some dlr, Some zl, Some zr =>
      if (l <? r)
         && (to_bits dlr =? d)                                       (* at the reported distance *)
         && forallb (fun e : N * N * f32 => negb (flt (snd e) dlr)) dm   (* no live pair is closer *)
         && (z =? zl + zr)
      then
        let others := filter (fun nd : rnode => negb (fst nd =? l) && negb (fst nd =? r)) live in
        let cnew := set_of (cl ++ cr) in
        let newd := map (fun nd : rnode =>
                      let x := fst nd in
                      (x, k,
                       match mt, rd_sym x l dm, rd_sym x r dm with
                       | MSingle, Some a, Some b => if flt a b then a else b
                       | MComplete, Some a, Some b => if fgt a b then a else b
                       | MAverage, Some a, Some b => mean32 a b
                       | _, _, _ => dist_fn table mode cnew (snd nd)
                       end)) others in
        let dm' := filter (fun e : N * N * f32 => let '(a, b, _) := e in
                             negb (a =? l) && negb (a =? r) && negb (b =? l) && negb (b =? r)) dm ++ newd in
        Some (others ++ [(k, cnew)], dm', sizes ++ [z])
      else None
  | _, _, _, _, _ => None
  end.

Fixpoint replay (mt : method) (table : list (N * N * N)) (mode : N) (n : N)
    (st : list rnode * rdist * list N) (cs : list (N * N * N * N)) : option (list rnode * rdist * list N) :=
  match cs with
  | [] => Some st
  | c :: t => match replay_step mt table mode n st c with Some st' => replay mt table mode n st' t | None => None end
  end.

Fixpoint all_pairs {A} (l : list A) : list (A * A) :=
  match l with [] => [] | x :: t => map (fun y => (x, y)) t ++ all_pairs t end.

Fixpoint numbered {A} (i : N) (l : list A) : list (N * A) :=
  match l with [] => [] | x :: t => (i, x) :: numbered (i + 1) t end.

Definition pair_eqb (p q : list N * list N) : bool := list_eqb (fst p) (fst q) && list_eqb (snd p) (snd q).

(* is [a] a permutation of [b] (lists of pairs of sets)?  remove one by one *)
Fixpoint remove_first (p : list N * list N) (l : list (list N * list N)) : option (list (list N * list N)) :=
  match l with
  | [] => None
  | q :: t => if pair_eqb p q then Some t else option_map (cons q) (remove_first p t)
  end.
Fixpoint perm_pairs (a b : list (list N * list N)) : bool :=
  match a with
  | [] => match b with [] => true | _ => false end
  | p :: t => match remove_first p b with Some b' => perm_pairs t b' | None => false end
  end.

Definition spec_C17 (i : input_C17) (o : obs_C17) : bool :=
  let '(m, sets, table, mode) := i in
  let n := Nlen sets in
  if n <? 2 then true else
  match o with
  | Ok (_, cs, idx, calls) =>
      let mt := method_of m in
      let nodes := numbered 0 sets in
      let dm0 := map (fun p : (N * list N) * (N * list N) =>
                        (fst (fst p), fst (snd p), dist_fn table mode (snd (fst p)) (snd (snd p)))) (all_pairs nodes) in
      (* exactly n-1 merges *)
      (Nlen cs + 1 =? n)
      (* every merge joins two live nodes, closest at that moment, at the reported distance, sizes
         add up, the k-th merge becomes node n+k, distances to it follow the method *)
      && match replay mt table mode n (nodes, dm0, []) cs with
         | Some (live, _, sizes) =>
             (* one cluster remains and it holds all n inputs *)
             (Nlen live =? 1) && match last sizes 0 with z => z =? n end
         | None => false
         end
      (* the reported leaf order is a permutation of 0..n *)
      && list_eqb (sortN idx) (map fst nodes)
      (* the callback is asked for each unordered pair of the inputs exactly once initially *)
      && match calls with
         | first :: _ => perm_pairs first (map (fun p : (N * list N) * (N * list N) => (snd (fst p), snd (snd p))) (all_pairs nodes))
         | [] => false
         end
  | _ => false
  end.
