(* Run/C09.v — JAX text loaders build exactly the ontology the three files describe (C09) *)
From HpoV Require Import Gen.Consts Model.Base Model.Group Model.Onto Model.F32 Model.IC Model.Query
  Model.Dump Model.Script Model.Text Spec.Sets Run.World Run.C01 Run.C02 Run.C03 Run.Ser.

(* the facts the files were rendered from:
   version; terms (id, name, obsolete, replacement); is_a links (child, parent);
   gene / omim / orpha records (id, name, direct terms) — only records with at least one row *)
Definition facts : Type :=
  (N * N * N) * list (N * list N * N * list N) * list (N * N) * list dannot * list dannot * list dannot.

(* constructions of the same facts: from_standard, from_standard_transitive, then (when the facts
   can be expressed there) the Builder API and a binary file; the oracle table; the facts *)
Definition input_C09 : Type := list world * list (N * N) * facts.
Definition obs_C09 : Type := list (res donto).

Definition final_dump9 (o : wobs) : res donto :=
  match o with Ok (_, r) => r | Err e => Err e | Panic => Panic | Fuel => Fuel end.

Definition run_C09 (i : input_C09) : obs_C09 :=
  let '(ws, tbl, _) := i in map (fun w => final_dump9 (run_W (w, tbl))) ws.

(* ---------------- the property ---------------- *)

Definition f_terms (f : facts) := let '(_, t, _, _, _, _) := f in t.
Definition f_links (f : facts) := let '(_, _, l, _, _, _) := f in l.
Definition f_version (f : facts) := let '(v, _, _, _, _, _) := f in v.
Definition f_records (k : kind) (f : facts) : list dannot :=
  let '(_, _, _, g, m, r) := f in match k with KGene => g | KOmim => m | KOrpha => r end.

Definition ft_id (t : N * list N * N * list N) : N := let '(i, _, _, _) := t in i.

Definition version_eqb (a b : N * N * N) : bool :=
  let '(x1, y1, z1) := a in let '(x2, y2, z2) := b in (x1 =? x2) && (y1 =? y2) && (z1 =? z2).

(* the loaded ontology is the one the facts describe *)
Definition matches_facts (tbl : list (N * N)) (f : facts) (d : donto) : bool :=
  version_eqb (do_version d) (f_version f)
  (* one term per [Term] stanza, with its name, obsolete flag, replaced_by and is_a parents *)
  && list_eqb (map d_id (do_terms d)) (set_of (map ft_id (f_terms f)))
  && forallb (fun t : N * list N * N * list N =>
       let '(id, name, obs, repl) := t in
       match d_find id d with
       | Some dt => list_eqb (d_name dt) name && (d_obsolete dt =? obs) && list_eqb (d_repl dt) repl
                    && list_eqb (d_parents dt) (set_of (map snd (filter (fun l : N * N => fst l =? id) (f_links f))))
       | None => false
       end) (f_terms f)
  && (do_len d =? Nlen (do_terms d))
  (* one record per gene / disease with a row, with exactly the direct terms of its (non-NOT) rows *)
  && dannots_eqb (do_genes d) (sort_by da_id (f_records KGene f))
  && dannots_eqb (do_omim d) (sort_by da_id (f_records KOmim f))
  && dannots_eqb (do_orpha d) (sort_by da_id (f_records KOrpha f))
  (* and everything derived satisfies the executable statements of C01 - C03 *)
  && closure_ok (map proj01 (do_terms d))
  && (let qs := map proj02 (do_terms d) in
      kind_ok qs KGene (do_genes d) && kind_ok qs KOmim (do_omim d) && kind_ok qs KOrpha (do_orpha d))
  && (let rs3 := map proj03 (do_terms d) in
      let c := (Nlen (do_genes d), Nlen (do_omim d), Nlen (do_orpha d)) in
      kind_ic_ok tbl rs3 c KGene && kind_ic_ok tbl rs3 c KOmim && kind_ic_ok tbl rs3 c KOrpha).

Definition spec_C09 (i : input_C09) (o : obs_C09) : bool :=
  let '(ws, tbl, f) := i in
  match o with
  | [] => false
  | first :: rest =>
      (Nlen o =? Nlen ws)
      (* observationally identical through both loaders, the Builder API and the binary format *)
      && forallb (res_donto_eqb first) rest
      && match first with
         | Ok d => matches_facts tbl f d
         | Err DoesNotExist =>
             (* build_with_defaults: a root term is missing from the facts *)
             negb (mem 1 (map ft_id (f_terms f)) && mem 118 (map ft_id (f_terms f)))
         | _ => false
         end
  end.
