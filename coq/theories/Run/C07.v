(* Run/C07.v — binary serialisation round-trips every ontology (C07) *)
From HpoV Require Import Gen.Consts Model.Base Model.Group Model.Onto Model.F32 Model.IC Model.Query
  Model.Dump Model.Script Model.Binary Spec.Sets Run.World Run.C01 Run.Ser.

(* canonical bytes of as_bytes (records of the annotation sections sorted by id), the dump of the
   ontology, the dump of the reloaded ontology, "compare(original, reloaded) reports nothing" *)
Definition obs_C07 : Type := res (list N * donto * res donto * N).

Definition name_fits (limit : N) (name : list N) : bool := cut_len limit name =? Nlen name.

Definition no_cut (d : donto) : bool :=
  forallb (fun t => name_fits TERM_NAME_LIMIT (d_name t)) (do_terms d)
  && forallb (fun r => name_fits GENE_NAME_LIMIT (da_name r)) (do_genes d).

Definition run_C07 (i : winput) : obs_C07 :=
  let (w, tbl) := i in
  do r <- build_world tbl w ;;
  do o <- snd r ;;
  do d <- dump_onto o ;;
  let b := encode o in
  let rl := match decode (ic32 (table_oracle tbl)) b with Ok o' => dump_onto o' | Err e => Err e | Panic => Panic | Fuel => Fuel end in
  Ok (b, d, rl, match rl with Ok _ => boolN (no_cut d) | _ => 0 end).

(* ---------------- expected reload ---------------- *)

Definition cut_name (limit : N) (name : list N) : list N := firstn (nat_of (cut_len limit name)) name.

Definition d_self_or_anc (t : dterm) (r : N) : bool := (r =? d_id t) || mem r (d_allp t).

Definition expected_reload (d : donto) : option donto :=
  match d_find 1 d, d_find 118 d with
  | Some root, Some ph =>
      let mods := set_of (filter (fun c => negb (c =? 118)) (d_children root)) in
      let cats := set_of (mods ++ d_children ph) in
      Some (do_version d,
            map (fun t => (d_id t, cut_name TERM_NAME_LIMIT (d_name t), d_obsolete t, d_repl t, d_replby t,
                           d_parents t, d_children t, d_allp t, d_genes t, d_omim t, d_orpha t, d_ic t,
                           boolN (existsb (d_self_or_anc t) mods), filter (d_self_or_anc t) cats)) (do_terms d),
            map (fun r => (da_id r, cut_name GENE_NAME_LIMIT (da_name r), da_hpos r)) (do_genes d),
            do_omim d, do_orpha d, cats, mods, do_len d)
  | _, _ => None
  end.

Definition spec_C07 (i : winput) (o : obs_C07) : bool :=
  match o with
  | Ok (b, d, rl, flag) =>
      match expected_reload d with
      | None => true                      (* a root term is missing: outside the property *)
      | Some e =>
          match rl with
          | Ok d' => matrix_eqb (ser_donto d') (ser_donto e) && (if no_cut d then flag =? 1 else true)
          | _ => false                    (* the loader rejected or panicked on the writer's bytes *)
          end
      end
  | _ => true
  end.
