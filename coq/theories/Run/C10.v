(* Run/C10.v — lookups are exact for every id and every name (C10) *)
From HpoV Require Import Gen.Consts Model.Base Model.Group Model.Onto Model.Query Model.Dump
  Model.Script Model.ManyTerms Spec.Sets Run.World Run.C02.

(* world, probe ids beyond the sweep, name queries *)
Definition input_C10 : Type := winput * list N * list (list N).

(* ---------------- model of the name lookups (src/ontology.rs:540-600) ---------------- *)

Fixpoint is_prefix (p s : list N) : bool :=
  match p, s with
  | [], _ => true
  | x :: p', y :: s' => (x =? y) && is_prefix p' s'
  | _ :: _, [] => false
  end.

(* str::contains on the bytes of valid UTF-8 strings: byte-level infix *)
Fixpoint is_infix (q s : list N) : bool :=
  is_prefix q s || match s with [] => false | _ :: s' => is_infix q s' end.

(* Ontology::gene_by_name: some gene whose symbol equals the query (HashMap order: unspecified) *)
Definition gene_by_name (o : onto) (q : list N) : option annot :=
  find (fun r => list_eqb (a_name r) q) (sort_by a_id (o_genes o)).
(* Ontology::omim_diseases_by_name: all diseases whose name contains the query *)
Definition omim_by_name (o : onto) (q : list N) : list annot :=
  filter (fun r => is_infix q (a_name r)) (sort_by a_id (o_omim o)).
(* Ontology::omim_disease_by_name: some such disease *)
Definition omim_first_by_name (o : onto) (q : list N) : option annot :=
  find (fun r => is_infix q (a_name r)) (sort_by a_id (o_omim o)).

Definition enc_annot (o : option annot) : list (N * list N) :=
  match o with Some r => [(a_id r, a_name r)] | None => [] end.

(* observation:
   - every id in 0..MAX (swept completely by the harness on the crate) plus the probes for which
     hpo(id) answered: (asked id, returned id, name)
   - iteration: ids (ascending), len()
   - per query: gene_by_name, omim_diseases_by_name (ids ascending), omim_disease_by_name *)
Definition obs_C10 : Type :=
  res (list (N * N * list N) * list N * N * list (list (N * list N) * list N * list (N * list N))).

Definition run_C10 (i : input_C10) : obs_C10 :=
  let '((w, tbl), probes, queries) := i in
  do r <- build_world tbl w ;;
  do o <- snd r ;;
  let ts := sort_by t_id (ar_terms (o_arena o)) in
  (* the model answers the sweep from its arena: an id below MAX is found iff a term carries it *)
  let found := filter (fun t => t_id t <? MAX_HPO_ID) ts in
  let probed := somes (map (fun id => match o_get id o with Some t => Some (id, t_id t, t_name t) | None => None end) probes) in
  Ok (map (fun t => (t_id t, t_id t, t_name t)) found ++ probed,
      map t_id ts, ar_len (o_arena o),
      map (fun q => (enc_annot (gene_by_name o q), map a_id (omim_by_name o q), enc_annot (omim_first_by_name o q))) queries).

(* ---------------- the property ---------------- *)

Definition script_terms (s : script) : list (N * list N) := let '(_, t, _, _, _) := s in t.

(* the first name supplied for an id wins (later new_term calls with the same id are ignored) *)
Definition first_name (s : script) (id : N) : option (list N) :=
  match find_by fst id (script_terms s) with Some p => Some (snd p) | None => None end.

Definition spec_C10 (i : input_C10) (o : obs_C10) : bool :=
  let '((w, tbl), probes, queries) := i in
  match o with
  | Ok (found, iter_ids, len, qs) =>
      (* an answer carries the id that was asked for; no id outside the id space is answered *)
      forallb (fun f : N * N * list N => let '(asked, got, _) := f in (asked =? got) && (asked <? MAX_HPO_ID)) found
      && ascb (map (fun f : N * N * list N => fst (fst f)) found)
      (* iteration yields every term exactly once and agrees with len() and with the lookups *)
      && list_eqb iter_ids (map (fun f : N * N * list N => fst (fst f)) found)
      && (len =? Nlen iter_ids)
      && match w with
         | WBuilder s =>
             (* found iff added, with the data it was added with *)
             list_eqb iter_ids (set_of (filter (fun id => id <? MAX_HPO_ID) (map fst (script_terms s))))
             && forallb (fun f : N * N * list N => let '(asked, _, name) := f in
                           match first_name s asked with Some nm => list_eqb name nm | None => false end) found
             (* name lookups against the records the script created *)
             && (Nlen qs =? Nlen queries)
             && forallb (fun qr : list N * (list (N * list N) * list N * list (N * list N)) =>
                   let '(q, (g, ms, m1)) := qr in
                   let genes := expected_records s KGene in
                   let omims := expected_records s KOmim in
                   let matching := map da_id (filter (fun r => is_infix q (da_name r)) omims) in
                   match g with
                   | [] => negb (existsb (fun r => list_eqb (da_name r) q) genes)
                   | [(id, nm)] => list_eqb nm q && existsb (fun r => (da_id r =? id) && list_eqb (da_name r) q) genes
                   | _ => false
                   end
                   && list_eqb ms matching
                   && match m1 with
                      | [] => match matching with [] => true | _ => false end
                      | [(id, _)] => mem id matching
                      | _ => false
                      end) (combine queries qs)
         | WMany _ first stride count =>
             (* found iff created: exactly the ids first, first+stride, ..., each with the one name *)
             list_eqb iter_ids (ManyTerms.tseq first stride (N.to_nat count))
             && forallb (fun f : N * N * list N => list_eqb (snd f) ManyTerms.many_name) found
         | _ => true
         end
  | _ => true
  end.

(* ---------------- C10m: more terms than a 16-bit slot index can address ----------------
   The crate side still sweeps hpo(id) over the whole id space; for 65 537+ terms the answers are
   summarised (how many ids answered, how many answers carried another id or name than asked for,
   sum / min / max of the answered ids, and the same for iteration) instead of listed.  The model's
   "wrong answers" count is 0 by theorem C10_lookup_returns_that_id, not by evaluation. *)
Definition obs_C10m : Type := res (N * N * N * N * N * N * N * N * list (N * N)).

Definition sumN (l : list N) : N := fold_left N.add l 0.
Definition minN (l : list N) : N := match l with [] => 0 | x :: t => fold_left N.min t x end.
Definition maxN (l : list N) : N := fold_left N.max l 0.

Definition run_C10m (i : winput * list N) : obs_C10m :=
  let '((w, tbl), probes) := i in
  do r <- build_world tbl w ;;
  do o <- snd r ;;
  let ids := map t_id (ar_terms (o_arena o)) in
  let found := filter (fun id => id <? MAX_HPO_ID) ids in
  let probed := somes (map (fun id => match o_get id o with Some t => Some (id, t_id t) | None => None end) probes) in
  Ok (ar_len (o_arena o), Nlen ids, sumN ids, Nlen found, 0, sumN found, minN found, maxN found, probed).

Definition spec_C10m (i : winput * list N) (o : obs_C10m) : bool :=
  match fst (fst i), o with
  | WMany _ first stride count, Ok (len, itn, its, found, wrong, fsum, fmin, fmax, probed) =>
      let expect_sum := count * first + stride * (count * (count - 1) / 2) in
      (len =? count) && (itn =? count) && (its =? expect_sum)
      && (found =? count) && (wrong =? 0) && (fsum =? expect_sum)
      && (fmin =? first) && (fmax =? first + stride * (count - 1))
      && forallb (fun p : N * N => (fst p =? snd p) && (fst p <? MAX_HPO_ID)) probed
  | _, _ => true
  end.
