(* Run/World.v — "worlds": the ways an ontology is constructed in a generated
   case, the model's construction of it, and the observation type shared by
   the ontology-level properties.  The harness builds the same world with the
   real crate and prints the same observation. *)
From HpoV Require Import Gen.Consts Model.Base Model.Group Model.Onto Model.F32 Model.IC
  Model.Query Model.Dump Model.Script Model.Bulk Model.ManyTerms Model.Binary Model.SubOnt Model.Text.

Inductive world :=
| WBuilder (s : script)
| WBytes (b : list N)
| WJax (transitive : bool) (obo genes hpoa : list N)   (* from_standard / from_standard_transitive *)
| WSub (w : world) (root : N) (leaves : list N)
(* the script with [count] add_gene / add_omim_disease / add_orpha_disease calls (tag 0 / 1 / 2; ids
   first, first+1, ...) between connect_all_terms and the script's own annotation calls: Model/Bulk.v *)
| WBulk (s : script) (tag first count : N)
(* a script of [count] new_term calls (ids first, first+stride, ...) and nothing else, built with
   build_minimal: Model/ManyTerms.v *)
| WMany (ver : N * N * N) (first stride count : N)
(* the ontology of [w] with the category and modifier groups replaced through the public
   categories_mut() / modifier_mut() (any ids, not only the default roots) *)
| WCustom (w : world) (cats mods : list N)
(* the ontology of [w] after the public set_default_categories() and then set_default_modifier() were called on it
   (whatever groups it had before are REPLACED); the first error ends the world *)
| WDefaults (w : world).

(* the f32::ln oracle table travels with the case *)
Definition winput : Type := world * list (N * N).

Definition wobs : Type := res (list N * res donto).

Fixpoint build_world (tbl : list (N * N)) (w : world) : res (list N * res onto) :=
  match w with
  | WBuilder s => run_script (ic32 (table_oracle tbl)) s
  | WBulk s tag first count => run_script_bulk (ic32 (table_oracle tbl)) s tag first (N.to_nat count)
  | WMany ver first stride count => run_many (ic32 (table_oracle tbl)) ver first stride (N.to_nat count)
  | WBytes b =>
      match decode (ic32 (table_oracle tbl)) b with
      | Panic => Panic
      | Fuel => Fuel
      | r => Ok ([], r)
      end
  | WJax tr obo genes hpoa =>
      match load_jax (ic32 (table_oracle tbl)) tr obo genes hpoa with
      | Panic => Panic
      | Fuel => Fuel
      | r => Ok ([], r)
      end
  | WSub w' root leaves =>
      do r <- build_world tbl w' ;;
      match snd r with
      | Ok o =>
          (* the harness takes root and leaves from the source ontology: ont.hpo(id).unwrap() *)
          match o_get root o with
          | None => Panic
          | Some rt =>
              if forallb (fun l => match o_get l o with Some _ => true | None => false end) leaves then
                match sub_ontology (ic32 (table_oracle tbl)) o rt leaves with
                | Panic => Panic
                | Fuel => Fuel
                | r' => Ok ([], r')
                end
              else Panic
          end
      | _ => Ok ([], snd r)
      end
  | WCustom w' cats mods =>
      do r <- build_world tbl w' ;;
      match snd r with
      | Ok o => Ok (fst r, Ok (set_cat (g_from_list cats) (set_mod (g_from_list mods) o)))
      | _ => Ok r
      end
  | WDefaults w' =>
      do r <- build_world tbl w' ;;
      match snd r with
      | Ok o =>
          match (do o1 <- set_default_categories o ;; set_default_modifier o1) with
          | Panic => Panic
          | Fuel => Fuel
          | r' => Ok (fst r, r')
          end
      | _ => Ok r
      end
  end.

Definition dump_res (r : res onto) : res donto :=
  match r with Ok o => dump_onto o | Err e => Err e | Panic => Panic | Fuel => Fuel end.

Definition run_W (i : winput) : wobs :=
  let (w, tbl) := i in
  do r <- build_world tbl w ;;
  let (codes, ro) := r : list N * res onto in
  Ok (codes, dump_res ro).

(* ---------------- accessors on the observation ---------------- *)

Definition d_id (t : dterm) : N := let '(id, _, _, _, _, _, _, _, _, _, _, _, _, _) := t in id.
Definition d_name (t : dterm) : list N := let '(_, x, _, _, _, _, _, _, _, _, _, _, _, _) := t in x.
Definition d_obsolete (t : dterm) : N := let '(_, _, x, _, _, _, _, _, _, _, _, _, _, _) := t in x.
Definition d_repl (t : dterm) : list N := let '(_, _, _, x, _, _, _, _, _, _, _, _, _, _) := t in x.
Definition d_replby (t : dterm) : list N := let '(_, _, _, _, x, _, _, _, _, _, _, _, _, _) := t in x.
Definition d_parents (t : dterm) : list N := let '(_, _, _, _, _, x, _, _, _, _, _, _, _, _) := t in x.
Definition d_children (t : dterm) : list N := let '(_, _, _, _, _, _, x, _, _, _, _, _, _, _) := t in x.
Definition d_allp (t : dterm) : list N := let '(_, _, _, _, _, _, _, x, _, _, _, _, _, _) := t in x.
Definition d_genes (t : dterm) : list N := let '(_, _, _, _, _, _, _, _, x, _, _, _, _, _) := t in x.
Definition d_omim (t : dterm) : list N := let '(_, _, _, _, _, _, _, _, _, x, _, _, _, _) := t in x.
Definition d_orpha (t : dterm) : list N := let '(_, _, _, _, _, _, _, _, _, _, x, _, _, _) := t in x.
Definition d_ic (t : dterm) : N * N * N := let '(_, _, _, _, _, _, _, _, _, _, _, x, _, _) := t in x.
Definition d_ismod (t : dterm) : N := let '(_, _, _, _, _, _, _, _, _, _, _, _, x, _) := t in x.
Definition d_cats (t : dterm) : list N := let '(_, _, _, _, _, _, _, _, _, _, _, _, _, x) := t in x.

Definition d_annots (k : kind) (t : dterm) : list N :=
  match k with KGene => d_genes t | KOmim => d_omim t | KOrpha => d_orpha t end.
Definition d_ick (k : kind) (t : dterm) : N :=
  let '(g, m, r) := d_ic t in match k with KGene => g | KOmim => m | KOrpha => r end.

Definition do_version (d : donto) : N * N * N := let '(x, _, _, _, _, _, _, _) := d in x.
Definition do_terms (d : donto) : list dterm := let '(_, x, _, _, _, _, _, _) := d in x.
Definition do_genes (d : donto) : list dannot := let '(_, _, x, _, _, _, _, _) := d in x.
Definition do_omim (d : donto) : list dannot := let '(_, _, _, x, _, _, _, _) := d in x.
Definition do_orpha (d : donto) : list dannot := let '(_, _, _, _, x, _, _, _) := d in x.
Definition do_cat (d : donto) : list N := let '(_, _, _, _, _, x, _, _) := d in x.
Definition do_mod (d : donto) : list N := let '(_, _, _, _, _, _, x, _) := d in x.
Definition do_len (d : donto) : N := let '(_, _, _, _, _, _, _, x) := d in x.
Definition do_records (k : kind) (d : donto) : list dannot :=
  match k with KGene => do_genes d | KOmim => do_omim d | KOrpha => do_orpha d end.

Definition da_id (r : dannot) : N := let '(x, _, _) := r in x.
Definition da_name (r : dannot) : list N := let '(_, x, _) := r in x.
Definition da_hpos (r : dannot) : list N := let '(_, _, x) := r in x.

Definition d_find (id : N) (d : donto) : option dterm := find_by d_id id (do_terms d).

(* the final ontology of an observation, when there is one *)
Definition obs_onto (o : wobs) : option donto :=
  match o with Ok (_, Ok d) => Some d | _ => None end.
