(* Run/C18.v — ontology comparison reports exactly the differences (C18) *)
From HpoV Require Import Gen.Consts Model.Base Model.Group Model.Onto Model.F32 Model.IC Model.Query
  Model.Dump Model.Script Model.Binary Model.Compare Spec.Sets Run.World Run.C01.

(* old world, new world, oracle table *)
Definition input_C18 : Type := world * world * list (N * N).

(* dumps of both ontologies; compare(old,new); compare(new,old); compare(old,old);
   compare(old, from_bytes(as_bytes(old))) when the reload succeeds *)
Definition obs_C18 : Type := res (donto * donto * cmp * cmp * cmp * list cmp).

Definition run_C18 (i : input_C18) : obs_C18 :=
  let '(w1, w2, tbl) := i in
  do r1 <- build_world tbl w1 ;;
  do o1 <- snd r1 ;;
  do r2 <- build_world tbl w2 ;;
  do o2 <- snd r2 ;;
  do d1 <- dump_onto o1 ;;
  do d2 <- dump_onto o2 ;;
  do c12 <- compare o1 o2 ;;
  do c21 <- compare o2 o1 ;;
  do c11 <- compare o1 o1 ;;
  do rt <- match decode (ic32 (table_oracle tbl)) (encode o1) with
           | Ok o1' => do c <- compare o1 o1' ;; Ok [c]
           | Err _ => Ok []
           | Panic => Panic
           | Fuel => Fuel
           end ;;
  Ok (d1, d2, c12, c21, c11, rt).

(* ---------------- the property, stated on the two observations ---------------- *)

Definition chg {A} (eqb : A -> A -> bool) (a b : A) : list A := if eqb a b then [] else [a; b].

(* what must be reported for a term present in both *)
Definition exp_tdelta (t1 t2 : dterm) : option tdelta :=
  let added := set_diff (d_parents t2) (d_parents t1) in
  let removed := set_diff (d_parents t1) (d_parents t2) in
  if list_eqb (d_name t1) (d_name t2) && list_eqb (d_parents t1) (d_parents t2)
     && (d_obsolete t1 =? d_obsolete t2) && list_eqb (d_replby t1) (d_replby t2)
  then None
  else Some (d_id t1, chg list_eqb (d_name t1) (d_name t2), added, removed,
             chg N.eqb (d_obsolete t1) (d_obsolete t2), chg list_eqb (d_replby t1) (d_replby t2)).

Definition exp_tcmp (d1 d2 : donto) : tcmp :=
  (set_diff (map d_id (do_terms d2)) (map d_id (do_terms d1)),
   set_diff (map d_id (do_terms d1)) (map d_id (do_terms d2)),
   somes (map (fun t1 => match d_find (d_id t1) d2 with
                         | Some t2 => exp_tdelta t1 t2
                         | None => None
                         end) (do_terms d1))).

Definition exp_adelta (r1 r2 : dannot) : option adelta :=
  if list_eqb (da_name r1) (da_name r2) && list_eqb (da_hpos r1) (da_hpos r2) then None
  else Some (da_id r1, chg list_eqb (da_name r1) (da_name r2), (Nlen (da_hpos r1), Nlen (da_hpos r2)),
             set_diff (da_hpos r2) (da_hpos r1), set_diff (da_hpos r1) (da_hpos r2)).

Definition exp_acmp (k : kind) (d1 d2 : donto) : acmp :=
  (set_diff (map da_id (do_records k d2)) (map da_id (do_records k d1)),
   set_diff (map da_id (do_records k d1)) (map da_id (do_records k d2)),
   somes (map (fun r1 => match find_by da_id (da_id r1) (do_records k d2) with
                         | Some r2 => exp_adelta r1 r2
                         | None => None
                         end) (do_records k d1))).

Definition exp_cmp (d1 d2 : donto) : cmp :=
  (exp_tcmp d1 d2, exp_acmp KGene d1 d2, exp_acmp KOmim d1 d2, exp_acmp KOrpha d1 d2).

(* flat serialisation, to compare two comparison reports *)
Definition ser_tdelta (d : tdelta) : list (list N) :=
  let '(id, nm, ad, rm, ob, rp) := d in [[id; Nlen nm; Nlen rp]] ++ nm ++ [ad; rm; ob] ++ rp.
Definition ser_adelta (d : adelta) : list (list N) :=
  let '(id, nm, (n1, n2), ad, rm) := d in [[id; Nlen nm; n1; n2]] ++ nm ++ [ad; rm].
Definition ser_tcmp (c : tcmp) : list (list N) :=
  let '(a, r, ch) := c in [a; r; [Nlen ch]] ++ concat (map ser_tdelta ch).
Definition ser_acmp (c : acmp) : list (list N) :=
  let '(a, r, ch) := c in [a; r; [Nlen ch]] ++ concat (map ser_adelta ch).
Definition ser_cmp (c : cmp) : list (list N) :=
  let '(t, g, m, r) := c in ser_tcmp t ++ ser_acmp g ++ ser_acmp m ++ ser_acmp r.

Definition cmp_eqb (a b : cmp) : bool := matrix_eqb (ser_cmp a) (ser_cmp b).

Definition empty_cmp : cmp := (([], [], []), ([], [], []), ([], [], []), ([], [], [])).

(* added <-> removed, and every delta mirrored *)
Definition swap_tdelta (d : tdelta) : tdelta :=
  let '(id, nm, ad, rm, ob, rp) := d in (id, rev nm, rm, ad, rev ob, rev rp).
Definition swap_adelta (d : adelta) : adelta :=
  let '(id, nm, (n1, n2), ad, rm) := d in (id, rev nm, (n2, n1), rm, ad).
Definition swap_cmp (c : cmp) : cmp :=
  let '((ta, tr, tc), (ga, gr, gc), (ma, mr, mc), (ra, rr, rc)) := c in
  ((tr, ta, map swap_tdelta tc), (gr, ga, map swap_adelta gc), (mr, ma, map swap_adelta mc), (rr, ra, map swap_adelta rc)).

Definition spec_C18 (i : input_C18) (o : obs_C18) : bool :=
  match o with
  | Ok (d1, d2, c12, c21, c11, rt) =>
      cmp_eqb c12 (exp_cmp d1 d2)
      && cmp_eqb c21 (exp_cmp d2 d1)
      && cmp_eqb c21 (swap_cmp c12)
      && cmp_eqb c11 empty_cmp
      && forallb (fun c => cmp_eqb c empty_cmp) rt
  | _ => true
  end.
