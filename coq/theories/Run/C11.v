(* Run/C11.v — distances and paths between terms (C11) *)
From HpoV Require Import Gen.Consts Model.Base Model.Group Model.Onto Model.Query Model.Dump
  Model.Script Spec.Sets Run.World Run.C01.

Definition encO (o : option N) : list N := match o with Some x => [x] | None => [] end.
Definition encP (o : option (list N)) : list (list N) := match o with Some x => [x] | None => [] end.

(* per ordered pair: a, b, distance_to_ancestor, path_to_ancestor, distance_to_term, path_to_term *)
Definition pair11 : Type := N * N * list N * list (list N) * list N * list (list N).

(* terms (id, parents, children, all parents) ascending by id, then all ordered pairs *)
Definition obs_C11 : Type := res (list p01 * list pair11).

Definition run_C11 (i : winput) : obs_C11 :=
  let (w, tbl) := i in
  do r <- build_world tbl w ;;
  do o <- snd r ;;
  do d <- dump_onto o ;;
  let ts := sort_by t_id (ar_terms (o_arena o)) in
  do ps <- mapM (fun ab : term * term =>
                   let (a, b) := ab in
                   do da <- dist_anc (q_fuel o) o a b ;;
                   do pa <- path_anc (q_fuel o) o a b ;;
                   do dt <- dist_term o a b ;;
                   do pt <- path_term o a b ;;
                   Ok (t_id a, t_id b, encO da, encP pa, encO dt, encP pt))
                (list_prod ts ts) ;;
  Ok (map proj01 (do_terms d), ps).

(* the same four queries on a chosen list of ordered pairs only (deep ontologies, where all pairs
   would be too many) *)
Definition input_C11d : Type := winput * list (N * N).

Definition run_C11d (i : input_C11d) : obs_C11 :=
  let '((w, tbl), pairs) := i in
  do r <- build_world tbl w ;;
  do o <- snd r ;;
  do d <- dump_onto o ;;
  do ps <- mapM (fun ab : N * N =>
                   do a <- opt_panic (o_get (fst ab) o) ;;
                   do b <- opt_panic (o_get (snd ab) o) ;;
                   do da <- dist_anc (q_fuel o) o a b ;;
                   do pa <- path_anc (q_fuel o) o a b ;;
                   do dt <- dist_term o a b ;;
                   do pt <- path_term o a b ;;
                   Ok (t_id a, t_id b, encO da, encP pa, encO dt, encP pt))
                pairs ;;
  Ok (map proj01 (do_terms d), ps).

(* ---------------- reference: shortest chains of parent links ---------------- *)

Definition parents_of (ts : list p01) (a : N) : list N :=
  match pfind a ts with Some t => p_parents t | None => [] end.

Fixpoint min_optN (l : list (option N)) : option N :=
  match l with
  | [] => None
  | None :: t => min_optN t
  | Some x :: t => match min_optN t with None => Some x | Some y => Some (N.min x y) end
  end.

(* length of a shortest chain a -> ... -> b along parent links using at most [fuel] links *)
Fixpoint sd (fuel : nat) (ts : list p01) (a b : N) : option N :=
  if a =? b then Some 0
  else match fuel with
       | O => None
       | S f => option_map N.succ (min_optN (map (fun p => sd f ts p b) (parents_of ts a)))
       end.

Definition up_set (ts : list p01) (a : N) : list N :=
  match pfind a ts with Some t => a :: p_allp t | None => [a] end.

(* min over common ancestors (selves included) of the two upward distances *)
Definition ref_dist_term (n : nat) (ts : list p01) (a b : N) : option N :=
  min_optN (map (fun c => match sd n ts a c, sd n ts b c with
                          | Some x, Some y => Some (x + y)
                          | _, _ => None
                          end)
                (filter (fun c => mem c (up_set ts b)) (up_set ts a))).

(* a chain of parent links from a through the listed terms *)
Fixpoint is_chain (ts : list p01) (a : N) (l : list N) : bool :=
  match l with
  | [] => true
  | x :: t => mem x (parents_of ts a) && is_chain ts x t
  end.

(* a walk along parent or child links *)
Fixpoint is_walk (ts : list p01) (a : N) (l : list N) : bool :=
  match l with
  | [] => true
  | x :: t => (mem x (parents_of ts a) || mem a (parents_of ts x)) && is_walk ts x t
  end.

Definition pair_ok (n : nat) (ts : list p01) (p : pair11) : bool :=
  let '(a, b, da, pa, dt, pt) := p in
  (* distance to an ancestor: length of a shortest chain, absent iff there is none *)
  list_eqb da (encO (sd n ts a b))
  (* path to an ancestor: an actual chain of exactly that length ending in b *)
  && match pa, sd n ts a b with
     | [], None => true
     | [l], Some d => is_chain ts a l && (Nlen l =? d) && (if a =? b then true else last l a =? b)
     | _, _ => false
     end
  (* distance between two terms: minimum over the common ancestors *)
  && list_eqb dt (encO (ref_dist_term n ts a b))
  (* path between two distinct terms: a walk of exactly that many steps that ends in b *)
  && (if a =? b then true
      else match pt, ref_dist_term n ts a b with
           | [], None => true
           | [l], Some d => is_walk ts a l && (Nlen l =? d) && (last l a =? b)
           | _, _ => false
           end).

Definition find_pair (a b : N) (ps : list pair11) : option pair11 :=
  find (fun p : pair11 => let '(x, y, _, _, _, _) := p in (x =? a) && (y =? b)) ps.

Definition dt_of (p : pair11) : list N := let '(_, _, _, _, dt, _) := p in dt.

Definition spec_C11 (i : winput) (o : obs_C11) : bool :=
  match o with
  | Ok (ts, ps) =>
      let n := length ts in
      (Nlen ps =? Nlen ts * Nlen ts)
      && forallb (pair_ok n ts) ps
      (* symmetry of the distance between two terms *)
      && forallb (fun p : pair11 => let '(a, b, _, _, dt, _) := p in
                    match find_pair b a ps with Some q => list_eqb dt (dt_of q) | None => false end) ps
  | _ => true
  end.

Definition spec_C11d (i : input_C11d) (o : obs_C11) : bool :=
  match o with
  | Ok (ts, ps) =>
      let n := length ts in
      (Nlen ps =? Nlen (snd i))
      && forallb (fun qp : (N * N) * pair11 => let '(a, b, _, _, _, _) := snd qp in (a =? fst (fst qp)) && (b =? snd (fst qp)))
                 (combine (snd i) ps)
      && forallb (pair_ok n ts) ps
  | _ => true
  end.
