(* Run/Ser.v — flat serialisation of observations, used to compare two observations inside Coq *)
From HpoV Require Import Gen.Consts Model.Base Model.Group Model.Onto Model.Query Model.Dump
  Model.Script Spec.Sets Run.World Run.C01.

Definition ser_term (t : dterm) : list (list N) :=
  let '(g, m, r) := d_ic t in
  [ [d_id t; d_obsolete t; d_ismod t; g; m; r]; d_name t; d_repl t; d_replby t; d_parents t; d_children t;
    d_allp t; d_genes t; d_omim t; d_orpha t; d_cats t ].

Definition ser_annot (r : dannot) : list (list N) := [ [da_id r]; da_name r; da_hpos r ].

Definition ser_donto (d : donto) : list (list N) :=
  let '(y, mo, dy) := do_version d in
  [ [y; mo; dy; do_len d; Nlen (do_terms d); Nlen (do_genes d); Nlen (do_omim d); Nlen (do_orpha d)];
    do_cat d; do_mod d ]
  ++ concat (map ser_term (do_terms d))
  ++ concat (map ser_annot (do_genes d))
  ++ concat (map ser_annot (do_omim d))
  ++ concat (map ser_annot (do_orpha d)).

Definition err_code (e : err) : N :=
  match e with
  | NotImplemented => 1 | DoesNotExist => 2 | ParseIntError => 3 | ParseBinaryError => 4
  | TryFromIntError => 5 | InvalidInput => 6 | OracleMissing => 7
  end.

Definition ser_res (r : res donto) : list (list N) :=
  match r with
  | Ok d => [0] :: ser_donto d
  | Err e => [[1; err_code e]]
  | Panic => [[2]]
  | Fuel => [[3]]
  end.

Definition res_donto_eqb (a b : res donto) : bool := matrix_eqb (ser_res a) (ser_res b).

Definition final_dump_of (o : wobs) : res donto :=
  match o with Ok (_, r) => r | Err e => Err e | Panic => Panic | Fuel => Fuel end.
