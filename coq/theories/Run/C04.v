(* Run/C04.v — built-in term similarities follow their definitions, symmetric and finite (C04) *)
From HpoV Require Import Gen.Consts Model.Base Model.Group Model.Onto Model.F32 Model.IC Model.Query
  Model.Dump Model.Script Model.Similarity Spec.Sets Run.World Run.C01 Run.C03 Run.C11.

(* world, f32::ln table, f32::exp table (bits -> bits) *)
Definition input_C04 : Type := world * list (N * N) * list (N * N).

(* a similarity value: the f32 bit pattern, or a marker above 2^32 when there is no value *)
Definition enc_res (r : res f32) : N :=
  match r with Ok x => to_bits x | Panic => 4294967297 | Err _ => 4294967298 | Fuel => 4294967299 end.

(* dump of the ontology; per ordered pair of terms (ascending ids): a, b and the 24 scores,
   algorithm-major (GraphIc, Resnik, Lin, Jc, Relevance, InformationCoefficient, Distance, Mutation)
   each for Gene, Omim, Orpha *)
Definition obs_C04 : Type := res (donto * list (N * N * list N)).

Definition ic_of (k : kind) (t : term) : f32 :=
  let '(g, m, r) := t_ic t in of_bits (match k with KGene => g | KOmim => m | KOrpha => r end).

Definition is0 (x : f32) : bool := feq x f_zero.

Definition exp_oracle (tbl : list (N * N)) (x : f32) : res f32 :=
  match table_oracle tbl (to_bits x) with Some r => Ok (of_bits r) | None => Err OracleMissing end.

Definition sim32 (etbl : list (N * N)) :=
  similarity f32 fadd fsub fmul fdiv fgt is0 f_zero f_nzero f_one f_two f_mone f_of_N (exp_oracle etbl) ic_of.

Definition run_C04 (i : input_C04) : obs_C04 :=
  let '(w, tbl, etbl) := i in
  do r <- build_world tbl w ;;
  do o <- snd r ;;
  do d <- dump_onto o ;;
  let ts := sort_by t_id (ar_terms (o_arena o)) in
  Ok (d, map (fun ab : term * term =>
                let (a, b) := ab in
                (t_id a, t_id b,
                 flat_map (fun g => map (fun k => enc_res (sim32 etbl g o k a b)) all_kinds) all_algs))
             (list_prod ts ts)).

(* ---------------- the property, evaluated on the observation ---------------- *)

Section Ref.
  Variable etbl : list (N * N).
  Variable d : donto.

  Definition dic (k : kind) (id : N) : f32 :=
    match d_find id d with Some t => of_bits (d_ick k t) | None => f_zero end.
  Definition dallp (id : N) : list N := match d_find id d with Some t => d_allp t | None => [] end.
  Definition dann (k : kind) (id : N) : list N := match d_find id d with Some t => d_annots k t | None => [] end.

  (* ancestors including the term itself / the union of the proper ancestors, ascending *)
  Definition up (id : N) : list N := set_of (id :: dallp id).
  Definition common_all (a b : N) : list N := set_inter (up a) (up b).
  Definition union_anc (a b : N) : list N := set_union (dallp a) (dallp b).

  Definition sum_dic (k : kind) (ids : list N) : f32 := fold_left (fun acc x => fadd acc (dic k x)) ids f_nzero.

  Definition r_resnik (k : kind) (a b : N) : f32 :=
    fold_left (fun mx x => if fgt (dic k x) mx then dic k x else mx) (common_all a b) f_zero.

  Definition r_lin (k : kind) (a b : N) : f32 :=
    let s := fadd (dic k a) (dic k b) in
    if is0 s then f_zero else fdiv (fmul f_two (r_resnik k a b)) s.

  Definition ref_sim (g : alg) (k : kind) (a b : N) : res f32 :=
    match g with
    | AGraphIc =>
        if a =? b then Ok f_one
        else let u := sum_dic k (union_anc a b) in
             if is0 u then Ok f_zero else Ok (fdiv (sum_dic k (common_all a b)) u)
    | AResnik => Ok (r_resnik k a b)
    | ALin => Ok (r_lin k a b)
    | AJc =>
        if a =? b then Ok f_one
        else if is0 (dic k a) || is0 (dic k b) then Ok f_zero
        else Ok (fdiv f_one (fadd (fsub (fadd (dic k a) (dic k b)) (fmul f_two (r_resnik k a b))) f_one))
    | ARelevance =>
        do e <- exp_oracle etbl (fmul (r_resnik k a b) f_mone) ;;
        Ok (fmul (r_lin k a b) (fsub f_one e))
    | AInfCoef => Ok (fmul (r_lin k a b) (fsub f_one (fdiv f_one (fadd f_one (r_resnik k a b)))))
    | ADistance =>
        let ts := map proj01 (do_terms d) in
        match ref_dist_term (length ts) ts a b with
        | None => Ok f_zero
        | Some n => if 65535 <? n then Panic else Ok (fdiv f_one (fadd (f_of_N n) f_one))
        end
    | AMutation =>
        if a =? b then Ok f_one
        else let u := set_union (dann k a) (dann k b) in
             match u with
             | [] => Ok f_zero
             | _ => Ok (fdiv (f_of_N (Nlen (set_inter (dann k a) (dann k b)))) (f_of_N (Nlen u)))
             end
    end.

  Definition ref_scores (a b : N) : list N :=
    flat_map (fun g => map (fun k => enc_res (ref_sim g k a b)) all_kinds) all_algs.
End Ref.

(* finite and >= 0 (either zero), never NaN *)
Definition score_ok (bits : N) : bool := nonneg_finite bits.

Definition find_scores (a b : N) (ps : list (N * N * list N)) : option (list N) :=
  match find (fun p : N * N * list N => (fst (fst p) =? a) && (snd (fst p) =? b)) ps with
  | Some p => Some (snd p)
  | None => None
  end.

(* positions in the 24-vector *)
Definition at24 (g k : nat) (l : list N) : N := nth (g * 3 + k) l 4294967299.

Definition spec_C04 (i : input_C04) (o : obs_C04) : bool :=
  let '(_, _, etbl) := i in
  match o with
  | Ok (d, ps) =>
      let ids := map d_id (do_terms d) in
      (Nlen ps =? Nlen ids * Nlen ids)
      && forallb (fun p : N * N * list N =>
           let '(a, b, sc) := p in
           (* the value of the documented formula *)
           list_eqb sc (ref_scores etbl d a b)
           (* finite, >= 0, never NaN *)
           && forallb score_ok sc
           (* independent of the argument order *)
           && match find_scores b a ps with Some sc' => list_eqb sc sc' | None => false end
           (* a term compared with itself: 1 for GraphIC, Jiang-Conrath, Distance, Mutation *)
           && (if a =? b then
                 forallb (fun g => forallb (fun k => at24 g k sc =? 1065353216) [0; 1; 2]%nat) [0; 3; 6; 7]%nat
               else true)
           (* two distinct terms without any annotation: Mutation 0 *)
           && (if negb (a =? b) then
                 forallb (fun kk : nat * kind =>
                            match dann d (snd kk) a, dann d (snd kk) b with
                            | [], [] => at24 7 (fst kk) sc =? 0
                            | _, _ => true
                            end) [(0%nat, KGene); (1%nat, KOmim); (2%nat, KOrpha)]
               else true)) ps
  | _ => true
  end.
