(* Run/C03f.v — InformationContent::set_gene / set_omim_disease / set_orpha_disease (the public entry
   points of InformationContent::calculate, term/information_content.rs:59-104) on arbitrary
   (total, current) pairs: large totals with counts just below them, the u16 border, zeros. *)
From HpoV Require Import Gen.Consts Model.Base Model.Group Model.Onto Model.F32 Model.IC Run.World Run.C03.

(* pairs (total, current); oracle table for logf on exactly the quotients that occur *)
Definition input_C03f : Type := list (N * N) * list (N * N).

(* per pair and kind: [bits] for Ok, [code] (1 = TryFromIntError, 99 = other) otherwise — as (0, bits) / (1, code) *)
Definition enc_ic (r : res N) : N * N :=
  match r with Ok v => (0, v) | Err TryFromIntError => (1, 1) | Err _ => (1, 99) | Panic => (2, 0) | Fuel => (3, 0) end.

Definition obs_C03f : Type := list ((N * N) * (N * N) * (N * N)).

Definition run_C03f (i : input_C03f) : obs_C03f :=
  let (pairs, tbl) := i in
  map (fun p : N * N => let r := enc_ic (ic32 (table_oracle tbl) (fst p) (snd p)) in (r, r, r)) pairs.

(* the documented value for every pair and each of the three setters: 0 when either count is 0, an
   error above u16::MAX, otherwise the bits of -ln(current/total) in binary32 (>= 0 and finite when
   current <= total) — all three kinds alike *)
Definition spec_C03f (i : input_C03f) (o : obs_C03f) : bool :=
  let (pairs, tbl) := i in
  (Nlen o =? Nlen pairs) &&
  forallb (fun po : (N * N) * ((N * N) * (N * N) * (N * N)) =>
     let '((total, current), (g, m, r)) := po in
     let want := enc_ic (ic32 (table_oracle tbl) total current) in
     let eqp (a b : N * N) := (fst a =? fst b) && (snd a =? snd b) in
     eqp g want && eqp m want && eqp r want
     && (if (total =? 0) || (current =? 0) then eqp g (0, 0)
         else if (65535 <? total) || (65535 <? current) then eqp g (1, 1)
         else (fst g =? 0) && (if current <=? total then nonneg_finite (snd g) else true))
     (* a term that carries fewer than all records has a strictly positive information content *)
     && (if (0 <? current) && (current <? total) && (total <=? 65535) then negb (snd g =? 0) && negb (snd g =? 2147483648) else true))
    (combine pairs o).
