(* Run/C03.v — information content = -ln(n/N) per kind (C03) *)
From HpoV Require Import Gen.Consts Model.Base Model.Group Model.Onto Model.F32 Model.IC Model.Query
  Model.Dump Model.Script Spec.Sets Run.World.

(* per term: id, all parents, gene / omim / orpha ids, ic bits read through gene() / omim_disease() /
   orpha_disease(), the same read through get_kind(Gene | Omim | Orpha); then the three record counts *)
Definition p03 : Type := N * list N * list N * list N * list N * (N * N * N) * (N * N * N).
Definition r_id (t : p03) : N := let '(x, _, _, _, _, _, _) := t in x.
Definition r_allp (t : p03) : list N := let '(_, x, _, _, _, _, _) := t in x.
Definition r_n (k : kind) (t : p03) : N :=
  let '(_, _, g, m, r, _, _) := t in Nlen (match k with KGene => g | KOmim => m | KOrpha => r end).
Definition r_ic (k : kind) (t : p03) : N :=
  let '(_, _, _, _, _, (g, m, r), _) := t in match k with KGene => g | KOmim => m | KOrpha => r end.
Definition r_ick (k : kind) (t : p03) : N :=
  let '(_, _, _, _, _, _, (g, m, r)) := t in match k with KGene => g | KOmim => m | KOrpha => r end.

Definition obs_C03 : Type := res (list p03 * (N * N * N)).

(* InformationContent::get_kind selects the field of that kind *)
Definition proj03 (t : dterm) : p03 := (d_id t, d_allp t, d_genes t, d_omim t, d_orpha t, d_ic t, d_ic t).

Definition run_C03 (i : winput) : obs_C03 :=
  let (w, tbl) := i in
  do r <- build_world tbl w ;;
  do o <- snd r ;;
  do d <- dump_onto o ;;
  Ok (map proj03 (do_terms d), (Nlen (do_genes d), Nlen (do_omim d), Nlen (do_orpha d))).

Definition totalk (k : kind) (c : N * N * N) : N :=
  let '(g, m, r) := c in match k with KGene => g | KOmim => m | KOrpha => r end.

(* a finite f32 that is >= 0 (either zero allowed) *)
Definition nonneg_finite (bits : N) : bool :=
  ((bits <? 2139095040) (* sign clear, exponent < 255 *)) || (bits =? 2147483648) (* -0.0 *).

Definition fle (a b : N) : bool := let x := of_bits a in let y := of_bits b in flt x y || feq x y.

Definition rfind (id : N) (ts : list p03) : option p03 := find_by r_id id ts.

Definition kind_ic_ok (tbl : list (N * N)) (ts : list p03) (c : N * N * N) (k : kind) : bool :=
  forallb (fun t =>
     (* the value of the formula *)
     match ic32 (table_oracle tbl) (totalk k c) (r_n k t) with
     | Ok v => (r_ic k t =? v)
     | _ => false
     end
     && nonneg_finite (r_ic k t)
     (* get_kind (kind) is the accessor of that kind *)
     && (r_ick k t =? r_ic k t)
     (* 0 when n or N is 0 *)
     && (if (totalk k c =? 0) || (r_n k t =? 0) then r_ic k t =? 0 else true)
     (* never decreases from an ancestor to a descendant that carries an annotation *)
     && (if r_n k t =? 0 then true
         else forallb (fun a => match rfind a ts with
                                | Some ta => fle (r_ic k ta) (r_ic k t)
                                | None => false
                                end) (r_allp t))) ts.

Definition spec_C03 (i : winput) (o : obs_C03) : bool :=
  match o with
  | Ok (ts, c) =>
      kind_ic_ok (snd i) ts c KGene && kind_ic_ok (snd i) ts c KOmim && kind_ic_ok (snd i) ts c KOrpha
  | _ => true
  end.
