(* Run/C14.v — sub-ontologies (C14) *)
From HpoV Require Import Gen.Consts Model.Base Model.Group Model.Onto Model.F32 Model.IC Model.Query
  Model.Dump Model.Script Model.SubOnt Spec.Sets Run.World Run.C01 Run.C02 Run.C03 Run.C11.

(* source world, oracle table, root id, leaf ids *)
Definition input_C14 : Type := world * list (N * N) * N * list N.

(* dump of the source ontology, result of sub_ontology *)
Definition obs_C14 : Type := res (donto * res donto).

Definition run_C14 (i : input_C14) : obs_C14 :=
  let '(w, tbl, root, leaves) := i in
  do r <- build_world tbl w ;;
  do o <- snd r ;;
  do d <- dump_onto o ;;
  do r' <- build_world tbl (WSub w root leaves) ;;
  Ok (d, dump_res (snd r')).

(* ---------------- the property ---------------- *)

Definition opt_add (a b : option N) : option N :=
  match a, b with Some x, Some y => Some (x + y) | _, _ => None end.
Definition optN_eqb (a b : option N) : bool :=
  match a, b with Some x, Some y => x =? y | None, None => true | _, _ => false end.

Definition expected_records (d : donto) (k : kind) (retained : list N) : list dannot :=
  let keep (r : dannot) :=
    existsb (fun t => mem t retained &&
               match d_find t d with Some dt => d_ismod dt =? 0 | None => false end) (da_hpos r) in
  map (fun r => (da_id r, da_name r, filter (fun t => mem t retained) (da_hpos r)))
      (filter keep (do_records k d)).

Definition spec_C14 (i : input_C14) (o : obs_C14) : bool :=
  let '(w, tbl, root, leaves) := i in
  match o with
  | Ok (d, rs) =>
      let ts := map proj01 (do_terms d) in
      let n := length ts in
      let below (l : N) := (l =? root) || match pfind l ts with Some t => mem root (p_allp t) | None => false end in
      match leaves with
      | [] => true                                   (* the property speaks about non-empty collections *)
      | _ =>
          if forallb below leaves then
            match rs with
            | Ok s =>
                let retained := map d_id (do_terms s) in
                let sts := map proj01 (do_terms s) in
                (* contains root and every leaf *)
                mem root retained && forallb (fun l => mem l retained) leaves
                (* only terms on a shortest parent chain from some leaf to root *)
                && forallb (fun t => existsb (fun l =>
                       match sd n ts l root with
                       | Some dl => optN_eqb (opt_add (sd n ts l t) (sd n ts t root)) (Some dl)
                       | None => false
                       end) leaves) retained
                (* names and flags are copied *)
                && forallb (fun st => match d_find (d_id st) d with
                                      | Some t => list_eqb (d_name st) (d_name t) && (d_obsolete st =? d_obsolete t)
                                                  && list_eqb (d_repl st) (d_repl t)
                                      | None => false
                                      end) (do_terms s)
                (* exactly the original parent links between retained terms *)
                && forallb (fun st => match pfind (p_id st) ts with
                                      | Some t => list_eqb (p_parents st) (filter (fun p => mem p retained) (p_parents t))
                                      | None => false
                                      end) sts
                (* every leaf reaches root at its original distance *)
                && forallb (fun l => optN_eqb (sd n sts l root) (sd n ts l root)) leaves
                (* genes / diseases: kept iff directly annotated to a retained non-modifier term *)
                && dannots_eqb (do_genes s) (expected_records d KGene retained)
                && dannots_eqb (do_omim s) (expected_records d KOmim retained)
                && dannots_eqb (do_orpha s) (expected_records d KOrpha retained)
                (* the result again satisfies closure, inheritance and information content *)
                && closure_ok sts
                && (let qs := map proj02 (do_terms s) in
                    kind_ok qs KGene (do_genes s) && kind_ok qs KOmim (do_omim s) && kind_ok qs KOrpha (do_orpha s))
                && (let rs3 := map proj03 (do_terms s) in
                    let c := (Nlen (do_genes s), Nlen (do_omim s), Nlen (do_orpha s)) in
                    kind_ic_ok tbl rs3 c KGene && kind_ic_ok tbl rs3 c KOmim && kind_ic_ok tbl rs3 c KOrpha)
            | _ => false
            end
          else
            (* refused when some leaf is neither root nor a descendant of root *)
            match rs with Err NotImplemented => true | _ => false end
      end
  | _ => true
  end.
