(* Run/C02.v — annotations reach exactly the ancestors; records stay direct (C02) *)
From HpoV Require Import Gen.Consts Model.Base Model.Group Model.Onto Model.Query Model.Dump
  Model.Script Spec.Sets Run.World.

(* per term: id, all parents, gene ids, omim ids, orpha ids *)
Definition p02 : Type := N * list N * list N * list N * list N.
Definition q_id (t : p02) : N := let '(x, _, _, _, _) := t in x.
Definition q_allp (t : p02) : list N := let '(_, x, _, _, _) := t in x.
Definition q_annots (k : kind) (t : p02) : list N :=
  let '(_, _, g, m, r) := t in match k with KGene => g | KOmim => m | KOrpha => r end.

(* terms, gene / omim / orpha records (id, name, direct terms), and for a probe list of ids the
   presence of a record with that id in each of the three maps *)
Definition obs_C02 : Type :=
  res (list p02 * list dannot * list dannot * list dannot * list (N * N * N * N)).

Definition proj02 (t : dterm) : p02 := (d_id t, d_allp t, d_genes t, d_omim t, d_orpha t).

Definition probe_ids (d : donto) : list N :=
  set_of (0 :: 4294967295 :: map da_id (do_genes d) ++ map da_id (do_omim d) ++ map da_id (do_orpha d)).

Definition presentN (id : N) (l : list annot) : N :=
  match an_find id l with Some r => boolN (a_id r =? id) | None => 0 end.

Definition run_C02 (i : winput) : obs_C02 :=
  let (w, tbl) := i in
  do r <- build_world tbl w ;;
  do o <- snd r ;;
  do d <- dump_onto o ;;
  Ok (map proj02 (do_terms d), do_genes d, do_omim d, do_orpha d,
      map (fun id => (id, presentN id (o_genes o), presentN id (o_omim o), presentN id (o_orpha o)))
          (probe_ids d)).

(* ---------------- the property, executable ---------------- *)

Definition qfind (id : N) (ts : list p02) : option p02 := find_by q_id id ts.

(* t is d itself or an ancestor of d *)
Definition reaches (ts : list p02) (d t : N) : bool :=
  (d =? t) || match qfind d ts with Some td => mem t (q_allp td) | None => false end.

(* ids of the records that have a direct term at t or below t *)
Definition inherited (ts : list p02) (recs : list dannot) (t : N) : list N :=
  set_of (map da_id (filter (fun r => existsb (fun d => reaches ts d t) (da_hpos r)) recs)).

Definition recs_ok (ts : list p02) (recs : list dannot) : bool :=
  ascb (map da_id recs)
  && forallb (fun r => ascb (da_hpos r) &&
                forallb (fun d => match qfind d ts with Some _ => true | None => false end) (da_hpos r)) recs.

Definition kind_ok (ts : list p02) (k : kind) (recs : list dannot) : bool :=
  recs_ok ts recs
  && forallb (fun t => list_eqb (q_annots k t) (inherited ts recs (q_id t))) ts.

(* what the Builder script asks for, kind by kind *)
Definition term_exists (s : script) (id : N) : bool :=
  let '(_, terms, _, _, _) := s in
  (id <? MAX_HPO_ID) && existsb (fun t => fst t =? id) terms.

Definition ops_of (s : script) : list annot_op := let '(_, _, _, a, _) := s in a.

Definition tagk (k : kind) : N := match k with KGene => 0 | KOmim => 1 | KOrpha => 2 end.

(* the ops of kind k that create or touch a record: add_* always, annotate_* when the term exists *)
Definition effective (s : script) (k : kind) : list annot_op :=
  filter (fun op => let '(tag, _, tid, _) := op in
                    (tag =? tagk k) || ((tag =? 3 + tagk k) && term_exists s tid)) (ops_of s).

Definition op_id (op : annot_op) : N := let '(_, id, _, _) := op in id.
Definition op_tid (op : annot_op) : N := let '(_, _, tid, _) := op in tid.
Definition op_tag (op : annot_op) : N := let '(tag, _, _, _) := op in tag.
Definition op_name (op : annot_op) : list N := let '(_, _, _, nm) := op in nm.

Definition expected_records (s : script) (k : kind) : list dannot :=
  let eff := effective s k in
  map (fun id =>
         (id,
          match find_by op_id id eff with Some op => op_name op | None => [] end,   (* first name wins *)
          set_of (map op_tid (filter (fun op => (op_id op =? id) && (3 <=? op_tag op)) eff))))
      (set_of (map op_id eff)).

Fixpoint dannots_eqb (a b : list dannot) : bool :=
  match a, b with
  | [], [] => true
  | x :: a', y :: b' =>
      (da_id x =? da_id y) && list_eqb (da_name x) (da_name y) && list_eqb (da_hpos x) (da_hpos y)
      && dannots_eqb a' b'
  | _, _ => false
  end.

Definition probes_ok (gs ms rs : list dannot) (pr : list (N * N * N * N)) : bool :=
  forallb (fun p => let '(id, g, m, r) := p in
                    (g =? boolN (mem id (map da_id gs))) && (m =? boolN (mem id (map da_id ms)))
                    && (r =? boolN (mem id (map da_id rs)))) pr.

Definition spec_C02 (i : winput) (o : obs_C02) : bool :=
  match o with
  | Ok (ts, gs, ms, rs, pr) =>
      ascb (map q_id ts)
      && kind_ok ts KGene gs && kind_ok ts KOmim ms && kind_ok ts KOrpha rs
      && probes_ok gs ms rs pr
      && match fst i with
         | WBuilder s =>
             dannots_eqb gs (expected_records s KGene)
             && dannots_eqb ms (expected_records s KOmim)
             && dannots_eqb rs (expected_records s KOrpha)
         | _ => true
         end
  | _ => true
  end.
