(* Run/C20.v — term-id text and byte conversions (C20) *)
From HpoV Require Import Gen.Consts Model.Base Model.Binary Model.TermId Spec.Sets.

(* kind 0: ids    -> per id: rendering, parse of the rendering, be bytes, id from be bytes
   kind 1: texts  -> per text: parse result ([n] | [] for an error); a panic aborts the case
   kind 2: sweep  -> number of ids in 0..10^7 (+ u32 borders) whose round trips fail: the harness
                     runs the sweep on the crate; the model's answer is 0 by theorem C20_parse_show *)
Definition case_C20 : Type := N * list N * list (list N).
Definition obs_C20 : Type := res (list (list N)).

Definition encR (r : res N) : list N := match r with Ok n => [n] | _ => [] end.

Definition run_C20 (c : case_C20) : obs_C20 :=
  let '(k, ids, texts) := c in
  match k with
  | 0 => Ok (concat (map (fun n => [show n; encR (parse_id (show n)); id_to_be n;
                                    optN (id_of_be (id_to_be n))]) ids))
  | 1 => Ok (map (fun s => encR (parse_id s)) texts)
  | _ => Ok [[0]]
  end.

(* the property, stated without the model's parser: the rendering is "HP:" + zero-padded decimal,
   parsing returns the id exactly when the text after the three-byte prefix is an unsigned 32-bit
   decimal literal *)
Definition is_digit (d : N) : bool := (48 <=? d) && (d <=? 57).
Definition value_of (l : list N) : N := fold_left (fun acc d => acc * 10 + (d - 48)) l 0.

Definition literal_value (s : list N) : option N :=
  let body := match s with 43 :: t => t | _ => s end in
  match body with
  | [] => None
  | _ => if forallb is_digit body && (value_of body <=? U32_MAX) then Some (value_of body) else None
  end.

Definition expected_parse (s : list N) : list N :=
  if Nlen s <? 4 then []
  else if negb (is_char_boundary s 3) then []
  else optN (literal_value (skipn 3 s)).

Fixpoint spec_ids (ids : list N) (o : list (list N)) : bool :=
  match ids, o with
  | [], [] => true
  | n :: ids', sh :: pr :: be :: fb :: o' =>
      (* "HP:" + at least seven digits, zero padded, value n *)
      list_eqb (firstn 3 sh) [72; 80; 58]
      && forallb is_digit (skipn 3 sh) && (value_of (skipn 3 sh) =? n)
      && (Nlen sh =? 3 + N.max 7 (Nlen (digits (width n) n)))
      && list_eqb pr [n]
      && list_eqb be (to_be32 n) && list_eqb fb [n]
      && spec_ids ids' o'
  | _, _ => false
  end.

Definition spec_C20 (c : case_C20) (o : obs_C20) : bool :=
  let '(k, ids, texts) := c in
  match o with
  | Ok l =>
      match k with
      | 0 => spec_ids ids l
      | 1 => (Nlen l =? Nlen texts) && forallb (fun p => list_eqb (fst p) (expected_parse (snd p))) (combine l texts)
      | _ => match l with [[0]] => true | _ => false end
      end
  | _ => false          (* parsing arbitrary text never panics *)
  end.
