(* Run/C19.v — default categories and modifiers (C19) *)
From HpoV Require Import Gen.Consts Model.Base Model.Group Model.Onto Model.Query Model.Dump
  Model.Script Spec.Sets Run.World Run.C02.

(* per term: id, all parents, children, is_modifier, categories; then ontology categories, modifier *)
Definition p19 : Type := N * list N * list N * N * list N.
Definition s_id (t : p19) : N := let '(x, _, _, _, _) := t in x.
Definition s_allp (t : p19) : list N := let '(_, x, _, _, _) := t in x.
Definition s_children (t : p19) : list N := let '(_, _, x, _, _) := t in x.
Definition s_ismod (t : p19) : N := let '(_, _, _, x, _) := t in x.
Definition s_cats (t : p19) : list N := let '(_, _, _, _, x) := t in x.

Definition obs_C19 : Type := res (list p19 * list N * list N).

Definition proj19 (t : dterm) : p19 := (d_id t, d_allp t, d_children t, d_ismod t, d_cats t).

Definition run_C19 (i : winput) : obs_C19 :=
  let (w, tbl) := i in
  do r <- build_world tbl w ;;
  do o <- snd r ;;
  do d <- dump_onto o ;;
  Ok (map proj19 (do_terms d), do_cat d, do_mod d).

Definition sfind (id : N) (ts : list p19) : option p19 := find_by s_id id ts.

Definition self_or_anc (t : p19) (r : N) : bool := (r =? s_id t) || mem r (s_allp t).

Definition builder_defaults (w : world) : option script :=
  match w with
  | WBuilder s => let '(_, _, _, _, kb) := s in if kb =? 1 then Some s else None
  | _ => None
  end.

(* the documented default sets and per-term classification *)
Definition defaults_ok (ts : list p19) (cat mo : list N) : bool :=
  match sfind 1 ts, sfind 118 ts with
  | Some root, Some ph =>
      let mods := set_of (filter (fun c => negb (c =? 118)) (s_children root)) in
      list_eqb mo mods
      && list_eqb cat (set_of (mods ++ s_children ph))
      && forallb (fun t =>
            (s_ismod t =? boolN (existsb (self_or_anc t) mo))
            && list_eqb (s_cats t) (filter (self_or_anc t) cat)
            && ascb (s_cats t)) ts
  | _, _ => false
  end.

Definition spec_C19 (i : winput) (o : obs_C19) : bool :=
  match fst i with
  | WBytes _ | WJax _ _ _ _ =>
      (* every binary load and every JAX load ends in build_with_defaults *)
      match o with Ok (ts, cat, mo) => defaults_ok ts cat mo | _ => true end
  | WSub _ _ _ => true                   (* sub_ontology ends in build_minimal: no defaults *)
  | WBulk _ _ _ _ => true                (* generated for C03 only *)
  | WMany _ _ _ _ => true                (* generated for C10 only; build_minimal *)
  | WDefaults _ =>                       (* the two public setters called on an existing ontology: the defaults, whatever was set before *)
      match o with Ok (ts, cat, mo) => defaults_ok ts cat mo | _ => true end
  | WCustom _ _ _ =>                     (* user-chosen groups: the queries follow the groups that are set *)
      match o with
      | Ok (ts, cat, mo) =>
          forallb (fun t =>
            (s_ismod t =? boolN (existsb (self_or_anc t) mo))
            && list_eqb (s_cats t) (filter (self_or_anc t) cat)
            && ascb (s_cats t)) ts
      | _ => true
      end
  | WBuilder s =>
      match builder_defaults (fst i) with
      | None => true                       (* build_minimal: no defaults requested *)
      | Some _ =>
          let roots_present := term_exists s 1 && term_exists s 118 in
          match o with
          | Ok (ts, cat, mo) => roots_present && defaults_ok ts cat mo
          | Err DoesNotExist => negb roots_present
          | Panic => let '(_, terms, _, _, _) := s in existsb (fun t => MAX_HPO_ID <=? fst t) terms
          | _ => false
          end
      end
  end.
