(* Run/C16.v — the ontology is a function of the facts, not of their order (C16) *)
From HpoV Require Import Gen.Consts Model.Base Model.Group Model.Onto Model.Query Model.Dump
  Model.Script Spec.Sets Run.World Run.C01 Run.Ser.

(* several constructions of the same fact set (different orders / paths), one oracle table *)
Definition input_C16 : Type := list world * list (N * N).
Definition obs_C16 : Type := list (res donto).

Definition final_dump (o : wobs) : res donto :=
  match o with Ok (_, r) => r | Err e => Err e | Panic => Panic | Fuel => Fuel end.

Definition run_C16 (i : input_C16) : obs_C16 :=
  map (fun w => final_dump (run_W (w, snd i))) (fst i).

Definition spec_C16 (i : input_C16) (o : obs_C16) : bool :=
  match o with
  | [] => true
  | first :: rest => forallb (res_donto_eqb first) rest
  end.
