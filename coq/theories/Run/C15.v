(* Run/C15.v — rejected builder calls have no effect; no dangling ids (C15) *)
From HpoV Require Import Gen.Consts Model.Base Model.Group Model.Onto Model.Query Model.Dump
  Model.Script Spec.Sets Run.World Run.C01 Run.C02 Run.Ser.

(* the script restricted to the calls whose result code is 0 *)
Fixpoint keep_ok {A} (ops : list A) (codes : list N) : list A * list N :=
  match ops with
  | [] => ([], codes)
  | op :: t =>
      match codes with
      | [] => (ops, [])
      | c :: cs => let (t', rest) := keep_ok t cs in ((if c =? 0 then op :: t' else t'), rest)
      end
  end.

Definition filter_script (s : script) (codes : list N) : script :=
  let '(ver, terms, parents, annots, kb) := s in
  let (parents', rest) := keep_ok parents codes in
  let (annots', _) := keep_ok annots rest in
  (ver, terms, parents', annots', kb).

(* observation: the full run, and the run of the script without the failing calls *)
Definition obs_C15 : Type := wobs * wobs.

Definition run_C15 (i : winput) : obs_C15 :=
  let full := run_W i in
  match fst i, full with
  | WBuilder s, Ok (codes, _) => (full, run_W (WBuilder (filter_script s codes), snd i))
  | _, _ => (full, full)
  end.

(* every id handed out by the read API resolves *)
Definition has_term (d : donto) (id : N) : bool := match d_find id d with Some _ => true | None => false end.
Definition has_rec (l : list dannot) (id : N) : bool := mem id (map da_id l).

Definition ref_closed (d : donto) : bool :=
  forallb (fun t =>
     forallb (has_term d) (d_parents t) && forallb (has_term d) (d_children t)
     && forallb (has_term d) (d_allp t)
     && forallb (has_rec (do_genes d)) (d_genes t) && forallb (has_rec (do_omim d)) (d_omim t)
     && forallb (has_rec (do_orpha d)) (d_orpha t)) (do_terms d)
  && forallb (fun r => forallb (has_term d) (da_hpos r)) (do_genes d ++ do_omim d ++ do_orpha d)
  && forallb (has_term d) (do_cat d) && forallb (has_term d) (do_mod d).

(* which calls must fail: exactly those that name an absent term *)
Definition expected_codes (s : script) : list N :=
  let '(_, _, parents, annots, _) := s in
  map (fun pc => boolN (negb (term_exists s (fst pc) && term_exists s (snd pc)))) parents
  ++ map (fun op => if op_tag op <? 3 then 0 else boolN (negb (term_exists s (op_tid op)))) annots.

Definition no_panic_expected (s : script) : bool :=
  let '(_, terms, _, _, _) := s in forallb (fun t => fst t <? MAX_HPO_ID) terms.

Definition spec_C15 (i : winput) (o : obs_C15) : bool :=
  match fst i with
  | WBuilder s =>
      let (full, filt) := o in
      match full, filt with
      | Ok (codes, r), Ok (codes', r') =>
          no_panic_expected s
          && list_eqb codes (expected_codes s)
          && forallb (fun c => c =? 0) codes'
          (* a failing call leaves no trace: same ontology as from the successful calls alone *)
          && res_donto_eqb r r'
          (* the read API is total and referentially closed *)
          && match r with
             | Ok d => ref_closed d
             | Err DoesNotExist => negb (term_exists s 1 && term_exists s 118)
             | _ => false
             end
      | Panic, Panic => negb (no_panic_expected s)    (* new_term with an id outside the id space *)
      | _, _ => false
      end
  | WBytes _ =>
      (* a binary file, possibly one whose records name terms that the file does not contain: whatever
         from_bytes returns as an ontology is referentially closed and can be walked (a rejection, or a
         panic of the loader itself, is C08's business, not this property's) *)
      match fst o with
      | Ok (_, Ok d) => ref_closed d
      | Ok (_, Panic) => false
      | _ => true
      end
  | _ => true
  end.
