(* Run/C06.v — enrichment reports exact hypergeometric tail probabilities and fold changes (C06) *)
From Coq Require Import ZArith.
From HpoV Require Import Gen.Consts Model.Base Model.Group Model.Onto Model.F32 Model.F64 Model.IC Model.Query
  Model.Dump Model.Script Model.Enrich Spec.Sets Run.World.

(* world, f32::ln table, kind (0 gene, 1 omim, 2 orpha), background term ids, sample term ids *)
Definition input_C06 : Type := world * list (N * N) * N * list N * list N.

Definition kind_of_N (k : N) : kind := match k with 0 => KGene | 1 => KOmim | _ => KOrpha end.

(* per background term: id and the annotation ids of the kind, as the read API reports them;
   the enrichment records ascending by id: id, count, p-value, fold-enrichment bits.
   The p-value is [bits] (the crate's f64) or [numerator; denominator] (the model's exact value). *)
Definition obs_C06 : Type := res (list (N * list N) * list (N * N * list N * N)).

Definition run_C06 (i : input_C06) : obs_C06 :=
  let '(w, tbl, kn, bg, sample) := i in
  let k := kind_of_N kn in
  do r <- build_world tbl w ;;
  do o <- snd r ;;
  do bts <- mapM (fun id => opt_panic (o_get id o)) bg ;;
  do sts <- mapM (fun id => opt_panic (o_get id o)) sample ;;
  do recs <- enrichment o k bts sts ;;
  Ok (map (fun t => (t_id t, t_annots k t)) bts,
      map (fun e : erecord => let '(id, c, (pn, pd), f) := e in (id, c, [pn; pd], f))
          (sort_by (fun e : erecord => fst (fst (fst e))) recs)).

(* ---------------- the property ---------------- *)

(* an f64 bit pattern as mantissa * 2^exponent (finite, non-negative patterns only) *)
Definition f64_decode (b : N) : option (Z * Z) :=
  if 9218868437227405312 <=? b then None         (* sign set, infinity or NaN *)
  else
    let e := N.shiftr b 52 in
    let m := N.land b 4503599627370495 in
    if e =? 0 then Some (Z.of_N m, (-1074)%Z)
    else Some (Z.of_N (m + 4503599627370496), (Z.of_N e - 1075)%Z).

(* |p - num/den| <= 10^-9 * num/den, or both below 10^-280 (underflow region of f64 exp) *)
Definition p_close (b : N) (num den : N) : bool :=
  match f64_decode b with
  | None => false
  | Some (m, e) =>
      let n := Z.of_N num in let d := Z.of_N den in
      (* scale so that p = P / S with integers *)
      let '(P, Sc) := if (0 <=? e)%Z then (m * 2 ^ e, 1)%Z else (m, 2 ^ (- e))%Z in
      (* |P/Sc - n/d| * 10^9 <= n/d   <=>   |P*d - n*Sc| * 10^9 <= n*Sc *)
      (Z.abs (P * d - n * Sc) * 1000000000 <=? n * Sc)%Z
      || ((n * 10 ^ 280 <? d)%Z && (P * 10 ^ 280 <? Sc)%Z)
  end.

(* 0 <= p <= 1 *)
Definition p_in_unit (b : N) : bool := b <=? 4607182418800017408.   (* bits of 1.0; non-negative finite below *)

Definition count_in (links : list (N * list N)) (ids : list N) (g : N) : N :=
  Nlen (filter (fun id => match find_by fst id links with Some p => mem g (snd p) | None => false end) ids).

Definition fold_bits (k n K N' : N) : N :=
  to_bits64 (fdiv64 (fdiv64 (f64_of_N k) (f64_of_N n)) (fdiv64 (f64_of_N K) (f64_of_N N'))).

Definition rec_id (r : N * N * list N * N) : N := fst (fst (fst r)).
Definition rec_k (r : N * N * list N * N) : N := snd (fst (fst r)).
Definition rec_p (r : N * N * list N * N) : N := match snd (fst r) with [b] => b | _ => 18446744073709551615 end.

Definition spec_C06 (i : input_C06) (o : obs_C06) : bool :=
  let '(w, tbl, kn, bg, sample) := i in
  match o with
  | Ok (links, recs) =>
      let Npop := Nlen bg in
      let n := Nlen sample in
      (* every annotation linked to at least one sample term, and only those, exactly once *)
      let expected := set_of (flat_map (fun id => match find_by fst id links with Some p => snd p | None => [] end) sample) in
      list_eqb (map rec_id recs) expected
      && forallb (fun r : N * N * list N * N =>
           let '(g, k, p, f) := r in
           let K := count_in links bg g in
           (* k = number of linked sample terms *)
           (k =? count_in links sample g)
           && match p with
              | [b] =>
                  (* P[X >= k], X ~ Hypergeometric(N, K, n), in [0, 1] *)
                  let '(num, den) := sf_fast Npop K n (k - 1) in
                  p_close b num den && p_in_unit b
              | _ => false
              end
           (* fold enrichment (k/n)/(K/N) *)
           && (f =? fold_bits k n K Npop)) recs
      (* never increases as k grows with N, K, n fixed *)
      && forallb (fun r1 => forallb (fun r2 =>
            if (count_in links bg (rec_id r1) =? count_in links bg (rec_id r2)) && (rec_k r1 <=? rec_k r2)
            then rec_p r2 <=? rec_p r1 else true) recs) recs
  | _ => true
  end.
