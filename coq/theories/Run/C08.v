(* Run/C08.v — the decoder honours layouts v1-v3 and never accepts truncated / extended files (C08) *)
From HpoV Require Import Gen.Consts Model.Base Model.Group Model.Onto Model.F32 Model.IC Model.Query
  Model.Dump Model.Script Model.Binary Spec.Sets Run.World Run.C01 Run.Ser.

(* file (laid out by the harness's own encoder), layout version, the same facts as a Builder
   script (build_with_defaults), flags per term (id, obsolete, replacement), suffixes to append,
   values for the version byte, oracle table, single-byte mutations (position, new value) of the file *)
Definition input_C08 : Type :=
  list N * N * script * list (N * N * list N) * list (list N) * list N * list (N * N) * list (N * N).

Definition class {A} (r : res A) : N := match r with Ok _ => 0 | Err _ => 1 | Panic => 2 | Fuel => 3 end.

(* decode of the file, the Builder's ontology, outcome class for every proper prefix, for every
   suffix, for every version byte (v2/v3 files: byte 3 replaced; v1 files: "HPO" + byte prepended);
   the whole outcome (ontology dump, error or panic) of loading each single-byte mutant of the file:
   near-valid malformed input — absent ids, repeated ids, wrong lengths, invalid UTF-8 — on which
   model and crate must agree although the property demands nothing of it *)
Definition obs_C08 : Type := res donto * res donto * list N * list N * list N * list (res donto).

Definition set_byte (b : list N) (pos v : N) : list N := firstn (nat_of pos) b ++ [v] ++ skipn (S (nat_of pos)) b.

(* evaluated through decode_g: equal to decode (Properties/C08.v C08_guarded_evaluator_is_decode), but a damaged
   parent count does not make the evaluation build a unary number of that size *)
Definition dec (tbl : list (N * N)) (b : list N) : res donto :=
  match decode_g (ic32 (table_oracle tbl)) b with
  | Ok o => dump_onto o | Err e => Err e | Panic => Panic | Fuel => Fuel
  end.

Definition set_nth3 (b : list N) (v : N) : list N := firstn 3 b ++ [v] ++ skipn 4 b.

Definition run_C08 (i : input_C08) : obs_C08 :=
  let '(file, ver, s, flags, suffixes, vbytes, tbl, muts) := i in
  (dec tbl file,
   final_dump_of (run_W (WBuilder s, tbl)),
   map (fun k => class (dec tbl (firstn k file))) (seq 0 (length file)),
   map (fun sfx => class (dec tbl (file ++ sfx))) suffixes,
   map (fun v => class (dec tbl (if ver =? 1 then MAGIC_READER ++ [v] ++ file else set_nth3 file v))) vbytes,
   map (fun m : N * N => dec tbl (set_byte file (fst m) (snd m))) muts).

(* ---------------- the property ---------------- *)

Definition blank_flags (d : donto) : donto :=
  (do_version d,
   map (fun t => (d_id t, d_name t, 0, [], [], d_parents t, d_children t, d_allp t,
                  d_genes t, d_omim t, d_orpha t, d_ic t, d_ismod t, d_cats t)) (do_terms d),
   do_genes d, do_omim d, do_orpha d, do_cat d, do_mod d, do_len d).

Definition flags_ok (flags : list (N * N * list N)) (d : donto) : bool :=
  forallb (fun t =>
     match find_by (fun f : N * N * list N => fst (fst f)) (d_id t) flags with
     | Some (_, ob, rp) =>
         (d_obsolete t =? ob) && list_eqb (d_repl t) rp
         && list_eqb (d_replby t) (filter (fun r => match d_find r d with Some _ => true | None => false end) rp)
     | None => false
     end) (do_terms d).

Definition spec_C08 (i : input_C08) (o : obs_C08) : bool :=
  let '(file, ver, s, flags, suffixes, vbytes, tbl, muts) := i in
  let '(valid, built, truncs, sfx, vb, _) := o in
  (* a valid file decodes to exactly the ontology it describes *)
  match valid, built with
  | Ok d, Ok b => matrix_eqb (ser_donto (blank_flags d)) (ser_donto (blank_flags b)) && flags_ok flags d
  | Err DoesNotExist, Err DoesNotExist => true      (* no root terms: both constructions refuse *)
  | _, _ => false
  end
  (* every proper prefix, every extension, every unsupported version byte is rejected *)
  && (Nlen truncs =? Nlen file) && forallb (fun c => negb (c =? 0)) truncs
  && (Nlen sfx =? Nlen suffixes) && forallb (fun c => negb (c =? 0)) sfx
  && (Nlen vb =? Nlen vbytes)
  && forallb (fun vc => let (v, c) := vc : N * N in (v =? 2) || (v =? 3) || negb (c =? 0)) (combine vbytes vb).
