(* Run/C13.v — HpoSet filters, replacements and aggregates (C13) *)
From HpoV Require Import Gen.Consts Model.Base Model.Group Model.Onto Model.F32 Model.IC Model.Query
  Model.Dump Model.Script Model.HSet Spec.Sets Run.World Run.C01.

(* world, subsets of its term ids *)
Definition input_C13 : Type := winput * list (list N).

(* per subset: child_nodes, without_modifier, remove_modifier, without_obsolete, remove_obsolete,
   with_replaced_obsolete, replace_obsolete (each a list of ids), gene / omim / orpha id unions,
   category counts, information content (gene, omim); and, for the three sets that were changed IN PLACE
   (remove_modifier, remove_obsolete, replace_obsolete) after their aggregates had been asked for once
   before the change: the gene ids and the information content of the changed set *)
Definition sobs : Type :=
  list N * list N * list N * list N * list N * list N * list N
  * list N * list N * list N * list (N * N) * res (N * N) * list (res (list N * res (N * N))).

(* the harness evaluates a whole set inside one catch_unwind: a panic anywhere is the outcome of the set *)
Definition no_panic {A} (r : res A) : res (res A) :=
  match r with Panic => Panic | Fuel => Fuel | _ => Ok r end.

Definition obs_C13 : Type := res (donto * list (res sobs)).

Definition run_set (tbl : list (N * N)) (o : onto) (s0 : list N) : res sobs :=
  let s := g_from_list s0 in
  do a <- hs_child_nodes o s ;;
  do b <- hs_without_modifier o s ;;
  do b' <- hs_remove_modifier o s ;;
  do c <- hs_without_obsolete o s ;;
  do c' <- hs_remove_obsolete o s ;;
  do d <- hs_with_replaced o s ;;
  do d' <- hs_replace_obsolete o s ;;
  do g <- hs_annot_ids KGene o s ;;
  do m <- hs_annot_ids KOmim o s ;;
  do r <- hs_annot_ids KOrpha o s ;;
  do cats <- hs_categories o s ;;
  do ic <- no_panic (hs_information_content (ic32 (table_oracle tbl)) o s) ;;
  (* each of the three follow-up observations sits in its own catch_unwind (a replacement that is not a term
     of the ontology makes the aggregates of the changed set panic: "HpoTermId must be in Ontology") *)
  let aft (g' : group) : res (list N * res (N * N)) :=
    do gs <- hs_annot_ids KGene o g' ;; do ic' <- no_panic (hs_information_content (ic32 (table_oracle tbl)) o g') ;; Ok (gs, ic') in
  Ok (a, b, b', c, c', d, d', g, m, r, cats, ic, [aft b'; aft c'; aft d']).

Definition run_C13 (i : input_C13) : obs_C13 :=
  let '((w, tbl), sets) := i in
  do r <- build_world tbl w ;;
  do o <- snd r ;;
  do d <- dump_onto o ;;
  Ok (d, map (run_set tbl o) sets).

(* ---------------- the property ---------------- *)

Definition dt (d : donto) (id : N) : option dterm := d_find id d.

Fixpoint forallb2 {A B} (f : A -> B -> bool) (a : list A) (b : list B) : bool :=
  match a, b with
  | [], [] => true
  | x :: a', y :: b' => f x y && forallb2 f a' b'
  | _, _ => false
  end.

Definition set_ok (tbl : list (N * N)) (d : donto) (s0 : list N) (r : res sobs) : bool :=
  let s := set_of s0 in
  match r with
  | Ok (a, b, b', c, c', e, e', g, m, rr, cats, ic, after) =>
      let ts := somes (map (dt d) s) in
      (Nlen ts =? Nlen s)
      (* child_nodes: members without a descendant in the set *)
      && list_eqb a (filter (fun x => negb (existsb (fun t => mem x (d_allp t)) ts)) s)
      (* modifiers / obsolete *)
      && list_eqb b (map d_id (filter (fun t => d_ismod t =? 0) ts)) && list_eqb b' b
      && list_eqb c (map d_id (filter (fun t => d_obsolete t =? 0) ts)) && list_eqb c' c
      (* replacements *)
      && list_eqb e (set_of (map (fun t => match d_repl t with r0 :: _ => r0 | [] => d_id t end) ts))
      && list_eqb e' e
      (* unions *)
      && list_eqb g (set_of (concat (map d_genes ts)))
      && list_eqb m (set_of (concat (map d_omim ts)))
      && list_eqb rr (set_of (concat (map d_orpha ts)))
      (* category counts *)
      && (let all := concat (map d_cats ts) in
          list_eqb (map fst cats) (set_of all)
          && forallb (fun cn : N * N => snd cn =? Nlen (filter (fun t => mem (fst cn) (d_cats t)) ts)) cats)
      (* aggregated information content *)
      && match ic, ic32 (table_oracle tbl) (Nlen (do_genes d)) (Nlen (set_of (concat (map d_genes ts)))),
               ic32 (table_oracle tbl) (Nlen (do_omim d)) (Nlen (set_of (concat (map d_omim ts)))) with
         | Ok (x, y), Ok x', Ok y' => (x =? x') && (y =? y')
         | _, _, _ => false
         end
      (* the aggregates of a set changed in place are those of its members now (nothing remembered from
         before the change) *)
      && forallb2 (fun (mem' : list N) (rga : res (list N * res (N * N))) =>
            let ts' := somes (map (dt d) mem') in
            if Nlen ts' =? Nlen mem' then
              match rga with
              | Ok ga =>
              list_eqb (fst ga) (set_of (concat (map d_genes ts')))
              && match snd ga, ic32 (table_oracle tbl) (Nlen (do_genes d)) (Nlen (set_of (concat (map d_genes ts')))),
                       ic32 (table_oracle tbl) (Nlen (do_omim d)) (Nlen (set_of (concat (map d_omim ts')))) with
                 | Ok (x, y), Ok x', Ok y' => (x =? x') && (y =? y')
                 | _, _, _ => false
                 end
              | _ => false
              end
            else true) [b'; c'; e'] after
  | _ => false
  end.

Definition spec_C13 (i : input_C13) (o : obs_C13) : bool :=
  let '((w, tbl), sets) := i in
  match o with
  | Ok (d, rs) => forallb2 (set_ok tbl d) sets rs
  | _ => true
  end.
