(* Run/C13.v — HpoSet filters, replacements and aggregates (C13) *)
From HpoV Require Import Gen.Consts Model.Base Model.Group Model.Onto Model.F32 Model.IC Model.Query
  Model.Dump Model.Script Model.HSet Spec.Sets Run.World Run.C01.

(* world, subsets of its term ids *)
Definition input_C13 : Type := winput * list (list N).

(* per subset: child_nodes, without_modifier, remove_modifier, without_obsolete, remove_obsolete,
   with_replaced_obsolete, replace_obsolete (each a list of ids), gene / omim / orpha id unions,
   category counts, information content (gene, omim) *)
Definition sobs : Type :=
  list N * list N * list N * list N * list N * list N * list N
  * list N * list N * list N * list (N * N) * res (N * N).

Definition obs_C13 : Type := res (donto * list (res sobs)).

Definition run_set (tbl : list (N * N)) (o : onto) (s0 : list N) : res sobs :=
  let s := g_from_list s0 in
  do a <- hs_child_nodes o s ;;
  do b <- hs_without_modifier o s ;;
  do b' <- hs_remove_modifier o s ;;
  do c <- hs_without_obsolete o s ;;
  do c' <- hs_remove_obsolete o s ;;
  do d <- hs_with_replaced o s ;;
  do d' <- hs_replace_obsolete o s ;;
  do g <- hs_annot_ids KGene o s ;;
  do m <- hs_annot_ids KOmim o s ;;
  do r <- hs_annot_ids KOrpha o s ;;
  do cats <- hs_categories o s ;;
  Ok (a, b, b', c, c', d, d', g, m, r, cats, hs_information_content (ic32 (table_oracle tbl)) o s).

Definition run_C13 (i : input_C13) : obs_C13 :=
  let '((w, tbl), sets) := i in
  do r <- build_world tbl w ;;
  do o <- snd r ;;
  do d <- dump_onto o ;;
  Ok (d, map (run_set tbl o) sets).

(* ---------------- the property ---------------- *)

Definition dt (d : donto) (id : N) : option dterm := d_find id d.

Definition set_ok (tbl : list (N * N)) (d : donto) (s0 : list N) (r : res sobs) : bool :=
  let s := set_of s0 in
  match r with
  | Ok (a, b, b', c, c', e, e', g, m, rr, cats, ic) =>
      let ts := somes (map (dt d) s) in
      (Nlen ts =? Nlen s)
      (* child_nodes: members without a descendant in the set *)
      && list_eqb a (filter (fun x => negb (existsb (fun t => mem x (d_allp t)) ts)) s)
      (* modifiers / obsolete *)
      && list_eqb b (map d_id (filter (fun t => d_ismod t =? 0) ts)) && list_eqb b' b
      && list_eqb c (map d_id (filter (fun t => d_obsolete t =? 0) ts)) && list_eqb c' c
      (* replacements *)
      && list_eqb e (set_of (map (fun t => match d_repl t with r0 :: _ => r0 | [] => d_id t end) ts))
      && list_eqb e' e
      (* unions *)
      && list_eqb g (set_of (concat (map d_genes ts)))
      && list_eqb m (set_of (concat (map d_omim ts)))
      && list_eqb rr (set_of (concat (map d_orpha ts)))
      (* category counts *)
      && (let all := concat (map d_cats ts) in
          list_eqb (map fst cats) (set_of all)
          && forallb (fun cn : N * N => snd cn =? Nlen (filter (fun t => mem (fst cn) (d_cats t)) ts)) cats)
      (* aggregated information content *)
      && match ic, ic32 (table_oracle tbl) (Nlen (do_genes d)) (Nlen (set_of (concat (map d_genes ts)))),
               ic32 (table_oracle tbl) (Nlen (do_omim d)) (Nlen (set_of (concat (map d_omim ts)))) with
         | Ok (x, y), Ok x', Ok y' => (x =? x') && (y =? y')
         | _, _, _ => false
         end
  | _ => false
  end.

Fixpoint forallb2 {A B} (f : A -> B -> bool) (a : list A) (b : list B) : bool :=
  match a, b with
  | [], [] => true
  | x :: a', y :: b' => f x y && forallb2 f a' b'
  | _, _ => false
  end.

Definition spec_C13 (i : input_C13) (o : obs_C13) : bool :=
  let '((w, tbl), sets) := i in
  match o with
  | Ok (d, rs) => forallb2 (set_ok tbl d) sets rs
  | _ => true
  end.
