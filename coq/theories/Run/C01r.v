(* Run/C01r.v — Ontology::as_mermaid / as_graphviz render exactly the terms and the parent-child links
   (a rendering of the structure C01 is about; sub-check of C01) *)
From HpoV Require Import Gen.Consts Model.Base Model.Group Model.Onto Model.Query Model.Binary Model.TermId Model.Render
  Model.Dump Model.Script Spec.Sets Run.World.

(* per term in ITERATION order (Ontology::hpos()): id, name, children ids; then the two texts *)
Definition r01 : Type := N * list N * list N.
Definition obs_C01r : Type := res (list r01 * list N * list N).

Definition layout_dot : bytes := [100; 111; 116].

Definition run_C01r (i : winput) : obs_C01r :=
  let (w, tbl) := i in
  do r <- build_world tbl w ;;
  do o <- snd r ;;
  do m <- mermaid o ;;
  do g <- graphviz layout_dot o ;;
  Ok (map (fun t => (t_id t, t_name t, t_children t)) (ar_terms (o_arena o)), m, g).

(* ---------------- the documented text, rebuilt from the observed terms ---------------- *)

Definition rname (ts : list r01) (id : N) : list N :=
  match find_by (fun t : r01 => fst (fst t)) id ts with Some t => snd (fst t) | None => [] end.

Definition ref_mermaid (ts : list r01) : list N :=
  s_graph_td ++
  concat (map (fun t : r01 => let '(id, name, cs) := t in
                 show id ++ [91; QUOTE] ++ show id ++ [NLr] ++ name ++ [QUOTE; 93; NLr] ++
                 concat (map (fun c => show id ++ s_arrow ++ show c ++ [NLr]) cs)) ts).

Definition ref_graphviz (ts : list r01) : list N :=
  s_digraph ++ s_layout ++ layout_dot ++ [NLr] ++
  concat (map (fun t : r01 => let '(id, name, cs) := t in
                 concat (map (fun c => [QUOTE] ++ spaces_to_nl name ++ s_gv_arrow ++ spaces_to_nl (rname ts c) ++ [QUOTE; NLr]) cs)) ts)
  ++ s_close.

Definition spec_C01r (i : winput) (o : obs_C01r) : bool :=
  match o with
  | Ok (ts, m, g) =>
      list_eqb m (ref_mermaid ts) && list_eqb g (ref_graphviz ts)
      (* every child named by a term is itself one of the terms *)
      && forallb (fun t : r01 => forallb (fun c => match find_by (fun t : r01 => fst (fst t)) c ts with Some _ => true | None => false end) (snd t)) ts
  | _ => true
  end.
