(* Run/C12t.v — C12, second sentence: the common- / union-ancestor queries of two terms
   (src/term/hpoterm.rs: common_ancestor_ids, all_common_ancestor_ids, union_ancestor_ids,
   all_union_ancestor_ids and the four Combined iterators built on them) against the set algebra
   of the two ancestor sets, for every ordered pair of terms of a generated ontology. *)
From HpoV Require Import Gen.Consts Model.Base Model.Group Model.Onto Model.Query Model.Dump
  Model.Script Spec.Sets Run.World Run.C01.

(* per ordered pair: a, b, then the eight results in the order
   common_ids, all_common_ids, union_ids, all_union_ids, common, all_common, union, all_union *)
Definition pair12 : Type := N * N * list (list N).
Definition obs_C12t : Type := res (list p01 * list pair12).

Definition run_C12t (i : winput) : obs_C12t :=
  let (w, tbl) := i in
  do r <- build_world tbl w ;;
  do o <- snd r ;;
  do d <- dump_onto o ;;
  let ts := sort_by t_id (ar_terms (o_arena o)) in
  do ps <- mapM (fun ab : term * term =>
                   let (a, b) := ab in
                   let c := common_ancestor_ids a b in
                   let ac := all_common_ancestor_ids a b in
                   let u := union_ancestor_ids a b in
                   let au := all_union_ancestor_ids a b in
                   (* Combined::iter resolves every id through the arena *)
                   do ct <- resolve_all o c ;;
                   do act <- resolve_all o ac ;;
                   do ut <- resolve_all o u ;;
                   do aut <- resolve_all o u ;;       (* all_union_ancestors is built on union_ancestor_ids *)
                   Ok (t_id a, t_id b, [c; ac; u; au; map t_id ct; map t_id act; map t_id ut; map t_id aut]))
                (list_prod ts ts) ;;
  Ok (map proj01 (do_terms d), ps).

Definition anc_of (ts : list p01) (a : N) : list N :=
  match pfind a ts with Some t => p_allp t | None => [] end.

Definition pair12_ok (ts : list p01) (p : pair12) : bool :=
  let '(a, b, rs) := p in
  let A := anc_of ts a in let B := anc_of ts b in
  match rs with
  | [c; ac; u; au; ci; aci; ui; aui] =>
      (* the terms themselves are left out of common_ancestor_ids and put into all_common_ancestor_ids *)
      list_eqb c (set_inter A B)
      && list_eqb ac (set_inter (a :: A) (b :: B))
      (* neither union variant adds the terms themselves *)
      && list_eqb u (set_union A B)
      && list_eqb au (set_union A B)
      (* the iterators yield exactly those terms, ascending *)
      && list_eqb ci c && list_eqb aci ac && list_eqb ui u && list_eqb aui au
  | _ => false
  end.

Definition spec_C12t (i : winput) (o : obs_C12t) : bool :=
  match o with
  | Ok (ts, ps) =>
      (Nlen ps =? Nlen ts * Nlen ts)
      && list_eqb (map (fun p : pair12 => fst (fst p)) ps) (map fst (list_prod (map p_id ts) (map p_id ts)))
      && list_eqb (map (fun p : pair12 => snd (fst p)) ps) (map snd (list_prod (map p_id ts) (map p_id ts)))
      && forallb (pair12_ok ts) ps
  | _ => true
  end.
