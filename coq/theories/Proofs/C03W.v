(* C03W.v — information content at the level of the whole ontology: calculate_information_content
   (builder.rs:886-922, Model/Onto.v b_calculate_ic) gives EVERY term, for EACH kind, the value of
   InformationContent::calculate on (number of records of the kind, number of the term's
   annotations of the kind), changes nothing else, and fails exactly when one of those fails. *)
From Coq Require Import Lia.
From HpoV Require Import Gen.Consts Model.Base Model.Group Model.Onto Model.F32 Model.IC Proofs.BaseP Proofs.C03P.

Definition ic_of (k : kind) (ic : N * N * N) : N :=
  let '(g, m, r) := ic in match k with KGene => g | KOmim => m | KOrpha => r end.

Lemma Forall2_imp {A B} (R S : A -> B -> Prop) l l' : (forall x y, R x y -> S x y) -> Forall2 R l l' -> Forall2 S l l'.
Proof. intros H. induction 1; constructor; auto. Qed.

Section W.
  Variable icf : N -> N -> res N.

  Lemma term_ic_spec o t t' : term_ic icf o t = Ok t' ->
    t' = set_ic (t_ic t') t /\
    forall k, icf (Nlen (o_records k o)) (Nlen (t_annots k t)) = Ok (ic_of k (t_ic t')).
  Proof.
    unfold term_ic. intros H.
    destruct (icf (Nlen (o_genes o)) (Nlen (t_genes t))) as [g| | |] eqn:Eg; cbn [bind] in H; try discriminate.
    destruct (icf (Nlen (o_omim o)) (Nlen (t_omim t))) as [m| | |] eqn:Em; cbn [bind] in H; try discriminate.
    destruct (icf (Nlen (o_orpha o)) (Nlen (t_orpha t))) as [r| | |] eqn:Er; cbn [bind] in H; try discriminate.
    injection H as <-. split; [reflexivity|]. intros [| |]; cbn; assumption.
  Qed.

  Theorem calculate_ic_spec o o' : b_calculate_ic icf o = Ok o' ->
    (forall k, o_records k o' = o_records k o) /\ o_version o' = o_version o /\
    o_cat o' = o_cat o /\ o_mod o' = o_mod o /\ ar_ph (o_arena o') = ar_ph (o_arena o) /\
    Forall2 (fun t t' => t' = set_ic (t_ic t') t /\
                         forall k, icf (Nlen (o_records k o)) (Nlen (t_annots k t)) = Ok (ic_of k (t_ic t')))
            (ar_terms (o_arena o)) (ar_terms (o_arena o')).
  Proof.
    unfold b_calculate_ic. intros H.
    destruct (mapM (term_ic icf o) (ar_terms (o_arena o))) as [ts| | |] eqn:E; cbn [bind] in H; try discriminate.
    injection H as <-. split; [intros [| |]; reflexivity|]. repeat (split; [reflexivity|]).
    cbn [o_arena set_arena ar_terms]. apply mapM_Ok in E.
    eapply Forall2_imp; [|exact E]. intros t t' Ht. apply term_ic_spec. exact Ht.
  Qed.
End W.

(* the u16 limit: as soon as one term carries an annotation of a kind with more than 65 535 records,
   calculate_information_content does not return an ontology *)
Theorem calculate_ic_refuses_large fln o k t : In t (ar_terms (o_arena o)) ->
  U16_MAX < Nlen (o_records k o) -> t_annots k t <> [] ->
  forall o', b_calculate_ic (ic32 fln) o <> Ok o'.
Proof.
  intros Hin Hbig Hne o' H. apply calculate_ic_spec in H as (_ & _ & _ & _ & _ & HF).
  destruct (Forall2_In_l _ _ _ t HF Hin) as [t' [_ [_ Hk]]]. specialize (Hk k).
  rewrite ic32_too_large in Hk; [discriminate|lia| |left; exact Hbig].
  destruct (t_annots k t); [congruence|]. unfold Nlen. cbn [length]. lia.
Qed.
