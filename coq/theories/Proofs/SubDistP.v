(* SubDistP.v — C14 "each leaf reaches root at its original distance": in the sub-ontology every leaf
   has a chain of parent links to the root whose length is the length of the shortest such chain in
   the source, and no chain of the sub-ontology is shorter (its links are links of the source). *)
From Coq Require Import Lia Relations.
From HpoV Require Import Gen.Consts Model.Base Model.Group Model.Onto Model.Query Model.SubOnt
  Proofs.GroupP Proofs.BaseP Proofs.ClosureP Proofs.AcyclicP Proofs.DistP Proofs.DistTermP Proofs.TotalDistP Proofs.QgoodP Proofs.SubP Proofs.SubLinksP.

Lemma sub_ids_leaf_path o root : forall leaves acc ids l, foldM (leaf_step o root) leaves acc = Ok ids -> In l leaves ->
  exists lt path, ar_get_unchecked l (o_arena o) = Ok lt /\ path_anc (q_fuel o) o lt root = Ok (Some path).
Proof.
  induction leaves as [|l0 leaves IH]; intros acc ids l H Hin; [destruct Hin|]. cbn [foldM] in H. unfold leaf_step at 1 in H.
  destruct (ar_get_unchecked l0 (o_arena o)) as [lt| | |] eqn:Eg; cbn [bind] in H; try discriminate.
  destruct (path_anc (q_fuel o) o lt root) as [[path|]| | |] eqn:Ep; cbn [bind] in H; try discriminate.
  destruct Hin as [<-|Hin]; [exists lt, path; auto|apply (IH _ ids l H Hin)].
Qed.

Theorem sub_ontology_leaf_distance icf o root leaves o' l : qgood o ->
  (forall x, In x leaves -> In x (ar_keys (o_arena o))) -> sub_ontology icf o root leaves = Ok o' -> In l leaves ->
  exists d, chain (o_arena o') l d (t_id root) /\ chain (o_arena o) l d (t_id root) /\
            (forall n, chain (o_arena o) l n (t_id root) -> d <= n)%nat /\
            (forall n, chain (o_arena o') l n (t_id root) -> d <= n)%nat.
Proof.
  intros G Hl H Hin.
  destruct (sub_ontology_structure icf o root leaves o' G Hl H) as (ids & Eids & G' & K' & PR').
  rewrite sub_ids_unfold in Eids.
  destruct (sub_ids_leaf_path o root leaves [] ids l Eids Hin) as (lt & path & Hg & Hp).
  destruct (get_unchecked_key (o_arena o) l (q_wf o G) (Hl l Hin)) as [lt' [Hg' [Hlt Hid]]].
  rewrite Hg in Hg'. injection Hg' as <-.
  destruct (path_anc_sound o G (q_fuel o) lt root path Hlt Hp) as [Hlinks Hlast]. rewrite Hid in Hlinks, Hlast.
  assert (In l ids) as Hlid.
  { apply (sub_ids_spec o root leaves [] ids Eids l). right. exists l, lt, path. rewrite Hid. auto. }
  assert (Forall (fun y => In y ids) path) as Hpid.
  { apply Forall_forall. intros y Hy. apply (sub_ids_spec o root leaves [] ids Eids y). right. exists l, lt, path. auto. }
  (* every chain of the result is a chain of the source *)
  assert (forall x n y, chain (o_arena o') x n y -> chain (o_arena o) x n y) as Hsub.
  { intros x n y Hc. induction Hc as [x|x p y n Hxp _ IH]; [constructor|]. econstructor; [|exact IH]. apply (PR' x p), Hxp. }
  exists (length path). split; [|split; [|split]].
  - rewrite <- Hlast. apply (links_chain o' path l).
    clear -Hlinks Hlid Hpid PR'. revert l Hlid Hlinks. induction path as [|y path IH]; intros x Hx Hlk; [exact I|].
    inversion Hpid as [|? ? Hy Hall]; subst. destruct Hlk as [Hxy Hlk]. split; [apply (PR' x y); auto|apply (IH Hall y Hy Hlk)].
  - rewrite <- Hlast. apply (links_chain o path l Hlinks).
  - intros n Hc. rewrite <- Hid in Hc. destruct (path_anc_minimal o G (q_fuel o) lt root (Some path) Hlt Hp n Hc) as [p' [Ep Hle]].
    injection Ep as <-. exact Hle.
  - intros n Hc. apply Hsub in Hc. rewrite <- Hid in Hc.
    destruct (path_anc_minimal o G (q_fuel o) lt root (Some path) Hlt Hp n Hc) as [p' [Ep Hle]]. injection Ep as <-. exact Hle.
Qed.

(* the sub-ontology contains every leaf and the root *)
Theorem sub_ontology_contains_leaves_and_root icf o root leaves o' : qgood o ->
  (forall x, In x leaves -> In x (ar_keys (o_arena o))) -> sub_ontology icf o root leaves = Ok o' ->
  (forall l, In l leaves -> In l (ar_keys (o_arena o'))) /\ (leaves <> [] -> In (t_id root) (ar_keys (o_arena o'))).
Proof.
  intros G Hl H. destruct (sub_ontology_structure icf o root leaves o' G Hl H) as (ids & Eids & _ & K' & _).
  rewrite sub_ids_unfold in Eids.
  assert (forall l, In l leaves -> In l ids /\ In (t_id root) ids) as K.
  { intros l Hin. destruct (sub_ids_leaf_path o root leaves [] ids l Eids Hin) as (lt & path & Hg & Hp).
    destruct (get_unchecked_key (o_arena o) l (q_wf o G) (Hl l Hin)) as [lt' [Hg' [Hlt Hid]]].
    rewrite Hg in Hg'. injection Hg' as <-.
    destruct (path_anc_sound o G (q_fuel o) lt root path Hlt Hp) as [_ Hlast]. rewrite Hid in Hlast.
    assert (forall x, x = l \/ In x path -> In x ids) as Hx.
    { intros x Hx. apply (sub_ids_spec o root leaves [] ids Eids x). right. exists l, lt, path. rewrite Hid. auto. }
    split; [apply Hx; left; reflexivity|]. rewrite <- Hlast. apply Hx.
    destruct path as [|y path]; [left; reflexivity|right].
    destruct (@exists_last _ (y :: path) ltac:(discriminate)) as [pre [z E]].
    rewrite E, last_last. apply in_or_app. right. left. reflexivity. }
  split.
  - intros l Hin. apply K', (K l Hin).
  - intros Hne. destruct leaves as [|l leaves']; [congruence|]. apply K', (K l (or_introl eq_refl)).
Qed.

(* ---------------- the order (and repetition) of the leaves does not matter ---------------- *)

Lemma leaf_steps_sorted o root leaves : forall acc ids, sorted acc -> foldM (leaf_step o root) leaves acc = Ok ids -> sorted ids.
Proof.
  induction leaves as [|l ls IH]; intros acc ids Sa Hf; cbn [foldM] in Hf; [injection Hf as <-; exact Sa|].
  unfold leaf_step at 1 in Hf. destruct (ar_get_unchecked l (o_arena o)) as [lt| | |]; cbn [bind] in Hf; try discriminate.
  destruct (path_anc (q_fuel o) o lt root) as [[path|]| | |]; cbn [bind] in Hf; try discriminate.
  apply (IH (fold_left g_add path (g_add acc (t_id lt))) ids); [|exact Hf]. apply fold_g_add_sorted, g_add_sorted, Sa.
Qed.

Lemma leaf_steps_succeed o root leaves : forall acc,
  (forall l, In l leaves -> exists lt path, ar_get_unchecked l (o_arena o) = Ok lt /\ path_anc (q_fuel o) o lt root = Ok (Some path)) ->
  exists ids, foldM (leaf_step o root) leaves acc = Ok ids.
Proof.
  induction leaves as [|l ls IH]; intros acc H; cbn [foldM]; [eexists; reflexivity|].
  destruct (H l (or_introl eq_refl)) as (lt & path & Hg & Hp). unfold leaf_step at 1. rewrite Hg. cbn [bind]. rewrite Hp. cbn [bind].
  apply IH. intros l' Hl'. apply H. right. exact Hl'.
Qed.

(* two leaf collections with the same members (any order, any multiplicity) retain the same terms *)
Theorem sub_ids_same_members o root leaves leaves' ids : (forall l, In l leaves <-> In l leaves') ->
  sub_ids o root leaves = Ok ids -> sub_ids o root leaves' = Ok ids.
Proof.
  intros Hm H. rewrite sub_ids_unfold in *.
  destruct (leaf_steps_succeed o root leaves' []) as [ids' H'].
  { intros l Hl. apply (sub_ids_leaf_path o root leaves [] ids l H), Hm, Hl. }
  rewrite H'. f_equal. apply sorted_ext; [apply (leaf_steps_sorted o root leaves' [] ids' ltac:(constructor) H')|apply (leaf_steps_sorted o root leaves [] ids ltac:(constructor) H)|].
  intros x. rewrite (sub_ids_spec o root leaves' [] ids' H' x), (sub_ids_spec o root leaves [] ids H x). split.
  - intros [Hx|(l & lt & path & Hl & Hr)]; [left; exact Hx|right; exists l, lt, path; split; [apply Hm, Hl|exact Hr]].
  - intros [Hx|(l & lt & path & Hl & Hr)]; [left; exact Hx|right; exists l, lt, path; split; [apply Hm, Hl|exact Hr]].
Qed.

Theorem sub_ontology_same_members icf o root leaves leaves' o' : (forall l, In l leaves <-> In l leaves') ->
  sub_ontology icf o root leaves = Ok o' -> sub_ontology icf o root leaves' = Ok o'.
Proof.
  intros Hm H. unfold sub_ontology in *.
  destruct (sub_ids o root leaves) as [ids| | |] eqn:E; cbn [bind] in H; try discriminate.
  rewrite (sub_ids_same_members o root leaves leaves' ids Hm E). cbn [bind]. exact H.
Qed.

(* ---------------- the retained set is computed whenever every leaf is the root or below it ---------------- *)

Theorem sub_ids_accepts o root leaves : qgood o -> acyclic (o_arena o) ->
  (forall l, In l leaves -> In l (ar_keys (o_arena o))) ->
  (forall l, In l leaves -> l = t_id root \/ anc (o_arena o) l (t_id root)) ->
  exists ids, sub_ids o root leaves = Ok ids.
Proof.
  intros G Ac Hk Hr. rewrite sub_ids_unfold. apply leaf_steps_succeed. intros l Hl.
  destruct (get_unchecked_key (o_arena o) l (q_wf o G) (Hk l Hl)) as [lt [Hg [Hlt Hid]]].
  exists lt. destruct (TotalDistP.path_to_ancestor_returns o G Ac lt root Hlt) as [r Er].
  assert (exists n, chain (o_arena o) (t_id lt) n (t_id root)) as [n Hc].
  { rewrite Hid. destruct (Hr l Hl) as [->|Ha]; [exists 0%nat; constructor|apply (TotalDistP.anc_to_chain o _ _ Ha)]. }
  destruct (path_anc_minimal o G (q_fuel o) lt root r Hlt Er n Hc) as [path [-> _]]. exists path. auto.
Qed.
