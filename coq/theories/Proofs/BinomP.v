(* BinomP.v — binomial coefficients over N: Pascal's rule as the definition, the quotient
   n^(k) / k! of Model/Enrich.v [binN] equals it, Vandermonde's identity, and the consequences for
   the hypergeometric tail: 0 <= tail <= C(N, n), i.e. the exact p-value lies in [0, 1]. *)
From Coq Require Import Lia Arith.
From HpoV Require Import Model.Base Model.Enrich.

(* ---------------- Pascal ---------------- *)

Fixpoint C (n k : nat) : N :=
  match n, k with
  | _, O => 1
  | O, S _ => 0
  | S n', S k' => C n' k' + C n' (S k')
  end.

Lemma C_0 n : C n 0 = 1.
Proof. destruct n; reflexivity. Qed.

Lemma C_gt n : forall k, (n < k)%nat -> C n k = 0.
Proof.
  induction n as [|n IH]; intros k H; destruct k as [|k]; try lia; [reflexivity|].
  cbn [C]. rewrite (IH k), (IH (S k)) by lia. reflexivity.
Qed.

Lemma C_nn n : C n n = 1.
Proof. induction n as [|n IH]; [reflexivity|]. cbn [C]. rewrite IH, C_gt by lia. reflexivity. Qed.

(* C(n, k) * k! = n (n-1) ... (n-k+1) *)
Fixpoint ffact (n k : nat) : N :=
  match k with O => 1 | S k' => N.of_nat n * ffact (n - 1) k' end.
Fixpoint fact (k : nat) : N := match k with O => 1 | S k' => N.of_nat (S k') * fact k' end.

Lemma ffact_gt n : forall k, (n < k)%nat -> ffact n k = 0.
Proof.
  induction n as [|n IH]; intros k H; destruct k as [|k]; try lia; cbn [ffact]; [reflexivity|].
  replace (S n - 1)%nat with n by lia. rewrite (IH k) by lia. lia.
Qed.

(* peel the LAST factor *)
Lemma ffact_last k : forall n, ffact n (S k) = ffact n k * N.of_nat (n - k).
Proof.
  induction k as [|k IH]; intros n.
  - cbn [ffact]. replace (n - 0)%nat with n by lia. lia.
  - change (ffact n (S (S k))) with (N.of_nat n * ffact (n - 1) (S k)). rewrite IH.
    cbn [ffact]. replace (n - 1 - k)%nat with (n - S k)%nat by lia. lia.
Qed.

Lemma C_fact n : forall k, C n k * fact k = ffact n k.
Proof.
  induction n as [|n IH]; intros k.
  - destruct k as [|k]; [reflexivity|]. cbn [C]. rewrite ffact_gt by lia. lia.
  - destruct k as [|k]; [reflexivity|]. cbn [C].
    rewrite N.mul_add_distr_r. rewrite (IH (S k)).
    change (fact (S k)) with (N.of_nat (S k) * fact k).
    replace (C n k * (N.of_nat (S k) * fact k)) with (C n k * fact k * N.of_nat (S k)) by lia.
    rewrite (IH k). rewrite ffact_last.
    cbn [ffact]. replace (S n - 1)%nat with n by lia.
    destruct (Nat.le_gt_cases k n) as [Hle|Hgt].
    + replace (N.of_nat (S n)) with (N.of_nat (S k) + N.of_nat (n - k)) by lia. lia.
    + rewrite (ffact_gt n k) by lia. lia.
Qed.

Lemma fact_pos k : 0 < fact k.
Proof. induction k as [|k IH]; cbn [fact]; lia. Qed.

(* the model's quotient is the binomial coefficient *)
Lemma ffactN_ffact k : forall n, ffactN (N.of_nat n) k = ffact n k.
Proof.
  induction k as [|k IH]; intros n; [reflexivity|]. cbn [ffactN ffact].
  replace (N.of_nat n - 1) with (N.of_nat (n - 1)) by lia. rewrite IH. reflexivity.
Qed.

Lemma factN_fact k : factN k = fact k.
Proof. induction k as [|k IH]; [reflexivity|]. cbn [factN fact]. rewrite IH. reflexivity. Qed.

Theorem binN_is_binomial n k : binN (N.of_nat n) (N.of_nat k) = C n k.
Proof.
  unfold binN. destruct (N.ltb_spec (N.of_nat n) (N.of_nat k)) as [H|H].
  - symmetry. apply C_gt. lia.
  - unfold nat_of. rewrite Nnat.Nat2N.id, ffactN_ffact, factN_fact, <- C_fact.
    apply N.div_mul. pose proof (fact_pos k). lia.
Qed.

(* ---------------- sums ---------------- *)

Fixpoint sumN (f : nat -> N) (lo cnt : nat) : N :=
  match cnt with O => 0 | S c => f lo + sumN f (S lo) c end.

Lemma sumN_ext f g lo cnt : (forall i, (lo <= i < lo + cnt)%nat -> f i = g i) -> sumN f lo cnt = sumN g lo cnt.
Proof.
  revert lo. induction cnt as [|c IH]; intros lo H; [reflexivity|]. cbn [sumN].
  rewrite (H lo) by lia. rewrite IH; [reflexivity|]. intros i Hi. apply H. lia.
Qed.

Lemma sumN_add f g lo cnt : sumN (fun i => f i + g i) lo cnt = sumN f lo cnt + sumN g lo cnt.
Proof. revert lo. induction cnt as [|c IH]; intros lo; [reflexivity|]. cbn [sumN]. rewrite IH. lia. Qed.

Lemma sumN_last f lo cnt : sumN f lo (S cnt) = sumN f lo cnt + f (lo + cnt)%nat.
Proof.
  revert lo. induction cnt as [|c IH]; intros lo.
  - cbn [sumN]. replace (lo + 0)%nat with lo by lia. lia.
  - change (sumN f lo (S (S c))) with (f lo + sumN f (S lo) (S c)). rewrite IH. cbn [sumN].
    replace (S lo + c)%nat with (lo + S c)%nat by lia. lia.
Qed.

Lemma sumN_shift f lo cnt : sumN (fun i => f (S i)) lo cnt = sumN f (S lo) cnt.
Proof. revert lo. induction cnt as [|c IH]; intros lo; [reflexivity|]. cbn [sumN]. rewrite IH. reflexivity. Qed.

Lemma sumN_split f lo c1 c2 : sumN f lo (c1 + c2) = sumN f lo c1 + sumN f (lo + c1) c2.
Proof.
  revert lo. induction c1 as [|c IH]; intros lo.
  - cbn [sumN plus]. replace (lo + 0)%nat with lo by lia. lia.
  - cbn [plus sumN]. rewrite IH. replace (S lo + c)%nat with (lo + S c)%nat by lia. lia.
Qed.

Lemma sumN_zero f lo cnt : (forall i, (lo <= i < lo + cnt)%nat -> f i = 0) -> sumN f lo cnt = 0.
Proof.
  revert lo. induction cnt as [|c IH]; intros lo H; [reflexivity|]. cbn [sumN].
  rewrite (H lo) by lia. rewrite IH; [reflexivity|]. intros i Hi. apply H. lia.
Qed.

(* ---------------- Vandermonde: sum_{i=0}^{n} C(a,i) C(b,n-i) = C(a+b,n) ---------------- *)

Definition vdm (a b n : nat) : N := sumN (fun i => C a i * C b (n - i)) 0 (S n).

Lemma vdm_0 b n : vdm 0 b n = C b n.
Proof.
  unfold vdm. cbn [sumN]. replace (n - 0)%nat with n by lia. rewrite C_0.
  rewrite sumN_zero; [lia|]. intros i Hi. destruct i as [|i]; [lia|]. reflexivity.
Qed.

Lemma sumN_head f cnt : sumN f 0 (S cnt) = f 0%nat + sumN (fun i => f (S i)) 0 cnt.
Proof. cbn [sumN]. rewrite sumN_shift. reflexivity. Qed.

Theorem vandermonde a : forall b n, vdm a b n = C (a + b) n.
Proof.
  induction a as [|a IH]; intros b n; [rewrite vdm_0; reflexivity|].
  destruct n as [|n].
  - unfold vdm. cbn [sumN]. rewrite !C_0. lia.
  - change (S a + b)%nat with (S (a + b)).
    change (C (S (a + b)) (S n)) with (C (a + b) n + C (a + b) (S n)).
    rewrite <- (IH b n), <- (IH b (S n)). unfold vdm.
    rewrite (sumN_head (fun i => C (S a) i * C b (S n - i)) (S n)).
    rewrite (sumN_head (fun i => C a i * C b (S n - i)) (S n)).
    rewrite (sumN_ext (fun i => C (S a) (S i) * C b (S n - S i))
                      (fun i => C a i * C b (n - i) + C a (S i) * C b (S n - S i)) 0 (S n)).
    + rewrite sumN_add. rewrite !C_0. lia.
    + intros i _. change (C (S a) (S i)) with (C a i + C a (S i)).
      replace (S n - S i)%nat with (n - i)%nat by lia. lia.
Qed.

(* ---------------- the hypergeometric tail ---------------- *)

Lemma C_pos n : forall k, (k <= n)%nat -> 0 < C n k.
Proof.
  induction n as [|n IH]; intros k H; destruct k as [|k]; cbn [C]; try lia.
  destruct (Nat.eq_dec k n) as [->|Hne].
  - rewrite C_nn. lia.
  - specialize (IH (S k) ltac:(lia)). lia.
Qed.

Lemma sumN_le_total f lo cnt n : (lo + cnt <= S n)%nat -> sumN f lo cnt <= sumN f 0 (S n).
Proof.
  intros H. replace (S n) with (lo + (cnt + (S n - lo - cnt)))%nat by lia.
  rewrite sumN_split, sumN_split. cbn [plus]. lia.
Qed.

(* the model's numerator is the textbook sum *)
Lemma tail_num_sum P K n cnt : forall lo, (K <= P)%nat ->
  tail_num (N.of_nat P) (N.of_nat K) (N.of_nat n) (N.of_nat lo) cnt
  = sumN (fun i => C K i * C (P - K) (n - i)) lo cnt.
Proof.
  induction cnt as [|c IH]; intros lo HK; [reflexivity|]. cbn [tail_num sumN].
  replace (N.of_nat P - N.of_nat K) with (N.of_nat (P - K)) by lia.
  replace (N.of_nat n - N.of_nat lo) with (N.of_nat (n - lo)) by lia.
  rewrite !binN_is_binomial. replace (N.of_nat lo + 1) with (N.of_nat (S lo)) by lia.
  rewrite <- (IH (S lo) HK). replace (N.of_nat (P - K)) with (N.of_nat P - N.of_nat K) by lia. reflexivity.
Qed.

(* THE EXACT P-VALUE LIES IN [0, 1]: numerator <= denominator, denominator > 0 *)
Theorem sf_exact_in_unit_interval P K n x : (K <= P)%nat -> (n <= P)%nat ->
  let r := sf_exact (N.of_nat P) (N.of_nat K) (N.of_nat n) (N.of_nat x) in
  fst r <= snd r /\ 0 < snd r.
Proof.
  intros HK Hn. cbn zeta. unfold sf_exact.
  destruct (N.of_nat x <? hg_min (N.of_nat P) (N.of_nat K) (N.of_nat n)); [cbn; lia|].
  destruct (N.leb_spec (hg_max (N.of_nat K) (N.of_nat n)) (N.of_nat x)) as [|Hx]; [cbn; lia|].
  cbn [fst snd]. rewrite binN_is_binomial. split; [|apply C_pos, Hn].
  unfold hg_max in *.
  set (mx := Nat.min K n).
  assert (N.min (N.of_nat K) (N.of_nat n) = N.of_nat mx) as Emx by (unfold mx; lia).
  rewrite Emx in *. unfold nat_of.
  replace (N.of_nat x + 1) with (N.of_nat (S x)) by lia.
  replace (N.to_nat (N.of_nat mx - N.of_nat x)) with (mx - x)%nat by lia.
  rewrite tail_num_sum by exact HK.
  replace (C P n) with (C (K + (P - K)) n) by (f_equal; lia). rewrite <- vandermonde. unfold vdm.
  apply sumN_le_total. unfold mx. lia.
Qed.

(* below the support the tail is the whole distribution: P[X >= k] = 1 for k <= max(0, n + K - N) *)
Theorem tail_below_min_is_one P K n lo : (K <= P)%nat -> (n <= P)%nat -> (lo <= n + K - P)%nat ->
  sumN (fun i => C K i * C (P - K) (n - i)) lo (S (Nat.min K n) - lo) = C P n.
Proof.
  intros HK Hn Hlo.
  replace (C P n) with (C (K + (P - K)) n) by (f_equal; lia). rewrite <- vandermonde. unfold vdm.
  assert (lo <= Nat.min K n)%nat as Hlm by lia.
  replace (S n) with (lo + ((S (Nat.min K n) - lo) + (n - Nat.min K n)))%nat by lia.
  rewrite sumN_split, sumN_split. cbn [plus].
  rewrite (sumN_zero _ 0 lo).
  - rewrite (sumN_zero _ (lo + (S (Nat.min K n) - lo)) (n - Nat.min K n)); [lia|].
    intros i Hi. rewrite (C_gt K i) by lia. lia.
  - intros i Hi. rewrite (C_gt (P - K) (n - i)) by lia. lia.
Qed.

(* ---------------- the executed recurrences compute the same numbers ---------------- *)

(* absorption: C(a+1, m+1) (m+1) = C(a, m) (a+1) *)
Lemma C_absorb a m : C (S a) (S m) * N.of_nat (S m) = C a m * N.of_nat (S a).
Proof.
  pose proof (C_fact (S a) (S m)) as H1. pose proof (C_fact a m) as H2.
  cbn [ffact fact] in H1. replace (S a - 1)%nat with a in H1 by lia. rewrite <- H2 in H1.
  pose proof (fact_pos m) as Hp.
  apply (N.mul_cancel_r _ _ (fact m)); [lia|]. lia.
Qed.

(* C(K, i+1) (i+1) = C(K, i) (K - i)   (both sides vanish beyond K) *)
Lemma C_next K i : C K (S i) * N.of_nat (S i) = C K i * N.of_nat (K - i).
Proof.
  destruct (Nat.le_gt_cases K i) as [Hle|Hlt].
  - rewrite (C_gt K (S i)) by lia. replace (K - i)%nat with 0%nat by lia. lia.
  - pose proof (C_fact K (S i)) as H1. pose proof (C_fact K i) as H2.
    rewrite ffact_last in H1. rewrite <- H2 in H1. change (fact (S i)) with (N.of_nat (S i) * fact i) in H1.
    pose proof (fact_pos i) as Hp. apply (N.mul_cancel_r _ _ (fact i)); [lia|]. lia.
Qed.

Lemma bin_loop_spec n k : (k <= n)%nat -> forall i m, (m + i = k)%nat ->
  bin_loop (N.of_nat n) (N.of_nat k) i (C (n - k + m) m) = C n k.
Proof.
  intros Hk. induction i as [|i IH]; intros m Hm.
  - cbn [bin_loop]. replace (n - k + m)%nat with n by lia. replace m with k by lia. reflexivity.
  - cbn [bin_loop]. replace (N.of_nat k - N.of_nat i) with (N.of_nat (S m)) by lia.
    replace (N.of_nat n - N.of_nat k + N.of_nat (S m)) with (N.of_nat (S (n - k + m))) by lia.
    rewrite <- C_absorb. rewrite N.div_mul by lia.
    replace (S (n - k + m)) with (n - k + S m)%nat by lia. apply IH. lia.
Qed.

Theorem bin_fast_is_binomial n k : bin_fast (N.of_nat n) (N.of_nat k) = C n k.
Proof.
  unfold bin_fast. destruct (N.ltb_spec (N.of_nat n) (N.of_nat k)) as [H|H].
  - symmetry. apply C_gt. lia.
  - unfold nat_of. rewrite Nnat.Nat2N.id.
    pose proof (bin_loop_spec n k ltac:(lia) k 0%nat ltac:(lia)) as L.
    replace (n - k + 0)%nat with (n - k)%nat in L by lia. rewrite C_0 in L. exact L.
Qed.

Definition term (P K n i : nat) : N := C K i * C (P - K) (n - i).

(* one step of the ratio recurrence *)
Lemma term_next P K n i : (K <= P)%nat -> (n + K - P <= i)%nat -> (i < n)%nat ->
  term P K n i * N.of_nat (K - i) * N.of_nat (n - i)
  = term P K n (S i) * (N.of_nat (S i) * N.of_nat (P - K + i + 1 - n)).
Proof.
  intros HK Hmin Hi. unfold term.
  pose proof (C_next K i) as H1.
  pose proof (C_next (P - K) (n - S i)) as H2.
  replace (S (n - S i)) with (n - i)%nat in H2 by lia.
  replace (P - K - (n - S i))%nat with (P - K + i + 1 - n)%nat in H2 by lia. nia.
Qed.

Lemma tail_loop_spec P K n (HK : (K <= P)%nat) : forall cnt i acc,
  (n + K - P <= i)%nat -> (cnt = 0 \/ i + cnt <= S (Nat.min K n))%nat ->
  tail_loop (N.of_nat P) (N.of_nat K) (N.of_nat n) (N.of_nat i) cnt (term P K n i) acc
  = acc + sumN (term P K n) i cnt.
Proof.
  induction cnt as [|c IH]; intros i acc Hmin Hb; [cbn; lia|].
  cbn [tail_loop sumN]. destruct c as [|c].
  - cbn [tail_loop sumN]. lia.
  - assert (i < n)%nat as Hi by lia.
    replace (N.of_nat K - N.of_nat i) with (N.of_nat (K - i)) by lia.
    replace (N.of_nat n - N.of_nat i) with (N.of_nat (n - i)) by lia.
    replace (N.of_nat i + 1) with (N.of_nat (S i)) by lia.
    replace (N.of_nat P - N.of_nat K + N.of_nat i + 1 - N.of_nat n) with (N.of_nat (P - K + i + 1 - n)) by lia.
    rewrite (term_next P K n i HK Hmin Hi). rewrite N.div_mul by (apply N.neq_mul_0; split; lia).
    rewrite IH by lia. lia.
Qed.

(* THE EXECUTED TAIL IS THE DEFINITIONAL TAIL, for every population size *)
Theorem sf_fast_is_sf_exact P K n x : (K <= P)%nat -> (n <= P)%nat ->
  sf_fast (N.of_nat P) (N.of_nat K) (N.of_nat n) (N.of_nat x)
  = sf_exact (N.of_nat P) (N.of_nat K) (N.of_nat n) (N.of_nat x).
Proof.
  intros HK Hn. unfold sf_fast, sf_exact.
  destruct (N.ltb_spec (N.of_nat x) (hg_min (N.of_nat P) (N.of_nat K) (N.of_nat n))) as [|Hmin]; [reflexivity|].
  destruct (N.leb_spec (hg_max (N.of_nat K) (N.of_nat n)) (N.of_nat x)) as [|Hx]; [reflexivity|].
  unfold hg_min, hg_max in *.
  assert (N.min (N.of_nat K) (N.of_nat n) = N.of_nat (Nat.min K n)) as Emx by lia. rewrite Emx in *.
  f_equal.
  - unfold nat_of. replace (N.of_nat x + 1) with (N.of_nat (S x)) by lia.
    replace (N.to_nat (N.of_nat (Nat.min K n) - N.of_nat x)) with (Nat.min K n - x)%nat by lia.
    replace (N.of_nat P - N.of_nat K) with (N.of_nat (P - K)) by lia.
    replace (N.of_nat n - N.of_nat (S x)) with (N.of_nat (n - S x)) by lia.
    rewrite !bin_fast_is_binomial. fold (term P K n (S x)).
    replace (N.of_nat (P - K)) with (N.of_nat P - N.of_nat K) by lia.
    rewrite (tail_loop_spec P K n HK) by lia. rewrite tail_num_sum by exact HK. unfold term. lia.
  - rewrite bin_fast_is_binomial, binN_is_binomial. reflexivity.
Qed.
