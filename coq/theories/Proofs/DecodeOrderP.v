(* DecodeOrderP.v — C08 "independent of the order of records inside a section": two accepted
   well-formed files that state the same direct facts (same is_a pairs, same record ids, same direct
   terms per record) — in whatever order their sections list them — load to ontologies that agree,
   term by term, on parents, children, ancestor caches, annotation sets and information content. *)
From Coq Require Import Lia Relations Sorted Permutation.
From HpoV Require Import Gen.Consts Model.Base Model.Group Model.Onto Model.Query Model.Binary
  Proofs.GroupP Proofs.BaseP Proofs.ClosureP Proofs.DistP Proofs.QgoodP Proofs.LinkP Proofs.RecordsP Proofs.C03W
  Proofs.SectionP Proofs.RoundTripP Proofs.AnnotP Proofs.ReloadP Proofs.C16M Proofs.DecodeAnyP.

Theorem decode_any_order_independent icf in1 in2 o1 o2 t1 t2 :
  decode icf in1 = Ok o1 -> decode icf in2 = Ok o2 ->
  bin_closed in1 -> bin_closed in2 -> bin_distinct in1 -> bin_distinct in2 ->
  (forall k r d, In r (o_records k o1) -> In d (a_hpos r) -> In d (ar_keys (o_arena o1))) ->
  (forall k r d, In r (o_records k o2) -> In d (a_hpos r) -> In d (ar_keys (o_arena o2))) ->
  same_facts o1 o2 ->
  In t1 (ar_terms (o_arena o1)) -> In t2 (ar_terms (o_arena o2)) -> t_id t2 = t_id t1 ->
  t_parents t2 = t_parents t1 /\ t_children t2 = t_children t1 /\ t_allp t2 = t_allp t1 /\
  (forall k, t_annots k t2 = t_annots k t1) /\ t_ic t2 = t_ic t1.
Proof.
  intros H1 H2 C1 C2 D1 D2 K1 K2 SF Ht1 Ht2 Eid.
  destruct (decode_any_ok icf in1 o1 H1 C1 D1) as (S1 & _ & A1 & I1 & N1 & _).
  destruct (decode_any_ok icf in2 o2 H2 C2 D2) as (S2 & _ & A2 & I2 & N2 & _).
  apply (derived_data_function_of_facts icf o1 o2 t1 t2 S1 S2 A1 A2 I1 I2 N1 N2 K1 K2 SF Ht1 Ht2 Eid).
Qed.
