(* C20P.v — parsing the rendering of an id returns the id, for every u32 *)
From Coq Require Import ZArith Lia ZifyN ZifyNat ZifyBool.
From HpoV Require Import Gen.Consts Model.Base Model.Binary Model.TermId Proofs.BinaryP.

Ltac Zify.zify_post_hook ::= Z.div_mod_to_equations.

Lemma digits_length k : forall n, length (digits k n) = k.
Proof. induction k as [|k IH]; intros n; cbn [digits]; [reflexivity|]. rewrite app_length, IH. cbn. lia. Qed.

Lemma parse_digits_app l1 : forall l2 acc,
  parse_digits (l1 ++ l2) acc =
  match parse_digits l1 acc with Some a => parse_digits l2 a | None => None end.
Proof.
  induction l1 as [|d t IH]; intros l2 acc; cbn [app parse_digits]; [reflexivity|].
  destruct ((48 <=? d) && (d <=? 57)); [|reflexivity].
  destruct (U32_MAX <? acc * 10); [reflexivity|].
  destruct (U32_MAX <? acc * 10 + (d - 48)); [reflexivity|]. apply IH.
Qed.

Lemma parse_digits_digits k : forall n, n < 10 ^ N.of_nat k -> n <= U32_MAX ->
  parse_digits (digits k n) 0 = Some n.
Proof.
  induction k as [|k IH]; intros n Hlt Hmax.
  - cbn in Hlt. cbn [digits parse_digits]. f_equal. lia.
  - cbn [digits]. rewrite parse_digits_app.
    assert (10 ^ N.of_nat (S k) = 10 * 10 ^ N.of_nat k) as Hpow.
    { rewrite Nat2N.inj_succ, N.pow_succ_r'. reflexivity. }
    rewrite IH; [|rewrite Hpow in Hlt; lia|unfold U32_MAX in *; lia].
    cbn [parse_digits].
    assert ((48 <=? 48 + n mod 10) && (48 + n mod 10 <=? 57) = true) as -> by lia.
    assert (U32_MAX <? n / 10 * 10 = false) as -> by (unfold U32_MAX in *; lia).
    replace (n / 10 * 10 + (48 + n mod 10 - 48)) with n by lia.
    assert (U32_MAX <? n = false) as -> by lia. reflexivity.
Qed.

Lemma width_bound n : n <= U32_MAX -> n < 10 ^ N.of_nat (width n).
Proof.
  intros H. unfold width. change (N.to_nat ID_PAD) with 7%nat.
  destruct (N.ltb_spec n 10000000); [cbn; lia|].
  destruct (N.ltb_spec n 100000000); [cbn; lia|].
  destruct (N.ltb_spec n 1000000000); [cbn; lia|]. unfold U32_MAX in H. cbn. lia.
Qed.

Lemma width_ge n : (7 <= width n)%nat.
Proof.
  unfold width. change (N.to_nat ID_PAD) with 7%nat.
  destruct (n <? 10000000); [lia|]. destruct (n <? 100000000); [lia|]. destruct (n <? 1000000000); lia.
Qed.

(* the first digit of a rendering is an ASCII digit *)
Lemma digits_head k n : (0 < k)%nat -> exists d t, digits k n = d :: t /\ 48 <= d <= 57.
Proof.
  revert n. induction k as [|k IH]; intros n Hk; [lia|]. cbn [digits].
  destruct k as [|k'].
  - cbn [digits app]. exists (48 + n mod 10), []. split; [reflexivity|lia].
  - destruct (IH (n / 10) ltac:(lia)) as [d [t [E Hd]]]. rewrite E. cbn [app].
    exists d, (t ++ [48 + n mod 10]). split; [reflexivity|exact Hd].
Qed.

Theorem parse_show n : n <= U32_MAX -> parse_id (show n) = Ok n.
Proof.
  intros Hmax. unfold parse_id, show.
  change ID_DISPLAY_PREFIX with [72; 80; 58]. change ID_MIN_LEN with 4. change ID_PREFIX_LEN with 3.
  pose proof (width_ge n) as Hw. pose proof (digits_length (width n) n) as Hlen.
  destruct (digits_head (width n) n ltac:(lia)) as [d [t [E Hd]]].
  assert (Nlen ([72; 80; 58] ++ digits (width n) n) <? 4 = false) as ->.
  { unfold Nlen. rewrite app_length, Hlen. cbn [length]. lia. }
  unfold is_char_boundary. change (3 =? 0) with false. cbn [negb].
  unfold nat_of. change (N.to_nat 3) with 3%nat. rewrite E.
  cbn [app nth_error skipn]. unfold is_cont.
  assert ((128 <=? d) && (d <=? 191) = false) as -> by lia. cbn [negb].
  unfold parse_u32. destruct d as [|p]; [lia|].
  destruct (N.eqb_spec (N.pos p) 43) as [E43|E43]; [lia|].
  assert (parse_digits (N.pos p :: t) 0 = Some n) as Hp.
  { rewrite <- E. apply parse_digits_digits; [apply width_bound; exact Hmax|exact Hmax]. }
  destruct p as [p|p|]; try (rewrite Hp; reflexivity).
  all: destruct p as [p|p|]; try (rewrite Hp; reflexivity).
  all: destruct p as [p|p|]; try (rewrite Hp; reflexivity).
  all: destruct p as [p|p|]; try (rewrite Hp; reflexivity).
  all: destruct p as [p|p|]; try (rewrite Hp; reflexivity).
  all: destruct p as [p|p|]; try (rewrite Hp; reflexivity).
  all: try lia.
Qed.

(* big-endian bytes round trip *)
Theorem be_bytes_roundtrip n : n <= U32_MAX -> id_of_be (id_to_be n) = Some n.
Proof.
  intros H. unfold id_of_be, id_to_be, to_be32. f_equal. apply be32_to_be32. unfold U32_MAX in H. lia.
Qed.

(* the rendering is the prefix followed by at least seven digits *)
Theorem show_shape n : exists ds, show n = [72; 80; 58] ++ ds /\ (7 <= length ds)%nat /\
  Forall (fun d => 48 <= d <= 57) ds.
Proof.
  exists (digits (width n) n). split; [reflexivity|]. split; [rewrite digits_length; apply width_ge|].
  generalize (width n). intros k. revert n. induction k as [|k IH]; intros n; cbn [digits]; [constructor|].
  apply Forall_app. split; [apply IH|]. constructor; [lia|constructor].
Qed.

(* parsing is total: it never panics, on any byte string *)
Theorem parse_total s : parse_id s <> Panic /\ parse_id s <> Fuel.
Proof.
  unfold parse_id. destruct (Nlen s <? ID_MIN_LEN); [split; discriminate|].
  destruct (negb (is_char_boundary s ID_PREFIX_LEN)); [split; discriminate|].
  destruct (parse_u32 _); split; discriminate.
Qed.

(* ---------------- what parsing accepts, exactly ---------------- *)

Definition is_digit (d : N) : Prop := 48 <= d <= 57.

(* the decimal value of a digit string, continuing from acc *)
Fixpoint dval (l : list N) (acc : N) : N :=
  match l with [] => acc | d :: t => dval t (acc * 10 + (d - 48)) end.

Lemma dval_ge l : forall acc, acc <= dval l acc.
Proof. induction l as [|d t IH]; intros acc; cbn [dval]; [lia|]. specialize (IH (acc * 10 + (d - 48))). lia. Qed.

(* u32::from_str on digits: succeeds exactly on digit strings whose value fits, and returns the value *)
Theorem parse_digits_spec l : forall acc n,
  parse_digits l acc = Some n <-> Forall is_digit l /\ n = dval l acc /\ (l <> [] -> n <= U32_MAX).
Proof.
  induction l as [|d t IH]; intros acc n; cbn [parse_digits dval].
  - split; [intros [= <-]; split; [constructor|split; [reflexivity|congruence]]|intros (_ & -> & _); reflexivity].
  - destruct (N.leb_spec 48 d) as [H1|H1]; destruct (N.leb_spec d 57) as [H2|H2]; cbn [andb];
      try (split; [discriminate|intros (Hf & _); inversion Hf as [|? ? [A B] _]; subst; lia]).
    destruct (N.ltb_spec U32_MAX (acc * 10)) as [H3|H3].
    { split; [discriminate|]. intros (_ & -> & Hb). specialize (Hb ltac:(discriminate)).
      pose proof (dval_ge t (acc * 10 + (d - 48))). lia. }
    destruct (N.ltb_spec U32_MAX (acc * 10 + (d - 48))) as [H4|H4].
    { split; [discriminate|]. intros (_ & -> & Hb). specialize (Hb ltac:(discriminate)).
      pose proof (dval_ge t (acc * 10 + (d - 48))). lia. }
    rewrite IH. split.
    + intros (Hf & -> & Hb). split; [constructor; [split; assumption|exact Hf]|]. split; [reflexivity|]. intros _.
      destruct t as [|d' t']; [cbn [dval]; exact H4|apply Hb; discriminate].
    + intros (Hf & -> & Hb). inversion Hf as [|? ? _ Hf']; subst. split; [exact Hf'|]. split; [reflexivity|]. intros _. apply Hb. discriminate.
Qed.

(* TryFrom<&str>: Ok n exactly when the text is at least ID_MIN_LEN bytes, byte 3 is a character
   boundary, and what follows the prefix is an optional '+' and a non-empty digit string of value
   n <= u32::MAX; in every other case the result is Err(ParseIntError) *)
Theorem parse_id_spec s n : parse_id s = Ok n <->
  ID_MIN_LEN <= Nlen s /\ is_char_boundary s ID_PREFIX_LEN = true /\
  exists ds, ds <> [] /\ Forall is_digit ds /\ n = dval ds 0 /\ n <= U32_MAX /\
    (skipn (N.to_nat ID_PREFIX_LEN) s = ds \/ skipn (N.to_nat ID_PREFIX_LEN) s = 43 :: ds).
Proof.
  unfold parse_id. destruct (N.ltb_spec (Nlen s) ID_MIN_LEN) as [Hl|Hl]; [split; [discriminate|intros [H _]; lia]|].
  destruct (is_char_boundary s ID_PREFIX_LEN) eqn:Eb; cbn [negb]; [|split; [discriminate|intros (_ & H & _); discriminate]].
  set (r := skipn (N.to_nat ID_PREFIX_LEN) s). unfold parse_u32.
  assert (forall ds, ds <> [] -> (parse_digits ds 0 = Some n <-> Forall is_digit ds /\ n = dval ds 0 /\ n <= U32_MAX)) as K.
  { intros ds Hne. rewrite parse_digits_spec. split; [intros (A & B & C); auto|intros (A & B & C); auto]. }
  destruct r as [|c t] eqn:Er.
  - split; [discriminate|]. intros (_ & _ & ds & Hne & _ & _ & _ & [E|E]); [congruence|discriminate].
  - destruct (N.eqb_spec c 43) as [->|Hc].
    + destruct t as [|c' t'].
      * split; [discriminate|]. intros (_ & _ & ds & Hne & Hf & _ & _ & [E|E]).
        -- subst ds. inversion Hf as [|? ? [A B] _]; subst. lia.
        -- injection E as <-. congruence.
      * destruct (parse_digits (c' :: t') 0) as [m|] eqn:Ep.
        -- split.
           ++ intros [= <-]. split; [exact Hl|]. split; [reflexivity|]. exists (c' :: t'). split; [discriminate|].
              apply (K (c' :: t') ltac:(discriminate)) in Ep as (A & B & C). auto 6.
           ++ intros (_ & _ & ds & Hne & Hf & Hv & Hb & [E|E]).
              ** subst ds. inversion Hf as [|? ? [A B] _]; subst. lia.
              ** injection E as <-. assert (parse_digits (c' :: t') 0 = Some n) as E2 by (apply K; [discriminate|auto]). congruence.
        -- split; [discriminate|]. intros (_ & _ & ds & Hne & Hf & Hv & Hb & [E|E]).
           ** subst ds. inversion Hf as [|? ? [A B] _]; subst. lia.
           ** injection E as <-. assert (parse_digits (c' :: t') 0 = Some n) as E2 by (apply K; [discriminate|auto]). congruence.
    + assert (match c with 43 => match t with [] => None | _ => parse_digits t 0 end | _ => parse_digits (c :: t) 0 end = parse_digits (c :: t) 0) as ->.
      { destruct c as [|p]; [reflexivity|]. do 6 (destruct p as [p|p|]; try reflexivity). congruence. }
      destruct (parse_digits (c :: t) 0) as [m|] eqn:Ep.
      * split.
        -- intros [= <-]. split; [exact Hl|]. split; [reflexivity|]. exists (c :: t). split; [discriminate|].
           apply (K (c :: t) ltac:(discriminate)) in Ep as (A & B & C). auto 6.
        -- intros (_ & _ & ds & Hne & Hf & Hv & Hb & [E|E]); [|congruence].
           subst ds. assert (parse_digits (c :: t) 0 = Some n) as E2 by (apply K; [discriminate|auto]). congruence.
      * split; [discriminate|]. intros (_ & _ & ds & Hne & Hf & Hv & Hb & [E|E]); [|congruence].
        subst ds. assert (parse_digits (c :: t) 0 = Some n) as E2 by (apply K; [discriminate|auto]). congruence.
Qed.

Theorem parse_id_error_kind s : (exists n, parse_id s = Ok n) \/ parse_id s = Err ParseIntError.
Proof.
  unfold parse_id. destruct (Nlen s <? ID_MIN_LEN); [right; reflexivity|]. destruct (negb _); [right; reflexivity|].
  destruct (parse_u32 _); [left; eauto|right; reflexivity].
Qed.

(* ---------------- the rendering, exactly ---------------- *)

Lemma dval_split l : forall acc, dval l acc = acc * 10 ^ N.of_nat (length l) + dval l 0.
Proof.
  induction l as [|d t IH]; intros acc; cbn [dval length]; [cbn; lia|].
  rewrite (IH (acc * 10 + (d - 48))), (IH (0 * 10 + (d - 48))).
  rewrite Nat2N.inj_succ, N.pow_succ_r'. lia.
Qed.

Lemma dval_lt l : Forall is_digit l -> dval l 0 < 10 ^ N.of_nat (length l).
Proof.
  induction l as [|d t IH]; intros H; cbn [dval length]; [cbn; lia|].
  inversion H as [|? ? Hd Ht]; subst. specialize (IH Ht). unfold is_digit in Hd.
  rewrite dval_split. rewrite Nat2N.inj_succ, N.pow_succ_r'.
  assert (0 < 10 ^ N.of_nat (length t)) by (apply N.neq_0_lt_0, N.pow_nonzero; lia). nia.
Qed.

(* Display: "HP:" followed by the decimal digits of the number, padded with zeros to exactly seven digits
   inside the id space and written without a leading zero beyond it *)
Theorem show_padded_decimal n : n <= U32_MAX -> exists ds,
  show n = [72; 80; 58] ++ ds /\ Forall is_digit ds /\ dval ds 0 = n /\
  (n < 10000000 -> length ds = 7%nat) /\
  (10000000 <= n -> exists d t, ds = d :: t /\ d <> 48).
Proof.
  intros Hmax. exists (digits (width n) n).
  pose proof (parse_digits_digits (width n) n (width_bound n Hmax) Hmax) as Hp.
  apply parse_digits_spec in Hp as (Hd & Hv & _).
  split; [reflexivity|]. split; [exact Hd|]. split; [symmetry; exact Hv|]. split.
  - intros Hlt. rewrite digits_length. unfold width. change (N.to_nat ID_PAD) with 7%nat.
    destruct (N.ltb_spec n 10000000); [reflexivity|lia].
  - intros Hge. destruct (digits_head (width n) n ltac:(pose proof (width_ge n); lia)) as [d [t [E _]]].
    exists d, t. split; [exact E|]. intros ->.
    rewrite E in Hv, Hd. cbn [dval] in Hv. change (0 * 10 + (48 - 48)) with 0 in Hv.
    pose proof (dval_lt t (Forall_inv_tail Hd)) as Hlt. rewrite <- Hv in Hlt.
    assert (length t = (width n - 1)%nat) as El.
    { pose proof (digits_length (width n) n) as L. rewrite E in L. cbn [length] in L. lia. }
    rewrite El in Hlt. unfold width in Hlt. change (N.to_nat ID_PAD) with 7%nat in Hlt.
    destruct (N.ltb_spec n 10000000); [lia|].
    destruct (N.ltb_spec n 100000000); [cbn in Hlt; lia|].
    destruct (N.ltb_spec n 1000000000); cbn in Hlt; lia.
Qed.
