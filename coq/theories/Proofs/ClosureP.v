(* ClosureP.v — the ancestor cache computed by connect_all_terms / create_cache_of_grandparents /
   all_grandparents (Model/Onto.v) is EXACTLY the transitive closure of the direct-parent
   relation: for every arena, every insertion order, every id assignment and every fuel
   (partial correctness: whenever the fuelled recursion returns, the result is right).
   No acyclicity hypothesis is needed for this statement. *)
From Coq Require Import Lia Relations Permutation.
From HpoV Require Import Gen.Consts Model.Base Model.Group Model.Onto Proofs.GroupP Proofs.BaseP.

(* ------------------------------------------------------------------------------------------ *)
(* vocabulary                                                                                   *)
(* ------------------------------------------------------------------------------------------ *)

Definition parent_rel (a : arena) (c p : N) : Prop :=
  exists t, In t (ar_terms a) /\ t_id t = c /\ In p (t_parents t).

Definition anc (a : arena) : N -> N -> Prop := clos_trans N (parent_rel a).

(* the cache of t holds exactly the proper ancestors of t *)
Definition exact (a : arena) (t : term) : Prop := forall x, In x (t_allp t) <-> anc a (t_id t) x.

(* arena invariants established by Arena::insert and Builder::add_parent (C10, C15):
   unique ids inside the id space, every parent id resolves *)
Record wf_ar (a : arena) : Prop := {
  wf_nodup : NoDup (ar_keys a);
  wf_range : forall t, In t (ar_terms a) -> t_id t < MAX_HPO_ID;
  wf_closed : forall t, In t (ar_terms a) -> forall p, In p (t_parents t) -> In p (ar_keys a)
}.

(* every cache is either still empty or already exact *)
Definition Inv (a : arena) : Prop := forall t, In t (ar_terms a) -> t_allp t = [] \/ exact a t.

(* a' differs from a at most in the caches *)
Definition same_but_allp (a a' : arena) : Prop :=
  ar_ph a' = ar_ph a /\ Forall2 (fun t t' => t' = set_allp (t_allp t') t) (ar_terms a) (ar_terms a').

(* ... and every cache that changed is exact afterwards *)
Definition step (a a' : arena) : Prop :=
  ar_ph a' = ar_ph a /\
  Forall2 (fun t t' => t' = set_allp (t_allp t') t /\ (t_allp t' = t_allp t \/ exact a' t')) (ar_terms a) (ar_terms a').

(* ------------------------------------------------------------------------------------------ *)
(* frame lemmas                                                                                 *)
(* ------------------------------------------------------------------------------------------ *)

Lemma set_allp_id t : t = set_allp (t_allp t) t.
Proof. destruct t; reflexivity. Qed.

Lemma set_allp_fields g t : t_id (set_allp g t) = t_id t /\ t_parents (set_allp g t) = t_parents t
  /\ t_allp (set_allp g t) = g.
Proof. destruct t; cbn; auto. Qed.

Lemma same_refl a : same_but_allp a a.
Proof.
  split; [reflexivity|]. induction (ar_terms a) as [|t l IH]; constructor; [apply set_allp_id|exact IH].
Qed.

Lemma Forall2_trans_gen {A} (R S T : A -> A -> Prop) l1 : forall l2 l3,
  (forall x y z, R x y -> S y z -> T x z) -> Forall2 R l1 l2 -> Forall2 S l2 l3 -> Forall2 T l1 l3.
Proof.
  induction l1 as [|x l1 IH]; intros l2 l3 H H1 H2; inversion H1; subst; inversion H2; subst; constructor; eauto.
Qed.

Lemma set_allp_twice g h t : set_allp g (set_allp h t) = set_allp g t.
Proof. destruct t; reflexivity. Qed.

Lemma same_trans a b c : same_but_allp a b -> same_but_allp b c -> same_but_allp a c.
Proof.
  intros [P1 F1] [P2 F2]. split; [congruence|].
  apply (Forall2_trans_gen _ _ _ _ _ _ (fun x y z (Hxy : y = set_allp (t_allp y) x) (Hyz : z = set_allp (t_allp z) y) =>
    eq_trans Hyz (eq_trans (f_equal (set_allp (t_allp z)) Hxy) (set_allp_twice _ _ _))) F1 F2).
Qed.

Lemma same_keys a a' : same_but_allp a a' -> ar_keys a' = ar_keys a.
Proof.
  intros [_ F]. unfold ar_keys. induction F as [|t t' l l' H F IH]; [reflexivity|].
  cbn [map]. rewrite IH. f_equal. rewrite H. apply set_allp_fields.
Qed.

Lemma same_In_l a a' t : same_but_allp a a' -> In t (ar_terms a) ->
  exists t', In t' (ar_terms a') /\ t' = set_allp (t_allp t') t.
Proof. intros [_ F] Hin. destruct (Forall2_In_l _ _ _ t F Hin) as [t' [H1 H2]]. eauto. Qed.

Lemma same_In_r a a' t' : same_but_allp a a' -> In t' (ar_terms a') ->
  exists t, In t (ar_terms a) /\ t' = set_allp (t_allp t') t.
Proof. intros [_ F] Hin. destruct (Forall2_In_r _ _ _ t' F Hin) as [t [H1 H2]]. eauto. Qed.

Lemma same_parent_rel a a' c p : same_but_allp a a' -> (parent_rel a c p <-> parent_rel a' c p).
Proof.
  intros S. split; intros [t [Hin [Hid Hp]]].
  - destruct (same_In_l a a' t S Hin) as [t' [Hin' E]]. exists t'. split; [exact Hin'|].
    rewrite E. destruct (set_allp_fields (t_allp t') t) as [-> [-> _]]. auto.
  - destruct (same_In_r a a' t S Hin) as [t0 [Hin0 E]]. exists t0. split; [exact Hin0|].
    rewrite E in Hid, Hp. destruct (set_allp_fields (t_allp t) t0) as [E1 [E2 _]]. rewrite E1 in Hid. rewrite E2 in Hp. auto.
Qed.

Lemma same_anc a a' c x : same_but_allp a a' -> (anc a c x <-> anc a' c x).
Proof.
  intros S. unfold anc. split; intros H; induction H as [c x H|c y x _ IH1 _ IH2].
  - apply t_step. apply (same_parent_rel a a' c x S). exact H.
  - eapply t_trans; eauto.
  - apply t_step. apply (same_parent_rel a a' c x S). exact H.
  - eapply t_trans; eauto.
Qed.

Lemma same_exact a a' t : same_but_allp a a' -> (exact a t <-> exact a' t).
Proof.
  intros S. unfold exact. split; intros H x; rewrite H; [apply same_anc|symmetry; apply same_anc]; exact S.
Qed.

Lemma same_wf a a' : same_but_allp a a' -> wf_ar a -> wf_ar a'.
Proof.
  intros S W. pose proof (same_keys a a' S) as K. constructor.
  - rewrite K. apply (wf_nodup a W).
  - intros t' Hin. destruct (same_In_r a a' t' S Hin) as [t [Hin0 E]]. rewrite E.
    destruct (set_allp_fields (t_allp t') t) as [-> _]. apply (wf_range a W t Hin0).
  - intros t' Hin p Hp. destruct (same_In_r a a' t' S Hin) as [t [Hin0 E]]. rewrite K.
    rewrite E in Hp. destruct (set_allp_fields (t_allp t') t) as [_ [E2 _]]. rewrite E2 in Hp.
    apply (wf_closed a W t Hin0 p Hp).
Qed.

Lemma step_same a a' : step a a' -> same_but_allp a a'.
Proof.
  intros [P F]. split; [exact P|]. induction F as [|t t' l l' [H _] F IH]; constructor; assumption.
Qed.

Lemma step_refl a : step a a.
Proof.
  split; [reflexivity|]. induction (ar_terms a) as [|t l IH]; constructor; [|exact IH].
  split; [apply set_allp_id|left; reflexivity].
Qed.

Lemma step_trans a b c : step a b -> step b c -> step a c.
Proof.
  intros S1 S2. pose proof (step_same b c S2) as Sbc. destruct S1 as [P1 F1]. destruct S2 as [P2 F2].
  split; [congruence|].
  refine (Forall2_trans_gen _ _ _ _ _ _ _ F1 F2). intros x y z [Hxy Hxy2] [Hyz Hyz2]. split.
  - rewrite Hyz, Hxy at 1. apply set_allp_twice.
  - destruct Hyz2 as [E|E]; [|right; exact E].
    destruct Hxy2 as [E2|E2]; [left; congruence|]. right.
    assert (z = y) as -> by (rewrite Hyz, E; symmetry; apply set_allp_id).
    apply (same_exact b c y Sbc). exact E2.
Qed.

(* ------------------------------------------------------------------------------------------ *)
(* arena access under the invariants                                                            *)
(* ------------------------------------------------------------------------------------------ *)

Lemma key_find a id : wf_ar a -> In id (ar_keys a) ->
  exists t, ar_find id a = Some t /\ In t (ar_terms a) /\ t_id t = id /\ id < MAX_HPO_ID.
Proof.
  intros W Hin. unfold ar_keys in Hin. destruct (find_by_In_key t_id id _ Hin) as [t Ht].
  exists t. unfold ar_find. split; [exact Ht|]. apply find_by_Some in Ht as [H1 H2].
  repeat split; auto. rewrite <- H2. apply (wf_range a W t H1).
Qed.

Lemma get_unchecked_key a id : wf_ar a -> In id (ar_keys a) ->
  exists t, ar_get_unchecked id a = Ok t /\ In t (ar_terms a) /\ t_id t = id.
Proof.
  intros W Hin. destruct (key_find a id W Hin) as [t [Hf [Hin' [Hid Hr]]]].
  exists t. unfold ar_get_unchecked. destruct (N.leb_spec MAX_HPO_ID id) as [Hle|_]; [lia|]. rewrite Hf. auto.
Qed.

Lemma find_unique a t : wf_ar a -> In t (ar_terms a) -> ar_find (t_id t) a = Some t.
Proof. intros W Hin. unfold ar_find. apply find_by_unique; [exact (wf_nodup a W)|exact Hin]. Qed.

(* update_by on a duplicate-free list: the element with that key is replaced, the others stay *)
Lemma untouched_Forall2 (f : term -> term) id l : ~ In id (map t_id l) ->
  Forall2 (fun t t' => if t_id t =? id then t' = f t else t' = t) l l.
Proof.
  induction l as [|y l IH]; intros Hn; constructor.
  - destruct (N.eqb_spec (t_id y) id) as [E|_]; [|reflexivity]. exfalso. apply Hn. left. exact E.
  - apply IH. intros H. apply Hn. right. exact H.
Qed.

Lemma update_by_Forall2 (f : term -> term) id l : NoDup (map t_id l) ->
  Forall2 (fun t t' => if t_id t =? id then t' = f t else t' = t) l (update_by t_id id f l).
Proof.
  induction l as [|x l IH]; intros Hnd; cbn [update_by]; [constructor|].
  inversion Hnd as [|? ? Hx Hl]; subst.
  destruct (N.eqb_spec (t_id x) id) as [E|E].
  - constructor; [rewrite E, N.eqb_refl; reflexivity|]. apply untouched_Forall2. rewrite <- E. exact Hx.
  - constructor; [destruct (N.eqb_spec (t_id x) id); [contradiction|reflexivity]|apply IH, Hl].
Qed.

Lemma Forall2_impl_In {A B} (R S : A -> B -> Prop) l l' :
  (forall x y, In x l -> In y l' -> R x y -> S x y) -> Forall2 R l l' -> Forall2 S l l'.
Proof.
  intros H F. induction F as [|x y l l' Hxy F IH]; constructor.
  - apply H; [left; reflexivity|left; reflexivity|exact Hxy].
  - apply IH. intros a b Ha Hb. apply H; right; assumption.
Qed.

(* writing an exact cache into term [id] is a step *)
Lemma update_allp_step a id g t : wf_ar a -> ar_find id a = Some t ->
  (forall x, In x g <-> anc a id x) ->
  exists a', ar_update_unchecked id (set_allp g) a = Ok a' /\ step a a' /\
             (forall t', In t' (ar_terms a') -> t_id t' = id -> t_allp t' = g).
Proof.
  intros W Hf Hg. pose proof (find_by_Some _ _ _ _ Hf) as [Hin Hid].
  assert (id < MAX_HPO_ID) as Hr by (rewrite <- Hid; apply (wf_range a W t Hin)).
  unfold ar_update_unchecked. destruct (N.leb_spec MAX_HPO_ID id) as [Hle|_]; [lia|]. rewrite Hf.
  eexists. split; [reflexivity|].
  pose proof (update_by_Forall2 (set_allp g) id (ar_terms a) (wf_nodup a W)) as F.
  assert (same_but_allp a (ar_update id (set_allp g) a)) as S.
  { split; [reflexivity|]. unfold ar_update. cbn [ar_terms].
    refine (Forall2_impl_In _ _ _ _ _ F). intros x x' _ _ Hc.
    destruct (t_id x =? id); subst x'; [|apply set_allp_id].
    destruct (set_allp_fields g x) as [_ [_ ->]]. reflexivity. }
  split.
  - split; [reflexivity|]. unfold ar_update in *. cbn [ar_terms] in *.
    refine (Forall2_impl_In _ _ _ _ _ F). intros x x' Hx _ Hc.
    destruct (N.eqb_spec (t_id x) id) as [E|E]; subst x'.
    + destruct (set_allp_fields g x) as [E1 [_ E3]]. rewrite E3. split; [reflexivity|]. right.
      apply (same_exact a _ _ S). unfold exact. rewrite E1, E3, E. exact Hg.
    + split; [apply set_allp_id|left; reflexivity].
  - intros t' Hin' Hid'. unfold ar_update in Hin'. cbn [ar_terms] in Hin'.
    destruct (Forall2_In_r _ _ _ t' F Hin') as [x [Hx Hc]].
    destruct (N.eqb_spec (t_id x) id) as [E|E]; subst t'.
    + apply set_allp_fields.
    + contradiction.
Qed.

(* ------------------------------------------------------------------------------------------ *)
(* the closure                                                                                  *)
(* ------------------------------------------------------------------------------------------ *)

Lemma anc_unfold a c x : anc a c x <-> parent_rel a c x \/ exists p, parent_rel a c p /\ anc a p x.
Proof.
  unfold anc. split.
  - intros H. apply clos_trans_t1n in H. destruct H as [y H|y z H1 H2]; [left; exact H|].
    right. exists y. split; [exact H1|apply clos_t1n_trans; exact H2].
  - intros [H|[p [H1 H2]]]; [apply t_step; exact H|]. eapply t_trans; [apply t_step; exact H1|exact H2].
Qed.

Lemma parent_rel_of_term a t p : wf_ar a -> In t (ar_terms a) -> (parent_rel a (t_id t) p <-> In p (t_parents t)).
Proof.
  intros W Hin. split.
  - intros [t' [Hin' [Hid Hp]]]. pose proof (find_unique a t W Hin) as F1.
    pose proof (find_unique a t' W Hin') as F2. rewrite Hid in F2. rewrite F1 in F2. injection F2 as <-. exact Hp.
  - intros Hp. exists t. auto.
Qed.

Lemma inv_step a a' : Inv a -> step a a' -> Inv a'.
Proof.
  intros I S. pose proof (step_same a a' S) as Sm. destruct S as [_ F]. intros t' Hin'.
  destruct (Forall2_In_r _ _ _ t' F Hin') as [t [Hin [E [Hc|Hc]]]]; [|right; exact Hc].
  assert (t' = t) as -> by (rewrite E, Hc; symmetry; apply set_allp_id).
  destruct (I t Hin) as [H|H]; [left; exact H|right; apply (same_exact a a' t Sm); exact H].
Qed.

(* the `parents_cached` heuristic is sound under the invariant: a term with parents has a
   non-empty closure, so "non-empty cache" can only mean "already computed" *)
Lemma cached_exact a t : wf_ar a -> Inv a -> In t (ar_terms a) -> parents_cached t = true -> exact a t.
Proof.
  intros W I Hin Hc. unfold parents_cached in Hc.
  destruct (t_parents t) as [|p ps] eqn:Ep; cbn [g_is_empty] in Hc.
  - (* no parents: no ancestors; the cache is empty or exact, hence empty *)
    assert (forall x, ~ anc a (t_id t) x) as Hno.
    { intros x H. apply anc_unfold in H. destruct H as [H|[q [H _]]];
        apply (parent_rel_of_term a t _ W Hin) in H; rewrite Ep in H; exact H. }
    destruct (I t Hin) as [H|H]; [|exact H]. intros x. rewrite H. split; [intros []|intros Hx; exact (Hno x Hx)].
  - destruct (t_allp t) eqn:Ea; [discriminate|]. destruct (I t Hin) as [H|H]; [congruence|exact H].
Qed.

Lemma fold_g_add_In l : forall acc z, In z (fold_left g_add l acc) <-> In z acc \/ In z l.
Proof.
  induction l as [|x l IH]; intros acc z; cbn [fold_left]; [cbn; tauto|].
  rewrite IH, g_add_In. cbn [In]. split; [intros [[H|H]|H]|intros [H|[H|H]]]; auto.
Qed.

Section Fuel.
  Variable f : nat.
  (* induction hypothesis on the fuel *)
  Hypothesis IHf : forall a id a', wf_ar a -> Inv a -> In id (ar_keys a) -> create_cache f a id = Ok a' ->
    step a a' /\ (forall t', In t' (ar_terms a') -> t_id t' = id -> exact a' t').

  Definition grand_step (parents : group) (st : arena * group) (p : N) : res (arena * group) :=
    let (a1, acc) := st in
    do tp <- ar_get_unchecked p a1 ;;
    do a2 <- (if parents_cached tp then Ok a1 else create_cache f a1 p) ;;
    do tp' <- ar_get_unchecked p a2 ;;
    Ok (a2, fold_left g_add (t_allp tp') acc).

  Lemma grand_fold ps : forall parents a1 acc r, wf_ar a1 -> Inv a1 -> (forall p, In p ps -> In p (ar_keys a1)) ->
    foldM (grand_step parents) ps (a1, acc) = Ok r ->
    step a1 (fst r) /\ (forall x, In x (snd r) <-> In x acc \/ exists p, In p ps /\ anc a1 p x).
  Proof.
    induction ps as [|p ps IH]; intros parents a1 acc r W I Hk H; cbn [foldM] in H.
    - injection H as <-. cbn [fst snd]. split; [apply step_refl|]. intros x. split; [auto|].
      intros [Hx|[p [[] _]]]. exact Hx.
    - destruct (get_unchecked_key a1 p W (Hk p (or_introl eq_refl))) as [tp [Eg [Hin Hid]]].
      unfold grand_step at 1 in H. rewrite Eg in H. cbn [bind] in H.
      (* the arena after all_grandparents(p) *)
      assert (exists a2, (if parents_cached tp then Ok a1 else create_cache f a1 p) = Ok a2 /\ step a1 a2 /\
                (forall t', In t' (ar_terms a2) -> t_id t' = p -> exact a2 t')) as [a2 [E2 [S2 X2]]].
      { destruct (parents_cached tp) eqn:Ec.
        - exists a1. split; [reflexivity|]. split; [apply step_refl|]. intros t' Hin' Hid'.
          assert (t' = tp) as ->.
          { pose proof (find_unique a1 t' W Hin') as F1. pose proof (find_unique a1 tp W Hin) as F2.
            rewrite Hid' in F1. rewrite Hid in F2. congruence. }
          apply cached_exact; assumption.
        - destruct (create_cache f a1 p) as [a2| | |] eqn:Ecc; cbn [bind] in H; try discriminate.
          exists a2. split; [reflexivity|]. apply (IHf a1 p a2 W I (Hk p (or_introl eq_refl)) Ecc). }
      rewrite E2 in H. cbn [bind] in H.
      pose proof (step_same a1 a2 S2) as Sm2. pose proof (same_wf a1 a2 Sm2 W) as W2.
      pose proof (inv_step a1 a2 I S2) as I2. pose proof (same_keys a1 a2 Sm2) as K2.
      assert (In p (ar_keys a2)) as Hp2 by (rewrite K2; apply Hk; left; reflexivity).
      destruct (get_unchecked_key a2 p W2 Hp2) as [tp' [Eg' [Hin' Hid']]].
      rewrite Eg' in H. cbn [bind] in H.
      assert (forall q, In q ps -> In q (ar_keys a2)) as Hk2 by (intros q Hq; rewrite K2; apply Hk; right; exact Hq).
      destruct (IH parents a2 _ r W2 I2 Hk2 H) as [S3 M3].
      split; [eapply step_trans; eauto|].
      intros x. rewrite M3, fold_g_add_In. pose proof (X2 tp' Hin' Hid') as Xp. unfold exact in Xp. rewrite Hid' in Xp.
      split.
      + intros [[Hx|Hx]|[q [Hq Hx]]].
        * left; exact Hx.
        * right. exists p. split; [left; reflexivity|]. apply (same_anc a1 a2 p x Sm2), Xp, Hx.
        * right. exists q. split; [right; exact Hq|]. apply (same_anc a1 a2 q x Sm2), Hx.
      + intros [Hx|[q [[<-|Hq] Hx]]].
        * left; left; exact Hx.
        * left; right. apply Xp, (same_anc a1 a2 _ x Sm2), Hx.
        * right. exists q. split; [exact Hq|]. apply (same_anc a1 a2 q x Sm2), Hx.
  Qed.
End Fuel.

(* create_cache_of_grandparents: whenever it returns, only caches changed, every changed cache is
   exact, and the cache of [id] is exact — for EVERY fuel *)
Theorem create_cache_spec fuel : forall a id a', wf_ar a -> Inv a -> In id (ar_keys a) ->
  create_cache fuel a id = Ok a' ->
  step a a' /\ (forall t', In t' (ar_terms a') -> t_id t' = id -> exact a' t').
Proof.
  induction fuel as [|f IHf]; intros a id a' W I Hk H; [discriminate|].
  cbn [create_cache] in H.
  destruct (get_unchecked_key a id W Hk) as [t [Eg [Hin Hid]]]. rewrite Eg in H. cbn [bind] in H.
  change (fun (st : arena * group) (p : N) => let (a1, acc) := st in
            do tp <- ar_get_unchecked p a1 ;;
            do a2 <- (if parents_cached tp then Ok a1 else create_cache f a1 p) ;;
            do tp' <- ar_get_unchecked p a2 ;; Ok (a2, fold_left g_add (t_allp tp') acc))
    with (grand_step f (t_parents t)) in H.
  destruct (foldM (grand_step f (t_parents t)) (t_parents t) (a, [])) as [[a1 acc]| | |] eqn:Ef; cbn [bind] in H; try discriminate.
  assert (forall p, In p (t_parents t) -> In p (ar_keys a)) as Hpk by (intros p Hp; apply (wf_closed a W t Hin p Hp)).
  destruct (grand_fold f IHf (t_parents t) (t_parents t) a [] (a1, acc) W I Hpk Ef) as [S1 M1]. cbn [fst snd] in S1, M1.
  pose proof (step_same a a1 S1) as Sm1. pose proof (same_wf a a1 Sm1 W) as W1. pose proof (same_keys a a1 Sm1) as K1.
  assert (In id (ar_keys a1)) as Hk1 by (rewrite K1; exact Hk).
  destruct (key_find a1 id W1 Hk1) as [t1 [Ef1 _]].
  assert (forall x, In x (g_union acc (t_parents t)) <-> anc a1 id x) as Hg.
  { intros x. rewrite g_union_In, M1. rewrite <- (same_anc a a1 id x Sm1), anc_unfold. rewrite <- Hid.
    split.
    - intros [[[]|[p [Hp Hx]]]|Hx].
      + right. exists p. split; [apply (parent_rel_of_term a t p W Hin); exact Hp|exact Hx].
      + left. apply (parent_rel_of_term a t x W Hin). exact Hx.
    - intros [Hx|[p [Hp Hx]]].
      + right. apply (parent_rel_of_term a t x W Hin). exact Hx.
      + left. right. exists p. split; [apply (parent_rel_of_term a t p W Hin); exact Hp|exact Hx]. }
  destruct (update_allp_step a1 id (g_union acc (t_parents t)) t1 W1 Ef1 Hg) as [a2 [Eu [S2 X2]]].
  rewrite Eu in H. injection H as <-.
  split; [eapply step_trans; eauto|].
  intros t' Hin' Hid'. unfold exact. intros x. rewrite (X2 t' Hin' Hid'), Hid', Hg.
  apply (same_anc a1 a2 id x (step_same a1 a2 S2)).
Qed.

(* ------------------------------------------------------------------------------------------ *)
(* connect_all_terms                                                                            *)
(* ------------------------------------------------------------------------------------------ *)

Lemma step_exact_kept a a' t t' : wf_ar a -> step a a' -> In t (ar_terms a) -> exact a t ->
  In t' (ar_terms a') -> t_id t' = t_id t -> exact a' t'.
Proof.
  intros W S Hin Hex Hin' Hid. pose proof (step_same a a' S) as Sm. destruct S as [_ F].
  destruct (Forall2_In_r _ _ _ t' F Hin') as [t0 [Hin0 [E [Hc|Hc]]]]; [|exact Hc].
  assert (t' = t0) as -> by (rewrite E, Hc; symmetry; apply set_allp_id).
  assert (t0 = t) as ->.
  { pose proof (find_unique a t0 W Hin0) as F1. pose proof (find_unique a t W Hin) as F2. rewrite Hid in F1. congruence. }
  apply (same_exact a a' t Sm). exact Hex.
Qed.

Lemma connect_fold fuel ids : forall a1 a', wf_ar a1 -> Inv a1 -> (forall id, In id ids -> In id (ar_keys a1)) ->
  foldM (fun a id => create_cache fuel a id) ids a1 = Ok a' ->
  step a1 a' /\ (forall t', In t' (ar_terms a') -> In (t_id t') ids -> exact a' t').
Proof.
  induction ids as [|id ids IH]; intros a1 a' W I Hk H; cbn [foldM] in H.
  - injection H as <-. split; [apply step_refl|intros t' _ []].
  - destruct (create_cache fuel a1 id) as [a2| | |] eqn:Ec; cbn [bind] in H; try discriminate.
    destruct (create_cache_spec fuel a1 id a2 W I (Hk id (or_introl eq_refl)) Ec) as [S2 X2].
    pose proof (step_same a1 a2 S2) as Sm2. pose proof (same_wf a1 a2 Sm2 W) as W2.
    pose proof (inv_step a1 a2 I S2) as I2. pose proof (same_keys a1 a2 Sm2) as K2.
    assert (forall q, In q ids -> In q (ar_keys a2)) as Hk2 by (intros q Hq; rewrite K2; apply Hk; right; exact Hq).
    destruct (IH a2 a' W2 I2 Hk2 H) as [S3 X3]. split; [eapply step_trans; eauto|].
    intros t' Hin' [Hid|Hid]; [|apply X3; assumption].
    (* the term handled first: exact in a2, and exactness survives the later steps *)
    pose proof (step_same a2 a' S3) as Sm3.
    destruct (same_In_r a2 a' t' Sm3 Hin') as [t2 [Hin2 E2]].
    assert (t_id t' = t_id t2) as Hid2.
    { rewrite E2 at 1. apply set_allp_fields. }
    apply (step_exact_kept a2 a' t2 t' W2 S3 Hin2); [|exact Hin'|exact Hid2].
    apply X2; [exact Hin2|congruence].
Qed.

(* Builder::connect_all_terms on a builder whose caches are still empty (as after
   terms_complete and add_parent calls): whenever it returns — for every fuel, every insertion order,
   every id assignment — names, parents, children and flags are untouched and the cache of every
   term is EXACTLY the transitive closure of the direct-parent relation *)
Theorem connect_all_exact fuel a a' : wf_ar a -> (forall t, In t (ar_terms a) -> t_allp t = []) ->
  connect_all fuel a = Ok a' ->
  same_but_allp a a' /\
  forall t', In t' (ar_terms a') -> forall x, In x (t_allp t') <-> clos_trans N (parent_rel a) (t_id t') x.
Proof.
  intros W E H. unfold connect_all in H.
  assert (Inv a) as I by (intros t Hin; left; apply E, Hin).
  destruct (connect_fold fuel (ar_keys a) a a' W I (fun id Hid => Hid) H) as [S X].
  pose proof (step_same a a' S) as Sm. split; [exact Sm|].
  intros t' Hin' x.
  assert (In (t_id t') (ar_keys a)) as Hk.
  { rewrite <- (same_keys a a' Sm). unfold ar_keys. apply in_map, Hin'. }
  rewrite (X t' Hin' Hk x). symmetry. apply (same_anc a a' (t_id t') x Sm).
Qed.

(* on an acyclic graph (one that admits a rank function) no term is its own ancestor *)
Definition ranked (a : arena) : Prop :=
  exists rank : N -> nat, forall c p, parent_rel a c p -> (rank p < rank c)%nat.

Theorem ranked_irreflexive a : ranked a -> forall c, ~ clos_trans N (parent_rel a) c c.
Proof.
  intros [rank Hr] c H.
  assert (forall x y, clos_trans N (parent_rel a) x y -> (rank y < rank x)%nat) as K.
  { intros x y Hxy. induction Hxy as [x y Hxy|x y z _ IH1 _ IH2]; [apply Hr, Hxy|lia]. }
  specialize (K c c H). lia.
Qed.

(* ------------------------------------------------------------------------------------------ *)
(* the arenas the Builder produces satisfy the hypotheses                                       *)
(* ------------------------------------------------------------------------------------------ *)

Definition child_rel (a : arena) (p c : N) : Prop :=
  exists t, In t (ar_terms a) /\ t_id t = p /\ In c (t_children t).

(* builder invariant before connect_all_terms: unique ids in range, links resolve, caches empty,
   children exactly the inverse of parents *)
Record binv (a : arena) : Prop := {
  b_wf : wf_ar a;
  b_empty : forall t, In t (ar_terms a) -> t_allp t = [];
  b_inverse : forall c p, parent_rel a c p <-> child_rel a p c
}.

Lemma binv_default : binv arena_default.
Proof.
  constructor.
  - constructor; cbn; [constructor|intros t []|intros t []].
  - intros t [].
  - intros c p. split; intros [t [[] _]].
Qed.

Lemma find_app_None {A} (key : A -> N) k l x : find_by key k l = None -> key x <> k -> find_by key k (l ++ [x]) = None.
Proof.
  induction l as [|y l IH]; cbn [app find_by]; intros H Hx.
  - destruct (N.eqb_spec (key x) k); [contradiction|reflexivity].
  - destruct (key y =? k); [discriminate|]. apply IH; assumption.
Qed.

(* Builder::new_term / add_term *)
Lemma binv_insert a t a' : binv a -> t_parents t = [] -> t_children t = [] -> t_allp t = [] ->
  ar_insert t a = Ok a' -> binv a'.
Proof.
  intros B Hp Hc Ha H. unfold ar_insert in H. destruct (N.leb_spec MAX_HPO_ID (t_id t)) as [|Hr]; [discriminate|].
  destruct (ar_find (t_id t) a) as [t0|] eqn:Ef; injection H as <-; [exact B|].
  destruct B as [[Wn Wr Wc] Be Bi].
  assert (forall x, In x (ar_terms a ++ [t]) <-> In x (ar_terms a) \/ x = t) as Hin.
  { intros x. rewrite in_app_iff. cbn. split; intros [H|H]; auto. destruct H as [H|[]]; auto. }
  constructor.
  - constructor.
    + unfold ar_keys. cbn [ar_terms]. rewrite map_app. cbn [map].
      apply (Permutation.Permutation_NoDup (Permutation.Permutation_cons_append (map t_id (ar_terms a)) (t_id t))).
      constructor; [|exact Wn]. intros Hk. apply in_map_iff in Hk as [x [Hx Hxin]].
      unfold ar_find in Ef. exact (find_by_None _ _ _ Ef x Hxin Hx).
    + intros x Hx. cbn [ar_terms] in Hx. apply Hin in Hx as [Hx| ->]; [apply Wr, Hx|exact Hr].
    + intros x Hx p Hpx. cbn [ar_terms] in Hx. apply Hin in Hx as [Hx| ->].
      * unfold ar_keys. cbn [ar_terms]. rewrite map_app, in_app_iff. left. apply (Wc x Hx p Hpx).
      * rewrite Hp in Hpx. destruct Hpx.
  - intros x Hx. cbn [ar_terms] in Hx. apply Hin in Hx as [Hx| ->]; [apply Be, Hx|exact Ha].
  - intros c p. unfold parent_rel, child_rel. cbn [ar_terms]. split.
    + intros [x [Hx [Hid Hpx]]]. apply Hin in Hx as [Hx| ->]; [|rewrite Hp in Hpx; destruct Hpx].
      destruct (proj1 (Bi c p) (ex_intro _ x (conj Hx (conj Hid Hpx)))) as [y [Hy [Hidy Hcy]]].
      exists y. split; [apply Hin; left; exact Hy|auto].
    + intros [x [Hx [Hid Hcx]]]. apply Hin in Hx as [Hx| ->]; [|rewrite Hc in Hcx; destruct Hcx].
      destruct (proj2 (Bi c p) (ex_intro _ x (conj Hx (conj Hid Hcx)))) as [y [Hy [Hidy Hpy]]].
      exists y. split; [apply Hin; left; exact Hy|auto].
Qed.

(* updating one term by an id-preserving function *)
Lemma update_terms (f : term -> term) id a t' : NoDup (ar_keys a) -> (forall t, t_id (f t) = t_id t) ->
  (In t' (ar_terms (ar_update id f a)) <->
   exists t, In t (ar_terms a) /\ t' = if t_id t =? id then f t else t).
Proof.
  intros Hnd Hf. unfold ar_update. cbn [ar_terms].
  pose proof (update_by_Forall2 f id (ar_terms a) Hnd) as F. split.
  - intros Hin. destruct (Forall2_In_r _ _ _ t' F Hin) as [t [Ht Hc]]. exists t. split; [exact Ht|].
    destruct (t_id t =? id); exact Hc.
  - intros [t [Ht E]]. destruct (Forall2_In_l _ _ _ t F Ht) as [y [Hy Hc]].
    assert (y = t') as <-; [|exact Hy]. destruct (t_id t =? id); congruence.
Qed.

Lemma update_keys (f : term -> term) id a : (forall t, t_id (f t) = t_id t) -> ar_keys (ar_update id f a) = ar_keys a.
Proof.
  intros Hf. unfold ar_keys, ar_update. cbn [ar_terms]. induction (ar_terms a) as [|x l IH]; [reflexivity|].
  cbn [update_by map]. destruct (t_id x =? id); cbn [map]; [rewrite Hf; reflexivity|rewrite IH; reflexivity].
Qed.

Lemma get_Some_key a id t : ar_get id a = Some t -> In t (ar_terms a) /\ t_id t = id /\ In id (ar_keys a).
Proof.
  unfold ar_get. destruct (MAX_HPO_ID <=? id); [discriminate|]. unfold ar_find. intros H.
  apply find_by_Some in H as [H1 H2]. repeat split; auto. unfold ar_keys. rewrite <- H2. apply in_map, H1.
Qed.

Lemma set_children_fields g t : t_id (set_children g t) = t_id t /\ t_parents (set_children g t) = t_parents t
  /\ t_allp (set_children g t) = t_allp t /\ t_children (set_children g t) = g.
Proof. destruct t; cbn; auto. Qed.
Lemma set_parents_fields g t : t_id (set_parents g t) = t_id t /\ t_parents (set_parents g t) = g
  /\ t_allp (set_parents g t) = t_allp t /\ t_children (set_parents g t) = t_children t.
Proof. destruct t; cbn; auto. Qed.

(* Builder::add_parent: a successful call adds exactly the link (child -> parent) and its inverse *)
Theorem binv_add_parent o parent child o' : binv (o_arena o) -> b_add_parent parent child o = Ok o' ->
  binv (o_arena o') /\
  (forall c p, parent_rel (o_arena o') c p <-> parent_rel (o_arena o) c p \/ (c = child /\ p = parent)).
Proof.
  intros B H. unfold b_add_parent in H. set (a := o_arena o) in *.
  destruct (ar_get child a) as [tc|] eqn:Ec; [|discriminate].
  destruct (ar_get parent a) as [tp|] eqn:Ep; [|discriminate].
  set (fc := fun t => set_children (g_add (t_children t) child) t) in *.
  set (fp := fun t => set_parents (g_add (t_parents t) parent) t) in *.
  destruct (ar_get child (ar_update parent fc a)) as [tc1|] eqn:Ec1; [|discriminate].
  injection H as <-. cbn [o_arena set_arena].
  destruct B as [[Wn Wr Wc] Be Bi].
  assert (forall t, t_id (fc t) = t_id t) as Hfc by (intros t; apply set_children_fields).
  assert (forall t, t_id (fp t) = t_id t) as Hfp by (intros t; apply set_parents_fields).
  set (a1 := ar_update parent fc a) in *.
  assert (ar_keys a1 = ar_keys a) as K1 by (apply update_keys, Hfc).
  assert (NoDup (ar_keys a1)) as Wn1 by (rewrite K1; exact Wn).
  set (a2 := ar_update child fp a1).
  assert (ar_keys a2 = ar_keys a) as K2 by (unfold a2; rewrite update_keys by exact Hfp; exact K1).
  destruct (get_Some_key a child tc Ec) as [Hinc [Hidc Hkc]].
  destruct (get_Some_key a parent tp Ep) as [Hinp [Hidp Hkp]].
  (* the terms of a2 in terms of those of a *)
  assert (forall t2, In t2 (ar_terms a2) <->
            exists t, In t (ar_terms a) /\
              t2 = (let t1 := if t_id t =? parent then fc t else t in if t_id t1 =? child then fp t1 else t1)) as T2.
  { intros t2. unfold a2. rewrite (update_terms fp child a1 t2 Wn1 Hfp). split.
    - intros [t1 [H1 E]]. unfold a1 in H1. apply (update_terms fc parent a t1 Wn Hfc) in H1 as [t [Ht E1]].
      exists t. split; [exact Ht|]. cbn zeta. rewrite <- E1. exact E.
    - intros [t [Ht E]]. exists (if t_id t =? parent then fc t else t). split; [|exact E].
      unfold a1. apply (update_terms fc parent a _ Wn Hfc). exists t. auto. }
  assert (forall t, t_id (if t_id t =? parent then fc t else t) = t_id t) as Hid1
    by (intros t; destruct (t_id t =? parent); [apply Hfc|reflexivity]).
  assert (forall c p, parent_rel a2 c p <-> parent_rel a c p \/ (c = child /\ p = parent)) as PR.
  { intros c p. unfold parent_rel. split.
    - intros [t2 [H2 [Hid Hp]]]. apply T2 in H2 as [t [Ht E]]. cbn zeta in E. subst t2.
      rewrite Hid1 in Hid, Hp.
      destruct (N.eqb_spec (t_id t) child) as [E1|E1].
      + destruct (set_parents_fields (g_add (t_parents (if t_id t =? parent then fc t else t)) parent)
                    (if t_id t =? parent then fc t else t)) as [Ei [Epp _]].
        unfold fp in Hid, Hp. rewrite Ei, Hid1 in Hid. rewrite Epp in Hp. apply g_add_In in Hp as [->|Hp].
        * right. split; congruence.
        * left. exists t. repeat split; auto.
          destruct (t_id t =? parent); [|exact Hp]. unfold fc in Hp.
          destruct (set_children_fields (g_add (t_children t) child) t) as [_ [Epp2 _]]. rewrite Epp2 in Hp. exact Hp.
      + rewrite Hid1 in Hid. left. exists t. repeat split; auto.
        destruct (t_id t =? parent); [|exact Hp]. unfold fc in Hp.
        destruct (set_children_fields (g_add (t_children t) child) t) as [_ [Epp2 _]]. rewrite Epp2 in Hp. exact Hp.
    - intros [[t [Ht [Hid Hp]]]|[-> ->]].
      + eexists. split; [apply T2; exists t; split; [exact Ht|reflexivity]|]. cbn zeta. rewrite Hid1.
        assert (In p (t_parents (if t_id t =? parent then fc t else t))) as Hp1.
        { destruct (t_id t =? parent); [|exact Hp]. unfold fc.
          destruct (set_children_fields (g_add (t_children t) child) t) as [_ [Epp2 _]]. rewrite Epp2. exact Hp. }
        destruct (t_id t =? child).
        * unfold fp. destruct (set_parents_fields (g_add (t_parents (if t_id t =? parent then fc t else t)) parent)
                    (if t_id t =? parent then fc t else t)) as [Ei [Epp _]].
          rewrite Ei, Epp, Hid1. split; [exact Hid|]. apply g_add_In. right. exact Hp1.
        * rewrite Hid1. split; [exact Hid|exact Hp1].
      + eexists. split; [apply T2; exists tc; split; [exact Hinc|reflexivity]|]. cbn zeta. rewrite Hid1, Hidc, N.eqb_refl.
        unfold fp. destruct (set_parents_fields (g_add (t_parents (if child =? parent then fc tc else tc)) parent)
                    (if child =? parent then fc tc else tc)) as [Ei [Epp _]].
        rewrite Ei, Epp. split; [rewrite <- Hidc at 2; rewrite <- (Hid1 tc), Hidc; reflexivity|].
        apply g_add_In. left. reflexivity. }
  assert (forall p c, child_rel a2 p c <-> child_rel a p c \/ (p = parent /\ c = child)) as CR.
  { intros p c. unfold child_rel. split.
    - intros [t2 [H2 [Hid Hc]]]. apply T2 in H2 as [t [Ht E]]. cbn zeta in E. subst t2.
      assert (t_id t = p) as Hidt.
      { destruct (t_id (if t_id t =? parent then fc t else t) =? child); [rewrite Hfp, Hid1 in Hid|rewrite Hid1 in Hid]; exact Hid. }
      assert (In c (t_children (if t_id t =? parent then fc t else t))) as Hc1.
      { destruct (t_id (if t_id t =? parent then fc t else t) =? child); [|exact Hc]. unfold fp in Hc.
        destruct (set_parents_fields (g_add (t_parents (if t_id t =? parent then fc t else t)) parent)
                    (if t_id t =? parent then fc t else t)) as [_ [_ [_ Ecc]]]. rewrite Ecc in Hc. exact Hc. }
      destruct (N.eqb_spec (t_id t) parent) as [E1|E1].
      + unfold fc in Hc1. destruct (set_children_fields (g_add (t_children t) child) t) as [_ [_ [_ Ecc]]].
        rewrite Ecc in Hc1. apply g_add_In in Hc1 as [->|Hc1]; [right; split; congruence|].
        left. exists t. auto.
      + left. exists t. auto.
    - intros [[t [Ht [Hid Hc]]]|[-> ->]].
      + eexists. split; [apply T2; exists t; split; [exact Ht|reflexivity]|]. cbn zeta.
        assert (In c (t_children (if t_id t =? parent then fc t else t))) as Hc1.
        { destruct (t_id t =? parent); [|exact Hc]. unfold fc.
          destruct (set_children_fields (g_add (t_children t) child) t) as [_ [_ [_ Ecc]]]. rewrite Ecc.
          apply g_add_In. right. exact Hc. }
        destruct (t_id (if t_id t =? parent then fc t else t) =? child).
        * unfold fp. destruct (set_parents_fields (g_add (t_parents (if t_id t =? parent then fc t else t)) parent)
                    (if t_id t =? parent then fc t else t)) as [Ei [_ [_ Ecc]]].
          rewrite Ei, Ecc, Hid1. auto.
        * rewrite Hid1. auto.
      + eexists. split; [apply T2; exists tp; split; [exact Hinp|reflexivity]|]. cbn zeta. rewrite Hidp, N.eqb_refl.
        assert (In child (t_children (fc tp))) as Hc1.
        { unfold fc. destruct (set_children_fields (g_add (t_children tp) child) tp) as [_ [_ [_ Ecc]]]. rewrite Ecc.
          apply g_add_In. left. reflexivity. }
        destruct (t_id (fc tp) =? child).
        * unfold fp at 1 2. destruct (set_parents_fields (g_add (t_parents (fc tp)) parent) (fc tp)) as [Ei [_ [_ Ecc]]].
          rewrite Ei, Ecc, Hfc. auto.
        * rewrite Hfc. auto. }
  split; [|exact PR]. constructor.
  - constructor.
    + rewrite K2. exact Wn.
    + intros t2 H2. apply T2 in H2 as [t [Ht E]]. cbn zeta in E. subst t2.
      destruct (t_id (if t_id t =? parent then fc t else t) =? child); [rewrite Hfp|]; rewrite Hid1; apply Wr, Ht.
    + intros t2 H2 p Hp. rewrite K2.
      assert (parent_rel a2 (t_id t2) p) as R by (exists t2; auto).
      apply PR in R as [[t [Ht [_ Hpt]]]|[_ ->]]; [apply (Wc t Ht p Hpt)|exact Hkp].
  - intros t2 H2. apply T2 in H2 as [t [Ht E]]. cbn zeta in E. subst t2.
    assert (t_allp (if t_id t =? parent then fc t else t) = []) as E1.
    { destruct (t_id t =? parent); [|apply Be, Ht]. unfold fc.
      destruct (set_children_fields (g_add (t_children t) child) t) as [_ [_ [Eaa _]]]. rewrite Eaa. apply Be, Ht. }
    destruct (t_id (if t_id t =? parent then fc t else t) =? child); [|exact E1]. unfold fp.
    destruct (set_parents_fields (g_add (t_parents (if t_id t =? parent then fc t else t)) parent)
                (if t_id t =? parent then fc t else t)) as [_ [_ [Eaa _]]]. rewrite Eaa. exact E1.
  - intros c p. rewrite PR, CR, (Bi c p). split; intros [H|[-> ->]]; auto.
Qed.

Corollary add_parent_keeps_binv o parent child o' : binv (o_arena o) -> b_add_parent parent child o = Ok o' -> binv (o_arena o').
Proof. intros B H. exact (proj1 (binv_add_parent o parent child o' B H)). Qed.

(* ------------------------------------------------------------------------------------------ *)
(* the ancestor sets are a function of the parent RELATION (not of ids' insertion order)        *)
(* ------------------------------------------------------------------------------------------ *)

Lemma clos_trans_ext (R S : N -> N -> Prop) : (forall c p, R c p <-> S c p) ->
  forall c x, clos_trans N R c x -> clos_trans N S c x.
Proof.
  intros H c x Hc. induction Hc as [c y Hcy|c y z _ IH1 _ IH2]; [apply t_step, H, Hcy|eapply t_trans; eauto].
Qed.

Theorem closure_depends_on_links_only fuel1 fuel2 a b a' b' :
  wf_ar a -> wf_ar b ->
  (forall t, In t (ar_terms a) -> t_allp t = []) -> (forall t, In t (ar_terms b) -> t_allp t = []) ->
  (forall c p, parent_rel a c p <-> parent_rel b c p) ->
  connect_all fuel1 a = Ok a' -> connect_all fuel2 b = Ok b' ->
  forall ta tb, In ta (ar_terms a') -> In tb (ar_terms b') -> t_id ta = t_id tb ->
  forall x, In x (t_allp ta) <-> In x (t_allp tb).
Proof.
  intros Wa Wb Ea Eb Hrel Ha Hb ta tb Hta Htb Hid x.
  destruct (connect_all_exact fuel1 a a' Wa Ea Ha) as [_ Xa].
  destruct (connect_all_exact fuel2 b b' Wb Eb Hb) as [_ Xb].
  rewrite (Xa ta Hta x), (Xb tb Htb x), Hid.
  split; apply clos_trans_ext; intros c p; [apply Hrel|symmetry; apply Hrel].
Qed.
