(* C15P.v — referential closure of an observation; equality of observations *)
From Coq Require Import Sorted Lia.
From HpoV Require Import Model.Base Model.Group Model.Onto Spec.Sets Proofs.GroupP Proofs.SetsP Proofs.BaseP
  Proofs.C01P Model.Query Model.Dump Model.Script Run.World Run.C01 Run.C02 Run.Ser Run.C15 Run.C16.

Lemma has_term_spec d id : has_term d id = true <-> exists t, d_find id d = Some t.
Proof.
  unfold has_term. destruct (d_find id d) as [t|]; split; try discriminate; eauto.
  intros [t H]; discriminate.
Qed.

(* every id handed out by the read API of an observation that passes [ref_closed] resolves *)
Theorem ref_closed_sound d : ref_closed d = true ->
  (forall t, In t (do_terms d) ->
     (forall x, In x (d_parents t) \/ In x (d_children t) \/ In x (d_allp t) -> exists tx, d_find x d = Some tx)
     /\ (forall g, In g (d_genes t) -> In g (map da_id (do_genes d)))
     /\ (forall g, In g (d_omim t) -> In g (map da_id (do_omim d)))
     /\ (forall g, In g (d_orpha t) -> In g (map da_id (do_orpha d))))
  /\ (forall r, In r (do_genes d) \/ In r (do_omim d) \/ In r (do_orpha d) ->
        forall x, In x (da_hpos r) -> exists tx, d_find x d = Some tx).
Proof.
  unfold ref_closed. rewrite !andb_true_iff. intros [[[Ht Hr] _] _]. split.
  - intros t Hin. rewrite forallb_forall in Ht. specialize (Ht t Hin).
    rewrite !andb_true_iff in Ht. destruct Ht as [[[[[H1 H2] H3] H4] H5] H6].
    rewrite forallb_forall in H1, H2, H3, H4, H5, H6. repeat split.
    + intros x [Hx|[Hx|Hx]]; apply has_term_spec; auto.
    + intros g Hg. apply mem_In. apply H4, Hg.
    + intros g Hg. apply mem_In. apply H5, Hg.
    + intros g Hg. apply mem_In. apply H6, Hg.
  - intros r Hin x Hx. rewrite forallb_forall in Hr. apply has_term_spec.
    assert (In r (do_genes d ++ do_omim d ++ do_orpha d)) as Hin'
      by (rewrite !in_app_iff; tauto).
    specialize (Hr r Hin'). rewrite forallb_forall in Hr. apply Hr, Hx.
Qed.

(* two observations accepted as equal have the same serialisation *)
Theorem res_donto_eqb_sound a b : res_donto_eqb a b = true -> ser_res a = ser_res b.
Proof. apply matrix_eqb_eq. Qed.

Theorem spec_C16_sound i o : spec_C16 i o = true ->
  forall a b, In a o -> In b o -> ser_res a = ser_res b.
Proof.
  destruct o as [|first rest]; [intros _ a b []|]. cbn [spec_C16]. intros H.
  assert (forall x, In x (first :: rest) -> ser_res first = ser_res x) as Hall.
  { intros x [<-|Hx]; [reflexivity|]. rewrite forallb_forall in H. apply res_donto_eqb_sound, H, Hx. }
  intros a b Ha Hb. rewrite <- (Hall a Ha), <- (Hall b Hb). reflexivity.
Qed.
