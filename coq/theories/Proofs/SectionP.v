(* SectionP.v — section-level round trips of the binary format: what Ontology::as_bytes writes
   into the term / parent / gene / disease sections is read back by the loaders of
   builder.rs as the corresponding sequence of Builder operations on the raw facts, for any
   number of records. *)
From Coq Require Import ZArith Lia ZifyN ZifyNat ZifyBool.
From HpoV Require Import Gen.Consts Model.Base Model.Group Model.Onto Model.Binary
  Proofs.GroupP Proofs.SetsP Proofs.BinaryP Proofs.DecodeP Proofs.CodecP.

Ltac Zify.zify_post_hook ::= Z.div_mod_to_equations.

(* the raw term a record carries *)
Definition raw_term (t : term) : term :=
  set_flags (t_obsolete t) (t_repl t) (new_term (cut_name TERM_NAME_LIMIT (t_name t)) (t_id t)).

Definition term_rec_ok (t : term) : Prop :=
  t_id t < 4294967296 /\ repl_ok (t_repl t) /\ utf8_valid (cut_name TERM_NAME_LIMIT (t_name t)) = true.

Lemma Nlen_be32 n : Nlen (to_be32 n) = 4.
Proof. reflexivity. Qed.
Lemma Nlen_one (x : N) : Nlen [x] = 1.
Proof. reflexivity. Qed.

Lemma Nlen_cons {A} (x : A) l : Nlen (x :: l) = 1 + Nlen l.
Proof. unfold Nlen. cbn [length]. lia. Qed.

Lemma enc_term_len t : 14 <= Nlen (enc_term t) /\ Nlen (enc_term t) = cut_len TERM_NAME_LIMIT (t_name t) + 14.
Proof.
  assert (Nlen (firstn (nat_of (cut_len TERM_NAME_LIMIT (t_name t))) (t_name t)) = cut_len TERM_NAME_LIMIT (t_name t)) as H
    by apply Nlen_firstn_cut.
  unfold enc_term. rewrite !Nlen_app, H, !Nlen_be32, !Nlen_one. lia.
Qed.

Lemma skipn_app_exact {A} (l r : list A) n : n = length l -> skipn n (l ++ r) = r.
Proof. intros ->. rewrite skipn_app, skipn_all, Nat.sub_diag. reflexivity. Qed.

Lemma read_terms_step f v b a : b <> [] ->
  read_terms (S f) v b a =
    if Nlen b <=? 4 then Panic
    else do tl <- u32_at b 0 ;;
         if Nlen b <? tl then Panic
         else match (match v with V1 => term_v1 b | _ => term_v2 b end) with
              | Ok t => do a' <- ar_insert t a ;; read_terms f v (skipn (nat_of tl) b) a'
              | Err _ => Panic
              | Panic => Panic
              | Fuel => Fuel
              end.
Proof. intros H. destruct b; [congruence|reflexivity]. Qed.

(* TERM SECTION (layouts v2 and v3) *)
Theorem read_terms_section v ts : v <> V1 -> Forall term_rec_ok ts ->
  forall fuel a, (length ts < fuel)%nat ->
  read_terms fuel v (concat (map enc_term ts)) a = foldM (fun a t => ar_insert (raw_term t) a) ts a.
Proof.
  intros Hv Hall. induction Hall as [|t ts [Hid [Hrepl Hutf]] _ IH]; intros fuel a Hf.
  - destruct fuel; [lia|]. reflexivity.
  - destruct fuel as [|f]; [cbn in Hf; lia|]. cbn [map concat foldM].
    destruct (term_record_roundtrip t (concat (map enc_term ts)) Hid Hrepl Hutf) as [Hlen Hterm].
    destruct (enc_term_len t) as [H14 _].
    rewrite read_terms_step.
    2:{ intros Eb. assert (Nlen (enc_term t ++ concat (map enc_term ts)) = 0) as H0 by (rewrite Eb; reflexivity).
        rewrite Nlen_app in H0. lia. }
    assert (Nlen (enc_term t ++ concat (map enc_term ts)) <=? 4 = false) as -> by (apply N.leb_gt; rewrite Nlen_app; lia).
    rewrite Hlen. cbn [bind].
    assert (Nlen (enc_term t ++ concat (map enc_term ts)) <? Nlen (enc_term t) = false) as -> by (apply N.ltb_ge; rewrite Nlen_app; lia).
    assert ((match v with V1 => term_v1 (enc_term t ++ concat (map enc_term ts)) | _ => term_v2 (enc_term t ++ concat (map enc_term ts)) end)
            = Ok (raw_term t)) as -> by (destruct v; [congruence|exact Hterm|exact Hterm]).
    rewrite skipn_app_exact by (unfold nat_of, Nlen; rewrite Nat2N.id; reflexivity).
    destruct (ar_insert (raw_term t) a) as [a'| | |]; cbn [bind]; try reflexivity.
    apply IH. cbn in Hf. lia.
Qed.

(* ---------------- PARENT SECTION ---------------- *)

Lemma read_parent_ids_group g : forall (pre rest : bytes) term a, Forall (fun x => x < 4294967296) g ->
  read_parent_ids (length g) (pre ++ group_bytes g ++ rest) (Nlen pre) term a
  = do a' <- foldM (fun a p => b_add_parent_unchecked p term a) g a ;; Ok (a', Nlen pre + 4 * Nlen g).
Proof.
  induction g as [|x g IH]; intros pre rest term a Hall.
  - cbn [length read_parent_ids foldM bind]. change (Nlen (@nil N)) with 0. rewrite N.mul_0_r, N.add_0_r. reflexivity.
  - inversion Hall as [|? ? Hx Hg]; subst. cbn [length read_parent_ids foldM].
    change (group_bytes (x :: g)) with (to_be32 x ++ group_bytes g). rewrite <- app_assoc.
    rewrite (u32_at_here pre x _ Hx). cbn [bind].
    destruct (b_add_parent_unchecked x term a) as [a1| | |]; cbn [bind]; try reflexivity.
    replace (Nlen pre + 4) with (Nlen (pre ++ to_be32 x)) by (rewrite Nlen_app, Nlen_be32; reflexivity).
    rewrite (app_assoc pre (to_be32 x)). rewrite IH by exact Hg.
    destruct (foldM _ g a1); cbn [bind]; try reflexivity.
    f_equal. f_equal. rewrite Nlen_app, Nlen_be32, (Nlen_cons x g). lia.
Qed.

Definition parent_rec_ok (t : term) : Prop :=
  t_id t < 4294967296 /\ Forall (fun x => x < 4294967296) (t_parents t) /\ Nlen (t_parents t) < 4294967296.

Lemma enc_parents_len t : Nlen (enc_parents t) = 8 + 4 * Nlen (t_parents t).
Proof. unfold enc_parents. rewrite !Nlen_app, !Nlen_be32, group_bytes_len. lia. Qed.

Theorem read_parents_section ts : Forall parent_rec_ok ts ->
  forall fuel (pre : bytes) a, (length ts < fuel)%nat ->
  read_parents fuel (pre ++ concat (map enc_parents ts)) (Nlen pre) a
  = foldM (fun a t => foldM (fun a p => b_add_parent_unchecked p (t_id t) a) (t_parents t) a) ts a.
Proof.
  intros Hall. induction Hall as [|t ts [Hid [Hps Hn]] _ IH]; intros fuel pre a Hf.
  - destruct fuel; [lia|]. cbn [map concat read_parents foldM]. rewrite app_nil_r, N.eqb_refl. reflexivity.
  - destruct fuel as [|f]; [cbn in Hf; lia|]. cbn [map concat foldM read_parents].
    pose proof (enc_parents_len t) as Hlen.
    assert (Nlen pre =? Nlen (pre ++ enc_parents t ++ concat (map enc_parents ts)) = false) as ->
      by (apply N.eqb_neq; rewrite !Nlen_app; lia).
    set (rest := concat (map enc_parents ts)).
    assert (enc_parents t ++ rest = to_be32 (Nlen (t_parents t)) ++ to_be32 (t_id t) ++ group_bytes (t_parents t) ++ rest) as E
      by (unfold enc_parents; rewrite <- !app_assoc; reflexivity).
    rewrite E.
    rewrite (u32_from_here pre (Nlen (t_parents t)) _ Hn). cbn [bind].
    replace (Nlen pre + 4) with (Nlen (pre ++ to_be32 (Nlen (t_parents t)))) by (rewrite Nlen_app, Nlen_be32; reflexivity).
    rewrite (app_assoc pre (to_be32 (Nlen (t_parents t)))).
    rewrite (u32_at_here _ (t_id t) _ Hid). cbn [bind].
    replace (Nlen pre + 8) with (Nlen ((pre ++ to_be32 (Nlen (t_parents t))) ++ to_be32 (t_id t)))
      by (rewrite !Nlen_app, !Nlen_be32; lia).
    rewrite (app_assoc _ (to_be32 (t_id t))).
    replace (nat_of (Nlen (t_parents t))) with (length (t_parents t)) by (unfold nat_of, Nlen; rewrite Nat2N.id; reflexivity).
    rewrite read_parent_ids_group by exact Hps.
    destruct (foldM _ (t_parents t) a) as [a1| | |]; cbn [bind]; try reflexivity.
    replace (Nlen ((pre ++ to_be32 (Nlen (t_parents t))) ++ to_be32 (t_id t)) + 4 * Nlen (t_parents t))
      with (Nlen (pre ++ enc_parents t)) by (rewrite !Nlen_app, Hlen, !Nlen_be32; lia).
    replace (((pre ++ to_be32 (Nlen (t_parents t))) ++ to_be32 (t_id t)) ++ group_bytes (t_parents t) ++ rest)
      with ((pre ++ enc_parents t) ++ rest) by (unfold enc_parents; rewrite <- !app_assoc; reflexivity).
    subst rest.
    apply IH. cbn in Hf. lia.
Qed.

(* ---------------- GENE / DISEASE SECTIONS ---------------- *)

Definition enc_record (k : kind) (r : annot) : bytes := match k with KGene => enc_gene r | _ => enc_disease r end.
Definition raw_record (k : kind) (r : annot) : annot :=
  match k with
  | KGene => mkAnnot (a_id r) (cut_name GENE_NAME_LIMIT (a_name r)) (a_hpos r)
  | _ => mkAnnot (a_id r) (a_name r) (a_hpos r)
  end.
Definition record_ok (k : kind) (r : annot) : Prop :=
  a_id r < 4294967296 /\ Forall (fun x => x < 4294967296) (a_hpos r) /\ Nlen (a_hpos r) < 500000000 /\
  GroupP.sorted (a_hpos r) /\
  match k with
  | KGene => utf8_valid (cut_name GENE_NAME_LIMIT (a_name r)) = true
  | _ => Nlen (a_name r) < 1000000000 /\ utf8_valid (a_name r) = true
  end.

(* builder.rs add_genes_from_bytes / add_*_disease_from_bytes, one record: link the record to every
   term of its direct set (with upward propagation), then store it *)
Definition load_record (k : kind) (o : onto) (r : annot) : res onto :=
  do a <- foldM (fun a t => link (link_fuel a) k a t (a_id r)) (a_hpos r) (o_arena o) ;;
  Ok (set_records k (an_put r (o_records k o)) (set_arena a o)).

Lemma enc_record_len k r : record_ok k r ->
  13 <= Nlen (enc_record k r) < 4294967296 /\
  exists tail, enc_record k r = to_be32 (Nlen (enc_record k r)) ++ tail.
Proof.
  intros (Hid & Hall & Hcnt & Hs & Hk). destruct k.
  - cbn [enc_record].
    assert (Nlen (firstn (nat_of (cut_len GENE_NAME_LIMIT (a_name r))) (a_name r)) = cut_len GENE_NAME_LIMIT (a_name r)) as Hn
      by apply Nlen_firstn_cut.
    destruct (cut_len_le GENE_NAME_LIMIT (a_name r)) as [Hle _].
    pose proof name_limits_fit_one_byte as [_ Hg].
    assert (Nlen (enc_gene r) = 4 + 4 + 1 + cut_len GENE_NAME_LIMIT (a_name r) + 4 + Nlen (a_hpos r) * 4) as Hlen.
    { unfold enc_gene. rewrite !Nlen_app, Hn, !Nlen_be32, Nlen_one, group_bytes_len. lia. }
    split; [rewrite Hlen; lia|]. eexists. unfold enc_gene at 1. rewrite Hlen. reflexivity.
  - cbn [enc_record]. destruct Hk as [Hnm _].
    assert (Nlen (enc_disease r) = 4 + 4 + 4 + Nlen (a_name r) + 4 + Nlen (a_hpos r) * 4) as Hlen.
    { unfold enc_disease. rewrite !Nlen_app, !Nlen_be32, group_bytes_len. lia. }
    split; [rewrite Hlen; lia|]. eexists. unfold enc_disease at 1. rewrite Hlen. reflexivity.
  - cbn [enc_record]. destruct Hk as [Hnm _].
    assert (Nlen (enc_disease r) = 4 + 4 + 4 + Nlen (a_name r) + 4 + Nlen (a_hpos r) * 4) as Hlen.
    { unfold enc_disease. rewrite !Nlen_app, !Nlen_be32, group_bytes_len. lia. }
    split; [rewrite Hlen; lia|]. eexists. unfold enc_disease at 1. rewrite Hlen. reflexivity.
Qed.

Lemma record_roundtrip k r : record_ok k r ->
  (match k with KGene => gene_of_bytes (enc_record k r) | _ => disease_of_bytes (enc_record k r) end) = Ok (raw_record k r).
Proof.
  intros (Hid & Hall & Hcnt & Hs & Hk). destruct k; cbn [enc_record raw_record].
  - apply gene_record_roundtrip; try assumption. lia.
  - destruct Hk. apply disease_record_roundtrip; assumption.
  - destruct Hk. apply disease_record_roundtrip; assumption.
Qed.

Lemma read_records_step f k b i o :
  read_records (S f) k b i o =
    if Nlen b <=? i then Ok o
    else do rl <- u32_from b i ;;
         do rb <- slice b i (i + rl) ;;
         do r <- (match k with KGene => gene_of_bytes rb | _ => disease_of_bytes rb end) ;;
         do a <- foldM (fun a t => link (link_fuel a) k a t (a_id r)) (a_hpos r) (o_arena o) ;;
         read_records f k b (i + rl) (set_records k (an_put r (o_records k o)) (set_arena a o)).
Proof. reflexivity. Qed.

Theorem read_records_section k rs : Forall (record_ok k) rs ->
  forall fuel (pre : bytes) o, (length rs < fuel)%nat ->
  read_records fuel k (pre ++ concat (map (enc_record k) rs)) (Nlen pre) o
  = foldM (load_record k) (map (raw_record k) rs) o.
Proof.
  intros Hall. induction Hall as [|r rs Hr _ IH]; intros fuel pre o Hf.
  - destruct fuel; [lia|]. cbn [map concat foldM]. rewrite read_records_step, app_nil_r, N.leb_refl. reflexivity.
  - destruct fuel as [|f]; [cbn in Hf; lia|]. cbn [map concat foldM]. rewrite read_records_step.
    destruct (enc_record_len k r Hr) as [[H13 H32] [tail Et]].
    set (rest := concat (map (enc_record k) rs)).
    assert (Nlen (pre ++ enc_record k r ++ rest) <=? Nlen pre = false) as -> by (apply N.leb_gt; rewrite !Nlen_app; lia).
    assert (u32_from (pre ++ enc_record k r ++ rest) (Nlen pre) = Ok (Nlen (enc_record k r))) as ->.
    { rewrite Et at 1. rewrite <- app_assoc. apply u32_from_here. exact H32. }
    cbn [bind]. rewrite slice_here. cbn [bind]. rewrite (record_roundtrip k r Hr). cbn [bind].
    unfold load_record at 1.
    assert (a_id (raw_record k r) = a_id r /\ a_hpos (raw_record k r) = a_hpos r) as [-> ->] by (destruct k; split; reflexivity).
    destruct (foldM _ (a_hpos r) (o_arena o)) as [a1| | |]; cbn [bind]; try reflexivity.
    replace (Nlen pre + Nlen (enc_record k r)) with (Nlen (pre ++ enc_record k r)) by apply Nlen_app.
    rewrite app_assoc. apply IH. cbn in Hf. lia.
Qed.

(* ---------------- THE WHOLE FILE ---------------- *)

(* what a reload does, in terms of Builder operations on the raw facts the file carries *)
Definition rebuild (icf : N -> N -> res N) (order : list annot -> list annot) (o : onto) : res onto :=
  let o0 := set_version (o_version o) onto_new in
  let ts := ar_terms (o_arena o) in
  do a1 <- foldM (fun a t => ar_insert (raw_term t) a) ts (o_arena o0) ;;
  do a2 <- foldM (fun a t => foldM (fun a p => b_add_parent_unchecked p (t_id t) a) (t_parents t) a) ts a1 ;;
  do a3 <- connect_all (default_fuel a2) a2 ;;
  do o4 <- foldM (load_record KGene) (map (raw_record KGene) (order (o_genes o))) (set_arena a3 o0) ;;
  do o5 <- foldM (load_record KOmim) (map (raw_record KOmim) (order (o_omim o))) o4 ;;
  do o6 <- foldM (load_record KOrpha) (map (raw_record KOrpha) (order (o_orpha o))) o5 ;;
  do o7 <- b_calculate_ic icf o6 ;; b_build_with_defaults o7.

Record file_ok (order : list annot -> list annot) (o : onto) : Prop := {
  fo_version : let '(y, m, d) := o_version o in y < 65536;
  fo_terms : Forall term_rec_ok (ar_terms (o_arena o));
  fo_parents : Forall parent_rec_ok (ar_terms (o_arena o));
  fo_genes : Forall (record_ok KGene) (order (o_genes o));
  fo_omim : Forall (record_ok KOmim) (order (o_omim o));
  fo_orpha : Forall (record_ok KOrpha) (order (o_orpha o));
  fo_s1 : Nlen (concat (map enc_term (ar_terms (o_arena o)))) < 4294967296;
  fo_s2 : Nlen (concat (map enc_parents (ar_terms (o_arena o)))) < 4294967296;
  fo_s3 : Nlen (concat (map enc_gene (order (o_genes o)))) < 4294967296;
  fo_s4 : Nlen (concat (map enc_disease (order (o_omim o)))) < 4294967296;
  fo_s5 : Nlen (concat (map enc_disease (order (o_orpha o)))) < 4294967296
}.

Lemma section_at (pre body rest : bytes) start : start = Nlen pre -> Nlen body < 4294967296 ->
  u32_from (pre ++ section body ++ rest) start = Ok (Nlen body) /\
  forall stop, stop = start + 4 + Nlen body -> slice (pre ++ section body ++ rest) (start + 4) stop = Ok body.
Proof.
  intros -> Hb. unfold section. rewrite <- app_assoc. split; [apply u32_from_here, Hb|].
  intros stop ->. replace (Nlen pre + 4) with (Nlen (pre ++ to_be32 (Nlen body))) by (rewrite Nlen_app, Nlen_be32; reflexivity).
  rewrite app_assoc. apply slice_here.
Qed.

Lemma concat_len_ge {A} (f : A -> bytes) l : (forall x, (1 <= length (f x))%nat) -> (length l <= length (concat (map f l)))%nat.
Proof.
  intros H. induction l as [|x l IH]; cbn [map concat length]; [lia|]. rewrite app_length. specialize (H x). lia.
Qed.

Lemma Nlen_section body : Nlen (section body) = 4 + Nlen body.
Proof. unfold section. rewrite Nlen_app, Nlen_be32. reflexivity. Qed.

Lemma Nlen_length_le (a b : bytes) : Nlen a <= Nlen b -> (length a <= length b)%nat.
Proof. unfold Nlen. lia. Qed.

Theorem decode_encode_is_rebuild icf order o : file_ok order o ->
  decode icf (encode_with order o) = rebuild icf order o.
Proof.
  intros [Hver Hts Hps Hgs Hms Hrs H1 H2 H3 H4 H5].
  destruct (o_version o) as [[y m] d] eqn:Ev.
  set (S1 := concat (map enc_term (ar_terms (o_arena o)))) in *.
  set (S2 := concat (map enc_parents (ar_terms (o_arena o)))) in *.
  set (S3 := concat (map enc_gene (order (o_genes o)))) in *.
  set (S4 := concat (map enc_disease (order (o_omim o)))) in *.
  set (S5 := concat (map enc_disease (order (o_orpha o)))) in *.
  set (v4 := [(y / 256) mod 256; y mod 256; m; d]).
  set (b := v4 ++ section S1 ++ section S2 ++ section S3 ++ section S4 ++ section S5).
  assert (encode_with order o = MAGIC_WRITER ++ [EMIT_VERSION] ++ b) as Ee.
  { unfold encode_with, enc_meta. rewrite Ev. unfold b, v4. rewrite <- !app_assoc. reflexivity. }
  assert (Nlen b = 4 + (4 + Nlen S1) + (4 + Nlen S2) + (4 + Nlen S3) + (4 + Nlen S4) + (4 + Nlen S5)) as Hb.
  { unfold b. rewrite !Nlen_app, !Nlen_section. change (Nlen v4) with 4. lia. }
  unfold decode, decode_with. rewrite Ee.
  assert (bin_version (MAGIC_WRITER ++ [EMIT_VERSION] ++ b) = Ok (b, V3)) as ->.
  { unfold bin_version. assert (Nlen (MAGIC_WRITER ++ [EMIT_VERSION] ++ b) <? MIN_LEN = false) as ->.
    { apply N.ltb_ge. rewrite !Nlen_app. change (Nlen MAGIC_WRITER) with 3. change (Nlen [EMIT_VERSION]) with 1. unfold MIN_LEN. lia. }
    reflexivity. }
  cbn [bind]. assert (Nlen b <? 4 = false) as -> by (apply N.ltb_ge; lia).
  change (idx b 0) with (Ok ((y / 256) mod 256)). change (idx b 1) with (Ok (y mod 256)).
  change (idx b 2) with (Ok m). change (idx b 3) with (Ok d). cbn [bind].
  replace ((y / 256) mod 256 * 256 + y mod 256) with y by lia.
  unfold rebuild. rewrite Ev.
  set (o0 := set_version (y, m, d) onto_new).
  set (fuel := S (length b)).
  (* terms *)
  destruct (section_at v4 S1 (section S2 ++ section S3 ++ section S4 ++ section S5) 4 eq_refl H1) as [Hu Hs].
  fold b in Hu, Hs. rewrite Hu. cbn [bind]. rewrite (Hs _ eq_refl). cbn [bind].
  assert (forall ts, (length ts <= length (concat (map enc_term ts)))%nat) as Lt.
  { intros ts. apply concat_len_ge. intros t. destruct (enc_term_len t) as [H14 _]. unfold Nlen in H14. lia. }
  rewrite (read_terms_section V3 _ ltac:(discriminate) Hts).
  2:{ unfold fuel. specialize (Lt (ar_terms (o_arena o))). fold S1 in Lt.
      assert (length S1 <= length b)%nat by (apply Nlen_length_le; lia). lia. }
  destruct (foldM _ (ar_terms (o_arena o)) (o_arena o0)) as [a1| | |]; cbn [bind]; try reflexivity.
  (* parents *)
  destruct (section_at (v4 ++ section S1) S2 (section S3 ++ section S4 ++ section S5) (4 + Nlen S1 + 4)) as [Hu2 Hs2];
    [rewrite Nlen_app, Nlen_section; change (Nlen v4) with 4; lia|exact H2|].
  rewrite <- app_assoc in Hu2, Hs2. fold b in Hu2, Hs2. rewrite Hu2. cbn [bind].
  rewrite (Hs2 (4 + 4 + Nlen S1 + 4 + Nlen S2)) by lia. cbn [bind].
  change S2 with ([] ++ S2) at 1. change 0 with (Nlen (@nil N)).
  rewrite (read_parents_section _ Hps).
  2:{ unfold fuel. assert (length (ar_terms (o_arena o)) <= length S2)%nat.
      { apply concat_len_ge. intros t. pose proof (enc_parents_len t) as Hl. unfold Nlen in Hl. lia. }
      assert (length S2 <= length b)%nat by (apply Nlen_length_le; lia). lia. }
  destruct (foldM _ (ar_terms (o_arena o)) a1) as [a2| | |]; cbn [bind]; try reflexivity.
  destruct (connect_all (default_fuel a2) a2) as [a3| | |]; cbn [bind]; try reflexivity.
  (* genes *)
  destruct (section_at ((v4 ++ section S1) ++ section S2) S3 (section S4 ++ section S5) (4 + Nlen S1 + 4 + Nlen S2 + 4)) as [Hu3 Hs3];
    [rewrite !Nlen_app, !Nlen_section; change (Nlen v4) with 4; lia|exact H3|].
  rewrite <- !app_assoc in Hu3, Hs3. fold b in Hu3, Hs3. rewrite Hu3. cbn [bind].
  rewrite (Hs3 (4 + 4 + Nlen S1 + 4 + Nlen S2 + 4 + Nlen S3)) by lia. cbn [bind].
  assert (forall k rs, (length rs <= length (concat (map (enc_record k) rs)))%nat) as Lr.
  { intros k rs. induction rs as [|r rs IH]; cbn [map concat length]; [lia|]. rewrite app_length.
    assert (1 <= length (enc_record k r))%nat; [|lia].
    destruct k; cbn [enc_record]; unfold enc_gene, enc_disease; rewrite app_length; cbn [to_be32 length]; lia. }
  change S3 with ([] ++ concat (map (enc_record KGene) (order (o_genes o)))) at 1. change 0 with (Nlen (@nil N)).
  rewrite (read_records_section KGene _ Hgs).
  2:{ unfold fuel. specialize (Lr KGene (order (o_genes o))). change (concat (map (enc_record KGene) (order (o_genes o)))) with S3 in Lr.
      assert (length S3 <= length b)%nat by (apply Nlen_length_le; lia). lia. }
  destruct (foldM (load_record KGene) _ _) as [o4| | |]; cbn [bind]; try reflexivity.
  (* omim *)
  destruct (section_at (((v4 ++ section S1) ++ section S2) ++ section S3) S4 (section S5) (4 + Nlen S1 + 4 + Nlen S2 + 4 + Nlen S3 + 4)) as [Hu4 Hs4];
    [rewrite !Nlen_app, !Nlen_section; change (Nlen v4) with 4; lia|exact H4|].
  rewrite <- !app_assoc in Hu4, Hs4. fold b in Hu4, Hs4. rewrite Hu4. cbn [bind].
  rewrite (Hs4 (4 + 4 + Nlen S1 + 4 + Nlen S2 + 4 + Nlen S3 + 4 + Nlen S4)) by lia. cbn [bind].
  change S4 with ([] ++ concat (map (enc_record KOmim) (order (o_omim o)))) at 1. change 0 with (Nlen (@nil N)).
  rewrite (read_records_section KOmim _ Hms).
  2:{ unfold fuel. specialize (Lr KOmim (order (o_omim o))). change (concat (map (enc_record KOmim) (order (o_omim o)))) with S4 in Lr.
      assert (length S4 <= length b)%nat by (apply Nlen_length_le; lia). lia. }
  destruct (foldM (load_record KOmim) _ _) as [o5| | |]; cbn [bind]; try reflexivity.
  (* orpha *)
  destruct (section_at ((((v4 ++ section S1) ++ section S2) ++ section S3) ++ section S4) S5 [] (4 + Nlen S1 + 4 + Nlen S2 + 4 + Nlen S3 + 4 + Nlen S4 + 4)) as [Hu5 Hs5];
    [rewrite !Nlen_app, !Nlen_section; change (Nlen v4) with 4; lia|exact H5|].
  rewrite app_nil_r, <- !app_assoc in Hu5, Hs5. fold b in Hu5, Hs5. rewrite Hu5. cbn [bind].
  rewrite (Hs5 (4 + 4 + Nlen S1 + 4 + Nlen S2 + 4 + Nlen S3 + 4 + Nlen S4 + 4 + Nlen S5)) by lia. cbn [bind].
  change S5 with ([] ++ concat (map (enc_record KOrpha) (order (o_orpha o)))) at 1. change 0 with (Nlen (@nil N)).
  rewrite (read_records_section KOrpha _ Hrs).
  2:{ unfold fuel. specialize (Lr KOrpha (order (o_orpha o))). change (concat (map (enc_record KOrpha) (order (o_orpha o)))) with S5 in Lr.
      assert (length S5 <= length b)%nat by (apply Nlen_length_le; lia). lia. }
  destruct (foldM (load_record KOrpha) _ _) as [o6| | |]; cbn [bind]; try reflexivity.
  assert (4 + Nlen S1 + 4 + Nlen S2 + 4 + Nlen S3 + 4 + Nlen S4 + 4 + Nlen S5 + 4 =? Nlen b = true) as -> by (apply N.eqb_eq; lia).
  reflexivity.
Qed.

(* the premises are satisfiable: two linked terms, one gene, one disease *)
Example file_ok_example :
  let t1 := mkTerm 1 [65] [] [] [118] [7] [3] [] (0, 0, 0) false None in
  let t2 := mkTerm 118 [66; 195; 182] [1] [1] [] [7] [3] [] (0, 0, 0) true (Some 1) in
  let o := mkOnto (mkArena (new_term [] 0) [t1; t2]) [mkAnnot 7 [103] [118]] [mkAnnot 3 [100] [118]] [] (2024, 3, 1) [] [] in
  file_ok (fun l => l) o.
Proof.
  cbv zeta.
  split; cbn [o_version o_arena ar_terms o_genes o_omim o_orpha].
  - reflexivity.
  - repeat constructor; cbn; try lia; reflexivity.
  - repeat constructor; cbn; try lia.
  - repeat constructor; cbn; try lia; reflexivity.
  - repeat constructor; cbn; try lia; reflexivity.
  - constructor.
  - vm_compute. reflexivity.
  - vm_compute. reflexivity.
  - vm_compute. reflexivity.
  - vm_compute. reflexivity.
  - vm_compute. reflexivity.
Qed.
