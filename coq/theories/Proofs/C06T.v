(* C06T.v — TOTALITY of the enrichment (Model/Enrich.v, stats/hypergeom): when every annotation id of the
   terms resolves to a record, the sample is not larger than the background and, annotation by
   annotation, not linked more often than the background, the call returns one record per annotation
   of the sample — none of the expect() calls (annotation present in the background set,
   Hypergeometric::new, the u32 conversions) panics. *)
From Coq Require Import Lia.
From HpoV Require Import Gen.Consts Model.Base Model.Group Model.Onto Model.Query Model.F64 Model.Enrich Proofs.BaseP Proofs.C06P Proofs.C18P.

Lemma count_add_keys id c : NoDup (map fst c) -> NoDup (map fst (count_add id c)) /\ forall x, In x (map fst (count_add id c)) <-> In x (map fst c) \/ x = id.
Proof.
  induction c as [|[x v] t IH]; intros Nd; cbn [count_add map fst].
  - split; [constructor; [intros []|constructor]|]. intros y. cbn [map fst In]. split; [intros [ -> |[]]; right; reflexivity|intros [[]| ->]; left; reflexivity].
  - inversion Nd as [|? ? Hx Nd']; subst. destruct (N.eqb_spec x id) as [->|Hne]; cbn [map fst].
    + split; [exact Nd|]. intros y. cbn [In]. split; [auto|intros [H| ->]; [exact H|left; reflexivity]].
    + destruct (IH Nd') as [Nd2 K2]. split.
      * constructor; [|exact Nd2]. intros Hin. apply K2 in Hin as [Hin| ->]; [exact (Hx Hin)|congruence].
      * intros y. cbn [In]. rewrite K2. tauto.
Qed.

Lemma counts_keys_nodup o k terms : forall st r, NoDup (map fst (snd st)) ->
  foldM (fun (st : N * list (N * N)) t => do ids <- term_annot_ids o k t ;;
           Ok (fst st + 1, fold_left (fun c id => count_add id c) ids (snd st))) terms st = Ok r -> NoDup (map fst (snd r)).
Proof.
  induction terms as [|t ts IH]; intros st r Nd H; cbn [foldM] in H; [injection H as <-; exact Nd|].
  destruct (term_annot_ids o k t) as [ids| | |]; cbn [bind] in H; try discriminate.
  apply (IH _ r) in H; [exact H|]. cbn [snd]. clear -Nd. revert Nd. generalize (snd st). induction ids as [|i ids IHi]; intros c Nd; cbn [fold_left]; [exact Nd|].
  apply IHi. apply (count_add_keys i c Nd).
Qed.

Lemma counts_get_unique id v c : NoDup (map fst c) -> In (id, v) c -> counts_get id c = Some v.
Proof.
  intros Nd Hin. unfold counts_get. pose proof (find_by_unique fst c (id, v) Nd Hin) as E. cbn [fst] in E. rewrite E. reflexivity.
Qed.

Lemma occ_le_1 g l : NoDup l -> occ g l <= 1.
Proof.
  induction l as [|x t IH]; intros Nd; cbn [occ]; [lia|]. inversion Nd as [|? ? Hx Nd']; subst.
  destruct (N.eqb_spec x g) as [->|_]; [|specialize (IH Nd'); lia].
  assert (occ g t = 0) as ->; [|lia]. clear -Hx. induction t as [|y t IH]; cbn [occ]; [reflexivity|].
  destruct (N.eqb_spec y g) as [->|_]; [exfalso; apply Hx; left; reflexivity|]. rewrite IH; [reflexivity|]. intros H. apply Hx. right. exact H.
Qed.

Section T.
  Variable o : onto.
  Variable k : kind.
  (* every annotation id of a term resolves to a record *)
  Definition resolves (t : term) : Prop := forall g, In g (t_annots k t) -> exists r, an_find g (o_records k o) = Some r.

  Lemma calculate_counts_total terms : (forall t, In t terms -> resolves t) -> exists r, calculate_counts o k terms = Ok r.
  Proof.
    intros H. unfold calculate_counts. generalize (0, @nil (N * N)). induction terms as [|t ts IH]; intros st; cbn [foldM]; [eexists; reflexivity|].
    unfold term_annot_ids at 1.
    destruct (mapM_all_Ok (fun g => opt_panic (an_find g (o_records k o))) (t_annots k t)) as [rs ->].
    { intros g Hg. destruct (H t (or_introl eq_refl) g Hg) as [r ->]. exists r. reflexivity. }
    cbn [bind]. apply IH. intros t' H'. apply H. right. exact H'.
  Qed.

  Definition links (g : N) (terms : list term) : N := fold_right (fun t acc => occ g (t_annots k t) + acc) 0 terms.

  Lemma links_le g terms : (forall t, In t terms -> NoDup (t_annots k t)) -> links g terms <= Nlen terms.
  Proof.
    induction terms as [|t ts IH]; intros Nd; cbn [links fold_right]; [unfold Nlen; cbn; lia|].
    pose proof (occ_le_1 g (t_annots k t) (Nd t (or_introl eq_refl))). specialize (IH (fun t' H' => Nd t' (or_intror H'))).
    fold (links g ts). unfold Nlen in *. cbn [length]. lia.
  Qed.

  Theorem enrichment_total background sample :
    (forall t, In t background -> resolves t) -> (forall t, In t sample -> resolves t) ->
    (forall t, In t background -> NoDup (t_annots k t)) ->
    Nlen sample <= Nlen background -> Nlen background <= 4294967295 ->
    (forall g, links g sample <= links g background) ->
    exists recs, enrichment o k background sample = Ok recs.
  Proof.
    intros Rb Rs Nd Hn Hmax Hl. unfold enrichment.
    destruct (calculate_counts_total background Rb) as [[nb cb] Eb]. destruct (calculate_counts_total sample Rs) as [[ns cs] Es].
    rewrite Eb, Es. cbn [bind fst snd].
    destruct (calculate_counts_exact o k background nb cb Eb) as (Enb & Pb & Vb).
    destruct (calculate_counts_exact o k sample ns cs Es) as (Ens & Ps & Vs).
    assert (NoDup (map fst cs)) as Ndc by (apply (counts_keys_nodup o k sample (0, []) (ns, cs) ltac:(constructor) Es)).
    apply mapM_all_Ok. intros [id obs] Hin. apply filter_In in Hin as [Hin Hobs]. cbn [snd] in Hobs.
    assert (cval id cs = obs) as Ecs by (unfold cval; rewrite (counts_get_unique id obs cs Ndc Hin); reflexivity).
    assert (0 < obs) as Hpos by (apply (Ps id obs Hin)).
    assert (0 < cval id cb) as Hb by (rewrite Vb; fold (links id background); pose proof (Hl id) as H0; rewrite Vs in Ecs; fold (links id sample) in Ecs; lia).
    unfold cval in Hb. destruct (counts_get id cb) as [succ|] eqn:Eg; [|lia].
    assert (succ = links id background) as Esucc by (pose proof (Vb id) as H0; unfold cval in H0; rewrite Eg in H0; exact H0).
    pose proof (links_le id background Nd) as Hle.
    assert (obs <= succ) as Hobs2 by (rewrite Esucc, <- Ecs, Vs; apply Hl).
    destruct (N.ltb_spec nb succ); [lia|]. destruct (N.ltb_spec nb ns); [lia|]. cbn [orb].
    unfold f64_from_u64. destruct (N.ltb_spec 4294967295 obs); [lia|]. cbn [bind].
    destruct (N.ltb_spec 4294967295 ns); [lia|]. cbn [bind]. destruct (N.ltb_spec 4294967295 succ); [lia|]. cbn [bind].
    destruct (N.ltb_spec 4294967295 nb); [lia|]. cbn [bind]. eexists. reflexivity.
  Qed.
End T.
