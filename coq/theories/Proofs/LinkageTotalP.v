(* LinkageTotalP.v — TOTALITY of one round of single / complete / average linkage (Model/Linkage.v
   arith_round, linkage.rs arithmetic_cluster): under the loop invariant LI the round RETURNS —
   the sizes of the two merged nodes are known, both indices are in range, and every distance the
   method combines is present in the matrix (none of the expect() calls panics). *)
From Coq Require Import Lia Arith PeanoNat List.
From HpoV Require Import Model.Base Model.Group Model.Linkage Proofs.BaseP Proofs.DistP Proofs.QgoodP Proofs.C17P Proofs.C04P Proofs.LinkageP.
Import ListNotations.
Local Open Scope nat_scope.

Section T.
  Variable F : Type.
  Variable flt fgt : F -> F -> bool.
  Variable mean : F -> F -> F.
  Variable dist : group -> group -> F.

  Notation lstate := (lstate F).
  Notation LI := (LI F).

  Lemma size_of_live (s : lstate) i : LI s -> live (l_sets F s) i -> exists v, size_of F (l_n F s) (l_clusters F s) i = Ok v.
  Proof.
    intros I L. unfold size_of. destruct (Nat.ltb_spec i (l_n F s)); [eexists; reflexivity|].
    pose proof (live_lt _ _ L) as Hlt. rewrite (li_len F s I) in Hlt.
    destruct (nth_error (l_clusters F s) (i - l_n F s)) as [c|] eqn:E; [eexists; reflexivity|].
    apply nth_error_None in E. lia.
  Qed.

  Theorem arith_round_total mt (s : lstate) : LI s -> exists r, arith_round F flt fgt mean mt s = Ok r.
  Proof.
    intros I. unfold arith_round.
    destruct (closest F flt (l_dm F s)) as [[[i j] d]|] eqn:Ec; [|eexists; reflexivity].
    destruct (closest_live F flt s i j d I Ec) as (Hij & Li & Lj).
    unfold new_cluster. destruct (size_of_live s i I Li) as [va ->]. destruct (size_of_live s j I Lj) as [vb ->]. cbn [bind].
    pose proof (live_lt _ _ Li) as Hi. pose proof (live_lt _ _ Lj) as Hj.
    destruct (Nat.ltb_spec i (length (l_sets F s))); [|lia]. destruct (Nat.ltb_spec j (length (l_sets F s))); [|lia]. cbn [andb negb].
    set (sets1 := set_nth j None (set_nth i None (l_sets F s))).
    match goal with |- context [foldM ?G ?L (l_dm F s)] => set (Gf := G); set (L0 := L) end.
    (* every pair key of two live nodes stays present while the fold inserts *)
    assert (forall l m, (forall a b, dm_get F (a, b) (l_dm F s) <> None -> dm_get F (a, b) m <> None) ->
              (forall idx st, In (idx, st) l -> st <> None -> idx <> i -> idx <> j -> live (l_sets F s) idx) ->
              exists m', foldM Gf l m = Ok m') as K.
    { induction l as [|[idx st] l IH]; intros m Hm Hl; cbn [foldM]; [eexists; reflexivity|]. unfold Gf at 1.
      destruct (Nat.eqb_spec idx i) as [->|Hni]; cbn [orb]; [cbn [bind]; apply IH; [exact Hm|intros x y Hin; apply Hl; right; exact Hin]|].
      destruct (Nat.eqb_spec idx j) as [->|Hnj]; cbn [orb]; [cbn [bind]; apply IH; [exact Hm|intros x y Hin; apply Hl; right; exact Hin]|].
      destruct st as [g0|]; [|cbn [bind]; apply IH; [exact Hm|intros x y Hin; apply Hl; right; exact Hin]].
      assert (live (l_sets F s) idx) as Lx by (apply (Hl idx (Some g0) (or_introl eq_refl)); [discriminate|exact Hni|exact Hnj]).
      assert (forall z, live (l_sets F s) z -> z <> idx ->
                dm_get F (if Nat.ltb idx z then (idx, z) else (z, idx)) m <> None) as Hp.
      { intros z Lz Hz. destruct (Nat.ltb_spec idx z); apply Hm; apply (li_keys F s I); (split; [lia|auto]). }
      destruct (dm_get F (if Nat.ltb idx i then (idx, i) else (i, idx)) m) as [v0|] eqn:E0; [|exfalso; apply (Hp i Li ltac:(auto)); exact E0].
      destruct (dm_get F (if Nat.ltb idx j then (idx, j) else (j, idx)) m) as [v1|] eqn:E1; [|exfalso; apply (Hp j Lj ltac:(auto)); exact E1].
      cbn [arith bind]. apply IH.
      - intros a b Hab. rewrite dm_get_insert. destruct (keq (a, b) (idx, length sets1)); [discriminate|apply Hm, Hab].
      - intros x y Hin. apply Hl. right. exact Hin. }
    destruct (K L0 (l_dm F s)) as [m' ->]; [auto| |cbn [bind]; eexists; reflexivity].
    intros idx st Hin Hst _ _. unfold L0 in Hin. apply In_combine_seq in Hin as [_ Hin]. rewrite Nat.sub_0_r in Hin.
    destruct st as [g0|]; [|congruence]. assert (live sets1 idx) as L1 by (exists g0; exact Hin).
    unfold sets1 in L1. apply live_set_none in L1 as [L1 _]. apply live_set_none in L1 as [L1 _]. exact L1.
  Qed.

  (* ---------------- the Combinations iterator always terminates within its fuel ---------------- *)

  Lemma comb_run_total {A} (inner : list (option A)) : forall fuel i j, i <= length inner -> j <= S (length inner) ->
    (length inner - i) * (length inner + 2) + (S (length inner) - j) < fuel ->
    exists l, comb_run fuel inner i j = Ok l.
  Proof.
    induction fuel as [|f IH]; intros i j Hi Hj Hm; [exfalso; apply (Nat.nlt_0_r _ Hm)|]. cbn [comb_run].
    destruct (Nat.ltb_spec i (length inner)) as [Hlt|Hge]; [|eexists; reflexivity].
    destruct (Nat.compare_spec j (length inner)) as [->|Hjl|Hjg]; [| |eexists; reflexivity].
    - apply IH; [lia|lia|]. nia.
    - assert (exists l, comb_run f inner i (S j) = Ok l) as [l El] by (apply IH; [lia|lia|nia]).
      destruct (nth_error inner i) as [[x|]|]; try (exists l; exact El).
      destruct (nth_error inner j) as [[y|]|]; try (exists l; exact El).
      rewrite El. cbn [bind]. eexists. reflexivity.
  Qed.

  Lemma comb_new_total {A} (inner : list (option A)) : exists l, comb_new inner = Ok l.
  Proof. unfold comb_new, comb_fuel. apply comb_run_total; [lia|lia|nia]. Qed.

  Lemma l_new_total sets : exists s0, l_new F dist sets = Ok s0.
  Proof.
    unfold l_new. destruct (comb_new_total (map (@Some group) sets)) as [pairs ->]. cbn [bind].
    destruct (comb_new_total (map (@Some nat) (seq 0 (length sets)))) as [idx ->]. cbn [bind]. eexists. reflexivity.
  Qed.

  (* ---------------- the loop ---------------- *)

  Lemma closest_needs_two (s : lstate) e : LI s -> closest F flt (l_dm F s) = Some e -> 2 <= nlive (l_sets F s).
  Proof.
    intros I H. destruct e as [[i j] d]. destruct (closest_live F flt s i j d I H) as (Hij & Li & Lj).
    apply (live_two_nlive _ i j Hij Li Lj).
  Qed.

  Theorem arith_loop_total mt : mt <> MUnion -> forall fuel (s : lstate), LI s -> nlive (l_sets F s) <= fuel -> 1 <= fuel ->
    exists sf, loop F fuel (round_of F flt fgt mean dist mt) s = Ok sf.
  Proof.
    intros Hmt. induction fuel as [|f IH]; intros s I Hn Hf; [lia|]. cbn [loop].
    assert (round_of F flt fgt mean dist mt s = arith_round F flt fgt mean mt s) as Er by (destruct mt; [congruence|reflexivity..]).
    destruct (arith_round_total mt s I) as [r Hr]. rewrite Er, Hr. cbn [bind].
    destruct r as [s'|]; [|eexists; reflexivity].
    rewrite <- Er in Hr. destruct (round_spec F flt fgt mean dist mt s s' I Hr) as (i & j & d & M & I').
    destruct M as (Ec & _ & _ & _ & (a & b & _ & _ & Ecl) & En).
    pose proof (closest_needs_two s _ I Ec) as H2. pose proof (li_cnt F s I) as C1. pose proof (li_cnt F s' I') as C2.
    rewrite Ecl, app_length, En in C2. cbn [length] in C2.
    apply (IH s' I'); lia.
  Qed.

  (* single / complete / average linkage RETURN on every non-empty list of sets *)
  Theorem arith_linkage_returns mt sets : mt <> MUnion -> 1 <= length sets ->
    exists sf, linkage F flt fgt mean dist mt sets = Ok sf.
  Proof.
    intros Hmt Hn. unfold linkage. destruct (l_new_total sets) as [s0 H0]. rewrite H0. cbn [bind].
    destruct (l_new_LI F dist sets s0 H0) as (I0 & C0 & N0).
    change (match mt with MUnion => union_round F flt dist | _ => arith_round F flt fgt mean mt end) with (round_of F flt fgt mean dist mt).
    apply (arith_loop_total mt Hmt); [exact I0| |lia].
    pose proof (li_cnt F s0 I0) as C. rewrite C0, N0 in C. cbn [length] in C. lia.
  Qed.

  (* ---------------- union linkage ---------------- *)

  Lemma comb_last_total {A} (inner : list (option A)) : exists l, comb_last inner = Ok l.
  Proof. unfold comb_last, comb_fuel. apply comb_run_total; [lia|lia|nia]. Qed.

  Theorem union_round_total (s : lstate) : LI s -> exists r, union_round F flt dist s = Ok r.
  Proof.
    intros I. unfold union_round.
    destruct (closest F flt (l_dm F s)) as [[[i j] d]|] eqn:Ec; [|eexists; reflexivity].
    destruct (closest_live F flt s i j d I Ec) as (Hij & Li & Lj).
    unfold new_cluster. destruct (size_of_live s i I Li) as [va ->]. destruct (size_of_live s j I Lj) as [vb ->]. cbn [bind].
    destruct Li as [gi Hgi]. destruct Lj as [gj Hgj]. rewrite Hgi, Hgj.
    set (sets1 := set_nth j None (set_nth i None (l_sets F s))).
    destruct (comb_last_total (sets1 ++ [Some (set_extend gi gj)])) as [pairs Ep]. rewrite Ep. cbn [bind].
    pose proof (comb_last_spec sets1 (set_extend gi gj) pairs Ep) as Es.
    assert (length (sets1 ++ [Some (set_extend gi gj)]) - 1 = length sets1) as Elast by (rewrite app_length; cbn [length]; lia).
    rewrite Elast. rewrite (firstn_app_exact sets1 _ _ eq_refl).
    (* one distance is consumed per live entry; the callback supplied one more than that *)
    match goal with |- context [foldM ?G ?L ?ST] => set (Gf := G) end.
    assert (forall (l : list (option group)) start (m : dmat F) (ds : list F), length (somes' l) <= length ds ->
              exists r, foldM Gf (combine (seq start (length l)) l) (m, ds) = Ok r) as K.
    { induction l as [|[g0|] l IH]; intros start m ds Hlen; cbn [length seq combine foldM]; [eexists; reflexivity| |].
      - unfold Gf at 1. cbn [snd fst]. cbn [somes' length] in Hlen. destruct ds as [|v ds']; [cbn [length] in Hlen; lia|]. cbn [bind].
        apply IH. cbn [length] in Hlen. lia.
      - unfold Gf at 1. cbn [snd bind]. apply IH. exact Hlen. }
    destruct (K sets1 0 (retain_not F i j (l_dm F s)) (map (fun p : group * group => dist (fst p) (snd p)) pairs)) as [r ->].
    { rewrite map_length, Es, map_length, app_length. cbn [length]. lia. }
    cbn [bind]. eexists. reflexivity.
  Qed.

  Theorem loop_total mt : forall fuel (s : lstate), LI s -> nlive (l_sets F s) <= fuel -> 1 <= fuel ->
    exists sf, loop F fuel (round_of F flt fgt mean dist mt) s = Ok sf.
  Proof.
    induction fuel as [|f IH]; intros s I Hn Hf; [lia|]. cbn [loop].
    assert (exists r, round_of F flt fgt mean dist mt s = Ok r) as [r Hr]
      by (destruct mt; cbn [LinkageP.round_of]; [apply union_round_total|apply arith_round_total..]; exact I).
    rewrite Hr. cbn [bind]. destruct r as [s'|]; [|eexists; reflexivity].
    destruct (round_spec F flt fgt mean dist mt s s' I Hr) as (i & j & d & M & I').
    destruct M as (Ec & _ & _ & _ & (a & b & _ & _ & Ecl) & En).
    pose proof (closest_needs_two s _ I Ec) as H2. pose proof (li_cnt F s I) as C1. pose proof (li_cnt F s' I') as C2.
    rewrite Ecl, app_length, En in C2. cbn [length] in C2.
    apply (IH s' I'); lia.
  Qed.

  (* ALL FOUR METHODS RETURN on every non-empty list of sets (with LinkageP.linkage_run: after exactly
     n-1 merges; with DendroP.linkage_dendrogram: with a dendrogram) *)
  Theorem linkage_returns mt sets : 1 <= length sets -> exists sf, linkage F flt fgt mean dist mt sets = Ok sf.
  Proof.
    intros Hn. unfold linkage. destruct (l_new_total sets) as [s0 H0]. rewrite H0. cbn [bind].
    destruct (l_new_LI F dist sets s0 H0) as (I0 & C0 & N0).
    change (match mt with MUnion => union_round F flt dist | _ => arith_round F flt fgt mean mt end) with (round_of F flt fgt mean dist mt).
    apply (loop_total mt); [exact I0| |lia].
    pose proof (li_cnt F s0 I0) as C. rewrite C0, N0 in C. cbn [length] in C. lia.
  Qed.
End T.
