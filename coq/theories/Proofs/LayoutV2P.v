(* LayoutV2P.v — the documented layout VERSION 2 (magic, version byte 2, release date, term / parent / gene /
   OMIM sections, no ORPHA section): for every ontology without ORPHA records that the format can carry,
   from_bytes on the v2 file is the same Builder pipeline as on the v3 file the writer emits — a v2
   file decodes to exactly the ontology it describes, with no ORPHA diseases. *)
From Coq Require Import ZArith Lia ZifyN ZifyNat ZifyBool.
From HpoV Require Import Gen.Consts Model.Base Model.Group Model.Onto Model.Binary
  Proofs.GroupP Proofs.SetsP Proofs.BinaryP Proofs.DecodeP Proofs.CodecP Proofs.SectionP.

Definition layout_v2 (order : list annot -> list annot) (o : onto) : bytes :=
  let '(y, m, d) := o_version o in
  MAGIC_READER ++ [2] ++ [ (y / 256) mod 256; y mod 256; m; d ]
  ++ section (concat (map enc_term (ar_terms (o_arena o))))
  ++ section (concat (map enc_parents (ar_terms (o_arena o))))
  ++ section (concat (map enc_gene (order (o_genes o))))
  ++ section (concat (map enc_disease (order (o_omim o)))).

Theorem decode_layout_v2_is_rebuild icf order o : file_ok order o -> order (o_orpha o) = [] ->
  decode icf (layout_v2 order o) = rebuild icf order o.
Proof.
  intros [Hver Hts Hps Hgs Hms Hrs H1 H2 H3 H4 H5] Eorpha.
  destruct (o_version o) as [[y m] d] eqn:Ev.
  set (S1 := concat (map enc_term (ar_terms (o_arena o)))) in *.
  set (S2 := concat (map enc_parents (ar_terms (o_arena o)))) in *.
  set (S3 := concat (map enc_gene (order (o_genes o)))) in *.
  set (S4 := concat (map enc_disease (order (o_omim o)))) in *.
  set (v4 := [(y / 256) mod 256; y mod 256; m; d]).
  set (b := v4 ++ section S1 ++ section S2 ++ section S3 ++ section S4).
  assert (layout_v2 order o = MAGIC_READER ++ [2] ++ b) as Ee.
  { unfold layout_v2. rewrite Ev. unfold b, v4. rewrite <- ?app_assoc. reflexivity. }
  assert (Nlen b = 4 + (4 + Nlen S1) + (4 + Nlen S2) + (4 + Nlen S3) + (4 + Nlen S4)) as Hb.
  { unfold b. rewrite !Nlen_app, !Nlen_section. change (Nlen v4) with 4. lia. }
  unfold decode, decode_with. rewrite Ee.
  assert (bin_version (MAGIC_READER ++ [2] ++ b) = Ok (b, V2)) as ->.
  { unfold bin_version. assert (Nlen (MAGIC_READER ++ [2] ++ b) <? MIN_LEN = false) as ->.
    { apply N.ltb_ge. rewrite !Nlen_app. change (Nlen MAGIC_READER) with 3. change (Nlen [2]) with 1. unfold MIN_LEN. lia. }
    reflexivity. }
  cbn [bind]. assert (Nlen b <? 4 = false) as -> by (apply N.ltb_ge; lia).
  change (idx b 0) with (Ok ((y / 256) mod 256)). change (idx b 1) with (Ok (y mod 256)).
  change (idx b 2) with (Ok m). change (idx b 3) with (Ok d). cbn [bind].
  replace ((y / 256) mod 256 * 256 + y mod 256) with y by lia.
  unfold rebuild. rewrite Ev.
  set (o0 := set_version (y, m, d) onto_new).
  set (fuel := S (length b)).
  (* terms *)
  destruct (section_at v4 S1 (section S2 ++ section S3 ++ section S4) 4 eq_refl H1) as [Hu Hs].
  fold b in Hu, Hs. rewrite Hu. cbn [bind]. rewrite (Hs _ eq_refl). cbn [bind].
  assert (forall ts, (length ts <= length (concat (map enc_term ts)))%nat) as Lt.
  { intros ts. apply concat_len_ge. intros t. destruct (enc_term_len t) as [H14 _]. unfold Nlen in H14. lia. }
  rewrite (read_terms_section V2 _ ltac:(discriminate) Hts).
  2:{ unfold fuel. specialize (Lt (ar_terms (o_arena o))). fold S1 in Lt.
      assert (length S1 <= length b)%nat by (apply Nlen_length_le; lia). lia. }
  destruct (foldM _ (ar_terms (o_arena o)) (o_arena o0)) as [a1| | |]; cbn [bind]; try reflexivity.
  (* parents *)
  destruct (section_at (v4 ++ section S1) S2 (section S3 ++ section S4) (4 + Nlen S1 + 4)) as [Hu2 Hs2];
    [rewrite Nlen_app, Nlen_section; change (Nlen v4) with 4; lia|exact H2|].
  rewrite <- app_assoc in Hu2, Hs2. fold b in Hu2, Hs2. rewrite Hu2. cbn [bind].
  rewrite (Hs2 (4 + 4 + Nlen S1 + 4 + Nlen S2)) by lia. cbn [bind].
  change S2 with ([] ++ S2) at 1. change 0 with (Nlen (@nil N)).
  rewrite (read_parents_section _ Hps).
  2:{ unfold fuel. assert (length (ar_terms (o_arena o)) <= length S2)%nat.
      { apply concat_len_ge. intros t. pose proof (enc_parents_len t) as Hl. unfold Nlen in Hl. lia. }
      assert (length S2 <= length b)%nat by (apply Nlen_length_le; lia). lia. }
  destruct (foldM _ (ar_terms (o_arena o)) a1) as [a2| | |]; cbn [bind]; try reflexivity.
  destruct (connect_all (default_fuel a2) a2) as [a3| | |]; cbn [bind]; try reflexivity.
  (* genes *)
  destruct (section_at ((v4 ++ section S1) ++ section S2) S3 (section S4) (4 + Nlen S1 + 4 + Nlen S2 + 4)) as [Hu3 Hs3];
    [rewrite !Nlen_app, !Nlen_section; change (Nlen v4) with 4; lia|exact H3|].
  rewrite <- !app_assoc in Hu3, Hs3. fold b in Hu3, Hs3. rewrite Hu3. cbn [bind].
  rewrite (Hs3 (4 + 4 + Nlen S1 + 4 + Nlen S2 + 4 + Nlen S3)) by lia. cbn [bind].
  assert (forall k rs, (length rs <= length (concat (map (enc_record k) rs)))%nat) as Lr.
  { intros k rs. induction rs as [|r rs IH]; cbn [map concat length]; [lia|]. rewrite app_length.
    assert (1 <= length (enc_record k r))%nat; [|lia].
    destruct k; cbn [enc_record]; unfold enc_gene, enc_disease; rewrite app_length; cbn [to_be32 length]; lia. }
  change S3 with ([] ++ concat (map (enc_record KGene) (order (o_genes o)))) at 1. change 0 with (Nlen (@nil N)).
  rewrite (read_records_section KGene _ Hgs).
  2:{ unfold fuel. specialize (Lr KGene (order (o_genes o))). change (concat (map (enc_record KGene) (order (o_genes o)))) with S3 in Lr.
      assert (length S3 <= length b)%nat by (apply Nlen_length_le; lia). lia. }
  destruct (foldM (load_record KGene) _ _) as [o4| | |]; cbn [bind]; try reflexivity.
  (* omim *)
  destruct (section_at (((v4 ++ section S1) ++ section S2) ++ section S3) S4 [] (4 + Nlen S1 + 4 + Nlen S2 + 4 + Nlen S3 + 4)) as [Hu4 Hs4];
    [rewrite !Nlen_app, !Nlen_section; change (Nlen v4) with 4; lia|exact H4|].
  rewrite app_nil_r in Hu4, Hs4. rewrite <- !app_assoc in Hu4, Hs4. fold b in Hu4, Hs4. rewrite Hu4. cbn [bind].
  rewrite (Hs4 (4 + 4 + Nlen S1 + 4 + Nlen S2 + 4 + Nlen S3 + 4 + Nlen S4)) by lia. cbn [bind].
  change S4 with ([] ++ concat (map (enc_record KOmim) (order (o_omim o)))) at 1. change 0 with (Nlen (@nil N)).
  rewrite (read_records_section KOmim _ Hms).
  2:{ unfold fuel. specialize (Lr KOmim (order (o_omim o))). change (concat (map (enc_record KOmim) (order (o_omim o)))) with S4 in Lr.
      assert (length S4 <= length b)%nat by (apply Nlen_length_le; lia). lia. }
  destruct (foldM (load_record KOmim) _ _) as [o5| | |]; cbn [bind]; try reflexivity.
  (* no ORPHA section in a v2 file: the record fold of the rebuild runs over the empty list *)
  cbn [bind]. rewrite Eorpha. cbn [map foldM bind].
  assert (4 + Nlen S1 + 4 + Nlen S2 + 4 + Nlen S3 + 4 + Nlen S4 + 4 =? Nlen b = true) as Hend by (apply N.eqb_eq; lia).
  rewrite Hend.
  reflexivity.
Qed.

(* a v2 file and the v3 file of the same ORPHA-free ontology decode alike *)
Theorem layout_v2_decodes_like_v3 icf order o : file_ok order o -> order (o_orpha o) = [] ->
  decode icf (layout_v2 order o) = decode icf (encode_with order o).
Proof. intros F E. rewrite (decode_layout_v2_is_rebuild icf order o F E), (decode_encode_is_rebuild icf order o F). reflexivity. Qed.

(* ---------------- layout VERSION 1 ---------------- *)
(* no magic, no version byte, no release date; a term record is length, id, name length, name
   (no obsolete flag, no replacement); term / parent / gene / OMIM sections *)

Definition enc_term_v1 (t : term) : bytes :=
  let nl := cut_len TERM_NAME_LIMIT (t_name t) in
  to_be32 (nl + 9) ++ to_be32 (t_id t) ++ [nl] ++ cut_name TERM_NAME_LIMIT (t_name t).

Definition layout_v1 (order : list annot -> list annot) (o : onto) : bytes :=
  section (concat (map enc_term_v1 (ar_terms (o_arena o))))
  ++ section (concat (map enc_parents (ar_terms (o_arena o))))
  ++ section (concat (map enc_gene (order (o_genes o))))
  ++ section (concat (map enc_disease (order (o_omim o)))).

Definition raw_term_v1 (t : term) : term := new_term (cut_name TERM_NAME_LIMIT (t_name t)) (t_id t).

Theorem term_v1_record_roundtrip t rest :
  t_id t < 4294967296 -> utf8_valid (cut_name TERM_NAME_LIMIT (t_name t)) = true ->
  u32_at (enc_term_v1 t ++ rest) 0 = Ok (Nlen (enc_term_v1 t)) /\
  Nlen (enc_term_v1 t) = cut_len TERM_NAME_LIMIT (t_name t) + 9 /\
  term_v1 (enc_term_v1 t ++ rest) = Ok (raw_term_v1 t).
Proof.
  intros Hid Hutf.
  set (nl := cut_len TERM_NAME_LIMIT (t_name t)).
  set (nm := cut_name TERM_NAME_LIMIT (t_name t)).
  assert (Nlen nm = nl) as Hnl by apply Nlen_firstn_cut.
  assert (nl <= 255) as Hle by (destruct (cut_len_le TERM_NAME_LIMIT (t_name t)) as [H _]; exact H).
  assert (enc_term_v1 t = to_be32 (nl + 9) ++ to_be32 (t_id t) ++ [nl] ++ nm) as E by reflexivity.
  assert (Nlen (enc_term_v1 t) = nl + 9) as Hlen.
  { rewrite E, !Nlen_app. unfold Nlen at 1 2 3. cbn [length to_be32]. rewrite Hnl. lia. }
  assert (u32_at (enc_term_v1 t ++ rest) 0 = Ok (nl + 9)) as H0.
  { rewrite E, <- !app_assoc. apply u32_at_to_be32. lia. }
  split; [rewrite Hlen; exact H0|]. split; [exact Hlen|].
  unfold term_v1.
  assert (Nlen (enc_term_v1 t ++ rest) <? 9 = false) as -> by (apply N.ltb_ge; rewrite Nlen_app, Hlen; lia).
  rewrite H0. cbn [bind].
  assert (u32_at (enc_term_v1 t ++ rest) 4 = Ok (t_id t)) as ->.
  { rewrite E, <- !app_assoc. change 4 with (Nlen (to_be32 (nl + 9))). apply u32_at_here, Hid. }
  cbn [bind].
  assert (idx (enc_term_v1 t ++ rest) 8 = Ok nl) as ->.
  { replace (enc_term_v1 t ++ rest) with ((to_be32 (nl + 9) ++ to_be32 (t_id t)) ++ nl :: (nm ++ rest))
      by (rewrite E, <- !app_assoc; reflexivity).
    change 8 with (Nlen (to_be32 (nl + 9) ++ to_be32 (t_id t))). apply idx_at. }
  cbn [bind].
  assert (Nlen (enc_term_v1 t ++ rest) <? 9 + nl = false) as -> by (apply N.ltb_ge; rewrite Nlen_app, Hlen; lia).
  assert (slice (enc_term_v1 t ++ rest) 9 (nl + 9) = Ok nm) as ->.
  { replace (enc_term_v1 t ++ rest) with ((to_be32 (nl + 9) ++ to_be32 (t_id t) ++ [nl]) ++ nm ++ rest)
      by (rewrite E, <- !app_assoc; reflexivity).
    change 9 with (Nlen (to_be32 (nl + 9) ++ to_be32 (t_id t) ++ [nl])) at 1.
    replace (nl + 9) with (Nlen (to_be32 (nl + 9) ++ to_be32 (t_id t) ++ [nl]) + Nlen nm)
      by (rewrite Hnl; change (Nlen (to_be32 (nl + 9) ++ to_be32 (t_id t) ++ [nl])) with 9; lia).
    apply slice_here. }
  cbn [bind]. fold nm in Hutf. rewrite Hutf. reflexivity.
Qed.

Definition term_rec_ok_v1 (t : term) : Prop :=
  t_id t < 4294967296 /\ utf8_valid (cut_name TERM_NAME_LIMIT (t_name t)) = true.

(* TERM SECTION, layout v1 *)
Theorem read_terms_section_v1 ts : Forall term_rec_ok_v1 ts ->
  forall fuel a, (length ts < fuel)%nat ->
  read_terms fuel V1 (concat (map enc_term_v1 ts)) a = foldM (fun a t => ar_insert (raw_term_v1 t) a) ts a.
Proof.
  intros Hall. induction Hall as [|t ts [Hid Hutf] _ IH]; intros fuel a Hf.
  - destruct fuel; [lia|]. reflexivity.
  - destruct fuel as [|f]; [cbn in Hf; lia|]. cbn [map concat foldM].
    destruct (term_v1_record_roundtrip t (concat (map enc_term_v1 ts)) Hid Hutf) as [Hlen [H9 Hterm]].
    rewrite read_terms_step.
    2:{ intros Eb. assert (Nlen (enc_term_v1 t ++ concat (map enc_term_v1 ts)) = 0) as H0 by (rewrite Eb; reflexivity).
        rewrite Nlen_app in H0. lia. }
    assert (Nlen (enc_term_v1 t ++ concat (map enc_term_v1 ts)) <=? 4 = false) as -> by (apply N.leb_gt; rewrite Nlen_app; lia).
    rewrite Hlen. cbn [bind].
    assert (Nlen (enc_term_v1 t ++ concat (map enc_term_v1 ts)) <? Nlen (enc_term_v1 t) = false) as -> by (apply N.ltb_ge; rewrite Nlen_app; lia).
    rewrite Hterm.
    rewrite skipn_app_exact by (unfold nat_of, Nlen; rewrite Nat2N.id; reflexivity).
    destruct (ar_insert (raw_term_v1 t) a) as [a'| | |]; cbn [bind]; try reflexivity.
    apply IH. cbn in Hf. lia.
Qed.

(* what a v1 file says: no release, flag-free terms, no ORPHA diseases *)
Definition rebuild_v1 (icf : N -> N -> res N) (order : list annot -> list annot) (o : onto) : res onto :=
  let o0 := set_version (0, 0, 0) onto_new in
  let ts := ar_terms (o_arena o) in
  do a1 <- foldM (fun a t => ar_insert (raw_term_v1 t) a) ts (o_arena o0) ;;
  do a2 <- foldM (fun a t => foldM (fun a p => b_add_parent_unchecked p (t_id t) a) (t_parents t) a) ts a1 ;;
  do a3 <- connect_all (default_fuel a2) a2 ;;
  do o4 <- foldM (load_record KGene) (map (raw_record KGene) (order (o_genes o))) (set_arena a3 o0) ;;
  do o5 <- foldM (load_record KOmim) (map (raw_record KOmim) (order (o_omim o))) o4 ;;
  do o7 <- b_calculate_ic icf o5 ;; b_build_with_defaults o7.

Record file_ok_v1 (order : list annot -> list annot) (o : onto) : Prop := {
  f1_terms : Forall term_rec_ok_v1 (ar_terms (o_arena o));
  f1_parents : Forall parent_rec_ok (ar_terms (o_arena o));
  f1_genes : Forall (record_ok KGene) (order (o_genes o));
  f1_omim : Forall (record_ok KOmim) (order (o_omim o));
  (* the first three bytes of the file are the top of the term section's length; a v1 file must not
     begin with the magic "HPO", or it is read as a versioned file *)
  f1_s1 : Nlen (concat (map enc_term_v1 (ar_terms (o_arena o)))) < 16777216;
  f1_s2 : Nlen (concat (map enc_parents (ar_terms (o_arena o)))) < 4294967296;
  f1_s3 : Nlen (concat (map enc_gene (order (o_genes o)))) < 4294967296;
  f1_s4 : Nlen (concat (map enc_disease (order (o_omim o)))) < 4294967296
}.

Lemma enc_term_v1_len t : 9 <= Nlen (enc_term_v1 t).
Proof.
  unfold enc_term_v1. rewrite !Nlen_app. unfold Nlen at 1 2 3. cbn [length to_be32]. lia.
Qed.

Theorem decode_layout_v1_is_rebuild icf order o : file_ok_v1 order o ->
  decode icf (layout_v1 order o) = rebuild_v1 icf order o.
Proof.
  intros [Hts Hps Hgs Hms H1 H2 H3 H4].
  set (S1 := concat (map enc_term_v1 (ar_terms (o_arena o)))) in *.
  set (S2 := concat (map enc_parents (ar_terms (o_arena o)))) in *.
  set (S3 := concat (map enc_gene (order (o_genes o)))) in *.
  set (S4 := concat (map enc_disease (order (o_omim o)))) in *.
  set (b := section S1 ++ section S2 ++ section S3 ++ section S4).
  assert (layout_v1 order o = b) as Ee by reflexivity.
  assert (Nlen b = (4 + Nlen S1) + (4 + Nlen S2) + (4 + Nlen S3) + (4 + Nlen S4)) as Hb.
  { unfold b. rewrite !Nlen_app, !Nlen_section. lia. }
  unfold decode, decode_with. rewrite Ee.
  assert (bin_version b = Ok (b, V1)) as ->.
  { unfold bin_version. assert (Nlen b <? MIN_LEN = false) as -> by (apply N.ltb_ge; unfold MIN_LEN; lia).
    assert (list_eqb (firstn 3 b) MAGIC_READER = false) as ->; [|reflexivity].
    unfold b, section, to_be32. cbn [app firstn list_eqb MAGIC_READER].
    assert (Nlen S1 / 16777216 = 0) as -> by (apply N.div_small; lia). reflexivity. }
  cbn [bind]. unfold rebuild_v1.
  set (o0 := set_version (0, 0, 0) onto_new).
  (* terms *)
  destruct (section_at [] S1 (section S2 ++ section S3 ++ section S4) 0) as [Hu1 Hs1]; [reflexivity|lia|].
  cbn [app] in Hu1, Hs1. fold b in Hu1, Hs1. rewrite Hu1. cbn [bind].
  rewrite (Hs1 (0 + 4 + Nlen S1)) by lia. cbn [bind].
  rewrite (read_terms_section_v1 _ Hts).
  2:{ assert (length (ar_terms (o_arena o)) <= length S1)%nat.
      { apply concat_len_ge. intros t. pose proof (enc_term_v1_len t) as Hl. unfold Nlen in Hl. lia. }
      assert (length S1 <= length b)%nat by (apply Nlen_length_le; lia). lia. }
  destruct (foldM _ (ar_terms (o_arena o)) (o_arena o0)) as [a1| | |]; cbn [bind]; try reflexivity.
  (* parents *)
  destruct (section_at (section S1) S2 (section S3 ++ section S4) (0 + Nlen S1 + 4)) as [Hu2 Hs2];
    [rewrite Nlen_section; lia|exact H2|].
  fold b in Hu2, Hs2. rewrite Hu2. cbn [bind].
  rewrite (Hs2 (0 + 4 + Nlen S1 + 4 + Nlen S2)) by lia. cbn [bind].
  match goal with |- context[read_parents ?f S2 0 ?a] =>
    pose proof (read_parents_section _ Hps f [] a) as Hrd end.
  cbn [app] in Hrd. change (Nlen (@nil N)) with 0 in Hrd. fold S2 in Hrd. rewrite Hrd; clear Hrd.
  2:{ assert (length (ar_terms (o_arena o)) <= length S2)%nat.
      { apply concat_len_ge. intros t. pose proof (enc_parents_len t) as Hl. unfold Nlen in Hl. lia. }
      assert (length S2 <= length b)%nat by (apply Nlen_length_le; lia). lia. }
  destruct (foldM _ (ar_terms (o_arena o)) a1) as [a2| | |]; cbn [bind]; try reflexivity.
  destruct (connect_all (default_fuel a2) a2) as [a3| | |]; cbn [bind]; try reflexivity.
  (* genes *)
  destruct (section_at (section S1 ++ section S2) S3 (section S4) (0 + Nlen S1 + 4 + Nlen S2 + 4)) as [Hu3 Hs3];
    [rewrite !Nlen_app, !Nlen_section; lia|exact H3|].
  rewrite <- !app_assoc in Hu3, Hs3. fold b in Hu3, Hs3. rewrite Hu3. cbn [bind].
  rewrite (Hs3 (0 + 4 + Nlen S1 + 4 + Nlen S2 + 4 + Nlen S3)) by lia. cbn [bind].
  assert (forall k rs, (length rs <= length (concat (map (enc_record k) rs)))%nat) as Lr.
  { intros k rs. induction rs as [|r rs IH]; cbn [map concat length]; [lia|]. rewrite app_length.
    assert (1 <= length (enc_record k r))%nat; [|lia].
    destruct k; cbn [enc_record]; unfold enc_gene, enc_disease; rewrite app_length; cbn [to_be32 length]; lia. }
  match goal with |- context[read_records ?f KGene S3 0 ?a] =>
    pose proof (read_records_section KGene _ Hgs f [] a) as Hrd end.
  cbn [app] in Hrd. change (Nlen (@nil N)) with 0 in Hrd.
  change (concat (map (enc_record KGene) (order (o_genes o)))) with S3 in Hrd. rewrite Hrd; clear Hrd.
  2:{ specialize (Lr KGene (order (o_genes o))). change (concat (map (enc_record KGene) (order (o_genes o)))) with S3 in Lr.
      assert (length S3 <= length b)%nat by (apply Nlen_length_le; lia). lia. }
  destruct (foldM (load_record KGene) _ _) as [o4| | |]; cbn [bind]; try reflexivity.
  (* omim *)
  destruct (section_at ((section S1 ++ section S2) ++ section S3) S4 [] (0 + Nlen S1 + 4 + Nlen S2 + 4 + Nlen S3 + 4)) as [Hu4 Hs4];
    [rewrite !Nlen_app, !Nlen_section; lia|exact H4|].
  rewrite app_nil_r in Hu4, Hs4. rewrite <- !app_assoc in Hu4, Hs4. fold b in Hu4, Hs4. rewrite Hu4. cbn [bind].
  rewrite (Hs4 (0 + 4 + Nlen S1 + 4 + Nlen S2 + 4 + Nlen S3 + 4 + Nlen S4)) by lia. cbn [bind].
  match goal with |- context[read_records ?f KOmim S4 0 ?a] =>
    pose proof (read_records_section KOmim _ Hms f [] a) as Hrd end.
  cbn [app] in Hrd. change (Nlen (@nil N)) with 0 in Hrd.
  change (concat (map (enc_record KOmim) (order (o_omim o)))) with S4 in Hrd. rewrite Hrd; clear Hrd.
  2:{ specialize (Lr KOmim (order (o_omim o))). change (concat (map (enc_record KOmim) (order (o_omim o)))) with S4 in Lr.
      assert (length S4 <= length b)%nat by (apply Nlen_length_le; lia). lia. }
  destruct (foldM (load_record KOmim) _ _) as [o5| | |]; cbn [bind]; try reflexivity.
  assert (0 + Nlen S1 + 4 + Nlen S2 + 4 + Nlen S3 + 4 + Nlen S4 + 4 =? Nlen b = true) as Hend by (apply N.eqb_eq; lia).
  rewrite Hend. reflexivity.
Qed.

(* a v1 file says what the v3 file of the same ontology says once release, obsolete flags, replacements
   and ORPHA diseases are dropped *)
Definition as_v1_term (t : term) : term := set_flags false None t.
Definition as_v1 (o : onto) : onto :=
  mkOnto (mkArena (ar_ph (o_arena o)) (map as_v1_term (ar_terms (o_arena o))))
         (o_genes o) (o_omim o) [] (0, 0, 0) (o_cat o) (o_mod o).

Theorem rebuild_v1_is_rebuild_of_plain icf order o : order [] = [] ->
  rebuild_v1 icf order o = rebuild icf order (as_v1 o).
Proof.
  intros E0. unfold rebuild_v1, rebuild, as_v1. cbn [o_version o_arena ar_terms o_genes o_omim o_orpha].
  rewrite E0. cbn [map foldM bind].
  set (o0 := set_version (0, 0, 0) onto_new).
  assert (forall ts a, foldM (fun a t => ar_insert (raw_term t) a) (map as_v1_term ts) a
                     = foldM (fun a t => ar_insert (raw_term_v1 t) a) ts a) as E1.
  { induction ts as [|t ts IH]; intros a; [reflexivity|]. cbn [map foldM].
    change (raw_term (as_v1_term t)) with (raw_term_v1 t).
    destruct (ar_insert (raw_term_v1 t) a); cbn [bind]; try reflexivity. apply IH. }
  rewrite E1. destruct (foldM _ (ar_terms (o_arena o)) (o_arena o0)) as [a1| | |]; cbn [bind]; try reflexivity.
  assert (forall ts a, foldM (fun a t => foldM (fun a p => b_add_parent_unchecked p (t_id t) a) (t_parents t) a) (map as_v1_term ts) a
                     = foldM (fun a t => foldM (fun a p => b_add_parent_unchecked p (t_id t) a) (t_parents t) a) ts a) as E2.
  { induction ts as [|t ts IH]; intros a; [reflexivity|]. cbn [map foldM].
    change (t_parents (as_v1_term t)) with (t_parents t). change (t_id (as_v1_term t)) with (t_id t).
    destruct (foldM _ (t_parents t) a); cbn [bind]; try reflexivity. apply IH. }
  rewrite E2. reflexivity.
Qed.

(* the premises are satisfiable, and the v1 file of the example is accepted *)
Example file_ok_v1_example :
  let t1 := mkTerm 1 [65] [] [] [118] [7] [3] [] (0, 0, 0) false None in
  let t2 := mkTerm 118 [66; 195; 182] [1] [1] [] [7] [3] [] (0, 0, 0) false None in
  let o := mkOnto (mkArena (new_term [] 0) [t1; t2]) [mkAnnot 7 [103] [118]] [mkAnnot 3 [100] [118]] [] (0, 0, 0) [] [] in
  file_ok_v1 (fun l => l) o /\
  (exists r, decode (fun _ _ => Ok 0) (layout_v1 (fun l => l) o) = Ok r /\ map t_id (ar_terms (o_arena r)) = [1; 118]).
Proof.
  cbv zeta. split.
  - split; cbn [o_arena ar_terms o_genes o_omim].
    + repeat constructor; cbn; try lia; reflexivity.
    + repeat constructor; cbn; try lia.
    + repeat constructor; cbn; try lia; reflexivity.
    + repeat constructor; cbn; try lia; reflexivity.
    + vm_compute. reflexivity.
    + vm_compute. reflexivity.
    + vm_compute. reflexivity.
    + vm_compute. reflexivity.
  - eexists. split; [vm_compute; reflexivity|]. vm_compute. reflexivity.
Qed.
