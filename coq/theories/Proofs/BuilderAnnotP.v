(* BuilderAnnotP.v — the hypotheses of the reload theorems are met by every ontology a Builder
   script produces: the is_a graph is acyclic (connect_all_terms returned) and every term carries
   exactly the annotations with a direct fact at the term itself or at one of its descendants. *)
From Coq Require Import Lia Relations Sorted.
From HpoV Require Import Gen.Consts Model.Base Model.Group Model.Onto Model.Query Model.Dump Model.Script
  Proofs.GroupP Proofs.BaseP Proofs.ClosureP Proofs.AcyclicP Proofs.DistP Proofs.QgoodP Proofs.LinkP Proofs.RecordsP
  Proofs.C03W Proofs.SectionP Proofs.RoundTripP Proofs.AnnotP.

(* ---------------- the stages of a script ---------------- *)

Definition norecords (o : onto) : Prop := forall k, o_records k o = [].

Lemma run_builder_stages s o codes : run_builder s = Ok (o, codes) ->
  exists o2 o3 annots codes4,
    binv (o_arena o2) /\ SP (o_arena o2) /\ SC (o_arena o2) /\ noannot (o_arena o2) /\ norecords o2 /\
    b_connect_all_terms o2 = Ok o3 /\ run_ops run_annot_op annots o3 = Ok (o, codes4).
Proof.
  destruct s as [[[[ver terms] parents] annots] kindb]. unfold run_builder. intros H.
  apply bind_Ok' in H as [o1 [H1 H]]. apply bind_Ok' in H as [[o2 codes2] [H2 H]].
  apply bind_Ok' in H as [o3 [H3 H]]. apply bind_Ok' in H as [[o4 codes4] [H4 H]]. injection H as <- _.
  exists o2, o3, annots, codes4.
  assert (binv (o_arena o1) /\ SP (o_arena o1) /\ SC (o_arena o1) /\ noannot (o_arena o1) /\ norecords o1) as (B1 & P1 & S1 & N1 & R1).
  { refine (foldM_inv _ (fun o => binv (o_arena o) /\ SP (o_arena o) /\ SC (o_arena o) /\ noannot (o_arena o) /\ norecords o) _ _ _ o1 _ H1).
    - intros s [id name] s' _ Hs (Bs & Ps & Ss & Ns & Rs). cbn [fst snd] in Hs. unfold b_new_term, b_add_term in Hs.
      apply bind_Ok' in Hs as [a' [Ha Hs]]. injection Hs as <-. cbn [o_arena set_arena].
      split; [apply (binv_insert (o_arena s) (new_term name id) a' Bs eq_refl eq_refl eq_refl Ha)|].
      split; [apply (SP_insert_new name id _ a' Ps Ha)|].
      unfold ar_insert in Ha. destruct (MAX_HPO_ID <=? _); [discriminate|].
      destruct (ar_find _ (o_arena s)); injection Ha as <-; (split; [|split; [|intros k; destruct k; [exact (Rs KGene)|exact (Rs KOmim)|exact (Rs KOrpha)]]]); try assumption.
      + intros x [Hin| ->]; [|apply Ss; right; reflexivity]. cbn [ar_terms] in Hin.
        apply in_app_or in Hin as [Hin|[<-|[]]]; [apply Ss; left; exact Hin|constructor].
      + intros x Hin k. cbn [ar_terms] in Hin. apply in_app_or in Hin as [Hin|[<-|[]]]; [apply Ns, Hin|destruct k; reflexivity].
    - cbn [o_arena set_version onto_new]. split; [apply binv_default|split; [apply SP_default|split; [apply SC_default|split]]].
      + intros t [].
      + intros k; destruct k; reflexivity. }
  assert (binv (o_arena o2) /\ SP (o_arena o2) /\ SC (o_arena o2) /\ noannot (o_arena o2) /\ norecords o2) as (B2 & P2 & S2 & N2 & R2).
  { unfold run_ops in H2.
    refine (foldM_inv _ (fun st : onto * list N => binv (o_arena (fst st)) /\ SP (o_arena (fst st)) /\ SC (o_arena (fst st)) /\ noannot (o_arena (fst st)) /\ norecords (fst st)) _ _ (o1, []) (o2, codes2) _ H2).
    - intros [s cs0] [p c] [s' cs'] _ Hs (Bs & Ps & Ss & Ns & Rs). cbn [fst snd] in *.
      destruct (b_add_parent p c s) as [s2|e| |] eqn:Ea; cbn [step_keep bind] in Hs; try discriminate; injection Hs as <- _; [|auto 10].
      split; [apply (binv_add_parent s p c s2 Bs Ea)|split; [apply (SP_add_parent p c s s2 Ps Ea)|split; [apply (SC_add_parent p c s s2 Ss Ea)|]]].
      unfold b_add_parent in Ea. destruct (ar_get c (o_arena s)); [|discriminate]. destruct (ar_get p (o_arena s)); [|discriminate].
      match type of Ea with context [ar_get c ?a1] => destruct (ar_get c a1); [|discriminate] end. injection Ea as <-.
      split; [|intros k; destruct k; [exact (Rs KGene)|exact (Rs KOmim)|exact (Rs KOrpha)]]. cbn [o_arena set_arena].
      apply noannot_update; [apply noannot_update; [exact Ns|intros; apply annots_set_children]|intros; apply annots_set_parents].
    - auto 10. }
  auto 10.
Qed.

(* ---------------- the invariant of the annotation phase ---------------- *)

Definition reach_o (o : onto) (d id : N) : Prop := id = d \/ In id (allp_of (o_arena o) d).

Record BI (o : onto) : Prop := {
  bi_q : qgood o;
  bi_ac : acyclic (o_arena o);
  bi_sorted : forall k t, In t (ar_terms (o_arena o)) -> sorted (t_annots k t);
  bi_up : forall k g, upclosed_except k g [] (o_arena o);
  bi_exact : forall k t, In t (ar_terms (o_arena o)) -> forall x,
    In x (t_annots k t) <-> exists d, In d (direct k o x) /\ reach_o o d (t_id t);
  bi_nodup : forall k, NoDup (map a_id (o_records k o))
}.

Lemma upclosed_other_kind k k' g a a' : k' <> k -> frame k a a' -> NoDup (ar_keys a) ->
  upclosed_except k' g [] a -> upclosed_except k' g [] a'.
Proof.
  intros Hne Fr Nd Up t' Hin' _ Hg p Hp.
  destruct (frame_In_r k a a' t' Fr Hin') as [t [Ht E]].
  assert (t_annots k' t' = t_annots k' t) as Ea by (rewrite E; apply other_kind_annots; exact Hne).
  assert (t_allp t' = t_allp t) as El by (rewrite E; apply set_annots_struct).
  rewrite Ea in Hg. rewrite El in Hp.
  destruct (Up t Ht (fun F => F) Hg p Hp) as [tp [Htp [Hidp Hgp]]].
  destruct (frame_In_l k a a' tp Fr Htp) as [tp' [Htp' E']].
  exists tp'. split; [exact Htp'|]. split; [rewrite E'; rewrite (proj1 (set_annots_struct k _ tp)); exact Hidp|].
  rewrite E', other_kind_annots by exact Hne. exact Hgp.
Qed.

Lemma NoDup_app_single {A} (l : list A) x : NoDup l -> ~ In x l -> NoDup (l ++ [x]).
Proof.
  intros Nd Hn. induction l as [|y l IH]; cbn [app]; [constructor; [intros []|constructor]|].
  inversion Nd as [|? ? Hy Nd']; subst. constructor.
  - intros Hin. apply in_app_or in Hin as [Hin|[<-|[]]]; [contradiction|]. apply Hn. left. reflexivity.
  - apply IH; [exact Nd'|]. intros H. apply Hn. right. exact H.
Qed.

Lemma an_add_nodup name id recs : NoDup (map a_id recs) -> NoDup (map a_id (an_add name id recs)).
Proof.
  intros Nd. unfold an_add. destruct (an_find id recs) as [r|] eqn:E; [exact Nd|].
  rewrite map_app. cbn [map a_id]. apply NoDup_app_single; [exact Nd|].
  intros Hin. apply in_map_iff in Hin as [r [Hid Hr]]. unfold an_find in E.
  destruct (find_by_In_key a_id id recs) as [r' Hr']; [rewrite <- Hid; apply in_map, Hr|]. congruence.
Qed.

Lemma an_add_term_ids id tid recs : map a_id (an_add_term id tid recs) = map a_id recs.
Proof.
  unfold an_add_term. induction recs as [|r recs IH]; cbn [update_by map]; [reflexivity|].
  destruct (a_id r =? id); cbn [map a_id]; [reflexivity|rewrite IH; reflexivity].
Qed.

Lemma kind_eq_dec (k k' : kind) : {k = k'} + {k <> k'}.
Proof. decide equality. Qed.

Lemma direct_add_record k k' name id o x : direct k' (b_add_record k name id o) x = direct k' o x.
Proof.
  unfold direct, b_add_record. destruct (kind_eq_dec k' k) as [->|Hne].
  - assert (o_records k (set_records k (an_add name id (o_records k o)) o) = an_add name id (o_records k o)) as -> by (destruct k; reflexivity).
    rewrite an_add_find. destruct (an_find x (o_records k o)); [reflexivity|]. destruct (id =? x); reflexivity.
  - assert (o_records k' (set_records k (an_add name id (o_records k o)) o) = o_records k' o) as -> by (destruct k, k'; try reflexivity; congruence).
    reflexivity.
Qed.

Lemma BI_add_record k name id o : BI o -> BI (b_add_record k name id o).
Proof.
  intros [Q Ac So Up Ex Nd]. pose proof (add_record_arena k name id o) as Ea.
  constructor.
  - apply (qgood_arena o _ Q Ea).
  - rewrite Ea. exact Ac.
  - rewrite Ea. exact So.
  - rewrite Ea. exact Up.
  - rewrite Ea. intros k0 t Ht x. rewrite (Ex k0 t Ht x). unfold reach_o. rewrite Ea.
    split; intros [d [Hd Hr]]; exists d; (split; [|exact Hr]); [rewrite direct_add_record; exact Hd|rewrite direct_add_record in Hd; exact Hd].
  - intros k0. unfold b_add_record. destruct (kind_eq_dec k0 k) as [->|Hne].
    + assert (o_records k (set_records k (an_add name id (o_records k o)) o) = an_add name id (o_records k o)) as -> by (destruct k; reflexivity).
      apply an_add_nodup, Nd.
    + assert (o_records k0 (set_records k (an_add name id (o_records k o)) o) = o_records k0 o) as -> by (destruct k, k0; try reflexivity; congruence).
      apply Nd.
Qed.

Lemma annotate_records_k k id name tid o o' : b_annotate k id name tid o = Ok o' ->
  o_records k o' = an_add_term id tid (an_add name id (o_records k o)).
Proof.
  unfold b_annotate. destruct (o_get tid o) as [tt|]; [|discriminate].
  destruct (an_find id (an_add name id (o_records k o))) as [r0|]; [|discriminate].
  destruct (link _ k _ tid id) as [ar| | |]; cbn [bind]; try discriminate. intros [= <-]. destruct k; reflexivity.
Qed.

Lemma BI_annotate k id name tid o o' : BI o -> b_annotate k id name tid o = Ok o' -> BI o'.
Proof.
  intros [Q Ac So Up Ex Nd] H.
  pose proof (annotate_is_link k id name tid o o' H) as Hl.
  destruct (annotate_records k id name tid o o' H) as [Dir [_ Rother]].
  pose proof (annotate_same_struct k id name tid o o' H) as SS. pose proof (same_struct_links _ _ SS) as SL.
  assert (good k (o_arena o)) as Gd by (apply (qgood_good k o Q Ac (So k))).
  destruct (link_spec k id _ (o_arena o) tid (o_arena o') [] Gd (fun y ty (F : In y []) => match F with end) (Up k id) Hl)
    as [Fr [Gd' [Has Up']]].
  assert (qgood o') as Q' by (apply (qgood_same_links o o' Q SL)).
  assert (forall d idx, reach_o o' d idx <-> reach_o o d idx) as Rq.
  { intros d idx. unfold reach_o. rewrite (allp_of_struct _ _ d SS). reflexivity. }
  constructor.
  - exact Q'.
  - apply (ranked_links _ _ SL Ac).
  - intros k0 t' Ht'. destruct (kind_eq_dec k0 k) as [->|Hne]; [apply (g_sorted k _ Gd' t' Ht')|].
    destruct (frame_In_r k _ _ t' Fr Ht') as [t [Ht ->]]. rewrite other_kind_annots by exact Hne. apply (So k0 t Ht).
  - intros k0 g. destruct (kind_eq_dec k0 k) as [->|Hne].
    + destruct (N.eq_dec g id) as [->|Hg]; [exact Up'|].
      apply (link_other_upclosed k id g _ (o_arena o) tid (o_arena o') Hg Gd (Up k id) Hl (Up k g)).
    + apply (upclosed_other_kind k k0 g _ _ Hne Fr (g_nodup k _ Gd) (Up k0 g)).
  - intros k0 t' Ht' x. destruct (frame_In_r k _ _ t' Fr Ht') as [t [Ht Et]].
    assert (t_id t' = t_id t) as Eid by (rewrite Et; apply set_annots_struct).
    destruct (kind_eq_dec k0 k) as [->|Hne].
    + rewrite <- (has_term k _ t' x (g_nodup k _ Gd') Ht'), Has, Eid, (has_term k _ t x (g_nodup k _ Gd) Ht), (Ex k t Ht x).
      split.
      * intros [[d [Hd Hr]]|[-> [_ Hr]]].
        -- exists d. split; [apply Dir; left; exact Hd|apply Rq; exact Hr].
        -- exists tid. split; [apply Dir; right; auto|apply Rq; exact Hr].
      * intros [d [Hd Hr]]. apply Rq in Hr. apply Dir in Hd as [Hd|[-> ->]].
        -- left. exists d. auto.
        -- right. split; [reflexivity|]. split; [unfold ar_keys; apply in_map, Ht|exact Hr].
    + rewrite Et, other_kind_annots by exact Hne. rewrite (Ex k0 t Ht x). rewrite <- Et, Eid.
      assert (forall g, direct k0 o' g = direct k0 o g) as Dk by (intros g; unfold direct; rewrite (Rother k0 Hne); reflexivity).
      split; intros [d [Hd Hr]]; exists d; (split; [|apply Rq; exact Hr]); [rewrite Dk; exact Hd|rewrite Dk in Hd; exact Hd].
  - intros k0. destruct (kind_eq_dec k0 k) as [->|Hne].
    + rewrite (annotate_records_k k id name tid o o' H), an_add_term_ids. apply an_add_nodup, Nd.
    + rewrite (Rother k0 Hne). apply Nd.
Qed.

(* ---------------- from connect_all_terms to the finished ontology ---------------- *)

Lemma BI_after_connect o2 o3 : binv (o_arena o2) -> SP (o_arena o2) -> noannot (o_arena o2) -> norecords o2 ->
  b_connect_all_terms o2 = Ok o3 -> BI o3.
Proof.
  intros B P Na Nr H. pose proof (connect_gives_qgood o2 o3 B P H) as Q.
  unfold b_connect_all_terms in H. destruct (connect_all _ (o_arena o2)) as [a3| | |] eqn:Ec; cbn [bind] in H; try discriminate.
  injection H as <-. destruct (connect_all_acyclic _ _ _ B Ec) as [_ Ac3].
  destruct (connect_all_exact _ _ _ (b_wf _ B) (b_empty _ B) Ec) as [Sm _].
  assert (noannot a3) as Na3.
  { intros t' Ht' k. destruct (same_In_r _ _ t' Sm Ht') as [t [Ht ->]]. rewrite annots_set_allp. apply (Na t Ht). }
  constructor; cbn [o_arena set_arena].
  - exact Q.
  - exact Ac3.
  - intros k t Ht. rewrite (Na3 t Ht k). constructor.
  - intros k g t Ht _ Hg. rewrite (Na3 t Ht k) in Hg. destruct Hg.
  - intros k t Ht x. rewrite (Na3 t Ht k). split; [intros []|]. intros [d [Hd _]]. unfold direct in Hd.
    assert (o_records k (set_arena a3 o2) = []) as E by (rewrite <- (Nr k); destruct k; reflexivity).
    rewrite E in Hd. destruct Hd.
  - intros k. assert (o_records k (set_arena a3 o2) = []) as -> by (rewrite <- (Nr k); destruct k; reflexivity). constructor.
Qed.

Lemma BI_run annots : forall o3 o codes, BI o3 -> run_ops run_annot_op annots o3 = Ok (o, codes) -> BI o.
Proof.
  intros o3 o codes B H. unfold run_ops in H.
  refine (foldM_inv _ (fun st : onto * list N => BI (fst st)) _ _ (o3, []) (o, codes) B H).
  intros [s cs0] [[[tag id] tid] name] [s' cs'] _ Hs Bs. cbn [fst snd] in *. unfold run_annot_op in Hs.
  destruct (tag <? 3).
  - cbn [bind] in Hs. injection Hs as <- _. apply BI_add_record, Bs.
  - destruct (b_annotate (kind_of tag) id name tid s) as [s2|e| |] eqn:Ea; cbn [step_keep bind] in Hs; try discriminate; injection Hs as <- _.
    + apply (BI_annotate _ _ _ _ s s2 Bs Ea).
    + exact Bs.
Qed.

(* the invariant in the form the reload theorem asks for *)
Lemma BI_ann_ok o : BI o -> ann_ok o.
Proof.
  intros [Q Ac So Up Ex Nd]. constructor; [exact So|].
  intros k t Ht x. rewrite (Ex k t Ht x). unfold direct, reach_o. split.
  - intros [d [Hd Hr]]. destruct (an_find x (o_records k o)) as [r|] eqn:Ef; [|destruct Hd].
    unfold an_find in Ef. apply find_by_Some in Ef as [Hin Hid]. exists r. split; [exact Hin|]. split; [exact Hid|].
    exists d. split; [exact Hd|]. destruct Hr as [->|Hr]; auto.
  - intros [r [Hin [Hid [d [Hd Hr]]]]]. exists d. unfold an_find.
    rewrite <- Hid, (find_by_unique a_id _ r (Nd k) Hin). split; [exact Hd|]. destruct Hr as [->|Hr]; [left; reflexivity|right; exact Hr].
Qed.

(* steps after the annotation phase keep everything the invariant talks about *)
Lemma ann_ok_transfer o o' : ann_ok o -> (forall k, o_records k o' = o_records k o) ->
  Forall2 (fun t t' => t_id t' = t_id t /\ t_allp t' = t_allp t /\ forall k, t_annots k t' = t_annots k t) (ar_terms (o_arena o)) (ar_terms (o_arena o')) ->
  ann_ok o'.
Proof.
  intros [So Ex] Hr F.
  assert (forall d, allp_of (o_arena o') d = allp_of (o_arena o) d) as Al.
  { intros d. unfold allp_of, ar_find. apply (allp_of_rel _ _ _ d) with (2 := F). intros t t' (A1 & A2 & _). auto. }
  constructor.
  - intros k t' Ht'. destruct (Forall2_In_r _ _ _ t' F Ht') as [t [Ht (_ & _ & Ea)]]. rewrite Ea. apply (So k t Ht).
  - intros k t' Ht' x. destruct (Forall2_In_r _ _ _ t' F Ht') as [t [Ht (Ei & _ & Ea)]]. rewrite Ea, Ei, (Ex k t Ht x), Hr.
    split; intros [r [Hin [Hid [d [Hd Hreach]]]]]; exists r; (split; [exact Hin|split; [exact Hid|exists d; split; [exact Hd|]]]);
      [rewrite Al|rewrite <- Al]; exact Hreach.
Qed.

Theorem run_script_ann_ok icf s codes o : run_script icf s = Ok (codes, Ok o) -> acyclic (o_arena o) /\ ann_ok o.
Proof.
  destruct s as [[[[ver terms] parents] annots] kindb] eqn:Es. unfold run_script. intros H.
  apply bind_Ok' in H as [[ob cs] [Hb H]].
  destruct (run_builder_stages _ ob cs Hb) as (o2 & o3 & an & c4 & B2 & P2 & _ & N2 & R2 & Hc & Hr).
  pose proof (BI_run an o3 ob c4 (BI_after_connect o2 o3 B2 P2 N2 R2 Hc) Hr) as Bb.
  pose proof (BI_ann_ok ob Bb) as Ab. pose proof (bi_ac ob Bb) as Acb.
  unfold finish in H. destruct (b_calculate_ic icf ob) as [o5| | |] eqn:E5; cbn [bind] in H; try discriminate.
  (* calculate_information_content: only the ic field of every term *)
  assert (Forall2 (fun t t' => t_id t' = t_id t /\ t_allp t' = t_allp t /\ forall k, t_annots k t' = t_annots k t)
                  (ar_terms (o_arena ob)) (ar_terms (o_arena o5)) /\ forall k, o_records k o5 = o_records k ob) as [F5 R5].
  { unfold b_calculate_ic in E5. destruct (mapM (term_ic icf ob) (ar_terms (o_arena ob))) as [ts| | |] eqn:Em; cbn [bind] in E5; try discriminate.
    injection E5 as <-. split; [|intros k; destruct k; reflexivity]. cbn [o_arena set_arena ar_terms]. apply mapM_Ok in Em.
    eapply Forall2_impl_In; [|exact Em]. intros t t' _ _ Ht. unfold term_ic in Ht.
    destruct (icf _ _) as [g| | |]; cbn [bind] in Ht; try discriminate.
    destruct (icf _ _) as [m| | |]; cbn [bind] in Ht; try discriminate.
    destruct (icf _ _) as [r| | |]; cbn [bind] in Ht; try discriminate.
    injection Ht as <-. split; [destruct t; reflexivity|split; [destruct t; reflexivity|intros k; apply annots_set_ic]]. }
  pose proof (ann_ok_transfer ob o5 Ab R5 F5) as A5.
  assert (acyclic (o_arena o5)) as Ac5.
  { apply (ranked_links (o_arena ob) (o_arena o5)); [|exact Acb]. apply same_struct_links, (calculate_ic_same_struct icf ob o5 E5). }
  assert (forall o6, o_arena o6 = o_arena o5 -> (forall k, o_records k o6 = o_records k o5) -> acyclic (o_arena o6) /\ ann_ok o6) as Fin.
  { intros o6 Ea Er. split; [rewrite Ea; exact Ac5|]. apply (ann_ok_transfer o5 o6 A5 Er). rewrite Ea.
    clear. induction (ar_terms (o_arena o5)); constructor; auto. }
  destruct (kindb =? 0).
  - injection H as _ <-. apply Fin; [reflexivity|intros k; destruct k; reflexivity].
  - destruct (b_build_with_defaults o5) as [o6| | |] eqn:E6; try discriminate. injection H as _ <-.
    apply Fin; [apply (build_with_defaults_arena o5 o6 E6)|].
    unfold b_build_with_defaults, set_default_categories, set_default_modifier in E6.
    destruct (o_get ROOT_ID_CAT (b_build_minimal o5)); [|discriminate].
    destruct (o_get PHENOTYPE_ID (b_build_minimal o5)); [|discriminate]. cbn [bind] in E6.
    match type of E6 with context [o_get ROOT_ID ?x] => destruct (o_get ROOT_ID x) end; [|discriminate].
    injection E6 as <-. intros k; destruct k; reflexivity.
Qed.

(* EVERY ONTOLOGY A BUILDER SCRIPT PRODUCES SURVIVES THE BINARY ROUND TRIP in its whole term
   structure and in all annotation sets, provided the format can carry it *)
Theorem builder_ontologies_roundtrip icf icf' s codes o order o'' :
  run_script icf s = Ok (codes, Ok o) ->
  file_ok order o -> (forall l r, In r (order l) <-> In r l) ->
  Binary.decode icf' (Binary.encode_with order o) = Ok o'' ->
  Forall2 term_kept (ar_terms (o_arena o)) (ar_terms (o_arena o'')) /\
  Forall2 (fun t t'' => forall k, t_annots k t'' = t_annots k t) (ar_terms (o_arena o)) (ar_terms (o_arena o'')).
Proof.
  intros Hs F Ho Hd. pose proof (run_script_src_ok icf s codes o Hs) as S.
  destruct (run_script_ann_ok icf s codes o Hs) as [Ac A].
  split; [apply (reload_keeps_terms icf' order o o'' F S Hd)|apply (reload_keeps_annotations icf' order o o'' F S Ac A Ho Hd)].
Qed.

(* ---------------- the direct terms of every record are terms of the ontology ---------------- *)

Definition DK (o : onto) : Prop := forall k g d, In d (direct k o g) -> In d (ar_keys (o_arena o)).

Lemma same_struct_keys a a' : same_struct (ar_terms a) (ar_terms a') -> ar_keys a' = ar_keys a.
Proof. intros S. apply same_links_keys, same_struct_links, S. Qed.

Lemma direct_other_kind k k' id name tid o o' : b_annotate k id name tid o = Ok o' -> k' <> k -> forall g, direct k' o' g = direct k' o g.
Proof. intros H Hne g. destruct (annotate_records k id name tid o o' H) as (_ & _ & R). unfold direct. rewrite (R k' Hne). reflexivity. Qed.

Lemma DK_annotate k id name tid o o' : DK o -> b_annotate k id name tid o = Ok o' -> DK o'.
Proof.
  intros D H k0 g d Hd. rewrite (same_struct_keys _ _ (annotate_same_struct k id name tid o o' H)).
  destruct (kind_eq_dec k0 k) as [->|Hne].
  - destruct (annotate_records k id name tid o o' H) as (Dir & _). apply Dir in Hd as [Hd|[-> ->]]; [apply (D k g d Hd)|].
    unfold b_annotate in H. destruct (o_get tid o) as [t|] eqn:Eg; [|discriminate].
    unfold o_get in Eg. apply (get_Some_key _ _ _ Eg).
  - rewrite (direct_other_kind k k0 id name tid o o' H Hne) in Hd. apply (D k0 g d Hd).
Qed.

Theorem run_script_direct_in_keys icf s codes o : run_script icf s = Ok (codes, Ok o) ->
  forall k r d, In r (o_records k o) -> In d (a_hpos r) -> In d (ar_keys (o_arena o)).
Proof.
  intros Hs. pose proof Hs as Hs0.
  destruct s as [[[[ver terms] parents] annots] kindb] eqn:Es. unfold run_script in Hs.
  apply bind_Ok' in Hs as [[ob cs] [Hb H]].
  destruct (run_builder_stages _ ob cs Hb) as (o2 & o3 & an & c4 & B2 & P2 & _ & N2 & R2 & Hc & Hr).
  pose proof (BI_run an o3 ob c4 (BI_after_connect o2 o3 B2 P2 N2 R2 Hc) Hr) as Bb.
  assert (DK ob) as Db.
  { unfold run_ops in Hr.
    refine (foldM_inv _ (fun st : onto * list N => DK (fst st)) _ _ (o3, []) (ob, c4) _ Hr).
    - intros [s0 cs0] [[[tag id] tid] name] [s' cs'] _ Hstep Ds. cbn [fst snd] in *. unfold run_annot_op in Hstep.
      destruct (tag <? 3).
      + cbn [bind] in Hstep. injection Hstep as <- _. intros k g d Hd. rewrite direct_add_record in Hd. rewrite add_record_arena. apply (Ds k g d Hd).
      + destruct (b_annotate (kind_of tag) id name tid s0) as [s2|e| |] eqn:Ea; cbn [step_keep bind] in Hstep; try discriminate; injection Hstep as <- _.
        * apply (DK_annotate _ _ _ _ s0 s2 Ds Ea).
        * exact Ds.
    - cbn [fst]. intros k g d Hd. unfold direct in Hd.
      unfold b_connect_all_terms in Hc. destruct (connect_all _ (o_arena o2)) as [a3| | |]; cbn [bind] in Hc; try discriminate. injection Hc as <-.
      assert (o_records k (set_arena a3 o2) = []) as E by (rewrite <- (R2 k); destruct k; reflexivity). rewrite E in Hd. destruct Hd. }
  (* finish keeps records and keys *)
  assert (forall k, o_records k o = o_records k ob) as Ro.
  { unfold finish in H. destruct (b_calculate_ic icf ob) as [o5| | |] eqn:E5; cbn [bind] in H; try discriminate.
    destruct (C03W.calculate_ic_spec icf ob o5 E5) as (R5 & _). destruct (kindb =? 0).
    - injection H as _ <-. intros k. rewrite <- R5. destruct k; reflexivity.
    - destruct (b_build_with_defaults o5) as [o6| | |] eqn:E6; try discriminate. injection H as _ <-. intros k. rewrite <- R5.
      unfold b_build_with_defaults, set_default_categories, set_default_modifier in E6.
      destruct (o_get ROOT_ID_CAT (b_build_minimal o5)); [|discriminate].
      destruct (o_get PHENOTYPE_ID (b_build_minimal o5)); [|discriminate]. cbn [bind] in E6.
      match type of E6 with context [o_get ROOT_ID ?x] => destruct (o_get ROOT_ID x) end; [|discriminate].
      injection E6 as <-. destruct k; reflexivity. }
  assert (ar_keys (o_arena o) = ar_keys (o_arena ob)) as Ko.
  { unfold finish in H. destruct (b_calculate_ic icf ob) as [o5| | |] eqn:E5; cbn [bind] in H; try discriminate.
    pose proof (same_struct_keys _ _ (calculate_ic_same_struct icf ob o5 E5)) as K5. destruct (kindb =? 0).
    - injection H as _ <-. exact K5.
    - destruct (b_build_with_defaults o5) as [o6| | |] eqn:E6; try discriminate. injection H as _ <-.
      rewrite (build_with_defaults_arena o5 o6 E6). exact K5. }
  intros k r d Hr' Hd. rewrite Ko. rewrite Ro in Hr'. apply (Db k (a_id r) d). unfold direct, an_find.
  rewrite (find_by_unique a_id _ r (bi_nodup ob Bb k) Hr'). exact Hd.
Qed.
