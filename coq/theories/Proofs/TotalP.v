(* TotalP.v — TOTALITY of the fuelled recursions on acyclic graphs: with a rank function that
   decreases along parent links and stays below the fuel, create_cache_of_grandparents /
   connect_all_terms RETURN (they do not run out of fuel, do not panic).  Together with
   AcyclicP.connect_all_acyclic: connect_all_terms returns exactly on acyclic graphs.  The other
   theorems about connect_all are of the form "whenever it returns ..."; this file shows they are
   not vacuous, for every graph size. *)
From Coq Require Import Lia Relations.
From HpoV Require Import Gen.Consts Model.Base Model.Group Model.Onto Proofs.GroupP Proofs.BaseP Proofs.ClosureP Proofs.AcyclicP.

Section Rank.
  (* a rank that strictly decreases from a term to each of its parents *)
  Variable r : N -> nat.

  Definition ranked_by (a : arena) : Prop := forall c p, parent_rel a c p -> (r p < r c)%nat.

  Lemma ranked_same a a' : same_but_allp a a' -> ranked_by a -> ranked_by a'.
  Proof. intros S R c p H. apply (R c p). apply (same_parent_rel a a' c p S), H. Qed.

  Lemma update_unchecked_ok id f a : id < MAX_HPO_ID -> exists a', ar_update_unchecked id f a = Ok a'.
  Proof.
    intros H. unfold ar_update_unchecked. destruct (N.leb_spec MAX_HPO_ID id); [lia|]. destruct (ar_find id a); eexists; reflexivity.
  Qed.

  Theorem create_cache_total : forall fuel a id, wf_ar a -> Inv a -> ranked_by a -> In id (ar_keys a) -> (r id < fuel)%nat ->
    exists a', create_cache fuel a id = Ok a'.
  Proof.
    induction fuel as [|f IHf]; intros a id W I R Hid Hr; [lia|]. cbn [create_cache].
    destruct (get_unchecked_key a id W Hid) as [t [Eg [Hin Ht]]]. rewrite Eg. cbn [bind].
    (* the fold over the parents *)
    match goal with |- context [foldM ?F (t_parents t) (a, [])] => set (G := F) end.
    assert (forall (ps : list N) (a1 : arena) (acc : list N), wf_ar a1 -> Inv a1 -> ranked_by a1 -> (forall p, In p ps -> In p (ar_keys a1) /\ (r p < f)%nat) ->
              exists res, foldM G ps (a1, acc) = Ok res /\ step a1 (fst res)) as K.
    { induction ps as [|p ps IHp]; intros a1 acc W1 I1 R1 Hps; cbn [foldM]; [eexists; split; [reflexivity|apply step_refl]|].
      destruct (Hps p (or_introl eq_refl)) as [Hpk Hpr].
      destruct (get_unchecked_key a1 p W1 Hpk) as [tp [Egp [Hinp Hidp]]].
      unfold G at 1. rewrite Egp. cbn [bind].
      assert (exists a2, (if parents_cached tp then Ok a1 else create_cache f a1 p) = Ok a2 /\ step a1 a2) as [a2 [E2 S2]].
      { destruct (parents_cached tp); [exists a1; split; [reflexivity|apply step_refl]|].
        destruct (IHf a1 p W1 I1 R1 Hpk Hpr) as [a2 E2]. exists a2. split; [exact E2|].
        apply (create_cache_spec f a1 p a2 W1 I1 Hpk E2). }
      rewrite E2. cbn [bind].
      pose proof (step_same a1 a2 S2) as Sm2. pose proof (same_wf a1 a2 Sm2 W1) as W2.
      pose proof (inv_step a1 a2 I1 S2) as I2. pose proof (same_keys a1 a2 Sm2) as K2.
      assert (In p (ar_keys a2)) as Hp2 by (rewrite K2; exact Hpk).
      destruct (get_unchecked_key a2 p W2 Hp2) as [tp' [Eg' _]]. rewrite Eg'. cbn [bind].
      destruct (IHp a2 (fold_left g_add (t_allp tp') acc) W2 I2 (ranked_same a1 a2 Sm2 R1)) as [res [Er Sr]].
      { intros q Hq. destruct (Hps q (or_intror Hq)) as [Hqk Hqr]. split; [rewrite K2; exact Hqk|exact Hqr]. }
      exists res. split; [exact Er|eapply step_trans; eassumption]. }
    destruct (K (t_parents t) a [] W I R) as [[a' acc] [Ef Sf]].
    { intros p Hp. split; [apply (wf_closed a W t Hin p Hp)|].
      assert (parent_rel a id p) as Hrel by (exists t; auto). pose proof (R id p Hrel). lia. }
    rewrite Ef. cbn [bind]. apply update_unchecked_ok. rewrite <- Ht. apply (wf_range a W t Hin).
  Qed.

  (* connect_all_terms returns on every graph with such a rank below the fuel *)
  Theorem connect_all_total fuel a : wf_ar a -> (forall t, In t (ar_terms a) -> t_allp t = []) -> ranked_by a ->
    (forall id, In id (ar_keys a) -> (r id < fuel)%nat) -> exists a', connect_all fuel a = Ok a'.
  Proof.
    intros W E R Hf. unfold connect_all.
    assert (Inv a) as I by (intros t Hin; left; apply E, Hin).
    assert (forall ids a1, wf_ar a1 -> Inv a1 -> ranked_by a1 -> (forall id, In id ids -> In id (ar_keys a1) /\ (r id < fuel)%nat) ->
              exists a', foldM (fun a id => create_cache fuel a id) ids a1 = Ok a') as K.
    { induction ids as [|id ids IH]; intros a1 W1 I1 R1 Hids; cbn [foldM]; [eexists; reflexivity|].
      destruct (Hids id (or_introl eq_refl)) as [Hk Hr].
      destruct (create_cache_total fuel a1 id W1 I1 R1 Hk Hr) as [a2 E2]. rewrite E2. cbn [bind].
      destruct (create_cache_spec fuel a1 id a2 W1 I1 Hk E2) as [S2 _].
      pose proof (step_same a1 a2 S2) as Sm2.
      apply IH; [apply (same_wf a1 a2 Sm2 W1)|apply (inv_step a1 a2 I1 S2)|apply (ranked_same a1 a2 Sm2 R1)|].
      intros q Hq. destruct (Hids q (or_intror Hq)) as [Hqk Hqr]. split; [rewrite (same_keys a1 a2 Sm2); exact Hqk|exact Hqr]. }
    apply K; try assumption. intros id Hid. split; [exact Hid|apply Hf, Hid].
  Qed.
End Rank.

(* ------------------------------------------------------------------------------------------ *)
(* connect_all_terms returns on EVERY acyclic graph (no rank function given)                    *)
(* ------------------------------------------------------------------------------------------ *)

(* a list of consecutive parent links starting at x *)
Fixpoint plinks (a : arena) (x : N) (l : list N) : Prop :=
  match l with [] => True | y :: t => parent_rel a x y /\ plinks a y t end.

Lemma plinks_same a a' x l : same_but_allp a a' -> plinks a' x l -> plinks a x l.
Proof. intros S. revert x. induction l as [|y l IH]; intros x H; [exact I|]. destruct H as [H1 H2]. split; [apply (same_parent_rel a a' x y S), H1|apply IH, H2]. Qed.

(* running out of fuel exhibits a chain of parent links as long as the fuel; nothing else goes wrong *)
Lemma create_cache_ok_or_chain : forall fuel a id, wf_ar a -> Inv a -> In id (ar_keys a) ->
  (exists a', create_cache fuel a id = Ok a') \/ (create_cache fuel a id = Fuel /\ exists l, length l = fuel /\ plinks a id l).
Proof.
  induction fuel as [|f IHf]; intros a id W I Hid; [right; split; [reflexivity|exists []; split; [reflexivity|exact Logic.I]]|].
  cbn [create_cache]. destruct (get_unchecked_key a id W Hid) as [t [Eg [Hin Ht]]]. rewrite Eg. cbn [bind].
  match goal with |- context [foldM ?F (t_parents t) (a, [])] => set (Gf := F) end.
  assert (forall (ps : list N) (a1 : arena) (acc : list N), wf_ar a1 -> Inv a1 -> same_but_allp a a1 -> (forall p, In p ps -> In p (ar_keys a1) /\ parent_rel a id p) ->
            (exists res, foldM Gf ps (a1, acc) = Ok res /\ step a1 (fst res)) \/
            (foldM Gf ps (a1, acc) = Fuel /\ exists l, length l = S f /\ plinks a id l)) as K.
  { induction ps as [|p ps IHp]; intros a1 acc W1 I1 S1 Hps; cbn [foldM]; [left; eexists; split; [reflexivity|apply step_refl]|].
    destruct (Hps p (or_introl eq_refl)) as [Hpk Hrel].
    destruct (get_unchecked_key a1 p W1 Hpk) as [tp [Egp [Hinp Hidp]]].
    (* one step of the fold: either it yields a step-related arena, or it ran out of fuel along a chain *)
    assert ((exists a2 acc2, Gf (a1, acc) p = Ok (a2, acc2) /\ step a1 a2) \/
            (Gf (a1, acc) p = Fuel /\ exists l, length l = f /\ plinks a1 p l)) as [[a2 [acc2 [Eg2 S2]]]|[Eg2 [l [Hl Hlk]]]].
    { unfold Gf. rewrite Egp. cbn [bind]. destruct (parents_cached tp).
      - cbn [bind]. rewrite Egp. cbn [bind]. left. eexists _, _. split; [reflexivity|apply step_refl].
      - destruct (IHf a1 p W1 I1 Hpk) as [[a2 E2]|[E2 Hc]].
        + rewrite E2. cbn [bind]. destruct (create_cache_spec f a1 p a2 W1 I1 Hpk E2) as [S2 _].
          pose proof (step_same a1 a2 S2) as Sm2. pose proof (same_wf a1 a2 Sm2 W1) as W2.
          assert (In p (ar_keys a2)) as Hp2 by (rewrite (same_keys a1 a2 Sm2); exact Hpk).
          destruct (get_unchecked_key a2 p W2 Hp2) as [tp' [Eg' _]]. rewrite Eg'. cbn [bind].
          left. eexists _, _. split; [reflexivity|exact S2].
        + rewrite E2. cbn [bind]. right. split; [reflexivity|exact Hc]. }
    - rewrite Eg2. cbn [bind].
      pose proof (step_same a1 a2 S2) as Sm2. pose proof (same_wf a1 a2 Sm2 W1) as W2.
      pose proof (inv_step a1 a2 I1 S2) as I2. pose proof (same_keys a1 a2 Sm2) as K2.
      assert (same_but_allp a a2) as S02.
      { destruct S1 as [P1 F1]. destruct Sm2 as [P2 F2]. split; [congruence|].
        clear -F1 F2. revert F2. generalize (ar_terms a2). induction F1 as [|x y l l' Hxy _ IH]; intros l2 F2; inversion F2 as [|? z ? l2' Hyz F2']; subst; constructor; [|apply IH, F2'].
        rewrite Hyz, Hxy. destruct x; reflexivity. }
      destruct (IHp a2 acc2 W2 I2 S02) as [[res [Er Sr]]|[Er Hc]].
      + intros q Hq. destruct (Hps q (or_intror Hq)) as [Hqk Hqr]. split; [rewrite K2; exact Hqk|exact Hqr].
      + left. exists res. split; [exact Er|eapply step_trans; eassumption].
      + right. split; [exact Er|exact Hc].
    - rewrite Eg2. cbn [bind]. right. split; [reflexivity|]. exists (p :: l). split; [cbn [length]; lia|].
      split; [exact Hrel|apply (plinks_same a a1 p l S1 Hlk)]. }
  destruct (K (t_parents t) a [] W I) as [[[a' acc] [Ef Sf]]|[Ef Hc]].
  - apply step_same, step_refl.
  - intros p Hp. split; [apply (wf_closed a W t Hin p Hp)|exists t; auto].
  - left. rewrite Ef. cbn [bind]. apply update_unchecked_ok. rewrite <- Ht. apply (wf_range a W t Hin).
  - right. rewrite Ef. cbn [bind]. split; [reflexivity|exact Hc].
Qed.

(* ---------------- a chain longer than the number of terms closes a cycle (pigeonhole) ---------------- *)

Lemma plinks_prefix a : forall p q x, plinks a x (p ++ q) -> plinks a x p.
Proof. induction p as [|y p IH]; intros q x H; [exact Logic.I|]. destruct H as [H1 H2]. split; [exact H1|apply (IH q y H2)]. Qed.

Lemma plinks_suffix a : forall p y q x, plinks a x (p ++ y :: q) -> plinks a y q.
Proof. induction p as [|z p IH]; intros y q x H; cbn [app plinks] in H; [apply H|]. destruct H as [_ H2]. apply (IH y q z H2). Qed.

Lemma plinks_anc a : forall m c d, plinks a c (m ++ [d]) -> anc a c d.
Proof.
  induction m as [|y m IH]; intros c d H; cbn [app plinks] in H.
  - apply t_step. apply H.
  - destruct H as [H1 H2]. eapply t_trans; [apply t_step; exact H1|apply (IH y d H2)].
Qed.

Lemma plinks_keys a : wf_ar a -> forall l x, plinks a x l -> Forall (fun y => In y (ar_keys a)) l.
Proof.
  intros W. induction l as [|y l IH]; intros x H; [constructor|]. destruct H as [[t [Ht [_ Hp]]] H2].
  constructor; [apply (wf_closed a W t Ht y Hp)|apply (IH y H2)].
Qed.

Lemma dup_split (l : list N) : ~ NoDup l -> exists c l1 l2 l3, l = l1 ++ c :: l2 ++ c :: l3.
Proof.
  induction l as [|x t IH]; intros H; [exfalso; apply H; constructor|].
  destruct (in_dec N.eq_dec x t) as [Hin|Hnin].
  - apply in_split in Hin as [l2 [l3 ->]]. exists x, [], l2, l3. reflexivity.
  - destruct IH as [c [l1 [l2 [l3 ->]]]]; [intros Nd; apply H; constructor; assumption|]. exists c, (x :: l1), l2, l3. reflexivity.
Qed.

Lemma long_chain_cycle a x l : wf_ar a -> In x (ar_keys a) -> plinks a x l -> (length (ar_keys a) <= length l)%nat -> exists c, anc a c c.
Proof.
  intros W Hx Hl Hlen.
  assert (~ NoDup (x :: l)) as Hnd.
  { intros Nd. assert (incl (x :: l) (ar_keys a)) as Hi.
    { intros y [<-|Hy]; [exact Hx|]. pose proof (plinks_keys a W l x Hl) as F. rewrite Forall_forall in F. apply F, Hy. }
    pose proof (NoDup_incl_length Nd Hi) as H. cbn [length] in H. lia. }
  destruct (dup_split (x :: l) Hnd) as [c [l1 [l2 [l3 E]]]]. exists c.
  destruct l1 as [|z l1]; cbn [app] in E; injection E as -> ->.
  - apply (plinks_anc a l2 c c). apply (plinks_prefix a (l2 ++ [c]) l3 c). rewrite <- app_assoc. exact Hl.
  - pose proof (plinks_suffix a l1 c (l2 ++ c :: l3) z Hl) as Hs.
    apply (plinks_anc a l2 c c). apply (plinks_prefix a (l2 ++ [c]) l3 c). rewrite <- app_assoc. exact Hs.
Qed.

(* CONNECT_ALL_TERMS RETURNS ON EVERY ACYCLIC GRAPH: with the fuel the code path uses (one more than the
   number of terms) — running out of fuel would exhibit a chain of parent links longer than the number
   of terms, hence a cycle *)
Theorem connect_all_returns_on_acyclic a : wf_ar a -> (forall t, In t (ar_terms a) -> t_allp t = []) -> acyclic a ->
  exists a', connect_all (default_fuel a) a = Ok a'.
Proof.
  intros W E Ac. unfold connect_all.
  assert (Inv a) as I0 by (intros t Hin; left; apply E, Hin).
  assert (forall ids a1, wf_ar a1 -> Inv a1 -> same_but_allp a a1 -> (forall id, In id ids -> In id (ar_keys a1)) ->
            exists a', foldM (fun a0 id => create_cache (default_fuel a) a0 id) ids a1 = Ok a') as K.
  { induction ids as [|id ids IH]; intros a1 W1 I1 S1 Hids; cbn [foldM]; [eexists; reflexivity|].
    destruct (create_cache_ok_or_chain (default_fuel a) a1 id W1 I1 (Hids id (or_introl eq_refl))) as [[a2 E2]|[_ [l [Hl Hlk]]]].
    - rewrite E2. cbn [bind]. destruct (create_cache_spec _ a1 id a2 W1 I1 (Hids id (or_introl eq_refl)) E2) as [S2 _].
      pose proof (step_same a1 a2 S2) as Sm2.
      apply IH; [apply (same_wf a1 a2 Sm2 W1)|apply (inv_step a1 a2 I1 S2)| |intros q Hq; rewrite (same_keys a1 a2 Sm2); apply Hids; right; exact Hq].
      destruct S1 as [P1 F1]. destruct Sm2 as [P2 F2]. split; [congruence|].
      clear -F1 F2. revert F2. generalize (ar_terms a2). induction F1 as [|x y l0 l' Hxy _ IH]; intros l2 F2; inversion F2 as [|? z ? l2' Hyz F2']; subst; constructor; [|apply IH, F2'].
      rewrite Hyz, Hxy. destruct x; reflexivity.
    - exfalso. destruct (long_chain_cycle a id l W) as [c Hc].
      + rewrite <- (same_keys a a1 S1). apply Hids. left. reflexivity.
      + apply (plinks_same a a1 id l S1 Hlk).
      + rewrite Hl. unfold default_fuel, ar_keys. rewrite map_length. lia.
      + apply (Ac c Hc). }
  apply (K (ar_keys a) a W I0); [apply step_same, step_refl|auto].
Qed.

(* connect_all_terms returns EXACTLY on acyclic graphs *)
Theorem connect_all_returns_iff_acyclic a : binv a -> ((exists a', connect_all (default_fuel a) a = Ok a') <-> acyclic a).
Proof.
  intros B. split.
  - intros [a' H]. apply (connect_all_acyclic _ a a' B H).
  - intros Ac. apply (connect_all_returns_on_acyclic a (b_wf _ B) (b_empty _ B) Ac).
Qed.
