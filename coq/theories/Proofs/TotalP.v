(* TotalP.v — TOTALITY of the fuelled recursions on acyclic graphs: with a rank function that
   decreases along parent links and stays below the fuel, create_cache_of_grandparents /
   connect_all_terms RETURN (they do not run out of fuel, do not panic).  Together with
   AcyclicP.connect_all_acyclic: connect_all_terms returns exactly on acyclic graphs.  The other
   theorems about connect_all are of the form "whenever it returns ..."; this file shows they are
   not vacuous, for every graph size. *)
From Coq Require Import Lia Relations.
From HpoV Require Import Gen.Consts Model.Base Model.Group Model.Onto Proofs.GroupP Proofs.BaseP Proofs.ClosureP Proofs.AcyclicP.

Section Rank.
  (* a rank that strictly decreases from a term to each of its parents *)
  Variable r : N -> nat.

  Definition ranked_by (a : arena) : Prop := forall c p, parent_rel a c p -> (r p < r c)%nat.

  Lemma ranked_same a a' : same_but_allp a a' -> ranked_by a -> ranked_by a'.
  Proof. intros S R c p H. apply (R c p). apply (same_parent_rel a a' c p S), H. Qed.

  Lemma update_unchecked_ok id f a : id < MAX_HPO_ID -> exists a', ar_update_unchecked id f a = Ok a'.
  Proof.
    intros H. unfold ar_update_unchecked. destruct (N.leb_spec MAX_HPO_ID id); [lia|]. destruct (ar_find id a); eexists; reflexivity.
  Qed.

  Theorem create_cache_total : forall fuel a id, wf_ar a -> Inv a -> ranked_by a -> In id (ar_keys a) -> (r id < fuel)%nat ->
    exists a', create_cache fuel a id = Ok a'.
  Proof.
    induction fuel as [|f IHf]; intros a id W I R Hid Hr; [lia|]. cbn [create_cache].
    destruct (get_unchecked_key a id W Hid) as [t [Eg [Hin Ht]]]. rewrite Eg. cbn [bind].
    (* the fold over the parents *)
    match goal with |- context [foldM ?F (t_parents t) (a, [])] => set (G := F) end.
    assert (forall (ps : list N) (a1 : arena) (acc : list N), wf_ar a1 -> Inv a1 -> ranked_by a1 -> (forall p, In p ps -> In p (ar_keys a1) /\ (r p < f)%nat) ->
              exists res, foldM G ps (a1, acc) = Ok res /\ step a1 (fst res)) as K.
    { induction ps as [|p ps IHp]; intros a1 acc W1 I1 R1 Hps; cbn [foldM]; [eexists; split; [reflexivity|apply step_refl]|].
      destruct (Hps p (or_introl eq_refl)) as [Hpk Hpr].
      destruct (get_unchecked_key a1 p W1 Hpk) as [tp [Egp [Hinp Hidp]]].
      unfold G at 1. rewrite Egp. cbn [bind].
      assert (exists a2, (if parents_cached tp then Ok a1 else create_cache f a1 p) = Ok a2 /\ step a1 a2) as [a2 [E2 S2]].
      { destruct (parents_cached tp); [exists a1; split; [reflexivity|apply step_refl]|].
        destruct (IHf a1 p W1 I1 R1 Hpk Hpr) as [a2 E2]. exists a2. split; [exact E2|].
        apply (create_cache_spec f a1 p a2 W1 I1 Hpk E2). }
      rewrite E2. cbn [bind].
      pose proof (step_same a1 a2 S2) as Sm2. pose proof (same_wf a1 a2 Sm2 W1) as W2.
      pose proof (inv_step a1 a2 I1 S2) as I2. pose proof (same_keys a1 a2 Sm2) as K2.
      assert (In p (ar_keys a2)) as Hp2 by (rewrite K2; exact Hpk).
      destruct (get_unchecked_key a2 p W2 Hp2) as [tp' [Eg' _]]. rewrite Eg'. cbn [bind].
      destruct (IHp a2 (fold_left g_add (t_allp tp') acc) W2 I2 (ranked_same a1 a2 Sm2 R1)) as [res [Er Sr]].
      { intros q Hq. destruct (Hps q (or_intror Hq)) as [Hqk Hqr]. split; [rewrite K2; exact Hqk|exact Hqr]. }
      exists res. split; [exact Er|eapply step_trans; eassumption]. }
    destruct (K (t_parents t) a [] W I R) as [[a' acc] [Ef Sf]].
    { intros p Hp. split; [apply (wf_closed a W t Hin p Hp)|].
      assert (parent_rel a id p) as Hrel by (exists t; auto). pose proof (R id p Hrel). lia. }
    rewrite Ef. cbn [bind]. apply update_unchecked_ok. rewrite <- Ht. apply (wf_range a W t Hin).
  Qed.

  (* connect_all_terms returns on every graph with such a rank below the fuel *)
  Theorem connect_all_total fuel a : wf_ar a -> (forall t, In t (ar_terms a) -> t_allp t = []) -> ranked_by a ->
    (forall id, In id (ar_keys a) -> (r id < fuel)%nat) -> exists a', connect_all fuel a = Ok a'.
  Proof.
    intros W E R Hf. unfold connect_all.
    assert (Inv a) as I by (intros t Hin; left; apply E, Hin).
    assert (forall ids a1, wf_ar a1 -> Inv a1 -> ranked_by a1 -> (forall id, In id ids -> In id (ar_keys a1) /\ (r id < fuel)%nat) ->
              exists a', foldM (fun a id => create_cache fuel a id) ids a1 = Ok a') as K.
    { induction ids as [|id ids IH]; intros a1 W1 I1 R1 Hids; cbn [foldM]; [eexists; reflexivity|].
      destruct (Hids id (or_introl eq_refl)) as [Hk Hr].
      destruct (create_cache_total fuel a1 id W1 I1 R1 Hk Hr) as [a2 E2]. rewrite E2. cbn [bind].
      destruct (create_cache_spec fuel a1 id a2 W1 I1 Hk E2) as [S2 _].
      pose proof (step_same a1 a2 S2) as Sm2.
      apply IH; [apply (same_wf a1 a2 Sm2 W1)|apply (inv_step a1 a2 I1 S2)|apply (ranked_same a1 a2 Sm2 R1)|].
      intros q Hq. destruct (Hids q (or_intror Hq)) as [Hqk Hqr]. split; [rewrite (same_keys a1 a2 Sm2); exact Hqk|exact Hqr]. }
    apply K; try assumption. intros id Hid. split; [exact Hid|apply Hf, Hid].
  Qed.
End Rank.
