(* DecodeGP.v — the evaluation-friendly reader of the parent section (Model/Binary.v read_parents_g,
   decode_g) is the transcription itself: the bounds test it puts in front of the parent loop only
   anticipates the panic the loop would end in. *)
From Coq Require Import Lia.
From HpoV Require Import Gen.Consts Model.Base Model.Group Model.Onto Model.Binary Proofs.BaseP Proofs.DistP.

Lemma idx_out b i : Nlen b <= i -> idx b i = Panic.
Proof.
  intros H. unfold idx. assert (nth_error b (nat_of i) = None) as ->; [|reflexivity].
  apply nth_error_None. unfold nat_of, Nlen in *. lia.
Qed.

Lemma u32_at_out b i : Nlen b < i + 4 -> u32_at b i = Panic.
Proof.
  intros H. unfold u32_at.
  destruct (idx b i) as [x0| | |] eqn:E0; cbn [bind]; try reflexivity; [|unfold idx in E0; destruct (nth_error b (nat_of i)); discriminate..].
  destruct (idx b (i + 1)) as [x1| | |] eqn:E1; cbn [bind]; try reflexivity; [|unfold idx in E1; destruct (nth_error b (nat_of (i + 1))); discriminate..].
  destruct (idx b (i + 2)) as [x2| | |] eqn:E2; cbn [bind]; try reflexivity; [|unfold idx in E2; destruct (nth_error b (nat_of (i + 2))); discriminate..].
  rewrite (idx_out b (i + 3)) by lia. reflexivity.
Qed.

(* more parents announced than the rest of the bytes can hold: the loop panics *)
Lemma read_parent_ids_overrun n : forall b i term a, i <= Nlen b -> Nlen b < i + 4 * N.of_nat n -> read_parent_ids n b i term a = Panic.
Proof.
  induction n as [|n IH]; intros b i term a Hi H; [lia|]. cbn [read_parent_ids].
  destruct (N.ltb_spec (Nlen b) (i + 4)) as [Hs|Hs]; [rewrite (u32_at_out b i Hs); reflexivity|].
  destruct (u32_at b i) as [p| | |] eqn:Ep; cbn [bind]; try reflexivity.
  - unfold b_add_parent_unchecked, ar_update_unchecked.
    destruct (MAX_HPO_ID <=? p); cbn [bind]; [reflexivity|].
    destruct (ar_find p a); cbn [bind]; destruct (MAX_HPO_ID <=? term); cbn [bind]; try reflexivity;
      match goal with |- context [ar_find term ?A] => destruct (ar_find term A) end; cbn [bind]; apply IH; lia.
  - unfold u32_at in Ep. exfalso.
    destruct (idx b i) as [x0| | |] eqn:E0; cbn [bind] in Ep; try (unfold idx in E0; destruct (nth_error b (nat_of i)); discriminate).
    destruct (idx b (i + 1)) as [x1| | |] eqn:E1; cbn [bind] in Ep; try (unfold idx in E1; destruct (nth_error b (nat_of (i + 1))); discriminate).
    destruct (idx b (i + 2)) as [x2| | |] eqn:E2; cbn [bind] in Ep; try (unfold idx in E2; destruct (nth_error b (nat_of (i + 2))); discriminate).
    destruct (idx b (i + 3)) as [x3| | |] eqn:E3; cbn [bind] in Ep; try (unfold idx in E3; destruct (nth_error b (nat_of (i + 3))); discriminate).
  - unfold u32_at in Ep. exfalso.
    destruct (idx b i) as [x0| | |] eqn:E0; cbn [bind] in Ep; try (unfold idx in E0; destruct (nth_error b (nat_of i)); discriminate).
    destruct (idx b (i + 1)) as [x1| | |] eqn:E1; cbn [bind] in Ep; try (unfold idx in E1; destruct (nth_error b (nat_of (i + 1))); discriminate).
    destruct (idx b (i + 2)) as [x2| | |] eqn:E2; cbn [bind] in Ep; try (unfold idx in E2; destruct (nth_error b (nat_of (i + 2))); discriminate).
    destruct (idx b (i + 3)) as [x3| | |] eqn:E3; cbn [bind] in Ep; try (unfold idx in E3; destruct (nth_error b (nat_of (i + 3))); discriminate).
Qed.

Theorem read_parents_g_eq f : forall b i a, read_parents_g f b i a = read_parents f b i a.
Proof.
  induction f as [|f IH]; intros b i a; [reflexivity|]. cbn [read_parents_g read_parents].
  destruct (i =? Nlen b); [reflexivity|].
  destruct (u32_from b i) as [np| | |]; cbn [bind]; try reflexivity.
  destruct (u32_at b (i + 4)) as [term| | |] eqn:Et; cbn [bind]; try reflexivity.
  destruct (N.ltb_spec (Nlen b) (i + 8 + 4 * np)) as [Hover|_].
  - assert (i + 8 <= Nlen b) as Hin.
    { destruct (N.le_gt_cases (i + 8) (Nlen b)) as [Hle|Hgt]; [exact Hle|].
      rewrite (u32_at_out b (i + 4)) in Et by lia. discriminate. }
    rewrite (read_parent_ids_overrun (nat_of np) b (i + 8) term a Hin); [reflexivity|].
    unfold nat_of. rewrite N2Nat.id. exact Hover.
  - destruct (read_parent_ids (nat_of np) b (i + 8) term a) as [[a' i']| | |]; cbn [bind]; try reflexivity. apply IH.
Qed.

(* decode_with only applies its parameter: pointwise equal readers give equal decoders *)
Lemma decode_with_ext rp rp' icf input : (forall f b i a, rp f b i a = rp' f b i a) ->
  decode_with rp icf input = decode_with rp' icf input.
Proof.
  intros E. unfold decode_with.
  destruct (bin_version input) as [[b v]| | |]; cbn [bind]; try reflexivity.
  match goal with |- context [bind ?X _] => destruct X as [[ver off]| | |] end; cbn [bind]; try reflexivity.
  destruct (u32_from b off) as [l1| | |]; cbn [bind]; try reflexivity.
  destruct (slice b (off + 4) (off + 4 + l1)) as [st| | |]; cbn [bind]; try reflexivity.
  destruct (read_terms (S (length b)) v st (o_arena (set_version ver onto_new))) as [a1| | |]; cbn [bind]; try reflexivity.
  destruct (u32_from b (off + l1 + 4)) as [l2| | |]; cbn [bind]; try reflexivity.
  destruct (slice b (off + l1 + 4 + 4) (off + 4 + l1 + 4 + l2)) as [sp| | |]; cbn [bind]; try reflexivity.
  rewrite E. reflexivity.
Qed.

(* THE GUARDED EVALUATOR IS THE TRANSCRIPTION *)
Theorem decode_g_eq icf input : decode_g icf input = decode icf input.
Proof. unfold decode_g, decode. apply decode_with_ext. intros f b i a. apply read_parents_g_eq. Qed.
