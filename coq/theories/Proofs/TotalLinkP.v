(* TotalLinkP.v — TOTALITY of the upward propagation (Model/Onto.v [link], builder.rs link_*_term): in an
   arena whose ancestor caches are transitive, irreflexive and duplicate-free, linking an annotation
   to a stored term RETURNS with the fuel the code path uses (link_fuel): the recursion only ever
   moves to terms with strictly smaller ancestor caches. *)
From Coq Require Import Lia Relations.
From HpoV Require Import Gen.Consts Model.Base Model.Group Model.Onto Proofs.GroupP Proofs.BaseP Proofs.ClosureP Proofs.LinkP
  Proofs.RoundTripP Proofs.AnnotP.

Section K.
  Variable k : kind.
  Variable g : N.

  Notation good := (good k).
  Notation frame := (frame k).

  (* whenever link returns, only annotation sets of kind k changed and the arena is still good *)
  Lemma link_frame fuel : forall a tid a', good a -> link fuel k a tid g = Ok a' -> frame a a' /\ good a'.
  Proof.
    induction fuel as [|f IH]; intros a tid a' G H; [discriminate|]. cbn [link] in H.
    destruct (ar_get tid a) as [t|] eqn:Eg; [|discriminate].
    destruct (good_get k a tid t G Eg) as [Hin Hid].
    destruct (g_insert g (t_annots k t)) as [set' isnew] eqn:Ei.
    destruct isnew; [|injection H as <-; split; [apply frame_refl|exact G]].
    assert (set' = fst (g_insert g (t_annots k t))) as Es by (rewrite Ei; reflexivity).
    rewrite Es, <- Hid in H. destruct (insert_one k g a t G Hin) as [Fr0 [G0 _]]. cbn zeta in Fr0, G0.
    set (a0 := ar_update (t_id t) (set_annots k (fst (g_insert g (t_annots k t)))) a) in *.
    assert (forall ps a1 a2, good a1 -> foldM (fun a1 p => link f k a1 p g) ps a1 = Ok a2 -> frame a1 a2 /\ good a2) as Loop.
    { induction ps as [|p ps IHps]; intros a1 a2 G1 Hf; cbn [foldM] in Hf; [injection Hf as <-; split; [apply frame_refl|exact G1]|].
      destruct (link f k a1 p g) as [a1'| | |] eqn:El; cbn [bind] in Hf; try discriminate.
      destruct (IH a1 p a1' G1 El) as [Fr1 G1']. destruct (IHps a1' a2 G1' Hf) as [Fr2 G2].
      split; [eapply frame_trans; eassumption|exact G2]. }
    destruct (Loop (t_allp t) a0 a' G0 H) as [Fr G']. split; [eapply frame_trans; eassumption|exact G'].
  Qed.

  Lemma frame_allp_of a a' id : frame a a' -> allp_of a' id = allp_of a id.
  Proof. intros Fr. apply allp_of_struct, (frame_same_struct k a a' Fr). Qed.

  Definition caches_nodup (a : arena) : Prop := forall t, In t (ar_terms a) -> NoDup (t_allp t).

  Lemma frame_caches_nodup a a' : frame a a' -> caches_nodup a -> caches_nodup a'.
  Proof.
    intros Fr C t' Ht'. destruct (frame_In_r k a a' t' Fr Ht') as [t [Ht E]]. rewrite E.
    destruct (set_annots_fields k (t_annots k t') t) as [_ [-> _]]. apply (C t Ht).
  Qed.

  Theorem link_total : forall fuel a tid, good a -> caches_nodup a -> In tid (ar_keys a) ->
    (length (allp_of a tid) < fuel)%nat -> exists a', link fuel k a tid g = Ok a'.
  Proof.
    induction fuel as [|f IH]; intros a tid G C Hk Hr; [lia|]. cbn [link].
    unfold ar_keys in Hk. apply in_map_iff in Hk as [t [Hid Hin]].
    rewrite <- Hid. rewrite (good_get_of k a t G Hin).
    destruct (g_insert g (t_annots k t)) as [set' isnew] eqn:Ei. destruct isnew; [|eexists; reflexivity].
    assert (set' = fst (g_insert g (t_annots k t))) as -> by (rewrite Ei; reflexivity).
    destruct (insert_one k g a t G Hin) as [Fr0 [G0 _]]. cbn zeta in Fr0, G0.
    set (a0 := ar_update (t_id t) (set_annots k (fst (g_insert g (t_annots k t)))) a) in *.
    assert (allp_of a tid = t_allp t) as Eal by (unfold allp_of; rewrite <- Hid, (good_find k a t G Hin); reflexivity).
    rewrite Eal in Hr.
    assert (forall ps a1, good a1 -> frame a a1 -> incl ps (t_allp t) -> exists a2, foldM (fun a1 p => link f k a1 p g) ps a1 = Ok a2) as Loop.
    { induction ps as [|p ps IHps]; intros a1 G1 Fr1 Hincl; cbn [foldM]; [eexists; reflexivity|].
      assert (In p (t_allp t)) as Hp by (apply Hincl; left; reflexivity).
      destruct (g_trans k a G t Hin p Hp) as [tp [Htp [Hidp Hinc]]].
      assert (length (allp_of a1 p) < f)%nat as Hrp.
      { rewrite (frame_allp_of a a1 p Fr1). unfold allp_of. rewrite <- Hidp, (good_find k a tp G Htp).
        assert (length (t_allp tp) < length (t_allp t))%nat; [|lia].
        assert (incl (t_id tp :: t_allp tp) (t_allp t)) as Hi2 by (intros x [<-|Hx]; [rewrite Hidp; exact Hp|apply Hinc, Hx]).
        assert (NoDup (t_id tp :: t_allp tp)) as Nd2 by (constructor; [apply (g_irr k a G tp Htp)|apply (C tp Htp)]).
        pose proof (NoDup_incl_length Nd2 Hi2) as Hl. cbn [length] in Hl. lia. }
      assert (In p (ar_keys a1)) as Hpk by (rewrite (frame_keys k a a1 Fr1); unfold ar_keys; rewrite <- Hidp; apply in_map, Htp).
      destruct (IH a1 p G1 (frame_caches_nodup a a1 Fr1 C) Hpk Hrp) as [a1' El]. rewrite El. cbn [bind].
      destruct (link_frame f a1 p a1' G1 El) as [Fr2 G2].
      apply (IHps a1' G2 (frame_trans k _ _ _ Fr1 Fr2)). intros q Hq. apply Hincl. right. exact Hq. }
    apply (Loop (t_allp t) a0 G0 Fr0). intros x Hx. exact Hx.
  Qed.
End K.
