(* GroupP.v — HpoGroup operations preserve strict ascending order and refine
   the finite-set operations (C12). *)
From Coq Require Import Sorted Lia.
From HpoV Require Import Model.Base Model.Group.

Definition sorted (l : list N) : Prop := StronglySorted N.lt l.

Lemma sorted_nil : sorted []. Proof. constructor. Qed.

Lemma sorted_cons_inv x l : sorted (x :: l) -> sorted l /\ Forall (N.lt x) l.
Proof. intros H; inversion H; auto. Qed.

Lemma sorted_cons x l : sorted l -> Forall (N.lt x) l -> sorted (x :: l).
Proof. intros; constructor; auto. Qed.

Lemma mem_In x l : mem x l = true <-> In x l.
Proof.
  induction l as [|y t IH]; cbn [mem In]; [split; [discriminate|tauto]|].
  destruct (N.eqb_spec x y) as [->|Hne]; [tauto|].
  rewrite IH. split; [tauto|]. intros [Heq|Hin]; [congruence|exact Hin].
Qed.

Lemma sorted_NoDup l : sorted l -> NoDup l.
Proof.
  induction l as [|x t IH]; intros H; [constructor|].
  apply sorted_cons_inv in H as [Ht Hx]. constructor; [|auto].
  intros Hin. rewrite Forall_forall in Hx. specialize (Hx _ Hin). lia.
Qed.

(* two strictly ascending lists with the same members are equal *)
Lemma sorted_ext a : forall b, sorted a -> sorted b ->
  (forall x, In x a <-> In x b) -> a = b.
Proof.
  induction a as [|x a IH]; intros [|y b] Ha Hb Hext.
  - reflexivity.
  - exfalso. apply (proj2 (Hext y)). left; reflexivity.
  - exfalso. apply (proj1 (Hext x)). left; reflexivity.
  - apply sorted_cons_inv in Ha as [Ha Hxa]. apply sorted_cons_inv in Hb as [Hb Hyb].
    rewrite Forall_forall in Hxa, Hyb.
    assert (x = y) as ->.
    { destruct (proj1 (Hext x) (or_introl eq_refl)) as [->|Hin]; [reflexivity|].
      destruct (proj2 (Hext y) (or_introl eq_refl)) as [->|Hin']; [reflexivity|].
      specialize (Hyb _ Hin). specialize (Hxa _ Hin'). lia. }
    f_equal. apply IH; auto. intros z. split; intros Hz.
    + destruct (proj1 (Hext z) (or_intror Hz)) as [<-|]; [|assumption].
      specialize (Hxa _ Hz). lia.
    + destruct (proj2 (Hext z) (or_intror Hz)) as [<-|]; [|assumption].
      specialize (Hyb _ Hz). lia.
Qed.

(* ---------------- insert ---------------- *)

Lemma g_insert_In x l z : In z (fst (g_insert x l)) <-> z = x \/ In z l.
Proof.
  induction l as [|y t IH]; cbn [g_insert].
  - cbn. intuition.
  - destruct (N.ltb_spec x y); [cbn; intuition|].
    destruct (N.eqb_spec x y) as [->|Hne]; [cbn; intuition|].
    destruct (g_insert x t) as [t' b] eqn:E. cbn [fst In] in *. rewrite IH. intuition.
Qed.

Lemma g_insert_sorted x l : sorted l -> sorted (fst (g_insert x l)).
Proof.
  induction l as [|y t IH]; cbn [g_insert]; intros Hs.
  - cbn. apply sorted_cons; [constructor|constructor].
  - apply sorted_cons_inv in Hs as [Ht Hy].
    destruct (N.ltb_spec x y) as [Hlt|Hge]; cbn [fst].
    + apply sorted_cons; [apply sorted_cons; auto|].
      constructor; [exact Hlt|]. eapply Forall_impl; [|exact Hy]. cbn. intros; lia.
    + destruct (N.eqb_spec x y) as [->|Hne]; cbn [fst]; [apply sorted_cons; auto|].
      pose proof (g_insert_In x t) as HIn.
      destruct (g_insert x t) as [t' b] eqn:E. cbn [fst] in *.
      apply sorted_cons; [auto|]. rewrite Forall_forall in *. intros z Hz.
      apply HIn in Hz as [->|Hz]; [lia|auto].
Qed.

(* the flag says whether the id was new *)
Lemma g_insert_flag x l : sorted l -> snd (g_insert x l) = negb (mem x l).
Proof.
  induction l as [|y t IH]; cbn [g_insert mem]; intros Hs; [reflexivity|].
  apply sorted_cons_inv in Hs as [Ht Hy].
  destruct (N.ltb_spec x y) as [Hlt|Hge]; cbn [snd].
  - destruct (N.eqb_spec x y); [lia|].
    symmetry. apply negb_true_iff. apply not_true_is_false. rewrite mem_In.
    intros Hin. rewrite Forall_forall in Hy. specialize (Hy _ Hin). lia.
  - destruct (N.eqb_spec x y); [reflexivity|].
    destruct (g_insert x t) as [t' b] eqn:E. cbn [snd] in *. auto.
Qed.

(* inserting a present id changes nothing; the length grows by one otherwise *)
Lemma g_insert_present x l : sorted l -> mem x l = true -> fst (g_insert x l) = l.
Proof.
  intros Hs Hm. apply sorted_ext; [apply g_insert_sorted; auto|auto|].
  intros z. rewrite g_insert_In. rewrite mem_In in Hm. intuition (subst; auto).
Qed.

Lemma g_insert_length x l :
  length (fst (g_insert x l)) = if snd (g_insert x l) then S (length l) else length l.
Proof.
  induction l as [|y t IH]; cbn [g_insert]; [reflexivity|].
  destruct (x <? y); [reflexivity|]. destruct (x =? y); [reflexivity|].
  destruct (g_insert x t) as [t' b]. cbn [fst snd length] in *. destruct b; lia.
Qed.

Lemma g_add_In l x z : In z (g_add l x) <-> z = x \/ In z l.
Proof. apply g_insert_In. Qed.
Lemma g_add_sorted l x : sorted l -> sorted (g_add l x).
Proof. apply g_insert_sorted. Qed.

(* ---------------- contains ---------------- *)

Lemma g_contains_spec x l : sorted l -> (g_contains x l = true <-> In x l).
Proof.
  induction l as [|y t IH]; cbn [g_contains In]; intros Hs; [split; [discriminate|tauto]|].
  apply sorted_cons_inv in Hs as [Ht Hy].
  destruct (N.eqb_spec x y) as [->|Hne]; [tauto|].
  destruct (N.ltb_spec x y) as [Hlt|Hge].
  - split; [discriminate|]. intros [Heq|Hin]; [congruence|].
    rewrite Forall_forall in Hy. specialize (Hy _ Hin). lia.
  - rewrite IH by auto. split; [tauto|]. intros [Heq|Hin]; [congruence|auto].
Qed.

(* ---------------- constructors ---------------- *)

Lemma g_from_list_gen l : forall acc, sorted acc ->
  sorted (fold_left g_add l acc) /\
  forall z, In z (fold_left g_add l acc) <-> In z l \/ In z acc.
Proof.
  induction l as [|x t IH]; cbn [fold_left]; intros acc Hs.
  - split; [auto|]. cbn. tauto.
  - destruct (IH (g_add acc x) (g_add_sorted _ _ Hs)) as [H1 H2]. split; [auto|].
    intros z. rewrite H2, g_add_In. cbn. intuition.
Qed.

Lemma g_from_list_sorted l : sorted (g_from_list l).
Proof. apply (g_from_list_gen l [] sorted_nil). Qed.
Lemma g_from_list_In l z : In z (g_from_list l) <-> In z l.
Proof. unfold g_from_list. rewrite (proj2 (g_from_list_gen l [] sorted_nil)). cbn. tauto. Qed.

(* ---------------- union ---------------- *)

Lemma g_union_nil_r a : g_union a [] = a.
Proof. destruct a; reflexivity. Qed.

Lemma g_union_cons_eq x a y b :
  g_union (x :: a) (y :: b) =
    if x <? y then x :: g_union a (y :: b)
    else if y <? x then y :: g_union (x :: a) b
    else x :: g_union a b.
Proof. reflexivity. Qed.

Lemma g_union_In a : forall b z, In z (g_union a b) <-> In z a \/ In z b.
Proof.
  induction a as [|x a IHa]; intros b z; [cbn; destruct b; cbn; tauto|].
  induction b as [|y b IHb]; [cbn; tauto|].
  rewrite g_union_cons_eq.
  destruct (N.ltb_spec x y) as [Hxy|Hxy].
  - cbn [In]. rewrite IHa. cbn [In]. tauto.
  - destruct (N.ltb_spec y x) as [Hyx|Hyx].
    + cbn [In]. rewrite IHb. cbn [In]. tauto.
    + assert (x = y) as -> by lia. cbn [In]. rewrite IHa. tauto.
Qed.

Lemma g_union_sorted a : forall b, sorted a -> sorted b -> sorted (g_union a b).
Proof.
  induction a as [|x a IHa]; intros b Ha Hb; [destruct b; exact Hb|].
  induction b as [|y b IHb]; [exact Ha|].
  rewrite g_union_cons_eq.
  pose proof (sorted_cons_inv _ _ Ha) as [Ha' Hxa].
  pose proof (sorted_cons_inv _ _ Hb) as [Hb' Hyb].
  rewrite Forall_forall in Hxa, Hyb.
  destruct (N.ltb_spec x y) as [Hxy|Hxy].
  - apply sorted_cons; [apply IHa; auto|]. rewrite Forall_forall. intros z Hz.
    apply g_union_In in Hz as [Hz|[<-|Hz]]; [auto|lia|]. specialize (Hyb _ Hz). lia.
  - destruct (N.ltb_spec y x) as [Hyx|Hyx].
    + apply sorted_cons; [apply IHb; auto|]. rewrite Forall_forall. intros z Hz.
      apply g_union_In in Hz as [[<-|Hz]|Hz]; [lia| |auto]. specialize (Hxa _ Hz). lia.
    + assert (x = y) as -> by lia.
      apply sorted_cons; [apply IHa; auto|]. rewrite Forall_forall. intros z Hz.
      apply g_union_In in Hz as [Hz|Hz]; auto.
Qed.

Lemma g_union_comm a b : sorted a -> sorted b -> g_union a b = g_union b a.
Proof.
  intros Ha Hb. apply sorted_ext; try apply g_union_sorted; auto.
  intros z. rewrite !g_union_In. tauto.
Qed.

(* ---------------- intersection ---------------- *)

Lemma g_inter_In a b z : In z (g_inter a b) <-> In z a /\ In z b.
Proof.
  unfold g_inter. destruct (Nlen b <? Nlen a); rewrite filter_In, mem_In; tauto.
Qed.

Lemma filter_sorted (f : N -> bool) l : sorted l -> sorted (filter f l).
Proof.
  induction l as [|x t IH]; intros Hs; [constructor|].
  apply sorted_cons_inv in Hs as [Ht Hx]. cbn [filter]. destruct (f x); [|auto].
  apply sorted_cons; [auto|]. rewrite Forall_forall in *. intros z Hz.
  apply filter_In in Hz as [Hz _]. auto.
Qed.

Lemma g_inter_sorted a b : sorted a -> sorted b -> sorted (g_inter a b).
Proof.
  intros Ha Hb. unfold g_inter. destruct (Nlen b <? Nlen a); apply filter_sorted; auto.
Qed.

Lemma g_inter_comm a b : sorted a -> sorted b -> g_inter a b = g_inter b a.
Proof.
  intros Ha Hb. apply sorted_ext; try apply g_inter_sorted; auto.
  intros z. rewrite !g_inter_In. tauto.
Qed.

(* ---------------- length and index ---------------- *)

Lemma sorted_nth_lt l : sorted l -> forall i j x y, (i < j)%nat ->
  nth_error l i = Some x -> nth_error l j = Some y -> x < y.
Proof.
  induction l as [|h t IH]; intros Hs i j x y Hij Hi Hj; [destruct i; discriminate|].
  apply sorted_cons_inv in Hs as [Ht Hh]. destruct j as [|j]; [lia|].
  destruct i as [|i]; cbn in Hi, Hj.
  - injection Hi as <-. rewrite Forall_forall in Hh. apply Hh. eapply nth_error_In; eauto.
  - apply (IH Ht i j x y); [lia|exact Hi|exact Hj].
Qed.
