(* JaxP.v — ontologies loaded from the JAX text files (Ontology::from_standard /
   from_standard_transitive, Model/Text.v load_jax): whenever the load succeeds and every is_a
   target of hp.obo has its own [Term] stanza, the result satisfies the same statements as a
   Builder-built ontology: exact ancestor caches, acyclic, annotations = inherited direct facts,
   information content = calculate(N, n). *)
From Coq Require Import Lia Relations Sorted.
From HpoV Require Import Gen.Consts Model.Base Model.Group Model.Onto Model.Query Model.Binary Model.TermId Model.Text Model.Script
  Proofs.GroupP Proofs.BaseP Proofs.ClosureP Proofs.AcyclicP Proofs.DistP Proofs.QgoodP Proofs.LinkP Proofs.RecordsP Proofs.C03W
  Proofs.SectionP Proofs.RoundTripP Proofs.AnnotP Proofs.BuilderAnnotP Proofs.SubLinksP Proofs.ReloadP Proofs.C09P.

(* the first pass over hp.obo: terms and collected (child, parent) links *)
Definition obo_scan (content : bytes) : res (onto * list (N * N)) :=
  read_obo_chunks (split_blank content []) (onto_new, []).

Lemma read_obo_unfold content : read_obo content onto_new =
  do r <- obo_scan content ;;
  let (o1, conns) := r : onto * list (N * N) in
  do a <- foldM (fun a (cp : N * N) => b_add_parent_unchecked (snd cp) (fst cp) a) conns (o_arena o1) ;;
  Ok (set_arena a o1).
Proof. reflexivity. Qed.

Lemma term_from_obo_blank s raw : term_from_obo s = Ok (Some raw) ->
  t_parents raw = [] /\ t_children raw = [] /\ t_allp raw = [] /\ forall k, t_annots k raw = [].
Proof.
  unfold term_from_obo. destruct (term_fields (lines s)) as [[[[id name] obs] repl]| | |]; cbn [bind]; try discriminate.
  destruct id as [id|]; [|discriminate]. destruct name as [name|]; [|discriminate].
  destruct (parse_id id) as [tid| | |]; try discriminate.
  destruct repl as [r|]; [destruct (parse_id r) as [rid| | |]; try discriminate|];
    intros [= <-]; repeat split; intros k; destruct k; reflexivity.
Qed.

Lemma conn_fst id ls : forall acc cs, Forall (fun cp : N * N => fst cp = id) acc ->
  foldM (conn_step id) ls acc = Ok cs -> Forall (fun cp : N * N => fst cp = id) cs.
Proof.
  induction ls as [|l ls IH]; intros acc cs Ha H; cbn [foldM] in H; [injection H as <-; exact Ha|].
  unfold conn_step at 1 in H. destruct (strip_prefix OBO_ISA_PREFIX l) as [v|]; cbn [bind] in H; [|apply (IH acc cs Ha H)].
  destruct (split_once1 32 v []) as [[tid rest]|]; cbn [bind] in H; [|apply (IH acc cs Ha H)].
  destruct (parse_id tid) as [p| | |]; cbn [bind] in H; try discriminate.
  apply (IH (acc ++ [(id, p)]) cs); [|exact H]. apply Forall_app. split; [exact Ha|constructor; [reflexivity|constructor]].
Qed.

Record scan_ok (st : onto * list (N * N)) : Prop := {
  sk_b : binv (o_arena (fst st)); sk_p : SP (o_arena (fst st)); sk_c : SC (o_arena (fst st));
  sk_n : noannot (o_arena (fst st)); sk_r : norecords (fst st);
  sk_k : Forall (fun cp : N * N => In (fst cp) (ar_keys (o_arena (fst st)))) (snd st)
}.

Lemma insert_keys_mono t a a' x : ar_insert t a = Ok a' -> In x (ar_keys a) -> In x (ar_keys a').
Proof.
  unfold ar_insert. destruct (MAX_HPO_ID <=? _); [discriminate|]. destruct (ar_find _ a); intros [= <-] H; [exact H|].
  unfold ar_keys. cbn [ar_terms]. rewrite map_app. apply in_or_app. left. exact H.
Qed.

Lemma insert_key_in t a a' : ar_insert t a = Ok a' -> In (t_id t) (ar_keys a').
Proof.
  unfold ar_insert. destruct (MAX_HPO_ID <=? _); [discriminate|]. destruct (ar_find (t_id t) a) as [t0|] eqn:E; intros [= <-].
  - unfold ar_find in E. apply find_by_Some in E as [H1 H2]. rewrite <- H2. unfold ar_keys. apply in_map, H1.
  - unfold ar_keys. cbn [ar_terms]. rewrite map_app. apply in_or_app. right. left. reflexivity.
Qed.

Lemma obo_scan_ok content st : obo_scan content = Ok st -> scan_ok st.
Proof.
  unfold obo_scan, read_obo_chunks. intros H.
  refine (foldM_inv _ scan_ok _ _ (onto_new, []) st _ H).
  - intros [o1 conns] chunk [o2 conns2] _ Hs [B P C Na R K]. cbn [fst snd] in *.
    destruct (strip_prefix term_header_nl chunk) as [stanza|].
    + destruct (term_from_obo stanza) as [[raw|]| | |] eqn:Et; cbn [bind] in Hs; try discriminate; [|injection Hs as <- <-; constructor; assumption].
      destruct (term_from_obo_blank stanza raw Et) as (E1 & E2 & E3 & E4).
      unfold b_add_term in Hs. destruct (ar_insert raw (o_arena o1)) as [a'| | |] eqn:Ei; cbn [bind] in Hs; try discriminate.
      destruct (connections_of stanza (t_id raw)) as [cs| | |] eqn:Ec; cbn [bind] in Hs; try discriminate.
      injection Hs as <- <-. constructor; cbn [fst snd o_arena set_arena].
      * apply (binv_insert _ raw a' B E1 E2 E3 Ei).
      * apply (SP_insert_empty raw _ a' E1 E3 P Ei).
      * unfold ar_insert in Ei. destruct (MAX_HPO_ID <=? _); [discriminate|]. destruct (ar_find _ (o_arena o1)); injection Ei as <-; [exact C|].
        intros x [Hin| ->]; [|apply C; right; reflexivity]. cbn [ar_terms] in Hin.
        apply in_app_or in Hin as [Hin|[<-|[]]]; [apply C; left; exact Hin|rewrite E2; constructor].
      * unfold ar_insert in Ei. destruct (MAX_HPO_ID <=? _); [discriminate|]. destruct (ar_find _ (o_arena o1)); injection Ei as <-; [exact Na|].
        intros x Hin k. cbn [ar_terms] in Hin. apply in_app_or in Hin as [Hin|[<-|[]]]; [apply Na, Hin|apply E4].
      * intros k; destruct k; [exact (R KGene)|exact (R KOmim)|exact (R KOrpha)].
      * apply Forall_app. split.
        -- eapply Forall_impl; [|exact K]. intros cp Hcp. apply (insert_keys_mono raw _ a' _ Ei Hcp).
        -- rewrite connections_is_fold in Ec. pose proof (conn_fst (t_id raw) _ [] cs (Forall_nil _) Ec) as F.
           eapply Forall_impl; [|exact F]. intros cp ->. apply (insert_key_in raw _ a' Ei).
    + destruct (starts_with OBO_HEADER_START chunk).
      * destruct (version_from_obo (lines chunk)) as [v| | |]; cbn [bind] in Hs; try discriminate.
        injection Hs as <- <-. constructor; cbn [fst snd]; try assumption.
      * injection Hs as <- <-. constructor; assumption.
  - constructor; cbn [fst snd o_arena onto_new].
    + apply binv_default. + apply SP_default. + apply SC_default. + intros t []. + intros k; destruct k; reflexivity. + constructor.
Qed.

(* ---------------- the links of hp.obo ---------------- *)

Lemma obo_links conns : forall a a', binv a -> SP a -> noannot a ->
  Forall (fun cp : N * N => In (fst cp) (ar_keys a) /\ In (snd cp) (ar_keys a)) conns ->
  foldM (fun a (cp : N * N) => b_add_parent_unchecked (snd cp) (fst cp) a) conns a = Ok a' ->
  binv a' /\ SP a' /\ noannot a' /\ ar_keys a' = ar_keys a.
Proof.
  induction conns as [|[c p] conns IH]; intros a a' B P Na F H; cbn [foldM] in H.
  - injection H as <-. auto.
  - inversion F as [|? ? [Hc Hp] F']; subst. cbn [fst snd] in *.
    destruct (link_step a p c B P Hp Hc) as [a1 [E1 [B1 [P1 [K1 _]]]]]. rewrite E1 in H. cbn [bind] in H.
    assert (noannot a1) as N1.
    { unfold b_add_parent_unchecked in E1. apply bind_Ok' in E1 as [s4 [E2 E3]].
      eapply noannot_update_unchecked; [|intros x k0; apply annots_set_parents|exact E3].
      eapply noannot_update_unchecked; [exact Na|intros x k0; apply annots_set_children|exact E2]. }
    destruct (IH a1 a' B1 P1 N1) as (B' & P' & N' & K'); [|exact H|].
    + eapply Forall_impl; [|exact F']. intros cp [H1 H2]. rewrite K1. auto.
    + split; [exact B'|split; [exact P'|split; [exact N'|rewrite K', K1; reflexivity]]].
Qed.

(* every is_a target of the file is one of its [Term] stanzas *)
Definition obo_closed (content : bytes) : Prop :=
  forall ob conns, obo_scan content = Ok (ob, conns) -> Forall (fun cp : N * N => In (snd cp) (ar_keys (o_arena ob))) conns.

Lemma read_obo_BI content o1 o2 : obo_closed content -> read_obo content onto_new = Ok o1 ->
  b_connect_all_terms o1 = Ok o2 -> BI o2.
Proof.
  intros Cl H Hc. rewrite read_obo_unfold in H. apply bind_Ok' in H as [[ob conns] [Hs H]].
  apply bind_Ok' in H as [a [Ha H]]. injection H as <-.
  destruct (obo_scan_ok content (ob, conns) Hs) as [B P C Na R K]. cbn [fst snd] in *.
  destruct (obo_links conns (o_arena ob) a B P Na) as (B' & P' & N' & K'); [|exact Ha|].
  { pose proof (Cl ob conns Hs) as Cp. clear -K Cp. induction conns as [|cp conns IH]; [constructor|].
    inversion K; inversion Cp; subst. constructor; auto. }
  apply (BI_after_connect (set_arena a ob) o2); cbn [o_arena set_arena]; try assumption.
Qed.

(* ---------------- the annotation files ---------------- *)

Lemma parse_gene_file_BI tr content o o' : BI o -> parse_gene_file tr content o = Ok o' -> BI o'.
Proof.
  intros B H. unfold parse_gene_file in H. destruct (split_first_line content) as [hdr rest].
  destruct (negb _); [discriminate|].
  refine (foldM_inv _ BI _ _ o o' B H). intros s line s' _ Hs Bs.
  destruct (if tr then phenotype_to_gene_line line else genes_to_phenotype_line line) as [[[gid sym] hpo]| | |]; cbn [bind] in Hs; try discriminate.
  apply (BI_annotate KGene gid sym hpo s s' Bs Hs).
Qed.

Lemma parse_hpoa_BI content o o' : BI o -> parse_hpoa content o = Ok o' -> BI o'.
Proof.
  intros B H. unfold parse_hpoa in H. refine (foldM_inv _ BI _ _ o o' B H). intros s line s' _ Hs Bs.
  destruct (if starts_with s_OMIM line then Some KOmim else if starts_with s_ORPHA line then Some KOrpha else None) as [k|];
    [|injection Hs as <-; exact Bs].
  destruct (disease_components line) as [[[[did name] h]|]| | |]; cbn [bind] in Hs; try discriminate; [|injection Hs as <-; exact Bs].
  destruct (parse_uint U32_MAX did) as [d|]; [|discriminate]. apply (BI_annotate k d name h s s' Bs Hs).
Qed.

(* ---------------- calculate_information_content and build_with_defaults ---------------- *)

Lemma finish_with_defaults icf ob o5 o : BI ob -> b_calculate_ic icf ob = Ok o5 -> b_build_with_defaults o5 = Ok o ->
  qgood o /\ acyclic (o_arena o) /\ ann_ok o /\ ic_ok icf o.
Proof.
  intros Bb E5 E6. pose proof (BI_ann_ok ob Bb) as Ab.
  destruct (calculate_ic_spec icf ob o5 E5) as (R5 & _ & _ & _ & _ & F5).
  pose proof (calculate_ic_same_struct icf ob o5 E5) as SS5. pose proof (build_with_defaults_arena o5 o E6) as Ea.
  assert (forall k, o_records k o = o_records k ob) as Ro.
  { intros k. rewrite <- R5. unfold b_build_with_defaults, set_default_categories, set_default_modifier in E6.
    destruct (o_get ROOT_ID_CAT (b_build_minimal o5)); [|discriminate].
    destruct (o_get PHENOTYPE_ID (b_build_minimal o5)); [|discriminate]. cbn [bind] in E6.
    match type of E6 with context [o_get ROOT_ID ?x] => destruct (o_get ROOT_ID x) end; [|discriminate].
    injection E6 as <-. destruct k; reflexivity. }
  assert (same_links (o_arena ob) (o_arena o)) as SL by (rewrite Ea; apply same_struct_links, SS5).
  split; [apply (qgood_same_links ob o (bi_q ob Bb) SL)|]. split; [apply (ranked_links _ _ SL (bi_ac ob Bb))|]. split.
  - apply (ann_ok_transfer ob o Ab Ro). rewrite Ea. eapply Forall2_impl_In; [|exact F5]. intros t t' _ _ [Et _].
    rewrite Et. split; [destruct t; reflexivity|split; [destruct t; reflexivity|intros k; apply annots_set_ic]].
  - intros t' Ht' k. rewrite Ea in Ht'. destruct (Forall2_In_r _ _ _ t' F5 Ht') as [t [Ht [Et Hic]]].
    rewrite Ro. rewrite Et at 1. rewrite annots_set_ic. apply Hic.
Qed.

(* THE JAX LOADERS: a successful load of files whose hp.obo is closed under is_a yields an ontology
   with exact ancestor caches (qgood), an acyclic graph, annotation sets = inherited direct facts
   (ann_ok) and information content = calculate (N, n) (ic_ok) *)
Theorem load_jax_ok icf tr obo genes hpoa o : obo_closed obo -> load_jax icf tr obo genes hpoa = Ok o ->
  qgood o /\ acyclic (o_arena o) /\ ann_ok o /\ ic_ok icf o.
Proof.
  intros Cl H. unfold load_jax in H.
  apply bind_Ok' in H as [o1 [H1 H]]. apply bind_Ok' in H as [o2 [H2 H]]. apply bind_Ok' in H as [o3 [H3 H]].
  apply bind_Ok' in H as [o4 [H4 H]]. apply bind_Ok' in H as [o5 [H5 H6]].
  pose proof (read_obo_BI obo o1 o2 Cl H1 H2) as B2.
  pose proof (parse_gene_file_BI tr genes o2 o3 B2 H3) as B3.
  pose proof (parse_hpoa_BI hpoa o3 o4 B3 H4) as B4.
  apply (finish_with_defaults icf o4 o5 o B4 H5 H6).
Qed.
