(* BuilderTotalP.v — the Builder API is total on acyclic input: a script whose term ids are inside the id
   space and whose successful add_parent calls describe an acyclic graph always runs to the end
   (every rejected call is an Err the client can ignore; connect_all_terms has enough fuel; the
   propagation of every annotate_* call returns) — whatever the order of the calls. *)
From Coq Require Import Lia Relations Sorted.
From HpoV Require Import Gen.Consts Model.Base Model.Group Model.Onto Model.Query Model.Dump Model.Script
  Proofs.GroupP Proofs.BaseP Proofs.ClosureP Proofs.AcyclicP Proofs.TotalP Proofs.DistP Proofs.QgoodP Proofs.LinkP Proofs.RecordsP
  Proofs.C03W Proofs.SectionP Proofs.RoundTripP Proofs.AnnotP Proofs.BuilderAnnotP Proofs.TotalLinkP Proofs.ReloadP Proofs.TotalReloadP Proofs.WalkP.

Definition pre_inv (o : onto) : Prop :=
  binv (o_arena o) /\ SP (o_arena o) /\ SC (o_arena o) /\ noannot (o_arena o) /\ norecords o.

Lemma new_terms_total terms : forall o0, pre_inv o0 -> (forall t : N * list N, In t terms -> fst t < MAX_HPO_ID) ->
  exists o1, foldM (fun o (t : N * list N) => b_new_term (snd t) (fst t) o) terms o0 = Ok o1 /\ pre_inv o1.
Proof.
  induction terms as [|[id name] terms IH]; intros o0 P0 Hr; cbn [foldM]; [exists o0; auto|]. cbn [fst snd].
  unfold b_new_term, b_add_term. destruct (ar_insert (new_term name id) (o_arena o0)) as [a'| | |] eqn:Ha.
  2-4: exfalso; unfold ar_insert in Ha; change (t_id (new_term name id)) with id in Ha; pose proof (Hr (id, name) (or_introl eq_refl)) as H0; cbn [fst] in H0;
       destruct (N.leb_spec MAX_HPO_ID id); [lia|]; destruct (ar_find id (o_arena o0)); discriminate.
  cbn [bind]. apply IH; [|intros t Ht; apply Hr; right; exact Ht].
  destruct P0 as (Bs & Ps & Ss & Ns & Rs). unfold pre_inv. cbn [o_arena set_arena].
  split; [apply (binv_insert (o_arena o0) (new_term name id) a' Bs eq_refl eq_refl eq_refl Ha)|].
  split; [apply (SP_insert_new name id _ a' Ps Ha)|].
  unfold ar_insert in Ha. destruct (MAX_HPO_ID <=? _); [discriminate|].
  destruct (ar_find _ (o_arena o0)); injection Ha as <-; (split; [|split; [|intros k; destruct k; [exact (Rs KGene)|exact (Rs KOmim)|exact (Rs KOrpha)]]]); try assumption.
  - intros x [Hin| ->]; [|apply Ss; right; reflexivity]. cbn [ar_terms] in Hin.
    apply in_app_or in Hin as [Hin|[<-|[]]]; [apply Ss; left; exact Hin|constructor].
  - intros x Hin k. cbn [ar_terms] in Hin. apply in_app_or in Hin as [Hin|[<-|[]]]; [apply Ns, Hin|destruct k; reflexivity].
Qed.

Lemma add_parents_total parents : forall o1 cs, pre_inv o1 ->
  exists o2 cs2, foldM (fun (st : onto * list N) (pc : N * N) => let (oa, codes) := st in
                    do r <- step_keep (b_add_parent (fst pc) (snd pc) oa) oa ;; let (ob, c) := r : onto * N in Ok (ob, codes ++ [c]))
                  parents (o1, cs) = Ok (o2, cs2) /\ pre_inv o2.
Proof.
  induction parents as [|[p c] parents IH]; intros o1 cs P1; cbn [foldM]; [exists o1, cs; auto|]. cbn [fst snd].
  destruct (b_add_parent p c o1) as [s2|e| |] eqn:Ea; cbn [step_keep bind].
  - apply IH. destruct P1 as (Bs & Ps & Ss & Ns & Rs).
    split; [apply (binv_add_parent o1 p c s2 Bs Ea)|split; [apply (SP_add_parent p c o1 s2 Ps Ea)|split; [apply (SC_add_parent p c o1 s2 Ss Ea)|]]].
    unfold b_add_parent in Ea. destruct (ar_get c (o_arena o1)); [|discriminate]. destruct (ar_get p (o_arena o1)); [|discriminate].
    match type of Ea with context [ar_get c ?a1] => destruct (ar_get c a1); [|discriminate] end. injection Ea as <-.
    split; [|intros k; destruct k; [exact (Rs KGene)|exact (Rs KOmim)|exact (Rs KOrpha)]]. cbn [o_arena set_arena].
    apply noannot_update; [apply noannot_update; [exact Ns|intros; apply annots_set_children]|intros; apply annots_set_parents].
  - apply IH. exact P1.
  - exfalso. unfold b_add_parent in Ea. destruct (ar_get c (o_arena o1)); [|discriminate]. destruct (ar_get p (o_arena o1)); [|discriminate].
    match type of Ea with context [ar_get c ?a1] => destruct (ar_get c a1); discriminate end.
  - exfalso. unfold b_add_parent in Ea. destruct (ar_get c (o_arena o1)); [|discriminate]. destruct (ar_get p (o_arena o1)); [|discriminate].
    match type of Ea with context [ar_get c ?a1] => destruct (ar_get c a1); discriminate end.
Qed.

Lemma annot_ops_total annots : forall o3 cs, BI o3 ->
  exists o4 cs4, foldM (fun (st : onto * list N) op => let (oa, codes) := st in
                    do r <- run_annot_op oa op ;; let (ob, c) := r : onto * N in Ok (ob, codes ++ [c])) annots (o3, cs) = Ok (o4, cs4).
Proof.
  induction annots as [|[[[tag id] tid] name] annots IH]; intros o3 cs B3; cbn [foldM]; [exists o3, cs; reflexivity|].
  unfold run_annot_op. destruct (tag <? 3).
  - cbn [bind]. apply IH. apply BI_add_record, B3.
  - destruct (o_get tid o3) as [t|] eqn:Eg.
    + assert (In tid (ar_keys (o_arena o3))) as Hk by (unfold o_get in Eg; apply (get_Some_key _ _ _ Eg)).
      destruct (annotate_total (kind_of tag) id name tid o3 (bi_q o3 B3) (bi_ac o3 B3) (bi_sorted o3 B3 (kind_of tag)) Hk) as [o' E].
      rewrite E. cbn [step_keep bind]. apply IH. apply (BI_annotate _ _ _ _ o3 o' B3 E).
    + rewrite (annotate_absent_term (kind_of tag) id name tid o3 Eg). cbn [step_keep bind]. apply IH. exact B3.
Qed.

(* A BUILDER SCRIPT ALWAYS RUNS TO THE END when its ids are inside the id space and the graph built by its
   successful add_parent calls is acyclic (icf: an information-content function that never panics) *)
Theorem run_script_total icf s :
  (let '(_, terms, _, _, _) := s in forall t : N * list N, In t terms -> fst t < MAX_HPO_ID) ->
  (let '(ver, terms, parents, _, _) := s in
   forall o1 r2, foldM (fun o (t : N * list N) => b_new_term (snd t) (fst t) o) terms (set_version ver onto_new) = Ok o1 ->
     run_ops (fun o (pc : N * N) => step_keep (b_add_parent (fst pc) (snd pc) o) o) parents o1 = Ok r2 -> acyclic (o_arena (fst r2))) ->
  (forall N n, icf N n <> Panic /\ icf N n <> Fuel) ->
  exists codes r, run_script icf s = Ok (codes, r).
Proof.
  destruct s as [[[[ver terms] parents] annots] kindb]. intros Hr Hac Hicf. unfold run_script, run_builder.
  assert (pre_inv (set_version ver onto_new)) as P0.
  { unfold pre_inv. cbn [o_arena set_version onto_new]. split; [apply binv_default|split; [apply SP_default|split; [apply SC_default|split]]]; [intros t []|intros k; destruct k; reflexivity]. }
  destruct (new_terms_total terms _ P0 Hr) as [o1 [H1 P1]]. rewrite H1. cbn [bind].
  destruct (add_parents_total parents o1 [] P1) as (o2 & cs2 & H2 & P2). unfold run_ops at 1. rewrite H2. cbn [bind].
  pose proof (Hac o1 (o2, cs2) H1 H2) as Ac2. cbn [fst] in Ac2. destruct P2 as (B2 & Sp2 & Sc2 & N2 & R2).
  destruct (connect_all_returns_on_acyclic (o_arena o2) (b_wf _ B2) (b_empty _ B2) Ac2) as [a3 E3].
  unfold b_connect_all_terms at 1. rewrite E3. cbn [bind].
  assert (BI (set_arena a3 o2)) as B3.
  { apply (BI_after_connect o2 _ B2 Sp2 N2 R2). unfold b_connect_all_terms. rewrite E3. reflexivity. }
  destruct (annot_ops_total annots (set_arena a3 o2) [] B3) as (o4 & cs4 & H4). unfold run_ops. rewrite H4. cbn [bind].
  unfold finish.
  assert (b_calculate_ic icf o4 <> Panic /\ b_calculate_ic icf o4 <> Fuel) as [Np Nf].
  { unfold b_calculate_ic. assert (forall l, mapM (term_ic icf o4) l <> Panic /\ mapM (term_ic icf o4) l <> Fuel) as K.
    { induction l as [|t l IH]; cbn [mapM]; [split; discriminate|]. unfold term_ic at 1 3.
      destruct (Hicf (Nlen (o_genes o4)) (Nlen (t_genes t))) as [A1 A2]. destruct (icf (Nlen (o_genes o4)) (Nlen (t_genes t))) as [g| | |]; cbn [bind]; try (split; [discriminate|discriminate]); try congruence.
      destruct (Hicf (Nlen (o_omim o4)) (Nlen (t_omim t))) as [A3 A4]. destruct (icf (Nlen (o_omim o4)) (Nlen (t_omim t))) as [m| | |]; cbn [bind]; try (split; [discriminate|discriminate]); try congruence.
      destruct (Hicf (Nlen (o_orpha o4)) (Nlen (t_orpha t))) as [A5 A6]. destruct (icf (Nlen (o_orpha o4)) (Nlen (t_orpha t))) as [r| | |]; cbn [bind]; try (split; [discriminate|discriminate]); try congruence.
      destruct IH as [I1 I2]. destruct (mapM (term_ic icf o4) l); cbn [bind]; try (split; discriminate); congruence. }
    destruct (K (ar_terms (o_arena o4))) as [K1 K2]. destruct (mapM (term_ic icf o4) (ar_terms (o_arena o4))); cbn [bind]; try (split; discriminate); congruence. }
  destruct (b_calculate_ic icf o4) as [o5|e| |]; cbn [bind]; try congruence; [|eexists _, _; reflexivity].
  destruct (kindb =? 0); [eexists _, _; reflexivity|].
  unfold b_build_with_defaults, set_default_categories, set_default_modifier.
  destruct (o_get ROOT_ID_CAT (b_build_minimal o5)); cbn [bind]; [|eexists _, _; reflexivity].
  destruct (o_get PHENOTYPE_ID (b_build_minimal o5)); cbn [bind]; [|eexists _, _; reflexivity].
  match goal with |- context [o_get ROOT_ID ?x] => destruct (o_get ROOT_ID x) end; eexists _, _; reflexivity.
Qed.
