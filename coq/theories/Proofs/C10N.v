(* C10N.v — the name and id lookups of records (Run/C10.v gene_by_name, omim_by_name,
   omim_first_by_name; Model/Onto.v an_find): the byte-level infix test is "the name contains the
   query"; the search returns exactly the diseases whose name contains the query; a gene found by
   symbol has exactly that symbol, and nothing is found only when no gene has it; a record found by
   id has that id, and nothing is found only when no record has it. *)
From Coq Require Import Lia.
From HpoV Require Import Gen.Consts Model.Base Model.Group Model.Onto Run.C10 Proofs.BaseP Proofs.SetsP Proofs.C18P.

Lemma is_prefix_spec p : forall s, is_prefix p s = true <-> exists t, s = p ++ t.
Proof.
  induction p as [|x p IH]; intros s; cbn [is_prefix].
  - split; [intros _; exists s; reflexivity|reflexivity].
  - destruct s as [|y s]; [split; [discriminate|intros [t E]; discriminate]|].
    rewrite andb_true_iff, N.eqb_eq, IH. split.
    + intros [-> [t ->]]. exists t. reflexivity.
    + intros [t E]. injection E as -> ->. split; [reflexivity|exists t; reflexivity].
Qed.

(* str::contains, on bytes *)
Lemma is_infix_spec q : forall s, is_infix q s = true <-> exists a b, s = a ++ q ++ b.
Proof.
  induction s as [|y s IH]; cbn [is_infix]; rewrite orb_true_iff, is_prefix_spec.
  - split.
    + intros [[t E]|H]; [exists [], t; exact E|discriminate].
    + intros [a [b E]]. left. destruct a; [exists b; exact E|discriminate].
  - rewrite IH. split.
    + intros [[t E]|[a [b E]]]; [exists [], t; exact E|exists (y :: a), b; rewrite E; reflexivity].
    + intros [a [b E]]. destruct a as [|z a]; [left; exists b; exact E|right]. injection E as -> ->. exists a, b. reflexivity.
Qed.

(* omim_diseases_by_name: exactly the diseases whose name contains the query *)
Theorem omim_by_name_spec o q r : In r (omim_by_name o q) <-> In r (o_omim o) /\ exists a b, a_name r = a ++ q ++ b.
Proof. unfold omim_by_name. rewrite filter_In, sort_by_In, is_infix_spec. reflexivity. Qed.

Theorem omim_first_by_name_spec o q :
  match omim_first_by_name o q with
  | Some r => In r (o_omim o) /\ exists a b, a_name r = a ++ q ++ b
  | None => forall r, In r (o_omim o) -> ~ exists a b, a_name r = a ++ q ++ b
  end.
Proof.
  unfold omim_first_by_name. destruct (find _ _) as [r|] eqn:E.
  - apply find_some in E as [Hin Hq]. apply sort_by_In in Hin. apply is_infix_spec in Hq. auto.
  - intros r Hin Hq. apply (sort_by_In a_id) in Hin. pose proof (find_none _ _ E r Hin) as Hf. cbn beta in Hf.
    apply is_infix_spec in Hq. congruence.
Qed.

(* gene_by_name: a gene with exactly that symbol, or none exists *)
Theorem gene_by_name_spec o q :
  match gene_by_name o q with
  | Some r => In r (o_genes o) /\ a_name r = q
  | None => forall r, In r (o_genes o) -> a_name r <> q
  end.
Proof.
  unfold gene_by_name. destruct (find _ _) as [r|] eqn:E.
  - apply find_some in E as [Hin Hq]. apply sort_by_In in Hin. apply list_eqb_eq in Hq. auto.
  - intros r Hin Hq. apply (sort_by_In a_id) in Hin. pose proof (find_none _ _ E r Hin) as Hf. cbn beta in Hf.
    apply list_eqb_eq in Hq. congruence.
Qed.

(* gene / disease lookup by id *)
Theorem record_by_id_spec id recs :
  match an_find id recs with
  | Some r => In r recs /\ a_id r = id
  | None => forall r, In r recs -> a_id r <> id
  end.
Proof.
  unfold an_find. destruct (find_by a_id id recs) as [r|] eqn:E; [apply (find_by_Some _ _ _ _ E)|apply (find_by_None _ _ _ E)].
Qed.
