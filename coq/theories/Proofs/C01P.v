(* C01P.v — soundness of the executable statement of C01: an observation that
   passes [closure_ok] reports, for every term, exactly the transitive closure
   of the reported parent relation, and children as the inverse of parents. *)
From Coq Require Import Sorted Lia Relations Wf_nat.
From HpoV Require Import Model.Base Model.Group Spec.Sets Proofs.GroupP Proofs.SetsP Proofs.BaseP
  Model.Onto Model.Query Model.Dump Run.World Run.C01.

(* the reported parent relation: p is a direct parent of c *)
Definition prel (ts : list p01) (c p : N) : Prop :=
  exists t, pfind c ts = Some t /\ In p (p_parents t).

Section Sound.
  Variable ts : list p01.
  Hypothesis Hok : closure_ok ts = true.

  Lemma ids_nodup : NoDup (map p_id ts).
  Proof.
    unfold closure_ok in Hok. apply andb_true_iff in Hok as [H _].
    apply sorted_NoDup, ascb_sorted, H.
  Qed.

  Lemma term_ok_all t : In t ts -> term_ok ts t = true.
  Proof.
    unfold closure_ok in Hok. apply andb_true_iff in Hok as [_ H].
    rewrite forallb_forall in H. apply H.
  Qed.

  Lemma pfind_self t : In t ts -> pfind (p_id t) ts = Some t.
  Proof. intros. apply find_by_unique; [apply ids_nodup|assumption]. Qed.

  Lemma pfind_In p tp : pfind p ts = Some tp -> In tp ts /\ p_id tp = p.
  Proof. apply find_by_Some. Qed.

  (* the clauses of term_ok, as propositions *)
  Lemma ok_irrefl t : In t ts -> ~ In (p_id t) (p_allp t).
  Proof.
    intros Ht. pose proof (term_ok_all t Ht) as H. unfold term_ok in H.
    rewrite !andb_true_iff in H. destruct H as [[[[[[_ _] _] H] _] _] _].
    apply negb_true_iff in H. rewrite <- mem_In. congruence.
  Qed.

  Lemma ok_allp_nodup t : In t ts -> NoDup (p_allp t).
  Proof.
    intros Ht. pose proof (term_ok_all t Ht) as H. unfold term_ok in H.
    rewrite !andb_true_iff in H. destruct H as [[[[[[_ _] H] _] _] _] _].
    apply sorted_NoDup, ascb_sorted, H.
  Qed.

  Lemma ok_parent t p : In t ts -> In p (p_parents t) ->
    In p (p_allp t) /\ exists tp, pfind p ts = Some tp /\ incl (p_allp tp) (p_allp t)
                                  /\ In (p_id t) (p_children tp).
  Proof.
    intros Ht Hp. pose proof (term_ok_all t Ht) as H. unfold term_ok in H.
    rewrite !andb_true_iff in H. destruct H as [[[_ H] _] _].
    rewrite forallb_forall in H. specialize (H p Hp). apply andb_true_iff in H as [H1 H2].
    split; [apply mem_In, H1|]. destruct (pfind p ts) as [tp|]; [|discriminate].
    apply andb_true_iff in H2 as [H2 H3]. exists tp. split; [reflexivity|]. split.
    - intros z Hz. apply (proj1 (subsetb_spec _ _) H2 z Hz).
    - apply mem_In, H3.
  Qed.

  Lemma ok_minimal t a : In t ts -> In a (p_allp t) ->
    In a (p_parents t) \/ exists p tp, In p (p_parents t) /\ pfind p ts = Some tp /\ In a (p_allp tp).
  Proof.
    intros Ht Ha. pose proof (term_ok_all t Ht) as H. unfold term_ok in H.
    rewrite !andb_true_iff in H. destruct H as [[_ H] _].
    rewrite forallb_forall in H. specialize (H a Ha). apply orb_true_iff in H as [H|H].
    - left. apply mem_In, H.
    - right. apply existsb_exists in H as [p [Hp H]]. exists p.
      destruct (pfind p ts) as [tp|]; [|discriminate]. exists tp. repeat split; auto. apply mem_In, H.
  Qed.

  Lemma ok_child t c : In t ts -> In c (p_children t) ->
    exists tc, pfind c ts = Some tc /\ In (p_id t) (p_parents tc).
  Proof.
    intros Ht Hc. pose proof (term_ok_all t Ht) as H. unfold term_ok in H.
    rewrite !andb_true_iff in H. destruct H as [_ H].
    rewrite forallb_forall in H. specialize (H c Hc).
    destruct (pfind c ts) as [tc|]; [|discriminate]. exists tc. split; [reflexivity|apply mem_In, H].
  Qed.

  (* soundness: nothing but ancestors *)
  Lemma allp_sound : forall n t, length (p_allp t) = n -> In t ts ->
    forall a, In a (p_allp t) -> clos_trans N (prel ts) (p_id t) a.
  Proof.
    induction n as [n IH] using lt_wf_ind. intros t Hn Ht a Ha.
    destruct (ok_minimal t a Ht Ha) as [Hp|[p [tp [Hp [Hf Hap]]]]].
    - apply t_step. exists t. split; [apply pfind_self; assumption|assumption].
    - destruct (pfind_In _ _ Hf) as [Htp Hid].
      destruct (ok_parent t p Ht Hp) as [Hpa [tp' [Hf' [Hincl _]]]].
      rewrite Hf in Hf'. injection Hf' as <-.
      apply t_trans with p.
      + apply t_step. exists t. split; [apply pfind_self; assumption|assumption].
      + rewrite <- Hid. apply (IH (length (p_allp tp))); auto. subst n.
        apply (NoDup_incl_lt p); auto.
        * apply ok_allp_nodup; assumption.
        * rewrite <- Hid. apply ok_irrefl; assumption.
  Qed.

  (* completeness: every ancestor *)
  Lemma allp_complete : forall x a, clos_trans_1n N (prel ts) x a ->
    forall t, In t ts -> p_id t = x -> In a (p_allp t).
  Proof.
    induction 1 as [x y Hxy|x y z Hxy Hyz IH]; intros t Ht Hid; subst x.
    - destruct Hxy as [t' [Hf Hp]]. rewrite (pfind_self t Ht) in Hf. injection Hf as <-.
      apply (ok_parent t y Ht Hp).
    - destruct Hxy as [t' [Hf Hp]]. rewrite (pfind_self t Ht) in Hf. injection Hf as <-.
      destruct (ok_parent t y Ht Hp) as [_ [ty [Hfy [Hincl _]]]].
      destruct (pfind_In _ _ Hfy) as [Hty Hidy]. apply Hincl. apply (IH ty Hty Hidy).
  Qed.

  Theorem closure_ok_sound t : In t ts ->
    forall a, In a (p_allp t) <-> clos_trans N (prel ts) (p_id t) a.
  Proof.
    intros Ht a. split.
    - apply (allp_sound (length (p_allp t)) t eq_refl Ht).
    - intros H. apply clos_trans_t1n in H. apply (allp_complete _ _ H t Ht eq_refl).
  Qed.

  Theorem closure_ok_irreflexive t : In t ts -> ~ clos_trans N (prel ts) (p_id t) (p_id t).
  Proof. intros Ht H. apply (ok_irrefl t Ht). apply closure_ok_sound; assumption. Qed.

  Theorem children_inverse tp tc : In tp ts -> In tc ts ->
    (In (p_id tc) (p_children tp) <-> In (p_id tp) (p_parents tc)).
  Proof.
    intros Hp Hc. split; intros H.
    - destruct (ok_child tp (p_id tc) Hp H) as [tc' [Hf Hin]].
      rewrite (pfind_self tc Hc) in Hf. injection Hf as <-. exact Hin.
    - destruct (ok_parent tc (p_id tp) Hc H) as [_ [tp' [Hf [_ Hin]]]].
      rewrite (pfind_self tp Hp) in Hf. injection Hf as <-. exact Hin.
  Qed.
End Sound.

(* child_of / parent_of are membership in the closure *)
Lemma matrix_eqb_eq a : forall b, matrix_eqb a b = true -> a = b.
Proof.
  induction a as [|x a IH]; intros [|y b]; cbn; try discriminate; [reflexivity|].
  intros H. apply andb_true_iff in H as [H1 H2]. apply list_eqb_eq in H1. f_equal; auto.
Qed.
