(* SubCopyP.v — Ontology::sub_ontology copies names and flags: every term of the result is the copy of
   the source term with the same id — same name, same obsolete flag, same replacement (C14: "copies
   their names and flags"). *)
From Coq Require Import Lia Relations Sorted.
From HpoV Require Import Gen.Consts Model.Base Model.Group Model.Onto Model.Query Model.SubOnt Model.Script
  Proofs.GroupP Proofs.BaseP Proofs.ClosureP Proofs.AcyclicP Proofs.DistP Proofs.QgoodP Proofs.LinkP Proofs.RecordsP
  Proofs.SectionP Proofs.RoundTripP Proofs.AnnotP Proofs.BuilderAnnotP Proofs.SubP Proofs.SubLinksP Proofs.DecodeAnyP.

(* [t'] carries the name and flags of a term of [src] with the same id *)
Definition copied (src : list term) (t' : term) : Prop :=
  exists t, In t src /\ t_id t' = t_id t /\ t_name t' = t_name t /\ t_obsolete t' = t_obsolete t /\ t_repl t' = t_repl t.

Definition MC (src : list term) (a : arena) : Prop := forall t', In t' (ar_terms a) -> copied src t'.

Lemma MC_core src a a' : core (ar_terms a) (ar_terms a') -> MC src a -> MC src a'.
Proof.
  intros C M t' Ht'. destruct (Forall2_In_r _ _ _ t' C Ht') as [t0 [H0 (E1 & E2 & E3 & E4)]].
  destruct (M t0 H0) as [t (Hin & F1 & F2 & F3 & F4)]. exists t. split; [exact Hin|]. repeat split; congruence.
Qed.

Lemma MC_copies src terms : Forall (fun t => In t src) terms -> forall b0 b, MC src (o_arena b0) ->
  foldM (fun b t => b_add_term (copy_of t) b) terms b0 = Ok b -> MC src (o_arena b).
Proof.
  intros Hall. induction Hall as [|t terms Ht _ IH]; intros b0 b M H; cbn [foldM] in H; [injection H as <-; exact M|].
  unfold b_add_term at 1 in H. destruct (ar_insert (copy_of t) (o_arena b0)) as [a1| | |] eqn:Ei; cbn [bind] in H; try discriminate.
  apply (IH (set_arena a1 b0) b); [|exact H]. cbn [o_arena set_arena].
  unfold ar_insert in Ei. destruct (MAX_HPO_ID <=? _); [discriminate|]. destruct (ar_find _ _); injection Ei as <-; [exact M|].
  intros t' Hin. cbn [ar_terms] in Hin. apply in_app_or in Hin as [Hin|[<-|[]]]; [apply M, Hin|].
  exists t. split; [exact Ht|]. repeat split.
Qed.

Theorem sub_ontology_copies icf o root leaves o' : qgood o ->
  (forall l, In l leaves -> In l (ar_keys (o_arena o))) ->
  sub_ontology icf o root leaves = Ok o' ->
  forall t', In t' (ar_terms (o_arena o')) -> copied (ar_terms (o_arena o)) t'.
Proof.
  intros G Hl H. unfold sub_ontology in H.
  destruct (sub_ids o root leaves) as [ids| | |] eqn:Eids; cbn [bind] in H; try discriminate.
  pose proof (sub_ids_in_keys o G root leaves ids Hl Eids) as Hk.
  destruct (mapM (fun id => ar_get_unchecked id (o_arena o)) ids) as [terms| | |] eqn:Et; cbn [bind] in H; try discriminate.
  assert (Forall2 (fun id t => In t (ar_terms (o_arena o)) /\ t_id t = id) ids terms) as Ft2.
  { apply mapM_Ok in Et. eapply Forall2_impl_In; [|exact Et]. intros id t Hid _ Hg.
    destruct (get_unchecked_key _ id (q_wf o G) (Hk id Hid)) as [t0 [Hg0 [Hin0 Hid0]]]. rewrite Hg in Hg0. injection Hg0 as ->. auto. }
  assert (Forall (fun t => In t (ar_terms (o_arena o))) terms) as Ft.
  { apply Forall_forall. intros t Ht. destruct (Forall2_In_r _ _ _ t Ft2 Ht) as [id [_ [Hin _]]]. exact Hin. }
  assert (map t_id terms = ids) as Emap.
  { clear -Ft2. induction Ft2 as [|id t l l' [_ E] _ IH]; [reflexivity|]. cbn [map]. rewrite E, IH. reflexivity. }
  assert (sorted ids) as Sids.
  { rewrite SubP.sub_ids_unfold in Eids. clear -Eids.
    assert (forall leaves acc ids, sorted acc -> foldM (SubP.leaf_step o root) leaves acc = Ok ids -> sorted ids) as K.
    { induction leaves0 as [|l ls IH]; intros acc ids0 Sa Hf; cbn [foldM] in Hf; [injection Hf as <-; exact Sa|].
      unfold SubP.leaf_step at 1 in Hf. destruct (ar_get_unchecked l (o_arena o)) as [lt| | |]; cbn [bind] in Hf; try discriminate.
      destruct (path_anc (q_fuel o) o lt root) as [[path|]| | |]; cbn [bind] in Hf; try discriminate.
      apply (IH (fold_left g_add path (g_add acc (t_id lt))) ids0); [|exact Hf]. apply fold_g_add_sorted, g_add_sorted, Sa. }
    apply (K leaves [] ids); [constructor|exact Eids]. }
  change (foldM (fun b t => b_add_term (set_flags (t_obsolete t) (t_repl t) (new_term (t_name t) (t_id t))) b) terms onto_new)
    with (foldM (fun b t => b_add_term (copy_of t) b) terms onto_new) in H.
  destruct (foldM (fun b t => b_add_term (copy_of t) b) terms onto_new) as [b0| | |] eqn:Eb0; cbn [bind] in H; try discriminate.
  assert (MC (ar_terms (o_arena o)) (o_arena b0)) as M0
    by (apply (MC_copies _ terms Ft onto_new b0); [intros t' []|exact Eb0]).
  destruct (copies terms onto_new b0 binv_default SP_default Eb0) as [B0 [P0 [K0 _]]].
  assert (forall x, In x (ar_keys (o_arena b0)) <-> In x ids) as K0'.
  { intros x. rewrite K0, Emap. cbn. tauto. }
  change (foldM (fun a t => foldM (fun a' p => if g_contains p ids then b_add_parent_unchecked p (t_id t) a' else Ok a') (t_parents t) a) terms (o_arena b0))
    with (foldM (fun a t => foldM (inner_step ids (t_id t)) (t_parents t) a) terms (o_arena b0)) in H.
  destruct (foldM (fun a t => foldM (inner_step ids (t_id t)) (t_parents t) a) terms (o_arena b0)) as [a1| | |] eqn:Ea1; cbn [bind] in H; try discriminate.
  destruct (induced_links ids Sids terms (o_arena b0) a1 B0 P0) as [B1 _];
    [intros t Ht; apply K0'; rewrite <- Emap; apply in_map, Ht|intros p Hp; apply K0', Hp|exact Ea1|].
  assert (MC (ar_terms (o_arena o)) a1) as M1.
  { refine (foldM_inv _ (MC (ar_terms (o_arena o))) _ _ (o_arena b0) a1 M0 Ea1). intros s t s' _ Hs Ms.
    refine (foldM_inv _ (MC (ar_terms (o_arena o))) _ _ s s' Ms Hs). intros s2 p s3 _ H3 M2. unfold inner_step in H3.
    destruct (g_contains p ids); [|injection H3 as <-; exact M2]. apply (MC_core _ _ _ (unchecked_core _ _ _ _ H3) M2). }
  destruct (connect_all (default_fuel a1) a1) as [a2| | |] eqn:Ea2; cbn [bind] in H; try discriminate.
  assert (MC (ar_terms (o_arena o)) a2) as M2.
  { destruct (connect_all_exact _ _ _ (b_wf _ B1) (b_empty _ B1) Ea2) as [Sm _].
    apply (MC_core _ _ _ (same_but_allp_core _ _ Sm) M1). }
  set (b2 := set_arena a2 b0) in *.
  match type of H with context [sub_annotate KGene o ids ?ph b2] => set (pheno := ph) in * end.
  assert (forall k b b', sub_annotate k o ids pheno b = Ok b' -> MC (ar_terms (o_arena o)) (o_arena b) -> MC (ar_terms (o_arena o)) (o_arena b')) as Ka.
  { intros k b b' Hb Mb. unfold sub_annotate in Hb.
    refine (foldM_inv _ (fun s => MC (ar_terms (o_arena o)) (o_arena s)) _ _ b b' Mb Hb).
    intros s r s' _ Hs Ms. destruct (g_is_empty _); [injection Hs as <-; exact Ms|].
    refine (foldM_inv _ (fun s => MC (ar_terms (o_arena o)) (o_arena s)) _ _ s s' Ms Hs).
    intros s2 t s3 _ H3 M3. apply (MC_core _ _ _ (same_struct_core _ _ (annotate_same_struct _ _ _ _ _ _ H3)) M3). }
  destruct (sub_annotate KGene o ids pheno b2) as [b3| | |] eqn:E3; cbn [bind] in H; try discriminate.
  destruct (sub_annotate KOmim o ids pheno b3) as [b4| | |] eqn:E4; cbn [bind] in H; try discriminate.
  destruct (sub_annotate KOrpha o ids pheno b4) as [b5| | |] eqn:E5; cbn [bind] in H; try discriminate.
  destruct (b_calculate_ic icf b5) as [b6| | |] eqn:E6; cbn [bind] in H; try discriminate.
  injection H as <-. rewrite build_minimal_arena.
  apply (MC_core _ _ _ (same_struct_core _ _ (calculate_ic_same_struct icf _ _ E6))).
  apply (Ka KOrpha b4 b5 E5), (Ka KOmim b3 b4 E4), (Ka KGene b2 b3 E3). exact M2.
Qed.
