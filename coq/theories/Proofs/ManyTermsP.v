(* ManyTermsP.v — the block forms of Model/ManyTerms.v are the call-by-call transcription *)
From Coq Require Import Lia.
From HpoV Require Import Gen.Consts Model.Base Model.Group Model.Onto Model.Query Model.Dump Model.Script Model.ManyTerms.

Lemma find_by_below (ts : list term) id : Forall (fun t => t_id t < id) ts -> find_by t_id id ts = None.
Proof.
  induction 1 as [|t ts Ht _ IH]; cbn [find_by]; [reflexivity|].
  destruct (N.eqb_spec (t_id t) id); [lia|exact IH].
Qed.

Lemma set_arena_twice a a' o : set_arena a (set_arena a' o) = set_arena a o.
Proof. reflexivity. Qed.

Lemma insert_block stride : 1 <= stride -> forall count first ts o,
  ar_terms (o_arena o) = ts -> Forall (fun t => t_id t < first) ts ->
  first + stride * N.of_nat count <= MAX_HPO_ID ->
  many_slow first stride count o
  = Ok (set_arena (mkArena (ar_ph (o_arena o)) (ts ++ map (new_term many_name) (tseq first stride count))) o).
Proof.
  intros Hs. unfold many_slow. induction count as [|c IH]; intros first ts o Et Hlt Hmax; cbn [tseq foldM map].
  - rewrite app_nil_r, <- Et. destruct o as [[ph tsx] g m r v ca mo]. reflexivity.
  - cbv beta. unfold b_new_term at 1, b_add_term, ar_insert. change (t_id (new_term many_name first)) with first.
    assert (MAX_HPO_ID <=? first = false) as -> by (apply N.leb_gt; lia).
    assert (ar_find first (o_arena o) = None) as Ef by (unfold ar_find; rewrite Et; apply find_by_below, Hlt).
    rewrite Ef. cbn [bind]. rewrite Et.
    rewrite (IH (first + stride) (ts ++ [new_term many_name first])).
    + cbn [o_arena set_arena ar_ph]. rewrite set_arena_twice, <- app_assoc. reflexivity.
    + reflexivity.
    + apply Forall_app. split; [eapply Forall_impl; [|exact Hlt]; cbn; intros; lia|].
      constructor; [cbn [t_id new_term]; lia|constructor].
    + lia.
Qed.

(* the block of new_term calls IS the run of calls *)
Theorem many_terms_is_calls first stride count o : many_terms first stride count o = many_slow first stride count o.
Proof.
  unfold many_terms. destruct (ar_terms (o_arena o)) as [|t ts] eqn:Et; [|reflexivity].
  destruct ((1 <=? stride) && (first + stride * N.of_nat count <=? MAX_HPO_ID)) eqn:Ec; [|reflexivity].
  apply andb_true_iff in Ec as [E1 E2]. apply N.leb_le in E1, E2.
  symmetry. rewrite (insert_block stride E1 count first [] o Et (Forall_nil _) E2). reflexivity.
Qed.

(* ---------------- connect_all_terms without parent links ---------------- *)

Lemma update_by_fix {A} (key : A -> N) k (f : A -> A) l : (forall x, In x l -> f x = x) -> update_by key k f l = l.
Proof.
  induction l as [|a t IH]; intros H; cbn [update_by]; [reflexivity|].
  destruct (key a =? k); [rewrite (H a (or_introl eq_refl)); reflexivity|].
  rewrite IH; [reflexivity|]. intros x Hx. apply H. right. exact Hx.
Qed.

Lemma find_by_In (ts : list term) id : In id (map t_id ts) -> exists t, find_by t_id id ts = Some t /\ In t ts.
Proof.
  induction ts as [|t ts IH]; intros Hin; [destruct Hin|]. cbn [find_by].
  destruct (N.eqb_spec (t_id t) id) as [E|E].
  - exists t. split; [reflexivity|left; reflexivity].
  - destruct Hin as [Hin|Hin]; [congruence|]. destruct (IH Hin) as [t' [H1 H2]]. exists t'. split; [exact H1|right; exact H2].
Qed.

Lemma set_allp_nil t : t_allp t = [] -> set_allp [] t = t.
Proof. destruct t. cbn. intros ->. reflexivity. Qed.

Lemma create_cache_unlinked f a id :
  (forall t, In t (ar_terms a) -> unlinked t = true /\ t_id t < MAX_HPO_ID) ->
  In id (ar_keys a) -> create_cache (S f) a id = Ok a.
Proof.
  intros Hall Hin. destruct (find_by_In (ar_terms a) id Hin) as [t [Hf Ht]].
  destruct (Hall t Ht) as [Hu Hid].
  assert (t_id t = id) as Eid.
  { clear -Hf. induction (ar_terms a) as [|x l IH]; cbn [find_by] in Hf; [discriminate|].
    destruct (N.eqb_spec (t_id x) id); [injection Hf as <-; assumption|auto]. }
  cbn [create_cache]. unfold ar_get_unchecked, ar_find.
  assert (MAX_HPO_ID <=? id = false) as -> by (apply N.leb_gt; lia).
  rewrite Hf. cbn [bind]. unfold unlinked in Hu.
  destruct (t_parents t) eqn:Ep; [|discriminate]. destruct (t_allp t) eqn:Ea; [|discriminate].
  cbn [foldM bind]. unfold ar_update_unchecked, ar_find.
  assert (MAX_HPO_ID <=? id = false) as -> by (apply N.leb_gt; lia).
  rewrite Hf. unfold ar_update. rewrite update_by_fix.
  - destruct a; reflexivity.
  - intros x Hx. destruct (Hall x Hx) as [Hux _]. unfold unlinked in Hux.
    destruct (t_parents x); [|discriminate]. destruct (t_allp x) eqn:Eax; [|discriminate].
    cbn [g_union]. apply set_allp_nil. exact Eax.
Qed.

Lemma foldM_const {A S} (f : S -> A -> res S) l s : (forall x, In x l -> f s x = Ok s) -> foldM f l s = Ok s.
Proof.
  induction l as [|x l IH]; intros H; cbn [foldM]; [reflexivity|].
  rewrite (H x (or_introl eq_refl)). cbn [bind]. apply IH. intros y Hy. apply H. right. exact Hy.
Qed.

Theorem connect_unlinked_is_connect o : connect_unlinked o = b_connect_all_terms o.
Proof.
  unfold connect_unlinked.
  destruct (forallb unlinked (ar_terms (o_arena o)) && forallb (fun t => t_id t <? MAX_HPO_ID) (ar_terms (o_arena o))) eqn:E;
    [|reflexivity].
  apply andb_true_iff in E as [E1 E2]. rewrite forallb_forall in E1, E2.
  unfold b_connect_all_terms, connect_all, default_fuel. rewrite foldM_const.
  - cbn [bind]. destruct o as [a g m r v c mo]. reflexivity.
  - intros id Hid. apply create_cache_unlinked; [|exact Hid].
    intros t Ht. split; [apply E1, Ht|]. apply N.ltb_lt, E2, Ht.
Qed.

(* ---------------- the whole script ---------------- *)

Lemma foldM_map {A B S} (g : A -> B) (f : S -> B -> res S) l : forall s,
  foldM f (map g l) s = foldM (fun s a => f s (g a)) l s.
Proof. induction l as [|a l IH]; intros s; cbn [map foldM]; [reflexivity|]. destruct (f s (g a)); cbn [bind]; auto. Qed.

Theorem run_many_is_script icf ver first stride count :
  run_many icf ver first stride count = run_script icf (many_script ver first stride count).
Proof.
  unfold run_many, run_script, many_script, run_builder.
  rewrite many_terms_is_calls. unfold many_slow. rewrite foldM_map. cbn [fst snd].
  destruct (foldM _ (tseq first stride count) (set_version ver onto_new)) as [o1| | |]; cbn [bind]; try reflexivity.
  unfold run_ops. cbn [foldM bind]. rewrite connect_unlinked_is_connect.
  destruct (b_connect_all_terms o1) as [o3| | |]; cbn [bind app]; reflexivity.
Qed.
