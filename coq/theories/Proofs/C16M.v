(* C16M.v — everything derived is a function of the direct facts: two ontologies (however built,
   in whatever order) that satisfy the invariants of built ontologies and agree on their direct
   facts — the term ids, the is_a links, the records' direct terms — agree, term by term, on
   parents, children, ancestor caches, all three annotation sets and the information content. *)
From Coq Require Import Lia Relations Sorted Permutation.
From HpoV Require Import Gen.Consts Model.Base Model.Group Model.Onto Model.Query
  Proofs.GroupP Proofs.BaseP Proofs.ClosureP Proofs.AcyclicP Proofs.DistP Proofs.QgoodP Proofs.LinkP Proofs.RecordsP Proofs.C03W
  Proofs.SectionP Proofs.RoundTripP Proofs.AnnotP Proofs.ReloadP Proofs.BuilderAnnotP Proofs.BuilderICP Proofs.RoundTripAllP Model.Script.

Record same_facts (o1 o2 : onto) : Prop := {
  sf_links : forall c p, parent_rel (o_arena o1) c p <-> parent_rel (o_arena o2) c p;
  sf_records : forall k, Permutation (map a_id (o_records k o1)) (map a_id (o_records k o2));
  sf_direct : forall k g x, In x (direct k o1 g) <-> In x (direct k o2 g)
}.

Lemma allp_of_term o t : qgood o -> In t (ar_terms (o_arena o)) -> allp_of (o_arena o) (t_id t) = t_allp t.
Proof. intros G Ht. unfold allp_of. rewrite (find_unique _ t (q_wf o G) Ht). reflexivity. Qed.

Lemma allp_of_anc o d x : qgood o -> In d (ar_keys (o_arena o)) -> (In x (allp_of (o_arena o) d) <-> anc (o_arena o) d x).
Proof.
  intros G Hd. destruct (key_find _ d (q_wf o G) Hd) as [t [Hf [Ht [Hid _]]]]. unfold allp_of. rewrite Hf.
  rewrite <- Hid. apply (q_exact o G t Ht).
Qed.

Theorem derived_data_function_of_facts icf o1 o2 t1 t2 :
  src_ok o1 -> src_ok o2 -> ann_ok o1 -> ann_ok o2 -> ic_ok icf o1 -> ic_ok icf o2 ->
  (forall k, NoDup (map a_id (o_records k o1))) -> (forall k, NoDup (map a_id (o_records k o2))) ->
  (forall k r d, In r (o_records k o1) -> In d (a_hpos r) -> In d (ar_keys (o_arena o1))) ->
  (forall k r d, In r (o_records k o2) -> In d (a_hpos r) -> In d (ar_keys (o_arena o2))) ->
  same_facts o1 o2 ->
  In t1 (ar_terms (o_arena o1)) -> In t2 (ar_terms (o_arena o2)) -> t_id t2 = t_id t1 ->
  t_parents t2 = t_parents t1 /\ t_children t2 = t_children t1 /\ t_allp t2 = t_allp t1 /\
  (forall k, t_annots k t2 = t_annots k t1) /\ t_ic t2 = t_ic t1.
Proof.
  intros S1 S2 A1 A2 I1 I2 Nd1 Nd2 Hk1 Hk2 [SL SR SD] H1 H2 Eid.
  pose proof (so_q o1 S1) as G1. pose proof (so_q o2 S2) as G2.
  pose proof (q_wf o1 G1) as W1. pose proof (q_wf o2 G2) as W2.
  assert (forall c x, anc (o_arena o1) c x <-> anc (o_arena o2) c x) as AN.
  { intros c x. unfold anc. split; apply clos_trans_ext; intros a b; [apply SL|symmetry; apply SL]. }
  assert (t_parents t2 = t_parents t1) as Ep.
  { apply sorted_ext; [apply (q_sorted_p o2 G2 t2 H2)|apply (q_sorted_p o1 G1 t1 H1)|].
    intros y. rewrite <- (parent_rel_of_term _ t2 y W2 H2), <- (parent_rel_of_term _ t1 y W1 H1), Eid. symmetry. apply SL. }
  assert (t_children t2 = t_children t1) as Ec.
  { apply sorted_ext; [apply (so_sc o2 S2 t2 H2)|apply (so_sc o1 S1 t1 H1)|].
    intros c. rewrite <- (child_rel_of_term _ t2 c W2 H2), <- (child_rel_of_term _ t1 c W1 H1), Eid.
    rewrite <- (so_inv o2 S2 c (t_id t1)), <- (so_inv o1 S1 c (t_id t1)). symmetry. apply SL. }
  assert (t_allp t2 = t_allp t1) as Ea.
  { apply sorted_ext; [apply (q_sorted_a o2 G2 t2 H2)|apply (q_sorted_a o1 G1 t1 H1)|].
    intros x. rewrite (q_exact o2 G2 t2 H2 x), (q_exact o1 G1 t1 H1 x), Eid. symmetry. apply AN. }
  (* records by id: membership in the list <-> found by id (unique ids) *)
  assert (forall o k, (forall k, NoDup (map a_id (o_records k o))) -> forall g d,
            (exists r, In r (o_records k o) /\ a_id r = g /\ In d (a_hpos r)) <-> In d (direct k o g)) as DR.
  { intros o k Nd g d. unfold direct, an_find. split.
    - intros [r [Hr [Hid Hd]]]. rewrite <- Hid, (find_by_unique a_id _ r (Nd k) Hr). exact Hd.
    - destruct (find_by a_id g (o_records k o)) as [r|] eqn:Ef; [|intros []]. intros Hd.
      apply find_by_Some in Ef as [Hr Hid]. exists r. auto. }
  assert (forall k, t_annots k t2 = t_annots k t1) as En.
  { intros k. apply sorted_ext; [apply (an_sorted o2 A2 k t2 H2)|apply (an_sorted o1 A1 k t1 H1)|].
    intros x. rewrite (an_exact o2 A2 k t2 H2 x), (an_exact o1 A1 k t1 H1 x), Eid. split.
    - intros [r [Hr [Hid [d [Hd Hreach]]]]].
      assert (In d (direct k o1 x)) as Hd1 by (apply SD, (DR o2 k Nd2 x d); exists r; auto).
      apply (DR o1 k Nd1 x d) in Hd1 as [r1 [Hr1 [Hid1 Hd1]]]. exists r1. split; [exact Hr1|]. split; [exact Hid1|]. exists d. split; [exact Hd1|].
      destruct Hreach as [E|Hin]; [left; exact E|right].
      apply (allp_of_anc o1 d _ G1 (Hk1 k r1 d Hr1 Hd1)). apply AN. apply (allp_of_anc o2 d _ G2 (Hk2 k r d Hr Hd)). exact Hin.
    - intros [r [Hr [Hid [d [Hd Hreach]]]]].
      assert (In d (direct k o2 x)) as Hd2 by (apply SD, (DR o1 k Nd1 x d); exists r; auto).
      apply (DR o2 k Nd2 x d) in Hd2 as [r2 [Hr2 [Hid2 Hd2]]]. exists r2. split; [exact Hr2|]. split; [exact Hid2|]. exists d. split; [exact Hd2|].
      destruct Hreach as [E|Hin]; [left; exact E|right].
      apply (allp_of_anc o2 d _ G2 (Hk2 k r2 d Hr2 Hd2)). apply AN. apply (allp_of_anc o1 d _ G1 (Hk1 k r d Hr Hd)). exact Hin. }
  split; [exact Ep|]. split; [exact Ec|]. split; [exact Ea|]. split; [exact En|].
  apply ic_of_ext. intros k. pose proof (I1 t1 H1 k) as J1. pose proof (I2 t2 H2 k) as J2.
  rewrite (En k) in J2.
  assert (Nlen (o_records k o2) = Nlen (o_records k o1)) as El.
  { unfold Nlen. f_equal. rewrite <- (map_length a_id (o_records k o2)), <- (map_length a_id (o_records k o1)).
    symmetry. apply Permutation_length, SR. }
  rewrite El, J1 in J2. injection J2 as ->. reflexivity.
Qed.

(* ... in particular for any two Builder scripts: whatever calls they make in whatever order, if the
   finished ontologies agree on the direct facts they agree on everything derived *)
Theorem builder_scripts_order_independent icf s1 s2 c1 c2 o1 o2 t1 t2 :
  run_script icf s1 = Ok (c1, Ok o1) -> run_script icf s2 = Ok (c2, Ok o2) -> same_facts o1 o2 ->
  In t1 (ar_terms (o_arena o1)) -> In t2 (ar_terms (o_arena o2)) -> t_id t2 = t_id t1 ->
  t_parents t2 = t_parents t1 /\ t_children t2 = t_children t1 /\ t_allp t2 = t_allp t1 /\
  (forall k, t_annots k t2 = t_annots k t1) /\ t_ic t2 = t_ic t1.
Proof.
  intros R1 R2 SF. apply (derived_data_function_of_facts icf o1 o2 t1 t2).
  - apply (run_script_src_ok icf s1 c1 o1 R1).
  - apply (run_script_src_ok icf s2 c2 o2 R2).
  - apply (run_script_ann_ok icf s1 c1 o1 R1).
  - apply (run_script_ann_ok icf s2 c2 o2 R2).
  - intros t Ht k. apply (run_script_ic icf s1 c1 o1 R1 t Ht k).
  - intros t Ht k. apply (run_script_ic icf s2 c2 o2 R2 t Ht k).
  - apply (run_script_records_nodup icf s1 c1 o1 R1).
  - apply (run_script_records_nodup icf s2 c2 o2 R2).
  - apply (run_script_direct_in_keys icf s1 c1 o1 R1).
  - apply (run_script_direct_in_keys icf s2 c2 o2 R2).
  - exact SF.
Qed.
