(* C04T.v — TOTALITY of the built-in similarities (Model/Similarity.v): for two terms of an acyclic
   ontology with exact caches, in every number structure whose exp is defined, the six IC-based
   algorithms always return; Distance returns when the distance fits u16 and Mutation when the
   annotation counts do (usize_to_f32 panics beyond u16::MAX — in a built ontology the counts are at
   most u16::MAX, or calculate_information_content would have failed). *)
From Coq Require Import Lia Relations.
From HpoV Require Import Gen.Consts Model.Base Model.Group Model.Onto Model.Query Model.Similarity
  Proofs.GroupP Proofs.BaseP Proofs.ClosureP Proofs.AcyclicP Proofs.DistP Proofs.DistTermP Proofs.TotalDistP Proofs.C18P Proofs.WalkP Proofs.C12tP.

Section T.
  Variable F : Type.
  Variable fadd fsub fmul fdiv : F -> F -> F.
  Variable fgt : F -> F -> bool.
  Variable fis0 : F -> bool.
  Variable fzero fnzero fone ftwo fmone : F.
  Variable f_of_u16 : N -> F.
  Variable fexp : F -> res F.
  Variable ic : kind -> term -> F.
  Hypothesis fexp_total : forall x, exists y, fexp x = Ok y.

  Variable o : onto.
  Hypothesis G : qgood o.
  Hypothesis Ac : acyclic (o_arena o).

  Notation sim := (similarity F fadd fsub fmul fdiv fgt fis0 fzero fnzero fone ftwo fmone f_of_u16 fexp ic).

  Lemma ancestors_resolve g : (forall x, In x g -> In x (ar_keys (o_arena o))) -> exists ts, resolve_all o g = Ok ts.
  Proof. apply (resolve_all_keys o g G). Qed.

  Lemma allp_keys t x : In t (ar_terms (o_arena o)) -> In x (t_allp t) -> In x (ar_keys (o_arena o)).
  Proof. intros Ht Hx. apply (q_exact o G t Ht) in Hx. apply (AnnotP.anc_in_keys _ _ _ (q_wf o G) Hx). Qed.

  Lemma common_resolve a b : In a (ar_terms (o_arena o)) -> In b (ar_terms (o_arena o)) ->
    exists ts, resolve_all o (all_common_ancestor_ids a b) = Ok ts.
  Proof.
    intros Ha Hb. apply ancestors_resolve. intros c Hc. apply (common_In o a b c Ha Hb) in Hc as [[->|Hc] _].
    - unfold ar_keys. apply in_map, Ha.
    - apply (allp_keys a c Ha Hc).
  Qed.

  Lemma union_resolve a b : In a (ar_terms (o_arena o)) -> In b (ar_terms (o_arena o)) ->
    exists ts, resolve_all o (union_ancestor_ids a b) = Ok ts.
  Proof.
    intros Ha Hb. apply ancestors_resolve. intros c Hc. unfold union_ancestor_ids in Hc. apply g_union_In in Hc as [Hc|Hc];
      [apply (allp_keys a c Ha Hc)|apply (allp_keys b c Hb Hc)].
  Qed.

  Lemma resnik_total k a b : In a (ar_terms (o_arena o)) -> In b (ar_terms (o_arena o)) -> exists r, resnik F fgt fzero ic o k a b = Ok r.
  Proof. intros Ha Hb. unfold resnik. destruct (common_resolve a b Ha Hb) as [cs ->]. cbn [bind]. eexists. reflexivity. Qed.

  Lemma lin_total k a b : In a (ar_terms (o_arena o)) -> In b (ar_terms (o_arena o)) -> exists r, lin F fadd fmul fdiv fgt fis0 fzero ftwo ic o k a b = Ok r.
  Proof.
    intros Ha Hb. unfold lin. destruct (fis0 _); [eexists; reflexivity|]. destruct (resnik_total k a b Ha Hb) as [r ->]. cbn [bind]. eexists. reflexivity.
  Qed.

  (* the six IC-based algorithms always return *)
  Theorem ic_similarities_return g k a b : In a (ar_terms (o_arena o)) -> In b (ar_terms (o_arena o)) ->
    g <> ADistance -> g <> AMutation -> exists r, sim g o k a b = Ok r.
  Proof.
    intros Ha Hb Hd Hm. unfold similarity. destruct g; try congruence.
    - unfold graphic. destruct (t_id a =? t_id b); [eexists; reflexivity|].
      destruct (union_resolve a b Ha Hb) as [us ->]. cbn [bind]. destruct (fis0 _); [eexists; reflexivity|].
      destruct (common_resolve a b Ha Hb) as [cs ->]. cbn [bind]. eexists. reflexivity.
    - apply (resnik_total k a b Ha Hb).
    - apply (lin_total k a b Ha Hb).
    - unfold jc. destruct (t_id a =? t_id b); [eexists; reflexivity|]. destruct (fis0 _ || fis0 _); [eexists; reflexivity|].
      destruct (resnik_total k a b Ha Hb) as [r ->]. cbn [bind]. eexists. reflexivity.
    - unfold relevance. destruct (resnik_total k a b Ha Hb) as [r ->]. cbn [bind]. destruct (lin_total k a b Ha Hb) as [l ->]. cbn [bind].
      destruct (fexp_total (fmul r fmone)) as [e ->]. cbn [bind]. eexists. reflexivity.
    - unfold infcoef. destruct (resnik_total k a b Ha Hb) as [r ->]. cbn [bind]. destruct (lin_total k a b Ha Hb) as [l ->]. cbn [bind]. eexists. reflexivity.
  Qed.

  (* Distance returns unless the distance exceeds u16::MAX *)
  Theorem distance_similarity_returns k a b : In a (ar_terms (o_arena o)) -> In b (ar_terms (o_arena o)) ->
    (forall d, dist_term o a b = Ok (Some d) -> d <= 65535) -> exists r, sim ADistance o k a b = Ok r.
  Proof.
    intros Ha Hb Hd. unfold similarity, distance_sim. destruct (distance_to_term_returns o G Ac a b Ha Hb) as [d Ed]. rewrite Ed. cbn [bind].
    destruct d as [n|]; [|eexists; reflexivity]. unfold usize_f. pose proof (Hd n Ed) as Hn.
    destruct (N.ltb_spec 65535 n); [lia|]. cbn [bind]. eexists. reflexivity.
  Qed.
End T.
