(* BulkP.v — the block form of a long run of add_* calls (Model/Bulk.v) is the call-by-call run *)
From Coq Require Import Lia.
From HpoV Require Import Gen.Consts Model.Base Model.Group Model.Onto Model.Query Model.Dump Model.Script Model.Bulk.

Lemma foldM_app' {A S} (f : S -> A -> res S) l1 l2 s : foldM f (l1 ++ l2) s = do s' <- foldM f l1 s ;; foldM f l2 s'.
Proof.
  revert s. induction l1 as [|a l1 IH]; intros s; cbn [app foldM bind]; [reflexivity|].
  destruct (f s a); cbn [bind]; auto.
Qed.

Lemma set_records_same k o : set_records k (o_records k o) o = o.
Proof. destruct k, o; reflexivity. Qed.
Lemma set_records_twice k l l' o : set_records k l (set_records k l' o) = set_records k l o.
Proof. destruct k; reflexivity. Qed.
Lemma o_records_set k l o : o_records k (set_records k l o) = l.
Proof. destruct k; reflexivity. Qed.

Lemma find_outside first c l : forallb (outside first (S c)) l = true -> an_find first l = None.
Proof.
  unfold an_find. induction l as [|r l IH]; cbn [forallb find_by]; intros H; [reflexivity|].
  apply andb_true_iff in H as [Hr Hl]. unfold outside in Hr.
  destruct (N.eqb_spec (a_id r) first) as [E|E]; [|auto].
  exfalso. apply orb_true_iff in Hr as [Hr|Hr]; [apply N.ltb_lt in Hr|apply N.leb_le in Hr]; lia.
Qed.

Lemma bulk_slow_block k : forall count first o, forallb (outside first count) (o_records k o) = true ->
  bulk_slow k first count o
  = set_records k (o_records k o ++ map (fun id => mkAnnot id bulk_name []) (nrange first count)) o.
Proof.
  unfold bulk_slow. induction count as [|c IH]; intros first o H; cbn [nrange fold_left map].
  - rewrite app_nil_r, set_records_same. reflexivity.
  - unfold b_add_record at 2. unfold an_add. rewrite (find_outside first c _ H).
    rewrite IH.
    + rewrite o_records_set, set_records_twice, <- app_assoc. reflexivity.
    + rewrite o_records_set, forallb_app. apply andb_true_iff. split.
      * rewrite forallb_forall in *. intros r Hr. specialize (H r Hr). unfold outside in *.
        apply orb_true_iff in H. apply orb_true_iff. destruct H as [H|H]; [left; apply N.ltb_lt in H; apply N.ltb_lt; lia|].
        right. apply N.leb_le in H. apply N.leb_le. lia.
      * cbn [forallb]. rewrite andb_true_r. unfold outside. cbn [a_id]. apply orb_true_iff. left. apply N.ltb_lt. lia.
Qed.

(* the block append IS the run of calls, whatever records are already present *)
Theorem bulk_add_is_calls k first count o : bulk_add k first count o = bulk_slow k first count o.
Proof.
  unfold bulk_add. destruct (forallb (outside first count) (o_records k o)) eqn:E; [|reflexivity].
  symmetry. apply bulk_slow_block. exact E.
Qed.

Lemma length_nrange count : forall first, length (nrange first count) = count.
Proof. induction count as [|c IH]; intros first; cbn [nrange length]; [reflexivity|]. rewrite IH. reflexivity. Qed.

Definition astep (st : onto * list N) (op : annot_op) : res (onto * list N) :=
  let (o1, codes) := st in
  do r <- run_annot_op o1 op ;; let (o2, c) := r : onto * N in Ok (o2, codes ++ [c]).

Lemma run_adds tag : tag <? 3 = true -> forall ids o pre,
  foldM astep (map (fun id => (tag, id, 0, bulk_name)) ids) (o, pre)
  = Ok (fold_left (fun o id => b_add_record (kind_of tag) bulk_name id o) ids o, pre ++ repeat 0 (length ids)).
Proof.
  intros Ht. induction ids as [|id ids IH]; intros o pre; cbn [map foldM fold_left length repeat].
  - rewrite app_nil_r. reflexivity.
  - unfold astep at 1. unfold run_annot_op. rewrite Ht. cbn [bind]. rewrite IH, <- app_assoc. reflexivity.
Qed.

Lemma run_pre ops : forall o pre,
  foldM astep ops (o, pre) = do r <- foldM astep ops (o, []) ;; let (o', cs) := r : onto * list N in Ok (o', pre ++ cs).
Proof.
  induction ops as [|op ops IH]; intros o pre; cbn [foldM bind].
  - rewrite app_nil_r. reflexivity.
  - unfold astep at 1 3. destruct (run_annot_op o op) as [[o2 c]| | |]; cbn [bind]; try reflexivity.
    rewrite (IH o2 (pre ++ [c])), (IH o2 ([] ++ [c])).
    destruct (foldM astep ops (o2, [])) as [[o' cs]| | |]; cbn [bind]; try reflexivity.
    rewrite <- app_assoc. reflexivity.
Qed.

(* the script with the block is the script with the calls spelled out: same builder state, same codes *)
Theorem run_builder_bulk_is_script s tag first count : tag <? 3 = true ->
  run_builder_bulk s tag first count = run_builder (with_bulk s tag first count).
Proof.
  intros Ht. destruct s as [[[[ver terms] parents] annots] kindb]. unfold run_builder_bulk, run_builder, with_bulk.
  destruct (foldM _ terms _) as [o1| | |]; cbn [bind]; try reflexivity.
  destruct (run_ops _ parents o1) as [[o2 codes2]| | |]; cbn [bind]; try reflexivity.
  destruct (b_connect_all_terms o2) as [o3| | |]; cbn [bind]; try reflexivity.
  unfold run_ops. change (foldM _ ?l ?st) with (foldM astep l st).
  rewrite foldM_app'. unfold bulk_ops. rewrite (run_adds tag Ht). cbn [bind app].
  rewrite length_nrange, bulk_add_is_calls. unfold bulk_slow.
  rewrite (run_pre annots _ (repeat 0 count)).
  destruct (foldM astep annots _) as [[o4 codes4]| | |]; cbn [bind]; reflexivity.
Qed.

Theorem run_script_bulk_is_script icf s tag first count : tag <? 3 = true ->
  run_script_bulk icf s tag first count = run_script icf (with_bulk s tag first count).
Proof.
  intros Ht. unfold run_script_bulk, run_script. rewrite (run_builder_bulk_is_script s tag first count Ht).
  destruct s as [[[[ver terms] parents] annots] kindb]. reflexivity.
Qed.
