(* C13P.v — HpoSet operations of the model are the stated filters / maps *)
From Coq Require Import Sorted Lia.
From HpoV Require Import Gen.Consts Model.Base Model.Group Model.Onto Model.Query Model.HSet
  Spec.Sets Proofs.GroupP Proofs.SetsP Proofs.BaseP.

Lemma o_get_id o x t : o_get x o = Some t -> t_id t = x.
Proof.
  unfold o_get, ar_get. destruct (MAX_HPO_ID <=? x); [discriminate|].
  unfold ar_find. intros H. apply find_by_Some in H. tauto.
Qed.

Lemma hs_term_Ok o x t : hs_term o x = Ok t <-> o_get x o = Some t.
Proof. unfold hs_term, opt_panic. destruct (o_get x o); split; congruence. Qed.

(* without_obsolete keeps exactly the members that are not flagged obsolete *)
Theorem without_obsolete_spec o s r : hs_without_obsolete o s = Ok r ->
  sorted r /\ forall x, In x r <-> In x s /\ exists t, o_get x o = Some t /\ t_obsolete t = false.
Proof.
  unfold hs_without_obsolete. intros H.
  destruct (mapM (hs_term o) s) as [ts| | |] eqn:E; cbn [bind] in H; try discriminate.
  injection H as <-. split; [apply g_from_list_sorted|]. intros x.
  rewrite g_from_list_In, in_map_iff. apply mapM_Ok in E. split.
  - intros [t [Hid Ht]]. apply filter_In in Ht as [Ht Hob].
    destruct (Forall2_In_r _ _ _ _ E Ht) as [m [Hm Hget]]. apply hs_term_Ok in Hget.
    pose proof (o_get_id _ _ _ Hget) as Hidm. assert (m = x) as -> by congruence.
    split; [exact Hm|]. exists t. split; [exact Hget|]. apply negb_true_iff, Hob.
  - intros [Hx [t [Hget Hob]]]. destruct (Forall2_In_l _ _ _ _ E Hx) as [t' [Ht' Hget']].
    apply hs_term_Ok in Hget'. assert (t' = t) as -> by congruence.
    exists t. split; [apply (o_get_id _ _ _ Hget)|]. apply filter_In. split; [exact Ht'|].
    apply negb_true_iff, Hob.
Qed.

(* with_replaced_obsolete substitutes exactly the members that name a replacement *)
Theorem with_replaced_spec o s r : hs_with_replaced o s = Ok r ->
  sorted r /\ forall x, In x r <->
    exists m t, In m s /\ o_get m o = Some t /\ x = match t_repl t with Some rp => rp | None => m end.
Proof.
  unfold hs_with_replaced. intros H.
  destruct (mapM (hs_term o) s) as [ts| | |] eqn:E; cbn [bind] in H; try discriminate.
  injection H as <-. split; [apply g_from_list_sorted|]. intros x.
  rewrite g_from_list_In, in_map_iff. apply mapM_Ok in E. split.
  - intros [t [Hx Ht]]. destruct (Forall2_In_r _ _ _ _ E Ht) as [m [Hm Hget]]. apply hs_term_Ok in Hget.
    exists m, t. repeat split; auto. rewrite <- Hx, (o_get_id _ _ _ Hget). reflexivity.
  - intros [m [t [Hm [Hget Hx]]]]. destruct (Forall2_In_l _ _ _ _ E Hm) as [t' [Ht' Hget']].
    apply hs_term_Ok in Hget'. assert (t' = t) as -> by congruence.
    exists t. split; [|exact Ht']. rewrite Hx, (o_get_id _ _ _ Hget). reflexivity.
Qed.

(* the in-place operations are the copying ones *)
Theorem in_place_same o s :
  hs_remove_obsolete o s = hs_without_obsolete o s /\
  hs_replace_obsolete o s = hs_with_replaced o s /\
  hs_remove_modifier o s = hs_without_modifier o s.
Proof. repeat split. Qed.

(* child_nodes keeps exactly the members that are not an ancestor of any member *)
Theorem child_nodes_spec o s r :
  (forall m t, In m s -> o_get m o = Some t -> sorted (t_allp t)) ->
  hs_child_nodes o s = Ok r ->
  sorted r /\ forall x, In x r <-> In x s /\ ~ exists m t, In m s /\ o_get m o = Some t /\ In x (t_allp t).
Proof.
  intros Hsorted. unfold hs_child_nodes. intros H.
  destruct (mapM _ s) as [keep| | |] eqn:E; cbn [bind] in H; try discriminate.
  injection H as <-. split; [apply g_from_list_sorted|]. intros x.
  rewrite g_from_list_In, in_map_iff. apply mapM_Ok in E. split.
  - intros [[y fl] [Hy Hin]]. cbn [fst] in Hy. subst y. apply filter_In in Hin as [Hin Hfl]. cbn [snd] in Hfl. subst fl.
    destruct (Forall2_In_r _ _ _ _ E Hin) as [x' [Hx' Hk]].
    destruct (mapM (fun t2 => do t <- hs_term o t2 ;; Ok (negb (g_contains x' (t_allp t)))) s) as [flags| | |] eqn:Ef;
      cbn [bind] in Hk; try discriminate.
    injection Hk as -> Hall. split; [exact Hx'|].
    intros [m [t [Hm [Hget Hanc]]]]. apply mapM_Ok in Ef.
    destruct (Forall2_In_l _ _ _ _ Ef Hm) as [fl [Hfl Hc]].
    apply hs_term_Ok in Hget. rewrite Hget in Hc. cbn [bind] in Hc. injection Hc as <-.
    rewrite forallb_forall in Hall. specialize (Hall _ Hfl).
    apply negb_true_iff in Hall. apply (g_contains_spec x _ (Hsorted m t Hm (proj1 (hs_term_Ok o m t) Hget))) in Hanc. congruence.
  - intros [Hx Hno]. destruct (Forall2_In_l _ _ _ _ E Hx) as [[y fl] [Hin Hk]].
    destruct (mapM (fun t2 => do t <- hs_term o t2 ;; Ok (negb (g_contains x (t_allp t)))) s) as [flags| | |] eqn:Ef;
      cbn [bind] in Hk; try discriminate.
    injection Hk as <- <-. exists (x, forallb (fun b => b) flags). split; [reflexivity|].
    apply filter_In. split; [exact Hin|]. cbn [snd]. apply forallb_forall. intros b Hb.
    apply mapM_Ok in Ef. destruct (Forall2_In_r _ _ _ _ Ef Hb) as [m [Hm Hc]].
    destruct (hs_term o m) as [t| | |] eqn:Et; cbn [bind] in Hc; try discriminate. injection Hc as <-.
    apply negb_true_iff. destruct (g_contains x (t_allp t)) eqn:Eg; [|reflexivity]. exfalso. apply Hno.
    apply hs_term_Ok in Et. exists m, t. split; [exact Hm|]. split; [exact Et|].
    apply (g_contains_spec x _ (Hsorted m t Hm Et)). exact Eg.
Qed.

(* without_modifier keeps exactly the members that are not modifier terms *)
Theorem without_modifier_spec o s r : hs_without_modifier o s = Ok r ->
  sorted r /\ forall x, In x r <-> In x s /\ exists t, o_get x o = Some t /\ is_modifier o t = false.
Proof.
  unfold hs_without_modifier. intros H.
  destruct (resolve_all o s) as [ts| | |] eqn:E; cbn [bind] in H; try discriminate.
  injection H as <-. split; [apply g_from_list_sorted|]. intros x.
  rewrite g_from_list_In, in_map_iff. unfold resolve_all in E. apply mapM_Ok in E. split.
  - intros [t [Hid Ht]]. apply filter_In in Ht as [Ht Hm].
    destruct (Forall2_In_r _ _ _ _ E Ht) as [m [Hmin Hget]]. unfold resolve in Hget. apply hs_term_Ok in Hget.
    pose proof (o_get_id _ _ _ Hget) as Hidm. assert (m = x) as -> by congruence.
    split; [exact Hmin|]. exists t. split; [exact Hget|]. apply negb_true_iff, Hm.
  - intros [Hx [t [Hget Hm]]]. destruct (Forall2_In_l _ _ _ _ E Hx) as [t' [Ht' Hget']].
    unfold resolve in Hget'. apply hs_term_Ok in Hget'. assert (t' = t) as -> by congruence.
    exists t. split; [apply (o_get_id _ _ _ Hget)|]. apply filter_In. split; [exact Ht'|]. apply negb_true_iff, Hm.
Qed.
