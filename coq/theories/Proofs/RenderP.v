(* RenderP.v — Ontology::as_mermaid / as_graphviz (Model/Render.v): on every ontology with exact caches
   and children = parents^-1 (every constructed ontology) the calls return, the mermaid text is the
   header followed, term by term in iteration order, by the node label and one edge line per child,
   and the edges drawn are exactly the parent-child links of the ontology. *)
From Coq Require Import Lia.
From HpoV Require Import Gen.Consts Model.Base Model.Group Model.Onto Model.Query Model.Binary Model.TermId Model.Render
  Proofs.GroupP Proofs.BaseP Proofs.ClosureP Proofs.DistP Proofs.QgoodP Proofs.C18P Proofs.RoundTripP Proofs.WalkP.

(* the (parent, child) pairs drawn *)
Definition edge_pairs (o : onto) : list (N * N) :=
  flat_map (fun t => map (fun c => (t_id t, c)) (t_children t)) (ar_terms (o_arena o)).

Theorem edge_pairs_are_the_links o : src_ok o -> forall p c, In (p, c) (edge_pairs o) <-> parent_rel (o_arena o) c p.
Proof.
  intros S p c. rewrite (so_inv o S c p). unfold edge_pairs, child_rel. rewrite in_flat_map. split.
  - intros [t [Ht Hin]]. apply in_map_iff in Hin as [c' [E Hc]]. injection E as <- <-. exists t. auto.
  - intros [t [Ht [<- Hc]]]. exists t. split; [exact Ht|]. apply in_map_iff. exists c. auto.
Qed.

Lemma children_resolve o t : src_ok o -> In t (ar_terms (o_arena o)) ->
  exists cs, resolve_all o (t_children t) = Ok cs /\ map t_id cs = t_children t.
Proof.
  intros S Ht. pose proof (so_q o S) as G.
  destruct (resolve_all_keys o (t_children t) G) as [cs Hcs].
  { intros c Hc. assert (child_rel (o_arena o) (t_id t) c) as Hcr by (exists t; auto).
    apply (so_inv o S c (t_id t)) in Hcr. destruct Hcr as [tc [Htc [Hid _]]]. rewrite <- Hid. unfold ar_keys. apply in_map, Htc. }
  exists cs. split; [exact Hcs|]. apply mapM_Ok in Hcs. clear -Hcs G.
  induction Hcs as [|x y l l' Hxy _ IH]; [reflexivity|]. cbn [map]. rewrite IH. f_equal. apply (resolve_In o x y Hxy).
Qed.

(* the mermaid text, in closed form *)
Theorem mermaid_text o : src_ok o ->
  mermaid o = Ok (s_graph_td ++ concat (map (fun t => mermaid_node t ++
                     concat (map (fun c => show (t_id t) ++ s_arrow ++ show c ++ [NLr]) (t_children t))) (ar_terms (o_arena o)))).
Proof.
  intros S. unfold mermaid.
  assert (forall l, (forall t, In t l -> In t (ar_terms (o_arena o))) ->
            mapM (fun t => do cs <- resolve_all o (t_children t) ;; Ok (mermaid_node t ++ concat (map (mermaid_edge t) cs))) l
            = Ok (map (fun t => mermaid_node t ++ concat (map (fun c => show (t_id t) ++ s_arrow ++ show c ++ [NLr]) (t_children t))) l)) as K.
  { induction l as [|t l IH]; intros Hl; [reflexivity|]. cbn [mapM map].
    destruct (children_resolve o t S (Hl t (or_introl eq_refl))) as [cs [Hcs Hm]]. rewrite Hcs. cbn [bind].
    rewrite IH by (intros t' H'; apply Hl; right; exact H'). cbn [bind]. f_equal. f_equal. f_equal.
    rewrite <- Hm, map_map. unfold mermaid_edge. reflexivity. }
  rewrite K by auto. reflexivity.
Qed.

Theorem graphviz_returns layout o : src_ok o -> exists txt, graphviz layout o = Ok txt.
Proof.
  intros S. unfold graphviz.
  destruct (mapM_all_Ok (fun t => do cs <- resolve_all o (t_children t) ;; Ok (concat (map (graphviz_edge t) cs))) (ar_terms (o_arena o))) as [parts ->].
  - intros t Ht. destruct (children_resolve o t S Ht) as [cs [Hcs _]]. rewrite Hcs. cbn [bind]. eexists; reflexivity.
  - cbn [bind]. eexists; reflexivity.
Qed.
