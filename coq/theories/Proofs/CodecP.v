(* CodecP.v — record-level round trips of the binary format (Model/Binary.v): what the writer
   emits for one term / one gene / one disease is read back as that record (names cut at a char
   boundary stay valid UTF-8), for every record within the format's limits. *)
From Coq Require Import ZArith Lia ZifyN ZifyNat ZifyBool.
From HpoV Require Import Gen.Consts Model.Base Model.Group Model.Onto Model.Binary Proofs.GroupP Proofs.SetsP Proofs.BinaryP Proofs.DecodeP.

Ltac Zify.zify_post_hook ::= Z.div_mod_to_equations.

(* ---------------- UTF-8: a valid string cut at a char boundary is valid ---------------- *)

Lemma is_cont_not_boundary (s : bytes) i b : nth_error s (nat_of i) = Some b -> is_cont b = true -> i <> 0 ->
  is_char_boundary s i = false.
Proof.
  intros H Hc Hi. unfold is_char_boundary. destruct (N.eqb_spec i 0); [contradiction|]. rewrite H, Hc. reflexivity.
Qed.

Lemma boundary_tail (b0 : N) (t : bytes) i : 0 < i -> is_char_boundary (b0 :: t) i = true ->
  is_char_boundary t (i - 1) = true.
Proof.
  intros Hi H. unfold is_char_boundary in *. destruct (N.eqb_spec i 0); [lia|].
  replace (nat_of i) with (S (nat_of (i - 1))) in H by (unfold nat_of; lia). cbn [nth_error] in H.
  destruct (N.eqb_spec (i - 1) 0) as [E|E]; [reflexivity|].
  destruct (nth_error t (nat_of (i - 1))) as [b|]; [exact H|].
  apply N.eqb_eq in H. apply N.eqb_eq. unfold Nlen in *. cbn [length] in H. lia.
Qed.

Lemma utf8_prefix : forall (n : nat) (l : bytes) i, (length l <= n)%nat -> utf8_valid l = true ->
  is_char_boundary l i = true -> utf8_valid (firstn (nat_of i) l) = true.
Proof.
  induction n as [|n IH]; intros l i Hlen Hv Hb.
  - destruct l; [|cbn in Hlen; lia]. rewrite firstn_nil. reflexivity.
  - destruct (N.eq_dec i 0) as [->|Hi0]; [reflexivity|].
    destruct l as [|b0 t]; [rewrite firstn_nil; reflexivity|].
    assert (0 < i) as Hpos by lia.
    replace (nat_of i) with (S (nat_of (i - 1))) by (unfold nat_of; lia).
    cbn [utf8_valid] in Hv. cbn [firstn].
    destruct (b0 <? 128) eqn:E1.
    { cbn [utf8_valid]. rewrite E1. apply IH; [cbn in Hlen; lia|exact Hv|apply (boundary_tail b0 t i Hpos Hb)]. }
    (* multi-byte lead: the cut cannot fall on one of its continuation bytes *)
    assert (forall j b, (0 < j) -> nth_error (b0 :: t) (nat_of j) = Some b -> is_cont b = true -> i <> j) as Hno.
    { intros j b Hj Hn Hc E. subst j. rewrite (is_cont_not_boundary _ _ _ Hn Hc Hi0) in Hb. discriminate. }
    destruct ((194 <=? b0) && (b0 <=? 223)) eqn:E2.
    { destruct t as [|b1 t']; [discriminate|]. apply andb_true_iff in Hv as [Hc1 Hv].
      assert (i <> 1) as H1 by (apply (Hno 1 b1); [lia|reflexivity|exact Hc1]).
      replace (nat_of (i - 1)) with (S (nat_of (i - 2))) by (unfold nat_of; lia). cbn [firstn utf8_valid].
      rewrite E1, E2, Hc1. cbn [andb].
      apply IH; [cbn in Hlen; lia|exact Hv|].
      pose proof (boundary_tail b0 (b1 :: t') i Hpos Hb) as B1.
      replace (i - 2) with (i - 1 - 1) by lia. apply (boundary_tail b1 t' (i - 1)); [lia|exact B1]. }
    destruct ((224 <=? b0) && (b0 <=? 239)) eqn:E3.
    { destruct t as [|b1 [|b2 t']]; try discriminate.
      apply andb_true_iff in Hv as [Hv Hv3]. apply andb_true_iff in Hv as [Hc1 Hc2].
      assert (is_cont b1 = true) as Hc1'.
      { unfold is_cont. destruct (b0 =? 224); [|destruct (b0 =? 237)]; [lia|lia|exact Hc1]. }
      assert (i <> 1) as H1 by (apply (Hno 1 b1); [lia|reflexivity|exact Hc1']).
      assert (i <> 2) as H2 by (apply (Hno 2 b2); [lia|reflexivity|exact Hc2]).
      replace (nat_of (i - 1)) with (S (S (nat_of (i - 3)))) by (unfold nat_of; lia). cbn [firstn utf8_valid].
      rewrite E1, E2, E3, Hc1, Hc2. cbn [andb].
      apply IH; [cbn in Hlen; lia|exact Hv3|].
      pose proof (boundary_tail b0 _ i Hpos Hb) as B1.
      pose proof (boundary_tail b1 _ (i - 1) ltac:(lia) B1) as B2.
      replace (i - 3) with (i - 1 - 1 - 1) by lia. apply (boundary_tail b2 t' (i - 1 - 1)); [lia|exact B2]. }
    destruct ((240 <=? b0) && (b0 <=? 244)) eqn:E4; [|discriminate].
    destruct t as [|b1 [|b2 [|b3 t']]]; try discriminate.
    apply andb_true_iff in Hv as [Hv Hv4]. apply andb_true_iff in Hv as [Hv Hc3]. apply andb_true_iff in Hv as [Hc1 Hc2].
    assert (is_cont b1 = true) as Hc1'.
    { unfold is_cont. destruct (b0 =? 240); [|destruct (b0 =? 244)]; [lia|lia|exact Hc1]. }
    assert (i <> 1) as H1 by (apply (Hno 1 b1); [lia|reflexivity|exact Hc1']).
    assert (i <> 2) as H2 by (apply (Hno 2 b2); [lia|reflexivity|exact Hc2]).
    assert (i <> 3) as H3 by (apply (Hno 3 b3); [lia|reflexivity|exact Hc3]).
    replace (nat_of (i - 1)) with (S (S (S (nat_of (i - 4))))) by (unfold nat_of; lia). cbn [firstn utf8_valid].
    rewrite E1, E2, E3, E4, Hc1, Hc2, Hc3. cbn [andb].
    apply IH; [cbn in Hlen; lia|exact Hv4|].
    pose proof (boundary_tail b0 _ i Hpos Hb) as B1.
    pose proof (boundary_tail b1 _ (i - 1) ltac:(lia) B1) as B2.
    pose proof (boundary_tail b2 _ (i - 1 - 1) ltac:(lia) B2) as B3.
    replace (i - 4) with (i - 1 - 1 - 1 - 1) by lia. apply (boundary_tail b3 t' (i - 1 - 1 - 1)); [lia|exact B3].
Qed.

(* the cut position is a char boundary (a UTF-8 character has at most 4 bytes, so backing off
   at most 3 times from min(len, limit) reaches one) *)
Lemma back_off_boundary s fuel i : (exists k, (k < fuel)%nat /\ N.of_nat k <= i /\ is_char_boundary s (i - N.of_nat k) = true) ->
  is_char_boundary s (back_off s fuel i) = true.
Proof.
  revert i. induction fuel as [|f IH]; intros i [k [Hk [Hle Hb]]]; [lia|]. cbn [back_off].
  destruct (is_char_boundary s i) eqn:E; [exact E|].
  destruct k as [|k]; [replace (i - N.of_nat 0) with i in Hb by lia; congruence|].
  apply IH. exists k. split; [lia|]. split; [lia|]. replace (i - 1 - N.of_nat k) with (i - N.of_nat (S k)) by lia. exact Hb.
Qed.

(* ---------------- positional reads in a concatenation ---------------- *)

Lemma idx_at (pre : bytes) x rest : idx (pre ++ x :: rest) (Nlen pre) = Ok x.
Proof.
  unfold idx, nat_of, Nlen. rewrite Nat2N.id, nth_error_app2 by lia. rewrite Nat.sub_diag. reflexivity.
Qed.

Lemma idx_shift (pre : bytes) b i : idx (pre ++ b) (Nlen pre + i) = idx b i.
Proof.
  unfold idx, nat_of, Nlen. rewrite nth_error_app2 by lia. f_equal. f_equal. lia.
Qed.

Lemma u32_at_shift (pre : bytes) b i : u32_at (pre ++ b) (Nlen pre + i) = u32_at b i.
Proof.
  unfold u32_at. rewrite <- !N.add_assoc, !idx_shift. reflexivity.
Qed.

Lemma u32_at_here (pre : bytes) n rest : n < 4294967296 -> u32_at (pre ++ to_be32 n ++ rest) (Nlen pre) = Ok n.
Proof.
  intros H. replace (Nlen pre) with (Nlen pre + 0) by lia. rewrite u32_at_shift. apply u32_at_to_be32, H.
Qed.

Lemma slice_here (pre mid rest : bytes) : slice (pre ++ mid ++ rest) (Nlen pre) (Nlen pre + Nlen mid) = Ok mid.
Proof.
  unfold slice. rewrite !Nlen_app.
  destruct (N.ltb_spec (Nlen pre + Nlen mid) (Nlen pre)); [lia|].
  destruct (N.ltb_spec (Nlen pre + (Nlen mid + Nlen rest)) (Nlen pre + Nlen mid)); [lia|]. cbn [orb]. f_equal.
  unfold nat_of, Nlen. rewrite Nat2N.id. rewrite skipn_app, skipn_all, Nat.sub_diag. cbn [skipn app].
  replace (N.to_nat (N.of_nat (length pre) + N.of_nat (length mid) - N.of_nat (length pre))) with (length mid) by lia.
  rewrite firstn_app, firstn_all, Nat.sub_diag. cbn [firstn]. apply app_nil_r.
Qed.

(* ---------------- one term record ---------------- *)

Definition cut_name (limit : N) (name : bytes) : bytes := firstn (nat_of (cut_len limit name)) name.

Lemma Nlen_firstn_cut limit name : Nlen (cut_name limit name) = cut_len limit name.
Proof.
  unfold cut_name, Nlen. rewrite firstn_length. destruct (cut_len_le limit name) as [_ H]. unfold Nlen, nat_of in *. lia.
Qed.

Definition repl_ok (r : option N) : Prop := match r with Some x => 0 < x < 4294967296 | None => True end.

(* HpoTermInternal::as_bytes, read back by parser/binary/term.rs (layout v2 / v3): id, name cut at
   the limit, obsolete flag and replacement survive; the length prefix is the record's length *)
Theorem term_record_roundtrip t rest :
  t_id t < 4294967296 -> repl_ok (t_repl t) ->
  utf8_valid (cut_name TERM_NAME_LIMIT (t_name t)) = true ->
  u32_at (enc_term t ++ rest) 0 = Ok (Nlen (enc_term t)) /\
  term_v2 (enc_term t ++ rest) =
    Ok (set_flags (t_obsolete t) (t_repl t) (new_term (cut_name TERM_NAME_LIMIT (t_name t)) (t_id t))).
Proof.
  intros Hid Hrepl Hutf.
  set (nl := cut_len TERM_NAME_LIMIT (t_name t)).
  set (nm := cut_name TERM_NAME_LIMIT (t_name t)).
  assert (Nlen nm = nl) as Hnl by apply Nlen_firstn_cut.
  assert (nl <= 255) as Hle by (destruct (cut_len_le TERM_NAME_LIMIT (t_name t)) as [H _]; exact H).
  set (rp := match t_repl t with Some r => r | None => 0 end).
  assert (rp < 4294967296) as Hrp by (unfold rp; destruct (t_repl t); cbn in Hrepl; lia).
  assert (enc_term t = to_be32 (nl + 14) ++ to_be32 (t_id t) ++ [nl] ++ nm ++ [boolN (t_obsolete t)] ++ to_be32 rp) as E.
  { unfold enc_term. fold nl. replace (nl + 4 + 4 + 1 + 1 + 4) with (nl + 14) by lia. reflexivity. }
  assert (Nlen (enc_term t) = nl + 14) as Hlen.
  { rewrite E, !Nlen_app. unfold Nlen at 1 2 3 5 6. cbn [length to_be32]. rewrite Hnl. lia. }
  split.
  - rewrite Hlen, E, <- !app_assoc. apply u32_at_to_be32. lia.
  - unfold term_v2.
    assert (Nlen (enc_term t ++ rest) <? 14 = false) as -> by (apply N.ltb_ge; rewrite Nlen_app, Hlen; lia).
    (* id at offset 4 *)
    assert (u32_at (enc_term t ++ rest) 4 = Ok (t_id t)) as ->.
    { rewrite E, <- !app_assoc. change 4 with (Nlen (to_be32 (nl + 14))). apply u32_at_here, Hid. }
    cbn [bind].
    (* name length at offset 8 *)
    assert (idx (enc_term t ++ rest) 8 = Ok nl) as ->.
    { replace (enc_term t ++ rest)
        with ((to_be32 (nl + 14) ++ to_be32 (t_id t)) ++ nl :: (nm ++ [boolN (t_obsolete t)] ++ to_be32 rp ++ rest))
        by (rewrite E, <- !app_assoc; reflexivity).
      change 8 with (Nlen (to_be32 (nl + 14) ++ to_be32 (t_id t))). apply idx_at. }
    cbn [bind].
    assert (Nlen (enc_term t ++ rest) <? 14 + nl = false) as -> by (apply N.ltb_ge; rewrite Nlen_app, Hlen; lia).
    (* the name *)
    assert (slice (enc_term t ++ rest) 9 (9 + nl) = Ok nm) as ->.
    { replace (enc_term t ++ rest)
        with ((to_be32 (nl + 14) ++ to_be32 (t_id t) ++ [nl]) ++ nm ++ ([boolN (t_obsolete t)] ++ to_be32 rp ++ rest))
        by (rewrite E, <- !app_assoc; reflexivity).
      change 9 with (Nlen (to_be32 (nl + 14) ++ to_be32 (t_id t) ++ [nl])). rewrite <- Hnl. apply slice_here. }
    cbn [bind]. fold nm in Hutf. rewrite Hutf.
    (* flag and replacement *)
    assert (Nlen (to_be32 (nl + 14) ++ to_be32 (t_id t) ++ [nl] ++ nm) = 9 + nl) as Hp9.
    { rewrite !Nlen_app. unfold Nlen at 1 2 3. cbn [length to_be32]. rewrite Hnl. lia. }
    assert (enc_term t ++ rest = (to_be32 (nl + 14) ++ to_be32 (t_id t) ++ [nl] ++ nm) ++ boolN (t_obsolete t) :: (to_be32 rp ++ rest)) as E2
      by (rewrite E, <- !app_assoc; reflexivity).
    assert (idx (enc_term t ++ rest) (9 + nl) = Ok (boolN (t_obsolete t))) as ->.
    { rewrite E2, <- Hp9. apply idx_at. }
    cbn [bind].
    assert (u32_at (enc_term t ++ rest) (10 + nl) = Ok rp) as ->.
    { rewrite E2. replace (10 + nl) with (Nlen (to_be32 (nl + 14) ++ to_be32 (t_id t) ++ [nl] ++ nm) + 1) by lia.
      rewrite u32_at_shift. change (boolN (t_obsolete t) :: to_be32 rp ++ rest) with ([boolN (t_obsolete t)] ++ to_be32 rp ++ rest).
      change 1 with (Nlen [boolN (t_obsolete t)]). apply u32_at_here, Hrp. }
    cbn [bind]. f_equal. f_equal.
    + destruct (t_obsolete t); reflexivity.
    + unfold rp. destruct (t_repl t) as [r|]; [|reflexivity]. cbn in Hrepl.
      destruct (N.eqb_spec r 0); [lia|reflexivity].
Qed.

(* names that fit the limit are not cut, and a valid name stays valid *)
Lemma cut_name_fits limit name : Nlen name <= limit -> cut_name limit name = name.
Proof.
  intros H. unfold cut_name. rewrite (cut_len_fits limit name H). unfold nat_of, Nlen. rewrite Nat2N.id. apply firstn_all.
Qed.

(* a valid name cut at a char boundary stays valid *)
Lemma cut_name_valid limit name : utf8_valid name = true ->
  is_char_boundary name (cut_len limit name) = true -> utf8_valid (cut_name limit name) = true.
Proof. intros Hv Hb. unfold cut_name. apply (utf8_prefix (length name) name _ (le_n _) Hv Hb). Qed.

(* ---------------- gene / disease records ---------------- *)

Lemma u32_from_here (pre : bytes) n rest : n < 4294967296 -> u32_from (pre ++ to_be32 n ++ rest) (Nlen pre) = Ok n.
Proof.
  intros H. unfold u32_from, slice_from. rewrite Nlen_app.
  destruct (N.ltb_spec (Nlen pre + Nlen (to_be32 n ++ rest)) (Nlen pre)); [lia|]. cbn [bind].
  unfold nat_of, Nlen. rewrite Nat2N.id, skipn_app, skipn_all, Nat.sub_diag. cbn [skipn app].
  apply u32_at_to_be32, H.
Qed.

Lemma group_bytes_len g : Nlen (group_bytes g) = 4 * Nlen g.
Proof.
  unfold group_bytes, Nlen. induction g as [|x g IH]; [reflexivity|]. cbn [map concat]. rewrite app_length.
  cbn [length to_be32] in *. lia.
Qed.

Lemma read_ids_group g : forall (pre rest : bytes), Forall (fun x => x < 4294967296) g ->
  read_ids (length g) (pre ++ group_bytes g ++ rest) (Nlen pre) = Ok g.
Proof.
  induction g as [|x g IH]; intros pre rest Hall; [reflexivity|].
  inversion Hall as [|? ? Hx Hg]; subst. cbn [length read_ids].
  change (group_bytes (x :: g)) with (to_be32 x ++ group_bytes g). rewrite <- app_assoc.
  rewrite (u32_at_here pre x _ Hx). cbn [bind].
  replace (Nlen pre + 4) with (Nlen (pre ++ to_be32 x)) by (rewrite Nlen_app; reflexivity).
  rewrite (app_assoc pre (to_be32 x)). rewrite (IH (pre ++ to_be32 x) rest Hg). reflexivity.
Qed.

Lemma g_from_list_sorted_id g : GroupP.sorted g -> g_from_list g = g.
Proof.
  intros Hs. rewrite SetsP.g_from_list_set_of.
  apply GroupP.sorted_ext; [apply SetsP.set_of_sorted|exact Hs|]. intros z. apply SetsP.set_of_In.
Qed.

(* Gene::as_bytes read back by Gene::try_from(&[u8]) *)
Theorem gene_record_roundtrip r :
  a_id r < 4294967296 -> Forall (fun x => x < 4294967296) (a_hpos r) -> Nlen (a_hpos r) < 1000000000 ->
  GroupP.sorted (a_hpos r) -> utf8_valid (cut_name GENE_NAME_LIMIT (a_name r)) = true ->
  gene_of_bytes (enc_gene r) = Ok (mkAnnot (a_id r) (cut_name GENE_NAME_LIMIT (a_name r)) (a_hpos r)).
Proof.
  intros Hid Hall Hcnt Hs Hutf.
  set (nl := cut_len GENE_NAME_LIMIT (a_name r)). set (nm := cut_name GENE_NAME_LIMIT (a_name r)).
  assert (Nlen nm = nl) as Hnl by apply Nlen_firstn_cut.
  assert (nl <= 255) as Hle by (destruct (cut_len_le GENE_NAME_LIMIT (a_name r)) as [H _]; exact H).
  set (nt := Nlen (a_hpos r)). set (gb := group_bytes (a_hpos r)).
  assert (Nlen gb = 4 * nt) as Hgb by apply group_bytes_len.
  set (total := 4 + 4 + 1 + nl + 4 + nt * 4).
  assert (enc_gene r = to_be32 total ++ to_be32 (a_id r) ++ [nl] ++ nm ++ to_be32 nt ++ gb) as E by reflexivity.
  assert (Nlen (enc_gene r) = total) as Hlen.
  { rewrite E, !Nlen_app. unfold Nlen at 1 2 3 5. cbn [length to_be32]. rewrite Hnl, Hgb. unfold total. lia. }
  unfold gene_of_bytes.
  assert (Nlen (enc_gene r) <? 13 = false) as -> by (apply N.ltb_ge; rewrite Hlen; unfold total; lia).
  assert (u32_from (enc_gene r) 0 = Ok total) as ->.
  { rewrite E. change 0 with (Nlen (@nil N)). change (to_be32 total ++ ?x) with ([] ++ to_be32 total ++ x).
    apply u32_from_here. unfold total. lia. }
  cbn [bind]. rewrite Hlen, N.eqb_refl. cbn [negb].
  assert (u32_from (enc_gene r) 4 = Ok (a_id r)) as ->.
  { rewrite E. change 4 with (Nlen (to_be32 total)). apply u32_from_here, Hid. }
  cbn [bind].
  assert (idx (enc_gene r) 8 = Ok nl) as ->.
  { replace (enc_gene r) with ((to_be32 total ++ to_be32 (a_id r)) ++ nl :: (nm ++ to_be32 nt ++ gb))
      by (rewrite E, <- !app_assoc; reflexivity).
    change 8 with (Nlen (to_be32 total ++ to_be32 (a_id r))). apply idx_at. }
  cbn [bind].
  assert (total <? 13 + nl = false) as -> by (apply N.ltb_ge; unfold total; lia).
  assert (slice (enc_gene r) 9 (9 + nl) = Ok nm) as ->.
  { replace (enc_gene r) with ((to_be32 total ++ to_be32 (a_id r) ++ [nl]) ++ nm ++ (to_be32 nt ++ gb))
      by (rewrite E, <- !app_assoc; reflexivity).
    change 9 with (Nlen (to_be32 total ++ to_be32 (a_id r) ++ [nl])). rewrite <- Hnl. apply slice_here. }
  cbn [bind]. fold nm in Hutf. rewrite Hutf. cbn [negb].
  assert (Nlen (to_be32 total ++ to_be32 (a_id r) ++ [nl] ++ nm) = 9 + nl) as Hp9.
  { rewrite !Nlen_app. unfold Nlen at 1 2 3. cbn [length to_be32]. rewrite Hnl. lia. }
  assert (u32_from (enc_gene r) (9 + nl) = Ok nt) as ->.
  { replace (enc_gene r) with ((to_be32 total ++ to_be32 (a_id r) ++ [nl] ++ nm) ++ to_be32 nt ++ gb)
      by (rewrite E, <- !app_assoc; reflexivity).
    rewrite <- Hp9. apply u32_from_here. unfold nt. lia. }
  cbn [bind].
  assert (total <? 13 + nl + nt * 4 = false) as -> by (apply N.ltb_ge; unfold total; lia).
  assert (read_ids (nat_of nt) (enc_gene r) (13 + nl) = Ok (a_hpos r)) as ->.
  { replace (enc_gene r) with ((to_be32 total ++ to_be32 (a_id r) ++ [nl] ++ nm ++ to_be32 nt) ++ gb ++ [])
      by (rewrite E, app_nil_r, <- !app_assoc; reflexivity).
    replace (13 + nl) with (Nlen (to_be32 total ++ to_be32 (a_id r) ++ [nl] ++ nm ++ to_be32 nt))
      by (rewrite !Nlen_app; unfold Nlen at 1 2 3 5; cbn [length to_be32]; rewrite Hnl; lia).
    replace (nat_of nt) with (length (a_hpos r)) by (unfold nat_of, nt, Nlen; lia).
    apply read_ids_group, Hall. }
  cbn [bind].
  assert ((13 + nl + nt * 4 =? total) && (13 + nl + nt * 4 =? total) = true) as ->
    by (unfold total; rewrite !(proj2 (N.eqb_eq _ _)) by lia; reflexivity).
  rewrite (g_from_list_sorted_id _ Hs). reflexivity.
Qed.

(* Disease::as_bytes read back by Disease::from_bytes (names are not cut: a 4-byte length) *)
Theorem disease_record_roundtrip r :
  a_id r < 4294967296 -> Forall (fun x => x < 4294967296) (a_hpos r) -> Nlen (a_hpos r) < 500000000 ->
  Nlen (a_name r) < 1000000000 ->
  GroupP.sorted (a_hpos r) -> utf8_valid (a_name r) = true ->
  disease_of_bytes (enc_disease r) = Ok (mkAnnot (a_id r) (a_name r) (a_hpos r)).
Proof.
  intros Hid Hall Hcnt Hnm Hs Hutf.
  set (nl := Nlen (a_name r)). set (nt := Nlen (a_hpos r)). set (gb := group_bytes (a_hpos r)).
  assert (Nlen gb = 4 * nt) as Hgb by apply group_bytes_len.
  set (total := 4 + 4 + 4 + nl + 4 + nt * 4).
  assert (enc_disease r = to_be32 total ++ to_be32 (a_id r) ++ to_be32 nl ++ a_name r ++ to_be32 nt ++ gb) as E by reflexivity.
  assert (Nlen (enc_disease r) = total) as Hlen.
  { rewrite E, !Nlen_app. unfold Nlen at 1 2 3 5. cbn [length to_be32]. rewrite Hgb. fold nl. unfold total. lia. }
  unfold disease_of_bytes.
  assert (Nlen (enc_disease r) <? 16 = false) as -> by (apply N.ltb_ge; rewrite Hlen; unfold total; lia).
  assert (u32_from (enc_disease r) 0 = Ok total) as ->.
  { rewrite E. change 0 with (Nlen (@nil N)). change (to_be32 total ++ ?x) with ([] ++ to_be32 total ++ x).
    apply u32_from_here. unfold total. lia. }
  cbn [bind]. rewrite Hlen, N.eqb_refl. cbn [negb].
  assert (u32_from (enc_disease r) 4 = Ok (a_id r)) as ->.
  { rewrite E. change 4 with (Nlen (to_be32 total)). apply u32_from_here, Hid. }
  cbn [bind].
  assert (u32_from (enc_disease r) 8 = Ok nl) as ->.
  { replace (enc_disease r) with ((to_be32 total ++ to_be32 (a_id r)) ++ to_be32 nl ++ (a_name r ++ to_be32 nt ++ gb))
      by (rewrite E, <- !app_assoc; reflexivity).
    change 8 with (Nlen (to_be32 total ++ to_be32 (a_id r))). apply u32_from_here. unfold nl. lia. }
  cbn [bind].
  assert (total <? 16 + nl = false) as -> by (apply N.ltb_ge; unfold total; lia).
  assert (slice (enc_disease r) 12 (12 + nl) = Ok (a_name r)) as ->.
  { replace (enc_disease r) with ((to_be32 total ++ to_be32 (a_id r) ++ to_be32 nl) ++ a_name r ++ (to_be32 nt ++ gb))
      by (rewrite E, <- !app_assoc; reflexivity).
    change 12 with (Nlen (to_be32 total ++ to_be32 (a_id r) ++ to_be32 nl)). apply slice_here. }
  cbn [bind]. rewrite Hutf. cbn [negb].
  assert (Nlen (to_be32 total ++ to_be32 (a_id r) ++ to_be32 nl ++ a_name r) = 12 + nl) as Hp.
  { rewrite !Nlen_app. unfold Nlen at 1 2 3. cbn [length to_be32]. fold nl. lia. }
  assert (u32_from (enc_disease r) (12 + nl) = Ok nt) as ->.
  { replace (enc_disease r) with ((to_be32 total ++ to_be32 (a_id r) ++ to_be32 nl ++ a_name r) ++ to_be32 nt ++ gb)
      by (rewrite E, <- !app_assoc; reflexivity).
    rewrite <- Hp. apply u32_from_here. unfold nt. lia. }
  cbn [bind].
  assert (total <? 16 + nl + nt * 4 = false) as -> by (apply N.ltb_ge; unfold total; lia).
  assert (read_ids (nat_of nt) (enc_disease r) (16 + nl) = Ok (a_hpos r)) as ->.
  { replace (enc_disease r) with ((to_be32 total ++ to_be32 (a_id r) ++ to_be32 nl ++ a_name r ++ to_be32 nt) ++ gb ++ [])
      by (rewrite E, app_nil_r, <- !app_assoc; reflexivity).
    replace (16 + nl) with (Nlen (to_be32 total ++ to_be32 (a_id r) ++ to_be32 nl ++ a_name r ++ to_be32 nt))
      by (rewrite !Nlen_app; unfold Nlen at 1 2 3 5; cbn [length to_be32]; fold nl; lia).
    replace (nat_of nt) with (length (a_hpos r)) by (unfold nat_of, nt, Nlen; lia).
    apply read_ids_group, Hall. }
  cbn [bind].
  assert ((16 + nl + nt * 4 =? total) && (16 + nl + nt * 4 =? total) = true) as ->
    by (unfold total; rewrite !(proj2 (N.eqb_eq _ _)) by lia; reflexivity).
  rewrite (g_from_list_sorted_id _ Hs). reflexivity.
Qed.
