(* C12tP.v — the ancestor-set queries of two terms are the set algebra of their ancestor groups *)
From Coq Require Import Sorted.
From HpoV Require Import Gen.Consts Model.Base Model.Group Model.Onto Model.Query Proofs.GroupP.

Lemma common_ancestor_ids_spec a b : sorted (t_allp a) -> sorted (t_allp b) ->
  sorted (common_ancestor_ids a b) /\
  forall z, In z (common_ancestor_ids a b) <-> In z (t_allp a) /\ In z (t_allp b).
Proof. intros Ha Hb. split; [apply g_inter_sorted; assumption|]. intros z. apply g_inter_In. Qed.

Lemma all_common_ancestor_ids_spec a b : sorted (t_allp a) -> sorted (t_allp b) ->
  sorted (all_common_ancestor_ids a b) /\
  forall z, In z (all_common_ancestor_ids a b) <->
            (z = t_id a \/ In z (t_allp a)) /\ (z = t_id b \/ In z (t_allp b)).
Proof.
  intros Ha Hb. unfold all_common_ancestor_ids, g_plus.
  split; [apply g_inter_sorted; apply g_add_sorted; assumption|].
  intros z. rewrite g_inter_In, !g_add_In. reflexivity.
Qed.

Lemma union_ancestor_ids_spec a b : sorted (t_allp a) -> sorted (t_allp b) ->
  sorted (union_ancestor_ids a b) /\ all_union_ancestor_ids a b = union_ancestor_ids a b /\
  forall z, In z (union_ancestor_ids a b) <-> In z (t_allp a) \/ In z (t_allp b).
Proof. intros Ha Hb. split; [apply g_union_sorted; assumption|]. split; [reflexivity|]. intros z. apply g_union_In. Qed.

(* the argument order does not matter *)
Lemma ancestor_queries_symmetric a b : sorted (t_allp a) -> sorted (t_allp b) ->
  common_ancestor_ids a b = common_ancestor_ids b a /\
  all_common_ancestor_ids a b = all_common_ancestor_ids b a /\
  union_ancestor_ids a b = union_ancestor_ids b a.
Proof.
  intros Ha Hb. unfold common_ancestor_ids, all_common_ancestor_ids, union_ancestor_ids, g_plus.
  split; [apply g_inter_comm; assumption|].
  split; [apply g_inter_comm; apply g_add_sorted; assumption|apply g_union_comm; assumption].
Qed.
