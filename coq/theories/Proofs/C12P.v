(* C12P.v — the model's observation satisfies the executable statement of C12 *)
From Coq Require Import Sorted Lia Arith PeanoNat.
From HpoV Require Import Model.Base Model.Group Spec.Sets Proofs.GroupP Proofs.SetsP Run.C12.

Lemma hist_spec xs : forall g seen, sorted g -> (forall z, In z g <-> In z seen) ->
  spec_flags seen xs (fst (hist xs g)) = true /\
  snd (hist xs g) = fold_left g_add xs g.
Proof.
  induction xs as [|x t IH]; intros g seen Hs Hm; cbn [hist]; [split; reflexivity|].
  change (fold_left g_add (x :: t) g) with (fold_left g_add t (fst (g_insert x g))).
  pose proof (g_insert_flag x g Hs) as Hf. pose proof (g_insert_sorted x g Hs) as Hs'.
  pose proof (g_insert_In x g) as HIn.
  destruct (g_insert x g) as [g' b] eqn:E. cbn [fst snd] in *.
  specialize (IH g' (x :: seen) Hs').
  destruct (hist t g') as [fl gf] eqn:E2. cbn [fst snd spec_flags] in *.
  destruct IH as [IH1 IH2]; [intros z; rewrite HIn; cbn [In]; rewrite Hm; intuition|].
  split; [|exact IH2]. rewrite IH1, andb_true_r. apply N.eqb_eq. subst b. f_equal. f_equal.
  destruct (mem x g) eqn:M1, (mem x seen) eqn:M2; try reflexivity.
  - apply mem_In, Hm, mem_In in M1. congruence.
  - apply mem_In, Hm, mem_In in M2. congruence.
Qed.

Lemma nth_error_nil_N (n : nat) : @nth_error N [] n = None.
Proof. destruct n; reflexivity. Qed.

Lemma gets_spec (g : list N) : forall k,
  map (fun i => enc_opt (nth_error g (i - k)%nat)) (seq k (length g + 2)) =
  map (fun x => x + 1) g ++ [0; 0].
Proof.
  induction g as [|x t IH]; intros k.
  - cbn [length Nat.add seq map app]. rewrite !nth_error_nil_N. reflexivity.
  - cbn [length Nat.add seq map app]. rewrite Nat.sub_diag. cbn [nth_error enc_opt]. f_equal.
    rewrite <- (IH (S k)). apply map_ext_in. intros i Hi. apply in_seq in Hi.
    replace (i - k)%nat with (S (i - S k)) by lia. reflexivity.
Qed.

Lemma g_contains_mem y xs : g_contains y (set_of xs) = mem y xs.
Proof.
  destruct (mem y xs) eqn:M.
  - apply g_contains_spec; [apply set_of_sorted|]. apply set_of_In, mem_In, M.
  - apply not_true_is_false. intros H. apply g_contains_spec in H; [|apply set_of_sorted].
    apply (proj1 (set_of_In _ _)) in H. apply (proj2 (mem_In _ _)) in H. congruence.
Qed.

Lemma set_of_cons_add p xs : g_add (set_of xs) p = set_of (p :: xs).
Proof.
  apply sorted_ext; [apply g_add_sorted, set_of_sorted|apply set_of_sorted|].
  intros z. rewrite g_add_In, !set_of_In. cbn. intuition.
Qed.

Lemma union_set_of xs ys : g_union (set_of xs) (set_of ys) = set_union xs ys.
Proof.
  apply sorted_ext; [apply g_union_sorted; apply set_of_sorted|apply set_union_sorted|].
  intros z. rewrite g_union_In, set_union_In, !set_of_In. tauto.
Qed.

Lemma inter_set_of xs ys : g_inter (set_of xs) (set_of ys) = set_inter xs ys.
Proof.
  apply sorted_ext; [apply g_inter_sorted; apply set_of_sorted|apply set_inter_sorted|].
  intros z. rewrite g_inter_In, set_inter_In, !set_of_In. tauto.
Qed.

Lemma set_union_sym xs ys : set_union ys xs = set_union xs ys.
Proof.
  apply sorted_ext; try apply set_union_sorted. intros z. rewrite !set_union_In. tauto.
Qed.
Lemma set_inter_sym xs ys : set_inter ys xs = set_inter xs ys.
Proof.
  apply sorted_ext; try apply set_inter_sorted. intros z. rewrite !set_inter_In. tauto.
Qed.

Lemma g_is_empty_len g : boolN (g_is_empty g) = boolN (Nlen g =? 0).
Proof. destruct g; [reflexivity|]. unfold Nlen. cbn [length g_is_empty]. destruct (N.eqb_spec (N.of_nat (S (length g))) 0); [lia|reflexivity]. Qed.

Lemma C12_model_lemma c : spec_C12 c (run_C12 c) = true.
Proof.
  destruct c as [[k xs] ys]. unfold run_C12, spec_C12.
  destruct k as [|p].
  - (* history *)
    destruct (hist_spec xs [] [] sorted_nil (fun z => iff_refl _)) as [H1 H2].
    destruct (hist xs []) as [fl g] eqn:E. cbn [fst snd] in *.
    assert (g = set_of xs) as -> by (rewrite H2; apply g_from_list_set_of).
    rewrite H1, list_eqb_refl. unfold g_len. rewrite !N.eqb_refl, g_is_empty_len, N.eqb_refl.
    cbn [andb].
    rewrite (map_ext _ _ (fun y => f_equal boolN (g_contains_mem y xs))), list_eqb_refl. cbn [andb].
    unfold g_get. apply list_eqb_eq.
    rewrite <- (gets_spec (set_of xs) 0). apply map_ext. intros i.
    unfold nat_of. rewrite Nat2N.id, Nat.sub_0_r. reflexivity.
  - destruct p as [p|p|].
    3:{ (* pairs *)
      rewrite !g_from_list_set_of. unfold g_plus, g_bitor_id, g_len.
      rewrite !set_of_cons_add, !union_set_of, !inter_set_of, set_union_sym, set_inter_sym.
      rewrite g_is_empty_len, !list_eqb_refl, !N.eqb_refl. reflexivity. }
    all: rewrite !g_from_list_set_of, !list_eqb_refl; reflexivity.
Qed.
