(* AnnotP.v — the hypotheses of the propagation theorems (LinkP.good) hold of every acyclic
   ontology with exact caches; a run of record loads (builder.rs add_genes_from_bytes & co.) is a
   run of propagations over the records' direct facts. *)
From Coq Require Import Lia Relations Sorted.
From HpoV Require Import Gen.Consts Model.Base Model.Group Model.Onto Model.Query Model.Binary
  Proofs.GroupP Proofs.BaseP Proofs.ClosureP Proofs.AcyclicP Proofs.DistP Proofs.QgoodP Proofs.LinkP Proofs.SectionP Proofs.RoundTripP.

Lemma anc_in_keys a c x : wf_ar a -> anc a c x -> In x (ar_keys a).
Proof.
  intros W H. apply clos_trans_tn1 in H. destruct H as [y [t [Hin [_ Hp]]]|y z [t [Hin [_ Hp]]] _]; apply (wf_closed a W t Hin _ Hp).
Qed.

(* exact caches + acyclic + sorted annotation sets = the hypotheses of the propagation theorems *)
Theorem qgood_good k o : qgood o -> acyclic (o_arena o) ->
  (forall t, In t (ar_terms (o_arena o)) -> sorted (t_annots k t)) -> good k (o_arena o).
Proof.
  intros G R S. pose proof (q_wf o G) as W. constructor.
  - apply (wf_nodup _ W).
  - apply (wf_range _ W).
  - intros t Ht p Hp. apply (q_exact o G t Ht) in Hp.
    destruct (key_find _ p W (anc_in_keys _ _ _ W Hp)) as [tp [_ [Htp [Hid _]]]].
    exists tp. split; [exact Htp|]. split; [exact Hid|]. intros x Hx.
    apply (q_exact o G tp Htp) in Hx. apply (q_exact o G t Ht). rewrite Hid in Hx. eapply t_trans; eassumption.
  - intros t Ht Hin. apply (q_exact o G t Ht) in Hin. apply (R _ Hin).
  - exact S.
Qed.

(* ---------------- a run of record loads is a run of propagations ---------------- *)

Definition facts_of (rs : list annot) : list (N * N) := flat_map (fun r => map (fun t => (a_id r, t)) (a_hpos r)) rs.

Lemma Forall2_len {A B} (R : A -> B -> Prop) l l' : Forall2 R l l' -> length l = length l'.
Proof. induction 1; cbn; congruence. Qed.

Lemma link_fuel_struct a a' : same_struct (ar_terms a) (ar_terms a') -> link_fuel a' = link_fuel a.
Proof. intros S. unfold link_fuel. rewrite (Forall2_len _ _ _ S). reflexivity. Qed.

Lemma foldM_app2 {A S} (f : S -> A -> res S) l1 l2 s : foldM f (l1 ++ l2) s = do s' <- foldM f l1 s ;; foldM f l2 s'.
Proof. revert s. induction l1 as [|a l1 IH]; intros s; cbn [app foldM bind]; [reflexivity|]. destruct (f s a); cbn [bind]; auto. Qed.

Lemma record_links k g F ts : forall a a', link_fuel a = F ->
  foldM (fun a t => link (link_fuel a) k a t g) ts a = Ok a' ->
  link_all k F (map (fun t => (g, t)) ts) a = Ok a'.
Proof.
  unfold link_all. induction ts as [|t ts IH]; intros a a' HF H; cbn [foldM map] in *; [exact H|].
  cbn [fst snd]. rewrite HF in H. destruct (link F k a t g) as [a1| | |] eqn:E; cbn [bind] in *; try discriminate.
  apply IH; [|exact H]. rewrite <- HF. apply link_fuel_struct. apply (link_same_struct k g F a t a1 E).
Qed.

Lemma load_records_arena k rs : forall o o', foldM (load_record k) rs o = Ok o' ->
  link_all k (link_fuel (o_arena o)) (facts_of rs) (o_arena o) = Ok (o_arena o').
Proof.
  induction rs as [|r rs IH]; intros o o' H; cbn [foldM facts_of flat_map] in *.
  - injection H as <-. reflexivity.
  - destruct (load_record k o r) as [o1| | |] eqn:E1; cbn [bind] in H; try discriminate.
    unfold link_all. rewrite foldM_app2.
    unfold load_record in E1. apply bind_Ok' in E1 as [a1 [Ha E1]]. injection E1 as <-.
    pose proof (record_links k (a_id r) (link_fuel (o_arena o)) (a_hpos r) (o_arena o) a1 eq_refl Ha) as L1.
    unfold link_all in L1. rewrite L1. cbn [bind].
    specialize (IH _ o' H).
    assert (o_arena (set_records k (an_put r (o_records k o)) (set_arena a1 o)) = a1) as Ea by (destruct k; reflexivity).
    rewrite Ea in IH. unfold link_all in IH.
    assert (link_fuel a1 = link_fuel (o_arena o)) as <-; [|exact IH].
    apply link_fuel_struct.
    refine (foldM_inv _ (fun s => same_struct (ar_terms (o_arena o)) (ar_terms s)) _ _ _ a1 _ Ha); [|apply same_struct_refl].
    intros s t s' _ Hs Ss. apply (same_struct_trans _ _ _ Ss). apply (link_same_struct k (a_id r) _ s t s' Hs).
Qed.

Lemma facts_of_In rs x d : In (x, d) (facts_of rs) <-> exists r, In r rs /\ a_id r = x /\ In d (a_hpos r).
Proof.
  unfold facts_of. rewrite in_flat_map. split.
  - intros [r [Hr Hin]]. apply in_map_iff in Hin as [t [E Ht]]. injection E as <- <-. exists r. auto.
  - intros [r [Hr [<- Hd]]]. exists r. split; [exact Hr|]. apply in_map_iff. exists d. auto.
Qed.

(* ---------------- one phase: all records of one kind ---------------- *)

Lemma allp_of_rel (R : term -> term -> Prop) l l' d :
  (forall t t', R t t' -> t_id t' = t_id t /\ t_allp t' = t_allp t) -> Forall2 R l l' ->
  match find_by t_id d l' with Some t => t_allp t | None => [] end = match find_by t_id d l with Some t => t_allp t | None => [] end.
Proof.
  intros HR F. induction F as [|t t' l l' Ht _ IH]; [reflexivity|]. cbn [find_by].
  destruct (HR t t' Ht) as [E1 E2]. rewrite E1. destruct (t_id t =? d); [exact E2|exact IH].
Qed.

Lemma allp_of_struct a a' d : same_struct (ar_terms a) (ar_terms a') -> allp_of a' d = allp_of a d.
Proof.
  intros S. unfold allp_of, ar_find. apply (allp_of_rel _ _ _ d) with (2 := S). intros t t' (A1 & _ & _ & _ & _ & _ & A7). auto.
Qed.

Lemma has_term k a t x : NoDup (ar_keys a) -> In t (ar_terms a) -> (has k a (t_id t) x <-> In x (t_annots k t)).
Proof.
  intros Nd Hin. split.
  - intros [t' [Hin' [Hid Hx]]]. assert (t' = t) as ->; [|exact Hx].
    pose proof (find_by_unique t_id _ t Nd Hin) as F1. pose proof (find_by_unique t_id _ t' Nd Hin') as F2.
    rewrite Hid in F2. congruence.
  - intros Hx. exists t. auto.
Qed.

Theorem phase_spec k o rs o' : qgood o -> acyclic (o_arena o) ->
  (forall t, In t (ar_terms (o_arena o)) -> t_annots k t = []) ->
  foldM (load_record k) rs o = Ok o' ->
  frame k (o_arena o) (o_arena o') /\
  forall t', In t' (ar_terms (o_arena o')) ->
    sorted (t_annots k t') /\
    forall x, In x (t_annots k t') <->
      exists r, In r rs /\ a_id r = x /\ exists d, In d (a_hpos r) /\ (t_id t' = d \/ In (t_id t') (allp_of (o_arena o) d)).
Proof.
  intros G R E H. pose proof (load_records_arena k rs o o' H) as L.
  assert (good k (o_arena o)) as Gd by (apply (qgood_good k o G R); intros t Ht; rewrite (E t Ht); constructor).
  assert (forall g, upclosed_except k g [] (o_arena o)) as Up.
  { intros g t Ht _ Hg. rewrite (E t Ht) in Hg. destruct Hg. }
  destruct (link_all_spec k _ _ _ _ Gd Up L) as [Fr [Gd' [_ Has]]].
  split; [exact Fr|]. intros t' Ht'. split; [apply (g_sorted k _ Gd' t' Ht')|].
  intros x. rewrite <- (has_term k _ t' x (g_nodup k _ Gd') Ht'), Has. split.
  - intros [[t [Ht [_ Hx]]]|[d [Hf [Hk Hr]]]]; [rewrite (E t Ht) in Hx; destruct Hx|].
    apply facts_of_In in Hf as [r [Hr' [Hid Hd]]]. exists r. split; [exact Hr'|]. split; [exact Hid|]. exists d. split; [exact Hd|].
    destruct Hr as [->|Hr]; [left; reflexivity|right; exact Hr].
  - intros [r [Hr [Hid [d [Hd Hreach]]]]]. right. exists d. split; [apply facts_of_In; exists r; auto|].
    split; [rewrite <- (frame_keys k _ _ Fr); unfold ar_keys; apply in_map, Ht'|].
    destruct Hreach as [->|Hr']; [left; reflexivity|right; exact Hr'].
Qed.

(* ---------------- helpers for the assembly ---------------- *)

Definition noannot (a : arena) : Prop := forall t, In t (ar_terms a) -> forall k, t_annots k t = [].

Lemma noannot_update a id f : noannot a -> (forall t k, t_annots k (f t) = t_annots k t) -> noannot (ar_update id f a).
Proof.
  intros Na Hf t' Hin k. unfold ar_update in Hin. cbn [ar_terms] in Hin.
  destruct (update_by_In f id _ t' Hin) as [H|[t [H ->]]]; [apply Na, H|rewrite Hf; apply Na, H].
Qed.

Lemma noannot_update_unchecked a id f a' : noannot a -> (forall t k, t_annots k (f t) = t_annots k t) ->
  ar_update_unchecked id f a = Ok a' -> noannot a'.
Proof.
  intros Na Hf H. unfold ar_update_unchecked in H. destruct (MAX_HPO_ID <=? id); [discriminate|].
  destruct (ar_find id a); injection H as <-; [apply noannot_update; assumption|exact Na].
Qed.

Lemma annots_set_children g t k : t_annots k (set_children g t) = t_annots k t.
Proof. destruct k, t; reflexivity. Qed.
Lemma annots_set_parents g t k : t_annots k (set_parents g t) = t_annots k t.
Proof. destruct k, t; reflexivity. Qed.
Lemma annots_set_allp g t k : t_annots k (set_allp g t) = t_annots k t.
Proof. destruct k, t; reflexivity. Qed.
Lemma annots_set_ic ic t k : t_annots k (set_ic ic t) = t_annots k t.
Proof. destruct k, t; reflexivity. Qed.

Lemma rebuild_arena_noannot ts a3 : rebuild_arena ts = Ok a3 -> noannot a3.
Proof.
  unfold rebuild_arena. intros H. apply bind_Ok' in H as [a1 [H1 H]]. apply bind_Ok' in H as [a2 [H2 H3]].
  assert (noannot a1) as N1.
  { refine (foldM_inv _ noannot _ _ arena_default a1 _ H1); [|intros t []].
    intros s t s' _ Hs Ns. unfold ar_insert in Hs. destruct (MAX_HPO_ID <=? _); [discriminate|].
    destruct (ar_find _ s); injection Hs as <-; [exact Ns|]. intros x Hin k. cbn [ar_terms] in Hin.
    apply in_app_or in Hin as [Hin|[<-|[]]]; [apply Ns, Hin|destruct k; reflexivity]. }
  assert (noannot a2) as N2.
  { refine (foldM_inv _ noannot _ _ a1 a2 N1 H2). intros s t s' _ Hs Ns.
    refine (foldM_inv _ noannot _ _ s s' Ns Hs). intros s2 p s3 _ H3' N2'.
    unfold b_add_parent_unchecked in H3'. apply bind_Ok' in H3' as [s4 [E1 E2]].
    eapply noannot_update_unchecked; [|intros x k0; apply annots_set_parents|exact E2].
    eapply noannot_update_unchecked; [exact N2'|intros x k0; apply annots_set_children|exact E1]. }
  unfold connect_all in H3. refine (foldM_inv _ noannot _ _ a2 a3 N2 H3).
  intros s id s' _ Hs Ns.
  (* create_cache only writes caches *)
  assert (forall fuel s id s', noannot s -> create_cache fuel s id = Ok s' -> noannot s') as CC.
  { clear. induction fuel as [|f IH]; intros s id s' Ns Hs; [discriminate|]. cbn [create_cache] in Hs.
    destruct (ar_get_unchecked id s) as [t| | |]; cbn [bind] in Hs; try discriminate.
    match type of Hs with context [foldM ?F (t_parents t) ?s0] => destruct (foldM F (t_parents t) s0) as [[a1 acc]| | |] eqn:Ef end; cbn [bind] in Hs; try discriminate.
    assert (noannot a1) as N1.
    { refine (foldM_inv _ (fun st : arena * group => noannot (fst st)) _ _ (s, []) (a1, acc) Ns Ef).
      intros [a2 acc2] p [a3 acc3] _ Hstep N2. cbn [fst] in *.
      destruct (ar_get_unchecked p a2) as [tp| | |]; cbn [bind] in Hstep; try discriminate.
      destruct (if parents_cached tp then Ok a2 else create_cache f a2 p) as [a4| | |] eqn:E4; cbn [bind] in Hstep; try discriminate.
      destruct (ar_get_unchecked p a4) as [tp'| | |]; cbn [bind] in Hstep; try discriminate. injection Hstep as <- _.
      destruct (parents_cached tp); [injection E4 as <-; exact N2|apply (IH a2 p a4 N2 E4)]. }
    eapply noannot_update_unchecked; [exact N1|intros x k0; apply annots_set_allp|exact Hs]. }
  apply (CC _ s id s' Ns Hs).
Qed.

Lemma frame_same_struct k a a' : frame k a a' -> same_struct (ar_terms a) (ar_terms a').
Proof.
  intros [_ F]. unfold same_struct. eapply Forall2_impl_In; [|exact F]. intros t t' _ _ ->. apply set_annots_struct.
Qed.

Lemma ranked_links a a' : same_links a a' -> acyclic a -> acyclic a'.
Proof. intros S Ac c H. apply (Ac c). apply (same_links_anc a a' c c S), H. Qed.

(* a graph with a rank function is acyclic *)
Lemma ranked_acyclic a : ranked a -> acyclic a.
Proof. intros R c. apply (ranked_irreflexive a R c). Qed.

Lemma other_kind_annots k k' g t : k <> k' -> t_annots k (set_annots k' g t) = t_annots k t.
Proof. destruct k, k', t; try reflexivity; congruence. Qed.

(* ---------------- the source's annotation sets ---------------- *)

(* every term carries exactly the annotations that have a direct fact at the term itself or at one
   of its descendants (C02), as sorted sets *)
Record ann_ok (o : onto) : Prop := {
  an_sorted : forall k t, In t (ar_terms (o_arena o)) -> sorted (t_annots k t);
  an_exact : forall k t, In t (ar_terms (o_arena o)) -> forall x,
    In x (t_annots k t) <->
    exists r, In r (o_records k o) /\ a_id r = x /\ exists d, In d (a_hpos r) /\ (t_id t = d \/ In (t_id t) (allp_of (o_arena o) d))
}.

Lemma raw_record_fields k r : a_id (raw_record k r) = a_id r /\ a_hpos (raw_record k r) = a_hpos r.
Proof. destruct k; auto. Qed.

Lemma annots_eq k o (order : list annot -> list annot) a_s t tk : ann_ok o -> (forall l r, In r (order l) <-> In r l) ->
  In t (ar_terms (o_arena o)) -> t_id tk = t_id t -> (forall d, allp_of a_s d = allp_of (o_arena o) d) ->
  sorted (t_annots k tk) ->
  (forall x, In x (t_annots k tk) <->
     exists r, In r (map (raw_record k) (order (o_records k o))) /\ a_id r = x /\
               exists d, In d (a_hpos r) /\ (t_id tk = d \/ In (t_id tk) (allp_of a_s d))) ->
  t_annots k tk = t_annots k t.
Proof.
  intros A Ho Ht Hid Hal Hs Hsp. apply sorted_ext; [exact Hs|apply (an_sorted o A k t Ht)|].
  intros x. rewrite Hsp, (an_exact o A k t Ht x). split.
  - intros [r' [Hr' [Hx [d [Hd Hreach]]]]]. apply in_map_iff in Hr' as [r [<- Hr]]. apply (proj1 (Ho _ r)) in Hr.
    destruct (raw_record_fields k r) as [E1 E2]. rewrite E1 in Hx. rewrite E2 in Hd.
    exists r. split; [exact Hr|]. split; [exact Hx|]. exists d. split; [exact Hd|]. rewrite <- Hid, <- Hal. exact Hreach.
  - intros [r [Hr [Hx [d [Hd Hreach]]]]]. exists (raw_record k r). destruct (raw_record_fields k r) as [E1 E2].
    split; [apply in_map, (proj2 (Ho _ r)), Hr|]. split; [rewrite E1; exact Hx|]. exists d. split; [rewrite E2; exact Hd|].
    rewrite Hid, Hal. exact Hreach.
Qed.

Lemma term_kept_links o a3 : Forall2 term_kept (ar_terms (o_arena o)) (ar_terms a3) -> same_links (o_arena o) a3.
Proof. unfold same_links. apply Forall2_impl_In. intros t t' _ _ (A1 & _ & _ & _ & A5 & _ & A7). auto. Qed.

Lemma allp_of_kept o a3 d : Forall2 term_kept (ar_terms (o_arena o)) (ar_terms a3) -> allp_of a3 d = allp_of (o_arena o) d.
Proof.
  intros K. unfold allp_of, ar_find. apply (allp_of_rel _ _ _ d) with (2 := K). intros t t' (A1 & _ & _ & _ & _ & _ & A7). auto.
Qed.

(* THE RELOAD KEEPS THE ANNOTATION SETS OF EVERY TERM *)
Theorem rebuild_keeps_annotations icf order o o'' : src_ok o -> acyclic (o_arena o) -> ann_ok o ->
  (forall l r, In r (order l) <-> In r l) -> rebuild icf order o = Ok o'' ->
  Forall2 (fun t t'' => forall k, t_annots k t'' = t_annots k t) (ar_terms (o_arena o)) (ar_terms (o_arena o'')).
Proof.
  intros S R A Ho H. pose proof (rebuild_keeps_terms icf order o o'' S H) as Kfin.
  eapply Forall2_impl_In; [|exact Kfin]. intros t t'' Ht Ht'' Kt. destruct Kt as (Eid & _).
  unfold rebuild in H.
  apply bind_Ok' in H as [a1 [H1 H]]. apply bind_Ok' in H as [a2 [H2 H]]. apply bind_Ok' in H as [a3 [H3 H]].
  apply bind_Ok' in H as [o4 [H4 H]]. apply bind_Ok' in H as [o5 [H5 H]]. apply bind_Ok' in H as [o6 [H6 H]].
  apply bind_Ok' in H as [o7 [H7 H8]].
  assert (rebuild_arena (ar_terms (o_arena o)) = Ok a3) as Ha.
  { unfold rebuild_arena. cbn [o_arena set_version onto_new] in H1. rewrite H1. cbn [bind]. rewrite H2. cbn [bind]. exact H3. }
  pose proof (rebuild_arena_keeps_terms o a3 S Ha) as K3. pose proof (rebuild_arena_noannot _ a3 Ha) as N3.
  set (o3 := set_arena a3 (set_version (o_version o) onto_new)) in *.
  pose proof (term_kept_links o a3 K3) as SL3.
  assert (qgood o3) as G3 by (apply (qgood_same_links o o3 (so_q o S)); exact SL3).
  assert (acyclic (o_arena o3)) as R3 by (apply (ranked_links _ _ SL3 R)).
  (* the three phases *)
  destruct (phase_spec KGene o3 _ o4 G3 R3 (fun t0 Ht0 => N3 t0 Ht0 KGene) H4) as [FrG SpG].
  pose proof (frame_same_struct _ _ _ FrG) as SSG.
  assert (qgood o4) as G4 by (apply (qgood_same_links o3 o4 G3), same_struct_links, SSG).
  assert (acyclic (o_arena o4)) as R4 by (apply (ranked_links _ _ (same_struct_links _ _ SSG) R3)).
  assert (forall t0, In t0 (ar_terms (o_arena o4)) -> t_annots KOmim t0 = [] /\ t_annots KOrpha t0 = []) as N4.
  { intros t0 H0. destruct (frame_In_r KGene _ _ t0 FrG H0) as [t3 [Ht3 ->]].
    rewrite !other_kind_annots by discriminate. split; apply (N3 t3 Ht3). }
  destruct (phase_spec KOmim o4 _ o5 G4 R4 (fun t0 Ht0 => proj1 (N4 t0 Ht0)) H5) as [FrM SpM].
  pose proof (frame_same_struct _ _ _ FrM) as SSM.
  assert (qgood o5) as G5 by (apply (qgood_same_links o4 o5 G4), same_struct_links, SSM).
  assert (acyclic (o_arena o5)) as R5 by (apply (ranked_links _ _ (same_struct_links _ _ SSM) R4)).
  assert (forall t0, In t0 (ar_terms (o_arena o5)) -> t_annots KOrpha t0 = []) as N5.
  { intros t0 H0. destruct (frame_In_r KOmim _ _ t0 FrM H0) as [t4 [Ht4 ->]].
    rewrite other_kind_annots by discriminate. apply (N4 t4 Ht4). }
  destruct (phase_spec KOrpha o5 _ o6 G5 R5 N5 H6) as [FrR SpR].
  (* walk back from the final term *)
  rewrite (build_with_defaults_arena o7 o'' H8) in Ht''.
  assert (exists t6, In t6 (ar_terms (o_arena o6)) /\ forall k, t_annots k t'' = t_annots k t6 /\ t_id t'' = t_id t6) as [t6 [Ht6 E6]].
  { unfold b_calculate_ic in H7. destruct (mapM (term_ic icf o6) (ar_terms (o_arena o6))) as [ts7| | |] eqn:Em; cbn [bind] in H7; try discriminate.
    injection H7 as <-. cbn [o_arena set_arena ar_terms] in Ht''. apply mapM_Ok in Em.
    destruct (Forall2_In_r _ _ _ t'' Em Ht'') as [t6 [Ht6 Hic]]. exists t6. split; [exact Ht6|].
    unfold term_ic in Hic.
    destruct (icf _ _) as [g| | |]; cbn [bind] in Hic; try discriminate.
    destruct (icf _ _) as [m| | |]; cbn [bind] in Hic; try discriminate.
    destruct (icf _ _) as [r| | |]; cbn [bind] in Hic; try discriminate.
    injection Hic as <-. intros k. split; [apply annots_set_ic|destruct t6; reflexivity]. }
  destruct (frame_In_r KOrpha _ _ t6 FrR Ht6) as [t5 [Ht5 E5]].
  destruct (frame_In_r KOmim _ _ t5 FrM Ht5) as [t4 [Ht4 E4]].
  assert (t_id t6 = t_id t5) as I65 by (rewrite E5; apply set_annots_struct).
  assert (t_id t5 = t_id t4) as I54 by (rewrite E4; apply set_annots_struct).
  assert (forall d, allp_of (o_arena o3) d = allp_of (o_arena o) d) as Al3 by (intros d; apply (allp_of_kept o a3 d K3)).
  assert (forall d, allp_of (o_arena o4) d = allp_of (o_arena o) d) as Al4 by (intros d; rewrite (allp_of_struct _ _ d SSG); apply Al3).
  assert (forall d, allp_of (o_arena o5) d = allp_of (o_arena o) d) as Al5 by (intros d; rewrite (allp_of_struct _ _ d SSM); apply Al4).
  intros k. destruct (E6 k) as [Ek Ei6]. rewrite Ek. destruct k.
  - (* genes: written in the first phase, untouched by the two later ones *)
    assert (t_annots KGene t6 = t_annots KGene t4) as ->.
    { rewrite E5, other_kind_annots by discriminate. rewrite E4, other_kind_annots by discriminate. reflexivity. }
    destruct (SpG t4 Ht4) as [Ss Sx].
    apply (annots_eq KGene o order (o_arena o3) t t4 A Ho Ht); [congruence|exact Al3|exact Ss|exact Sx].
  - assert (t_annots KOmim t6 = t_annots KOmim t5) as -> by (rewrite E5, other_kind_annots by discriminate; reflexivity).
    destruct (SpM t5 Ht5) as [Ss Sx].
    apply (annots_eq KOmim o order (o_arena o4) t t5 A Ho Ht); [congruence|exact Al4|exact Ss|exact Sx].
  - destruct (SpR t6 Ht6) as [Ss Sx].
    apply (annots_eq KOrpha o order (o_arena o5) t t6 A Ho Ht); [congruence|exact Al5|exact Ss|exact Sx].
Qed.

Theorem reload_keeps_annotations icf order o o'' : file_ok order o -> src_ok o -> acyclic (o_arena o) -> ann_ok o ->
  (forall l r, In r (order l) <-> In r l) ->
  decode icf (encode_with order o) = Ok o'' ->
  Forall2 (fun t t'' => forall k, t_annots k t'' = t_annots k t) (ar_terms (o_arena o)) (ar_terms (o_arena o'')).
Proof. intros F S R A Ho H. rewrite (decode_encode_is_rebuild icf order o F) in H. apply (rebuild_keeps_annotations icf order o o'' S R A Ho H). Qed.
