(* SubLinksP.v — Ontology::sub_ontology, the structural part (Model/SubOnt.v): the copied terms,
   the INDUCED parent links (exactly the original links between two retained terms) and the
   recomputed ancestor caches.  add_parent_unchecked on two present terms is add_parent. *)
From Coq Require Import Lia Relations.
From HpoV Require Import Gen.Consts Model.Base Model.Group Model.Onto Model.Query Model.SubOnt
  Proofs.GroupP Proofs.BaseP Proofs.ClosureP Proofs.DistP Proofs.QgoodP Proofs.SubP.

(* ---------------- add_parent_unchecked on present terms ---------------- *)

Lemma get_find a id t : ar_get id a = Some t -> id < MAX_HPO_ID /\ ar_find id a = Some t.
Proof. unfold ar_get. destruct (N.leb_spec MAX_HPO_ID id); [discriminate|]. auto. Qed.

Lemma unchecked_is_checked parent child o o' : b_add_parent parent child o = Ok o' ->
  b_add_parent_unchecked parent child (o_arena o) = Ok (o_arena o').
Proof.
  unfold b_add_parent, b_add_parent_unchecked. intros H.
  destruct (ar_get child (o_arena o)) as [tc|] eqn:Ec; [|discriminate].
  destruct (ar_get parent (o_arena o)) as [tp|] eqn:Ep; [|discriminate].
  match type of H with context [ar_get child ?a1] => destruct (ar_get child a1) as [tc1|] eqn:Ec1; [|discriminate] end.
  injection H as <-. cbn [o_arena set_arena].
  destruct (get_find _ _ _ Ep) as [Hp Fp]. destruct (get_find _ _ _ Ec1) as [Hc Fc1].
  unfold ar_update_unchecked at 1. destruct (N.leb_spec MAX_HPO_ID parent); [lia|]. rewrite Fp. cbn [bind].
  unfold ar_update_unchecked. destruct (N.leb_spec MAX_HPO_ID child); [lia|]. rewrite Fc1. reflexivity.
Qed.

Lemma checked_succeeds parent child o : binv (o_arena o) -> In parent (ar_keys (o_arena o)) -> In child (ar_keys (o_arena o)) ->
  exists o', b_add_parent parent child o = Ok o'.
Proof.
  intros B Hp Hc. pose proof (b_wf _ B) as W.
  destruct (key_find _ child W Hc) as [tc [Fc [Hinc [Hidc Hrc]]]].
  destruct (key_find _ parent W Hp) as [tp [Fp [Hinp [Hidp Hrp]]]].
  unfold b_add_parent, ar_get.
  destruct (N.leb_spec MAX_HPO_ID child); [lia|]. rewrite Fc.
  destruct (N.leb_spec MAX_HPO_ID parent); [lia|]. rewrite Fp.
  set (a1 := ar_update parent _ (o_arena o)).
  assert (ar_keys a1 = ar_keys (o_arena o)) as K1 by (apply update_keys; intros t; apply set_children_fields).
  assert (In child (map t_id (ar_terms a1))) as Hc1 by (change (In child (ar_keys a1)); rewrite K1; exact Hc).
  destruct (find_by_In_key t_id child (ar_terms a1) Hc1) as [tc1 F1]. unfold ar_find. rewrite F1. eauto.
Qed.

Lemma add_parent_keys parent child o o' : b_add_parent parent child o = Ok o' -> ar_keys (o_arena o') = ar_keys (o_arena o).
Proof.
  unfold b_add_parent. destruct (ar_get child (o_arena o)); [|discriminate]. destruct (ar_get parent (o_arena o)); [|discriminate].
  match goal with |- context [ar_get child ?a1] => destruct (ar_get child a1); [|discriminate] end.
  intros [= <-]. cbn [o_arena set_arena].
  rewrite update_keys by (intros x; apply set_parents_fields). apply update_keys. intros x; apply set_children_fields.
Qed.

(* one link between two present terms *)
Lemma link_step a p c : binv a -> SP a -> In p (ar_keys a) -> In c (ar_keys a) ->
  exists a', b_add_parent_unchecked p c a = Ok a' /\ binv a' /\ SP a' /\ ar_keys a' = ar_keys a /\
    forall x y, parent_rel a' x y <-> parent_rel a x y \/ (x = c /\ y = p).
Proof.
  intros B P Hp Hc. set (o := set_arena a onto_new).
  destruct (checked_succeeds p c o B Hp Hc) as [o' Ho].
  exists (o_arena o'). split; [apply (unchecked_is_checked p c o o' Ho)|].
  destruct (binv_add_parent o p c o' B Ho) as [B' PR].
  split; [exact B'|]. split; [apply (SP_add_parent p c o o' P Ho)|]. split; [apply (add_parent_keys p c o o' Ho)|exact PR].
Qed.

Section Induced.
  Variable ids : group.
  Hypothesis Hs : sorted ids.

  Definition inner_step (c : N) (a' : arena) (p : N) : res arena :=
    if g_contains p ids then b_add_parent_unchecked p c a' else Ok a'.

  Lemma inner_links c ps : forall a a', binv a -> SP a -> In c (ar_keys a) -> (forall p, In p ids -> In p (ar_keys a)) ->
    foldM (inner_step c) ps a = Ok a' ->
    binv a' /\ SP a' /\ ar_keys a' = ar_keys a /\
    forall x y, parent_rel a' x y <-> parent_rel a x y \/ (x = c /\ In y ps /\ In y ids).
  Proof.
    induction ps as [|p ps IH]; intros a a' B P Hc Hids H; cbn [foldM] in H.
    - injection H as <-. split; [exact B|split; [exact P|split; [reflexivity|]]]. intros x y. split; [auto|]. intros [H|[_ [Hf _]]]; [exact H|destruct Hf].
    - unfold inner_step at 1 in H. destruct (g_contains p ids) eqn:Eg.
      + apply (g_contains_spec _ _ Hs) in Eg.
        destruct (link_step a p c B P (Hids p Eg) Hc) as [a1 [E1 [B1 [P1 [K1 PR1]]]]]. rewrite E1 in H. cbn [bind] in H.
        destruct (IH a1 a' B1 P1) as [B' [P' [K' PR']]]; [rewrite K1; exact Hc|intros q Hq; rewrite K1; apply Hids, Hq|exact H|].
        split; [exact B'|split; [exact P'|split; [congruence|]]]. intros x y. rewrite PR', PR1. cbn [In]. intuition (subst; auto).
      + cbn [bind] in H. destruct (IH a a' B P Hc Hids H) as [B' [P' [K' PR']]].
        split; [exact B'|split; [exact P'|split; [exact K'|]]]. intros x y. rewrite PR'. cbn [In]. split; [intuition|].
        intros [H0|[Ex [[Ey|Hy] Hi]]]; auto. subst y.
        exfalso. apply (g_contains_spec _ _ Hs) in Hi. congruence.
  Qed.

  (* the induced links of sub_ontology: a link is added exactly for every direct parent that is
     itself retained *)
  Lemma induced_links terms : forall a a', binv a -> SP a -> (forall t, In t terms -> In (t_id t) (ar_keys a)) ->
    (forall p, In p ids -> In p (ar_keys a)) ->
    foldM (fun a t => foldM (inner_step (t_id t)) (t_parents t) a) terms a = Ok a' ->
    binv a' /\ SP a' /\ ar_keys a' = ar_keys a /\
    forall x y, parent_rel a' x y <-> parent_rel a x y \/ exists t, In t terms /\ x = t_id t /\ In y (t_parents t) /\ In y ids.
  Proof.
    induction terms as [|t terms IH]; intros a a' B P Ht Hids H; cbn [foldM] in H.
    - injection H as <-. split; [exact B|split; [exact P|split; [reflexivity|]]]. intros x y. split; [auto|]. intros [H|[t [Hf _]]]; [exact H|destruct Hf].
    - destruct (foldM (inner_step (t_id t)) (t_parents t) a) as [a1| | |] eqn:E1; cbn [bind] in H; try discriminate.
      destruct (inner_links (t_id t) (t_parents t) a a1 B P (Ht t (or_introl eq_refl)) Hids E1) as [B1 [P1 [K1 PR1]]].
      destruct (IH a1 a' B1 P1) as [B' [P' [K' PR']]];
        [intros t0 H0; rewrite K1; apply Ht; right; exact H0|intros q Hq; rewrite K1; apply Hids, Hq|exact H|].
      split; [exact B'|split; [exact P'|split; [congruence|]]]. intros x y. rewrite PR', PR1. split.
      + intros [[H0|[Ex [Hy Hi]]]|[t0 [H0 Hr]]]; [auto| |].
        * right. exists t. split; [left; reflexivity|auto].
        * right. exists t0. split; [right; exact H0|exact Hr].
      + intros [H0|[t0 [[<-|H0] [Ex [Hy Hi]]]]]; [auto| |].
        * left. right. auto.
        * right. exists t0. auto.
  Qed.
End Induced.

(* ---------------- the retained ids are ids of the source ontology ---------------- *)

Lemma links_in_keys o (G : qgood o) l : forall x, In x (ar_keys (o_arena o)) -> links o x l -> Forall (fun y => In y (ar_keys (o_arena o))) l.
Proof.
  induction l as [|y l IH]; intros x Hx H; [constructor|]. destruct H as [[t [Hin [Hid Hp]]] Hl].
  assert (In y (ar_keys (o_arena o))) as Hy by (apply (wf_closed _ (q_wf o G) t Hin y Hp)).
  constructor; [exact Hy|apply (IH y Hy Hl)].
Qed.

Lemma sub_ids_in_keys o (G : qgood o) root leaves ids :
  (forall l, In l leaves -> In l (ar_keys (o_arena o))) -> sub_ids o root leaves = Ok ids ->
  forall x, In x ids -> In x (ar_keys (o_arena o)).
Proof.
  intros Hl H x Hx. rewrite SubP.sub_ids_unfold in H. apply (SubP.sub_ids_spec o root leaves [] ids H x) in Hx.
  destruct Hx as [[]|[l [lt [path [Hin [Hg [Hp Hx]]]]]]].
  destruct (get_unchecked_key _ l (q_wf o G) (Hl l Hin)) as [t [Hg' [Ht Hid]]]. rewrite Hg in Hg'. injection Hg' as ->.
  destruct Hx as [->|Hx]; [rewrite Hid; apply Hl, Hin|].
  destruct (path_anc_sound o G _ t root path Ht Hp) as [Hlk _].
  pose proof (links_in_keys o G path (t_id t) ltac:(rewrite Hid; apply Hl, Hin) Hlk) as F.
  rewrite Forall_forall in F. apply F, Hx.
Qed.

(* ---------------- the copies ---------------- *)

Lemma SP_insert_empty t a a' : t_parents t = [] -> t_allp t = [] -> SP a -> ar_insert t a = Ok a' -> SP a'.
Proof.
  intros Ep Ea P H. unfold ar_insert in H. destruct (MAX_HPO_ID <=? _); [discriminate|].
  destruct (ar_find _ a); injection H as <-; [exact P|].
  intros x [Hin| ->]; [|apply P; right; reflexivity]. cbn [ar_terms] in Hin.
  apply in_app_or in Hin as [Hin|[<-|[]]]; [apply P; left; exact Hin|]. rewrite Ep, Ea. split; constructor.
Qed.

Lemma insert_keys_rel t a a' : t_parents t = [] -> ar_insert t a = Ok a' ->
  (forall x, In x (ar_keys a') <-> In x (ar_keys a) \/ x = t_id t) /\ (forall x y, parent_rel a' x y <-> parent_rel a x y).
Proof.
  intros Ep H. unfold ar_insert in H. destruct (MAX_HPO_ID <=? _); [discriminate|].
  destruct (ar_find (t_id t) a) as [t0|] eqn:Ef; injection H as <-.
  - split; [|tauto]. intros x. split; [auto|]. intros [Hx| ->]; [exact Hx|].
    unfold ar_find in Ef. apply find_by_Some in Ef as [H1 H2]. rewrite <- H2. unfold ar_keys. apply in_map, H1.
  - split.
    + intros x. unfold ar_keys. cbn [ar_terms]. rewrite map_app, in_app_iff. cbn [map In]. intuition.
    + intros x y. unfold parent_rel. cbn [ar_terms]. split; intros [t1 [Hin Hr]].
      * apply in_app_or in Hin as [Hin|[<-|[]]]; [exists t1; auto|]. destruct Hr as [_ Hp]. rewrite Ep in Hp. destruct Hp.
      * exists t1. split; [apply in_or_app; left; exact Hin|exact Hr].
Qed.

Definition copy_of (t : term) : term := set_flags (t_obsolete t) (t_repl t) (new_term (t_name t) (t_id t)).

Lemma copies terms : forall b0 b, binv (o_arena b0) -> SP (o_arena b0) ->
  foldM (fun b t => b_add_term (copy_of t) b) terms b0 = Ok b ->
  binv (o_arena b) /\ SP (o_arena b) /\
  (forall x, In x (ar_keys (o_arena b)) <-> In x (ar_keys (o_arena b0)) \/ In x (map t_id terms)) /\
  (forall x y, parent_rel (o_arena b) x y <-> parent_rel (o_arena b0) x y).
Proof.
  induction terms as [|t terms IH]; intros b0 b B P H; cbn [foldM] in H.
  - injection H as <-. split; [exact B|split; [exact P|split]]; [intros x; cbn; tauto|tauto].
  - unfold b_add_term at 1 in H. destruct (ar_insert (copy_of t) (o_arena b0)) as [a1| | |] eqn:Ei; cbn [bind] in H; try discriminate.
    assert (t_parents (copy_of t) = [] /\ t_children (copy_of t) = [] /\ t_allp (copy_of t) = [] /\ t_id (copy_of t) = t_id t) as [E1 [E2 [E3 E4]]]
      by (unfold copy_of; repeat split).
    destruct (insert_keys_rel _ _ a1 E1 Ei) as [K1 PR1].
    destruct (IH (set_arena a1 b0) b) as [B' [P' [K' PR']]]; [apply (binv_insert _ _ a1 B E1 E2 E3 Ei)|apply (SP_insert_empty _ _ a1 E1 E3 P Ei)|exact H|].
    split; [exact B'|split; [exact P'|split]].
    + intros x. rewrite K'. cbn [o_arena set_arena map In]. rewrite K1, E4. intuition.
    + intros x y. rewrite PR'. cbn [o_arena set_arena]. apply PR1.
Qed.

(* ---------------- annotation steps keep ids, links and caches ---------------- *)

Lemma sub_annotate_same_links k o ids pheno b b' : sub_annotate k o ids pheno b = Ok b' -> same_links (o_arena b) (o_arena b').
Proof.
  unfold sub_annotate. intros H.
  refine (foldM_inv _ (fun s => same_links (o_arena b) (o_arena s)) _ _ b b' _ H); [|apply same_links_refl].
  intros s r s' _ Hs Ss. destruct (g_is_empty _); [injection Hs as <-; exact Ss|].
  refine (foldM_inv _ (fun s2 => same_links (o_arena b) (o_arena s2)) _ _ s s' Ss Hs).
  intros s2 t s3 _ H3 S2. apply (same_links_trans _ _ _ S2). apply (annotate_same_links _ _ _ _ _ _ H3).
Qed.

(* ---------------- the structure of a sub-ontology ---------------- *)

Theorem sub_ontology_structure icf o root leaves o' : qgood o ->
  (forall l, In l leaves -> In l (ar_keys (o_arena o))) ->
  sub_ontology icf o root leaves = Ok o' ->
  exists ids, sub_ids o root leaves = Ok ids /\
    qgood o' /\
    (forall x, In x (ar_keys (o_arena o')) <-> In x ids) /\
    (forall c p, parent_rel (o_arena o') c p <-> In c ids /\ In p ids /\ parent_rel (o_arena o) c p).
Proof.
  intros G Hl H. unfold sub_ontology in H.
  destruct (sub_ids o root leaves) as [ids| | |] eqn:Eids; cbn [bind] in H; try discriminate.
  exists ids. split; [reflexivity|].
  pose proof (sub_ids_in_keys o G root leaves ids Hl Eids) as Hk.
  destruct (mapM (fun id => ar_get_unchecked id (o_arena o)) ids) as [terms| | |] eqn:Et; cbn [bind] in H; try discriminate.
  (* the terms fetched are the terms of o with those ids *)
  assert (Forall2 (fun id t => In t (ar_terms (o_arena o)) /\ t_id t = id) ids terms) as Ft.
  { apply mapM_Ok in Et. eapply Forall2_impl_In; [|exact Et]. intros id t Hid _ Hg.
    destruct (get_unchecked_key _ id (q_wf o G) (Hk id Hid)) as [t0 [Hg0 [Hin0 Hid0]]]. rewrite Hg in Hg0. injection Hg0 as ->. auto. }
  assert (map t_id terms = ids) as Emap.
  { clear -Ft. induction Ft as [|id t l l' [_ E] _ IH]; [reflexivity|]. cbn [map]. rewrite E, IH. reflexivity. }
  assert (sorted ids) as Sids.
  { rewrite SubP.sub_ids_unfold in Eids. clear -Eids.
    assert (forall leaves acc ids, sorted acc -> foldM (SubP.leaf_step o root) leaves acc = Ok ids -> sorted ids) as K.
    { induction leaves0 as [|l ls IH]; intros acc ids0 Sa Hf; cbn [foldM] in Hf; [injection Hf as <-; exact Sa|].
      unfold SubP.leaf_step at 1 in Hf. destruct (ar_get_unchecked l (o_arena o)) as [lt| | |]; cbn [bind] in Hf; try discriminate.
      destruct (path_anc (q_fuel o) o lt root) as [[path|]| | |]; cbn [bind] in Hf; try discriminate.
      apply (IH (fold_left g_add path (g_add acc (t_id lt))) ids0); [|exact Hf]. apply fold_g_add_sorted, g_add_sorted, Sa. }
    apply (K leaves [] ids); [constructor|exact Eids]. }
  change (foldM (fun b t => b_add_term (set_flags (t_obsolete t) (t_repl t) (new_term (t_name t) (t_id t))) b) terms onto_new)
    with (foldM (fun b t => b_add_term (copy_of t) b) terms onto_new) in H.
  destruct (foldM (fun b t => b_add_term (copy_of t) b) terms onto_new) as [b0| | |] eqn:Eb0; cbn [bind] in H; try discriminate.
  destruct (copies terms onto_new b0 binv_default SP_default Eb0) as [B0 [P0 [K0 PR0]]].
  assert (forall x, In x (ar_keys (o_arena b0)) <-> In x ids) as K0'.
  { intros x. rewrite K0, Emap. cbn. tauto. }
  (* induced links *)
  change (foldM (fun a t => foldM (fun a' p => if g_contains p ids then b_add_parent_unchecked p (t_id t) a' else Ok a') (t_parents t) a) terms (o_arena b0))
    with (foldM (fun a t => foldM (inner_step ids (t_id t)) (t_parents t) a) terms (o_arena b0)) in H.
  destruct (foldM (fun a t => foldM (inner_step ids (t_id t)) (t_parents t) a) terms (o_arena b0)) as [a1| | |] eqn:Ea1; cbn [bind] in H; try discriminate.
  destruct (induced_links ids Sids terms (o_arena b0) a1 B0 P0) as [B1 [P1 [K1 PR1]]];
    [intros t Ht; apply K0'; rewrite <- Emap; apply in_map, Ht|intros p Hp; apply K0', Hp|exact Ea1|].
  destruct (connect_all (default_fuel a1) a1) as [a2| | |] eqn:Ea2; cbn [bind] in H; try discriminate.
  assert (qgood (set_arena a2 b0)) as G2.
  { apply (connect_gives_qgood (set_arena a1 b0) (set_arena a2 b0)); [exact B1|exact P1|].
    unfold b_connect_all_terms. cbn [o_arena set_arena]. rewrite Ea2. reflexivity. }
  destruct (connect_all_exact _ _ _ (b_wf _ B1) (b_empty _ B1) Ea2) as [Sm _].
  set (b2 := set_arena a2 b0) in *.
  match type of H with context [sub_annotate KGene o ids ?ph b2] => set (pheno := ph) in * end.
  destruct (sub_annotate KGene o ids pheno b2) as [b3| | |] eqn:E3; cbn [bind] in H; try discriminate.
  destruct (sub_annotate KOmim o ids pheno b3) as [b4| | |] eqn:E4; cbn [bind] in H; try discriminate.
  destruct (sub_annotate KOrpha o ids pheno b4) as [b5| | |] eqn:E5; cbn [bind] in H; try discriminate.
  destruct (b_calculate_ic icf b5) as [b6| | |] eqn:E6; cbn [bind] in H; try discriminate.
  injection H as <-.
  assert (same_links a2 (o_arena (b_build_minimal b6))) as SL.
  { change a2 with (o_arena b2). rewrite build_minimal_arena.
    eapply same_links_trans; [apply (sub_annotate_same_links _ _ _ _ _ _ E3)|].
    eapply same_links_trans; [apply (sub_annotate_same_links _ _ _ _ _ _ E4)|].
    eapply same_links_trans; [apply (sub_annotate_same_links _ _ _ _ _ _ E5)|].
    apply (calculate_ic_same_links icf _ _ E6). }
  split; [apply (qgood_same_links b2 _ G2 SL)|]. split.
  - intros x. rewrite (same_links_keys _ _ SL), (same_keys _ _ Sm), K1. apply K0'.
  - intros c p. rewrite <- (same_links_parent_rel _ _ c p SL), <- (same_parent_rel _ _ c p Sm), PR1, PR0. split.
    + intros [[t [Hin _]]|[t [Ht [-> [Hp Hi]]]]]; [destruct Hin|].
      destruct (Forall2_In_r _ _ _ t Ft Ht) as [id [Hid [Hto Eid]]].
      split; [rewrite Eid; exact Hid|]. split; [exact Hi|]. exists t. auto.
    + intros [Hc [Hp [t [Hin [Hid Hpp]]]]]. right.
      destruct (Forall2_In_l _ _ _ c Ft Hc) as [t' [Ht' [Hin' Hid']]].
      assert (t' = t) as ->.
      { pose proof (find_unique _ t (q_wf o G) Hin) as F1. pose proof (find_unique _ t' (q_wf o G) Hin') as F2.
        rewrite Hid in F1. rewrite Hid' in F2. congruence. }
      exists t. auto.
Qed.
