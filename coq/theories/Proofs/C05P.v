(* C05P.v — matrix iterators are index arithmetic; the combiners are the documented formulas of
   the row/column maxima; transposition; cache transparency.  All statements are unbounded. *)
From Coq Require Import Lia Arith.
From HpoV Require Import Model.Base Model.Matrix Model.Combine Proofs.BaseP.
Local Open Scope nat_scope.

(* ------------------------------------------------------------------------------------------ *)
(* list facts                                                                                   *)
(* ------------------------------------------------------------------------------------------ *)

Lemma nth_skipn {A} (d : A) k : forall l i, nth i (skipn k l) d = nth (k + i) l d.
Proof.
  induction k as [|k IH]; intros l i; [reflexivity|].
  destruct l as [|x t]; cbn [skipn plus nth]; [destruct i; reflexivity|apply IH].
Qed.

Lemma firstn_as_map {A} (d : A) n : forall l, n <= length l ->
  firstn n l = map (fun j => nth j l d) (seq 0 n).
Proof.
  induction n as [|n IH]; intros l H; [reflexivity|].
  destruct l as [|x t]; [cbn in H; lia|]. cbn [firstn seq map nth]. f_equal.
  rewrite <- seq_shift, map_map. apply IH. cbn in H. lia.
Qed.

Lemma map_seq_ext {B} (f g : nat -> B) s n :
  (forall i, s <= i < s + n -> f i = g i) -> map f (seq s n) = map g (seq s n).
Proof.
  intros H. apply map_ext_in. intros i Hi. apply in_seq in Hi. apply H. lia.
Qed.

(* ------------------------------------------------------------------------------------------ *)
(* rows                                                                                         *)
(* ------------------------------------------------------------------------------------------ *)

Lemma row_ranges_spec c (Hc : 0 < c) : forall k i0 r, i0 + k = r ->
  row_ranges k (i0 * c) (r * c) c = map (fun i => (i * c, i * c + c - 1)) (seq i0 k).
Proof.
  induction k as [|k IH]; intros i0 r H; [reflexivity|].
  cbn [row_ranges seq map].
  destruct (Nat.leb_spec (r * c) (i0 * c)) as [Hle|Hlt].
  - exfalso. assert (i0 < r) by lia. nia.
  - f_equal. replace (i0 * c + c) with (S i0 * c) by lia. apply IH. lia.
Qed.

Section Rows.
  Context {A : Type} (d : A).

  Definition rows_ref (m : matrix A) : list (list A) :=
    map (fun i => map (fun j => m_at d m i j) (seq 0 (m_cols m))) (seq 0 (m_rows m)).
  Definition cols_ref (m : matrix A) : list (list A) :=
    map (fun j => map (fun i => m_at d m i j) (seq 0 (m_rows m))) (seq 0 (m_cols m)).

  Definition wf_matrix (m : matrix A) : Prop := length (m_data m) = m_rows m * m_cols m.

  Lemma slice_row l c i : 0 < c -> (S i) * c <= length l ->
    slice_incl l (i * c) (i * c + c - 1) = Ok (map (fun j => nth (i * c + j) l d) (seq 0 c)).
  Proof.
    intros Hc Hlen. unfold slice_incl.
    destruct (Nat.ltb_spec (i * c + c - 1) (length l)) as [H1|H1]; [|cbn in Hlen; lia].
    destruct (Nat.leb_spec (i * c) (S (i * c + c - 1))) as [H2|H2]; [|lia]. cbn [andb].
    replace (S (i * c + c - 1) - i * c) with c by lia.
    rewrite (firstn_as_map d).
    - f_equal. apply map_ext. intros j. apply nth_skipn.
    - rewrite skipn_length. cbn in Hlen. lia.
  Qed.

  Lemma mapM_map_Ok {X Y} (f : X -> res Y) (g : X -> Y) l :
    (forall x, In x l -> f x = Ok (g x)) -> mapM f l = Ok (map g l).
  Proof.
    induction l as [|x t IH]; intros H; [reflexivity|]. cbn [mapM map].
    rewrite (H x (or_introl eq_refl)). cbn [bind]. rewrite IH; [reflexivity|].
    intros y Hy. apply H. right. exact Hy.
  Qed.

  (* Matrix::rows yields row i = [data[i*c + j] | j < c], for i < r — whenever |data| = r*c, c > 0 *)
  Theorem rows_are_index_arithmetic m : wf_matrix m -> 0 < m_cols m ->
    m_rows_iter m = Ok (rows_ref m).
  Proof.
    intros Hwf Hc. unfold m_rows_iter, rows_ref.
    replace (row_ranges (m_rows m) 0 (m_rows m * m_cols m) (m_cols m))
      with (map (fun i => (i * m_cols m, i * m_cols m + m_cols m - 1)) (seq 0 (m_rows m)))
      by (symmetry; apply (row_ranges_spec (m_cols m) Hc (m_rows m) 0 (m_rows m)); lia).
    set (g := fun i => map (fun j => m_at d m i j) (seq 0 (m_cols m))).
    transitivity (Ok (map (fun r : nat * nat => g (fst r / m_cols m))
                          (map (fun i => (i * m_cols m, i * m_cols m + m_cols m - 1)) (seq 0 (m_rows m))))).
    - apply mapM_map_Ok. intros [a b] Hin. apply in_map_iff in Hin as [i [Heq Hi]].
      injection Heq as <- <-. cbn [fst snd]. apply in_seq in Hi.
      rewrite Nat.div_mul by lia. unfold g, m_at. apply slice_row; [exact Hc|].
      rewrite Hwf. assert (S i <= m_rows m) by lia. nia.
    - f_equal. rewrite map_map. apply map_ext. intros i. cbn [fst]. rewrite Nat.div_mul by lia. reflexivity.
  Qed.

  (* ------------------------------------------------------------------------------------------ *)
  (* columns                                                                                      *)
  (* ------------------------------------------------------------------------------------------ *)

  Lemma step_by_spec n (Hn : 0 < n) : forall k fuel (l : list A),
    length l <= fuel -> k * n < length l + n -> length l <= k * n ->
    step_by fuel n l = map (fun i => nth (i * n) l d) (seq 0 k).
  Proof.
    induction k as [|k IH]; intros fuel l Hf H1 H2.
    - assert (l = []) as -> by (destruct l; [reflexivity|cbn in H2; lia]).
      destruct fuel; reflexivity.
    - destruct l as [|x t]; [cbn in H1; lia|].
      destruct fuel as [|f]; [cbn in Hf; lia|].
      cbn [step_by seq map]. f_equal.
      rewrite <- seq_shift, map_map.
      assert (length (skipn (n - 1) t) = length t - (n - 1)) as Hlen by apply skipn_length.
      cbn [length] in *.
      assert (k * n < length (skipn (n - 1) t) + n) as G1.
      { rewrite Hlen. destruct (Nat.le_gt_cases n (S (length t))); [lia|].
        assert (k = 0) by nia. subst k. lia. }
      assert (length (skipn (n - 1) t) <= k * n) as G2 by (rewrite Hlen; lia).
      assert (length (skipn (n - 1) t) <= f) as G3 by (rewrite Hlen; lia).
      rewrite (IH f (skipn (n - 1) t) G3 G1 G2).
      apply map_ext. intros i. rewrite nth_skipn.
      replace (S i * n) with (S (n - 1 + i * n)) by lia. reflexivity.
  Qed.

  (* Matrix::cols yields column j = [data[i*c + j] | i < r], for j < c — whenever |data| = r*c *)
  Theorem cols_are_index_arithmetic m : wf_matrix m -> 0 < m_rows m ->
    m_cols_iter m = cols_ref m.
  Proof.
    intros Hwf Hr. unfold m_cols_iter, cols_ref. apply map_seq_ext. intros j Hj.
    assert (0 < m_cols m) as Hc by lia.
    assert (length (skipn j (m_data m)) = m_rows m * m_cols m - j) as Hlen
      by (rewrite skipn_length, Hwf; reflexivity).
    rewrite (step_by_spec (m_cols m) Hc (m_rows m)).
    - apply map_ext. intros i. rewrite nth_skipn. unfold m_at. f_equal. lia.
    - rewrite skipn_length. lia.
    - rewrite Hlen. assert (m_cols m <= m_rows m * m_cols m) by nia. lia.
    - rewrite Hlen. lia.
  Qed.

End Rows.

(* ------------------------------------------------------------------------------------------ *)
(* the combiners compute the documented formulas                                                *)
(* ------------------------------------------------------------------------------------------ *)
From HpoV Require Import Spec.CombineSpec.

Section Calc.
  Variable F : Type.
  Variable fadd fdiv fmax : F -> F -> F.
  Variable fgt : F -> F -> bool.
  Variable fzero fnzero ftwo : F.
  Variable f_of_u16 : N -> F.

  Notation calc := (combiner_calculate F fadd fdiv fmax fgt fzero fnzero ftwo f_of_u16).
  Notation refc := (ref_calc F fadd fdiv fmax fgt fzero fnzero ftwo f_of_u16).

  Lemma reduce_max_ref l : l <> [] -> reduce_max F fgt l = Ok (ref_max F fgt fzero l).
  Proof. destruct l; [congruence|reflexivity]. Qed.

  Lemma rows_ref_eq m : rows_ref fzero m = ref_rows F fzero m.
  Proof. reflexivity. Qed.
  Lemma cols_ref_eq m : cols_ref fzero m = ref_cols F fzero m.
  Proof. reflexivity. Qed.

  Lemma row_maxes_ref m : wf_matrix m -> 0 < m_rows m -> 0 < m_cols m ->
    row_maxes F fgt m = Ok (map (ref_max F fgt fzero) (ref_rows F fzero m)).
  Proof.
    intros Hwf Hr Hc. unfold row_maxes. rewrite (rows_are_index_arithmetic fzero m Hwf Hc). cbn [bind].
    rewrite rows_ref_eq. apply mapM_map_Ok. intros l Hl. apply reduce_max_ref.
    unfold ref_rows in Hl. apply in_map_iff in Hl as [i [<- _]].
    destruct (m_cols m); [lia|]. cbn [seq map]. discriminate.
  Qed.

  Lemma col_maxes_ref m : wf_matrix m -> 0 < m_rows m -> 0 < m_cols m ->
    col_maxes F fgt m = Ok (map (ref_max F fgt fzero) (ref_cols F fzero m)).
  Proof.
    intros Hwf Hr Hc. unfold col_maxes. rewrite (cols_are_index_arithmetic fzero m Hwf Hr).
    rewrite cols_ref_eq. apply mapM_map_Ok. intros l Hl. apply reduce_max_ref.
    unfold ref_cols in Hl. apply in_map_iff in Hl as [i [<- _]].
    destruct (m_rows m); [lia|]. cbn [seq map]. discriminate.
  Qed.

  (* for every matrix whose data has rows*cols entries (dimensions within u16, as the code
     requires): calculate = the documented formula over the index-arithmetic rows and columns;
     0 when a dimension is 0 *)
  Theorem calculate_is_documented_formula c m :
    wf_matrix m -> (N.of_nat (m_rows m) <= 65535)%N -> (N.of_nat (m_cols m) <= 65535)%N -> calc c m = Ok (refc c m).
  Proof.
    intros Hwf Hr Hc. unfold combiner_calculate, ref_calc.
    destruct (Nat.eqb_spec (m_rows m) 0) as [E1|E1].
    { unfold wf_matrix in Hwf. rewrite E1 in Hwf. cbn in Hwf.
      unfold m_is_empty. destruct (m_data m); [reflexivity|discriminate]. }
    destruct (Nat.eqb_spec (m_cols m) 0) as [E2|E2].
    { unfold wf_matrix in Hwf. rewrite E2, Nat.mul_0_r in Hwf.
      unfold m_is_empty. destruct (m_data m); [reflexivity|discriminate]. }
    cbn [orb].
    assert (m_is_empty m = false) as ->.
    { unfold m_is_empty. destruct (m_data m) eqn:E; [|reflexivity].
      unfold wf_matrix in Hwf. rewrite E in Hwf. cbn in Hwf. nia. }
    unfold std_combine, usize_to_f.
    destruct (N.ltb_spec 65535 (N.of_nat (m_rows m))) as [H|_]; [lia|].
    destruct (N.ltb_spec 65535 (N.of_nat (m_cols m))) as [H|_]; [lia|].
    cbn [bind].
    rewrite (row_maxes_ref m Hwf ltac:(lia) ltac:(lia)). cbn [bind].
    rewrite (col_maxes_ref m Hwf ltac:(lia) ltac:(lia)). cbn [bind].
    destruct c; reflexivity.
  Qed.

  Theorem empty_matrix_is_zero c m : m_data m = [] -> calc c m = Ok fzero.
  Proof. intros H. unfold combiner_calculate, m_is_empty. rewrite H. reflexivity. Qed.

  (* ---------------------------------------------------------------------------------------- *)
  (* the pairwise loop builds the row-major |A| x |B| matrix of sim(a_i, b_j)                   *)
  (* ---------------------------------------------------------------------------------------- *)

  Variable f : N -> N -> F.

  Lemma inner_loop_plain t1 b : forall s acc,
    fold_left (fun (st2 : unit * list F) t2 => let (s2, acc) := st2 in
                 let (s3, v) := plain_sim F f s2 t1 t2 in (s3, acc ++ [v])) b (s, acc)
    = (s, acc ++ map (f t1) b).
  Proof.
    induction b as [|y b IH]; intros s acc; cbn [fold_left map]; [rewrite app_nil_r; reflexivity|].
    unfold plain_sim at 2. rewrite IH, <- app_assoc. reflexivity.
  Qed.

  Lemma pair_loop_plain_gen a b : forall s acc,
    fold_left (fun (st : unit * list F) t1 =>
                 fold_left (fun (st2 : unit * list F) t2 => let (s2, acc) := st2 in
                              let (s3, v) := plain_sim F f s2 t1 t2 in (s3, acc ++ [v])) b st)
              a (s, acc)
    = (s, acc ++ flat_map (fun x => map (f x) b) a).
  Proof.
    induction a as [|x a IH]; intros s acc; cbn [fold_left flat_map].
    - rewrite app_nil_r. reflexivity.
    - rewrite inner_loop_plain, IH, <- app_assoc. reflexivity.
  Qed.

  Lemma pair_loop_plain a b s :
    pair_loop F unit (plain_sim F f) a b s = (s, flat_map (fun x => map (f x) b) a).
  Proof. unfold pair_loop. apply pair_loop_plain_gen. Qed.

  (* ---------------------------------------------------------------------------------------- *)
  (* the caching adaptor is transparent                                                        *)
  (* ---------------------------------------------------------------------------------------- *)

  Definition cache_inv (c : cache F) : Prop := forall a b v, cache_find F a b c = Some v -> v = f a b.

  Lemma cache_inv_nil : cache_inv [].
  Proof. intros a b v H. discriminate. Qed.

  Lemma cached_sim_spec c a b : cache_inv c ->
    snd (cached_sim F f c a b) = f a b /\ cache_inv (fst (cached_sim F f c a b)).
  Proof.
    intros Hinv. unfold cached_sim. destruct (cache_find F a b c) as [v|] eqn:E; cbn [fst snd].
    - split; [apply Hinv, E|exact Hinv].
    - split; [reflexivity|]. intros x y v H. cbn [cache_find] in H.
      destruct ((a =? x)%N && (b =? y)%N) eqn:Eq.
      + apply andb_true_iff in Eq as [E1 E2]. apply N.eqb_eq in E1, E2. subst. congruence.
      + apply Hinv, H.
  Qed.

  Lemma inner_loop_cached t1 b : forall c acc, cache_inv c ->
    exists c', fold_left (fun (st2 : cache F * list F) t2 => let (s2, acc) := st2 in
                 let (s3, v) := cached_sim F f s2 t1 t2 in (s3, acc ++ [v])) b (c, acc)
               = (c', acc ++ map (f t1) b) /\ cache_inv c'.
  Proof.
    induction b as [|y b IH]; intros c acc Hinv; cbn [fold_left map].
    - exists c. rewrite app_nil_r. auto.
    - destruct (cached_sim_spec c t1 y Hinv) as [Hv Hc].
      destruct (cached_sim F f c t1 y) as [c1 v] eqn:E. cbn [fst snd] in Hv, Hc. subst v.
      destruct (IH c1 (acc ++ [f t1 y]) Hc) as [c' [Heq Hc']]. exists c'. rewrite Heq, <- app_assoc. auto.
  Qed.

  Lemma pair_loop_cached_gen a b : forall c acc, cache_inv c ->
    exists c', fold_left (fun (st : cache F * list F) t1 =>
                 fold_left (fun (st2 : cache F * list F) t2 => let (s2, acc) := st2 in
                              let (s3, v) := cached_sim F f s2 t1 t2 in (s3, acc ++ [v])) b st)
              a (c, acc)
      = (c', acc ++ flat_map (fun x => map (f x) b) a) /\ cache_inv c'.
  Proof.
    induction a as [|x a IH]; intros c acc Hinv; cbn [fold_left flat_map].
    - exists c. rewrite app_nil_r. auto.
    - destruct (inner_loop_cached x b c acc Hinv) as [c1 [Heq Hc1]]. rewrite Heq.
      destruct (IH c1 (acc ++ map (f x) b) Hc1) as [c' [Heq' Hc']]. exists c'.
      rewrite Heq', <- app_assoc. auto.
  Qed.

  Lemma pair_loop_cached a b c : cache_inv c ->
    exists c', pair_loop F (cache F) (cached_sim F f) a b c = (c', flat_map (fun x => map (f x) b) a) /\ cache_inv c'.
  Proof. intros H. unfold pair_loop. apply (pair_loop_cached_gen a b c [] H). Qed.

  (* any query answered through a cache whose entries are values of [f] (in particular the empty
     cache, and every cache left behind by earlier queries) equals the uncached answer *)
  Theorem cache_transparent cmb a b c : cache_inv c ->
    snd (group_calculate F fadd fdiv fmax fgt fzero fnzero ftwo f_of_u16 (cache F) (cached_sim F f) cmb a b c)
    = snd (group_calculate F fadd fdiv fmax fgt fzero fnzero ftwo f_of_u16 unit (plain_sim F f) cmb a b tt)
    /\ cache_inv (fst (group_calculate F fadd fdiv fmax fgt fzero fnzero ftwo f_of_u16 (cache F) (cached_sim F f) cmb a b c)).
  Proof.
    intros Hinv. unfold group_calculate.
    destruct (pair_loop_cached a b c Hinv) as [c' [Heq Hc']]. rewrite Heq, pair_loop_plain. cbn [fst snd]. auto.
  Qed.

  (* the matrix handed to the combiner is well-formed: |A| rows, |B| columns, |A|*|B| entries *)
  Theorem pairwise_matrix_wf a b :
    wf_matrix (mkMat (length a) (length b) (flat_map (fun x => map (f x) b) a)).
  Proof.
    unfold wf_matrix. cbn [m_data m_rows m_cols]. induction a as [|x a IH]; [reflexivity|].
    cbn [flat_map length]. rewrite app_length, map_length, IH. lia.
  Qed.

  (* ---------------------------------------------------------------------------------------- *)
  (* a symmetric similarity gives an order-independent result                                   *)
  (* ---------------------------------------------------------------------------------------- *)

  Definition pairwise (a b : list N) : matrix F :=
    mkMat (length a) (length b) (flat_map (fun x => map (f x) b) a).

  Lemma pairwise_at a b : forall i j, i < length a -> j < length b ->
    m_at fzero (pairwise a b) i j = f (nth i a 0%N) (nth j b 0%N).
  Proof.
    unfold m_at, pairwise. cbn [m_cols m_data].
    induction a as [|x a IH]; intros i j Hi Hj; [cbn in Hi; lia|].
    cbn [flat_map]. destruct i as [|i].
    - cbn [Nat.mul plus nth]. rewrite app_nth1 by (rewrite map_length; exact Hj).
      rewrite (nth_indep _ fzero (f x 0%N)) by (rewrite map_length; exact Hj).
      apply (map_nth (f x)).
    - rewrite app_nth2 by (rewrite map_length; nia).
      rewrite map_length. replace (S i * length b + j - length b) with (i * length b + j) by nia.
      cbn [nth]. apply IH; [cbn in Hi; lia|exact Hj].
  Qed.

  Hypothesis fadd_comm : forall x y, fadd x y = fadd y x.
  Hypothesis fmax_comm : forall x y, fmax x y = fmax y x.
  Hypothesis f_sym : forall x y, f x y = f y x.

  Lemma rows_of_swapped a b : ref_rows F fzero (pairwise b a) = ref_cols F fzero (pairwise a b).
  Proof.
    unfold ref_rows, ref_cols. cbn [pairwise m_rows m_cols].
    apply map_seq_ext. intros i Hi. apply map_seq_ext. intros j Hj.
    rewrite !pairwise_at by lia. apply f_sym.
  Qed.

  Lemma cols_of_swapped a b : ref_cols F fzero (pairwise b a) = ref_rows F fzero (pairwise a b).
  Proof.
    unfold ref_rows, ref_cols. cbn [pairwise m_rows m_cols].
    apply map_seq_ext. intros i Hi. apply map_seq_ext. intros j Hj.
    rewrite !pairwise_at by lia. apply f_sym.
  Qed.

  Theorem symmetric_similarity_order_independent cmb a b :
    refc cmb (pairwise b a) = refc cmb (pairwise a b).
  Proof.
    unfold ref_calc. rewrite (rows_of_swapped a b), (cols_of_swapped a b). cbn [pairwise m_rows m_cols].
    rewrite (Bool.orb_comm (Nat.eqb (length b) 0)).
    destruct (Nat.eqb (length a) 0 || Nat.eqb (length b) 0); [reflexivity|].
    destruct cmb.
    - f_equal. apply fadd_comm.
    - apply fmax_comm.
    - f_equal; apply fadd_comm.
  Qed.
End Calc.
