(* C18E.v — comparing two ontologies that agree on everything the comparison looks at reports
   nothing: same term ids with the same name, direct parents, obsolete flag and replacement, same
   record ids with the same name and direct terms.  Corollary: an ontology and its binary round trip
   (names within the format's limits) compare as equal — the last clause of C18. *)
From Coq Require Import Lia Permutation.
From HpoV Require Import Gen.Consts Model.Base Model.Group Model.Onto Model.Query Model.Compare Model.Binary Run.C18
  Proofs.GroupP Proofs.BaseP Proofs.SetsP Proofs.C18P Proofs.ClosureP Proofs.AcyclicP Proofs.DistP Proofs.CodecP Proofs.SectionP
  Proofs.RoundTripP Proofs.AnnotP Proofs.ReloadP Proofs.RoundTripSrcP.

(* what the comparison reads of a term / of a record *)
Definition tview (t : term) : N * bytes * group * bool * option N := (t_id t, t_name t, t_parents t, t_obsolete t, t_repl t).
Definition rview (r : annot) : N * bytes * group := (a_id r, a_name r, a_hpos r).

Record cmp_equiv (ol orr : onto) : Prop := {
  ce_terms_lr : forall t, In t (ar_terms (o_arena ol)) -> exists t', In t' (ar_terms (o_arena orr)) /\ tview t' = tview t;
  ce_terms_rl : forall t', In t' (ar_terms (o_arena orr)) -> exists t, In t (ar_terms (o_arena ol)) /\ tview t' = tview t;
  ce_recs_lr : forall k r, In r (o_records k ol) -> exists r', In r' (o_records k orr) /\ rview r' = rview r;
  ce_recs_rl : forall k r', In r' (o_records k orr) -> exists r, In r (o_records k ol) /\ rview r' = rview r
}.

Lemma o_get_id_iff ol orr id : wf_cmp ol -> wf_cmp orr -> cmp_equiv ol orr ->
  match o_get id ol, o_get id orr with
  | Some t, Some t' => t_id t = id /\ t_id t' = id
  | None, None => True
  | _, _ => False
  end.
Proof.
  intros Wl Wr E. unfold o_get, ar_get. destruct (N.leb_spec MAX_HPO_ID id); [exact I|].
  unfold ar_find. destruct (find_by t_id id (ar_terms (o_arena ol))) as [t|] eqn:El;
    destruct (find_by t_id id (ar_terms (o_arena orr))) as [t'|] eqn:Er.
  - apply find_by_Some in El as [_ El]. apply find_by_Some in Er as [_ Er]. auto.
  - apply find_by_Some in El as [Hin Hid]. destruct (ce_terms_lr ol orr E t Hin) as [t' [Hin' Ev]].
    injection Ev as Ei _ _ _ _. apply (find_by_None _ _ _ Er t' Hin'). congruence.
  - apply find_by_Some in Er as [Hin Hid]. destruct (ce_terms_rl ol orr E t' Hin) as [t [Hin' Ev]].
    injection Ev as Ei _ _ _ _. apply (find_by_None _ _ _ El t Hin'). congruence.
  - exact I.
Qed.

Theorem compare_equiv_empty ol orr : wf_cmp ol -> wf_cmp orr -> cmp_equiv ol orr -> compare ol orr = Ok empty_cmp.
Proof.
  intros Wl Wr E. unfold compare, changed_terms.
  (* every term of the left has its counterpart, and the delta is None *)
  assert (forall t, In t (terms_sorted ol) ->
            (match o_get (t_id t) orr with Some r => term_delta ol orr t r | None => Ok None end) = Ok None) as Hd.
  { intros t Ht. apply sort_by_In in Ht. destruct (ce_terms_lr ol orr E t Ht) as [t' [Ht' Ev]].
    injection Ev as Ei En Ep Eo Er. rewrite <- Ei, (o_get_self orr t' Wr Ht'). unfold term_delta.
    assert (exists ys, resolve_all ol (t_parents t) = Ok ys) as [ys ->].
    { apply mapM_all_Ok. intros p Hp. destruct (wf_parents_resolve ol Wl t Ht p Hp) as [tp Htp]. exists tp. unfold resolve. rewrite Htp. reflexivity. }
    assert (exists ys, resolve_all orr (t_parents t') = Ok ys) as [ys' ->].
    { apply mapM_all_Ok. intros p Hp. destruct (wf_parents_resolve orr Wr t' Ht' p Hp) as [tp Htp]. exists tp. unfold resolve. rewrite Htp. reflexivity. }
    cbn [bind]. rewrite Ep, En, Eo.
    assert (filter (fun p => negb (mem p (t_parents t))) (t_parents t) = []) as ->.
    { apply filter_none. intros p Hp. apply mem_In in Hp. rewrite Hp. reflexivity. }
    rewrite list_eqb_refl. unfold bool_eqb. rewrite Bool.eqb_reflx.
    assert (option_map t_id (replaced_by ol t) = option_map t_id (replaced_by orr t')) as ->.
    { unfold replaced_by. rewrite Er. destruct (t_repl t) as [rid|]; [|reflexivity].
      pose proof (o_get_id_iff ol orr rid Wl Wr E) as K.
      destruct (o_get rid ol) as [x|], (o_get rid orr) as [y|]; cbn [option_map]; try contradiction; [|reflexivity].
      destruct K as [-> ->]. reflexivity. }
    rewrite opt_eqb_refl. reflexivity. }
  assert (exists ds, mapM (fun t => match o_get (t_id t) orr with Some r => term_delta ol orr t r | None => Ok None end)
                          (terms_sorted ol) = Ok ds /\ somes ds = []) as [ds [-> Hds]].
  { destruct (mapM_all_Ok (fun t => match o_get (t_id t) orr with Some r => term_delta ol orr t r | None => Ok None end)
                (terms_sorted ol)) as [ds Ed].
    - intros t Ht. exists None. apply Hd, Ht.
    - exists ds. split; [exact Ed|]. apply somes_all_None. intros x Hx.
      destruct (Forall2_In_r _ _ _ x (mapM_Ok _ _ _ Ed) Hx) as [t [Ht Hf]]. rewrite (Hd t Ht) in Hf. congruence. }
  cbn [bind]. rewrite Hds.
  assert (added_terms ol orr = []) as Ha.
  { unfold added_terms. rewrite filter_none; [reflexivity|]. intros t' Ht'. apply sort_by_In in Ht'.
    destruct (ce_terms_rl ol orr E t' Ht') as [t [Ht Ev]]. injection Ev as Ei _ _ _ _. rewrite Ei, (o_get_self ol t Wl Ht). reflexivity. }
  assert (removed_terms ol orr = []) as Hrt.
  { unfold removed_terms, added_terms. rewrite filter_none; [reflexivity|]. intros t Ht. apply sort_by_In in Ht.
    destruct (ce_terms_lr ol orr E t Ht) as [t' [Ht' Ev]]. injection Ev as Ei _ _ _ _. rewrite <- Ei, (o_get_self orr t' Wr Ht'). reflexivity. }
  assert (forall k, added_records k ol orr = []) as Har.
  { intros k. unfold added_records. rewrite filter_none; [reflexivity|]. intros r' Hin. apply sort_by_In in Hin.
    destruct (ce_recs_rl ol orr E k r' Hin) as [r [Hr0 Ev]]. injection Ev as Ei _ _. rewrite Ei. unfold an_find.
    rewrite (find_by_unique a_id _ r (wf_rec_nodup ol Wl k) Hr0). reflexivity. }
  assert (forall k, removed_records k ol orr = []) as Hrr.
  { intros k. unfold removed_records, added_records. rewrite filter_none; [reflexivity|]. intros r Hin. apply sort_by_In in Hin.
    destruct (ce_recs_lr ol orr E k r Hin) as [r' [Hr' Ev]]. injection Ev as Ei _ _. rewrite <- Ei. unfold an_find.
    rewrite (find_by_unique a_id _ r' (wf_rec_nodup orr Wr k) Hr'). reflexivity. }
  assert (forall k, changed_records k ol orr = []) as Hc.
  { intros k. unfold changed_records. apply somes_all_None. intros x Hx. apply in_map_iff in Hx as [r [Hx Hin]].
    apply sort_by_In in Hin. destruct (ce_recs_lr ol orr E k r Hin) as [r' [Hr' Ev]]. injection Ev as Ei En Eh.
    unfold an_find in Hx. rewrite <- Ei, (find_by_unique a_id _ r' (wf_rec_nodup orr Wr k) Hr') in Hx. subst x.
    unfold annot_delta. rewrite Eh, En.
    assert (filter (fun t => negb (g_contains t (a_hpos r))) (a_hpos r) = []) as ->.
    { apply filter_none. intros y Hy. apply (g_contains_spec y _ (wf_rec_sorted ol Wl k r Hin)) in Hy. rewrite Hy. reflexivity. }
    rewrite list_eqb_refl. reflexivity. }
  rewrite Ha, Hrt, !Har, !Hrr, !Hc. reflexivity.
Qed.

(* ---------------- an ontology and its binary round trip ---------------- *)

Lemma wf_cmp_of_wf_ar o : wf_ar (o_arena o) -> (forall k, NoDup (map a_id (o_records k o))) ->
  (forall k r, In r (o_records k o) -> sorted (a_hpos r)) -> wf_cmp o.
Proof.
  intros W Nd Hs. constructor; [apply (wf_nodup _ W)|apply (wf_range _ W)| |exact Nd|exact Hs].
  intros t Ht p Hp. pose proof (wf_closed _ W t Ht p Hp) as Hk.
  destruct (key_find _ p W Hk) as [tp [Hf [Htp [Hid _]]]]. exists tp. unfold o_get, ar_get.
  pose proof (wf_range _ W tp Htp) as Hr. rewrite Hid in Hr. destruct (N.leb_spec MAX_HPO_ID p); [lia|exact Hf].
Qed.

Theorem roundtrip_compares_equal icf order o o'' :
  src_ok o -> acyclic (o_arena o) -> ann_ok o -> ic_ok icf o -> (forall k, NoDup (map a_id (o_records k o))) ->
  file_ok order o -> (forall l, Permutation (order l) l) ->
  (forall t, In t (ar_terms (o_arena o)) -> Nlen (t_name t) <= TERM_NAME_LIMIT) ->
  (forall r, In r (o_genes o) -> Nlen (a_name r) <= GENE_NAME_LIMIT) ->
  (forall k r, In r (o_records k o) -> sorted (a_hpos r)) ->
  decode icf (encode_with order o) = Ok o'' ->
  compare o o'' = Ok empty_cmp.
Proof.
  intros S Ac A Ic Nd F Hp Ht Hg Hs Hd.
  destruct (roundtrip_complete icf order o o'' S Ac A Ic Nd F Hp Hd) as (K & _ & _ & R & _).
  pose proof (q_wf o (so_q o S)) as W.
  assert (forall r k, rview (raw_record k r) = rview r \/ (k = KGene /\ rview (raw_record k r) = (a_id r, cut_name GENE_NAME_LIMIT (a_name r), a_hpos r))) as Rv
    by (intros r k; destruct k; [right; split; reflexivity|left; reflexivity|left; reflexivity]).
  assert (forall k r, In r (o_records k o) -> rview (raw_record k r) = rview r) as Rv'.
  { intros k r Hr. destruct k; [|reflexivity|reflexivity]. unfold raw_record, rview. cbn [a_id a_name a_hpos].
    rewrite (cut_name_fits _ _ (Hg r Hr)). reflexivity. }
  (* the reload is well-formed for the comparison *)
  assert (ar_keys (o_arena o'') = ar_keys (o_arena o)) as Ek.
  { unfold ar_keys. clear -K. induction K as [|t t' l l' (E & _) _ IH]; [reflexivity|]. cbn [map]. rewrite E, IH. reflexivity. }
  assert (wf_ar (o_arena o'')) as W''.
  { constructor.
    - rewrite Ek. apply (wf_nodup _ W).
    - intros t' Ht'. destruct (Forall2_In_r _ _ _ t' K Ht') as [t [Hin (E & _)]]. rewrite E. apply (wf_range _ W t Hin).
    - intros t' Ht' p Hp'. destruct (Forall2_In_r _ _ _ t' K Ht') as [t [Hin (_ & _ & _ & _ & E & _)]]. rewrite Ek. rewrite E in Hp'.
      apply (wf_closed _ W t Hin p Hp'). }
  assert (wf_cmp o'') as Wc''.
  { apply (wf_cmp_of_wf_ar o'' W'').
    - intros k. rewrite (R k), raw_ids. apply (Permutation_NoDup (Permutation_sym (Permutation_map a_id (Hp (o_records k o)))) (Nd k)).
    - intros k r' Hr'. rewrite (R k) in Hr'. apply in_map_iff in Hr' as [r [<- Hr]]. apply (proj1 (perm_In order Hp _ r)) in Hr.
      destruct (raw_record_fields k r) as [_ ->]. apply (Hs k r Hr). }
  apply (compare_equiv_empty o o'' (wf_cmp_of_wf_ar o W Nd Hs) Wc''). constructor.
  - intros t Hin. destruct (Forall2_In_l _ _ _ t K Hin) as [t' [Hin' (E1 & E2 & E3 & E4 & E5 & _)]]. exists t'. split; [exact Hin'|].
    unfold tview. rewrite E1, E2, E3, E4, E5, (cut_name_fits _ _ (Ht t Hin)). reflexivity.
  - intros t' Hin'. destruct (Forall2_In_r _ _ _ t' K Hin') as [t [Hin (E1 & E2 & E3 & E4 & E5 & _)]]. exists t. split; [exact Hin|].
    unfold tview. rewrite E1, E2, E3, E4, E5, (cut_name_fits _ _ (Ht t Hin)). reflexivity.
  - intros k r Hr. exists (raw_record k r). split; [|apply (Rv' k r Hr)]. rewrite (R k). apply in_map, (proj2 (perm_In order Hp _ r)), Hr.
  - intros k r' Hr'. rewrite (R k) in Hr'. apply in_map_iff in Hr' as [r [<- Hr]]. apply (proj1 (perm_In order Hp _ r)) in Hr.
    exists r. split; [exact Hr|apply (Rv' k r Hr)].
Qed.

(* ---------------- the comparison always returns on well-formed ontologies ---------------- *)

Theorem compare_returns ol orr : wf_cmp ol -> wf_cmp orr -> exists c, compare ol orr = Ok c.
Proof.
  intros Wl Wr. unfold compare, changed_terms.
  destruct (mapM_all_Ok (fun t => match o_get (t_id t) orr with Some r => term_delta ol orr t r | None => Ok None end) (terms_sorted ol)) as [ds ->].
  - intros t Ht. apply sort_by_In in Ht. destruct (o_get (t_id t) orr) as [r|] eqn:Er; [|eexists; reflexivity].
    unfold term_delta.
    assert (exists ys, resolve_all ol (t_parents t) = Ok ys) as [ys ->].
    { apply mapM_all_Ok. intros p Hp. destruct (wf_parents_resolve ol Wl t Ht p Hp) as [tp Htp]. exists tp. unfold resolve. rewrite Htp. reflexivity. }
    assert (In r (ar_terms (o_arena orr))) as Hr.
    { unfold o_get, ar_get in Er. destruct (MAX_HPO_ID <=? t_id t); [discriminate|]. unfold ar_find in Er. apply find_by_Some in Er. apply Er. }
    assert (exists ys, resolve_all orr (t_parents r) = Ok ys) as [ys' ->].
    { apply mapM_all_Ok. intros p Hp. destruct (wf_parents_resolve orr Wr r Hr p Hp) as [tp Htp]. exists tp. unfold resolve. rewrite Htp. reflexivity. }
    cbn [bind]. match goal with |- context [if ?c then _ else _] => destruct c end; eexists; reflexivity.
  - cbn [bind]. eexists. reflexivity.
Qed.
