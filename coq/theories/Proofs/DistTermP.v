(* DistTermP.v — HpoTerm::distance_to_term (Model/Query.v [dist_term]): the minimum, over ALL common
   ancestors (the two terms themselves included), of the summed lengths of shortest upward chains;
   None exactly when no term is reachable upwards from both; independent of the argument order. *)
From Coq Require Import Lia Relations.
From HpoV Require Import Gen.Consts Model.Base Model.Group Model.Onto Model.Query
  Proofs.GroupP Proofs.BaseP Proofs.ClosureP Proofs.DistP.

Section DistTerm.
  Variable o : onto.
  Hypothesis G : qgood o.
  Let a := o_arena o.

  (* the ids reachable upwards from both terms are exactly all_common_ancestor_ids *)
  Lemma up_in_self_or_allp t n c : In t (ar_terms a) -> chain a (t_id t) n c -> c = t_id t \/ In c (t_allp t).
  Proof.
    intros Hin Hc. destruct n as [|n]; [inversion Hc; left; reflexivity|].
    right. apply (q_exact o G t Hin). apply (chain_anc a _ n _ Hc).
  Qed.

  Lemma common_In ta tb c : In ta (ar_terms a) -> In tb (ar_terms a) ->
    (In c (all_common_ancestor_ids ta tb) <->
     (c = t_id ta \/ In c (t_allp ta)) /\ (c = t_id tb \/ In c (t_allp tb))).
  Proof.
    intros Ha Hb. unfold all_common_ancestor_ids, g_plus. rewrite g_inter_In, !g_add_In. reflexivity.
  Qed.

  Definition sum_opt (d1 d2 : option N) : option N :=
    match d1, d2 with Some x, Some y => Some (x + y) | _, _ => None end.

  Lemma dist_term_unfold ta tb :
    dist_term o ta tb =
    do cs <- resolve_all o (all_common_ancestor_ids ta tb) ;;
    do ds <- mapM (fun c => do d1 <- dist_anc (q_fuel o) o ta c ;; do d2 <- dist_anc (q_fuel o) o tb c ;; Ok (sum_opt d1 d2)) cs ;;
    Ok (min_opt ds).
  Proof. reflexivity. Qed.

  (* the distance is realised by two actual chains meeting in one term *)
  Theorem dist_term_sound ta tb d : In ta (ar_terms a) -> In tb (ar_terms a) ->
    dist_term o ta tb = Ok (Some d) ->
    exists c n1 n2, chain a (t_id ta) n1 c /\ chain a (t_id tb) n2 c /\ N.to_nat d = (n1 + n2)%nat.
  Proof.
    intros Ha Hb H. rewrite dist_term_unfold in H.
    apply bind_Ok' in H as [cs [Hcs H]]. apply bind_Ok' in H as [ds [Hds H]]. injection H as H.
    apply min_opt_In in H. apply mapM_Ok in Hds.
    destruct (Forall2_In_r _ _ _ _ Hds H) as [tc [Htc Hf]].
    apply bind_Ok' in Hf as [d1 [H1 Hf]]. apply bind_Ok' in Hf as [d2 [H2 Hf]]. injection Hf as Hf.
    destruct d1 as [x|], d2 as [y|]; cbn [sum_opt] in Hf; try discriminate. injection Hf as <-.
    exists (t_id tc), (N.to_nat x), (N.to_nat y). split; [|split].
    - apply (dist_anc_sound o G _ ta tc x Ha H1).
    - apply (dist_anc_sound o G _ tb tc y Hb H2).
    - lia.
  Qed.

  (* ... and no pair of chains meeting anywhere is shorter; a result is returned (not None) as soon
     as the two terms have any common point upwards *)
  Theorem dist_term_minimal ta tb r : In ta (ar_terms a) -> In tb (ar_terms a) ->
    dist_term o ta tb = Ok r ->
    forall c n1 n2, chain a (t_id ta) n1 c -> chain a (t_id tb) n2 c ->
    exists d, r = Some d /\ (N.to_nat d <= n1 + n2)%nat.
  Proof.
    intros Ha Hb H c n1 n2 C1 C2. rewrite dist_term_unfold in H.
    apply bind_Ok' in H as [cs [Hcs H]]. apply bind_Ok' in H as [ds [Hds H]]. injection H as <-.
    assert (In c (all_common_ancestor_ids ta tb)) as Hc.
    { apply (common_In ta tb c Ha Hb). split; [apply (up_in_self_or_allp ta n1 c Ha C1)|apply (up_in_self_or_allp tb n2 c Hb C2)]. }
    unfold resolve_all in Hcs. apply mapM_Ok in Hcs.
    destruct (Forall2_In_l _ _ _ c Hcs Hc) as [tc [Htc Hr]].
    destruct (resolve_In o c tc Hr) as [Htcin Hid].
    apply mapM_Ok in Hds. destruct (Forall2_In_l _ _ _ tc Hds Htc) as [dd [Hdd Hf]].
    apply bind_Ok' in Hf as [d1 [H1 Hf]]. apply bind_Ok' in Hf as [d2 [H2 Hf]]. injection Hf as Hf.
    rewrite <- Hid in C1, C2.
    destruct (dist_anc_minimal o G _ ta tc d1 Ha H1 n1 C1) as [x [-> Hx]].
    destruct (dist_anc_minimal o G _ tb tc d2 Hb H2 n2 C2) as [y [-> Hy]].
    cbn [sum_opt] in Hf. subst dd.
    destruct (min_opt_le ds (x + y) Hdd) as [m [-> Hm]]. exists m. split; [reflexivity|lia].
  Qed.

  (* None exactly when nothing is reachable upwards from both terms *)
  Theorem dist_term_none ta tb : In ta (ar_terms a) -> In tb (ar_terms a) ->
    dist_term o ta tb = Ok None -> forall c n1 n2, chain a (t_id ta) n1 c -> ~ chain a (t_id tb) n2 c.
  Proof.
    intros Ha Hb H c n1 n2 C1 C2. destruct (dist_term_minimal ta tb None Ha Hb H c n1 n2 C1 C2) as [d [Hd _]]. discriminate.
  Qed.

  (* a term is at distance 0 from itself *)
  Theorem dist_term_self ta r : In ta (ar_terms a) -> dist_term o ta ta = Ok r -> r = Some 0.
  Proof.
    intros Ha H. destruct (dist_term_minimal ta ta r Ha Ha H (t_id ta) 0 0 (chain_nil _ _) (chain_nil _ _)) as [d [-> Hd]].
    f_equal. lia.
  Qed.

  (* the argument order does not matter *)
  Theorem dist_term_symmetric ta tb r : In ta (ar_terms a) -> In tb (ar_terms a) ->
    dist_term o ta tb = Ok r -> dist_term o tb ta = Ok r.
  Proof.
    intros Ha Hb H. rewrite dist_term_unfold in *.
    assert (all_common_ancestor_ids tb ta = all_common_ancestor_ids ta tb) as ->.
    { unfold all_common_ancestor_ids, g_plus. apply g_inter_comm; apply g_add_sorted; [apply (q_sorted_a o G tb Hb)|apply (q_sorted_a o G ta Ha)]. }
    destruct (resolve_all o (all_common_ancestor_ids ta tb)) as [cs| | |]; cbn [bind] in *; try discriminate.
    apply bind_Ok' in H as [ds [Hds H]].
    assert (mapM (fun c => do d1 <- dist_anc (q_fuel o) o tb c ;; do d2 <- dist_anc (q_fuel o) o ta c ;; Ok (sum_opt d1 d2)) cs = Ok ds) as ->; [|exact H].
    clear H. revert ds Hds. induction cs as [|c cs IH]; intros ds Hds; cbn [mapM] in *; [exact Hds|].
    apply bind_Ok' in Hds as [v [Hv Hds]]. apply bind_Ok' in Hds as [vs [Hvs Hds]]. injection Hds as <-.
    apply bind_Ok' in Hv as [d1 [H1 Hv]]. apply bind_Ok' in Hv as [d2 [H2 Hv]]. injection Hv as <-.
    rewrite H2, H1. cbn [bind]. rewrite (IH vs Hvs). cbn [bind]. f_equal. f_equal.
    destruct d1, d2; cbn [sum_opt]; try reflexivity. f_equal. lia.
  Qed.
End DistTerm.
