(* C09P.v — the text functions of the JAX loaders invert the renderers (byte level) *)
From Coq Require Import Lia.
From HpoV Require Import Gen.Consts Model.Base Model.Group Model.Onto Model.Binary Model.TermId Model.Text Proofs.C20P
  Proofs.BaseP Proofs.SetsP.

(* ---------------- joining and splitting on one byte ---------------- *)

Fixpoint join_byte (b : N) (ps : list bytes) : bytes :=
  match ps with
  | [] => []
  | [p] => p
  | p :: t => p ++ b :: join_byte b t
  end.

Definition no_byte (b : N) (p : bytes) : Prop := ~ In b p.

Lemma split_byte_piece b p : forall cur rest, no_byte b p ->
  split_byte b (p ++ b :: rest) cur = (rev cur ++ p) :: split_byte b rest [].
Proof.
  induction p as [|c p IH]; intros cur rest Hn; cbn [app split_byte].
  - rewrite N.eqb_refl, app_nil_r. reflexivity.
  - destruct (N.eqb_spec c b) as [E|E]; [exfalso; apply Hn; left; exact E|].
    rewrite IH by (intros H; apply Hn; right; exact H). cbn [rev]. rewrite <- app_assoc. reflexivity.
Qed.

Lemma split_byte_last b p : forall cur, no_byte b p -> split_byte b p cur = [rev cur ++ p].
Proof.
  induction p as [|c p IH]; intros cur Hn; cbn [split_byte].
  - rewrite app_nil_r. reflexivity.
  - destruct (N.eqb_spec c b) as [E|E]; [exfalso; apply Hn; left; exact E|].
    rewrite IH by (intros H; apply Hn; right; exact H). cbn [rev]. rewrite <- app_assoc. reflexivity.
Qed.

(* split(b) inverts join(b) on pieces that do not contain b *)
Theorem split_byte_join b ps : ps <> [] -> Forall (no_byte b) ps -> split_byte b (join_byte b ps) [] = ps.
Proof.
  induction ps as [|p t IH]; intros Hne Hall; [congruence|].
  inversion Hall as [|? ? Hp Ht]; subst. destruct t as [|q t'].
  - cbn [join_byte]. rewrite split_byte_last by exact Hp. reflexivity.
  - change (join_byte b (p :: q :: t')) with (p ++ b :: join_byte b (q :: t')).
    rewrite split_byte_piece by exact Hp. cbn [rev app]. f_equal. apply IH; [discriminate|exact Ht].
Qed.

(* ---------------- prefixes and separators ---------------- *)

Theorem strip_prefix_app p s : strip_prefix p (p ++ s) = Some s.
Proof. induction p as [|x p IH]; cbn [app strip_prefix]; [reflexivity|]. rewrite N.eqb_refl. exact IH. Qed.

Lemma split_once2_first k : forall cur v b1 b2, ~ In b1 k ->
  split_once2 b1 b2 (k ++ b1 :: b2 :: v) cur = Some (rev cur ++ k, v).
Proof.
  induction k as [|c k IH]; intros cur v b1 b2 Hn; cbn [app split_once2].
  - rewrite !N.eqb_refl. cbn [andb]. rewrite app_nil_r. reflexivity.
  - destruct (N.eqb_spec c b1) as [E|E]; [exfalso; apply Hn; left; exact E|]. cbn [andb].
    destruct (k ++ b1 :: b2 :: v) eqn:Ek; [destruct k; discriminate|]. rewrite <- Ek.
    rewrite IH by (intros H; apply Hn; right; exact H). cbn [rev]. rewrite <- app_assoc. reflexivity.
Qed.

(* `key: value` lines: split_once(": ") returns the key and the WHOLE rest, also when the value
   itself contains ": " (names such as "A: b") *)
Theorem key_value_line k v : ~ In 58 k -> split_once2 58 32 (k ++ 58 :: 32 :: v) [] = Some (k, v).
Proof. intros H. apply (split_once2_first k [] v 58 32 H). Qed.

Lemma split_once1_first k : forall cur v b, ~ In b k -> split_once1 b (k ++ b :: v) cur = Some (rev cur ++ k, v).
Proof.
  induction k as [|c k IH]; intros cur v b Hn; cbn [app split_once1].
  - rewrite N.eqb_refl, app_nil_r. reflexivity.
  - destruct (N.eqb_spec c b) as [E|E]; [exfalso; apply Hn; left; exact E|].
    rewrite IH by (intros H; apply Hn; right; exact H). cbn [rev]. rewrite <- app_assoc. reflexivity.
Qed.

(* the id of an `is_a: HP:xxxxxxx ! label` line is the text before the first blank *)
Theorem isa_line_id idtxt label : ~ In 32 idtxt ->
  split_once1 32 (idtxt ++ 32 :: label) [] = Some (idtxt, label).
Proof. intros H. apply (split_once1_first idtxt [] label 32 H). Qed.

(* ------------------------------------------------------------------------------------------ *)
(* lines                                                                                        *)
(* ------------------------------------------------------------------------------------------ *)

Definition plain_line (l : bytes) : Prop := ~ In NL l /\ (forall r, rev l <> CR :: r).

Lemma strip_cr_plain l : plain_line l -> strip_cr l = l.
Proof.
  intros [_ H]. unfold strip_cr. destruct (rev l) as [|c r] eqn:E; [reflexivity|].
  destruct (N.eqb_spec c CR) as [->|]; [exfalso; exact (H r eq_refl)|reflexivity].
Qed.

Lemma last_nonempty_rev {A} (ls : list (list A)) l0 : ls <> [] -> last ls l0 <> [] ->
  match rev ls with [] :: r => rev r | _ => ls end = ls.
Proof.
  intros Hne Hlast. destruct (rev ls) as [|x r] eqn:E; [reflexivity|].
  destruct x; [|reflexivity]. exfalso. apply Hlast.
  assert (ls = rev r ++ [[]]) as -> by (rewrite <- (rev_involutive ls), E; reflexivity).
  apply last_last.
Qed.

(* `lines` of the lines joined by \n gives the lines back (non-empty last line, no \n inside, no
   trailing \r) — with or without a final \n *)
Theorem lines_join ls : ls <> [] -> Forall plain_line ls -> last ls [] <> [] ->
  lines (join_byte NL ls) = ls.
Proof.
  intros Hne Hall Hlast. unfold lines. cbv zeta.
  rewrite split_byte_join; [|exact Hne|eapply Forall_impl; [|exact Hall]; intros l [H _]; exact H].
  pose proof (last_nonempty_rev ls [] Hne Hlast) as L. cbv beta in L |- *.
  match goal with |- map strip_cr ?X = ls => replace X with ls by (symmetry; exact L) end.
  rewrite <- (map_id ls) at 2. apply map_ext_in. intros l Hl. apply strip_cr_plain.
  rewrite Forall_forall in Hall. apply Hall, Hl.
Qed.

(* ------------------------------------------------------------------------------------------ *)
(* one [Term] stanza                                                                            *)
(* ------------------------------------------------------------------------------------------ *)

Definition kv (k v : bytes) : bytes := k ++ 58 :: 32 :: v.

Definition s_is_a : bytes := [105; 115; 95; 97].
Definition s_bang : bytes := [32; 33; 32].            (* " ! " *)

(* the lines of a [Term] stanza as the JAX file writes them: id, name, other tags, is_a lines with
   a label, is_obsolete, replaced_by *)
Definition stanza_lines (t : term) (parents : list (N * bytes)) (extras : list (bytes * bytes)) : list bytes :=
  kv s_id (show (t_id t)) :: kv s_name (t_name t)
  :: map (fun e => kv (fst e) (snd e)) extras
  ++ map (fun p => kv s_is_a (show (fst p) ++ s_bang ++ snd p)) parents
  ++ (if t_obsolete t then [kv s_is_obsolete s_true] else [])
  ++ (match t_repl t with Some r => [kv s_replaced_by (show r)] | None => [] end).

Definition ignored_key (k : bytes) : Prop :=
  ~ In 58 k /\ k <> s_id /\ k <> s_name /\ k <> s_is_obsolete /\ k <> s_replaced_by.
Definition other_key (k : bytes) : Prop := ignored_key k /\ k <> s_is_a.

Lemma list_eqb_neq (a b : bytes) : a <> b -> list_eqb a b = false.
Proof.
  intros H. destruct (list_eqb a b) eqn:E; [|reflexivity]. apply SetsP.list_eqb_eq in E. contradiction.
Qed.

Definition fields_fold := foldM (fun (f : obo_fields) (line : bytes) =>
           let '(id, name, obs, repl) := f in
           match split_once2 58 32 line [] with
           | None => Panic
           | Some (k, v) =>
               if list_eqb k s_id then Ok (Some v, name, obs, repl)
               else if list_eqb k s_name then Ok (id, Some v, obs, repl)
               else if list_eqb k s_is_obsolete then Ok (id, name, Some v, repl)
               else if list_eqb k s_replaced_by then Ok (id, name, obs, Some v)
               else Ok f
           end).

Lemma term_fields_is_fold ls : term_fields ls = fields_fold ls (None, None, None, None).
Proof. reflexivity. Qed.

Lemma fields_ignored (ls : list (bytes * bytes)) : forall f, Forall (fun e => ignored_key (fst e)) ls ->
  fields_fold (map (fun e => kv (fst e) (snd e)) ls) f = Ok f.
Proof.
  induction ls as [|[k v] ls IH]; intros f Hall; [reflexivity|].
  inversion Hall as [|? ? [H58 [H1 [H2 [H3 H4]]]] Hrest]; subst. cbn [map fst snd] in *.
  destruct f as [[[id name] obs] repl]. unfold fields_fold. cbn [foldM].
  change (split_once2 58 32 (kv k v) []) with (split_once2 58 32 (k ++ 58 :: 32 :: v) []).
  rewrite (key_value_line k v H58).
  rewrite (list_eqb_neq _ _ H1), (list_eqb_neq _ _ H2), (list_eqb_neq _ _ H3), (list_eqb_neq _ _ H4). cbn [bind].
  apply (IH (id, name, obs, repl) Hrest).
Qed.

Lemma is_a_ignored : ignored_key s_is_a.
Proof.
  unfold ignored_key, s_is_a, s_id, s_name, s_is_obsolete, s_replaced_by.
  split; [cbn [In]; intros [H|[H|[H|[H|[]]]]]; discriminate|]. repeat split; discriminate.
Qed.

Lemma fields_isa (ps : list (N * bytes)) : forall f,
  fields_fold (map (fun p => kv s_is_a (show (fst p) ++ s_bang ++ snd p)) ps) f = Ok f.
Proof.
  intros f.
  rewrite <- (map_map (fun p : N * bytes => (s_is_a, show (fst p) ++ s_bang ++ snd p)) (fun e => kv (fst e) (snd e))).
  apply fields_ignored. apply Forall_forall. intros e He. apply in_map_iff in He as [p [<- _]]. cbn [fst].
  exact is_a_ignored.
Qed.

Lemma fields_fold_app l1 l2 f : fields_fold (l1 ++ l2) f = do f' <- fields_fold l1 f ;; fields_fold l2 f'.
Proof.
  unfold fields_fold. revert f. induction l1 as [|x l1 IH]; intros f; cbn [app foldM]; [reflexivity|].
  match goal with |- bind ?r _ = _ => destruct r as [f1| | |] end; cbn [bind]; try reflexivity. apply IH.
Qed.

(* the fields collected from a rendered stanza *)
Theorem term_fields_render t parents extras : Forall (fun e => other_key (fst e)) extras ->
  term_fields (stanza_lines t parents extras) =
    Ok (Some (show (t_id t)), Some (t_name t),
        (if t_obsolete t then Some s_true else None),
        (match t_repl t with Some r => Some (show r) | None => None end)).
Proof.
  intros Hex. rewrite term_fields_is_fold. unfold stanza_lines.
  change (kv s_id (show (t_id t)) :: kv s_name (t_name t) :: ?rest)
    with ([kv s_id (show (t_id t)); kv s_name (t_name t)] ++ rest).
  rewrite fields_fold_app.
  assert (fields_fold [kv s_id (show (t_id t)); kv s_name (t_name t)] (None, None, None, None)
          = Ok (Some (show (t_id t)), Some (t_name t), None, None)) as ->.
  { unfold fields_fold. cbn [foldM].
    change (split_once2 58 32 (kv s_id (show (t_id t))) []) with (split_once2 58 32 (s_id ++ 58 :: 32 :: show (t_id t)) []).
    rewrite (key_value_line s_id (show (t_id t))) by (unfold s_id; cbn; intros [H|[H|[]]]; discriminate).
    change (list_eqb s_id s_id) with true. cbn [bind].
    change (split_once2 58 32 (kv s_name (t_name t)) []) with (split_once2 58 32 (s_name ++ 58 :: 32 :: t_name t) []).
    rewrite (key_value_line s_name (t_name t)) by (unfold s_name; cbn; intros [H|[H|[H|[H|[]]]]]; discriminate).
    reflexivity. }
  cbn [bind]. rewrite fields_fold_app, (fields_ignored extras _ (Forall_impl _ (fun e (H : other_key (fst e)) => proj1 H) Hex)).
  cbn [bind]. rewrite fields_fold_app, fields_isa. cbn [bind].
  destruct (t_obsolete t); destruct (t_repl t) as [r|]; cbn [app]; unfold fields_fold; cbn [foldM].
  - change (split_once2 58 32 (kv s_is_obsolete s_true) []) with (split_once2 58 32 (s_is_obsolete ++ 58 :: 32 :: s_true) []).
    rewrite (key_value_line s_is_obsolete s_true) by (unfold s_is_obsolete; cbn; intuition discriminate).
    change (list_eqb s_is_obsolete s_id) with false. change (list_eqb s_is_obsolete s_name) with false.
    change (list_eqb s_is_obsolete s_is_obsolete) with true. cbn [bind].
    change (split_once2 58 32 (kv s_replaced_by (show r)) []) with (split_once2 58 32 (s_replaced_by ++ 58 :: 32 :: show r) []).
    rewrite (key_value_line s_replaced_by (show r)) by (unfold s_replaced_by; cbn; intuition discriminate).
    reflexivity.
  - change (split_once2 58 32 (kv s_is_obsolete s_true) []) with (split_once2 58 32 (s_is_obsolete ++ 58 :: 32 :: s_true) []).
    rewrite (key_value_line s_is_obsolete s_true) by (unfold s_is_obsolete; cbn; intuition discriminate).
    reflexivity.
  - change (split_once2 58 32 (kv s_replaced_by (show r)) []) with (split_once2 58 32 (s_replaced_by ++ 58 :: 32 :: show r) []).
    rewrite (key_value_line s_replaced_by (show r)) by (unfold s_replaced_by; cbn; intuition discriminate).
    reflexivity.
  - reflexivity.
Qed.

(* ---------------- the whole stanza: term_from_obo and add_connections ---------------- *)

Definition clean (v : bytes) : Prop := ~ In NL v /\ ~ In CR v.

Lemma clean_plain l : clean l -> plain_line l.
Proof.
  intros [H1 H2]. split; [exact H1|]. intros r E. apply H2. apply in_rev. rewrite E. left. reflexivity.
Qed.

Lemma clean_app a b : clean a -> clean b -> clean (a ++ b).
Proof. intros [A1 A2] [B1 B2]. split; intros H; apply in_app_iff in H as [H|H]; auto. Qed.

Lemma clean_show n : clean (show n) /\ ~ In 32 (show n).
Proof.
  destruct (show_shape n) as [ds [E [_ Hd]]]. rewrite E.
  assert (forall c, c = NL \/ c = CR \/ c = 32 -> ~ In c ([72; 80; 58] ++ ds)) as K.
  { intros c Hc Hin. apply in_app_iff in Hin as [Hin|Hin].
    - unfold NL, CR in Hc. cbn in Hin. lia.
    - rewrite Forall_forall in Hd. specialize (Hd c Hin). unfold NL, CR in Hc. lia. }
  repeat split; apply K; auto.
Qed.

Lemma clean_kv k v : clean k -> clean v -> clean (kv k v).
Proof.
  intros Hk Hv. unfold kv. apply clean_app; [exact Hk|].
  change (58 :: 32 :: v) with ([58; 32] ++ v). apply clean_app; [|exact Hv].
  split; unfold NL, CR; cbn; lia.
Qed.

Lemma clean_const (l : bytes) : forallb (fun c => negb (c =? NL) && negb (c =? CR)) l = true -> clean l.
Proof.
  intros H. rewrite forallb_forall in H. split; intros Hin; specialize (H _ Hin); unfold NL, CR in H; cbn in H; discriminate.
Qed.

Record stanza_ok (t : term) (parents : list (N * bytes)) (extras : list (bytes * bytes)) : Prop := {
  so_id : t_id t <= U32_MAX;
  so_repl : forall r, t_repl t = Some r -> r <= U32_MAX;
  so_name : clean (t_name t);
  so_parents : Forall (fun p => fst p <= U32_MAX /\ clean (snd p)) parents;
  so_extras : Forall (fun e => other_key (fst e) /\ clean (fst e) /\ clean (snd e)) extras
}.

Lemma stanza_lines_clean t parents extras : stanza_ok t parents extras -> Forall clean (stanza_lines t parents extras).
Proof.
  intros [Hid Hrepl Hname Hpar Hex]. unfold stanza_lines.
  constructor; [apply clean_kv; [apply clean_const; reflexivity|apply clean_show]|].
  constructor; [apply clean_kv; [apply clean_const; reflexivity|exact Hname]|].
  apply Forall_app. split.
  - apply Forall_forall. intros l Hl. apply in_map_iff in Hl as [e [<- He]].
    rewrite Forall_forall in Hex. destruct (Hex e He) as [_ [H1 H2]]. apply clean_kv; assumption.
  - apply Forall_app. split.
    + apply Forall_forall. intros l Hl. apply in_map_iff in Hl as [p [<- Hp]].
      rewrite Forall_forall in Hpar. destruct (Hpar p Hp) as [_ H2].
      apply clean_kv; [apply clean_const; reflexivity|].
      apply clean_app; [apply clean_show|]. apply clean_app; [apply clean_const; reflexivity|exact H2].
    + apply Forall_app. split.
      * destruct (t_obsolete t); constructor; [|constructor]. apply clean_kv; apply clean_const; reflexivity.
      * destruct (t_repl t); constructor; [|constructor]. apply clean_kv; [apply clean_const; reflexivity|apply clean_show].
Qed.

Lemma last_In' {A} (l : list A) d : l <> [] -> In (last l d) l.
Proof.
  induction l as [|x l IH]; intros H; [congruence|]. destruct l as [|y l']; [left; reflexivity|].
  right. apply IH. discriminate.
Qed.

Lemma stanza_lines_join t parents extras : stanza_ok t parents extras ->
  lines (join_byte NL (stanza_lines t parents extras)) = stanza_lines t parents extras.
Proof.
  intros Hok. apply lines_join.
  - discriminate.
  - eapply Forall_impl; [|apply stanza_lines_clean, Hok]. intros l. apply clean_plain.
  - (* every line contains ": ": none is empty *)
    assert (forall l, In l (stanza_lines t parents extras) -> l <> []) as Hne.
    { intros l Hl. unfold stanza_lines in Hl.
      assert (forall k v, kv k v <> []) as K by (intros k v; unfold kv; destruct k; discriminate).
      destruct Hl as [<-|[<-|Hl]]; try apply K.
      apply in_app_iff in Hl as [Hl|Hl]; [apply in_map_iff in Hl as [e [<- _]]; apply K|].
      apply in_app_iff in Hl as [Hl|Hl]; [apply in_map_iff in Hl as [p [<- _]]; apply K|].
      apply in_app_iff in Hl as [Hl|Hl].
      - destruct (t_obsolete t); [destruct Hl as [<-|[]]; apply K|destruct Hl].
      - destruct (t_repl t); [destruct Hl as [<-|[]]; apply K|destruct Hl]. }
    apply Hne. apply last_In'. discriminate.
Qed.

(* term_from_obo on a rendered stanza: the term with its name, obsolete flag and replacement *)
Theorem term_from_obo_render t parents extras : stanza_ok t parents extras ->
  term_from_obo (join_byte NL (stanza_lines t parents extras)) =
    Ok (Some (set_flags (t_obsolete t) (t_repl t) (new_term (t_name t) (t_id t)))).
Proof.
  intros Hok. unfold term_from_obo. rewrite (stanza_lines_join t parents extras Hok).
  rewrite term_fields_render by (eapply Forall_impl; [|exact (so_extras _ _ _ Hok)]; intros e [H _]; exact H).
  cbn [bind]. rewrite (parse_show _ (so_id _ _ _ Hok)).
  destruct (t_obsolete t); destruct (t_repl t) as [r|] eqn:Er;
    try rewrite (parse_show r (so_repl _ _ _ Hok r Er)); reflexivity.
Qed.

(* ---------------- add_connections on a rendered stanza ---------------- *)

Lemma strip_prefix_other_key k0 : forall k v, ~ In 58 k0 -> ~ In 58 k -> k <> k0 ->
  strip_prefix (k0 ++ [58; 32]) (kv k v) = None.
Proof.
  induction k0 as [|c k0 IH]; intros k v H0 Hk Hne.
  - destruct k as [|d k]; [congruence|]. cbn [app strip_prefix kv].
    destruct (N.eqb_spec 58 d) as [E|E]; [exfalso; apply Hk; left; symmetry; exact E|reflexivity].
  - destruct k as [|d k].
    + cbn [app strip_prefix kv]. destruct (N.eqb_spec c 58) as [E|E]; [exfalso; apply H0; left; exact E|reflexivity].
    + cbn [app strip_prefix]. unfold kv. cbn [app]. destruct (N.eqb_spec c d) as [E|E]; [|reflexivity].
      apply (IH k v); [intros H; apply H0; right; exact H|intros H; apply Hk; right; exact H|congruence].
Qed.

Lemma isa_prefix : OBO_ISA_PREFIX = s_is_a ++ [58; 32].
Proof. reflexivity. Qed.

Definition conn_step (id : N) (acc : list (N * N)) (line : bytes) : res (list (N * N)) :=
  match strip_prefix OBO_ISA_PREFIX line with
  | None => Ok acc
  | Some v => match split_once1 32 v [] with
              | None => Ok acc
              | Some (tid, _) => match parse_id tid with
                                 | Ok p => Ok (acc ++ [(id, p)])
                                 | _ => Panic
                                 end
              end
  end.

Lemma connections_is_fold stanza id : connections_of stanza id = foldM (conn_step id) (lines stanza) [].
Proof. reflexivity. Qed.

Lemma conn_skip id (ls : list bytes) : forall acc,
  Forall (fun l => strip_prefix OBO_ISA_PREFIX l = None) ls -> foldM (conn_step id) ls acc = Ok acc.
Proof.
  induction ls as [|l ls IH]; intros acc H; [reflexivity|]. inversion H as [|? ? Hl Hr]; subst.
  cbn [foldM]. unfold conn_step at 1. rewrite Hl. cbn [bind]. apply IH, Hr.
Qed.

Lemma conn_isa id (ps : list (N * bytes)) : forall acc, Forall (fun p => fst p <= U32_MAX) ps ->
  foldM (conn_step id) (map (fun p => kv s_is_a (show (fst p) ++ s_bang ++ snd p)) ps) acc
  = Ok (acc ++ map (fun p => (id, fst p)) ps).
Proof.
  induction ps as [|[p lab] ps IH]; intros acc H; cbn [map foldM]; [rewrite app_nil_r; reflexivity|].
  inversion H as [|? ? Hp Hr]; subst. cbn [fst snd] in *.
  unfold conn_step at 1. rewrite isa_prefix.
  replace (kv s_is_a (show p ++ s_bang ++ lab)) with ((s_is_a ++ [58; 32]) ++ (show p ++ s_bang ++ lab))
    by (unfold kv; rewrite <- app_assoc; reflexivity).
  rewrite strip_prefix_app.
  change (show p ++ s_bang ++ lab) with (show p ++ 32 :: ([33; 32] ++ lab)).
  rewrite (isa_line_id (show p) _ (proj2 (clean_show p))). rewrite (parse_show p Hp). cbn [bind].
  rewrite (IH _ Hr), <- app_assoc. reflexivity.
Qed.

Lemma foldM_app {A S} (f : S -> A -> res S) l1 l2 s : foldM f (l1 ++ l2) s = do s' <- foldM f l1 s ;; foldM f l2 s'.
Proof.
  revert s. induction l1 as [|x l1 IH]; intros s; cbn [app foldM]; [reflexivity|].
  destruct (f s x); cbn [bind]; try reflexivity. apply IH.
Qed.

(* add_connections on a rendered stanza: exactly one (term, parent) pair per is_a line *)
Theorem connections_render t parents extras : stanza_ok t parents extras ->
  connections_of (join_byte NL (stanza_lines t parents extras)) (t_id t)
  = Ok (map (fun p => (t_id t, fst p)) parents).
Proof.
  intros Hok. rewrite connections_is_fold, (stanza_lines_join t parents extras Hok). unfold stanza_lines.
  assert (forall k v, ~ In 58 k -> k <> s_is_a -> strip_prefix OBO_ISA_PREFIX (kv k v) = None) as Hskip.
  { intros k v H1 H2. rewrite isa_prefix. apply strip_prefix_other_key; [|exact H1|exact H2].
    unfold s_is_a. cbn. intuition discriminate. }
  cbn [foldM]. unfold conn_step at 1. rewrite Hskip by (unfold s_id, s_is_a; cbn; intuition discriminate). cbn [bind].
  unfold conn_step at 1. rewrite Hskip by (unfold s_name, s_is_a; cbn; intuition discriminate). cbn [bind].
  rewrite foldM_app, conn_skip.
  2:{ apply Forall_forall. intros l Hl. apply in_map_iff in Hl as [e [<- He]].
      pose proof (so_extras _ _ _ Hok) as Hex. rewrite Forall_forall in Hex. destruct (Hex e He) as [[[H58 _] Hne] _].
      apply Hskip; assumption. }
  cbn [bind]. rewrite foldM_app, conn_isa.
  2:{ eapply Forall_impl; [|exact (so_parents _ _ _ Hok)]. intros p [H _]. exact H. }
  cbn [bind app]. apply conn_skip. apply Forall_app. split.
  - destruct (t_obsolete t); constructor; [|constructor]. apply Hskip; [unfold s_is_obsolete|unfold s_is_obsolete, s_is_a]; cbn; intuition discriminate.
  - destruct (t_repl t); constructor; [|constructor]. apply Hskip; [unfold s_replaced_by|unfold s_replaced_by, s_is_a]; cbn; intuition discriminate.
Qed.

(* ------------------------------------------------------------------------------------------ *)
(* the file: stanzas separated by one blank line                                                *)
(* ------------------------------------------------------------------------------------------ *)

Fixpoint join_blank (cs : list bytes) : bytes :=
  match cs with
  | [] => []
  | [c] => c
  | c :: t => c ++ NL :: NL :: join_blank t
  end.

(* a chunk that can be told apart: no blank line inside, does not end with a line break *)
Fixpoint no_blank (s : bytes) : Prop :=
  match s with
  | [] => True
  | c :: t => match t with
              | c2 :: _ => ~ (c = NL /\ c2 = NL) /\ no_blank t
              | [] => c <> NL
              end
  end.

Lemma split_blank_chunk c : forall cur rest, c <> [] -> no_blank c ->
  split_blank (c ++ NL :: NL :: rest) cur = (rev cur ++ c) :: split_blank rest [].
Proof.
  induction c as [|x c IH]; intros cur rest Hne Hnb; [congruence|].
  destruct c as [|y c'].
  - (* last byte of the chunk: x <> NL *)
    cbn [app]. cbn [no_blank] in Hnb.
    change (split_blank (x :: NL :: NL :: rest) cur) with
      (if (x =? NL) && (NL =? NL) then rev cur :: split_blank (NL :: rest) [] else split_blank (NL :: NL :: rest) (x :: cur)).
    destruct (N.eqb_spec x NL) as [E|E]; [contradiction|]. cbn [andb].
    change (split_blank (NL :: NL :: rest) (x :: cur)) with
      (if (NL =? NL) && (NL =? NL) then rev (x :: cur) :: split_blank rest [] else split_blank (NL :: rest) (NL :: x :: cur)).
    cbn [N.eqb Pos.eqb andb rev]. unfold NL. cbn [N.eqb Pos.eqb andb]. reflexivity.
  - cbn [no_blank] in Hnb. destruct Hnb as [Hxy Hnb].
    change ((x :: y :: c') ++ NL :: NL :: rest) with (x :: (y :: c') ++ NL :: NL :: rest).
    change (split_blank (x :: (y :: c') ++ NL :: NL :: rest) cur) with
      (if (x =? NL) && (y =? NL) then rev cur :: split_blank (c' ++ NL :: NL :: rest) []
       else split_blank ((y :: c') ++ NL :: NL :: rest) (x :: cur)).
    destruct ((x =? NL) && (y =? NL)) eqn:E.
    + exfalso. apply andb_true_iff in E as [E1 E2]. apply N.eqb_eq in E1, E2. apply Hxy. auto.
    + rewrite (IH (x :: cur) rest ltac:(discriminate) Hnb). cbn [rev]. rewrite <- app_assoc. reflexivity.
Qed.

Lemma split_blank_last c : forall cur, no_blank c -> split_blank c cur = [rev cur ++ c].
Proof.
  induction c as [|x c IH]; intros cur Hnb; [cbn; rewrite app_nil_r; reflexivity|].
  destruct c as [|y c'].
  - cbn [split_blank rev]. reflexivity.
  - cbn [no_blank] in Hnb. destruct Hnb as [Hxy Hnb].
    change (split_blank (x :: y :: c') cur) with
      (if (x =? NL) && (y =? NL) then rev cur :: split_blank c' [] else split_blank (y :: c') (x :: cur)).
    destruct ((x =? NL) && (y =? NL)) eqn:E.
    + exfalso. apply andb_true_iff in E as [E1 E2]. apply N.eqb_eq in E1, E2. apply Hxy. auto.
    + rewrite (IH (x :: cur) Hnb). cbn [rev]. rewrite <- app_assoc. reflexivity.
Qed.

(* split("\n\n") inverts joining by one blank line *)
Theorem split_blank_join cs : cs <> [] -> Forall (fun c => c <> [] /\ no_blank c) cs ->
  split_blank (join_blank cs) [] = cs.
Proof.
  induction cs as [|c t IH]; intros Hne Hall; [congruence|].
  inversion Hall as [|? ? [Hc Hnb] Ht]; subst. destruct t as [|c2 t'].
  - cbn [join_blank]. rewrite split_blank_last by exact Hnb. reflexivity.
  - change (join_blank (c :: c2 :: t')) with (c ++ NL :: NL :: join_blank (c2 :: t')).
    rewrite split_blank_chunk by assumption. cbn [rev app]. f_equal. apply IH; [discriminate|exact Ht].
Qed.

(* ---------------- rendered chunks can be told apart ---------------- *)

Lemma no_blank_cons_nonNL x s : x <> NL -> no_blank s -> no_blank (x :: s).
Proof. intros Hx Hs. destruct s as [|y s']; cbn [no_blank]; [exact Hx|]. split; [intros [E _]; contradiction|exact Hs]. Qed.

Lemma no_blank_text p : ~ In NL p -> p <> [] -> no_blank p.
Proof.
  induction p as [|x p IH]; intros Hn Hne; [congruence|]. destruct p as [|y p'].
  - cbn [no_blank]. intros E. apply Hn. left. exact E.
  - apply no_blank_cons_nonNL; [intros E; apply Hn; left; exact E|]. apply IH; [intros H; apply Hn; right; exact H|discriminate].
Qed.

(* text, one line break, then something that does not start with a line break *)
Lemma no_blank_line_then p s : ~ In NL p -> p <> [] -> no_blank s -> (exists y s', s = y :: s' /\ y <> NL) ->
  no_blank (p ++ NL :: s).
Proof.
  intros Hn Hne Hs [y [s' [-> Hy]]]. induction p as [|x p IH]; [congruence|].
  assert (x <> NL) as Hx by (intros E; apply Hn; left; exact E).
  destruct p as [|x2 p'].
  - cbn [app]. cbn [no_blank]. split; [intros [E _]; contradiction|]. split; [intros [_ E]; contradiction|exact Hs].
  - change ((x :: x2 :: p') ++ NL :: y :: s') with (x :: (x2 :: p') ++ NL :: y :: s').
    apply no_blank_cons_nonNL; [exact Hx|]. apply IH; [intros H; apply Hn; right; exact H|discriminate].
Qed.

Lemma join_lines_no_blank ls : ls <> [] -> Forall (fun l => ~ In NL l /\ l <> []) ls ->
  no_blank (join_byte NL ls) /\ exists y s', join_byte NL ls = y :: s' /\ y <> NL.
Proof.
  induction ls as [|l t IH]; intros Hne Hall; [congruence|].
  inversion Hall as [|? ? [Hn Hl] Ht]; subst. destruct t as [|l2 t'].
  - cbn [join_byte]. split; [apply no_blank_text; assumption|].
    destruct l as [|y s']; [congruence|]. exists y, s'. split; [reflexivity|]. intros E. apply Hn. left. exact E.
  - change (join_byte NL (l :: l2 :: t')) with (l ++ NL :: join_byte NL (l2 :: t')).
    destruct (IH ltac:(discriminate) Ht) as [Hnb Hhd]. split.
    + apply no_blank_line_then; assumption.
    + destruct l as [|y s']; [congruence|]. exists y, (s' ++ NL :: join_byte NL (l2 :: t')). split; [reflexivity|].
      intros E. apply Hn. left. exact E.
Qed.

Definition term_chunk (t : term) (parents : list (N * bytes)) (extras : list (bytes * bytes)) : bytes :=
  term_header_nl ++ join_byte NL (stanza_lines t parents extras).

Lemma stanza_lines_nonempty_clean t parents extras : stanza_ok t parents extras ->
  Forall (fun l => ~ In NL l /\ l <> []) (stanza_lines t parents extras).
Proof.
  intros Hok. pose proof (stanza_lines_clean t parents extras Hok) as Hc.
  apply Forall_forall. intros l Hl. rewrite Forall_forall in Hc. split; [apply (Hc l Hl)|].
  (* every line is `k: v` *)
  unfold stanza_lines in Hl.
  assert (forall k v, kv k v <> []) as K by (intros k v; unfold kv; destruct k; discriminate).
  destruct Hl as [<-|[<-|Hl]]; try apply K.
  apply in_app_iff in Hl as [Hl|Hl]; [apply in_map_iff in Hl as [e [<- _]]; apply K|].
  apply in_app_iff in Hl as [Hl|Hl]; [apply in_map_iff in Hl as [p [<- _]]; apply K|].
  apply in_app_iff in Hl as [Hl|Hl].
  - destruct (t_obsolete t); [destruct Hl as [<-|[]]; apply K|destruct Hl].
  - destruct (t_repl t); [destruct Hl as [<-|[]]; apply K|destruct Hl].
Qed.

Lemma term_chunk_ok t parents extras : stanza_ok t parents extras ->
  term_chunk t parents extras <> [] /\ no_blank (term_chunk t parents extras).
Proof.
  intros Hok. split; [unfold term_chunk, term_header_nl, OBO_TERM_HEADER; discriminate|].
  unfold term_chunk, term_header_nl. rewrite <- app_assoc. cbn [app].
  destruct (join_lines_no_blank (stanza_lines t parents extras) ltac:(discriminate) (stanza_lines_nonempty_clean _ _ _ Hok)) as [Hnb Hhd].
  apply no_blank_line_then; [unfold OBO_TERM_HEADER, NL; cbn; intuition discriminate|discriminate|exact Hnb|exact Hhd].
Qed.

(* ---------------- read_obo_file on a rendered file ---------------- *)

(* what read_obo does for one [Term] chunk: add the term, remember its links *)
Definition obo_step (st : onto * list (N * N)) (x : term * list (N * bytes) * list (bytes * bytes)) : res (onto * list (N * N)) :=
  let '(t, parents, extras) := x in
  do o2 <- b_add_term (set_flags (t_obsolete t) (t_repl t) (new_term (t_name t) (t_id t))) (fst st) ;;
  Ok (o2, snd st ++ map (fun p => (t_id t, fst p)) parents).

Definition read_obo_chunks := foldM (fun (st : onto * list (N * N)) (chunk : bytes) =>
             let (o1, conns) := st in
             match strip_prefix term_header_nl chunk with
             | Some stanza =>
                 do t <- term_from_obo stanza ;;
                 match t with
                 | Some raw =>
                     do o2 <- b_add_term raw o1 ;;
                     do cs <- connections_of stanza (t_id raw) ;;
                     Ok (o2, conns ++ cs)
                 | None => Ok st
                 end
             | None =>
                 if starts_with OBO_HEADER_START chunk then
                   do v <- version_from_obo (lines chunk) ;;
                   Ok (set_version (match v with Some x => x | None => (0, 0, 0) end) o1, conns)
                 else Ok st
             end).

Lemma set_flags_id o r t : t_id (set_flags o r t) = t_id t.
Proof. destruct t; reflexivity. Qed.

(* the [Term] stanzas of a rendered file, in file order: each adds its term and its links *)
Theorem read_obo_terms stanzas : forall st,
  Forall (fun x : term * list (N * bytes) * list (bytes * bytes) => let '(t, ps, ex) := x in stanza_ok t ps ex) stanzas ->
  read_obo_chunks (map (fun x : term * list (N * bytes) * list (bytes * bytes) => let '(t, ps, ex) := x in term_chunk t ps ex) stanzas) st
  = foldM obo_step stanzas st.
Proof.
  induction stanzas as [|[[t ps] ex] stanzas IH]; intros [o1 conns] Hall; [reflexivity|].
  inversion Hall as [|? ? Hok Hrest]; subst. cbn [map]. unfold read_obo_chunks. cbn [foldM].
  unfold term_chunk at 1. rewrite strip_prefix_app.
  rewrite (term_from_obo_render t ps ex Hok). cbn [bind].
  unfold obo_step at 1. cbn [fst snd].
  destruct (b_add_term (set_flags (t_obsolete t) (t_repl t) (new_term (t_name t) (t_id t))) o1) as [o2| | |]; cbn [bind]; try reflexivity.
  rewrite set_flags_id. cbn [new_term t_id]. rewrite (connections_render t ps ex Hok). cbn [bind].
  apply (IH (o2, conns ++ map (fun p => (t_id t, fst p)) ps) Hrest).
Qed.

Record header_ok (h : bytes) : Prop := {
  h_nonempty : h <> [];
  h_no_blank : no_blank h;
  h_not_term : strip_prefix term_header_nl h = None;
  h_start : starts_with OBO_HEADER_START h = true
}.

(* READ_OBO_FILE ON A RENDERED hp.obo: a header chunk followed by [Term] stanzas separated by one
   blank line each (any number, any order) — the release version comes from the header, every
   stanza adds its term (first occurrence of an id wins, as in Arena::insert) and exactly its
   is_a links, applied after all terms are known *)
Theorem read_obo_render header stanzas o : header_ok header ->
  Forall (fun x : term * list (N * bytes) * list (bytes * bytes) => let '(t, ps, ex) := x in stanza_ok t ps ex) stanzas ->
  read_obo (join_blank (header :: map (fun x : term * list (N * bytes) * list (bytes * bytes) => let '(t, ps, ex) := x in term_chunk t ps ex) stanzas)) o
  = do v <- version_from_obo (lines header) ;;
    do r <- foldM obo_step stanzas (set_version (match v with Some x => x | None => (0, 0, 0) end) o, []) ;;
    let (o1, conns) := r : onto * list (N * N) in
    do a <- foldM (fun a (cp : N * N) => b_add_parent_unchecked (snd cp) (fst cp) a) conns (o_arena o1) ;;
    Ok (set_arena a o1).
Proof.
  intros Hh Hall. unfold read_obo.
  rewrite split_blank_join.
  2: discriminate.
  2:{ constructor; [split; [apply (h_nonempty _ Hh)|apply (h_no_blank _ Hh)]|].
      apply Forall_forall. intros c Hc. apply in_map_iff in Hc as [[[t ps] ex] [<- Hx]].
      rewrite Forall_forall in Hall. apply (term_chunk_ok t ps ex (Hall _ Hx)). }
  change (foldM _ (header :: ?cs) (o, [])) with (read_obo_chunks (header :: cs) (o, [])).
  unfold read_obo_chunks at 1. cbn [foldM]. rewrite (h_not_term _ Hh), (h_start _ Hh).
  destruct (version_from_obo (lines header)) as [v| | |]; cbn [bind]; try reflexivity.
  change (foldM _ (map ?g stanzas) ?st) with (read_obo_chunks (map g stanzas) st).
  rewrite (read_obo_terms stanzas _ Hall). reflexivity.
Qed.

(* the premises are satisfiable: the header every hp.obo starts with, and a stanza with a parent
   link and an ignored line *)
Example header_ok_example : header_ok (OBO_HEADER_START ++ [NL; 120; 58; 32; 121]).
Proof.
  split; [discriminate| |reflexivity|reflexivity].
  vm_compute. repeat split; intros H; try discriminate; destruct H as [H1 H2]; discriminate.
Qed.

Example stanza_ok_example :
  stanza_ok (set_flags true (Some 7) (new_term [65; 58; 32; 66] 118)) [(1, [120])] [([100; 101; 102], [122])].
Proof.
  assert (forall l : bytes, forallb (fun c => negb (c =? NL) && negb (c =? CR)) l = true -> clean l) as Hc.
  { intros l H. rewrite forallb_forall in H. split; intros Hin; apply H in Hin; vm_compute in Hin; discriminate. }
  split.
  - vm_compute; discriminate.
  - intros r H. vm_compute in H. injection H as <-. vm_compute; discriminate.
  - apply Hc. reflexivity.
  - constructor; [|constructor]. split; [vm_compute; discriminate|apply Hc; reflexivity].
  - constructor; [|constructor]. split; [|split; apply Hc; reflexivity].
    split; [|discriminate]. split; [intros H; vm_compute in H; repeat (destruct H as [H|H]; [discriminate|]); exact H|].
    repeat split; discriminate.
Qed.
