(* C09P.v — the text functions of the JAX loaders invert the renderers (byte level) *)
From Coq Require Import Lia.
From HpoV Require Import Gen.Consts Model.Base Model.Group Model.Onto Model.Binary Model.TermId Model.Text
  Proofs.BaseP Proofs.SetsP.

(* ---------------- joining and splitting on one byte ---------------- *)

Fixpoint join_byte (b : N) (ps : list bytes) : bytes :=
  match ps with
  | [] => []
  | [p] => p
  | p :: t => p ++ b :: join_byte b t
  end.

Definition no_byte (b : N) (p : bytes) : Prop := ~ In b p.

Lemma split_byte_piece b p : forall cur rest, no_byte b p ->
  split_byte b (p ++ b :: rest) cur = (rev cur ++ p) :: split_byte b rest [].
Proof.
  induction p as [|c p IH]; intros cur rest Hn; cbn [app split_byte].
  - rewrite N.eqb_refl, app_nil_r. reflexivity.
  - destruct (N.eqb_spec c b) as [E|E]; [exfalso; apply Hn; left; exact E|].
    rewrite IH by (intros H; apply Hn; right; exact H). cbn [rev]. rewrite <- app_assoc. reflexivity.
Qed.

Lemma split_byte_last b p : forall cur, no_byte b p -> split_byte b p cur = [rev cur ++ p].
Proof.
  induction p as [|c p IH]; intros cur Hn; cbn [split_byte].
  - rewrite app_nil_r. reflexivity.
  - destruct (N.eqb_spec c b) as [E|E]; [exfalso; apply Hn; left; exact E|].
    rewrite IH by (intros H; apply Hn; right; exact H). cbn [rev]. rewrite <- app_assoc. reflexivity.
Qed.

(* split(b) inverts join(b) on pieces that do not contain b *)
Theorem split_byte_join b ps : ps <> [] -> Forall (no_byte b) ps -> split_byte b (join_byte b ps) [] = ps.
Proof.
  induction ps as [|p t IH]; intros Hne Hall; [congruence|].
  inversion Hall as [|? ? Hp Ht]; subst. destruct t as [|q t'].
  - cbn [join_byte]. rewrite split_byte_last by exact Hp. reflexivity.
  - change (join_byte b (p :: q :: t')) with (p ++ b :: join_byte b (q :: t')).
    rewrite split_byte_piece by exact Hp. cbn [rev app]. f_equal. apply IH; [discriminate|exact Ht].
Qed.

(* ---------------- prefixes and separators ---------------- *)

Theorem strip_prefix_app p s : strip_prefix p (p ++ s) = Some s.
Proof. induction p as [|x p IH]; cbn [app strip_prefix]; [reflexivity|]. rewrite N.eqb_refl. exact IH. Qed.

Lemma split_once2_first k : forall cur v b1 b2, ~ In b1 k ->
  split_once2 b1 b2 (k ++ b1 :: b2 :: v) cur = Some (rev cur ++ k, v).
Proof.
  induction k as [|c k IH]; intros cur v b1 b2 Hn; cbn [app split_once2].
  - rewrite !N.eqb_refl. cbn [andb]. rewrite app_nil_r. reflexivity.
  - destruct (N.eqb_spec c b1) as [E|E]; [exfalso; apply Hn; left; exact E|]. cbn [andb].
    destruct (k ++ b1 :: b2 :: v) eqn:Ek; [destruct k; discriminate|]. rewrite <- Ek.
    rewrite IH by (intros H; apply Hn; right; exact H). cbn [rev]. rewrite <- app_assoc. reflexivity.
Qed.

(* `key: value` lines: split_once(": ") returns the key and the WHOLE rest, also when the value
   itself contains ": " (names such as "A: b") *)
Theorem key_value_line k v : ~ In 58 k -> split_once2 58 32 (k ++ 58 :: 32 :: v) [] = Some (k, v).
Proof. intros H. apply (split_once2_first k [] v 58 32 H). Qed.

Lemma split_once1_first k : forall cur v b, ~ In b k -> split_once1 b (k ++ b :: v) cur = Some (rev cur ++ k, v).
Proof.
  induction k as [|c k IH]; intros cur v b Hn; cbn [app split_once1].
  - rewrite N.eqb_refl, app_nil_r. reflexivity.
  - destruct (N.eqb_spec c b) as [E|E]; [exfalso; apply Hn; left; exact E|].
    rewrite IH by (intros H; apply Hn; right; exact H). cbn [rev]. rewrite <- app_assoc. reflexivity.
Qed.

(* the id of an `is_a: HP:xxxxxxx ! label` line is the text before the first blank *)
Theorem isa_line_id idtxt label : ~ In 32 idtxt ->
  split_once1 32 (idtxt ++ 32 :: label) [] = Some (idtxt, label).
Proof. intros H. apply (split_once1_first idtxt [] label 32 H). Qed.
