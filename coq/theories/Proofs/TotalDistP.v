(* TotalDistP.v — TOTALITY of the distance and path queries (Model/Query.v, hpoterm.rs:827-1010): in an
   acyclic ontology with exact ancestor caches distance_to_ancestor, path_to_ancestor and
   distance_to_term RETURN for all terms of the ontology with the fuel q_fuel the transcription uses
   — the recursion climbs to parents, whose ancestor caches are strictly smaller.  (The theorems of
   DistP / DistTermP are of the form "whenever the query returns ..."; this shows they always apply.) *)
From Coq Require Import Lia Relations.
From HpoV Require Import Gen.Consts Model.Base Model.Group Model.Onto Model.Query
  Proofs.GroupP Proofs.BaseP Proofs.ClosureP Proofs.AcyclicP Proofs.DistP Proofs.DistTermP Proofs.C18P Proofs.WalkP.

Section T.
  Variable o : onto.
  Hypothesis G : qgood o.
  Hypothesis Ac : acyclic (o_arena o).
  Let a := o_arena o.

  (* a parent's ancestor cache is strictly smaller *)
  Lemma parent_cache_smaller t p tp : In t (ar_terms a) -> In p (t_parents t) -> In tp (ar_terms a) -> t_id tp = p ->
    (length (t_allp tp) < length (t_allp t))%nat.
  Proof.
    intros Ht Hp Htp Hid.
    assert (incl (t_id tp :: t_allp tp) (t_allp t)) as Hi.
    { intros x [<-|Hx]; apply (q_exact o G t Ht).
      - rewrite Hid. apply t_step. exists t. auto.
      - apply (q_exact o G tp Htp) in Hx. eapply t_trans; [apply t_step; exists t; split; [exact Ht|split; [reflexivity|exact Hp]]|]. rewrite <- Hid. exact Hx. }
    assert (NoDup (t_id tp :: t_allp tp)) as Nd.
    { constructor; [|apply sorted_NoDup, (q_sorted_a o G tp Htp)]. intros Hx. apply (q_exact o G tp Htp) in Hx. apply (Ac _ Hx). }
    pose proof (NoDup_incl_length Nd Hi) as Hl. cbn [length] in Hl. lia.
  Qed.

  Theorem dist_anc_total : forall fuel ta tb, In ta (ar_terms a) -> (length (t_allp ta) < fuel)%nat ->
    exists r, dist_anc fuel o ta tb = Ok r.
  Proof.
    induction fuel as [|f IH]; intros ta tb Hta Hr; [lia|]. cbn [dist_anc].
    destruct (t_id ta =? t_id tb); [eexists; reflexivity|]. destruct (g_contains (t_id tb) (t_parents ta)); [eexists; reflexivity|].
    destruct (negb (g_contains (t_id tb) (t_allp ta))); [eexists; reflexivity|].
    destruct (mapM_all_Ok (fun pid => do p <- resolve o pid ;; dist_anc f o p tb) (t_parents ta)) as [ds ->]; [|cbn [bind]; eexists; reflexivity].
    intros p Hp. destruct (resolve_parent o G ta p Hta Hp) as [tp [Er [Htp Hid]]]. rewrite Er. cbn [bind].
    apply (IH tp tb Htp). pose proof (parent_cache_smaller ta p tp Hta Hp Htp Hid). lia.
  Qed.

  Theorem path_anc_total : forall fuel ta tb, In ta (ar_terms a) -> (length (t_allp ta) < fuel)%nat ->
    exists r, path_anc fuel o ta tb = Ok r.
  Proof.
    induction fuel as [|f IH]; intros ta tb Hta Hr; [lia|]. cbn [path_anc].
    destruct (t_id ta =? t_id tb); [eexists; reflexivity|]. destruct (g_contains (t_id tb) (t_parents ta)); [eexists; reflexivity|].
    destruct (negb (g_contains (t_id tb) (t_allp ta))); [eexists; reflexivity|].
    match goal with |- context [mapM ?F (t_parents ta)] => destruct (mapM_all_Ok F (t_parents ta)) as [ps ->]; [|cbn [bind]; eexists; reflexivity] end.
    intros p Hp. destruct (resolve_parent o G ta p Hta Hp) as [tp [Er [Htp Hid]]]. rewrite Er. cbn [bind].
    destruct (IH tp tb Htp) as [r Er2]; [pose proof (parent_cache_smaller ta p tp Hta Hp Htp Hid); lia|].
    rewrite Er2. cbn [bind]. eexists. reflexivity.
  Qed.

  Lemma cache_below_fuel t : In t (ar_terms a) -> (length (t_allp t) < q_fuel o)%nat.
  Proof.
    intros Ht. unfold q_fuel.
    assert (incl (t_allp t) (ar_keys a)) as Hi by (intros x Hx; apply (q_exact o G t Ht) in Hx; apply (AnnotP.anc_in_keys _ _ _ (q_wf o G) Hx)).
    pose proof (NoDup_incl_length (sorted_NoDup _ (q_sorted_a o G t Ht)) Hi) as Hl. unfold ar_keys in Hl. rewrite map_length in Hl. fold a. lia.
  Qed.

  (* distance_to_ancestor / path_to_ancestor as the code calls them *)
  Corollary distance_to_ancestor_returns ta tb : In ta (ar_terms a) -> exists r, dist_anc (q_fuel o) o ta tb = Ok r.
  Proof. intros Hta. apply dist_anc_total; [exact Hta|apply cache_below_fuel, Hta]. Qed.

  Corollary path_to_ancestor_returns ta tb : In ta (ar_terms a) -> exists r, path_anc (q_fuel o) o ta tb = Ok r.
  Proof. intros Hta. apply path_anc_total; [exact Hta|apply cache_below_fuel, Hta]. Qed.

  (* distance_to_term *)
  Theorem distance_to_term_returns ta tb : In ta (ar_terms a) -> In tb (ar_terms a) -> exists r, dist_term o ta tb = Ok r.
  Proof.
    intros Hta Htb. unfold dist_term.
    destruct (resolve_all_keys o (all_common_ancestor_ids ta tb) G) as [cs Ecs].
    { intros c Hc. apply (common_In o ta tb c Hta Htb) in Hc as [[->|Hc] _].
      - unfold ar_keys. apply in_map, Hta.
      - apply (q_exact o G ta Hta) in Hc. apply (AnnotP.anc_in_keys _ _ _ (q_wf o G) Hc). }
    rewrite Ecs. cbn [bind].
    match goal with |- context [mapM ?F cs] => destruct (mapM_all_Ok F cs) as [ds ->]; [|cbn [bind]; eexists; reflexivity] end.
    intros c _. destruct (distance_to_ancestor_returns ta c Hta) as [d1 ->]. cbn [bind].
    destruct (distance_to_ancestor_returns tb c Htb) as [d2 ->]. cbn [bind]. eexists. reflexivity.
  Qed.

  (* an ancestor is reached by a chain of parent links *)
  Lemma chain_app x n y m z : chain a x n y -> chain a y m z -> chain a x (n + m) z.
  Proof. induction 1 as [x|x p y n Hxp _ IH]; intros H2; [exact H2|]. cbn [plus]. econstructor; [exact Hxp|apply IH, H2]. Qed.

  Lemma anc_to_chain x y : anc a x y -> exists n, chain a x n y.
  Proof.
    induction 1 as [x y Hxy|x y z _ [n1 H1] _ [n2 H2]].
    - exists 1%nat. econstructor; [exact Hxy|constructor].
    - exists (n1 + n2)%nat. apply (chain_app x n1 y n2 z H1 H2).
  Qed.

  Lemma up_chain t c : In t (ar_terms a) -> (c = t_id t \/ In c (t_allp t)) -> exists n, chain a (t_id t) n c.
  Proof.
    intros Ht [->|Hc]; [exists 0%nat; constructor|]. apply anc_to_chain, (q_exact o G t Ht c), Hc.
  Qed.

  (* path_to_term: returns, and never through one of its expect() panics *)
  Theorem path_to_term_returns ta tb : In ta (ar_terms a) -> In tb (ar_terms a) -> exists r, path_term o ta tb = Ok r.
  Proof.
    intros Hta Htb. unfold path_term.
    destruct (resolve_all_keys o (all_common_ancestor_ids ta tb) G) as [cs Ecs].
    { intros c Hc. apply (common_In o ta tb c Hta Htb) in Hc as [[->|Hc] _].
      - unfold ar_keys. apply in_map, Hta.
      - apply (q_exact o G ta Hta) in Hc. apply (AnnotP.anc_in_keys _ _ _ (q_wf o G) Hc). }
    rewrite Ecs. cbn [bind].
    (* every resolved common ancestor is reached from both terms *)
    assert (forall c, In c cs -> In c (ar_terms a) /\ (exists n, chain a (t_id ta) n (t_id c)) /\ (exists n, chain a (t_id tb) n (t_id c))) as Hcs.
    { intros c Hc. pose proof (mapM_Ok _ _ _ Ecs) as F. destruct (Forall2_In_r _ _ _ c F Hc) as [cid [Hcid Hres]].
      destruct (resolve_In o cid c Hres) as [Hct Eid]. subst cid.
      apply (common_In o ta tb (t_id c) Hta Htb) in Hcid as [Ua Ub].
      split; [exact Hct|]. split; [apply (up_chain ta (t_id c) Hta Ua)|apply (up_chain tb (t_id c) Htb Ub)]. }
    match goal with |- context [mapM ?F cs] => destruct (mapM_all_Ok F cs) as [ds Eds] end.
    { intros c Hc. destruct (Hcs c Hc) as (_ & [n1 C1] & [n2 C2]).
      destruct (distance_to_ancestor_returns ta c Hta) as [d1 E1]. destruct (distance_to_ancestor_returns tb c Htb) as [d2 E2].
      rewrite E1. cbn [bind]. rewrite E2. cbn [bind].
      destruct (dist_anc_minimal o G (q_fuel o) ta c d1 Hta E1 n1 C1) as [x [-> _]].
      destruct (dist_anc_minimal o G (q_fuel o) tb c d2 Htb E2 n2 C2) as [y [-> _]]. eexists. reflexivity. }
    rewrite Eds. cbn [bind].
    destruct (first_min_by snd ds) as [[c v]|] eqn:Em; [|eexists; reflexivity].
    (* the chosen ancestor is one of the resolved ones *)
    assert (In c cs) as Hc.
    { apply first_min_by_spec in Em as [Hin _]. pose proof (mapM_Ok _ _ _ Eds) as F. destruct (Forall2_In_r _ _ _ (c, v) F Hin) as [c0 [Hc0 Hf]].
      destruct (dist_anc (q_fuel o) o ta c0) as [[x|]| | |]; cbn [bind] in Hf; try discriminate;
        destruct (dist_anc (q_fuel o) o tb c0) as [[y|]| | |]; cbn [bind] in Hf; try discriminate. injection Hf as <- _. exact Hc0. }
    destruct (Hcs c Hc) as (_ & [n1 C1] & [n2 C2]).
    destruct (path_to_ancestor_returns ta c Hta) as [up Eu]. rewrite Eu. cbn [bind].
    destruct (path_anc_minimal o G (q_fuel o) ta c up Hta Eu n1 C1) as [lu [-> _]].
    destruct (negb (t_id ta =? t_id tb) && (t_id c =? t_id tb)); [eexists; reflexivity|].
    destruct (path_to_ancestor_returns tb c Htb) as [down Ed]. rewrite Ed. cbn [bind].
    destruct (path_anc_minimal o G (q_fuel o) tb c down Htb Ed n2 C2) as [ld [-> _]]. eexists. reflexivity.
  Qed.
End T.
