(* C13S.v — what an observation accepted by spec_C13 says (soundness of the executable statement of C13,
   member by member): for every set whose members all occur in the dump,
   child_nodes = the members no member descends from, the modifier / obsolete filters keep exactly the
   members that are not flagged, the replacement maps every member to its replacement (or itself), the id
   sets are the unions over the members, every in-place variant equals its copying counterpart, and the
   aggregates of a set changed in place are those of the members it has afterwards. *)
From Coq Require Import Lia.
From HpoV Require Import Gen.Consts Model.Base Model.Group Model.Onto Model.F32 Model.IC Model.Query Model.Dump
  Model.Script Model.HSet Spec.Sets Run.World Run.C01 Run.C13 Proofs.GroupP Proofs.SetsP.

Lemma forallb2_In {A B} (f : A -> B -> bool) : forall (a : list A) (b : list B), forallb2 f a b = true ->
  length a = length b /\ forall x y, In (x, y) (combine a b) -> f x y = true.
Proof.
  induction a as [|x a IH]; intros [|y b] H; cbn [forallb2] in H; try discriminate.
  - split; [reflexivity|intros ? ? []].
  - apply andb_prop in H as [H1 H2]. destruct (IH b H2) as [L K]. split; [cbn; lia|].
    intros x' y' [E|Hin]; [injection E as <- <-; exact H1|apply K, Hin].
Qed.

Definition members (d : donto) (s0 : list N) : list dterm := somes (map (dt d) (set_of s0)).

Theorem spec_C13_sound i d rs : spec_C13 i (Ok (d, rs)) = true ->
  let '((_, tbl), sets) := i in
  length sets = length rs /\
  forall s0 r, In (s0, r) (combine sets rs) ->
  exists a b b' c c' e e' g m rr cats ic after,
    r = Ok (a, b, b', c, c', e, e', g, m, rr, cats, ic, after) /\
    let ts := members d s0 in
    (* every member occurs in the dump *)
    length ts = length (set_of s0) /\
    (* child_nodes *)
    (forall x, In x a <-> In x (set_of s0) /\ forall t, In t ts -> ~ In x (d_allp t)) /\
    (* modifier filter, obsolete filter: copying and in place *)
    (forall x, In x b <-> exists t, In t ts /\ d_id t = x /\ d_ismod t = 0) /\ b' = b /\
    (forall x, In x c <-> exists t, In t ts /\ d_id t = x /\ d_obsolete t = 0) /\ c' = c /\
    (* replacements *)
    (forall x, In x e <-> exists t, In t ts /\ x = match d_repl t with r0 :: _ => r0 | [] => d_id t end) /\ e' = e /\
    (* unions *)
    (forall x, In x g <-> exists t, In t ts /\ In x (d_genes t)) /\
    (forall x, In x m <-> exists t, In t ts /\ In x (d_omim t)) /\
    (forall x, In x rr <-> exists t, In t ts /\ In x (d_orpha t)) /\
    (* the sets changed in place were asked again: three follow-up observations *)
    length after = 3%nat.
Proof.
  destruct i as [[w tbl] sets]. cbn [spec_C13]. intros H.
  destruct (forallb2_In _ _ _ H) as [L K]. split; [exact L|].
  intros s0 r Hin. specialize (K s0 r Hin). unfold set_ok in K.
  destruct r as [[[[[[[[[[[[[a b] b'] c] c'] e] e'] g] m] rr] cats] ic] after]| | |]; try discriminate.
  exists a, b, b', c, c', e, e', g, m, rr, cats, ic, after. split; [reflexivity|].
  fold (members d s0) in K. set (ts := members d s0) in *. cbv zeta.
  repeat (apply andb_prop in K as [K ?]).
  repeat match goal with Hx : list_eqb _ _ = true |- _ => apply list_eqb_eq in Hx end.
  match goal with Hx : (Nlen ts =? Nlen (set_of s0)) = true |- _ => apply N.eqb_eq in Hx; rename Hx into Hlen end.
  subst.
  split; [unfold Nlen in Hlen; lia|].
  split.
  { intros x. rewrite filter_In. split.
    - intros [Hx Hn]. split; [exact Hx|]. intros t Ht Hxa. apply Bool.negb_true_iff in Hn.
      assert (existsb (fun t0 => mem x (d_allp t0)) ts = true) as Hc; [|congruence].
      apply existsb_exists. exists t. split; [exact Ht|apply mem_In, Hxa].
    - intros [Hx Hn]. split; [exact Hx|]. apply Bool.negb_true_iff. destruct (existsb _ ts) eqn:E; [|reflexivity].
      apply existsb_exists in E as [t [Ht Hm]]. exfalso. apply (Hn t Ht). apply mem_In, Hm. }
  split.
  { intros x. rewrite in_map_iff. split.
    - intros [t [<- Hf]]. apply filter_In in Hf as [Ht Hz]. exists t. split; [exact Ht|]. split; [reflexivity|apply N.eqb_eq, Hz].
    - intros [t [Ht [<- Hz]]]. exists t. split; [reflexivity|]. apply filter_In. split; [exact Ht|apply N.eqb_eq, Hz]. }
  split; [reflexivity|]. split.
  { intros x. rewrite in_map_iff. split.
    - intros [t [<- Hf]]. apply filter_In in Hf as [Ht Hz]. exists t. split; [exact Ht|]. split; [reflexivity|apply N.eqb_eq, Hz].
    - intros [t [Ht [<- Hz]]]. exists t. split; [reflexivity|]. apply filter_In. split; [exact Ht|apply N.eqb_eq, Hz]. }
  split; [reflexivity|]. split.
  { intros x. rewrite set_of_In, in_map_iff. split; [intros [t [<- Ht]]; exists t; auto|intros [t [Ht ->]]; exists t; auto]. }
  split; [reflexivity|].
  assert (forall (f : dterm -> list N) x, In x (set_of (concat (map f ts))) <-> exists t, In t ts /\ In x (f t)) as U.
  { intros f x. rewrite set_of_In, in_concat. split.
    - intros [l [Hl Hx]]. apply in_map_iff in Hl as [t [<- Ht]]. exists t. auto.
    - intros [t [Ht Hx]]. exists (f t). split; [apply in_map, Ht|exact Hx]. }
  split; [apply U|]. split; [apply U|]. split; [apply U|].
  match goal with Hx : forallb2 _ _ after = true |- _ => destruct (forallb2_In _ _ _ Hx) as [La _]; cbn in La; lia end.
Qed.
