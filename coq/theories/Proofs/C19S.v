(* C19S.v — what [defaults_ok] says (soundness of the executable statement of C19): when it accepts an
   observation, both standard roots are terms; the modifier set is exactly the children of HP:1 other than
   HP:118; the category set is exactly those together with the children of HP:118; and for every term
   is_modifier answers "the term or one of its ancestors is a modifier root" and categories() lists, in
   ascending order, exactly the category roots that are the term or one of its ancestors. *)
From Coq Require Import Lia Sorted.
From HpoV Require Import Gen.Consts Model.Base Model.Group Model.Onto Model.Query Model.Dump
  Model.Script Spec.Sets Run.World Run.C02 Run.C19 Proofs.GroupP Proofs.SetsP.

Theorem defaults_ok_sound ts cat mo : defaults_ok ts cat mo = true ->
  exists root ph, sfind 1 ts = Some root /\ sfind 118 ts = Some ph /\
    (forall x, In x mo <-> In x (s_children root) /\ x <> 118) /\
    (forall x, In x cat <-> (In x (s_children root) /\ x <> 118) \/ In x (s_children ph)) /\
    forall t, In t ts ->
      (s_ismod t = 1 <-> exists r, In r mo /\ (r = s_id t \/ In r (s_allp t))) /\
      (s_ismod t = 0 \/ s_ismod t = 1) /\
      sorted (s_cats t) /\
      (forall c, In c (s_cats t) <-> In c cat /\ (c = s_id t \/ In c (s_allp t))).
Proof.
  unfold defaults_ok. destruct (sfind 1 ts) as [root|]; [|discriminate]. destruct (sfind 118 ts) as [ph|]; [|discriminate].
  intros H. apply andb_prop in H as [H Ht]. apply andb_prop in H as [Hm Hc].
  apply list_eqb_eq in Hm, Hc. exists root, ph. split; [reflexivity|]. split; [reflexivity|].
  assert (forall x, In x mo <-> In x (s_children root) /\ x <> 118) as Mo.
  { intros x. rewrite Hm, set_of_In, filter_In, Bool.negb_true_iff, N.eqb_neq. tauto. }
  split; [exact Mo|]. split.
  { intros x. rewrite Hc, set_of_In, in_app_iff, set_of_In, filter_In, Bool.negb_true_iff, N.eqb_neq. tauto. }
  intros t Hin. rewrite forallb_forall in Ht. specialize (Ht t Hin).
  apply andb_prop in Ht as [Ht Hasc]. apply andb_prop in Ht as [Hmod Hcats].
  apply N.eqb_eq in Hmod. apply list_eqb_eq in Hcats. apply ascb_sorted in Hasc.
  assert (forall r, self_or_anc t r = true <-> r = s_id t \/ In r (s_allp t)) as So.
  { intros r. unfold self_or_anc. rewrite Bool.orb_true_iff, N.eqb_eq, mem_In. tauto. }
  split; [|split; [|split; [exact Hasc|]]].
  - rewrite Hmod. destruct (existsb (self_or_anc t) mo) eqn:E; cbn [boolN].
    + split; [intros _|reflexivity]. apply existsb_exists in E as [r [Hr Hs]]. exists r. split; [exact Hr|apply So, Hs].
    + split; [discriminate|]. intros [r [Hr Hs]]. exfalso.
      assert (existsb (self_or_anc t) mo = true) as E'; [|congruence]. apply existsb_exists. exists r. split; [exact Hr|apply So, Hs].
  - rewrite Hmod. destruct (existsb _ mo); cbn [boolN]; auto.
  - intros c. rewrite Hcats, filter_In, So. tauto.
Qed.
