(* C04P.v — built-in similarities: special cases and dispatch, for every number structure *)
From Coq Require Import Lia.
From HpoV Require Import Gen.Consts Model.Base Model.Group Model.Onto Model.Query Model.Similarity.

Section Gen.
  Variable F : Type.
  Variable fadd fsub fmul fdiv : F -> F -> F.
  Variable fgt : F -> F -> bool.
  Variable fis0 : F -> bool.
  Variable fzero fnzero fone ftwo fmone : F.
  Variable f_of_u16 : N -> F.
  Variable fexp : F -> res F.
  Variable ic : kind -> term -> F.

  Notation sim := (similarity F fadd fsub fmul fdiv fgt fis0 fzero fnzero fone ftwo fmone f_of_u16 fexp ic).

  (* a term compared with itself scores 1 for GraphIC, Jiang-Conrath and Mutation, whatever its
     ancestors, information content or annotations *)
  Theorem self_is_one o k a b : t_id a = t_id b ->
    sim AGraphIc o k a b = Ok fone /\ sim AJc o k a b = Ok fone /\ sim AMutation o k a b = Ok fone.
  Proof.
    intros E. cbn [similarity]. unfold graphic, jc, mutation. rewrite E, N.eqb_refl. auto.
  Qed.

  (* two distinct terms without any annotation of the kind score 0 for Mutation *)
  Theorem mutation_unannotated_zero o k a b : t_id a <> t_id b ->
    t_annots k a = [] -> t_annots k b = [] -> sim AMutation o k a b = Ok fzero.
  Proof.
    intros Hne Ha Hb. cbn [similarity]. unfold mutation.
    destruct (N.eqb_spec (t_id a) (t_id b)); [contradiction|]. rewrite Ha, Hb. reflexivity.
  Qed.

  (* Mutation of two distinct terms: |common| / |union| of the two annotation sets, 0 for an empty union *)
  Theorem mutation_formula o k a b : t_id a <> t_id b ->
    sim AMutation o k a b =
      let sa := t_annots k a in let sb := t_annots k b in
      let all := sa ++ filter (fun x => negb (mem x sa)) sb in
      let common := filter (fun x => mem x sb) sa in
      match all with
      | [] => Ok fzero
      | _ => do c <- usize_f F f_of_u16 (Nlen common) ;; do u <- usize_f F f_of_u16 (Nlen all) ;; Ok (fdiv c u)
      end.
  Proof.
    intros Hne. cbn [similarity]. unfold mutation.
    destruct (N.eqb_spec (t_id a) (t_id b)); [contradiction|reflexivity].
  Qed.

  (* Builtins dispatch: Distance ignores the information-content kind *)
  Theorem distance_ignores_kind o k k' a b : sim ADistance o k a b = sim ADistance o k' a b.
  Proof. reflexivity. Qed.

  (* the zero-denominator guards: Lin is 0 when both information contents sum to 0, GraphIC is 0
     when the union of ancestors carries no information, JC is 0 when either IC is 0 *)
  Theorem lin_guard o k a b : fis0 (fadd (ic k a) (ic k b)) = true -> sim ALin o k a b = Ok fzero.
  Proof. intros H. cbn [similarity]. unfold lin. rewrite H. reflexivity. Qed.

  Theorem jc_guard o k a b : t_id a <> t_id b -> fis0 (ic k a) = true \/ fis0 (ic k b) = true ->
    sim AJc o k a b = Ok fzero.
  Proof.
    intros Hne H. cbn [similarity]. unfold jc. destruct (N.eqb_spec (t_id a) (t_id b)); [contradiction|].
    destruct H as [-> | ->]; [reflexivity|]. rewrite Bool.orb_true_r. reflexivity.
  Qed.

  (* Resnik is the maximum (by the code's comparison) of 0 and the ICs of the common ancestors,
     selves included: it is 0 or the IC of one of them *)
  Lemma fold_max_in (l : list term) k : forall init,
    let r := fold_left (fun mx t => if fgt (ic k t) mx then ic k t else mx) l init in
    r = init \/ exists t, In t l /\ r = ic k t.
  Proof.
    induction l as [|x l IH]; intros init; cbn [fold_left]; [left; reflexivity|].
    destruct (fgt (ic k x) init).
    - destruct (IH (ic k x)) as [H|[t [Hin H]]]; [right; exists x; split; [left; reflexivity|exact H]|].
      right. exists t. split; [right; exact Hin|exact H].
    - destruct (IH init) as [H|[t [Hin H]]]; [left; exact H|]. right. exists t. split; [right; exact Hin|exact H].
  Qed.

  Theorem resnik_is_zero_or_an_ancestor_ic o k a b r : sim AResnik o k a b = Ok r ->
    r = fzero \/ exists cs t, resolve_all o (all_common_ancestor_ids a b) = Ok cs /\ In t cs /\ r = ic k t.
  Proof.
    cbn [similarity]. unfold resnik.
    destruct (resolve_all o (all_common_ancestor_ids a b)) as [cs| | |] eqn:E; cbn [bind]; try discriminate.
    intros [= <-]. destruct (fold_max_in cs k fzero) as [H|[t [Hin H]]]; [left; exact H|].
    right. exists cs, t. auto.
  Qed.
End Gen.
