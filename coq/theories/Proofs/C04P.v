(* C04P.v — built-in similarities: special cases and dispatch, for every number structure *)
From Coq Require Import Lia.
From HpoV Require Import Gen.Consts Model.Base Model.Group Model.Onto Model.Query Model.Similarity.

Section Gen.
  Variable F : Type.
  Variable fadd fsub fmul fdiv : F -> F -> F.
  Variable fgt : F -> F -> bool.
  Variable fis0 : F -> bool.
  Variable fzero fnzero fone ftwo fmone : F.
  Variable f_of_u16 : N -> F.
  Variable fexp : F -> res F.
  Variable ic : kind -> term -> F.

  Notation sim := (similarity F fadd fsub fmul fdiv fgt fis0 fzero fnzero fone ftwo fmone f_of_u16 fexp ic).

  (* a term compared with itself scores 1 for GraphIC, Jiang-Conrath and Mutation, whatever its
     ancestors, information content or annotations *)
  Theorem self_is_one o k a b : t_id a = t_id b ->
    sim AGraphIc o k a b = Ok fone /\ sim AJc o k a b = Ok fone /\ sim AMutation o k a b = Ok fone.
  Proof.
    intros E. cbn [similarity]. unfold graphic, jc, mutation. rewrite E, N.eqb_refl. auto.
  Qed.

  (* two distinct terms without any annotation of the kind score 0 for Mutation *)
  Theorem mutation_unannotated_zero o k a b : t_id a <> t_id b ->
    t_annots k a = [] -> t_annots k b = [] -> sim AMutation o k a b = Ok fzero.
  Proof.
    intros Hne Ha Hb. cbn [similarity]. unfold mutation.
    destruct (N.eqb_spec (t_id a) (t_id b)); [contradiction|]. rewrite Ha, Hb. reflexivity.
  Qed.

  (* Mutation of two distinct terms: |common| / |union| of the two annotation sets, 0 for an empty union *)
  Theorem mutation_formula o k a b : t_id a <> t_id b ->
    sim AMutation o k a b =
      let sa := t_annots k a in let sb := t_annots k b in
      let all := sa ++ filter (fun x => negb (mem x sa)) sb in
      let common := filter (fun x => mem x sb) sa in
      match all with
      | [] => Ok fzero
      | _ => do c <- usize_f F f_of_u16 (Nlen common) ;; do u <- usize_f F f_of_u16 (Nlen all) ;; Ok (fdiv c u)
      end.
  Proof.
    intros Hne. cbn [similarity]. unfold mutation.
    destruct (N.eqb_spec (t_id a) (t_id b)); [contradiction|reflexivity].
  Qed.

  (* Builtins dispatch: Distance ignores the information-content kind *)
  Theorem distance_ignores_kind o k k' a b : sim ADistance o k a b = sim ADistance o k' a b.
  Proof. reflexivity. Qed.

  (* the zero-denominator guards: Lin is 0 when both information contents sum to 0, GraphIC is 0
     when the union of ancestors carries no information, JC is 0 when either IC is 0 *)
  Theorem lin_guard o k a b : fis0 (fadd (ic k a) (ic k b)) = true -> sim ALin o k a b = Ok fzero.
  Proof. intros H. cbn [similarity]. unfold lin. rewrite H. reflexivity. Qed.

  Theorem jc_guard o k a b : t_id a <> t_id b -> fis0 (ic k a) = true \/ fis0 (ic k b) = true ->
    sim AJc o k a b = Ok fzero.
  Proof.
    intros Hne H. cbn [similarity]. unfold jc. destruct (N.eqb_spec (t_id a) (t_id b)); [contradiction|].
    destruct H as [-> | ->]; [reflexivity|]. rewrite Bool.orb_true_r. reflexivity.
  Qed.

  (* Resnik is the maximum (by the code's comparison) of 0 and the ICs of the common ancestors,
     selves included: it is 0 or the IC of one of them *)
  Lemma fold_max_in (l : list term) k : forall init,
    let r := fold_left (fun mx t => if fgt (ic k t) mx then ic k t else mx) l init in
    r = init \/ exists t, In t l /\ r = ic k t.
  Proof.
    induction l as [|x l IH]; intros init; cbn [fold_left]; [left; reflexivity|].
    destruct (fgt (ic k x) init).
    - destruct (IH (ic k x)) as [H|[t [Hin H]]]; [right; exists x; split; [left; reflexivity|exact H]|].
      right. exists t. split; [right; exact Hin|exact H].
    - destruct (IH init) as [H|[t [Hin H]]]; [left; exact H|]. right. exists t. split; [right; exact Hin|exact H].
  Qed.

  Theorem resnik_is_zero_or_an_ancestor_ic o k a b r : sim AResnik o k a b = Ok r ->
    r = fzero \/ exists cs t, resolve_all o (all_common_ancestor_ids a b) = Ok cs /\ In t cs /\ r = ic k t.
  Proof.
    cbn [similarity]. unfold resnik.
    destruct (resolve_all o (all_common_ancestor_ids a b)) as [cs| | |] eqn:E; cbn [bind]; try discriminate.
    intros [= <-]. destruct (fold_max_in cs k fzero) as [H|[t [Hin H]]]; [left; exact H|].
    right. exists cs, t. auto.
  Qed.
End Gen.

(* ------------------------------------------------------------------------------------------ *)
(* the score does not depend on the argument order                                              *)
(* ------------------------------------------------------------------------------------------ *)
From Coq Require Import Permutation.
From HpoV Require Import Proofs.GroupP Proofs.BaseP.

Lemma mapM_ext' {A B} (f g : A -> res B) l : (forall x, In x l -> f x = g x) -> mapM f l = mapM g l.
Proof.
  induction l as [|x l IH]; intros H; [reflexivity|]. cbn [mapM].
  rewrite (H x (or_introl eq_refl)). destruct (g x); cbn [bind]; try reflexivity.
  rewrite IH; [reflexivity|]. intros y Hy. apply H. right. exact Hy.
Qed.

Lemma NoDup_app_disj {A} (l1 l2 : list A) : NoDup l1 -> NoDup l2 -> (forall x, In x l1 -> In x l2 -> False) -> NoDup (l1 ++ l2).
Proof.
  induction l1 as [|x l1 IH]; intros N1 N2 D; [exact N2|]. inversion N1; subst. cbn [app]. constructor.
  - intros Hin. apply in_app_iff in Hin as [Hin|Hin]; [contradiction|]. apply (D x); [left; reflexivity|exact Hin].
  - apply IH; [assumption|exact N2|]. intros y Hy1 Hy2. apply (D y); [right; exact Hy1|exact Hy2].
Qed.

Lemma filter_NoDup' {A} (p : A -> bool) l : NoDup l -> NoDup (filter p l).
Proof.
  induction l as [|x l IH]; intros H; [constructor|]. inversion H; subst. cbn [filter].
  destruct (p x); [constructor; [intros Hin; apply filter_In in Hin as [Hin _]; contradiction|]|]; auto.
Qed.

Section Sym.
  Variable F : Type.
  Variable fadd fsub fmul fdiv : F -> F -> F.
  Variable fgt : F -> F -> bool.
  Variable fis0 : F -> bool.
  Variable fzero fnzero fone ftwo fmone : F.
  Variable f_of_u16 : N -> F.
  Variable fexp : F -> res F.
  Variable ic : kind -> term -> F.
  (* IEEE-754 addition is commutative *)
  Hypothesis fadd_comm : forall x y, fadd x y = fadd y x.

  Notation sim := (similarity F fadd fsub fmul fdiv fgt fis0 fzero fnzero fone ftwo fmone f_of_u16 fexp ic).

  Variables (o : onto) (k : kind) (a b : term).
  (* ancestor caches and annotation sets are ascending groups (C12) *)
  Hypothesis Ha : sorted (t_allp a).
  Hypothesis Hb : sorted (t_allp b).
  Hypothesis Hsa : sorted (t_annots k a).
  Hypothesis Hsb : sorted (t_annots k b).

  Lemma common_sym : all_common_ancestor_ids a b = all_common_ancestor_ids b a.
  Proof. unfold all_common_ancestor_ids, g_plus. apply g_inter_comm; apply g_add_sorted; assumption. Qed.

  Lemma union_sym : union_ancestor_ids a b = union_ancestor_ids b a.
  Proof. unfold union_ancestor_ids. apply g_union_comm; assumption. Qed.

  Lemma resnik_sym : sim AResnik o k a b = sim AResnik o k b a.
  Proof. cbn [similarity]. unfold resnik. rewrite common_sym. reflexivity. Qed.

  Lemma graphic_sym : sim AGraphIc o k a b = sim AGraphIc o k b a.
  Proof.
    cbn [similarity]. unfold graphic. rewrite (N.eqb_sym (t_id a) (t_id b)), union_sym, common_sym. reflexivity.
  Qed.

  Lemma lin_sym : sim ALin o k a b = sim ALin o k b a.
  Proof.
    pose proof resnik_sym as R. cbn [similarity] in *. unfold lin. rewrite (fadd_comm (ic k a) (ic k b)), R. reflexivity.
  Qed.

  Lemma jc_sym : sim AJc o k a b = sim AJc o k b a.
  Proof.
    pose proof resnik_sym as R. cbn [similarity] in *. unfold jc.
    rewrite (N.eqb_sym (t_id a) (t_id b)), (Bool.orb_comm (fis0 (ic k a))), (fadd_comm (ic k a) (ic k b)), R. reflexivity.
  Qed.

  Lemma relevance_sym : sim ARelevance o k a b = sim ARelevance o k b a.
  Proof.
    pose proof resnik_sym as R. pose proof lin_sym as L. cbn [similarity] in *. unfold relevance. rewrite R, L. reflexivity.
  Qed.

  Lemma infcoef_sym : sim AInfCoef o k a b = sim AInfCoef o k b a.
  Proof.
    pose proof resnik_sym as R. pose proof lin_sym as L. cbn [similarity] in *. unfold infcoef. rewrite R, L. reflexivity.
  Qed.

  (* the distance query can fail in the transcription (an unresolved id is a panic); whenever it
     returns a value, the swapped query returns the same value *)
  Lemma mapM_swap_Ok cs : forall ds,
    mapM (fun c => do d1 <- dist_anc (q_fuel o) o a c ;; do d2 <- dist_anc (q_fuel o) o b c ;;
                   Ok match d1, d2 with Some x, Some y => Some (x + y) | _, _ => None end) cs = Ok ds ->
    mapM (fun c => do d1 <- dist_anc (q_fuel o) o b c ;; do d2 <- dist_anc (q_fuel o) o a c ;;
                   Ok match d1, d2 with Some x, Some y => Some (x + y) | _, _ => None end) cs = Ok ds.
  Proof.
    induction cs as [|c cs IH]; intros ds H; cbn [mapM] in *; [exact H|].
    destruct (dist_anc (q_fuel o) o a c) as [d1| | |]; cbn [bind] in H; try discriminate.
    destruct (dist_anc (q_fuel o) o b c) as [d2| | |]; cbn [bind] in H |- *; try discriminate.
    destruct (mapM _ cs) as [ds'| | |] eqn:E; cbn [bind] in H; try discriminate.
    rewrite (IH ds' eq_refl). cbn [bind]. rewrite <- H. f_equal. f_equal.
    destruct d1, d2; try reflexivity. rewrite N.add_comm. reflexivity.
  Qed.

  Lemma distance_sym r : sim ADistance o k a b = Ok r -> sim ADistance o k b a = Ok r.
  Proof.
    cbn [similarity]. unfold distance_sim, dist_term. rewrite common_sym.
    destruct (resolve_all o (all_common_ancestor_ids b a)) as [cs| | |]; cbn [bind]; try discriminate.
    intros H. destruct (mapM _ cs) as [ds| | |] eqn:E; cbn [bind] in H; try discriminate.
    rewrite (mapM_swap_Ok cs ds E). cbn [bind]. exact H.
  Qed.

  (* |A ∪ B| and |A ∩ B| do not depend on the order *)
  Lemma mutation_sym : sim AMutation o k a b = sim AMutation o k b a.
  Proof.
    cbn [similarity]. unfold mutation. rewrite (N.eqb_sym (t_id a) (t_id b)).
    destruct (t_id b =? t_id a); [reflexivity|].
    set (sa := t_annots k a). set (sb := t_annots k b).
    assert (NoDup sa) as Na by (apply sorted_NoDup, Hsa). assert (NoDup sb) as Nb by (apply sorted_NoDup, Hsb).
    assert (forall (l1 l2 : list N), NoDup l1 -> NoDup l2 -> NoDup (l1 ++ filter (fun x => negb (mem x l1)) l2)) as NDu.
    { intros l1 l2 N1 N2. apply NoDup_app_disj; [exact N1| |].
      - apply filter_NoDup', N2.
      - intros x H1 H2. apply filter_In in H2 as [_ H2]. apply Bool.negb_true_iff in H2. apply mem_In in H1. congruence. }
    assert (forall (l1 l2 : list N) x, In x (l1 ++ filter (fun x => negb (mem x l1)) l2) <-> In x l1 \/ In x l2) as InU.
    { intros l1 l2 x. rewrite in_app_iff, filter_In. split; [intros [H|[H _]]; auto|].
      intros [H|H]; [left; exact H|]. destruct (mem x l1) eqn:E; [left; apply mem_In, E|right; split; [exact H|reflexivity]]. }
    assert (Nlen (sa ++ filter (fun x => negb (mem x sa)) sb) = Nlen (sb ++ filter (fun x => negb (mem x sb)) sa)) as Eu.
    { unfold Nlen. f_equal. apply Permutation_length, NoDup_Permutation; [apply NDu; assumption|apply NDu; assumption|].
      intros x. rewrite !InU. tauto. }
    assert (Nlen (filter (fun x => mem x sb) sa) = Nlen (filter (fun x => mem x sa) sb)) as Ec.
    { unfold Nlen. f_equal. apply Permutation_length, NoDup_Permutation.
      - apply filter_NoDup', Na.
      - apply filter_NoDup', Nb.
      - intros x. rewrite !filter_In, !mem_In. tauto. }
    destruct (sa ++ filter (fun x => negb (mem x sa)) sb) as [|u0 ul] eqn:E1;
      destruct (sb ++ filter (fun x => negb (mem x sb)) sa) as [|v0 vl] eqn:E2; try (unfold Nlen in Eu; cbn in Eu; lia).
    - reflexivity.
    - rewrite Ec, Eu. reflexivity.
  Qed.

  (* whenever a score is returned, the swapped call returns the same score (all 8 algorithms) *)
  Theorem similarity_symmetric g r : sim g o k a b = Ok r -> sim g o k b a = Ok r.
  Proof.
    destruct g; intros H;
      [rewrite <- graphic_sym|rewrite <- resnik_sym|rewrite <- lin_sym|rewrite <- jc_sym|rewrite <- relevance_sym
      |rewrite <- infcoef_sym|apply distance_sym|rewrite <- mutation_sym]; exact H.
  Qed.
End Sym.
