(* DistP.v — HpoTerm::distance_to_ancestor (Model/Query.v [dist_anc]) returns the length of a
   SHORTEST chain of parent links, and None exactly when the target is neither the term nor one
   of its ancestors.  The function prunes the search with the ancestor cache
   (`!self.all_parents().contains(other)` => None): the theorem shows this pruning is sound
   because the cache is the exact transitive closure (C01). *)
From Coq Require Import Lia Relations.
From HpoV Require Import Gen.Consts Model.Base Model.Group Model.Onto Model.Query
  Proofs.GroupP Proofs.BaseP Proofs.ClosureP.

(* a chain of n parent links from x to y *)
Inductive chain (a : arena) : N -> nat -> N -> Prop :=
| chain_nil x : chain a x 0 x
| chain_cons x p y n : parent_rel a x p -> chain a p n y -> chain a x (S n) y.

Lemma chain_anc a x n y : chain a x (S n) y -> anc a x y.
Proof.
  remember (S n) as m eqn:Em. intros H. revert n Em.
  induction H as [x|x p y n Hp Hc IH]; intros n0 Em; [discriminate|].
  destruct n as [|n'].
  - inversion Hc; subst. apply t_step, Hp.
  - eapply t_trans; [apply t_step, Hp|]. apply (IH n' eq_refl).
Qed.

(* the ontology invariants the queries rely on *)
Record qgood (o : onto) : Prop := {
  q_wf : wf_ar (o_arena o);
  q_sorted_p : forall t, In t (ar_terms (o_arena o)) -> sorted (t_parents t);
  q_sorted_a : forall t, In t (ar_terms (o_arena o)) -> sorted (t_allp t);
  q_exact : forall t, In t (ar_terms (o_arena o)) -> exact (o_arena o) t
}.

Lemma bind_Ok' {A B} (r : res A) (f : A -> res B) b : bind r f = Ok b -> exists x, r = Ok x /\ f x = Ok b.
Proof. destruct r; cbn; try discriminate. intros H. eauto. Qed.

Lemma min_opt_In ds m : min_opt ds = Some m -> In (Some m) ds.
Proof.
  revert m. induction ds as [|[x|] ds IH]; intros m H; cbn [min_opt] in H; [discriminate| |].
  - destruct (min_opt ds) as [y|] eqn:E.
    + injection H as <-. destruct (N.min_spec x y) as [[_ ->]|[_ ->]]; [left; reflexivity|right; apply IH; reflexivity].
    + injection H as <-. left. reflexivity.
  - right. apply IH, H.
Qed.

Lemma min_opt_le ds x : In (Some x) ds -> exists m, min_opt ds = Some m /\ m <= x.
Proof.
  induction ds as [|[y|] ds IH]; intros H; [destruct H| |].
  - cbn [min_opt]. destruct H as [[= ->]|H].
    + destruct (min_opt ds) as [z|]; eexists; split; try reflexivity; lia.
    + destruct (IH H) as [m [-> Hm]]. eexists. split; [reflexivity|]. lia.
  - cbn [min_opt]. destruct H as [H|H]; [discriminate|]. apply IH, H.
Qed.

Section Dist.
  Variable o : onto.
  Hypothesis G : qgood o.
  Let a := o_arena o.

  Lemma resolve_parent t p : In t (ar_terms a) -> In p (t_parents t) ->
    exists tp, resolve o p = Ok tp /\ In tp (ar_terms a) /\ t_id tp = p.
  Proof.
    intros Hin Hp. pose proof (wf_closed a (q_wf o G) t Hin p Hp) as Hk.
    destruct (key_find a p (q_wf o G) Hk) as [tp [Hf [Htp [Hid Hr]]]].
    exists tp. unfold resolve, o_get, ar_get. fold a.
    destruct (N.leb_spec MAX_HPO_ID p) as [Hle|_]; [lia|]. rewrite Hf. auto.
  Qed.

  Lemma resolve_In p tp : resolve o p = Ok tp -> In tp (ar_terms a) /\ t_id tp = p.
  Proof.
    unfold resolve. destruct (o_get p o) as [t|] eqn:E; cbn [opt_panic]; [|discriminate].
    intros [= <-]. unfold o_get in E. destruct (get_Some_key _ _ _ E) as [H1 [H2 _]]. auto.
  Qed.

  (* the distance returned is the length of an actual chain *)
  Theorem dist_anc_sound fuel : forall ta tb d, In ta (ar_terms a) ->
    dist_anc fuel o ta tb = Ok (Some d) -> chain a (t_id ta) (N.to_nat d) (t_id tb).
  Proof.
    induction fuel as [|f IH]; intros ta tb d Hin H; [discriminate|]. cbn [dist_anc] in H.
    destruct (N.eqb_spec (t_id ta) (t_id tb)) as [E|E].
    { injection H as <-. rewrite E. constructor. }
    destruct (g_contains (t_id tb) (t_parents ta)) eqn:Ep.
    { injection H as <-. apply (g_contains_spec _ _ (q_sorted_p o G ta Hin)) in Ep.
      change (N.to_nat 1) with 1%nat. apply (chain_cons a _ (t_id tb)); [|constructor].
      exists ta. split; [exact Hin|]. split; [reflexivity|exact Ep]. }
    destruct (g_contains (t_id tb) (t_allp ta)); cbn [negb] in H; [|discriminate].
    destruct (mapM (fun pid => do p <- resolve o pid ;; dist_anc f o p tb) (t_parents ta)) as [ds| | |] eqn:Em;
      cbn [bind] in H; try discriminate.
    destruct (min_opt ds) as [m|] eqn:Emin; cbn [option_map] in H; [|discriminate]. injection H as <-.
    apply min_opt_In in Emin.
    destruct (Forall2_In_r _ _ _ (Some m) (mapM_Ok _ _ _ Em) Emin) as [p [Hp Hd]].
    apply bind_Ok' in Hd as [tp [Hr Hd]]. destruct (resolve_In p tp Hr) as [Htp Hidp].
    replace (N.to_nat (m + 1)) with (S (N.to_nat m)) by lia.
    apply (chain_cons a _ p); [exists ta; split; [exact Hin|split; [reflexivity|exact Hp]]|].
    rewrite <- Hidp. apply (IH tp tb m Htp Hd).
  Qed.

  Lemma chain_first_step x n y : chain a x (S n) y -> exists p, parent_rel a x p /\ chain a p n y.
  Proof. intros H. inversion H; subst. eauto. Qed.

  Lemma parent_of_term ta p : In ta (ar_terms a) -> parent_rel a (t_id ta) p -> In p (t_parents ta).
  Proof. intros Hin H. apply (parent_rel_of_term a ta p (q_wf o G) Hin). exact H. Qed.

  (* ... and no chain is shorter; whenever the function returns at all, it returns a distance for
     every target that some chain reaches (the cache pruning never cuts a reachable target) *)
  Theorem dist_anc_minimal fuel : forall ta tb r, In ta (ar_terms a) ->
    dist_anc fuel o ta tb = Ok r ->
    forall n, chain a (t_id ta) n (t_id tb) -> exists d, r = Some d /\ (N.to_nat d <= n)%nat.
  Proof.
    induction fuel as [|f IH]; intros ta tb r Hin H n Hc; [discriminate|]. cbn [dist_anc] in H.
    destruct (N.eqb_spec (t_id ta) (t_id tb)) as [E|E].
    { injection H as <-. exists 0. split; [reflexivity|lia]. }
    destruct n as [|n]; [inversion Hc; congruence|].
    destruct (g_contains (t_id tb) (t_parents ta)) eqn:Ep.
    { injection H as <-. exists 1. split; [reflexivity|lia]. }
    destruct (g_contains (t_id tb) (t_allp ta)) eqn:Ea; cbn [negb] in H.
    2:{ (* pruned: but a chain of >= 1 links makes tb an ancestor, and the cache is exact *)
      exfalso. pose proof (chain_anc a _ _ _ Hc) as Hanc.
      apply (q_exact o G ta Hin) in Hanc. apply (g_contains_spec _ _ (q_sorted_a o G ta Hin)) in Hanc. congruence. }
    destruct (mapM (fun pid => do p <- resolve o pid ;; dist_anc f o p tb) (t_parents ta)) as [ds| | |] eqn:Em;
      cbn [bind] in H; try discriminate.
    injection H as <-.
    destruct (chain_first_step _ _ _ Hc) as [p [Hp Hc']].
    pose proof (parent_of_term ta p Hin Hp) as Hpin.
    destruct (Forall2_In_l _ _ _ p (mapM_Ok _ _ _ Em) Hpin) as [rp [Hrp Hd]].
    apply bind_Ok' in Hd as [tp [Hr Hd]]. destruct (resolve_In p tp Hr) as [Htp Hidp].
    rewrite <- Hidp in Hc'. destruct (IH tp tb rp Htp Hd n Hc') as [dp [-> Hle]].
    destruct (min_opt_le ds dp Hrp) as [m [-> Hm]]. cbn [option_map].
    exists (m + 1). split; [reflexivity|lia].
  Qed.

  (* None exactly when the target is neither the term itself nor one of its ancestors *)
  Theorem dist_anc_none fuel ta tb : In ta (ar_terms a) -> dist_anc fuel o ta tb = Ok None ->
    t_id ta <> t_id tb /\ ~ anc a (t_id ta) (t_id tb).
  Proof.
    intros Hin H. split.
    - intros E. destruct (dist_anc_minimal fuel ta tb None Hin H 0%nat) as [d [Hd _]]; [rewrite E; constructor|discriminate].
    - intros Hanc.
      assert (exists n, chain a (t_id ta) (S n) (t_id tb)) as [n Hc].
      { clear H. unfold anc in Hanc. apply clos_trans_t1n in Hanc.
        induction Hanc as [x y Hxy|x y z Hxy _ [n IHn]].
        - exists 0%nat. econstructor; [exact Hxy|constructor].
        - exists (S n). econstructor; [exact Hxy|exact IHn]. }
      destruct (dist_anc_minimal fuel ta tb None Hin H (S n) Hc) as [d [Hd _]]. discriminate.
  Qed.

  (* ---------------- path_to_ancestor ---------------- *)

  (* consecutive parent links *)
  Fixpoint links (x : N) (l : list N) : Prop :=
    match l with [] => True | y :: t => parent_rel a x y /\ links y t end.

  Lemma last_default (m : list N) : forall x y, m <> [] -> last m x = last m y.
  Proof.
    induction m as [|z m IH]; intros x y H; [congruence|]. destruct m as [|w m']; [reflexivity|].
    change (last (z :: w :: m') x) with (last (w :: m') x). change (last (z :: w :: m') y) with (last (w :: m') y).
    apply IH. discriminate.
  Qed.

  Lemma last_cons (y : N) l : forall x, last (y :: l) x = last l y.
  Proof.
    intros x. destruct l as [|z l]; [reflexivity|].
    change (last (y :: z :: l) x) with (last (z :: l) x). apply last_default. discriminate.
  Qed.

  Lemma links_chain l : forall x, links x l -> chain a x (length l) (last l x).
  Proof.
    induction l as [|y l IH]; intros x H; [constructor|]. destruct H as [Hp Hl].
    cbn [length]. rewrite last_cons.
    econstructor; [exact Hp|apply IH, Hl].
  Qed.

  Lemma first_min_by_spec {A} (key : A -> N) (l : list A) x : first_min_by key l = Some x ->
    In x l /\ forall y, In y l -> key x <= key y.
  Proof.
    revert x. induction l as [|z l IH]; intros x H; cbn [first_min_by] in H; [discriminate|].
    destruct (first_min_by key l) as [m|] eqn:E.
    - destruct (IH m eq_refl) as [Hin Hmin]. destruct (key m <? key z) eqn:Eb; injection H as <-.
      + apply N.ltb_lt in Eb. split; [right; exact Hin|]. intros y [<-|Hy]; [lia|apply Hmin, Hy].
      + apply N.ltb_ge in Eb. split; [left; reflexivity|]. intros y [<-|Hy]; [lia|]. specialize (Hmin y Hy). lia.
    - injection H as <-. assert (l = []) as ->.
      { destruct l as [|w l']; [reflexivity|]. cbn [first_min_by] in E.
        destruct (first_min_by key l') as [m'|]; [destruct (key m' <? key w)|]; discriminate. }
      split; [left; reflexivity|]. intros y [<-|[]]. lia.
  Qed.

  Lemma first_min_by_nonempty {A} (key : A -> N) (l : list A) : l <> [] -> exists x, first_min_by key l = Some x.
  Proof.
    destruct l as [|z l]; [congruence|]. intros _. cbn [first_min_by].
    destruct (first_min_by key l) as [m|]; [destruct (key m <? key z)|]; eauto.
  Qed.

  Lemma somes_In' {A} (l : list (option A)) x : In x (somes l) <-> In (Some x) l.
  Proof.
    induction l as [|[y|] t IH]; cbn [somes In]; [tauto| |].
    - rewrite IH. split; intros [H|H]; auto; left; congruence.
    - rewrite IH. split; [auto|]. intros [H|H]; [discriminate|exact H].
  Qed.

  (* the returned path is a chain of parent links from the term to the target *)
  Theorem path_anc_sound fuel : forall ta tb l, In ta (ar_terms a) ->
    path_anc fuel o ta tb = Ok (Some l) -> links (t_id ta) l /\ last l (t_id ta) = t_id tb.
  Proof.
    induction fuel as [|f IH]; intros ta tb l Hin H; [discriminate|]. cbn [path_anc] in H.
    destruct (N.eqb_spec (t_id ta) (t_id tb)) as [E|E].
    { injection H as <-. cbn. auto. }
    destruct (g_contains (t_id tb) (t_parents ta)) eqn:Ep.
    { injection H as <-. apply (g_contains_spec _ _ (q_sorted_p o G ta Hin)) in Ep. cbn [links last].
      split; [|reflexivity]. split; [exists ta; auto|exact I]. }
    destruct (g_contains (t_id tb) (t_allp ta)); cbn [negb] in H; [|discriminate].
    destruct (mapM _ (t_parents ta)) as [ps| | |] eqn:Em; cbn [bind] in H; try discriminate.
    injection H as H. apply first_min_by_spec in H as [Hl _]. apply somes_In' in Hl.
    destruct (Forall2_In_r _ _ _ (Some l) (mapM_Ok _ _ _ Em) Hl) as [p [Hp Hd]].
    apply bind_Ok' in Hd as [tp [Hr Hd]]. apply bind_Ok' in Hd as [r [Hpa Hd]]. injection Hd as Hd.
    destruct r as [l'|]; cbn [option_map] in Hd; [|discriminate]. injection Hd as <-.
    destruct (resolve_In p tp Hr) as [Htp Hidp]. destruct (IH tp tb l' Htp Hpa) as [Hlk Hlast].
    split.
    - cbn [links]. split; [exists ta; rewrite Hidp; auto|exact Hlk].
    - rewrite <- Hlast. apply last_cons.
  Qed.

  (* ... of minimal length: whenever the function returns, it returns a path for every reachable
     target, and no chain is shorter *)
  Theorem path_anc_minimal fuel : forall ta tb r, In ta (ar_terms a) ->
    path_anc fuel o ta tb = Ok r ->
    forall n, chain a (t_id ta) n (t_id tb) -> exists l, r = Some l /\ (length l <= n)%nat.
  Proof.
    induction fuel as [|f IH]; intros ta tb r Hin H n Hc; [discriminate|]. cbn [path_anc] in H.
    destruct (N.eqb_spec (t_id ta) (t_id tb)) as [E|E].
    { injection H as <-. exists []. split; [reflexivity|cbn; lia]. }
    destruct n as [|n]; [inversion Hc; congruence|].
    destruct (g_contains (t_id tb) (t_parents ta)) eqn:Ep.
    { injection H as <-. exists [t_id tb]. split; [reflexivity|cbn; lia]. }
    destruct (g_contains (t_id tb) (t_allp ta)) eqn:Ea; cbn [negb] in H.
    2:{ exfalso. pose proof (chain_anc a _ _ _ Hc) as Hanc.
        apply (q_exact o G ta Hin) in Hanc. apply (g_contains_spec _ _ (q_sorted_a o G ta Hin)) in Hanc. congruence. }
    destruct (mapM _ (t_parents ta)) as [ps| | |] eqn:Em; cbn [bind] in H; try discriminate.
    injection H as <-.
    destruct (chain_first_step _ _ _ Hc) as [p [Hp Hc']].
    pose proof (parent_of_term ta p Hin Hp) as Hpin.
    destruct (Forall2_In_l _ _ _ p (mapM_Ok _ _ _ Em) Hpin) as [rp [Hrp Hd]].
    apply bind_Ok' in Hd as [tp [Hr Hd]]. apply bind_Ok' in Hd as [r0 [Hpa Hd]]. injection Hd as <-.
    destruct (resolve_In p tp Hr) as [Htp Hidp]. rewrite <- Hidp in Hc'.
    destruct (IH tp tb r0 Htp Hpa n Hc') as [l0 [-> Hle]]. cbn [option_map] in Hrp.
    assert (In (t_id tp :: l0) (somes ps)) as Hs by (apply somes_In'; exact Hrp).
    destruct (first_min_by_nonempty (fun x : list N => Nlen x) (somes ps)) as [best Hb]; [intros E0; rewrite E0 in Hs; destruct Hs|].
    exists best. split; [exact Hb|]. apply first_min_by_spec in Hb as [_ Hmin].
    specialize (Hmin _ Hs). unfold Nlen in Hmin. cbn [length] in Hmin. lia.
  Qed.
End Dist.
