(* C02P.v — soundness of the executable statement of C02 *)
From Coq Require Import Sorted Lia.
From HpoV Require Import Model.Base Model.Group Model.Onto Spec.Sets Proofs.GroupP Proofs.SetsP Proofs.BaseP
  Model.Query Model.Dump Model.Script Run.World Run.C02.

(* in the observation: record r of the given kind has a direct term d with d = t or t an ancestor of d *)
Definition direct_below (ts : list p02) (r : dannot) (t : N) : Prop :=
  exists d, In d (da_hpos r) /\
    (d = t \/ exists td, qfind d ts = Some td /\ In t (q_allp td)).

Lemma reaches_spec ts d t : reaches ts d t = true <->
  (d = t \/ exists td, qfind d ts = Some td /\ In t (q_allp td)).
Proof.
  unfold reaches. rewrite orb_true_iff, N.eqb_eq. split; intros [H|H]; auto; right.
  - destruct (qfind d ts) as [td|]; [|discriminate]. exists td. split; [reflexivity|apply mem_In, H].
  - destruct H as [td [-> H]]. apply mem_In, H.
Qed.

Lemma inherited_spec ts recs t g : In g (inherited ts recs t) <->
  exists r, In r recs /\ da_id r = g /\ direct_below ts r t.
Proof.
  unfold inherited. rewrite set_of_In, in_map_iff. split.
  - intros [r [Hid Hr]]. apply filter_In in Hr as [Hr Hex]. exists r. repeat split; auto.
    apply existsb_exists in Hex as [d [Hd Hre]]. exists d. split; [auto|apply reaches_spec, Hre].
  - intros [r [Hr [Hid [d [Hd Hre]]]]]. exists r. split; [auto|]. apply filter_In. split; [auto|].
    apply existsb_exists. exists d. split; [auto|apply reaches_spec, Hre].
Qed.

(* a term is linked to an annotation iff a record of that kind is directly annotated to the term
   itself or to one of its descendants *)
Theorem kind_ok_sound ts k recs : kind_ok ts k recs = true ->
  forall t, In t ts -> forall g,
    In g (q_annots k t) <-> exists r, In r recs /\ da_id r = g /\ direct_below ts r (q_id t).
Proof.
  unfold kind_ok. rewrite andb_true_iff. intros [_ H] t Ht g.
  rewrite forallb_forall in H. specialize (H t Ht). apply list_eqb_eq in H. rewrite H.
  apply inherited_spec.
Qed.

(* record ids are unique, direct-term lists are duplicate-free and every direct term resolves *)
Theorem recs_ok_sound ts recs : recs_ok ts recs = true ->
  NoDup (map da_id recs) /\
  forall r, In r recs -> NoDup (da_hpos r) /\ forall d, In d (da_hpos r) -> exists td, qfind d ts = Some td.
Proof.
  unfold recs_ok. rewrite andb_true_iff. intros [H1 H2]. split.
  - apply sorted_NoDup, ascb_sorted, H1.
  - intros r Hr. rewrite forallb_forall in H2. specialize (H2 r Hr).
    apply andb_true_iff in H2 as [Ha Hb]. split; [apply sorted_NoDup, ascb_sorted, Ha|].
    intros d Hd. rewrite forallb_forall in Hb. specialize (Hb d Hd).
    destruct (qfind d ts) as [td|]; [eexists; reflexivity|discriminate].
Qed.

(* the linked ids of every kind resolve to a record of the same kind *)
Corollary linked_ids_resolve ts k recs : kind_ok ts k recs = true ->
  forall t, In t ts -> forall g, In g (q_annots k t) -> In g (map da_id recs).
Proof.
  intros H t Ht g Hg. apply (kind_ok_sound ts k recs H t Ht) in Hg as [r [Hr [Hid _]]].
  rewrite <- Hid. apply in_map, Hr.
Qed.
