(* C10S.v — what an observation accepted by spec_C10 says (soundness of the executable statement of C10, term
   lookups): every answer carries the id that was asked for and lies inside the id space; the ids answered
   are strictly ascending, hence each at most once; iteration yields exactly those ids and len() is their number;
   and for a Builder script: an id is answered iff a new_term call supplied it (inside the id space), with the
   name of the FIRST such call. *)
From Coq Require Import Lia Sorted.
From HpoV Require Import Gen.Consts Model.Base Model.Group Model.Onto Model.Query Model.Dump
  Model.Script Model.ManyTerms Spec.Sets Run.World Run.C02 Run.C10 Proofs.GroupP Proofs.SetsP.

Theorem spec_C10_sound w tbl probes queries found iter_ids len qs :
  spec_C10 ((w, tbl), probes, queries) (Ok (found, iter_ids, len, qs)) = true ->
  (forall asked got name, In (asked, got, name) found -> got = asked /\ asked < MAX_HPO_ID) /\
  sorted (map (fun f : N * N * list N => fst (fst f)) found) /\
  iter_ids = map (fun f : N * N * list N => fst (fst f)) found /\
  len = Nlen iter_ids /\
  match w with
  | WBuilder s =>
      (forall id, In id iter_ids <-> id < MAX_HPO_ID /\ In id (map fst (script_terms s))) /\
      (forall asked got name, In (asked, got, name) found -> first_name s asked = Some name)
  | _ => True
  end.
Proof.
  cbn [spec_C10]. intros H.
  apply andb_prop in H as [H Hw]. apply andb_prop in H as [H Hlen]. apply andb_prop in H as [H Hit].
  apply andb_prop in H as [Hf Hasc].
  apply list_eqb_eq in Hit. apply N.eqb_eq in Hlen. apply ascb_sorted in Hasc.
  split; [|split; [exact Hasc|split; [exact Hit|split; [exact Hlen|]]]].
  - intros asked got name Hin. rewrite forallb_forall in Hf. specialize (Hf _ Hin). cbn in Hf.
    apply andb_prop in Hf as [E L]. apply N.eqb_eq in E. apply N.ltb_lt in L. auto.
  - destruct w; try exact I.
    apply andb_prop in Hw as [Hw _]. apply andb_prop in Hw as [Hw _]. apply andb_prop in Hw as [Hids Hnames].
    apply list_eqb_eq in Hids. split.
    + intros id. rewrite Hids, set_of_In, filter_In, N.ltb_lt. tauto.
    + intros asked got name Hin. rewrite forallb_forall in Hnames. specialize (Hnames _ Hin). cbn in Hnames.
      destruct (first_name s asked) as [nm|]; [|discriminate]. apply list_eqb_eq in Hnames. congruence.
Qed.
