(* C17R.v — soundness of the replay that spec_C17 runs on the crate's reported merges
   (Run/C17.v [replay]): if it accepts a merge list, that list IS a dendrogram over the n inputs:
   every merge joins two distinct live nodes with lhs < rhs, the k-th merge becomes node n+k,
   every input and every intermediate cluster is merged at most once and, when one node remains,
   exactly once except the last; there are n-1 merges; the reported sizes are the numbers of
   leaves, and the last one is n. *)
From Coq Require Import Lia Arith Permutation.
From HpoV Require Import Model.Base Model.Group Model.F32 Model.Linkage Spec.Sets Proofs.BaseP Run.C17.

(* ---------------- lists of ids ---------------- *)

Lemma filter_notin (x : N) ids : ~ In x ids -> filter (fun y => negb (y =? x)) ids = ids.
Proof.
  induction ids as [|z ids IH]; intros Hn; [reflexivity|]. cbn [filter].
  destruct (N.eqb_spec z x) as [Ez|Ez]; [exfalso; apply Hn; left; exact Ez|]. cbn [negb].
  f_equal. apply IH. intros H. apply Hn. right. exact H.
Qed.

Lemma perm_remove (x : N) ids : NoDup ids -> In x ids ->
  Permutation ids (x :: filter (fun y => negb (y =? x)) ids).
Proof.
  induction ids as [|y ids IH]; intros Hnd Hin; [destruct Hin|].
  inversion Hnd as [|? ? Hy Hnd']; subst. cbn [filter].
  destruct (N.eqb_spec y x) as [E|E]; cbn [negb].
  - subst y. rewrite (filter_notin x ids Hy). reflexivity.
  - destruct Hin as [Hin|Hin]; [congruence|]. rewrite (IH Hnd' Hin) at 1. apply perm_swap.
Qed.

Lemma filter_NoDup {A} (p : A -> bool) l : NoDup l -> NoDup (filter p l).
Proof.
  induction l as [|x l IH]; intros H; [constructor|]. inversion H; subst. cbn [filter].
  destruct (p x); [constructor; [intros Hin; apply filter_In in Hin as [Hin _]; contradiction|]|]; auto.
Qed.

Lemma map_fst_filter {B} (p : N -> bool) (l : list (N * B)) :
  map fst (filter (fun nd => p (fst nd)) l) = filter p (map fst l).
Proof.
  induction l as [|x l IH]; [reflexivity|]. cbn [filter map]. destruct (p (fst x)); cbn [map]; rewrite IH; reflexivity.
Qed.

Lemma filter_filter {A} (p q : A -> bool) l : filter q (filter p l) = filter (fun x => p x && q x) l.
Proof.
  induction l as [|x l IH]; [reflexivity|]. cbn [filter]. destruct (p x); cbn [filter andb]; [destruct (q x)|]; rewrite IH; reflexivity.
Qed.

(* two distinct members removed *)
Lemma perm_remove_two (l r : N) ids : NoDup ids -> In l ids -> In r ids -> l <> r ->
  Permutation ids (l :: r :: filter (fun y => negb (y =? l) && negb (y =? r)) ids).
Proof.
  intros Hnd Hl Hr Hne. rewrite (perm_remove l ids Hnd Hl) at 1. constructor.
  assert (In r (filter (fun y => negb (y =? l)) ids)) as Hr'.
  { apply filter_In. split; [exact Hr|]. destruct (N.eqb_spec r l); [congruence|reflexivity]. }
  rewrite (perm_remove r _ (filter_NoDup _ _ Hnd) Hr') at 1. rewrite filter_filter. reflexivity.
Qed.

Lemma perm_shuffle (others M : list N) l r k live : Permutation live (l :: r :: others) ->
  Permutation ((others ++ [k]) ++ (M ++ [l; r])) ((live ++ M) ++ [k]).
Proof.
  intros H. rewrite H.
  transitivity ([l; r] ++ (others ++ [k] ++ M)).
  - rewrite <- !app_assoc. rewrite (app_assoc [k] M [l; r]), (app_assoc others ([k] ++ M) [l; r]).
    apply Permutation_app_comm.
  - cbn [app]. do 2 constructor. rewrite <- app_assoc. apply Permutation_app_head. apply Permutation_cons_append.
Qed.

(* ---------------- sizes ---------------- *)

Definition sz (n : N) (sizes : list N) (x : N) : N :=
  match size_ref n sizes x with Some z => z | None => 0 end.

Definition total (n : N) (sizes : list N) (ids : list N) : N := fold_right (fun x acc => sz n sizes x + acc) 0 ids.

Lemma total_perm n sizes a b : Permutation a b -> total n sizes a = total n sizes b.
Proof. intros H. unfold total. induction H; cbn [fold_right]; lia. Qed.

Lemma total_app n sizes a b : total n sizes (a ++ b) = total n sizes a + total n sizes b.
Proof. unfold total. induction a as [|x a IH]; cbn [fold_right app]; [reflexivity|]. rewrite IH. lia. Qed.

Lemma sz_old n sizes z x : x < n + Nlen sizes -> sz n (sizes ++ [z]) x = sz n sizes x.
Proof.
  intros H. unfold sz, size_ref. destruct (x <? n) eqn:E; [reflexivity|]. apply N.ltb_ge in E.
  rewrite nth_error_app1; [reflexivity|]. unfold nat_of, Nlen in *. lia.
Qed.

Lemma sz_new n sizes z : sz n (sizes ++ [z]) (n + Nlen sizes) = z.
Proof.
  unfold sz, size_ref. destruct (N.ltb_spec (n + Nlen sizes) n) as [H|_]; [unfold Nlen in H; lia|].
  replace (nat_of (n + Nlen sizes - n)) with (length sizes) by (unfold nat_of, Nlen; lia).
  rewrite nth_error_app2 by lia. rewrite Nat.sub_diag. reflexivity.
Qed.

Lemma total_old n sizes z ids : (forall x, In x ids -> x < n + Nlen sizes) ->
  total n (sizes ++ [z]) ids = total n sizes ids.
Proof.
  induction ids as [|x ids IH]; intros H; [reflexivity|]. cbn [total fold_right].
  rewrite sz_old by (apply H; left; reflexivity). unfold total in IH. rewrite IH; [reflexivity|].
  intros y Hy. apply H. right. exact Hy.
Qed.

(* ---------------- the invariant ---------------- *)

Definition lhs (c : N * N * N * N) : N := fst (fst (fst c)).
Definition rhs (c : N * N * N * N) : N := snd (fst (fst c)).
Definition csize (c : N * N * N * N) : N := snd c.

Definition ids_upto (k : nat) : list N := map N.of_nat (seq 0 k).

Record rinv (n : N) (m : nat) (done : list (N * N * N * N)) (live : list rnode) (sizes : list N) : Prop := {
  r_len : length sizes = m /\ length done = m;
  r_nodup : NoDup (map fst live);
  r_perm : Permutation (map fst live ++ flat_map (fun c => [lhs c; rhs c]) done) (ids_upto (N.to_nat n + m));
  r_total : total n sizes (map fst live) = n;
  r_count : (length live + m = N.to_nat n)%nat;
  r_shape : forall k c, nth_error done k = Some c ->
              lhs c < rhs c /\ rhs c < n + N.of_nat k /\
              nth_error sizes k = Some (csize c) /\
              csize c = sz n (firstn k sizes) (lhs c) + sz n (firstn k sizes) (rhs c)
}.

Lemma ids_upto_In k x : In x (ids_upto k) <-> x < N.of_nat k.
Proof.
  unfold ids_upto. rewrite in_map_iff. split.
  - intros [i [<- Hi]]. apply in_seq in Hi. lia.
  - intros H. exists (N.to_nat x). split; [lia|]. apply in_seq. lia.
Qed.

Lemma ids_upto_S k : ids_upto (S k) = ids_upto k ++ [N.of_nat k].
Proof. unfold ids_upto. rewrite seq_S, map_app. reflexivity. Qed.

Lemma sz_firstn_all n sizes x : sz n (firstn (length sizes) sizes) x = sz n sizes x.
Proof. rewrite firstn_all. reflexivity. Qed.

Section Replay.
  Variables (mt : method) (table : list (N * N * N)) (mode : N) (n : N).

  Lemma step_preserves m done live dm sizes c live' dm' sizes' :
    rinv n m done live sizes ->
    replay_step mt table mode n (live, dm, sizes) c = Some (live', dm', sizes') ->
    rinv n (S m) (done ++ [c]) live' sizes'.
  Proof.
    intros [[Hls Hld] Hnd Hperm Htot Hcnt Hshape] H. unfold rnode in *.
    destruct c as [[[l r] d] z]. cbn [replay_step] in H. unfold rnode in *.
    destruct (find_by fst l live) as [[l' cl]|] eqn:Fl; [|discriminate].
    destruct (find_by fst r live) as [[r' cr]|] eqn:Fr; [|discriminate].
    destruct (rd_get l r dm) as [dlr|]; [|discriminate].
    destruct (size_ref n sizes l) as [zl|] eqn:Sl; [|discriminate].
    destruct (size_ref n sizes r) as [zr|] eqn:Sr; [|discriminate].
    destruct ((l <? r) && (to_bits dlr =? d) && forallb (fun e : N * N * f32 => negb (flt (snd e) dlr)) dm && (z =? zl + zr)) eqn:Ec;
      [|discriminate].
    injection H as <- _ <-.
    apply andb_true_iff in Ec as [Ec Ez]. apply andb_true_iff in Ec as [Ec _]. apply andb_true_iff in Ec as [Elr _].
    apply N.ltb_lt in Elr. apply N.eqb_eq in Ez.
    apply find_by_Some in Fl as [Hinl Hidl]. apply find_by_Some in Fr as [Hinr Hidr]. cbn [fst] in Hidl, Hidr. subst l' r'.
    assert (In l (map fst live)) as Hl by (apply in_map_iff; exists (l, cl); auto).
    assert (In r (map fst live)) as Hr by (apply in_map_iff; exists (r, cr); auto).
    assert (l <> r) as Hne by lia.
    set (p := fun y : N => negb (y =? l) && negb (y =? r)).
    assert (map fst (filter (fun nd : N * list N => negb (fst nd =? l) && negb (fst nd =? r)) live) = filter p (map fst live)) as Eo
      by (apply (map_fst_filter p live)).
    pose proof (perm_remove_two l r (map fst live) Hnd Hl Hr Hne) as P2. fold p in P2.
    (* every live id is below n + m *)
    assert (forall x, In x (map fst live) -> x < n + Nlen sizes) as Hbound.
    { intros x Hx. assert (In x (ids_upto (N.to_nat n + m))) as Hi.
      { apply (Permutation_in _ Hperm). apply in_app_iff. left. exact Hx. }
      apply ids_upto_In in Hi. unfold Nlen. lia. }
    assert (n + Nlen sizes = N.of_nat (N.to_nat n + m)) as Ek by (unfold Nlen; lia).
    constructor.
    - rewrite !app_length. cbn [length]. lia.
    - rewrite map_app, Eo. cbn [map fst].
      apply (Permutation_NoDup (Permutation_cons_append (filter p (map fst live)) (n + Nlen sizes))).
      constructor; [|apply filter_NoDup, Hnd].
      intros Hin. apply filter_In in Hin as [Hin _]. specialize (Hbound _ Hin). lia.
    - rewrite map_app, Eo. cbn [map fst]. rewrite flat_map_app. cbn [flat_map lhs rhs fst snd app].
      replace (N.to_nat n + S m)%nat with (S (N.to_nat n + m)) by lia. rewrite ids_upto_S, <- Ek.
      rewrite <- Hperm. apply perm_shuffle. exact P2.
    - rewrite map_app, Eo. cbn [map fst]. rewrite total_app. cbn [total fold_right]. rewrite sz_new.
      rewrite total_old by (intros x Hx; apply filter_In in Hx as [Hx _]; apply Hbound, Hx).
      rewrite (total_perm _ _ _ _ P2) in Htot. cbn [total fold_right] in Htot.
      unfold sz in Htot at 1 2. rewrite Sl, Sr in Htot. unfold total. lia.
    - pose proof (Permutation_length P2) as L. rewrite map_length in L. cbn [length] in L.
      rewrite <- Eo, map_length in L. rewrite app_length. cbn [length]. lia.
    - intros k c Hk. destruct (Nat.lt_ge_cases k m) as [Hlt|Hge].
      + rewrite nth_error_app1 in Hk by lia. destruct (Hshape k c Hk) as [A [B [C D]]].
        repeat split; auto.
        * rewrite nth_error_app1 by lia. exact C.
        * rewrite firstn_app. replace (k - length sizes)%nat with 0%nat by lia. cbn [firstn]. rewrite app_nil_r. exact D.
      + assert (k < length (done ++ [(l, r, d, z)]))%nat as Hkl by (apply nth_error_Some; congruence).
        rewrite app_length in Hkl. cbn [length] in Hkl. assert (k = m) as -> by lia.
        rewrite nth_error_app2 in Hk by lia. rewrite Hld, Nat.sub_diag in Hk. injection Hk as <-.
        unfold lhs, rhs, csize. cbn [fst snd]. repeat split.
        * exact Elr.
        * specialize (Hbound r Hr). unfold Nlen in Hbound. lia.
        * rewrite nth_error_app2 by lia. rewrite Hls, Nat.sub_diag. reflexivity.
        * subst m. rewrite firstn_app, firstn_all, Nat.sub_diag. cbn [firstn]. rewrite app_nil_r.
          unfold sz. rewrite Sl, Sr. exact Ez.
  Qed.

  Lemma replay_preserves cs : forall m done live dm sizes live' dm' sizes',
    rinv n m done live sizes ->
    replay mt table mode n (live, dm, sizes) cs = Some (live', dm', sizes') ->
    rinv n (m + length cs) (done ++ cs) live' sizes'.
  Proof.
    induction cs as [|c cs IH]; intros m done live dm sizes live' dm' sizes' R H; cbn [replay] in H.
    - injection H as <- _ <-. rewrite app_nil_r, Nat.add_0_r. exact R.
    - destruct (replay_step mt table mode n (live, dm, sizes) c) as [[[l1 d1] s1]|] eqn:Es; [|discriminate].
      pose proof (step_preserves m done live dm sizes c l1 d1 s1 R Es) as R1.
      specialize (IH (S m) (done ++ [c]) l1 d1 s1 live' dm' sizes' R1 H).
      cbn [length]. replace (m + S (length cs))%nat with (S m + length cs)%nat by lia.
      rewrite <- app_assoc in IH. exact IH.
  Qed.
End Replay.

(* the state the replay starts from *)
Lemma numbered_fst {A} (l : list A) : forall i, map fst (numbered i l) = map (fun k => i + N.of_nat k) (seq 0 (length l)).
Proof.
  induction l as [|x l IH]; intros i; [reflexivity|]. cbn [numbered map length seq fst].
  f_equal; [lia|]. rewrite IH, <- seq_shift, map_map. apply map_ext. intros k. lia.
Qed.

Lemma rinv_initial {A} (sets : list A) (nodes := numbered 0 sets) :
  forall live, live = map (fun p : N * A => (fst p, @nil N)) nodes -> True.
Proof. auto. Qed.

Lemma total_ones n ids : (forall x, In x ids -> x < n) -> total n [] ids = Nlen ids.
Proof.
  induction ids as [|x ids IH]; intros H; [reflexivity|]. cbn [total fold_right].
  unfold sz at 1, size_ref. destruct (N.ltb_spec x n) as [_|Hge]; [|specialize (H x (or_introl eq_refl)); lia].
  unfold total in IH. rewrite IH by (intros y Hy; apply H; right; exact Hy). unfold Nlen. cbn [length]. lia.
Qed.

Lemma rinv_start (sets : list (list N)) : rinv (Nlen sets) 0 [] (numbered 0 sets) [].
Proof.
  assert (map fst (numbered 0 sets) = ids_upto (length sets)) as E.
  { rewrite numbered_fst. unfold ids_upto. apply map_ext. intros k. lia. }
  constructor; unfold rnode.
  - auto.
  - rewrite E. unfold ids_upto. apply FinFun.Injective_map_NoDup; [intros a b H; lia|apply seq_NoDup].
  - cbn [flat_map]. rewrite app_nil_r, E. unfold Nlen. rewrite Nnat.Nat2N.id, Nat.add_0_r. reflexivity.
  - rewrite total_ones; [unfold Nlen; rewrite E; unfold ids_upto; rewrite map_length, seq_length; reflexivity|].
    intros x Hx. rewrite E in Hx. apply ids_upto_In in Hx. unfold Nlen. exact Hx.
  - assert (length (numbered 0 sets) = length sets) as L by (rewrite <- (map_length fst), E; unfold ids_upto; rewrite map_length, seq_length; reflexivity).
    unfold Nlen. lia.
  - intros k c Hk. destruct k; discriminate.
Qed.

(* WHAT AN ACCEPTED MERGE LIST IS *)
Theorem replay_sound mt table mode (sets : list (list N)) dm0 cs live dm sizes :
  replay mt table mode (Nlen sets) (numbered 0 sets, dm0, []) cs = Some (live, dm, sizes) ->
  let n := Nlen sets in
  (* one new node per merge; live nodes + merges = inputs *)
  (length live + length cs = length sets)%nat /\
  (* every merge: lhs < rhs < n + k, reported size = leaves(lhs) + leaves(rhs), recorded as the size of node n + k *)
  (forall k c, nth_error cs k = Some c ->
     lhs c < rhs c /\ rhs c < n + N.of_nat k /\ nth_error sizes k = Some (csize c) /\
     csize c = sz n (firstn k sizes) (lhs c) + sz n (firstn k sizes) (rhs c)) /\
  (* the live nodes and the merged nodes are, together and without repetition, exactly 0 .. n+|cs|-1:
     every input and every intermediate cluster is merged at most once, and only live nodes are not merged *)
  Permutation (map fst live ++ flat_map (fun c => [lhs c; rhs c]) cs) (ids_upto (length sets + length cs)) /\
  (* the leaves of the live nodes are the n inputs *)
  total n sizes (map fst live) = n.
Proof.
  intros H n.
  pose proof (replay_preserves mt table mode (Nlen sets) cs 0 [] (numbered 0 sets) dm0 [] live dm sizes (rinv_start sets) H) as R.
  cbn [app plus] in R. destruct R as [_ _ Hperm Htot Hcnt Hshape].
  split; [unfold Nlen in Hcnt; lia|]. split; [exact Hshape|]. split; [|exact Htot].
  unfold Nlen in Hperm. rewrite Nnat.Nat2N.id in Hperm. exact Hperm.
Qed.

(* when a single node remains: exactly n-1 merges, and the last reported size is n *)
Corollary replay_single_root mt table mode (sets : list (list N)) dm0 cs x cx dm sizes :
  replay mt table mode (Nlen sets) (numbered 0 sets, dm0, []) cs = Some ([(x, cx)], dm, sizes) ->
  (length cs + 1 = length sets)%nat /\ sz (Nlen sets) sizes x = Nlen sets.
Proof.
  intros H. destruct (replay_sound mt table mode sets dm0 cs _ dm sizes H) as [Hc [_ [_ Ht]]]. cbn zeta in *.
  cbn [length] in Hc. split; [lia|]. cbn [map fst total fold_right] in Ht. lia.
Qed.
