(* C19D.v — the two public setters of the defaults REPLACE whatever category / modifier groups an ontology had:
   their outcome is a function of the terms alone (C19; the world WDefaults of the check runs them on ontologies
   whose groups were edited through categories_mut / modifier_mut before). *)
From HpoV Require Import Gen.Consts Model.Base Model.Group Model.Onto.

Definition set_defaults (o : onto) : res onto := do o1 <- set_default_categories o ;; set_default_modifier o1.

Theorem defaults_ignore_previous_groups o o' : o_arena o = o_arena o' ->
  match set_defaults o, set_defaults o' with
  | Ok a, Ok b => o_cat a = o_cat b /\ o_mod a = o_mod b /\ o_arena a = o_arena o /\ o_arena b = o_arena o'
  | Err e, Err e' => e = e'
  | _, _ => False
  end.
Proof.
  intros E. unfold set_defaults, set_default_categories, set_default_modifier, o_get. rewrite <- E.
  destruct (ar_get ROOT_ID_CAT (o_arena o)) as [root|]; cbn [bind]; [|reflexivity].
  destruct (ar_get PHENOTYPE_ID (o_arena o)) as [ph|]; cbn [bind]; [|reflexivity].
  cbn [set_cat o_arena]. rewrite <- E.
  destruct (ar_get ROOT_ID (o_arena o)) as [r2|]; [|reflexivity].
  cbn [set_mod set_cat o_cat o_mod o_arena]. auto.
Qed.

(* in particular: calling them on an ontology that already carries the defaults changes nothing *)
Corollary defaults_idempotent o a : set_defaults o = Ok a -> set_defaults a = Ok a.
Proof.
  destruct o as [ar g m r v c mo].
  unfold set_defaults, set_default_categories, set_default_modifier, o_get, set_cat, set_mod.
  cbn [o_arena o_genes o_omim o_orpha o_version o_cat o_mod].
  destruct (ar_get ROOT_ID_CAT ar) as [root|] eqn:E1; cbn [bind]; [|discriminate].
  destruct (ar_get PHENOTYPE_ID ar) as [ph|] eqn:E2; cbn [bind]; [|discriminate].
  cbn [o_arena o_genes o_omim o_orpha o_version o_cat o_mod].
  destruct (ar_get ROOT_ID ar) as [r2|] eqn:E3; [|discriminate].
  intros [= <-]. cbn [o_arena o_genes o_omim o_orpha o_version o_cat o_mod].
  rewrite E1, E2. cbn [bind o_arena o_genes o_omim o_orpha o_version o_cat o_mod]. rewrite E3. reflexivity.
Qed.
