(* RecordsP.v — the record side of annotate_gene / annotate_omim_disease / annotate_orpha_disease
   (Model/Onto.v [b_annotate]): a record lists exactly the terms it was DIRECTLY annotated to —
   never an inherited one —, every id of a successful call has a record, records of the other two
   kinds are untouched, and the first name given for an id is kept. *)
From Coq Require Import Lia.
From HpoV Require Import Gen.Consts Model.Base Model.Group Model.Onto Proofs.GroupP Proofs.BaseP.

(* the direct terms recorded for annotation id g (empty when there is no record) *)
Definition direct (k : kind) (o : onto) (g : N) : group :=
  match an_find g (o_records k o) with Some r => a_hpos r | None => [] end.

Lemma find_update_same {A} (key : A -> N) k (f : A -> A) l a : (forall x, key (f x) = key x) ->
  find_by key k l = Some a -> find_by key k (update_by key k f l) = Some (f a).
Proof.
  intros Hf. induction l as [|x l IH]; cbn [update_by find_by]; [discriminate|].
  destruct (N.eqb_spec (key x) k) as [E|E].
  - intros [= <-]. cbn [find_by]. rewrite Hf, E, N.eqb_refl. reflexivity.
  - intros H. cbn [find_by]. destruct (N.eqb_spec (key x) k); [contradiction|]. apply IH, H.
Qed.

Lemma find_update_other {A} (key : A -> N) k k' (f : A -> A) l : (forall x, key (f x) = key x) -> k' <> k ->
  find_by key k' (update_by key k f l) = find_by key k' l.
Proof.
  intros Hf Hne. induction l as [|x l IH]; cbn [update_by find_by]; [reflexivity|].
  destruct (N.eqb_spec (key x) k) as [E|E]; cbn [find_by].
  - rewrite Hf. destruct (N.eqb_spec (key x) k'); [congruence|reflexivity].
  - destruct (key x =? k'); [reflexivity|exact IH].
Qed.

Lemma update_absent {A} (key : A -> N) k (f : A -> A) l : find_by key k l = None -> update_by key k f l = l.
Proof.
  induction l as [|x l IH]; cbn [update_by find_by]; intros H; [reflexivity|].
  destruct (key x =? k); [discriminate|]. rewrite IH by exact H. reflexivity.
Qed.

Lemma find_app_r {A} (key : A -> N) k l x : find_by key k l = None ->
  find_by key k (l ++ [x]) = if key x =? k then Some x else None.
Proof.
  induction l as [|y l IH]; cbn [app find_by]; intros H; [reflexivity|].
  destruct (key y =? k); [discriminate|]. apply IH, H.
Qed.

Lemma find_app_l {A} (key : A -> N) k l x a : find_by key k l = Some a -> find_by key k (l ++ [x]) = Some a.
Proof.
  induction l as [|y l IH]; cbn [app find_by]; intros H; [discriminate|].
  destruct (key y =? k); [exact H|]. apply IH, H.
Qed.

(* add_gene / add_*_disease: a record with that id exists afterwards; an existing one is kept as it is *)
Lemma an_add_find name id recs g :
  an_find g (an_add name id recs) =
    match an_find g recs with
    | Some r => Some r
    | None => if id =? g then Some (mkAnnot id name []) else None
    end.
Proof.
  unfold an_add, an_find. destruct (find_by a_id id recs) as [r0|] eqn:E.
  - destruct (find_by a_id g recs) as [r|] eqn:E2; [reflexivity|].
    destruct (N.eqb_spec id g) as [<-|]; [congruence|reflexivity].
  - destruct (find_by a_id g recs) as [r|] eqn:E2.
    + apply find_app_l, E2.
    + rewrite (find_app_r _ _ _ _ E2). reflexivity.
Qed.

Lemma an_add_term_find id tid recs g :
  an_find g (an_add_term id tid recs) =
    match an_find g recs with
    | Some r => if a_id r =? id then Some (mkAnnot (a_id r) (a_name r) (g_add (a_hpos r) tid)) else Some r
    | None => None
    end.
Proof.
  unfold an_add_term, an_find.
  set (f := fun r => mkAnnot (a_id r) (a_name r) (g_add (a_hpos r) tid)).
  assert (forall x, a_id (f x) = a_id x) as Hf by reflexivity.
  destruct (N.eq_dec g id) as [->|Hne].
  - destruct (find_by a_id id recs) as [r|] eqn:E.
    + rewrite (find_update_same a_id id f recs r Hf E). pose proof (find_by_Some _ _ _ _ E) as [_ Hid].
      destruct (N.eqb_spec (a_id r) id); [reflexivity|contradiction].
    + rewrite (update_absent a_id id f recs E), E. reflexivity.
  - rewrite (find_update_other a_id id g f recs Hf Hne).
    destruct (find_by a_id g recs) as [r|] eqn:E; [|reflexivity].
    apply find_by_Some in E as [_ E]. destruct (N.eqb_spec (a_id r) id); [congruence|reflexivity].
Qed.

(* one successful annotate call: the record of [id] gains [tid] as a DIRECT term, nothing else
   changes in any record of any kind *)
Theorem annotate_records k id name tid o o' : b_annotate k id name tid o = Ok o' ->
  (forall g x, In x (direct k o' g) <-> In x (direct k o g) \/ (g = id /\ x = tid)) /\
  (exists r, an_find id (o_records k o') = Some r) /\
  (forall k', k' <> k -> o_records k' o' = o_records k' o).
Proof.
  unfold b_annotate. destruct (o_get tid o) as [t|]; [|discriminate].
  destruct (an_find id (an_add name id (o_records k o))) as [r0|] eqn:E0; [|discriminate].
  set (recs' := an_add_term id tid (an_add name id (o_records k o))).
  destruct (link _ k _ tid id) as [a|e| |] eqn:El; cbn [bind]; try discriminate.
  intros [= <-].
  assert (forall kk, o_records kk (set_arena a (set_records k recs' o)) = o_records kk (set_records k recs' o)) as Ra
    by (intros kk; destruct kk; reflexivity).
  assert (o_records k (set_records k recs' o) = recs') as Rk by (destruct k; reflexivity).
  split; [|split].
  - intros g x. unfold direct. rewrite Ra, Rk. unfold recs'. rewrite an_add_term_find, an_add_find.
    destruct (an_find g (o_records k o)) as [r|] eqn:Eg.
    + pose proof (find_by_Some _ _ _ _ Eg) as [_ Hid]. destruct (N.eqb_spec (a_id r) id) as [E|E]; cbn [a_hpos].
      * rewrite g_add_In. split; [intros [->|H]; [right; split; congruence|left; exact H]|].
        intros [H|[_ ->]]; [right; exact H|left; reflexivity].
      * split; [auto|]. intros [H|[Hg _]]; [exact H|congruence].
    + destruct (N.eqb_spec id g) as [<-|Hne]; cbn [a_id a_hpos].
      * rewrite N.eqb_refl. cbn [a_hpos]. rewrite g_add_In. cbn [In].
        split; [intros [->|[]]; right; auto|intros [[]|[_ ->]]; left; reflexivity].
      * cbn [In]. split; [intros []|intros [[]|[Hg _]]; congruence].
  - rewrite Ra, Rk. unfold recs'. rewrite an_add_term_find, E0.
    destruct (a_id r0 =? id); eexists; reflexivity.
  - intros k' Hk. rewrite Ra. destruct k, k'; try reflexivity; congruence.
Qed.

(* the term side of the same call is one propagation (Proofs/LinkP.v characterises it) *)
Theorem annotate_is_link k id name tid o o' : b_annotate k id name tid o = Ok o' ->
  link (link_fuel (o_arena o)) k (o_arena o) tid id = Ok (o_arena o').
Proof.
  unfold b_annotate. destruct (o_get tid o) as [t|]; [|discriminate].
  destruct (an_find id (an_add name id (o_records k o))) as [r0|]; [|discriminate].
  assert (o_arena (set_records k (an_add_term id tid (an_add name id (o_records k o))) o) = o_arena o) as ->
    by (destruct k; reflexivity).
  destruct (link _ k _ tid id) as [a|e| |]; cbn [bind]; try discriminate.
  intros [= <-]. reflexivity.
Qed.

(* a failing call: the term is absent; nothing is returned but the error *)
Theorem annotate_absent_term k id name tid o : o_get tid o = None -> b_annotate k id name tid o = Err DoesNotExist.
Proof. intros H. unfold b_annotate. rewrite H. reflexivity. Qed.
