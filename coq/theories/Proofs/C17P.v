(* C17P.v — linkage: Combinations yields each unordered pair of live entries exactly once;
   closest_clusters returns a minimum; the leaf order accepted by the check is a permutation. *)
From Coq Require Import Lia Arith Permutation.
From HpoV Require Import Model.Base Model.Group Model.Linkage Proofs.BaseP.
Local Open Scope nat_scope.

(* ------------------------------------------------------------------------------------------ *)
(* utils::Combinations                                                                          *)
(* ------------------------------------------------------------------------------------------ *)

Section Comb.
  Context {A : Type}.

  Fixpoint somes' (l : list (option A)) : list A :=
    match l with [] => [] | None :: t => somes' t | Some x :: t => x :: somes' t end.

  (* the pairs whose first component is entry i and whose second is a live entry at position >= j *)
  Definition row_from (inner : list (option A)) (i j : nat) : list (A * A) :=
    match nth_error inner i with
    | Some (Some a) => map (fun b => (a, b)) (somes' (skipn j inner))
    | _ => []
    end.

  (* what the iterator still has to yield in state (idx1, idx2) = (i, j) *)
  Definition comb_spec (inner : list (option A)) (i j : nat) : list (A * A) :=
    row_from inner i j ++ flat_map (fun i' => row_from inner i' (S i')) (seq (S i) (length inner - S i)).

  Lemma skipn_nth_error (l : list (option A)) j x : nth_error l j = Some x -> skipn j l = x :: skipn (S j) l.
  Proof.
    revert l. induction j as [|j IH]; intros [|y t] H; try discriminate.
    - injection H as ->. reflexivity.
    - cbn [skipn]. apply IH, H.
  Qed.

  Lemma row_from_step inner i j x : nth_error inner j = Some x ->
    row_from inner i j =
      match nth_error inner i, x with
      | Some (Some a), Some b => (a, b) :: row_from inner i (S j)
      | _, _ => row_from inner i (S j)
      end.
  Proof.
    intros Hj. unfold row_from. rewrite (skipn_nth_error inner j x Hj).
    destruct (nth_error inner i) as [[a|]|]; destruct x as [b|]; reflexivity.
  Qed.

  Lemma row_from_end inner i j : length inner <= j -> row_from inner i j = [].
  Proof.
    intros H. unfold row_from. rewrite skipn_all2 by exact H.
    destruct (nth_error inner i) as [[a|]|]; reflexivity.
  Qed.

  (* partial correctness for EVERY fuel: whatever the state machine returns is the specification *)
  Theorem comb_run_spec fuel : forall inner i j l, j <= length inner ->
    comb_run fuel inner i j = Ok l -> i < length inner -> l = comb_spec inner i j.
  Proof.
    induction fuel as [|f IH]; intros inner i j l Hj H Hi; [discriminate|].
    cbn [comb_run] in H.
    destruct (Nat.ltb_spec i (length inner)) as [_|Hge]; [|lia].
    destruct (Nat.compare_spec j (length inner)) as [Heq|Hlt|Hgt]; [| |lia].
    - (* idx2 = len: next row *)
      subst j. unfold comb_spec. rewrite row_from_end by lia. cbn [app].
      destruct (Nat.lt_ge_cases (S i) (length inner)) as [Hlt|Hge].
      + specialize (IH inner (S i) (S (S i)) l ltac:(lia) H Hlt). rewrite IH. unfold comb_spec.
        replace (length inner - S i) with (S (length inner - S (S i))) by lia. cbn [seq flat_map]. reflexivity.
      + replace (length inner - S i) with 0 by lia. cbn [seq flat_map].
        destruct f as [|f']; [discriminate|]. cbn [comb_run] in H.
        destruct (Nat.ltb_spec (S i) (length inner)); [lia|]. congruence.
    - (* idx2 < len *)
      destruct (nth_error inner j) as [x|] eqn:Ex; [|apply nth_error_None in Ex; lia].
      unfold comb_spec. rewrite (row_from_step inner i j x Ex).
      destruct (nth_error inner i) as [[a|]|] eqn:Ei.
      + destruct x as [b|].
        * destruct (comb_run f inner i (S j)) as [rest| | |] eqn:Er; cbn [bind] in H; try discriminate.
          injection H as <-. rewrite (IH inner i (S j) rest ltac:(lia) Er Hi). unfold comb_spec. reflexivity.
        * rewrite (IH inner i (S j) l ltac:(lia) H Hi). reflexivity.
      + destruct x as [b|]; rewrite (IH inner i (S j) l ltac:(lia) H Hi); reflexivity.
      + apply nth_error_None in Ei. lia.
  Qed.

  (* Combinations::new on a vector of live entries: every pair (x_i, x_j), i < j, exactly once,
     in lexicographic order *)
  Fixpoint all_pairs_of (l : list A) : list (A * A) :=
    match l with [] => [] | x :: t => map (fun y => (x, y)) t ++ all_pairs_of t end.

  Lemma somes'_map_Some (l : list A) : somes' (map (@Some A) l) = l.
  Proof. induction l as [|x t IH]; cbn; [reflexivity|f_equal; exact IH]. Qed.

  Lemma comb_spec_all_live_gen (pre l : list A) :
    flat_map (fun i' => row_from (map (@Some A) (pre ++ l)) i' (S i')) (seq (length pre) (length l)) = all_pairs_of l.
  Proof.
    revert pre. induction l as [|x t IH]; intros pre; [reflexivity|].
    cbn [length seq flat_map all_pairs_of]. f_equal.
    - unfold row_from. rewrite nth_error_map, nth_error_app2, Nat.sub_diag by lia. cbn [nth_error option_map].
      rewrite skipn_map. replace (S (length pre)) with (length (pre ++ [x])) by (rewrite app_length; cbn; lia).
      replace (pre ++ x :: t) with ((pre ++ [x]) ++ t) by (rewrite <- app_assoc; reflexivity).
      rewrite skipn_app, skipn_all, Nat.sub_diag. cbn [app skipn]. rewrite somes'_map_Some. reflexivity.
    - specialize (IH (pre ++ [x])). rewrite app_length in IH. cbn [length] in IH.
      replace (length pre + 1) with (S (length pre)) in IH by lia.
      rewrite <- app_assoc in IH. exact IH.
  Qed.

  Theorem comb_new_all_live (l : list A) ps : comb_new (map (@Some A) l) = Ok ps -> ps = all_pairs_of l.
  Proof.
    unfold comb_new. intros H. destruct l as [|x t].
    - cbv in H. injection H as <-. reflexivity.
    - apply comb_run_spec in H; [|rewrite map_length; cbn; lia|rewrite map_length; cbn; lia].
      rewrite H. unfold comb_spec. rewrite map_length. cbn [length].
      replace (S (length t) - 1) with (length t) by lia.
      pose proof (comb_spec_all_live_gen [] (x :: t)) as G. cbn [app length seq flat_map all_pairs_of] in G.
      exact G.
  Qed.
End Comb.

(* ------------------------------------------------------------------------------------------ *)
(* closest_clusters                                                                             *)
(* ------------------------------------------------------------------------------------------ *)

Section Closest.
  Variable F : Type.
  Variable flt : F -> F -> bool.
  (* "not less than" is transitive: true of IEEE comparison on non-NaN values *)
  Hypothesis nlt_trans : forall a b c, flt b a = false -> flt c b = false -> flt c a = false.
  Hypothesis flt_irrefl : forall a, flt a a = false.
  Hypothesis flt_asym : forall a b, flt a b = true -> flt b a = false.

  Lemma fold_min_spec (t : list (nat * nat * F)) : forall x,
    let r := fold_left (fun mx e => if flt (snd e) (snd mx) then e else mx) t x in
    In r (x :: t) /\ flt (snd x) (snd r) = false /\ forall e, In e t -> flt (snd e) (snd r) = false.
  Proof.
    induction t as [|y t IH]; intros x; cbn [fold_left].
    - split; [left; reflexivity|]. split; [apply flt_irrefl|intros e []].
    - destruct (flt (snd y) (snd x)) eqn:E.
      + destruct (IH y) as [Hin [Hy Hall]]. split; [destruct Hin as [<-|Hin]; [right; left; reflexivity|right; right; exact Hin]|].
        split.
        * apply (nlt_trans _ (snd y)); [exact Hy|]. apply flt_asym, E.
        * intros e [<-|He]; [exact Hy|apply Hall, He].
      + destruct (IH x) as [Hin [Hx Hall]]. split; [destruct Hin as [<-|Hin]; [left; reflexivity|right; right; exact Hin]|].
        split; [exact Hx|]. intros e [<-|He]; [|apply Hall, He].
        apply (nlt_trans _ (snd x)); [exact Hx|exact E].
  Qed.

  (* the pair handed to new_cluster is an entry of the matrix and no entry is strictly closer *)
  Theorem closest_is_minimum m e : closest F flt m = Some e ->
    In e m /\ forall e', In e' m -> flt (snd e') (snd e) = false.
  Proof.
    destruct m as [|x t]; [discriminate|]. cbn [closest]. intros [= <-].
    destruct (fold_min_spec t x) as [Hin [Hx Hall]]. split; [exact Hin|].
    intros e' [<-|He]; [exact Hx|apply Hall, He].
  Qed.
End Closest.

(* ------------------------------------------------------------------------------------------ *)
(* a leaf order whose sorted form is 0..n-1 is a permutation of 0..n-1                          *)
(* ------------------------------------------------------------------------------------------ *)

Lemma ins_sorted_perm x l : Permutation (ins_sorted x l) (x :: l).
Proof.
  induction l as [|y t IH]; cbn [ins_sorted]; [reflexivity|].
  destruct (x <=? y)%N; [reflexivity|]. rewrite IH. apply perm_swap.
Qed.

Lemma sortN_perm l : Permutation (sortN l) l.
Proof.
  unfold sortN. induction l as [|x t IH]; cbn [fold_right]; [reflexivity|].
  rewrite ins_sorted_perm. constructor. exact IH.
Qed.

Theorem sorted_form_gives_permutation idx target : sortN idx = target -> Permutation idx target.
Proof. intros <-. symmetry. apply sortN_perm. Qed.
