(* TotalReloadP.v — "serialisation never emits bytes that the loader rejects or panics on" (C07): for
   every well-formed source ontology (src_ok, acyclic, ann_ok, ic_ok, distinct record ids, records
   naming stored terms, both standard roots present) that the format can carry, from_bytes (as_bytes o)
   RETURNS an ontology — every fuelled recursion of the loader has enough fuel, no lookup fails. *)
From Coq Require Import Lia Relations Sorted Permutation.
From HpoV Require Import Gen.Consts Model.Base Model.Group Model.Onto Model.Query Model.Binary
  Proofs.GroupP Proofs.BaseP Proofs.ClosureP Proofs.AcyclicP Proofs.TotalP Proofs.DistP Proofs.QgoodP Proofs.LinkP Proofs.C03W
  Proofs.SectionP Proofs.RoundTripP Proofs.AnnotP Proofs.TotalLinkP Proofs.SubLinksP Proofs.ReloadP Proofs.C18P Proofs.BuilderAnnotP Proofs.RecordsP Proofs.WalkP.

(* ---------------- the structural phases ---------------- *)

Lemma insert_raw_total ts : NoDup (map t_id ts) -> Forall (fun t => t_id t < MAX_HPO_ID) ts ->
  forall a, Forall (fun t => ~ In (t_id t) (ar_keys a)) ts -> exists a', foldM (fun a t => ar_insert (raw_term t) a) ts a = Ok a'.
Proof.
  induction ts as [|t ts IH]; intros Hnd Hr a Hf; cbn [foldM]; [eexists; reflexivity|].
  inversion Hnd as [|? ? Hn Hnd']; subst. inversion Hr as [|? ? Hr1 Hr']; subst. inversion Hf as [|? ? Hf1 Hf']; subst.
  unfold ar_insert at 1. change (t_id (raw_term t)) with (t_id t).
  destruct (N.leb_spec MAX_HPO_ID (t_id t)); [lia|].
  assert (ar_find (t_id t) a = None) as ->.
  { unfold ar_find. destruct (find_by t_id (t_id t) (ar_terms a)) as [x|] eqn:E; [|reflexivity].
    exfalso. apply find_by_Some in E as [E1 E2]. apply Hf1. rewrite <- E2. unfold ar_keys. apply in_map, E1. }
  cbn [bind]. apply (IH Hnd' Hr'). apply Forall_forall. intros x Hx Hin. unfold ar_keys in Hin. cbn [ar_terms] in Hin.
  rewrite map_app, in_app_iff in Hin. destruct Hin as [Hin|[Hin|[]]]; [rewrite Forall_forall in Hf'; apply (Hf' x Hx Hin)|].
  change (t_id (raw_term t)) with (t_id t) in Hin. apply Hn. rewrite Hin. apply in_map, Hx.
Qed.

Lemma all_links_inner_total c ps : forall a, binv a -> SP a -> In c (ar_keys a) -> (forall p, In p ps -> In p (ar_keys a)) ->
  exists a', foldM (fun a p => b_add_parent_unchecked p c a) ps a = Ok a'.
Proof.
  induction ps as [|p ps IH]; intros a B P Hc Hps; cbn [foldM]; [eexists; reflexivity|].
  destruct (link_step a p c B P (Hps p (or_introl eq_refl)) Hc) as [a1 [E1 [B1 [P1 [K1 _]]]]]. rewrite E1. cbn [bind].
  apply (IH a1 B1 P1); [rewrite K1; exact Hc|intros q Hq; rewrite K1; apply Hps; right; exact Hq].
Qed.

Lemma all_links_total terms : forall a, binv a -> SP a -> (forall t, In t terms -> In (t_id t) (ar_keys a)) ->
  (forall t p, In t terms -> In p (t_parents t) -> In p (ar_keys a)) ->
  exists a', foldM (fun a t => foldM (fun a p => b_add_parent_unchecked p (t_id t) a) (t_parents t) a) terms a = Ok a'.
Proof.
  induction terms as [|t terms IH]; intros a B P Ht Hp; cbn [foldM]; [eexists; reflexivity|].
  destruct (all_links_inner_total (t_id t) (t_parents t) a B P (Ht t (or_introl eq_refl)) (fun p Hq => Hp t p (or_introl eq_refl) Hq)) as [a1 E1].
  rewrite E1. cbn [bind].
  destruct (all_links_inner (t_id t) (t_parents t) a a1 B P (Ht t (or_introl eq_refl)) (fun p Hq => Hp t p (or_introl eq_refl) Hq) E1) as [B1 [P1 [K1 _]]].
  apply (IH a1 B1 P1); [intros t0 H0; rewrite K1; apply Ht; right; exact H0|intros t0 p H0 Hq; rewrite K1; apply (Hp t0 p (or_intror H0) Hq)].
Qed.

(* the three structural phases of a reload return on every acyclic source with exact caches *)
Theorem rebuild_arena_total o : src_ok o -> acyclic (o_arena o) -> exists a3, rebuild_arena (ar_terms (o_arena o)) = Ok a3.
Proof.
  intros S Ac. pose proof (so_q o S) as G. pose proof (q_wf o G) as W. set (ts := ar_terms (o_arena o)) in *. unfold rebuild_arena.
  assert (NoDup (map t_id ts)) as Hnd by exact (wf_nodup _ W).
  assert (Forall (fun t => t_id t < MAX_HPO_ID) ts) as Hr by (apply Forall_forall; intros t Ht; apply (wf_range _ W t Ht)).
  destruct (insert_raw_total ts Hnd Hr arena_default) as [a1 H1]; [apply Forall_forall; intros t _ []|]. rewrite H1. cbn [bind].
  destruct (insert_raw_order ts Hnd Hr arena_default a1) as [E1 Eph]; [apply Forall_forall; intros t _ []|exact H1|].
  cbn [ar_terms arena_default app] in E1.
  assert (binv a1 /\ SP a1) as [B1 P1].
  { refine (foldM_inv _ (fun a => binv a /\ SP a) _ _ arena_default a1 _ H1).
    - intros s t s' _ Hs [Bs Ps]. split; [apply (binv_insert s (raw_term t) s' Bs eq_refl eq_refl eq_refl Hs)|].
      apply (SP_insert_empty (raw_term t) s s' eq_refl eq_refl Ps Hs).
    - split; [apply binv_default|apply SP_default]. }
  assert (ar_keys a1 = map t_id ts) as K1 by (unfold ar_keys; rewrite E1, map_map; apply map_ext; intros t; reflexivity).
  assert (forall x y, ~ parent_rel a1 x y) as PR1.
  { intros x y [t [Hin [_ Hp]]]. rewrite E1 in Hin. apply in_map_iff in Hin as [t0 [<- _]]. destruct Hp. }
  destruct (all_links_total ts a1 B1 P1) as [a2 H2];
    [intros t Ht; rewrite K1; apply in_map, Ht|intros t p Ht Hp; rewrite K1; apply (wf_closed _ W t Ht p Hp)|].
  rewrite H2. cbn [bind].
  destruct (all_links ts a1 a2 B1 P1) as [B2 [P2 [K2 [C2 PR2]]]];
    [intros t Ht; rewrite K1; apply in_map, Ht|intros t p Ht Hp; rewrite K1; apply (wf_closed _ W t Ht p Hp)|exact H2|].
  assert (forall x y, parent_rel a2 x y <-> parent_rel (o_arena o) x y) as PRo.
  { intros x y. rewrite PR2. split.
    - intros [Hf|[t [Ht [-> Hp]]]]; [destruct (PR1 x y Hf)|]. exists t. auto.
    - intros [t [Ht [Hid Hp]]]. right. exists t. auto. }
  (* the rank: the size of the ancestor cache in the source *)
  apply (connect_all_total (fun id => length (allp_of (o_arena o) id)) (default_fuel a2) a2 (b_wf _ B2) (b_empty _ B2)).
  - intros c p Hcp. apply PRo in Hcp. destruct Hcp as [tc [Htc [Hidc Hp]]].
    assert (In p (ar_keys (o_arena o))) as Hpk by (apply (wf_closed _ W tc Htc p Hp)).
    destruct (key_find _ p W Hpk) as [tp [Fp [Htp [Hidp _]]]].
    unfold allp_of. rewrite Fp, <- Hidc, (find_unique _ tc W Htc).
    assert (incl (t_id tp :: t_allp tp) (t_allp tc)) as Hi.
    { intros x [<-|Hx]; apply (q_exact o G tc Htc).
      - rewrite Hidp. apply t_step. exists tc. auto.
      - apply (q_exact o G tp Htp) in Hx. eapply t_trans; [apply t_step; exists tc; split; [exact Htc|split; [reflexivity|exact Hp]]|]. rewrite <- Hidp. exact Hx. }
    assert (NoDup (t_id tp :: t_allp tp)) as Nd.
    { constructor; [|apply sorted_NoDup, (q_sorted_a o G tp Htp)]. intros Hx. apply (q_exact o G tp Htp) in Hx. apply (Ac _ Hx). }
    pose proof (NoDup_incl_length Nd Hi) as Hl. cbn [length] in Hl. lia.
  - intros id Hid. rewrite K2, K1 in Hid. fold (ar_keys (o_arena o)) in Hid.
    destruct (key_find _ id W Hid) as [t [Ft [Ht [Hidt _]]]]. unfold allp_of. rewrite Ft. unfold default_fuel.
    assert (length (ar_terms a2) = length ts) as -> by (rewrite <- (map_length t_id (ar_terms a2)); fold (ar_keys a2); rewrite K2, K1, map_length; reflexivity).
    assert (incl (t_allp t) (map t_id ts)) as Hi by (intros x Hx; apply (q_exact o G t Ht) in Hx; apply (AnnotP.anc_in_keys _ _ _ W Hx)).
    pose proof (NoDup_incl_length (sorted_NoDup _ (q_sorted_a o G t Ht)) Hi) as Hl. rewrite map_length in Hl. lia.
Qed.

(* ---------------- the annotation phases ---------------- *)

Lemma frame_length k a a' : frame k a a' -> length (ar_terms a') = length (ar_terms a).
Proof. intros [_ F]. symmetry. apply (Forall2_len _ _ _ F). Qed.

Lemma links_total k id ds : forall a, good k a -> caches_nodup a -> (forall d, In d ds -> In d (ar_keys a)) ->
  exists a', foldM (fun a t => link (link_fuel a) k a t id) ds a = Ok a' /\ frame k a a' /\ good k a'.
Proof.
  induction ds as [|d ds IH]; intros a G C Hd; cbn [foldM]; [exists a; split; [reflexivity|split; [apply frame_refl|exact G]]|].
  assert (In d (ar_keys a)) as Hdk by (apply Hd; left; reflexivity).
  assert (length (allp_of a d) < link_fuel a)%nat as Hr.
  { unfold ar_keys in Hdk. apply in_map_iff in Hdk as [td [Hid Htd]]. unfold allp_of. rewrite <- Hid, (good_find k a td G Htd).
    assert (incl (t_allp td) (ar_keys a)) as Hi.
    { intros p Hp. destruct (g_trans k a G td Htd p Hp) as [tp [Htp [Hidp _]]]. unfold ar_keys. rewrite <- Hidp. apply in_map, Htp. }
    pose proof (NoDup_incl_length (C td Htd) Hi) as Hl. unfold ar_keys in Hl. rewrite map_length in Hl. unfold link_fuel. lia. }
  destruct (link_total k id (link_fuel a) a d G C Hdk Hr) as [a1 E1]. rewrite E1. cbn [bind].
  destruct (link_frame k id (link_fuel a) a d a1 G E1) as [Fr1 G1].
  destruct (IH a1 G1 (frame_caches_nodup k a a1 Fr1 C)) as [a' [E' [Fr' G']]].
  { intros x Hx. rewrite (frame_keys k a a1 Fr1). apply Hd. right. exact Hx. }
  exists a'. split; [exact E'|]. split; [eapply frame_trans; eassumption|exact G'].
Qed.

Lemma load_records_total k rs : forall o, good k (o_arena o) -> caches_nodup (o_arena o) ->
  (forall r d, In r rs -> In d (a_hpos r) -> In d (ar_keys (o_arena o))) ->
  exists o', foldM (load_record k) rs o = Ok o'.
Proof.
  induction rs as [|r rs IH]; intros o G C Hd; cbn [foldM]; [eexists; reflexivity|].
  destruct (links_total k (a_id r) (a_hpos r) (o_arena o) G C (fun d H0 => Hd r d (or_introl eq_refl) H0)) as [a1 [E1 [Fr1 G1]]].
  unfold load_record at 1. rewrite E1. cbn [bind].
  set (o1 := set_records k (an_put r (o_records k o)) (set_arena a1 o)).
  assert (o_arena o1 = a1) as Ea by (destruct k; reflexivity).
  apply (IH o1); rewrite Ea; [exact G1|apply (frame_caches_nodup k _ a1 Fr1 C)|].
  intros r' d Hr' Hd'. rewrite (frame_keys k _ a1 Fr1). apply (Hd r' d (or_intror Hr') Hd').
Qed.

Lemma qgood_caches_nodup o : qgood o -> caches_nodup (o_arena o).
Proof. intros G t Ht. apply sorted_NoDup, (q_sorted_a o G t Ht). Qed.

(* one annotation phase of a reload returns *)
Lemma phase_total k o rs : qgood o -> acyclic (o_arena o) -> (forall t, In t (ar_terms (o_arena o)) -> t_annots k t = []) ->
  (forall r d, In r rs -> In d (a_hpos r) -> In d (ar_keys (o_arena o))) ->
  exists o', foldM (load_record k) rs o = Ok o'.
Proof.
  intros G R E Hd. apply load_records_total; [|apply (qgood_caches_nodup o G)|exact Hd].
  apply (qgood_good k o G R). intros t Ht. rewrite (E t Ht). constructor.
Qed.

Lemma calculate_ic_total icf o : (forall t k, In t (ar_terms (o_arena o)) -> exists v, icf (Nlen (o_records k o)) (Nlen (t_annots k t)) = Ok v) ->
  exists o', b_calculate_ic icf o = Ok o'.
Proof.
  intros H. unfold b_calculate_ic. destruct (mapM_all_Ok (term_ic icf o) (ar_terms (o_arena o))) as [ts ->]; [|cbn [bind]; eexists; reflexivity].
  intros t Ht. unfold term_ic. destruct (H t KGene Ht) as [g Eg]. destruct (H t KOmim Ht) as [m Em]. destruct (H t KOrpha Ht) as [r Er].
  cbn [o_records t_annots] in Eg, Em, Er. rewrite Eg. cbn [bind]. rewrite Em. cbn [bind]. rewrite Er. cbn [bind]. eexists; reflexivity.
Qed.

(* ---------------- the whole reload ---------------- *)

Theorem rebuild_total icf order o :
  src_ok o -> acyclic (o_arena o) -> ann_ok o -> ic_ok icf o -> (forall k, NoDup (map a_id (o_records k o))) ->
  (forall k r d, In r (o_records k o) -> In d (a_hpos r) -> In d (ar_keys (o_arena o))) ->
  (forall l, Permutation (order l) l) ->
  In ROOT_ID (ar_keys (o_arena o)) -> In PHENOTYPE_ID (ar_keys (o_arena o)) ->
  exists o'', rebuild icf order o = Ok o''.
Proof.
  intros S R A Ic Nd Dk Hp Hroot Hph. pose proof (so_q o S) as G. pose proof (q_wf o G) as W.
  pose proof (perm_In order Hp) as Ho. unfold rebuild.
  destruct (rebuild_arena_total o S R) as [a3 Ha]. pose proof Ha as Ha0. unfold rebuild_arena in Ha0.
  apply bind_Ok' in Ha0 as [a1 [H1 Ha0]]. apply bind_Ok' in Ha0 as [a2 [H2 H3]].
  cbn [o_arena set_version onto_new]. rewrite H1. cbn [bind]. rewrite H2. cbn [bind]. rewrite H3. cbn [bind].
  pose proof (rebuild_arena_keeps_terms o a3 S Ha) as K3. pose proof (rebuild_arena_noannot _ a3 Ha) as N3.
  set (o3 := set_arena a3 (set_version (o_version o) onto_new)) in *.
  pose proof (term_kept_links o a3 K3) as SL3.
  assert (qgood o3) as G3 by (apply (qgood_same_links o o3 G); exact SL3).
  assert (acyclic (o_arena o3)) as R3 by (apply (ranked_links _ _ SL3 R)).
  assert (ar_keys (o_arena o3) = ar_keys (o_arena o)) as K30 by (apply (same_links_keys _ _ SL3)).
  assert (forall k r d, In r (map (raw_record k) (order (o_records k o))) -> In d (a_hpos r) -> In d (ar_keys (o_arena o))) as DkR.
  { intros k r d Hr Hd. apply in_map_iff in Hr as [r0 [<- Hr0]]. apply (proj1 (Ho _ r0)) in Hr0.
    destruct (raw_record_fields k r0) as [_ E2]. rewrite E2 in Hd. apply (Dk k r0 d Hr0 Hd). }
  (* genes *)
  destruct (phase_total KGene o3 (map (raw_record KGene) (order (o_genes o))) G3 R3 (fun t0 Ht0 => N3 t0 Ht0 KGene)) as [o4 H4].
  { intros r d Hr Hd. rewrite K30. apply (DkR KGene r d Hr Hd). }
  rewrite H4. cbn [bind].
  destruct (phase_spec KGene o3 _ o4 G3 R3 (fun t0 Ht0 => N3 t0 Ht0 KGene) H4) as [FrG SpG].
  pose proof (frame_same_struct _ _ _ FrG) as SSG.
  assert (qgood o4) as G4 by (apply (qgood_same_links o3 o4 G3), same_struct_links, SSG).
  assert (acyclic (o_arena o4)) as R4 by (apply (ranked_links _ _ (same_struct_links _ _ SSG) R3)).
  assert (forall t0, In t0 (ar_terms (o_arena o4)) -> t_annots KOmim t0 = [] /\ t_annots KOrpha t0 = []) as N4.
  { intros t0 H0. destruct (frame_In_r KGene _ _ t0 FrG H0) as [t3 [Ht3 ->]].
    rewrite !other_kind_annots by discriminate. split; apply (N3 t3 Ht3). }
  assert (ar_keys (o_arena o4) = ar_keys (o_arena o)) as K40 by (rewrite (BuilderAnnotP.same_struct_keys _ _ SSG); exact K30).
  (* omim *)
  destruct (phase_total KOmim o4 (map (raw_record KOmim) (order (o_omim o))) G4 R4 (fun t0 Ht0 => proj1 (N4 t0 Ht0))) as [o5 H5].
  { intros r d Hr Hd. rewrite K40. apply (DkR KOmim r d Hr Hd). }
  rewrite H5. cbn [bind].
  destruct (phase_spec KOmim o4 _ o5 G4 R4 (fun t0 Ht0 => proj1 (N4 t0 Ht0)) H5) as [FrM SpM].
  pose proof (frame_same_struct _ _ _ FrM) as SSM.
  assert (qgood o5) as G5 by (apply (qgood_same_links o4 o5 G4), same_struct_links, SSM).
  assert (acyclic (o_arena o5)) as R5 by (apply (ranked_links _ _ (same_struct_links _ _ SSM) R4)).
  assert (forall t0, In t0 (ar_terms (o_arena o5)) -> t_annots KOrpha t0 = []) as N5.
  { intros t0 H0. destruct (frame_In_r KOmim _ _ t0 FrM H0) as [t4 [Ht4 ->]].
    rewrite other_kind_annots by discriminate. apply (N4 t4 Ht4). }
  assert (ar_keys (o_arena o5) = ar_keys (o_arena o)) as K50 by (rewrite (BuilderAnnotP.same_struct_keys _ _ SSM); exact K40).
  (* orpha *)
  destruct (phase_total KOrpha o5 (map (raw_record KOrpha) (order (o_orpha o))) G5 R5 N5) as [o6 H6].
  { intros r d Hr Hd. rewrite K50. apply (DkR KOrpha r d Hr Hd). }
  rewrite H6. cbn [bind].
  destruct (phase_spec KOrpha o5 _ o6 G5 R5 N5 H6) as [FrR SpR].
  pose proof (frame_same_struct _ _ _ FrR) as SSR.
  assert (ar_keys (o_arena o6) = ar_keys (o_arena o)) as K60 by (rewrite (BuilderAnnotP.same_struct_keys _ _ SSR); exact K50).
  (* the record maps *)
  assert (forall k, NoDup (map a_id (map (raw_record k) (order (o_records k o))))) as NdR.
  { intros k. rewrite raw_ids. apply (Permutation_NoDup (Permutation_sym (Permutation_map a_id (Hp (o_records k o)))) (Nd k)). }
  destruct (load_records_list KGene _ o3 o4 (NdR KGene) (fun r _ Hin => Hin) H4) as (Rg4 & Ro4 & _).
  destruct (load_records_list KOmim _ o4 o5 (NdR KOmim)) as (Rm5 & Ro5 & _); [|exact H5|].
  { intros r _ Hin. rewrite (Ro4 KOmim ltac:(discriminate)) in Hin. destruct Hin. }
  destruct (load_records_list KOrpha _ o5 o6 (NdR KOrpha)) as (Rr6 & Ro6 & _); [|exact H6|].
  { intros r _ Hin. rewrite (Ro5 KOrpha ltac:(discriminate)), (Ro4 KOrpha ltac:(discriminate)) in Hin. destruct Hin. }
  assert (forall k, Nlen (o_records k o6) = Nlen (o_records k o)) as Len.
  { intros k. assert (o_records k o6 = map (raw_record k) (order (o_records k o))) as ->.
    { destruct k; [rewrite (Ro6 KGene ltac:(discriminate)), (Ro5 KGene ltac:(discriminate)), Rg4|rewrite (Ro6 KOmim ltac:(discriminate)), Rm5, (Ro4 KOmim ltac:(discriminate))|rewrite Rr6, (Ro5 KOrpha ltac:(discriminate)), (Ro4 KOrpha ltac:(discriminate))]; reflexivity. }
    unfold Nlen. rewrite map_length, (Permutation_length (Hp (o_records k o))). reflexivity. }
  (* the annotation sets of o6 are those of o *)
  assert (forall d, allp_of (o_arena o3) d = allp_of (o_arena o) d) as Al3 by (intros d; apply (allp_of_kept o a3 d K3)).
  assert (forall d, allp_of (o_arena o4) d = allp_of (o_arena o) d) as Al4 by (intros d; rewrite (allp_of_struct _ _ d SSG); apply Al3).
  assert (forall d, allp_of (o_arena o5) d = allp_of (o_arena o) d) as Al5 by (intros d; rewrite (allp_of_struct _ _ d SSM); apply Al4).
  assert (forall t6, In t6 (ar_terms (o_arena o6)) -> exists t, In t (ar_terms (o_arena o)) /\ forall k, t_annots k t6 = t_annots k t) as An6.
  { intros t6 Ht6. destruct (frame_In_r KOrpha _ _ t6 FrR Ht6) as [t5 [Ht5 E5]].
    destruct (frame_In_r KOmim _ _ t5 FrM Ht5) as [t4 [Ht4 E4]]. destruct (frame_In_r KGene _ _ t4 FrG Ht4) as [t3 [Ht3 E3]].
    cbn [o_arena set_arena o3] in Ht3. destruct (Forall2_In_r _ _ _ t3 K3 Ht3) as [t [Ht (Eid & _)]].
    assert (t_id t6 = t_id t5) as I65 by (rewrite E5; apply set_annots_struct).
    assert (t_id t5 = t_id t4) as I54 by (rewrite E4; apply set_annots_struct).
    assert (t_id t4 = t_id t3) as I43 by (rewrite E3; apply set_annots_struct).
    exists t. split; [exact Ht|]. intros k. destruct k.
    - assert (t_annots KGene t6 = t_annots KGene t4) as ->.
      { rewrite E5, other_kind_annots by discriminate. rewrite E4, other_kind_annots by discriminate. reflexivity. }
      destruct (SpG t4 Ht4) as [Ss Sx]. apply (annots_eq KGene o order (o_arena o3) t t4 A Ho Ht); [congruence|exact Al3|exact Ss|exact Sx].
    - assert (t_annots KOmim t6 = t_annots KOmim t5) as -> by (rewrite E5, other_kind_annots by discriminate; reflexivity).
      destruct (SpM t5 Ht5) as [Ss Sx]. apply (annots_eq KOmim o order (o_arena o4) t t5 A Ho Ht); [congruence|exact Al4|exact Ss|exact Sx].
    - destruct (SpR t6 Ht6) as [Ss Sx]. apply (annots_eq KOrpha o order (o_arena o5) t t6 A Ho Ht); [congruence|exact Al5|exact Ss|exact Sx]. }
  (* calculate_information_content *)
  destruct (calculate_ic_total icf o6) as [o7 H7].
  { intros t6 k Ht6. destruct (An6 t6 Ht6) as [t [Ht Ea]]. rewrite Len, Ea. eexists. apply (Ic t Ht k). }
  rewrite H7. cbn [bind].
  (* build_with_defaults: both roots are there *)
  assert (ar_keys (o_arena o7) = ar_keys (o_arena o)) as K70.
  { rewrite (BuilderAnnotP.same_struct_keys _ _ (calculate_ic_same_struct icf o6 o7 H7)). exact K60. }
  assert (qgood o7) as G7.
  { apply (qgood_same_links o6 o7); [apply (qgood_same_links o5 o6 G5), same_struct_links, SSR|apply same_struct_links, (calculate_ic_same_struct icf o6 o7 H7)]. }
  assert (forall id, In id (ar_keys (o_arena o)) -> exists t, o_get id (b_build_minimal o7) = Some t) as Hget.
  { intros id Hid. rewrite <- K70 in Hid. destruct (key_find _ id (q_wf o7 G7) Hid) as [t [Hf [Ht [Hidt _]]]]. exists t.
    unfold o_get, ar_get. cbn [o_arena b_build_minimal set_mod set_cat]. pose proof (wf_range _ (q_wf o7 G7) t Ht) as Hr. rewrite Hidt in Hr.
    destruct (N.leb_spec MAX_HPO_ID id); [lia|exact Hf]. }
  unfold b_build_with_defaults, set_default_categories, set_default_modifier.
  destruct (Hget ROOT_ID_CAT Hroot) as [r1 ->]. destruct (Hget PHENOTYPE_ID Hph) as [p1 ->]. cbn [bind].
  assert (exists r2, o_get ROOT_ID (set_cat (g_from_list (filter neqb_pheno (t_children r1) ++ t_children p1)) (b_build_minimal o7)) = Some r2) as [r2 ->].
  { destruct (Hget ROOT_ID Hroot) as [r2 E]. exists r2. exact E. }
  eexists. reflexivity.
Qed.

(* C07, LAST SENTENCE: the loader accepts what the writer emits *)
Theorem reload_accepted icf order o :
  file_ok order o -> src_ok o -> acyclic (o_arena o) -> ann_ok o -> ic_ok icf o -> (forall k, NoDup (map a_id (o_records k o))) ->
  (forall k r d, In r (o_records k o) -> In d (a_hpos r) -> In d (ar_keys (o_arena o))) ->
  (forall l, Permutation (order l) l) ->
  In ROOT_ID (ar_keys (o_arena o)) -> In PHENOTYPE_ID (ar_keys (o_arena o)) ->
  exists o'', decode icf (encode_with order o) = Ok o''.
Proof.
  intros F S R A Ic Nd Dk Hp Hroot Hph. rewrite (decode_encode_is_rebuild icf order o F).
  apply (rebuild_total icf order o S R A Ic Nd Dk Hp Hroot Hph).
Qed.

(* ---------------- annotate_* on a stored term always succeeds ---------------- *)

Theorem annotate_total k id name tid o : qgood o -> acyclic (o_arena o) ->
  (forall t, In t (ar_terms (o_arena o)) -> sorted (t_annots k t)) -> In tid (ar_keys (o_arena o)) ->
  exists o', b_annotate k id name tid o = Ok o'.
Proof.
  intros G R Hs Hk. unfold b_annotate.
  destruct (WalkP.resolve_key o tid G Hk) as [t Ht]. unfold resolve in Ht. destruct (o_get tid o) as [t0|]; [|discriminate].
  assert (exists r, an_find id (an_add name id (o_records k o)) = Some r) as [r ->].
  { unfold an_add. destruct (an_find id (o_records k o)) as [r|] eqn:E; [exists r; exact E|].
    exists (mkAnnot id name []). unfold an_find in *. rewrite (RecordsP.find_app_r a_id id (o_records k o) (mkAnnot id name []) E).
    cbn [a_id]. rewrite N.eqb_refl. reflexivity. }
  set (o1 := set_records k _ o). assert (o_arena o1 = o_arena o) as Ea by (destruct k; reflexivity). rewrite Ea.
  destruct (links_total k id [tid] (o_arena o) (qgood_good k o G R Hs) (qgood_caches_nodup o G)) as [a' [E _]]; [intros d [<-|[]]; exact Hk|].
  cbn [foldM] in E. destruct (link (link_fuel (o_arena o)) k (o_arena o) tid id) as [a1| | |]; cbn [bind] in E; try discriminate.
  cbn [bind]. eexists. reflexivity.
Qed.
