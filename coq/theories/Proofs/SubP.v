(* SubP.v — Ontology::sub_ontology (Model/SubOnt.v): the retained term set is exactly the leaves
   together with the terms on the path path_to_ancestor chose from each leaf to the root — a
   shortest chain of parent links (Proofs/DistP.v) — and the call is refused exactly when some
   leaf has no such path. *)
From Coq Require Import Lia.
From HpoV Require Import Gen.Consts Model.Base Model.Group Model.Onto Model.Query Model.SubOnt
  Proofs.GroupP Proofs.BaseP Proofs.ClosureP Proofs.DistP.

Definition leaf_step (o : onto) (root : term) (acc : group) (l : N) : res group :=
  do lt <- ar_get_unchecked l (o_arena o) ;;
  do p <- path_anc (q_fuel o) o lt root ;;
  match p with
  | None => Err NotImplemented
  | Some path => Ok (fold_left g_add path (g_add acc (t_id lt)))
  end.

Lemma sub_ids_unfold o root leaves : sub_ids o root leaves = foldM (leaf_step o root) leaves [].
Proof. reflexivity. Qed.

(* the retained ids: for every leaf, the leaf itself and the path chosen for it; nothing else *)
Theorem sub_ids_spec o root leaves : forall acc ids, foldM (leaf_step o root) leaves acc = Ok ids ->
  forall x, In x ids <->
    In x acc \/ exists l lt path, In l leaves /\ ar_get_unchecked l (o_arena o) = Ok lt /\
                                  path_anc (q_fuel o) o lt root = Ok (Some path) /\ (x = t_id lt \/ In x path).
Proof.
  induction leaves as [|l leaves IH]; intros acc ids H x; cbn [foldM] in H.
  - injection H as <-. split; [auto|]. intros [Hx|[l [_ [_ [[] _]]]]]. exact Hx.
  - unfold leaf_step at 1 in H.
    destruct (ar_get_unchecked l (o_arena o)) as [lt| | |] eqn:Eg; cbn [bind] in H; try discriminate.
    destruct (path_anc (q_fuel o) o lt root) as [[path|]| | |] eqn:Ep; cbn [bind] in H; try discriminate.
    rewrite (IH _ ids H x), fold_g_add_In, g_add_In. split.
    + intros [[[->|Hx]|Hx]|[l' [lt' [path' [Hin Hrest]]]]].
      * right. exists l, lt, path. split; [left; reflexivity|]. auto.
      * left; exact Hx.
      * right. exists l, lt, path. split; [left; reflexivity|]. auto.
      * right. exists l', lt', path'. split; [right; exact Hin|exact Hrest].
    + intros [Hx|[l' [lt' [path' [[<-|Hin] [Hg [Hp Hx]]]]]]].
      * left; left; right; exact Hx.
      * rewrite Eg in Hg. injection Hg as <-. rewrite Ep in Hp. injection Hp as <-.
        destruct Hx as [->|Hx]; [left; left; left; reflexivity|left; right; exact Hx].
      * right. exists l', lt', path'. auto.
Qed.

Lemma mapM_no_err {A B} (f : A -> res B) l : (forall x e, f x <> Err e) -> forall e, mapM f l <> Err e.
Proof.
  intros Hf. induction l as [|x l IH]; intros e; cbn [mapM]; [discriminate|].
  destruct (f x) as [y|e'| |] eqn:E; cbn [bind]; try discriminate; [|exfalso; exact (Hf x e' E)].
  destruct (mapM f l) as [ys|e'| |] eqn:E2; cbn [bind]; try discriminate. exfalso. exact (IH e' eq_refl).
Qed.

(* path_to_ancestor has no error value of its own (an unresolved id is a panic) *)
Lemma path_anc_no_err o fuel : forall a b e, path_anc fuel o a b <> Err e.
Proof.
  induction fuel as [|f IH]; intros a b e; cbn [path_anc]; [discriminate|].
  destruct (t_id a =? t_id b); [discriminate|]. destruct (g_contains (t_id b) (t_parents a)); [discriminate|].
  destruct (negb (g_contains (t_id b) (t_allp a))); [discriminate|].
  destruct (mapM _ (t_parents a)) as [ps|e'| |] eqn:E; cbn [bind]; try discriminate.
  exfalso. revert E. apply mapM_no_err. intros p e0. unfold resolve.
  destruct (o_get p o) as [tp|]; cbn [opt_panic bind]; [|discriminate].
  destruct (path_anc f o tp b) as [r|e1| |] eqn:E1; cbn [bind]; try discriminate. exfalso. exact (IH tp b e1 E1).
Qed.

(* refusal: a leaf that is neither the root nor below it (no path) makes the call fail with
   NotImplemented, whatever comes after it *)
Theorem sub_ids_refuses o root : forall leaves acc e, foldM (leaf_step o root) leaves acc = Err e ->
  e = NotImplemented /\ exists l lt, In l leaves /\ ar_get_unchecked l (o_arena o) = Ok lt /\
                                     path_anc (q_fuel o) o lt root = Ok None.
Proof.
  induction leaves as [|l leaves IH]; intros acc e H; cbn [foldM] in H; [discriminate|].
  unfold leaf_step at 1 in H.
  destruct (ar_get_unchecked l (o_arena o)) as [lt|e'| |] eqn:Eg; cbn [bind] in H; try discriminate.
  2:{ exfalso. unfold ar_get_unchecked in Eg. destruct (MAX_HPO_ID <=? l); [discriminate|]. destruct (ar_find l (o_arena o)); discriminate. }
  destruct (path_anc (q_fuel o) o lt root) as [[path|]|e'| |] eqn:Ep; cbn [bind] in H; try discriminate.
  - destruct (IH _ e H) as [He [l' [lt' [Hin Hrest]]]]. split; [exact He|]. exists l', lt'. split; [right; exact Hin|exact Hrest].
  - injection H as <-. split; [reflexivity|]. exists l, lt. split; [left; reflexivity|auto].
  - exfalso. exact (path_anc_no_err o _ _ _ _ Ep).
Qed.

(* every retained term lies on a SHORTEST chain of parent links from some leaf to the root *)
Theorem retained_on_shortest_chain o (G : qgood o) root leaves ids x :
  (forall l, In l leaves -> In l (ar_keys (o_arena o))) ->
  sub_ids o root leaves = Ok ids -> In x ids ->
  exists l path, In l leaves /\
    links o l path /\ last path l = t_id root /\ (x = l \/ In x path) /\
    forall n, chain (o_arena o) l n (t_id root) -> (length path <= n)%nat.
Proof.
  intros Hleaves H Hx. rewrite sub_ids_unfold in H.
  apply (sub_ids_spec o root leaves [] ids H x) in Hx as [[]|[l [lt [path [Hl [Hg [Hp Hxp]]]]]]].
  destruct (get_unchecked_key (o_arena o) l (q_wf o G) (Hleaves l Hl)) as [lt' [Hg' [Hlt Hid]]].
  rewrite Hg in Hg'. injection Hg' as <-.
  destruct (path_anc_sound o G (q_fuel o) lt root path Hlt Hp) as [Hlinks Hlast].
  exists l, path. rewrite <- Hid. split; [rewrite Hid; exact Hl|]. split; [exact Hlinks|]. split; [exact Hlast|].
  split; [exact Hxp|].
  intros n Hc. destruct (path_anc_minimal o G (q_fuel o) lt root (Some path) Hlt Hp n Hc) as [p' [Ep Hle]].
  injection Ep as <-. exact Hle.
Qed.
