(* RecSortedP.v — the direct-term set of every record is an ascending group, on every construction
   path (Builder scripts, JAX loads, sub-ontologies, accepted binary files); with it, the round-trip
   clause of C18 (comparing an ontology with its binary round trip reports nothing) follows for
   every Builder-built and every JAX-loaded ontology whose names fit the format. *)
From Coq Require Import Lia Permutation.
From HpoV Require Import Gen.Consts Model.Base Model.Group Model.Onto Model.Query Model.Compare Model.Binary Model.Script
  Model.TermId Model.Text Model.SubOnt Run.C18
  Proofs.GroupP Proofs.BaseP Proofs.SetsP Proofs.C18P Proofs.ClosureP Proofs.AcyclicP Proofs.DistP Proofs.QgoodP Proofs.LinkP
  Proofs.RecordsP Proofs.C03W Proofs.CodecP Proofs.SectionP Proofs.RoundTripP Proofs.AnnotP Proofs.BuilderAnnotP Proofs.BuilderICP
  Proofs.ReloadP Proofs.RoundTripAllP Proofs.SubLinksP Proofs.SubAnnotP Proofs.C09P Proofs.JaxP Proofs.RoundTripSrcP
  Proofs.DecodeAnyP Proofs.C18E.

Definition RS (o : onto) : Prop := forall k r, In r (o_records k o) -> sorted (a_hpos r).

Lemma update_by_In_gen {A} (key : A -> N) id (f : A -> A) l y : In y (update_by key id f l) -> In y l \/ exists x, In x l /\ y = f x.
Proof.
  induction l as [|x l IH]; cbn [update_by]; [intros []|]. destruct (key x =? id).
  - intros [<-|H]; [right; exists x; split; [left; reflexivity|reflexivity]|left; right; exact H].
  - intros [<-|H]; [left; left; reflexivity|]. destruct (IH H) as [H0|[z [Hz E]]]; [left; right; exact H0|right; exists z; split; [right; exact Hz|exact E]].
Qed.

Lemma RS_norecords o : norecords o -> RS o.
Proof. intros R k r Hr. rewrite (R k) in Hr. destruct Hr. Qed.

Lemma RS_same o o' : (forall k, o_records k o' = o_records k o) -> RS o -> RS o'.
Proof. intros E R k r Hr. rewrite E in Hr. apply (R k r Hr). Qed.

Lemma RS_add_record k name id o : RS o -> RS (b_add_record k name id o).
Proof.
  intros R k' r Hr. unfold b_add_record in Hr. destruct (kind_eq_dec k' k) as [->|Hne].
  - assert (o_records k (set_records k (an_add name id (o_records k o)) o) = an_add name id (o_records k o)) as E by (destruct k; reflexivity).
    rewrite E in Hr. unfold an_add in Hr. destruct (an_find id (o_records k o)); [apply (R k r Hr)|].
    apply in_app_or in Hr as [Hr|[<-|[]]]; [apply (R k r Hr)|constructor].
  - assert (o_records k' (set_records k (an_add name id (o_records k o)) o) = o_records k' o) as E by (destruct k, k'; try reflexivity; congruence).
    rewrite E in Hr. apply (R k' r Hr).
Qed.

Lemma RS_annotate k id name tid o o' : RS o -> b_annotate k id name tid o = Ok o' -> RS o'.
Proof.
  intros R H. unfold b_annotate in H. destruct (o_get tid o); [|discriminate].
  destruct (an_find id (an_add name id (o_records k o))); [|discriminate].
  destruct (link _ k _ tid id) as [aL| | |]; cbn [bind] in H; try discriminate. injection H as <-.
  intros k' r Hr. destruct (kind_eq_dec k' k) as [->|Hne].
  - assert (o_records k (set_arena aL (set_records k (an_add_term id tid (an_add name id (o_records k o))) o))
            = an_add_term id tid (an_add name id (o_records k o))) as E by (destruct k; reflexivity).
    rewrite E in Hr. unfold an_add_term in Hr.
    assert (forall x, In x (an_add name id (o_records k o)) -> sorted (a_hpos x)) as Ra.
    { intros x Hx. unfold an_add in Hx. destruct (an_find id (o_records k o)); [apply (R k x Hx)|].
      apply in_app_or in Hx as [Hx|[<-|[]]]; [apply (R k x Hx)|constructor]. }
    apply update_by_In_gen in Hr as [Hr|[x [Hx ->]]]; [apply (Ra r Hr)|]. cbn [a_hpos]. apply g_add_sorted, (Ra x Hx).
  - assert (o_records k' (set_arena aL (set_records k (an_add_term id tid (an_add name id (o_records k o))) o)) = o_records k' o) as E
      by (destruct k, k'; try reflexivity; congruence).
    rewrite E in Hr. apply (R k' r Hr).
Qed.

Lemma RS_finish_defaults icf o o5 o' : RS o -> b_calculate_ic icf o = Ok o5 -> b_build_with_defaults o5 = Ok o' -> RS o'.
Proof.
  intros R H5 H6. apply (RS_same o o'); [|exact R]. intros k. rewrite (build_with_defaults_records o5 o' H6). apply (calculate_ic_records icf o o5 H5).
Qed.

Theorem run_script_records_sorted icf s codes o : run_script icf s = Ok (codes, Ok o) -> RS o.
Proof.
  destruct s as [[[[ver terms] parents] annots] kindb] eqn:Es. unfold run_script. intros H.
  apply bind_Ok' in H as [[ob cs] [Hb H]].
  destruct (run_builder_stages _ ob cs Hb) as (o2 & o3 & an & c4 & _ & _ & _ & _ & R2 & Hc & Hr).
  assert (RS o3) as R3.
  { apply RS_norecords. unfold b_connect_all_terms in Hc. destruct (connect_all _ _) as [a3| | |]; cbn [bind] in Hc; try discriminate.
    injection Hc as <-. intros k. rewrite <- (R2 k). destruct k; reflexivity. }
  assert (RS ob) as Rb.
  { unfold run_ops in Hr. refine (foldM_inv _ (fun st : onto * list N => RS (fst st)) _ _ (o3, []) (ob, c4) R3 Hr).
    intros [s0 cs0] [[[tag id] tid] name] [s' cs'] _ Hstep Rs0. cbn [fst snd] in *. unfold run_annot_op in Hstep.
    destruct (tag <? 3).
    - cbn [bind] in Hstep. injection Hstep as <- _. apply RS_add_record, Rs0.
    - destruct (b_annotate (kind_of tag) id name tid s0) as [s2|e| |] eqn:Ea; cbn [step_keep bind] in Hstep; try discriminate; injection Hstep as <- _;
        [apply (RS_annotate _ _ _ _ s0 s2 Rs0 Ea)|exact Rs0]. }
  unfold finish in H. destruct (b_calculate_ic icf ob) as [o5| | |] eqn:E5; cbn [bind] in H; try discriminate.
  destruct (kindb =? 0).
  - injection H as _ <-. apply (RS_same ob); [|exact Rb]. intros k. rewrite <- (calculate_ic_records icf ob o5 E5 k). destruct k; reflexivity.
  - destruct (b_build_with_defaults o5) as [o6| | |] eqn:E6; try discriminate. injection H as _ <-. apply (RS_finish_defaults icf ob o5 o6 Rb E5 E6).
Qed.

Theorem load_jax_records_sorted icf tr obo genes hpoa o : load_jax icf tr obo genes hpoa = Ok o -> RS o.
Proof.
  intros H. unfold load_jax in H.
  apply bind_Ok' in H as [o1 [H1 H]]. apply bind_Ok' in H as [o2 [H2 H]]. apply bind_Ok' in H as [o3 [H3 H]].
  apply bind_Ok' in H as [o4 [H4 H]]. apply bind_Ok' in H as [o5 [H5 H6]].
  assert (RS o2) as R2.
  { apply RS_norecords. rewrite read_obo_unfold in H1. apply bind_Ok' in H1 as [[ob conns] [Hs H1]].
    apply bind_Ok' in H1 as [a [Ha H1]]. injection H1 as <-. destruct (obo_scan_ok obo (ob, conns) Hs) as [_ _ _ _ R _]. cbn [fst] in R.
    unfold b_connect_all_terms in H2. destruct (connect_all _ _) as [a3| | |]; cbn [bind] in H2; try discriminate. injection H2 as <-.
    intros k. rewrite <- (R k). destruct k; reflexivity. }
  assert (RS o3) as R3.
  { unfold parse_gene_file in H3. destruct (split_first_line genes) as [hdr rest]. destruct (negb _); [discriminate|].
    refine (foldM_inv _ RS _ _ o2 o3 R2 H3). intros s line s' _ Hs Rs0.
    destruct (if tr then phenotype_to_gene_line line else genes_to_phenotype_line line) as [[[gid sym] hpo]| | |]; cbn [bind] in Hs; try discriminate.
    apply (RS_annotate KGene gid sym hpo s s' Rs0 Hs). }
  assert (RS o4) as R4.
  { unfold parse_hpoa in H4. refine (foldM_inv _ RS _ _ o3 o4 R3 H4). intros s line s' _ Hs Rs0.
    destruct (if starts_with s_OMIM line then Some KOmim else if starts_with s_ORPHA line then Some KOrpha else None) as [k|];
      [|injection Hs as <-; exact Rs0].
    destruct (disease_components line) as [[[[did name] h]|]| | |]; cbn [bind] in Hs; try discriminate; [|injection Hs as <-; exact Rs0].
    destruct (parse_uint U32_MAX did) as [d|]; [|discriminate]. apply (RS_annotate k d name h s s' Rs0 Hs). }
  apply (RS_finish_defaults icf o4 o5 o R4 H5 H6).
Qed.

(* C18, LAST CLAUSE, for every Builder-built ontology whose names fit the format *)
Theorem builder_roundtrip_compares_equal icf s codes o order o'' : run_script icf s = Ok (codes, Ok o) ->
  file_ok order o -> (forall l, Permutation (order l) l) ->
  (forall t, In t (ar_terms (o_arena o)) -> Nlen (t_name t) <= TERM_NAME_LIMIT) ->
  (forall r, In r (o_genes o) -> Nlen (a_name r) <= GENE_NAME_LIMIT) ->
  decode icf (encode_with order o) = Ok o'' -> compare o o'' = Ok empty_cmp.
Proof.
  intros Hs F Hp Ht Hg Hd.
  apply (roundtrip_compares_equal icf order o o'' (run_script_src_ok icf s codes o Hs)
           (proj1 (run_script_ann_ok icf s codes o Hs)) (proj2 (run_script_ann_ok icf s codes o Hs))
           (fun t H0 k => run_script_ic icf s codes o Hs t H0 k) (run_script_records_nodup icf s codes o Hs) F Hp Ht Hg
           (run_script_records_sorted icf s codes o Hs) Hd).
Qed.

(* ... and for every JAX-loaded one *)
Theorem jax_roundtrip_compares_equal icf tr obo genes hpoa o order o'' : obo_closed obo -> load_jax icf tr obo genes hpoa = Ok o ->
  file_ok order o -> (forall l, Permutation (order l) l) ->
  (forall t, In t (ar_terms (o_arena o)) -> Nlen (t_name t) <= TERM_NAME_LIMIT) ->
  (forall r, In r (o_genes o) -> Nlen (a_name r) <= GENE_NAME_LIMIT) ->
  decode icf (encode_with order o) = Ok o'' -> compare o o'' = Ok empty_cmp.
Proof.
  intros Cl H F Hp Ht Hg Hd. destruct (load_jax_ok icf tr obo genes hpoa o Cl H) as (_ & Ac & A & Ic).
  destruct (load_jax_src icf tr obo genes hpoa o Cl H) as (S & Nd & _).
  apply (roundtrip_compares_equal icf order o o'' S Ac A Ic Nd F Hp Ht Hg (load_jax_records_sorted icf tr obo genes hpoa o H) Hd).
Qed.
