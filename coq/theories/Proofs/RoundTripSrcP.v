(* RoundTripSrcP.v — C07 for the other two kinds of source: ontologies loaded from the JAX text
   files and ontologies produced by sub_ontology.  The round-trip theorem is first stated for ANY
   source that satisfies the structural statements (src_ok, acyclic, ann_ok, ic_ok, distinct record
   ids); the three construction paths are then shown to produce such sources. *)
From Coq Require Import Lia Relations Sorted Permutation.
From HpoV Require Import Gen.Consts Model.Base Model.Group Model.Onto Model.Query Model.Dump Model.Script Model.Binary
  Model.TermId Model.Text Model.SubOnt
  Proofs.GroupP Proofs.BaseP Proofs.ClosureP Proofs.AcyclicP Proofs.DistP Proofs.QgoodP Proofs.LinkP Proofs.C03W
  Proofs.SectionP Proofs.RoundTripP Proofs.AnnotP Proofs.BuilderAnnotP Proofs.BuilderICP Proofs.ReloadP
  Proofs.RoundTripAllP Proofs.SubLinksP Proofs.SubAnnotP Proofs.C09P Proofs.JaxP.

(* THE ROUND TRIP OF ANY WELL-FORMED SOURCE *)
Theorem roundtrip_complete icf order o o'' :
  src_ok o -> acyclic (o_arena o) -> ann_ok o -> ic_ok icf o -> (forall k, NoDup (map a_id (o_records k o))) ->
  file_ok order o -> (forall l, Permutation (order l) l) ->
  decode icf (encode_with order o) = Ok o'' ->
  Forall2 term_kept (ar_terms (o_arena o)) (ar_terms (o_arena o'')) /\
  Forall2 (fun t t'' => forall k, t_annots k t'' = t_annots k t) (ar_terms (o_arena o)) (ar_terms (o_arena o'')) /\
  Forall2 (fun t t'' => t_ic t'' = t_ic t) (ar_terms (o_arena o)) (ar_terms (o_arena o'')) /\
  (forall k, o_records k o'' = map (raw_record k) (order (o_records k o))) /\ o_version o'' = o_version o /\
  (b_build_with_defaults o = Ok o -> o_cat o'' = o_cat o /\ o_mod o'' = o_mod o).
Proof.
  intros S Ac A Ic Nd F Hp Hd. rewrite (decode_encode_is_rebuild icf order o F) in Hd.
  split; [apply (rebuild_keeps_terms icf order o o'' S Hd)|].
  split; [apply (rebuild_keeps_annotations icf order o o'' S Ac A (perm_In order Hp) Hd)|].
  split; [apply (rebuild_keeps_ic icf order o o'' S Ac A Ic Hp Nd Hd)|].
  destruct (rebuild_records icf order o o'' Hp Nd Hd) as [R V]. split; [exact R|]. split; [exact V|].
  intros Fix. apply (rebuild_keeps_defaults icf order o o'' S Fix Hd).
Qed.

(* ---------------- src_ok along the annotation phases ---------------- *)

Lemma connect_src_ok o2 o3 : binv (o_arena o2) -> SP (o_arena o2) -> SC (o_arena o2) ->
  b_connect_all_terms o2 = Ok o3 -> src_ok o3.
Proof.
  intros B2 P2 S2 H3. pose proof (connect_gives_qgood o2 o3 B2 P2 H3) as G3.
  unfold b_connect_all_terms in H3. destruct (connect_all _ (o_arena o2)) as [a3| | |] eqn:Ec; cbn [bind] in H3; try discriminate.
  injection H3 as <-. destruct (connect_all_exact _ _ _ (b_wf _ B2) (b_empty _ B2) Ec) as [Sm _].
  constructor; [exact G3| |]; cbn [o_arena set_arena].
  - intros c p. rewrite <- (same_parent_rel _ _ c p Sm), <- (same_child_rel _ _ p c Sm). apply (b_inverse _ B2).
  - intros t Ht. apply (SC_same _ _ Sm S2 t Ht).
Qed.

Lemma annotate_src_ok k id name tid o o' : src_ok o -> b_annotate k id name tid o = Ok o' -> src_ok o'.
Proof. intros S H. apply (src_ok_same_struct o o' S (annotate_same_struct _ _ _ _ _ _ H)). Qed.

Lemma calculate_ic_records icf o o' : b_calculate_ic icf o = Ok o' -> forall k, o_records k o' = o_records k o.
Proof. intros H. destruct (calculate_ic_spec icf o o' H) as (R & _). exact R. Qed.

(* ---------------- the JAX loaders ---------------- *)

Lemma obo_links_SC conns : forall a a', SC a ->
  foldM (fun a (cp : N * N) => b_add_parent_unchecked (snd cp) (fst cp) a) conns a = Ok a' -> SC a'.
Proof.
  intros a a' C H. refine (foldM_inv _ SC _ _ a a' C H). intros s cp s' _ Hs Cs. apply (SC_unchecked _ _ s s' Cs Hs).
Qed.

Theorem load_jax_src icf tr obo genes hpoa o : obo_closed obo -> load_jax icf tr obo genes hpoa = Ok o ->
  src_ok o /\ (forall k, NoDup (map a_id (o_records k o))) /\ b_build_with_defaults o = Ok o.
Proof.
  intros Cl H. unfold load_jax in H.
  apply bind_Ok' in H as [o1 [H1 H]]. apply bind_Ok' in H as [o2 [H2 H]]. apply bind_Ok' in H as [o3 [H3 H]].
  apply bind_Ok' in H as [o4 [H4 H]]. apply bind_Ok' in H as [o5 [H5 H6]].
  pose proof (read_obo_BI obo o1 o2 Cl H1 H2) as B2.
  pose proof (parse_gene_file_BI tr genes o2 o3 B2 H3) as B3.
  pose proof (parse_hpoa_BI hpoa o3 o4 B3 H4) as B4.
  assert (src_ok o2) as S2.
  { rewrite read_obo_unfold in H1. apply bind_Ok' in H1 as [[ob conns] [Hs H1]].
    apply bind_Ok' in H1 as [a [Ha H1]]. injection H1 as <-.
    destruct (obo_scan_ok obo (ob, conns) Hs) as [B P C Na R K]. cbn [fst snd] in *.
    destruct (obo_links conns (o_arena ob) a B P Na) as (B' & P' & N' & K'); [|exact Ha|].
    { pose proof (Cl ob conns Hs) as Cp. clear -K Cp. induction conns as [|cp conns IH]; [constructor|].
      inversion K; inversion Cp; subst. constructor; auto. }
    apply (connect_src_ok (set_arena a ob) o2); cbn [o_arena set_arena]; [exact B'|exact P'|apply (obo_links_SC conns _ a C Ha)|exact H2]. }
  assert (src_ok o3) as S3.
  { unfold parse_gene_file in H3. destruct (split_first_line genes) as [hdr rest]. destruct (negb _); [discriminate|].
    refine (foldM_inv _ src_ok _ _ o2 o3 S2 H3). intros s line s' _ Hs Ss.
    destruct (if tr then phenotype_to_gene_line line else genes_to_phenotype_line line) as [[[gid sym] hpo]| | |]; cbn [bind] in Hs; try discriminate.
    apply (annotate_src_ok KGene gid sym hpo s s' Ss Hs). }
  assert (src_ok o4) as S4.
  { unfold parse_hpoa in H4. refine (foldM_inv _ src_ok _ _ o3 o4 S3 H4). intros s line s' _ Hs Ss.
    destruct (if starts_with s_OMIM line then Some KOmim else if starts_with s_ORPHA line then Some KOrpha else None) as [k|];
      [|injection Hs as <-; exact Ss].
    destruct (disease_components line) as [[[[did name] h]|]| | |]; cbn [bind] in Hs; try discriminate; [|injection Hs as <-; exact Ss].
    destruct (parse_uint U32_MAX did) as [d|]; [|discriminate]. apply (annotate_src_ok k d name h s s' Ss Hs). }
  pose proof (src_ok_same_struct o4 o5 S4 (calculate_ic_same_struct icf o4 o5 H5)) as S5.
  split; [apply (src_ok_arena o5 o S5), (build_with_defaults_arena o5 o H6)|].
  split; [|apply (build_with_defaults_fix o5 o H6)].
  intros k. rewrite (build_with_defaults_records o5 o H6), (calculate_ic_records icf o4 o5 H5). apply (bi_nodup o4 B4).
Qed.

(* C07 FOR EVERY JAX-LOADED SOURCE *)
Theorem jax_roundtrip_complete icf tr obo genes hpoa o order o'' :
  obo_closed obo -> load_jax icf tr obo genes hpoa = Ok o ->
  file_ok order o -> (forall l, Permutation (order l) l) ->
  decode icf (encode_with order o) = Ok o'' ->
  Forall2 term_kept (ar_terms (o_arena o)) (ar_terms (o_arena o'')) /\
  Forall2 (fun t t'' => forall k, t_annots k t'' = t_annots k t) (ar_terms (o_arena o)) (ar_terms (o_arena o'')) /\
  Forall2 (fun t t'' => t_ic t'' = t_ic t) (ar_terms (o_arena o)) (ar_terms (o_arena o'')) /\
  (forall k, o_records k o'' = map (raw_record k) (order (o_records k o))) /\ o_version o'' = o_version o /\
  o_cat o'' = o_cat o /\ o_mod o'' = o_mod o.
Proof.
  intros Cl H F Hp Hd. destruct (load_jax_ok icf tr obo genes hpoa o Cl H) as (_ & Ac & A & Ic).
  destruct (load_jax_src icf tr obo genes hpoa o Cl H) as (S & Nd & Fix).
  destruct (roundtrip_complete icf order o o'' S Ac A Ic Nd F Hp Hd) as (R1 & R2 & R3 & R4 & R5 & R6).
  repeat (split; [assumption|]). apply (R6 Fix).
Qed.

(* ---------------- sub_ontology ---------------- *)

Lemma sub_annotate_src_ok k o ids pheno b b' : src_ok b -> sub_annotate k o ids pheno b = Ok b' -> src_ok b'.
Proof.
  intros S H. rewrite sub_annotate_unfold in H. refine (foldM_inv _ src_ok _ _ b b' S H). intros s r s' _ Hs Ss.
  destruct (g_is_empty _); [injection Hs as <-; exact Ss|].
  refine (foldM_inv _ src_ok _ _ s s' Ss Hs). intros s2 t s3 _ H3 S2. apply (annotate_src_ok _ _ _ _ s2 s3 S2 H3).
Qed.

Theorem sub_ontology_src icf o root leaves o' : qgood o ->
  (forall l, In l leaves -> In l (ar_keys (o_arena o))) -> sub_ontology icf o root leaves = Ok o' ->
  src_ok o' /\ ic_ok icf o' /\ forall k, NoDup (map a_id (o_records k o')).
Proof.
  intros G Hl H.
  destruct (sub_ontology_stages icf o root leaves o' G Hl H) as (ids & terms & b2 & b3 & b4 & b5 & b6 & Eids & Ft & Bi2 & S2 & K2 & R2 & Hst).
  cbv zeta in Hst. set (pheno := g_from_list _) in *. destruct Hst as (E3 & E4 & E5 & E6 & ->).
  pose proof (sub_annotate_src_ok _ _ _ _ _ _ S2 E3) as S3. pose proof (sub_annotate_src_ok _ _ _ _ _ _ S3 E4) as S4.
  pose proof (sub_annotate_src_ok _ _ _ _ _ _ S4 E5) as S5.
  rewrite sub_annotate_unfold in E3, E4, E5.
  destruct (sub_annotate_spec KGene ids pheno _ b2 b3 Bi2 E3) as [Bi3 _].
  destruct (sub_annotate_spec KOmim ids pheno _ b3 b4 Bi3 E4) as [Bi4 _].
  destruct (sub_annotate_spec KOrpha ids pheno _ b4 b5 Bi4 E5) as [Bi5 _].
  pose proof (src_ok_same_struct b5 b6 S5 (calculate_ic_same_struct icf b5 b6 E6)) as S6.
  assert (forall k, o_records k (b_build_minimal b6) = o_records k b5) as R6
    by (intros k; rewrite <- (calculate_ic_records icf b5 b6 E6 k); destruct k; reflexivity).
  split; [apply (src_ok_arena b6 _ S6), build_minimal_arena|]. split.
  - destruct (calculate_ic_spec icf b5 b6 E6) as (_ & _ & _ & _ & _ & F).
    intros t' Ht' k. rewrite build_minimal_arena in Ht'. destruct (Forall2_In_r _ _ _ t' F Ht') as [t [Ht [Et Hic]]].
    rewrite R6. rewrite Et at 1. rewrite annots_set_ic. apply Hic.
  - intros k. rewrite R6. apply (bi_nodup b5 Bi5).
Qed.

(* C07 FOR EVERY SUB-ONTOLOGY of an ontology with exact caches (build_minimal: no defaults to keep) *)
Theorem sub_roundtrip_complete icf o root leaves o' order o'' : qgood o ->
  (forall l, In l leaves -> In l (ar_keys (o_arena o))) -> sub_ontology icf o root leaves = Ok o' ->
  file_ok order o' -> (forall l, Permutation (order l) l) ->
  decode icf (encode_with order o') = Ok o'' ->
  Forall2 term_kept (ar_terms (o_arena o')) (ar_terms (o_arena o'')) /\
  Forall2 (fun t t'' => forall k, t_annots k t'' = t_annots k t) (ar_terms (o_arena o')) (ar_terms (o_arena o'')) /\
  Forall2 (fun t t'' => t_ic t'' = t_ic t) (ar_terms (o_arena o')) (ar_terms (o_arena o'')) /\
  (forall k, o_records k o'' = map (raw_record k) (order (o_records k o'))) /\ o_version o'' = o_version o'.
Proof.
  intros G Hl H F Hp Hd.
  destruct (sub_ontology_annotations icf o root leaves o' G Hl H) as (ids & terms & _ & _ & Hst). cbv zeta in Hst. destruct Hst as (Ac & A & _).
  destruct (sub_ontology_src icf o root leaves o' G Hl H) as (S & Ic & Nd).
  destruct (roundtrip_complete icf order o' o'' S Ac A Ic Nd F Hp Hd) as (R1 & R2 & R3 & R4 & R5 & _). auto.
Qed.
