(* C13T.v — TOTALITY of the HpoSet operations (Model/HSet.v): on a set whose members are terms of the
   ontology every operation returns (none of the expect("HpoTermId must be in Ontology") panics). *)
From Coq Require Import Lia.
From HpoV Require Import Gen.Consts Model.Base Model.Group Model.Onto Model.Query Model.HSet
  Proofs.BaseP Proofs.ClosureP Proofs.C18P.

Section T.
  Variable o : onto.
  Hypothesis W : wf_ar (o_arena o).
  Variable s : group.
  Hypothesis Hs : forall x, In x s -> In x (ar_keys (o_arena o)).

  Lemma hs_term_total x : In x s -> exists t, hs_term o x = Ok t.
  Proof.
    intros Hx. destruct (key_find _ x W (Hs x Hx)) as [t [Hf [Ht [Hid _]]]]. exists t.
    unfold hs_term, o_get, ar_get. pose proof (wf_range _ W t Ht) as Hr. rewrite Hid in Hr.
    destruct (N.leb_spec MAX_HPO_ID x); [lia|]. rewrite Hf. reflexivity.
  Qed.

  Lemma hs_terms_total : exists ts, mapM (hs_term o) s = Ok ts.
  Proof. apply mapM_all_Ok. intros x Hx. apply hs_term_total, Hx. Qed.

  Lemma resolve_all_total : exists ts, resolve_all o s = Ok ts.
  Proof. unfold resolve_all. apply mapM_all_Ok. intros x Hx. destruct (hs_term_total x Hx) as [t Ht]. exists t. exact Ht. Qed.

  Theorem hs_operations_return :
    (exists r, hs_child_nodes o s = Ok r) /\ (exists r, hs_without_modifier o s = Ok r) /\
    (exists r, hs_without_obsolete o s = Ok r) /\ (exists r, hs_with_replaced o s = Ok r) /\
    (forall k, exists r, hs_annot_ids k o s = Ok r) /\ (exists r, hs_categories o s = Ok r).
  Proof.
    destruct hs_terms_total as [ts Ets]. destruct resolve_all_total as [rs Ers].
    split; [|split; [|split; [|split; [|split]]]].
    - unfold hs_child_nodes.
      match goal with |- context [mapM ?Fk s] => destruct (mapM_all_Ok Fk s) as [keep ->]; [|cbn [bind]; eexists; reflexivity] end.
      intros t1 _.
      match goal with |- context [mapM ?Ff s] => destruct (mapM_all_Ok Ff s) as [flags ->]; [|cbn [bind]; eexists; reflexivity] end.
      intros t2 H2. destruct (hs_term_total t2 H2) as [t ->]. cbn [bind]. eexists. reflexivity.
    - unfold hs_without_modifier. rewrite Ers. cbn [bind]. eexists. reflexivity.
    - unfold hs_without_obsolete. rewrite Ets. cbn [bind]. eexists. reflexivity.
    - unfold hs_with_replaced. rewrite Ets. cbn [bind]. eexists. reflexivity.
    - intros k. unfold hs_annot_ids. rewrite Ets. cbn [bind]. eexists. reflexivity.
    - unfold hs_categories. rewrite Ers. cbn [bind]. eexists. reflexivity.
  Qed.
End T.
