(* RoundTripP.v — what a reload keeps: the term structure.  By SectionP.decode_encode_is_rebuild,
   from_bytes (as_bytes o) is [rebuild] on o's raw facts; here: for every ontology o with exact
   caches and children = parents^-1 (every Builder-built one), a successful rebuild returns terms
   that agree with o's, position by position, in id, name (cut at the format's limit), obsolete
   flag, replacement, direct parents, children and the whole ancestor cache. *)
From Coq Require Import Lia Relations Sorted.
From HpoV Require Import Gen.Consts Model.Base Model.Group Model.Onto Model.Query Model.Binary
  Proofs.GroupP Proofs.BaseP Proofs.ClosureP Proofs.DistP Proofs.QgoodP Proofs.SubLinksP Proofs.CodecP Proofs.SectionP Model.Script.

(* position by position: same id, name, flags *)
Definition core (l l' : list term) : Prop :=
  Forall2 (fun t t' => t_id t' = t_id t /\ t_name t' = t_name t /\ t_obsolete t' = t_obsolete t /\ t_repl t' = t_repl t) l l'.

Lemma core_refl l : core l l.
Proof. induction l; constructor; auto. Qed.

Lemma core_trans l1 l2 l3 : core l1 l2 -> core l2 l3 -> core l1 l3.
Proof.
  intros H. revert l3. induction H as [|x y l1 l2 (A1 & A2 & A3 & A4) _ IH]; intros l3 H'; inversion H' as [|? z ? l3' (B1 & B2 & B3 & B4) H'']; subst; constructor.
  - repeat split; congruence.
  - apply IH, H''.
Qed.

Lemma core_update id f l : (forall t, t_id (f t) = t_id t /\ t_name (f t) = t_name t /\ t_obsolete (f t) = t_obsolete t /\ t_repl (f t) = t_repl t) ->
  core l (update_by t_id id f l).
Proof.
  intros Hf. induction l as [|x l IH]; cbn [update_by]; [constructor|].
  destruct (t_id x =? id); constructor; auto. apply core_refl.
Qed.

Lemma core_update_unchecked id f a a' : (forall t, t_id (f t) = t_id t /\ t_name (f t) = t_name t /\ t_obsolete (f t) = t_obsolete t /\ t_repl (f t) = t_repl t) ->
  ar_update_unchecked id f a = Ok a' -> core (ar_terms a) (ar_terms a').
Proof.
  intros Hf H. unfold ar_update_unchecked in H. destruct (MAX_HPO_ID <=? id); [discriminate|].
  destruct (ar_find id a); injection H as <-; [apply core_update, Hf|apply core_refl].
Qed.

Lemma set_children_core g t : t_id (set_children g t) = t_id t /\ t_name (set_children g t) = t_name t /\ t_obsolete (set_children g t) = t_obsolete t /\ t_repl (set_children g t) = t_repl t.
Proof. destruct t; cbn; auto. Qed.
Lemma set_parents_core g t : t_id (set_parents g t) = t_id t /\ t_name (set_parents g t) = t_name t /\ t_obsolete (set_parents g t) = t_obsolete t /\ t_repl (set_parents g t) = t_repl t.
Proof. destruct t; cbn; auto. Qed.
Lemma set_allp_core g t : t_id (set_allp g t) = t_id t /\ t_name (set_allp g t) = t_name t /\ t_obsolete (set_allp g t) = t_obsolete t /\ t_repl (set_allp g t) = t_repl t.
Proof. destruct t; cbn; auto. Qed.

Lemma unchecked_core p c a a' : b_add_parent_unchecked p c a = Ok a' -> core (ar_terms a) (ar_terms a').
Proof.
  unfold b_add_parent_unchecked. intros H. apply bind_Ok' in H as [a1 [H1 H2]].
  eapply core_trans; [apply (core_update_unchecked _ _ _ _ (fun t => set_children_core _ t) H1)|apply (core_update_unchecked _ _ _ _ (fun t => set_parents_core _ t) H2)].
Qed.

Lemma same_but_allp_core a a' : same_but_allp a a' -> core (ar_terms a) (ar_terms a').
Proof.
  intros [_ F]. unfold core. eapply Forall2_impl_In; [|exact F]. intros t t' _ _ ->. apply set_allp_core.
Qed.

(* ---------------- inserting the raw terms keeps their order ---------------- *)

Lemma insert_raw_order ts : NoDup (map t_id ts) -> Forall (fun t => t_id t < MAX_HPO_ID) ts ->
  forall a a', Forall (fun t => ~ In (t_id t) (ar_keys a)) ts ->
  foldM (fun a t => ar_insert (raw_term t) a) ts a = Ok a' ->
  ar_terms a' = ar_terms a ++ map raw_term ts /\ ar_ph a' = ar_ph a.
Proof.
  induction ts as [|t ts IH]; intros Hnd Hr a a' Hf H; cbn [foldM] in H.
  - injection H as <-. rewrite app_nil_r. auto.
  - inversion Hnd as [|? ? Hn Hnd']; subst. inversion Hr as [|? ? Hr1 Hr']; subst. inversion Hf as [|? ? Hf1 Hf']; subst.
    unfold ar_insert at 1 in H. change (t_id (raw_term t)) with (t_id t) in H.
    destruct (N.leb_spec MAX_HPO_ID (t_id t)); [lia|].
    assert (ar_find (t_id t) a = None) as Efn.
    { unfold ar_find. destruct (find_by t_id (t_id t) (ar_terms a)) as [x|] eqn:E; [|reflexivity].
      exfalso. apply find_by_Some in E as [E1 E2]. apply Hf1. rewrite <- E2. unfold ar_keys. apply in_map, E1. }
    rewrite Efn in H. cbn [bind] in H.
    destruct (IH Hnd' Hr' (mkArena (ar_ph a) (ar_terms a ++ [raw_term t])) a') as [E1 E2]; [|exact H|].
    + apply Forall_forall. intros x Hx Hin. unfold ar_keys in Hin. cbn [ar_terms] in Hin. rewrite map_app, in_app_iff in Hin.
      destruct Hin as [Hin|[Hin|[]]]; [rewrite Forall_forall in Hf'; apply (Hf' x Hx Hin)|].
      change (t_id (raw_term t)) with (t_id t) in Hin. apply Hn. rewrite Hin. apply in_map, Hx.
    + cbn [ar_terms ar_ph] in E1, E2. rewrite E1, <- app_assoc. auto.
Qed.

(* ---------------- all links of the source ---------------- *)

Lemma all_links_inner c ps : forall a a', binv a -> SP a -> In c (ar_keys a) -> (forall p, In p ps -> In p (ar_keys a)) ->
  foldM (fun a p => b_add_parent_unchecked p c a) ps a = Ok a' ->
  binv a' /\ SP a' /\ ar_keys a' = ar_keys a /\ core (ar_terms a) (ar_terms a') /\
  forall x y, parent_rel a' x y <-> parent_rel a x y \/ (x = c /\ In y ps).
Proof.
  induction ps as [|p ps IH]; intros a a' B P Hc Hps H; cbn [foldM] in H.
  - injection H as <-. split; [exact B|split; [exact P|split; [reflexivity|split; [apply core_refl|]]]].
    intros x y. split; [auto|]. intros [H|[_ Hf]]; [exact H|destruct Hf].
  - destruct (link_step a p c B P (Hps p (or_introl eq_refl)) Hc) as [a1 [E1 [B1 [P1 [K1 PR1]]]]]. rewrite E1 in H. cbn [bind] in H.
    destruct (IH a1 a' B1 P1) as [B' [P' [K' [C' PR']]]]; [rewrite K1; exact Hc|intros q Hq; rewrite K1; apply Hps; right; exact Hq|exact H|].
    split; [exact B'|split; [exact P'|split; [congruence|split]]].
    + eapply core_trans; [apply (unchecked_core p c a a1 E1)|exact C'].
    + intros x y. rewrite PR', PR1. cbn [In]. intuition (subst; auto).
Qed.

Lemma all_links terms : forall a a', binv a -> SP a -> (forall t, In t terms -> In (t_id t) (ar_keys a)) ->
  (forall t p, In t terms -> In p (t_parents t) -> In p (ar_keys a)) ->
  foldM (fun a t => foldM (fun a p => b_add_parent_unchecked p (t_id t) a) (t_parents t) a) terms a = Ok a' ->
  binv a' /\ SP a' /\ ar_keys a' = ar_keys a /\ core (ar_terms a) (ar_terms a') /\
  forall x y, parent_rel a' x y <-> parent_rel a x y \/ exists t, In t terms /\ x = t_id t /\ In y (t_parents t).
Proof.
  induction terms as [|t terms IH]; intros a a' B P Ht Hp H; cbn [foldM] in H.
  - injection H as <-. split; [exact B|split; [exact P|split; [reflexivity|split; [apply core_refl|]]]].
    intros x y. split; [auto|]. intros [H|[t [Hf _]]]; [exact H|destruct Hf].
  - destruct (foldM _ (t_parents t) a) as [a1| | |] eqn:E1; cbn [bind] in H; try discriminate.
    destruct (all_links_inner (t_id t) (t_parents t) a a1 B P (Ht t (or_introl eq_refl)) (fun p Hq => Hp t p (or_introl eq_refl) Hq) E1) as [B1 [P1 [K1 [C1 PR1]]]].
    destruct (IH a1 a' B1 P1) as [B' [P' [K' [C' PR']]]];
      [intros t0 H0; rewrite K1; apply Ht; right; exact H0|intros t0 p H0 Hq; rewrite K1; apply (Hp t0 p (or_intror H0) Hq)|exact H|].
    split; [exact B'|split; [exact P'|split; [congruence|split; [eapply core_trans; eassumption|]]]].
    intros x y. rewrite PR', PR1. split.
    + intros [[H0|[Ex Hy]]|[t0 [H0 Hr]]]; [auto| |].
      * right. exists t. split; [left; reflexivity|auto].
      * right. exists t0. split; [right; exact H0|exact Hr].
    + intros [H0|[t0 [[<-|H0] [Ex Hy]]]]; [auto| |].
      * left. right. auto.
      * right. exists t0. auto.
Qed.

(* ---------------- sorted children ---------------- *)

Definition SC (a : arena) : Prop := forall t, tin a t -> sorted (t_children t).

Lemma SC_update_unchecked a id f a' : SC a -> (forall t, tin a t -> sorted (t_children (f t))) ->
  ar_update_unchecked id f a = Ok a' -> SC a'.
Proof.
  intros P Hf H. unfold ar_update_unchecked in H. destruct (MAX_HPO_ID <=? id); [discriminate|].
  destruct (ar_find id a) as [tf|]; injection H as <-; intros t' [Hin|E].
  - unfold ar_update in Hin. cbn [ar_terms] in Hin. destruct (update_by_In f id _ t' Hin) as [H|[t2 [H ->]]];
      [apply P; left; exact H|apply Hf; left; exact H].
  - subst t'. apply P. right. reflexivity.
  - apply P. left. exact Hin.
  - subst t'. cbn [ar_ph]. apply Hf. right. reflexivity.
Qed.

Lemma SC_unchecked p c a a' : SC a -> b_add_parent_unchecked p c a = Ok a' -> SC a'.
Proof.
  intros S H. unfold b_add_parent_unchecked in H. apply bind_Ok' in H as [a1 [H1 H2]].
  assert (SC a1) as S1.
  { apply (SC_update_unchecked a p (fun t => set_children (g_add (t_children t) c) t) a1 S); [|exact H1]. intros t Ht. cbv beta.
    destruct (set_children_fields (g_add (t_children t) c) t) as [_ [_ [_ E]]]. rewrite E. apply g_add_sorted, S, Ht. }
  apply (SC_update_unchecked a1 c (fun t => set_parents (g_add (t_parents t) p) t) a' S1); [|exact H2]. intros t Ht. cbv beta.
  destruct (set_parents_fields (g_add (t_parents t) p) t) as [_ [_ [_ E]]]. rewrite E. apply S1, Ht.
Qed.

Lemma SC_same a a' : same_but_allp a a' -> SC a -> forall t', In t' (ar_terms a') -> sorted (t_children t').
Proof.
  intros Sm S t' Hin. destruct (same_In_r a a' t' Sm Hin) as [t [Ht E]]. rewrite E.
  destruct t; cbn. apply (S _ (or_introl Ht)).
Qed.

(* ---------------- steps that keep the whole structure of every term ---------------- *)

Definition same_struct (l l' : list term) : Prop :=
  Forall2 (fun t t' => t_id t' = t_id t /\ t_name t' = t_name t /\ t_obsolete t' = t_obsolete t /\ t_repl t' = t_repl t /\
                       t_parents t' = t_parents t /\ t_children t' = t_children t /\ t_allp t' = t_allp t) l l'.

Lemma same_struct_refl l : same_struct l l.
Proof. induction l; constructor; auto 10. Qed.

Lemma same_struct_trans l1 l2 l3 : same_struct l1 l2 -> same_struct l2 l3 -> same_struct l1 l3.
Proof.
  intros H. revert l3. induction H as [|x y l1 l2 (A1 & A2 & A3 & A4 & A5 & A6 & A7) _ IH]; intros l3 H';
    inversion H' as [|? z ? l3' (B1 & B2 & B3 & B4 & B5 & B6 & B7) H'']; subst; constructor.
  - repeat split; congruence.
  - apply IH, H''.
Qed.

Lemma same_struct_update id f l :
  (forall t, t_id (f t) = t_id t /\ t_name (f t) = t_name t /\ t_obsolete (f t) = t_obsolete t /\ t_repl (f t) = t_repl t /\
             t_parents (f t) = t_parents t /\ t_children (f t) = t_children t /\ t_allp (f t) = t_allp t) ->
  same_struct l (update_by t_id id f l).
Proof.
  intros Hf. induction l as [|x l IH]; cbn [update_by]; [constructor|].
  destruct (t_id x =? id); constructor; auto 10. apply same_struct_refl.
Qed.

Lemma set_annots_struct k g t : t_id (set_annots k g t) = t_id t /\ t_name (set_annots k g t) = t_name t /\
  t_obsolete (set_annots k g t) = t_obsolete t /\ t_repl (set_annots k g t) = t_repl t /\
  t_parents (set_annots k g t) = t_parents t /\ t_children (set_annots k g t) = t_children t /\ t_allp (set_annots k g t) = t_allp t.
Proof. destruct k, t; cbn; auto 10. Qed.

Lemma link_same_struct k gid fuel : forall a tid a', link fuel k a tid gid = Ok a' -> same_struct (ar_terms a) (ar_terms a').
Proof.
  induction fuel as [|f IH]; intros a tid a' H; [discriminate|]. cbn [link] in H.
  destruct (ar_get tid a) as [t|]; [|discriminate].
  destruct (g_insert gid (t_annots k t)) as [set' isnew]. destruct isnew; [|injection H as <-; apply same_struct_refl].
  refine (foldM_inv _ (fun s => same_struct (ar_terms a) (ar_terms s)) _ _ _ a' _ H).
  - intros s p s' _ Hs Ss. apply (same_struct_trans _ _ _ Ss). apply (IH s p s' Hs).
  - unfold ar_update. cbn [ar_terms]. apply same_struct_update. intros t0. apply set_annots_struct.
Qed.

Lemma load_record_same_struct k o r o' : load_record k o r = Ok o' -> same_struct (ar_terms (o_arena o)) (ar_terms (o_arena o')).
Proof.
  unfold load_record. intros H. apply bind_Ok' in H as [a' [Ha H]]. injection H as <-.
  assert (o_arena (set_records k (an_put r (o_records k o)) (set_arena a' o)) = a') as -> by (destruct k; reflexivity).
  refine (foldM_inv _ (fun s => same_struct (ar_terms (o_arena o)) (ar_terms s)) _ _ _ a' _ Ha); [|apply same_struct_refl].
  intros s t s' _ Hs Ss. apply (same_struct_trans _ _ _ Ss). apply (link_same_struct k (a_id r) _ s t s' Hs).
Qed.

Lemma calculate_ic_same_struct icf o o' : b_calculate_ic icf o = Ok o' -> same_struct (ar_terms (o_arena o)) (ar_terms (o_arena o')).
Proof.
  unfold b_calculate_ic. destruct (mapM (term_ic icf o) (ar_terms (o_arena o))) as [ts| | |] eqn:E; cbn [bind]; try discriminate.
  intros [= <-]. cbn [o_arena set_arena ar_terms]. apply mapM_Ok in E.
  revert E. generalize (ar_terms (o_arena o)) ts. induction 1 as [|t t' l l' Ht _ IH]; constructor; [|exact IH].
  unfold term_ic in Ht.
  destruct (icf _ _) as [g| | |]; cbn [bind] in Ht; try discriminate.
  destruct (icf _ _) as [m| | |]; cbn [bind] in Ht; try discriminate.
  destruct (icf _ _) as [r| | |]; cbn [bind] in Ht; try discriminate.
  injection Ht as <-. destruct t; cbn; auto 10.
Qed.

(* ---------------- the source ontology ---------------- *)

Record src_ok (o : onto) : Prop := {
  so_q : qgood o;
  so_inv : forall c p, parent_rel (o_arena o) c p <-> child_rel (o_arena o) p c;
  so_sc : forall t, In t (ar_terms (o_arena o)) -> sorted (t_children t)
}.

Lemma child_rel_of_term a t c : wf_ar a -> In t (ar_terms a) -> (child_rel a (t_id t) c <-> In c (t_children t)).
Proof.
  intros W Hin. split.
  - intros [t' [Hin' [Hid Hc]]]. pose proof (find_unique a t W Hin) as F1. pose proof (find_unique a t' W Hin') as F2.
    rewrite Hid in F2. rewrite F1 in F2. injection F2 as ->. exact Hc.
  - intros Hc. exists t. auto.
Qed.

Lemma same_child_rel a a' p c : same_but_allp a a' -> (child_rel a p c <-> child_rel a' p c).
Proof.
  intros S. split; intros [t [Hin [Hid Hc]]].
  - destruct (same_In_l a a' t S Hin) as [t' [Hin' E]]. exists t'. split; [exact Hin'|]. rewrite E. destruct t; cbn in *. auto.
  - destruct (same_In_r a a' t S Hin) as [t0 [Hin0 E]]. exists t0. split; [exact Hin0|]. rewrite E in Hid, Hc. destruct t0; cbn in *. auto.
Qed.

(* the three structural phases of a reload *)
Definition rebuild_arena (ts : list term) : res arena :=
  do a1 <- foldM (fun a t => ar_insert (raw_term t) a) ts arena_default ;;
  do a2 <- foldM (fun a t => foldM (fun a p => b_add_parent_unchecked p (t_id t) a) (t_parents t) a) ts a1 ;;
  connect_all (default_fuel a2) a2.

Definition term_kept (t t' : term) : Prop :=
  t_id t' = t_id t /\ t_name t' = cut_name TERM_NAME_LIMIT (t_name t) /\ t_obsolete t' = t_obsolete t /\ t_repl t' = t_repl t /\
  t_parents t' = t_parents t /\ t_children t' = t_children t /\ t_allp t' = t_allp t.

Theorem rebuild_arena_keeps_terms o a3 : src_ok o -> rebuild_arena (ar_terms (o_arena o)) = Ok a3 ->
  Forall2 term_kept (ar_terms (o_arena o)) (ar_terms a3).
Proof.
  intros [G Inv Sc] H. set (ts := ar_terms (o_arena o)) in *. unfold rebuild_arena in H.
  pose proof (q_wf o G) as W.
  apply bind_Ok' in H as [a1 [H1 H]]. apply bind_Ok' in H as [a2 [H2 H3]].
  (* phase 1: the raw terms, in order *)
  assert (NoDup (map t_id ts)) as Hnd by exact (wf_nodup _ W).
  assert (Forall (fun t => t_id t < MAX_HPO_ID) ts) as Hr by (apply Forall_forall; intros t Ht; apply (wf_range _ W t Ht)).
  destruct (insert_raw_order ts Hnd Hr arena_default a1) as [E1 Eph]; [apply Forall_forall; intros t _ []|exact H1|].
  cbn [ar_terms arena_default app] in E1.
  assert (binv a1 /\ SP a1 /\ SC a1) as [B1 [P1 S1]].
  { refine (foldM_inv _ (fun a => binv a /\ SP a /\ SC a) _ _ arena_default a1 _ H1).
    - intros s t s' _ Hs [Bs [Ps Ss]]. split; [apply (binv_insert s (raw_term t) s' Bs eq_refl eq_refl eq_refl Hs)|].
      split; [apply (SP_insert_empty (raw_term t) s s' eq_refl eq_refl Ps Hs)|].
      unfold ar_insert in Hs. destruct (MAX_HPO_ID <=? _); [discriminate|]. destruct (ar_find _ s); injection Hs as <-; [exact Ss|].
      intros x [Hin| ->]; [|apply Ss; right; reflexivity]. cbn [ar_terms] in Hin.
      apply in_app_or in Hin as [Hin|[<-|[]]]; [apply Ss; left; exact Hin|constructor].
    - split; [apply binv_default|split; [apply SP_default|]]. intros t [[]| ->]. constructor. }
  assert (ar_keys a1 = map t_id ts) as K1.
  { unfold ar_keys. rewrite E1, map_map. apply map_ext. intros t. reflexivity. }
  assert (forall x y, ~ parent_rel a1 x y) as PR1.
  { intros x y [t [Hin [_ Hp]]]. rewrite E1 in Hin. apply in_map_iff in Hin as [t0 [<- _]]. destruct Hp. }
  (* phase 2: all links *)
  destruct (all_links ts a1 a2 B1 P1) as [B2 [P2 [K2 [C2 PR2]]]];
    [intros t Ht; rewrite K1; apply in_map, Ht|intros t p Ht Hp; rewrite K1; apply (wf_closed _ W t Ht p Hp)|exact H2|].
  assert (SC a2) as S2.
  { refine (foldM_inv _ SC _ _ a1 a2 S1 H2). intros s t s' _ Hs Ss.
    refine (foldM_inv _ SC _ _ s s' Ss Hs). intros s2 p s3 _ H3' S2'. apply (SC_unchecked p (t_id t) s2 s3 S2' H3'). }
  assert (forall x y, parent_rel a2 x y <-> parent_rel (o_arena o) x y) as PRo.
  { intros x y. rewrite PR2. split.
    - intros [Hf|[t [Ht [-> Hp]]]]; [destruct (PR1 x y Hf)|]. exists t. auto.
    - intros [t [Ht [Hid Hp]]]. right. exists t. auto. }
  (* phase 3: the caches *)
  destruct (connect_all_exact _ _ _ (b_wf _ B2) (b_empty _ B2) H3) as [Sm X].
  assert (qgood (set_arena a3 onto_new)) as G3.
  { apply (connect_gives_qgood (set_arena a2 onto_new) (set_arena a3 onto_new)); [exact B2|exact P2|].
    unfold b_connect_all_terms. cbn [o_arena set_arena]. rewrite H3. reflexivity. }
  pose proof (q_wf _ G3) as W3. cbn [o_arena set_arena] in W3.
  (* position by position *)
  assert (core (map raw_term ts) (ar_terms a3)) as C3.
  { rewrite <- E1. eapply core_trans; [exact C2|apply same_but_allp_core, Sm]. }
  assert (Forall2 (fun t t' => t_id t' = t_id t /\ t_name t' = cut_name TERM_NAME_LIMIT (t_name t) /\ t_obsolete t' = t_obsolete t /\ t_repl t' = t_repl t)
                  ts (ar_terms a3)) as F0.
  { clear -C3. unfold core in C3. revert C3. generalize (ar_terms a3). induction ts as [|t ts IH]; intros l C; inversion C as [|? y ? l' (A1 & A2 & A3 & A4) C']; subst; constructor.
    - unfold raw_term in *. cbn in *. auto.
    - apply IH, C'. }
  eapply Forall2_impl_In; [|exact F0]. intros t t3 Ht Ht3 (E_id & E_nm & E_ob & E_rp).
  unfold term_kept. repeat (split; [assumption|]).
  assert (forall y, parent_rel a3 (t_id t3) y <-> parent_rel (o_arena o) (t_id t) y) as PRt.
  { intros y. rewrite <- (same_parent_rel a2 a3 (t_id t3) y Sm), PRo, E_id. reflexivity. }
  split; [|split].
  - (* parents *)
    apply sorted_ext; [apply (q_sorted_p _ G3 t3 Ht3)|apply (q_sorted_p o G t Ht)|].
    intros y. rewrite <- (parent_rel_of_term a3 t3 y W3 Ht3), PRt. apply (parent_rel_of_term _ t y W Ht).
  - (* children *)
    apply sorted_ext; [apply (SC_same a2 a3 Sm S2 t3 Ht3)|apply (Sc t Ht)|].
    intros c. rewrite <- (child_rel_of_term a3 t3 c W3 Ht3), <- (same_child_rel a2 a3 (t_id t3) c Sm), <- (b_inverse _ B2 c (t_id t3)).
    rewrite PRo, E_id, (Inv c (t_id t)). apply (child_rel_of_term _ t c W Ht).
  - (* the ancestor cache *)
    apply sorted_ext; [apply (q_sorted_a _ G3 t3 Ht3)|apply (q_sorted_a o G t Ht)|].
    intros x. rewrite (q_exact _ G3 t3 Ht3 x), (q_exact o G t Ht x). cbn [o_arena set_arena]. rewrite E_id. unfold anc.
    split; apply clos_trans_ext; intros c p.
    + rewrite <- (same_parent_rel a2 a3 c p Sm). apply PRo.
    + rewrite <- (same_parent_rel a2 a3 c p Sm). symmetry. apply PRo.
Qed.

(* ---------------- the whole reload ---------------- *)

Lemma term_kept_struct l l' l'' : Forall2 term_kept l l' -> same_struct l' l'' -> Forall2 term_kept l l''.
Proof.
  intros H. revert l''. induction H as [|t t' l l' (A1 & A2 & A3 & A4 & A5 & A6 & A7) _ IH]; intros l'' H';
    inversion H' as [|? t'' ? l3 (B1 & B2 & B3 & B4 & B5 & B6 & B7) H'']; subst; constructor.
  - unfold term_kept. repeat split; congruence.
  - apply IH, H''.
Qed.

Lemma load_records_same_struct k rs : forall o o', foldM (load_record k) rs o = Ok o' ->
  same_struct (ar_terms (o_arena o)) (ar_terms (o_arena o')).
Proof.
  intros o o' H. refine (foldM_inv _ (fun s => same_struct (ar_terms (o_arena o)) (ar_terms (o_arena s))) _ _ o o' _ H); [|apply same_struct_refl].
  intros s r s' _ Hs Ss. apply (same_struct_trans _ _ _ Ss). apply (load_record_same_struct k s r s' Hs).
Qed.

(* for every ontology with exact caches and children = parents^-1, whatever the order of the
   records: a successful rebuild keeps every term's id, name (cut at the limit), flags, parents,
   children and ancestor cache, position by position *)
Theorem rebuild_keeps_terms icf order o o'' : src_ok o -> rebuild icf order o = Ok o'' ->
  Forall2 term_kept (ar_terms (o_arena o)) (ar_terms (o_arena o'')).
Proof.
  intros S H. unfold rebuild in H.
  apply bind_Ok' in H as [a1 [H1 H]]. apply bind_Ok' in H as [a2 [H2 H]]. apply bind_Ok' in H as [a3 [H3 H]].
  apply bind_Ok' in H as [o4 [H4 H]]. apply bind_Ok' in H as [o5 [H5 H]]. apply bind_Ok' in H as [o6 [H6 H]].
  apply bind_Ok' in H as [o7 [H7 H8]].
  assert (rebuild_arena (ar_terms (o_arena o)) = Ok a3) as Ha.
  { unfold rebuild_arena. cbn [o_arena set_version onto_new] in H1. rewrite H1. cbn [bind]. rewrite H2. cbn [bind]. exact H3. }
  pose proof (rebuild_arena_keeps_terms o a3 S Ha) as K3.
  apply (term_kept_struct _ _ _ K3).
  eapply same_struct_trans; [apply (load_records_same_struct KGene _ _ o4 H4)|].
  eapply same_struct_trans; [apply (load_records_same_struct KOmim _ _ o5 H5)|].
  eapply same_struct_trans; [apply (load_records_same_struct KOrpha _ _ o6 H6)|].
  eapply same_struct_trans; [apply (calculate_ic_same_struct icf o6 o7 H7)|].
  rewrite (build_with_defaults_arena o7 o'' H8). apply same_struct_refl.
Qed.

(* ... hence so does from_bytes (as_bytes o) *)
Theorem reload_keeps_terms icf order o o'' : file_ok order o -> src_ok o ->
  decode icf (encode_with order o) = Ok o'' ->
  Forall2 term_kept (ar_terms (o_arena o)) (ar_terms (o_arena o'')).
Proof. intros F S H. rewrite (decode_encode_is_rebuild icf order o F) in H. apply (rebuild_keeps_terms icf order o o'' S H). Qed.

(* ---------------- every Builder-built ontology is such a source ---------------- *)

Lemma same_struct_links a a' : same_struct (ar_terms a) (ar_terms a') -> same_links a a'.
Proof. unfold same_struct, same_links. apply Forall2_impl_In. intros t t' _ _ (A1 & _ & _ & _ & A5 & _ & A7). auto. Qed.

Lemma same_struct_child_rel a a' p c : same_struct (ar_terms a) (ar_terms a') -> (child_rel a p c <-> child_rel a' p c).
Proof.
  intros S. split; intros [t [Hin [Hid Hc]]].
  - destruct (Forall2_In_l _ _ _ t S Hin) as [t' [Hin' (A1 & _ & _ & _ & _ & A6 & _)]]. exists t'. rewrite A1, A6. auto.
  - destruct (Forall2_In_r _ _ _ t S Hin) as [t0 [Hin0 (A1 & _ & _ & _ & _ & A6 & _)]]. exists t0. rewrite <- A1, <- A6. auto.
Qed.

Lemma src_ok_same_struct o o' : src_ok o -> same_struct (ar_terms (o_arena o)) (ar_terms (o_arena o')) -> src_ok o'.
Proof.
  intros [G Inv Sc] S. pose proof (same_struct_links _ _ S) as SL. constructor.
  - apply (qgood_same_links o o' G SL).
  - intros c p. rewrite <- (same_links_parent_rel _ _ c p SL), <- (same_struct_child_rel _ _ p c S). apply Inv.
  - intros t' Hin. destruct (Forall2_In_r _ _ _ t' S Hin) as [t [Ht (_ & _ & _ & _ & _ & A6 & _)]]. rewrite A6. apply Sc, Ht.
Qed.

Lemma src_ok_arena o o' : src_ok o -> o_arena o' = o_arena o -> src_ok o'.
Proof. intros S E. apply (src_ok_same_struct o o' S). rewrite E. apply same_struct_refl. Qed.

Lemma SC_default : SC arena_default.
Proof. intros t [[]| ->]. constructor. Qed.

Lemma SC_update a id f : SC a -> (forall t, tin a t -> sorted (t_children (f t))) -> SC (ar_update id f a).
Proof.
  intros P Hf t' [Hin| ->].
  - unfold ar_update in Hin. cbn [ar_terms] in Hin. destruct (update_by_In f id _ t' Hin) as [H|[t2 [H ->]]];
      [apply P; left; exact H|apply Hf; left; exact H].
  - apply P. right. reflexivity.
Qed.

Lemma SC_add_parent parent child o o' : SC (o_arena o) -> b_add_parent parent child o = Ok o' -> SC (o_arena o').
Proof.
  intros P H. unfold b_add_parent in H.
  destruct (ar_get child (o_arena o)); [|discriminate]. destruct (ar_get parent (o_arena o)); [|discriminate].
  match type of H with context [ar_get child ?a1] => destruct (ar_get child a1); [|discriminate] end.
  injection H as <-. cbn [o_arena set_arena].
  apply SC_update.
  - apply SC_update; [exact P|]. intros x Hx. destruct (set_children_fields (g_add (t_children x) child) x) as [_ [_ [_ E]]].
    rewrite E. apply g_add_sorted, P, Hx.
  - intros x Hx. destruct (set_parents_fields (g_add (t_parents x) parent) x) as [_ [_ [_ E]]]. rewrite E.
    revert Hx. apply SC_update; [exact P|]. intros y Hy. destruct (set_children_fields (g_add (t_children y) child) y) as [_ [_ [_ F]]].
    rewrite F. apply g_add_sorted, P, Hy.
Qed.

Lemma annotate_same_struct k id name tid o o' : b_annotate k id name tid o = Ok o' -> same_struct (ar_terms (o_arena o)) (ar_terms (o_arena o')).
Proof.
  unfold b_annotate. destruct (o_get tid o); [|discriminate].
  destruct (an_find id (an_add name id (o_records k o))); [|discriminate].
  set (o1 := set_records k _ o). assert (o_arena o1 = o_arena o) as E1 by (destruct k; reflexivity).
  destruct (link (link_fuel (o_arena o1)) k (o_arena o1) tid id) as [a'| | |] eqn:El; cbn [bind]; try discriminate.
  intros [= <-]. cbn [o_arena set_arena]. rewrite <- E1. apply (link_same_struct k id _ _ tid a' El).
Qed.

Theorem run_script_src_ok icf s codes o : Script.run_script icf s = Ok (codes, Ok o) -> src_ok o.
Proof.
  destruct s as [[[[ver terms] parents] annots] kindb]. unfold Script.run_script. intros H.
  apply bind_Ok' in H as [[ob cs] [Hb H]].
  assert (src_ok ob) as Sb.
  { unfold Script.run_builder in Hb.
    apply bind_Ok' in Hb as [o1 [H1 Hb]]. apply bind_Ok' in Hb as [[o2 codes2] [H2 Hb]].
    apply bind_Ok' in Hb as [o3 [H3 Hb]]. apply bind_Ok' in Hb as [[o4 codes4] [H4 Hb]]. injection Hb as <- _.
    assert (binv (o_arena o1) /\ SP (o_arena o1) /\ SC (o_arena o1)) as [B1 [P1 S1]].
    { refine (foldM_inv _ (fun o => binv (o_arena o) /\ SP (o_arena o) /\ SC (o_arena o)) _ _ _ o1 _ H1).
      - intros s [id name] s' _ Hs [Bs [Ps Ss]]. cbn [fst snd] in Hs. unfold b_new_term, b_add_term in Hs.
        apply bind_Ok' in Hs as [a' [Ha Hs]]. injection Hs as <-. cbn [o_arena set_arena].
        split; [apply (binv_insert (o_arena s) (new_term name id) a' Bs eq_refl eq_refl eq_refl Ha)|].
        split; [apply (SP_insert_new name id _ a' Ps Ha)|].
        unfold ar_insert in Ha. destruct (MAX_HPO_ID <=? _); [discriminate|]. destruct (ar_find _ (o_arena s)); injection Ha as <-; [exact Ss|].
        intros x [Hin| ->]; [|apply Ss; right; reflexivity]. cbn [ar_terms] in Hin.
        apply in_app_or in Hin as [Hin|[<-|[]]]; [apply Ss; left; exact Hin|constructor].
      - cbn [o_arena set_version onto_new]. split; [apply binv_default|split; [apply SP_default|apply SC_default]]. }
    assert (binv (o_arena o2) /\ SP (o_arena o2) /\ SC (o_arena o2)) as [B2 [P2 S2]].
    { unfold Script.run_ops in H2.
      refine (foldM_inv _ (fun st : onto * list N => binv (o_arena (fst st)) /\ SP (o_arena (fst st)) /\ SC (o_arena (fst st))) _ _ (o1, []) (o2, codes2) _ H2).
      - intros [s cs0] [p c] [s' cs'] _ Hs [Bs [Ps Ss]]. cbn [fst snd] in *.
        destruct (b_add_parent p c s) as [s2|e| |] eqn:Ea; cbn [Script.step_keep bind] in Hs; try discriminate; injection Hs as <- _.
        + split; [apply (binv_add_parent s p c s2 Bs Ea)|split; [apply (SP_add_parent p c s s2 Ps Ea)|apply (SC_add_parent p c s s2 Ss Ea)]].
        + auto.
      - auto. }
    pose proof (connect_gives_qgood o2 o3 B2 P2 H3) as G3.
    assert (src_ok o3) as S3.
    { unfold b_connect_all_terms in H3. destruct (connect_all _ (o_arena o2)) as [a3| | |] eqn:Ec; cbn [bind] in H3; try discriminate.
      injection H3 as <-. destruct (connect_all_exact _ _ _ (b_wf _ B2) (b_empty _ B2) Ec) as [Sm _].
      constructor; [exact G3| |]; cbn [o_arena set_arena].
      - intros c p. rewrite <- (same_parent_rel _ _ c p Sm), <- (same_child_rel _ _ p c Sm). apply (b_inverse _ B2).
      - intros t Ht. apply (SC_same _ _ Sm S2 t Ht). }
    unfold Script.run_ops in H4.
    refine (foldM_inv _ (fun st : onto * list N => src_ok (fst st)) _ _ (o3, []) (o4, codes4) _ H4); [|exact S3].
    intros [s cs0] [[[tag id] tid] name] [s' cs'] _ Hs Gs. cbn [fst snd] in *. unfold Script.run_annot_op in Hs.
    destruct (tag <? 3).
    - cbn [bind] in Hs. injection Hs as <- _. apply (src_ok_arena s _ Gs). apply add_record_arena.
    - destruct (b_annotate (Script.kind_of tag) id name tid s) as [s2|e| |] eqn:Ea; cbn [Script.step_keep bind] in Hs; try discriminate; injection Hs as <- _.
      + apply (src_ok_same_struct s s2 Gs). apply (annotate_same_struct _ _ _ _ _ _ Ea).
      + exact Gs. }
  unfold Script.finish in H. destruct (b_calculate_ic icf ob) as [o5| | |] eqn:E5; cbn [bind] in H; try discriminate.
  pose proof (src_ok_same_struct ob o5 Sb (calculate_ic_same_struct icf ob o5 E5)) as G5.
  destruct (kindb =? 0).
  - injection H as _ <-. apply (src_ok_arena o5 _ G5). apply build_minimal_arena.
  - destruct (b_build_with_defaults o5) as [o6| | |] eqn:E6; try discriminate. injection H as _ <-.
    apply (src_ok_arena o5 o6 G5). apply (build_with_defaults_arena o5 o6 E6).
Qed.
