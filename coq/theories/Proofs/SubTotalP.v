(* SubTotalP.v — ACCEPTANCE by sub_ontology (C14): for an acyclic source with exact caches and inherited
   annotation sets, a root and leaves that are the root or below it, the call RETURNS (with an
   information-content function that is defined on counts up to the source's) — it is refused only as
   the property says. *)
From Coq Require Import Lia Relations Sorted.
From HpoV Require Import Gen.Consts Model.Base Model.Group Model.Onto Model.Query Model.SubOnt Model.Script
  Proofs.GroupP Proofs.BaseP Proofs.ClosureP Proofs.AcyclicP Proofs.TotalP Proofs.DistP Proofs.QgoodP Proofs.LinkP Proofs.RecordsP
  Proofs.C03W Proofs.SectionP Proofs.RoundTripP Proofs.AnnotP Proofs.BuilderAnnotP Proofs.TotalLinkP Proofs.ReloadP Proofs.TotalReloadP
  Proofs.SubP Proofs.SubLinksP Proofs.SubAnnotP Proofs.SubDistP Proofs.C18P Proofs.WalkP.

(* ---------------- copies and induced links ---------------- *)

Lemma copies_total terms : forall b0, (forall t, In t terms -> t_id t < MAX_HPO_ID) ->
  exists b, foldM (fun b t => b_add_term (copy_of t) b) terms b0 = Ok b.
Proof.
  induction terms as [|t terms IH]; intros b0 Hr; cbn [foldM]; [eexists; reflexivity|].
  unfold b_add_term at 1, ar_insert. change (t_id (copy_of t)) with (t_id t).
  destruct (N.leb_spec MAX_HPO_ID (t_id t)) as [Hge|_]; [pose proof (Hr t (or_introl eq_refl)); lia|].
  destruct (ar_find (t_id t) (o_arena b0)); cbn [bind]; apply IH; intros t' H'; apply Hr; right; exact H'.
Qed.

Section Ind.
  Variable ids : group.
  Hypothesis Hs : sorted ids.

  Lemma inner_links_total c ps : forall a, binv a -> SP a -> In c (ar_keys a) -> (forall p, In p ids -> In p (ar_keys a)) ->
    exists a', foldM (inner_step ids c) ps a = Ok a'.
  Proof.
    induction ps as [|p ps IH]; intros a B P Hc Hids; cbn [foldM]; [eexists; reflexivity|].
    unfold inner_step at 1. destruct (g_contains p ids) eqn:Eg.
    - apply (g_contains_spec _ _ Hs) in Eg.
      destruct (link_step a p c B P (Hids p Eg) Hc) as [a1 [E1 [B1 [P1 [K1 _]]]]]. rewrite E1. cbn [bind].
      apply (IH a1 B1 P1); [rewrite K1; exact Hc|intros q Hq; rewrite K1; apply Hids, Hq].
    - cbn [bind]. apply (IH a B P Hc Hids).
  Qed.

  Lemma induced_links_total terms : forall a, binv a -> SP a -> (forall t, In t terms -> In (t_id t) (ar_keys a)) ->
    (forall p, In p ids -> In p (ar_keys a)) ->
    exists a', foldM (fun a t => foldM (inner_step ids (t_id t)) (t_parents t) a) terms a = Ok a'.
  Proof.
    induction terms as [|t terms IH]; intros a B P Ht Hids; cbn [foldM]; [eexists; reflexivity|].
    destruct (inner_links_total (t_id t) (t_parents t) a B P (Ht t (or_introl eq_refl)) Hids) as [a1 E1]. rewrite E1. cbn [bind].
    destruct (inner_links ids Hs (t_id t) (t_parents t) a a1 B P (Ht t (or_introl eq_refl)) Hids E1) as [B1 [P1 [K1 _]]].
    apply (IH a1 B1 P1); [intros t0 H0; rewrite K1; apply Ht; right; exact H0|intros q Hq; rewrite K1; apply Hids, Hq].
  Qed.
End Ind.

(* in an acyclic source with exact caches a parent has strictly fewer ancestors inside any id set *)
Lemma inner_rank_decreases o (ids : group) c p : sorted ids -> qgood o -> acyclic (o_arena o) -> parent_rel (o_arena o) c p -> In p ids ->
  (length (g_inter (allp_of (o_arena o) p) ids) < length (g_inter (allp_of (o_arena o) c) ids))%nat.
Proof.
  intros Sids G Ac [tc [Htc [Hidc Hp]]] Hpi. pose proof (q_wf o G) as W.
  assert (In p (ar_keys (o_arena o))) as Hpk by (apply (wf_closed _ W tc Htc p Hp)).
  destruct (key_find _ p W Hpk) as [tp [Fp [Htp [Hidp _]]]].
  unfold allp_of. rewrite Fp, <- Hidc, (find_unique _ tc W Htc).
  assert (NoDup (p :: g_inter (t_allp tp) ids)) as Nd.
  { constructor; [|apply sorted_NoDup, g_inter_sorted; [apply (q_sorted_a o G tp Htp)|exact Sids]].
    intros Hx. apply g_inter_In in Hx as [Hx _]. apply (q_exact o G tp Htp) in Hx. rewrite Hidp in Hx. apply (Ac _ Hx). }
  assert (incl (p :: g_inter (t_allp tp) ids) (g_inter (t_allp tc) ids)) as Hi.
  { intros x [<-|Hx]; apply g_inter_In.
    - split; [|exact Hpi]. apply (q_exact o G tc Htc). apply t_step. exists tc. auto.
    - apply g_inter_In in Hx as [Hx Hxi]. split; [|exact Hxi]. apply (q_exact o G tc Htc). apply (q_exact o G tp Htp) in Hx.
      eapply t_trans; [apply t_step; exists tc; split; [exact Htc|split; [reflexivity|exact Hp]]|]. rewrite <- Hidp. exact Hx. }
  pose proof (NoDup_incl_length Nd Hi) as Hl. cbn [length] in Hl. lia.
Qed.

(* ---------------- the annotation stage ---------------- *)

(* record ids of the result stay among the record ids of the source *)
Definition RI (o b : onto) : Prop := forall k, incl (map a_id (o_records k b)) (map a_id (o_records k o)).

Lemma annotate_RI o k r tid b b' : In r (o_records k o) -> RI o b -> b_annotate k (a_id r) (a_name r) tid b = Ok b' -> RI o b'.
Proof.
  intros Hr R H k'. destruct (kind_eq_dec k' k) as [->|Hne].
  - rewrite (annotate_records_k k _ _ tid b b' H), an_add_term_ids. unfold an_add.
    destruct (an_find (a_id r) (o_records k b)); [apply (R k)|]. rewrite map_app. cbn [map a_id].
    intros x Hx. apply in_app_or in Hx as [Hx|[<-|[]]]; [apply (R k x Hx)|apply in_map, Hr].
  - destruct (annotate_records k _ _ tid b b' H) as (_ & _ & Ro). rewrite (Ro k' Hne). apply (R k').
Qed.

Lemma annotate_terms_total o k r ts : In r (o_records k o) -> forall b, BI b -> RI o b -> (forall t, In t ts -> In t (ar_keys (o_arena b))) ->
  exists b', foldM (fun b2 t => b_annotate k (a_id r) (a_name r) t b2) ts b = Ok b' /\ BI b' /\ RI o b' /\ ar_keys (o_arena b') = ar_keys (o_arena b).
Proof.
  intros Hr. induction ts as [|t ts IH]; intros b B R Hk; cbn [foldM]; [exists b; auto|].
  destruct (annotate_total k (a_id r) (a_name r) t b (bi_q b B) (bi_ac b B) (bi_sorted b B k) (Hk t (or_introl eq_refl))) as [b1 E1].
  rewrite E1. cbn [bind].
  pose proof (same_struct_keys _ _ (annotate_same_struct _ _ _ _ _ _ E1)) as K1.
  destruct (IH b1 (BI_annotate k _ _ t b b1 B E1) (annotate_RI o k r t b b1 Hr R E1)) as (b' & E' & B' & R' & K').
  { intros x Hx. rewrite K1. apply Hk. right. exact Hx. }
  exists b'. split; [exact E'|]. split; [exact B'|]. split; [exact R'|congruence].
Qed.

Lemma sub_annotate_total k o ids pheno b : BI b -> RI o b -> (forall x, In x ids -> In x (ar_keys (o_arena b))) ->
  exists b', sub_annotate k o ids pheno b = Ok b' /\ BI b' /\ RI o b' /\ ar_keys (o_arena b') = ar_keys (o_arena b).
Proof.
  intros B R Hk. rewrite sub_annotate_unfold.
  assert (forall rs, (forall r, In r rs -> In r (o_records k o)) -> forall b0, BI b0 -> RI o b0 -> ar_keys (o_arena b0) = ar_keys (o_arena b) ->
            exists b', foldM (fun (b1 : onto) (r : annot) =>
                          if g_is_empty (g_inter (a_hpos r) pheno) then Ok b1
                          else foldM (fun b2 t => b_annotate k (a_id r) (a_name r) t b2) (g_inter (a_hpos r) ids) b1) rs b0 = Ok b'
                       /\ BI b' /\ RI o b' /\ ar_keys (o_arena b') = ar_keys (o_arena b)) as K.
  { induction rs as [|r rs IH]; intros Hrs b0 B0 R0 K0; cbn [foldM]; [exists b0; auto|].
    destruct (g_is_empty (g_inter (a_hpos r) pheno)); [cbn [bind]; apply IH; auto; intros r' H'; apply Hrs; right; exact H'|].
    destruct (annotate_terms_total o k r (g_inter (a_hpos r) ids) (Hrs r (or_introl eq_refl)) b0 B0 R0) as (b1 & E1 & B1 & R1 & K1).
    { intros t Ht. apply g_inter_In in Ht as [_ Ht]. rewrite K0. apply Hk, Ht. }
    rewrite E1. cbn [bind]. apply IH; [intros r' H'; apply Hrs; right; exact H'|exact B1|exact R1|congruence]. }
  apply K; [intros r Hr; apply (proj1 (sort_by_In a_id _ r)) in Hr; exact Hr|exact B|exact R|reflexivity].
Qed.

(* ---------------- sub_ontology returns ---------------- *)

Theorem sub_ontology_total icf o root leaves : qgood o -> acyclic (o_arena o) ->
  (forall l, In l leaves -> In l (ar_keys (o_arena o))) ->
  (forall l, In l leaves -> l = t_id root \/ anc (o_arena o) l (t_id root)) ->
  (forall k N n, N <= Nlen (o_records k o) -> n <= N -> exists v, icf N n = Ok v) ->
  exists o', sub_ontology icf o root leaves = Ok o'.
Proof.
  intros G Ac Hl Hr Hicf. pose proof (q_wf o G) as W. unfold sub_ontology.
  destruct (sub_ids_accepts o root leaves G Ac Hl Hr) as [ids Eids]. rewrite Eids. cbn [bind].
  pose proof (sub_ids_in_keys o G root leaves ids Hl Eids) as Hk.
  assert (sorted ids) as Sids by (rewrite sub_ids_unfold in Eids; apply (leaf_steps_sorted o root leaves [] ids ltac:(constructor) Eids)).
  (* the terms *)
  destruct (mapM_all_Ok (fun id => ar_get_unchecked id (o_arena o)) ids) as [terms Et].
  { intros id Hid. destruct (get_unchecked_key _ id W (Hk id Hid)) as [t [Hg _]]. exists t. exact Hg. }
  rewrite Et. cbn [bind].
  assert (Forall2 (fun id t => In t (ar_terms (o_arena o)) /\ t_id t = id) ids terms) as Ft.
  { apply mapM_Ok in Et. eapply Forall2_impl_In; [|exact Et]. intros id t Hid _ Hg.
    destruct (get_unchecked_key _ id W (Hk id Hid)) as [t0 [Hg0 [Hin0 Hid0]]]. rewrite Hg in Hg0. injection Hg0 as ->. auto. }
  assert (map t_id terms = ids) as Emap.
  { clear -Ft. induction Ft as [|id t l l' [_ E] _ IH]; [reflexivity|]. cbn [map]. rewrite E, IH. reflexivity. }
  assert (forall t, In t terms -> In t (ar_terms (o_arena o))) as Hterms.
  { intros t Ht. destruct (Forall2_In_r _ _ _ t Ft Ht) as [id [_ [Hin _]]]. exact Hin. }
  (* copies *)
  change (foldM (fun b t => b_add_term (set_flags (t_obsolete t) (t_repl t) (new_term (t_name t) (t_id t))) b) terms onto_new)
    with (foldM (fun b t => b_add_term (copy_of t) b) terms onto_new).
  destruct (copies_total terms onto_new) as [b0 Eb0]; [intros t Ht; apply (wf_range _ W t (Hterms t Ht))|].
  rewrite Eb0. cbn [bind].
  destruct (copies terms onto_new b0 binv_default SP_default Eb0) as [B0 [P0 [K0 PR0]]].
  assert (forall x, In x (ar_keys (o_arena b0)) <-> In x ids) as K0' by (intros x; rewrite K0, Emap; cbn; tauto).
  assert (noannot (o_arena b0) /\ norecords b0) as [N0 R0].
  { refine (foldM_inv _ (fun b => noannot (o_arena b) /\ norecords b) _ _ onto_new b0 _ Eb0).
    - intros s t s' _ Hs [Ns Rs]. unfold b_add_term in Hs. apply bind_Ok' in Hs as [a' [Ha Hs]]. injection Hs as <-.
      split; [|intros k; destruct k; [exact (Rs KGene)|exact (Rs KOmim)|exact (Rs KOrpha)]]. cbn [o_arena set_arena].
      unfold ar_insert in Ha. destruct (MAX_HPO_ID <=? _); [discriminate|]. destruct (ar_find _ (o_arena s)); injection Ha as <-; [exact Ns|].
      intros x Hin k. cbn [ar_terms] in Hin. apply in_app_or in Hin as [Hin|[<-|[]]]; [apply Ns, Hin|destruct k; reflexivity].
    - split; [intros t []|intros k; destruct k; reflexivity]. }
  (* induced links *)
  change (foldM (fun a t => foldM (fun a' p => if g_contains p ids then b_add_parent_unchecked p (t_id t) a' else Ok a') (t_parents t) a) terms (o_arena b0))
    with (foldM (fun a t => foldM (inner_step ids (t_id t)) (t_parents t) a) terms (o_arena b0)).
  destruct (induced_links_total ids Sids terms (o_arena b0) B0 P0) as [a1 Ea1];
    [intros t Ht; apply K0'; rewrite <- Emap; apply in_map, Ht|intros p Hp; apply K0', Hp|].
  rewrite Ea1. cbn [bind].
  destruct (induced_links ids Sids terms (o_arena b0) a1 B0 P0) as [B1 [P1 [K1 PR1]]];
    [intros t Ht; apply K0'; rewrite <- Emap; apply in_map, Ht|intros p Hp; apply K0', Hp|exact Ea1|].
  assert (noannot a1) as N1.
  { refine (foldM_inv _ noannot _ _ (o_arena b0) a1 N0 Ea1). intros s t s' _ Hs Ns.
    refine (foldM_inv _ noannot _ _ s s' Ns Hs). intros s2 p s3 _ H3' N2'. unfold inner_step in H3'.
    destruct (g_contains p ids); [|injection H3' as <-; exact N2'].
    unfold b_add_parent_unchecked in H3'. apply bind_Ok' in H3' as [s4 [E1 E2]].
    eapply noannot_update_unchecked; [|intros x k0; apply annots_set_parents|exact E2].
    eapply noannot_update_unchecked; [exact N2'|intros x k0; apply annots_set_children|exact E1]. }
  (* connect_all: the rank is the number of retained ancestors in the source *)
  destruct (connect_all_total (fun id => length (g_inter (allp_of (o_arena o) id) ids)) (default_fuel a1) a1 (b_wf _ B1) (b_empty _ B1)) as [a2 Ea2].
  { intros c p Hcp. apply PR1 in Hcp as [Hcp|[t [Ht [-> [Hp Hpi]]]]]; [exfalso; apply PR0 in Hcp; destruct Hcp as [t0 [Hin0 _]]; destruct Hin0|].
    apply (inner_rank_decreases o ids (t_id t) p Sids G Ac); [exists t; split; [apply (Hterms t Ht)|auto]|exact Hpi]. }
  { intros id Hid. unfold default_fuel.
    assert (length (ar_terms a1) = length ids) as ->.
    { rewrite <- (map_length t_id (ar_terms a1)). fold (ar_keys a1). rewrite K1.
      pose proof (wf_nodup _ (b_wf _ B0)) as Nk. pose proof (sorted_NoDup _ Sids) as Ni.
      assert (incl (ar_keys (o_arena b0)) ids) as I1 by (intros x Hx; apply K0', Hx).
      assert (incl ids (ar_keys (o_arena b0))) as I2 by (intros x Hx; apply K0', Hx).
      pose proof (NoDup_incl_length Nk I1). pose proof (NoDup_incl_length Ni I2). lia. }
    assert (incl (g_inter (allp_of (o_arena o) id) ids) ids) as Hi by (intros x Hx; apply g_inter_In in Hx; tauto).
    assert (NoDup (g_inter (allp_of (o_arena o) id) ids)) as Nd.
    { apply sorted_NoDup, g_inter_sorted; [|exact Sids]. unfold allp_of. destruct (ar_find id (o_arena o)) as [t|] eqn:Ef; [|constructor].
      unfold ar_find in Ef. apply find_by_Some in Ef as [Ht _]. apply (q_sorted_a o G t Ht). }
    pose proof (NoDup_incl_length Nd Hi). lia. }
  rewrite Ea2. cbn [bind].
  set (b2 := set_arena a2 b0).
  assert (BI b2) as Bi2.
  { assert (norecords (set_arena a1 b0)) as Rn by (intros k; destruct k; [exact (R0 KGene)|exact (R0 KOmim)|exact (R0 KOrpha)]).
    assert (b_connect_all_terms (set_arena a1 b0) = Ok b2) as Hc
      by (unfold b_connect_all_terms, b2; cbn [o_arena set_arena]; rewrite Ea2; reflexivity).
    exact (BI_after_connect (set_arena a1 b0) b2 B1 P1 N1 Rn Hc). }
  destruct (connect_all_exact _ _ _ (b_wf _ B1) (b_empty _ B1) Ea2) as [Sm _].
  assert (forall x, In x ids -> In x (ar_keys (o_arena b2))) as K2 by (intros x Hx; unfold b2; cbn [o_arena set_arena]; rewrite (same_keys _ _ Sm), K1; apply K0', Hx).
  assert (RI o b2) as Ri2 by (intros k x Hx; assert (o_records k b2 = []) as E by (unfold b2; rewrite <- (R0 k); destruct k; reflexivity); rewrite E in Hx; destruct Hx).
  (* the three annotation passes *)
  match goal with |- context [sub_annotate KGene o ids ?ph b2] => set (pheno := ph) end.
  destruct (sub_annotate_total KGene o ids pheno b2 Bi2 Ri2 K2) as (b3 & E3 & Bi3 & Ri3 & K3). rewrite E3. cbn [bind].
  destruct (sub_annotate_total KOmim o ids pheno b3 Bi3 Ri3) as (b4 & E4 & Bi4 & Ri4 & K4); [intros x Hx; rewrite K3; apply K2, Hx|]. rewrite E4. cbn [bind].
  destruct (sub_annotate_total KOrpha o ids pheno b4 Bi4 Ri4) as (b5 & E5 & Bi5 & Ri5 & K5); [intros x Hx; rewrite K4, K3; apply K2, Hx|]. rewrite E5. cbn [bind].
  (* calculate_information_content *)
  destruct (calculate_ic_total icf b5) as [b6 E6]; [|rewrite E6; cbn [bind]; eexists; reflexivity].
  intros t k Ht. pose proof (BI_ann_ok b5 Bi5) as A5.
  assert (Nlen (o_records k b5) <= Nlen (o_records k o)) as HN.
  { pose proof (NoDup_incl_length (bi_nodup b5 Bi5 k) (Ri5 k)) as Hle. rewrite !map_length in Hle. unfold Nlen. lia. }
  assert (Nlen (t_annots k t) <= Nlen (o_records k b5)) as Hn.
  { assert (incl (t_annots k t) (map a_id (o_records k b5))) as Hi.
    { intros x Hx. apply (an_exact b5 A5 k t Ht x) in Hx as [r [Hr0 [<- _]]]. apply in_map, Hr0. }
    pose proof (NoDup_incl_length (sorted_NoDup _ (an_sorted b5 A5 k t Ht)) Hi) as Hle. rewrite map_length in Hle. unfold Nlen. lia. }
  apply (Hicf k _ _ HN Hn).
Qed.
