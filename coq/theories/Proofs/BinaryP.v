(* BinaryP.v — facts about the binary codec model (Model/Binary.v) *)
From Coq Require Import ZArith Lia ZifyN ZifyNat ZifyBool.
From HpoV Require Import Gen.Consts Model.Base Model.Group Model.Onto Model.Binary.

Ltac Zify.zify_post_hook ::= Z.div_mod_to_equations.

Lemma bind_Ok {A B} (r : res A) (f : A -> res B) b :
  bind r f = Ok b -> exists a, r = Ok a /\ f a = Ok b.
Proof. destruct r; cbn; try discriminate. intros H. eauto. Qed.

(* big-endian u32: decode after encode *)
Lemma be32_to_be32 n : n < 4294967296 ->
  be32 ((n / 16777216) mod 256) ((n / 65536) mod 256) ((n / 256) mod 256) (n mod 256) = n.
Proof. intros H. unfold be32. lia. Qed.

Lemma u32_at_to_be32 n rest : n < 4294967296 -> u32_at (to_be32 n ++ rest) 0 = Ok n.
Proof.
  intros H. unfold u32_at, idx, to_be32, nat_of. cbn [app N.add N.to_nat].
  change (Pos.to_nat 1) with 1%nat. change (Pos.to_nat 2) with 2%nat. change (Pos.to_nat 3) with 3%nat.
  cbn [nth_error opt_panic bind]. rewrite be32_to_be32 by exact H. reflexivity.
Qed.

Lemma to_be32_length n : length (to_be32 n) = 4%nat.
Proof. reflexivity. Qed.

Lemma to_be32_bytes n : Forall (fun b => b < 256) (to_be32 n).
Proof. unfold to_be32. repeat constructor; apply N.mod_lt; lia. Qed.

(* files shorter than the minimum are rejected with an error *)
Lemma decode_short icf input : Nlen input < MIN_LEN -> decode icf input = Err ParseBinaryError.
Proof.
  intros H. unfold decode, decode_with, bin_version. destruct (N.ltb_spec (Nlen input) MIN_LEN); [reflexivity|lia].
Qed.

(* an unsupported version byte after the magic is rejected with NotImplemented *)
Lemma decode_bad_version icf v rest : v <> 2 -> v <> 3 -> rest <> [] ->
  decode icf (MAGIC_READER ++ [v] ++ rest) = Err NotImplemented.
Proof.
  intros H2 H3 Hr. unfold decode, decode_with, bin_version.
  destruct rest as [|r0 rest]; [congruence|].
  assert (Nlen (MAGIC_READER ++ [v] ++ r0 :: rest) <? MIN_LEN = false) as ->.
  { apply N.ltb_ge. unfold Nlen, MAGIC_READER, MIN_LEN. cbn [app length]. lia. }
  unfold MAGIC_READER. cbn [app firstn list_eqb N.eqb Pos.eqb andb nth_error].
  destruct (N.eqb_spec v 3); [congruence|]. destruct (N.eqb_spec v 2); [congruence|].
  reflexivity.
Qed.

(* the writer announces a version the reader accepts, with the magic the reader expects *)
Lemma writer_version_accepted : mem EMIT_VERSION ACCEPTED_VERSIONS = true /\ MAGIC_WRITER = MAGIC_READER.
Proof. split; reflexivity. Qed.

(* name cutting: never longer than the limit or the name, and on a char boundary *)
Lemma back_off_le s fuel i : back_off s fuel i <= i.
Proof. revert i. induction fuel as [|f IH]; intros i; cbn [back_off]; [lia|].
  destruct (is_char_boundary s i); [lia|]. specialize (IH (i - 1)). lia. Qed.

Lemma cut_len_le limit s : cut_len limit s <= limit /\ cut_len limit s <= Nlen s.
Proof. unfold cut_len. pose proof (back_off_le s 4 (N.min (Nlen s) limit)). lia. Qed.

Lemma cut_len_fits limit s : Nlen s <= limit -> cut_len limit s = Nlen s.
Proof.
  intros H. unfold cut_len. rewrite N.min_l by exact H. cbn [back_off].
  unfold is_char_boundary. destruct (N.eqb_spec (Nlen s) 0); [reflexivity|].
  unfold nat_of, Nlen. rewrite Nat2N.id.
  rewrite (proj2 (nth_error_None s (length s))) by lia. rewrite N.eqb_refl. reflexivity.
Qed.

(* the one-byte length fields can hold every cut name *)
Lemma name_limits_fit_one_byte : TERM_NAME_LIMIT < 256 /\ GENE_NAME_LIMIT < 256.
Proof. split; reflexivity. Qed.
