(* SubAnnotP.v — Ontology::sub_ontology, the annotation part (Model/SubOnt.v): a record of the source
   is kept iff one of its direct terms is a retained non-modifier term; a kept record keeps its id
   and name and exactly its direct terms that are retained; and every term of the result carries
   exactly the kept records with a (restricted) direct term at the term itself or below it. *)
From Coq Require Import Lia Relations Sorted.
From HpoV Require Import Gen.Consts Model.Base Model.Group Model.Onto Model.Query Model.SubOnt Model.Script
  Proofs.GroupP Proofs.BaseP Proofs.ClosureP Proofs.AcyclicP Proofs.DistP Proofs.QgoodP Proofs.LinkP Proofs.RecordsP
  Proofs.SectionP Proofs.RoundTripP Proofs.AnnotP Proofs.BuilderAnnotP Proofs.SubP Proofs.SubLinksP Proofs.C18P.

Definition kept (pheno : group) (r : annot) : Prop := g_is_empty (g_inter (a_hpos r) pheno) = false.

Lemma direct_other k k' id name tid o o' : b_annotate k id name tid o = Ok o' -> k' <> k -> forall g, direct k' o' g = direct k' o g.
Proof. intros H Hne g. destruct (annotate_records k id name tid o o' H) as (_ & _ & R). unfold direct. rewrite (R k' Hne). reflexivity. Qed.

(* all retained direct terms of one record *)
Lemma annotate_terms k id name ts : forall b b', BI b ->
  foldM (fun b2 t => b_annotate k id name t b2) ts b = Ok b' ->
  BI b' /\ forall k' g x, In x (direct k' b' g) <-> In x (direct k' b g) \/ (k' = k /\ g = id /\ In x ts).
Proof.
  induction ts as [|t ts IH]; intros b b' B H; cbn [foldM] in H.
  - injection H as <-. split; [exact B|]. intros k' g x. split; [auto|]. intros [Hx|(_ & _ & Hf)]; [exact Hx|destruct Hf].
  - destruct (b_annotate k id name t b) as [b1| | |] eqn:E1; cbn [bind] in H; try discriminate.
    destruct (IH b1 b' (BI_annotate k id name t b b1 B E1) H) as [B' D'].
    split; [exact B'|]. intros k' g x. rewrite D'. destruct (kind_eq_dec k' k) as [->|Hne].
    + destruct (annotate_records k id name t b b1 E1) as (D1 & _). rewrite D1. cbn [In]. split.
      * intros [[Hx|[-> ->]]|(_ & -> & Hx)]; auto 6.
      * intros [Hx|(_ & -> & [->|Hx])]; auto 6.
    + rewrite (direct_other k k' id name t b b1 E1 Hne). split; [intros [Hx|(E & _)]; [auto|congruence]|intros [Hx|(E & _)]; [auto|congruence]].
Qed.

(* all records of one kind *)
Lemma sub_annotate_spec k ids pheno rs : forall b b', BI b ->
  foldM (fun (b1 : onto) (r : annot) =>
           if g_is_empty (g_inter (a_hpos r) pheno) then Ok b1
           else foldM (fun b2 t => b_annotate k (a_id r) (a_name r) t b2) (g_inter (a_hpos r) ids) b1) rs b = Ok b' ->
  BI b' /\ forall k' g x, In x (direct k' b' g) <->
    In x (direct k' b g) \/ (k' = k /\ exists r, In r rs /\ a_id r = g /\ kept pheno r /\ In x (g_inter (a_hpos r) ids)).
Proof.
  induction rs as [|r rs IH]; intros b b' B H; cbn [foldM] in H.
  - injection H as <-. split; [exact B|]. intros k' g x. split; [auto|]. intros [Hx|(_ & r & Hf & _)]; [exact Hx|destruct Hf].
  - destruct (g_is_empty (g_inter (a_hpos r) pheno)) eqn:Ee; cbn [bind] in H.
    + destruct (IH b b' B H) as [B' D']. split; [exact B'|]. intros k' g x. rewrite D'. split.
      * intros [Hx|(E & r0 & Hr0 & Hrest)]; [auto|right; split; [exact E|exists r0; split; [right; exact Hr0|exact Hrest]]].
      * intros [Hx|(E & r0 & [<-|Hr0] & Hid & Hk & Hx)]; [auto| |].
        -- unfold kept in Hk. congruence.
        -- right. split; [exact E|exists r0; auto].
    + destruct (foldM _ (g_inter (a_hpos r) ids) b) as [b1| | |] eqn:E1; cbn [bind] in H; try discriminate.
      destruct (annotate_terms k (a_id r) (a_name r) _ b b1 B E1) as [B1 D1].
      destruct (IH b1 b' B1 H) as [B' D']. split; [exact B'|]. intros k' g x. rewrite D', D1. split.
      * intros [[Hx|(E & -> & Hx)]|(E & r0 & Hr0 & Hrest)]; [auto| |].
        -- right. split; [exact E|]. exists r. split; [left; reflexivity|]. split; [reflexivity|]. split; [exact Ee|exact Hx].
        -- right. split; [exact E|exists r0; split; [right; exact Hr0|exact Hrest]].
      * intros [Hx|(E & r0 & [<-|Hr0] & Hid & Hk & Hx)]; [auto| |].
        -- left. right. auto.
        -- right. split; [exact E|exists r0; auto].
Qed.

(* ---------------- the stages of sub_ontology ---------------- *)

Lemma sub_ontology_stages icf o root leaves o' : qgood o ->
  (forall l, In l leaves -> In l (ar_keys (o_arena o))) -> sub_ontology icf o root leaves = Ok o' ->
  exists ids terms b2 b3 b4 b5 b6,
    sub_ids o root leaves = Ok ids /\
    Forall2 (fun id t => In t (ar_terms (o_arena o)) /\ t_id t = id) ids terms /\
    BI b2 /\ src_ok b2 /\ (forall x, In x (ar_keys (o_arena b2)) <-> In x ids) /\ norecords b2 /\
    let pheno := g_from_list (map t_id (filter (fun t => g_is_empty (g_inter (g_bitor_id (t_allp t) (t_id t)) (o_mod o))) terms)) in
    sub_annotate KGene o ids pheno b2 = Ok b3 /\ sub_annotate KOmim o ids pheno b3 = Ok b4 /\ sub_annotate KOrpha o ids pheno b4 = Ok b5 /\
    b_calculate_ic icf b5 = Ok b6 /\ o' = b_build_minimal b6.
Proof.
  intros G Hl H. unfold sub_ontology in H.
  destruct (sub_ids o root leaves) as [ids| | |] eqn:Eids; cbn [bind] in H; try discriminate.
  pose proof (sub_ids_in_keys o G root leaves ids Hl Eids) as Hk.
  destruct (mapM (fun id => ar_get_unchecked id (o_arena o)) ids) as [terms| | |] eqn:Et; cbn [bind] in H; try discriminate.
  assert (Forall2 (fun id t => In t (ar_terms (o_arena o)) /\ t_id t = id) ids terms) as Ft.
  { apply mapM_Ok in Et. eapply Forall2_impl_In; [|exact Et]. intros id t Hid _ Hg.
    destruct (get_unchecked_key _ id (q_wf o G) (Hk id Hid)) as [t0 [Hg0 [Hin0 Hid0]]]. rewrite Hg in Hg0. injection Hg0 as ->. auto. }
  assert (map t_id terms = ids) as Emap.
  { clear -Ft. induction Ft as [|id t l l' [_ E] _ IH]; [reflexivity|]. cbn [map]. rewrite E, IH. reflexivity. }
  assert (sorted ids) as Sids.
  { rewrite sub_ids_unfold in Eids. clear -Eids.
    assert (forall leaves acc ids, sorted acc -> foldM (leaf_step o root) leaves acc = Ok ids -> sorted ids) as K.
    { induction leaves0 as [|l ls IH]; intros acc ids0 Sa Hf; cbn [foldM] in Hf; [injection Hf as <-; exact Sa|].
      unfold leaf_step at 1 in Hf. destruct (ar_get_unchecked l (o_arena o)) as [lt| | |]; cbn [bind] in Hf; try discriminate.
      destruct (path_anc (q_fuel o) o lt root) as [[path|]| | |]; cbn [bind] in Hf; try discriminate.
      apply (IH (fold_left g_add path (g_add acc (t_id lt))) ids0); [|exact Hf]. apply fold_g_add_sorted, g_add_sorted, Sa. }
    apply (K leaves [] ids); [constructor|exact Eids]. }
  change (foldM (fun b t => b_add_term (set_flags (t_obsolete t) (t_repl t) (new_term (t_name t) (t_id t))) b) terms onto_new)
    with (foldM (fun b t => b_add_term (copy_of t) b) terms onto_new) in H.
  destruct (foldM (fun b t => b_add_term (copy_of t) b) terms onto_new) as [b0| | |] eqn:Eb0; cbn [bind] in H; try discriminate.
  destruct (copies terms onto_new b0 binv_default SP_default Eb0) as [B0 [P0 [K0 PR0]]].
  assert (forall x, In x (ar_keys (o_arena b0)) <-> In x ids) as K0' by (intros x; rewrite K0, Emap; cbn; tauto).
  assert (SC (o_arena b0)) as C0.
  { refine (foldM_inv _ (fun b => SC (o_arena b)) _ _ onto_new b0 SC_default Eb0).
    intros s t s' _ Hs Cs. unfold b_add_term in Hs. apply bind_Ok' in Hs as [a' [Ha Hs]]. injection Hs as <-. cbn [o_arena set_arena].
    unfold ar_insert in Ha. destruct (MAX_HPO_ID <=? _); [discriminate|]. destruct (ar_find _ (o_arena s)); injection Ha as <-; [exact Cs|].
    intros x [Hin| ->]; [|apply Cs; right; reflexivity]. cbn [ar_terms] in Hin.
    apply in_app_or in Hin as [Hin|[<-|[]]]; [apply Cs; left; exact Hin|constructor]. }
  assert (noannot (o_arena b0) /\ norecords b0) as [N0 R0].
  { refine (foldM_inv _ (fun b => noannot (o_arena b) /\ norecords b) _ _ onto_new b0 _ Eb0).
    - intros s t s' _ Hs [Ns Rs]. unfold b_add_term in Hs. apply bind_Ok' in Hs as [a' [Ha Hs]]. injection Hs as <-.
      split; [|intros k; destruct k; [exact (Rs KGene)|exact (Rs KOmim)|exact (Rs KOrpha)]]. cbn [o_arena set_arena].
      unfold ar_insert in Ha. destruct (MAX_HPO_ID <=? _); [discriminate|]. destruct (ar_find _ (o_arena s)); injection Ha as <-; [exact Ns|].
      intros x Hin k. cbn [ar_terms] in Hin. apply in_app_or in Hin as [Hin|[<-|[]]]; [apply Ns, Hin|destruct k; reflexivity].
    - split; [intros t []|intros k; destruct k; reflexivity]. }
  change (foldM (fun a t => foldM (fun a' p => if g_contains p ids then b_add_parent_unchecked p (t_id t) a' else Ok a') (t_parents t) a) terms (o_arena b0))
    with (foldM (fun a t => foldM (inner_step ids (t_id t)) (t_parents t) a) terms (o_arena b0)) in H.
  destruct (foldM (fun a t => foldM (inner_step ids (t_id t)) (t_parents t) a) terms (o_arena b0)) as [a1| | |] eqn:Ea1; cbn [bind] in H; try discriminate.
  destruct (induced_links ids Sids terms (o_arena b0) a1 B0 P0) as [B1 [P1 [K1 PR1]]];
    [intros t Ht; apply K0'; rewrite <- Emap; apply in_map, Ht|intros p Hp; apply K0', Hp|exact Ea1|].
  assert (noannot a1) as N1.
  { refine (foldM_inv _ noannot _ _ (o_arena b0) a1 N0 Ea1). intros s t s' _ Hs Ns.
    refine (foldM_inv _ noannot _ _ s s' Ns Hs). intros s2 p s3 _ H3' N2'. unfold inner_step in H3'.
    destruct (g_contains p ids); [|injection H3' as <-; exact N2'].
    unfold b_add_parent_unchecked in H3'. apply bind_Ok' in H3' as [s4 [E1 E2]].
    eapply noannot_update_unchecked; [|intros x k0; apply annots_set_parents|exact E2].
    eapply noannot_update_unchecked; [exact N2'|intros x k0; apply annots_set_children|exact E1]. }
  assert (SC a1) as C1.
  { refine (foldM_inv _ SC _ _ (o_arena b0) a1 C0 Ea1). intros s t s' _ Hs Cs.
    refine (foldM_inv _ SC _ _ s s' Cs Hs). intros s2 p s3 _ H3' C2'. unfold inner_step in H3'.
    destruct (g_contains p ids); [|injection H3' as <-; exact C2']. apply (SC_unchecked p (t_id t) s2 s3 C2' H3'). }
  destruct (connect_all (default_fuel a1) a1) as [a2| | |] eqn:Ea2; cbn [bind] in H; try discriminate.
  assert (BI (set_arena a2 b0)) as Bi2.
  { assert (norecords (set_arena a1 b0)) as Rn by (intros k; destruct k; [exact (R0 KGene)|exact (R0 KOmim)|exact (R0 KOrpha)]).
    assert (b_connect_all_terms (set_arena a1 b0) = Ok (set_arena a2 b0)) as Hc
      by (unfold b_connect_all_terms; cbn [o_arena set_arena]; rewrite Ea2; reflexivity).
    exact (BI_after_connect (set_arena a1 b0) (set_arena a2 b0) B1 P1 N1 Rn Hc). }
  destruct (connect_all_exact _ _ _ (b_wf _ B1) (b_empty _ B1) Ea2) as [Sm _].
  set (b2 := set_arena a2 b0) in *.
  match type of H with context [sub_annotate KGene o ids ?ph b2] => set (pheno := ph) in * end.
  destruct (sub_annotate KGene o ids pheno b2) as [b3| | |] eqn:E3; cbn [bind] in H; try discriminate.
  destruct (sub_annotate KOmim o ids pheno b3) as [b4| | |] eqn:E4; cbn [bind] in H; try discriminate.
  destruct (sub_annotate KOrpha o ids pheno b4) as [b5| | |] eqn:E5; cbn [bind] in H; try discriminate.
  destruct (b_calculate_ic icf b5) as [b6| | |] eqn:E6; cbn [bind] in H; try discriminate.
  injection H as <-.
  exists ids, terms, b2, b3, b4, b5, b6. split; [reflexivity|]. split; [exact Ft|]. split; [exact Bi2|].
  split.
  { constructor; [exact (bi_q _ Bi2)| |]; unfold b2; cbn [o_arena set_arena].
    - intros c p. rewrite <- (same_parent_rel _ _ c p Sm), <- (same_child_rel _ _ p c Sm). apply (b_inverse _ B1).
    - intros t Ht. apply (SC_same _ _ Sm C1 t Ht). }
  split; [intros x; unfold b2; cbn [o_arena set_arena]; rewrite (same_keys _ _ Sm), K1; apply K0'|].
  split; [intros k; destruct k; [exact (R0 KGene)|exact (R0 KOmim)|exact (R0 KOrpha)]|].
  cbv zeta. fold pheno. auto 10.
Qed.

Lemma sub_annotate_unfold k o ids pheno b : sub_annotate k o ids pheno b =
  foldM (fun (b1 : onto) (r : annot) =>
           if g_is_empty (g_inter (a_hpos r) pheno) then Ok b1
           else foldM (fun b2 t => b_annotate k (a_id r) (a_name r) t b2) (g_inter (a_hpos r) ids) b1)
        (sort_by a_id (o_records k o)) b.
Proof. reflexivity. Qed.

(* THE ANNOTATIONS OF A SUB-ONTOLOGY *)
Theorem sub_ontology_annotations icf o root leaves o' : qgood o ->
  (forall l, In l leaves -> In l (ar_keys (o_arena o))) -> sub_ontology icf o root leaves = Ok o' ->
  exists ids terms, sub_ids o root leaves = Ok ids /\
    Forall2 (fun id t => In t (ar_terms (o_arena o)) /\ t_id t = id) ids terms /\
    let pheno := g_from_list (map t_id (filter (fun t => g_is_empty (g_inter (g_bitor_id (t_allp t) (t_id t)) (o_mod o))) terms)) in
    acyclic (o_arena o') /\ ann_ok o' /\
    forall k g x, In x (direct k o' g) <->
      exists r, In r (o_records k o) /\ a_id r = g /\ kept pheno r /\ In x (a_hpos r) /\ In x ids.
Proof.
  intros G Hl H.
  destruct (sub_ontology_stages icf o root leaves o' G Hl H) as (ids & terms & b2 & b3 & b4 & b5 & b6 & Eids & Ft & Bi2 & _ & K2 & R2 & Hst).
  cbv zeta in Hst. set (pheno := g_from_list _) in *. destruct Hst as (E3 & E4 & E5 & E6 & ->).
  exists ids, terms. split; [exact Eids|]. split; [exact Ft|]. cbv zeta. fold pheno.
  rewrite sub_annotate_unfold in E3, E4, E5.
  destruct (sub_annotate_spec KGene ids pheno _ b2 b3 Bi2 E3) as [Bi3 D3].
  destruct (sub_annotate_spec KOmim ids pheno _ b3 b4 Bi3 E4) as [Bi4 D4].
  destruct (sub_annotate_spec KOrpha ids pheno _ b4 b5 Bi4 E5) as [Bi5 D5].
  assert (forall k g, direct k b2 g = []) as D2 by (intros k g; unfold direct; rewrite (R2 k); reflexivity).
  (* calculate_information_content and build_minimal *)
  assert (Forall2 (fun t t' => t_id t' = t_id t /\ t_allp t' = t_allp t /\ forall k, t_annots k t' = t_annots k t)
                  (ar_terms (o_arena b5)) (ar_terms (o_arena (b_build_minimal b6))) /\ forall k, o_records k (b_build_minimal b6) = o_records k b5) as [F6 R6].
  { unfold b_calculate_ic in E6. destruct (mapM (term_ic icf b5) (ar_terms (o_arena b5))) as [ts| | |] eqn:Em; cbn [bind] in E6; try discriminate.
    injection E6 as <-. split; [|intros k; destruct k; reflexivity]. cbn [o_arena set_arena ar_terms b_build_minimal set_mod set_cat]. apply mapM_Ok in Em.
    eapply Forall2_impl_In; [|exact Em]. intros t t' _ _ Ht. unfold term_ic in Ht.
    destruct (icf _ _) as [g| | |]; cbn [bind] in Ht; try discriminate.
    destruct (icf _ _) as [m| | |]; cbn [bind] in Ht; try discriminate.
    destruct (icf _ _) as [r| | |]; cbn [bind] in Ht; try discriminate.
    injection Ht as <-. split; [destruct t; reflexivity|split; [destruct t; reflexivity|intros k; apply annots_set_ic]]. }
  split; [|split].
  - apply (ranked_links (o_arena b5) _); [|apply (bi_ac b5 Bi5)]. unfold same_links.
    eapply Forall2_impl_In; [|apply (calculate_ic_same_struct icf b5 b6 E6)]. intros t t' _ _ (A1 & _ & _ & _ & A5 & _ & A7). auto.
  - apply (ann_ok_transfer b5 _ (BI_ann_ok b5 Bi5) R6 F6).
  - intros k g x. unfold direct at 1. rewrite R6. fold (direct k b5 g).
    rewrite D5, D4, D3, D2. cbn [In]. split.
    + intros [[[[]|(-> & r & Hr & Hid & Hk & Hx)]|(-> & r & Hr & Hid & Hk & Hx)]|(-> & r & Hr & Hid & Hk & Hx)];
        apply C18P.sort_by_In in Hr; apply g_inter_In in Hx as [Hx1 Hx2]; exists r; auto 6.
    + intros (r & Hr & Hid & Hk & Hx1 & Hx2). assert (In x (g_inter (a_hpos r) ids)) as Hx by (apply g_inter_In; auto).
      destruct k; [left; left; right|left; right|right]; (split; [reflexivity|]); exists r; (split; [apply C18P.sort_by_In; exact Hr|auto]).
Qed.
