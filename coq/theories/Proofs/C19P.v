(* C19P.v — default categories / modifiers: model-level characterisation and spec soundness *)
From Coq Require Import Sorted Lia.
From HpoV Require Import Gen.Consts Model.Base Model.Group Model.Onto Spec.Sets Proofs.GroupP Proofs.SetsP
  Proofs.BaseP Model.Query Model.Dump Model.Script Run.World Run.C02 Run.C19.

(* model: HpoTerm::is_modifier is "the term or one of its ancestors is a modifier root" *)
Lemma self_or_anc_contains allp id r : sorted allp ->
  g_contains r (g_bitor_id allp id) = true <-> (r = id \/ In r allp).
Proof.
  intros Hs. unfold g_bitor_id. rewrite g_contains_spec by (apply g_add_sorted, Hs).
  apply g_add_In.
Qed.

Theorem is_modifier_spec o t : sorted (t_allp t) ->
  (is_modifier o t = true <-> exists r, In r (o_mod o) /\ (r = t_id t \/ In r (t_allp t))).
Proof.
  intros Hs. unfold is_modifier. rewrite existsb_exists. split; intros [r [Hr H]]; exists r; split; auto;
    apply (self_or_anc_contains _ _ _ Hs); exact H.
Qed.

Theorem categories_spec o t : sorted (t_allp t) -> forall c,
  In c (categories o t) <-> In c (o_cat o) /\ (c = t_id t \/ In c (t_allp t)).
Proof.
  intros Hs c. unfold categories. rewrite filter_In. rewrite (self_or_anc_contains _ _ _ Hs). tauto.
Qed.

Theorem categories_sorted o t : sorted (o_cat o) -> sorted (categories o t).
Proof. intros H. apply filter_sorted, H. Qed.

(* model: the defaults are the documented sets *)
Theorem default_modifier_spec o o' : set_default_modifier o = Ok o' ->
  exists root, o_get ROOT_ID o = Some root /\ sorted (o_mod o') /\
    forall r, In r (o_mod o') <-> In r (t_children root) /\ r <> PHENOTYPE_ID.
Proof.
  unfold set_default_modifier. destruct (o_get ROOT_ID o) as [root|]; [|discriminate].
  intros [= <-]. exists root. split; [reflexivity|]. cbn [o_mod set_mod]. split; [apply g_from_list_sorted|].
  intros r. rewrite g_from_list_In, filter_In. unfold neqb_pheno. rewrite negb_true_iff, N.eqb_neq. tauto.
Qed.

Theorem default_categories_spec o o' : set_default_categories o = Ok o' ->
  exists root ph, o_get ROOT_ID_CAT o = Some root /\ o_get PHENOTYPE_ID o = Some ph /\ sorted (o_cat o') /\
    forall c, In c (o_cat o') <-> (In c (t_children root) /\ c <> PHENOTYPE_ID) \/ In c (t_children ph).
Proof.
  unfold set_default_categories. destruct (o_get ROOT_ID_CAT o) as [root|]; [|discriminate].
  destruct (o_get PHENOTYPE_ID o) as [ph|]; [|discriminate].
  intros [= <-]. exists root, ph. repeat split; try reflexivity; cbn [o_cat set_cat]; [apply g_from_list_sorted| |].
  - intros H. apply g_from_list_In, in_app_iff in H as [H|H]; [left|right; exact H].
    apply filter_In in H as [H1 H2]. unfold neqb_pheno in H2. rewrite negb_true_iff, N.eqb_neq in H2. tauto.
  - intros H. apply g_from_list_In, in_app_iff. destruct H as [[H1 H2]|H]; [left|right; exact H].
    apply filter_In. split; [exact H1|]. unfold neqb_pheno. rewrite negb_true_iff, N.eqb_neq. exact H2.
Qed.

Theorem defaults_error o : (exists e, b_build_with_defaults o = Err e) <->
  (o_get ROOT_ID o = None \/ o_get PHENOTYPE_ID o = None).
Proof.
  unfold b_build_with_defaults, set_default_categories, set_default_modifier, b_build_minimal.
  change ROOT_ID_CAT with ROOT_ID.
  unfold o_get. cbn [o_arena set_cat set_mod bind].
  destruct (ar_get ROOT_ID (o_arena o)) as [root|] eqn:E1; cbn [bind].
  - destruct (ar_get PHENOTYPE_ID (o_arena o)) as [ph|] eqn:E2; cbn [bind o_arena set_cat].
    + change (o_arena (set_mod [] (set_cat [] o))) with (o_arena o). rewrite E1.
      split; [intros [e H]; discriminate|intros [H|H]; discriminate].
    + split; [intros _; right; reflexivity|intros _; eexists; reflexivity].
  - split; [intros _; left; reflexivity|intros _; eexists; reflexivity].
Qed.
