(* RoundTripAllP.v — C07 assembled for every ontology a Builder script produces. *)
From Coq Require Import Lia Relations Sorted Permutation.
From HpoV Require Import Gen.Consts Model.Base Model.Group Model.Onto Model.Query Model.Dump Model.Script Model.Binary
  Proofs.GroupP Proofs.BaseP Proofs.ClosureP Proofs.AcyclicP Proofs.DistP Proofs.QgoodP Proofs.LinkP Proofs.C03W
  Proofs.SectionP Proofs.RoundTripP Proofs.AnnotP Proofs.BuilderAnnotP Proofs.BuilderICP Proofs.ReloadP.

Lemma build_with_defaults_records o o' : b_build_with_defaults o = Ok o' -> forall k, o_records k o' = o_records k o.
Proof.
  unfold b_build_with_defaults, set_default_categories, set_default_modifier. intros H.
  destruct (o_get ROOT_ID_CAT (b_build_minimal o)); [|discriminate].
  destruct (o_get PHENOTYPE_ID (b_build_minimal o)); [|discriminate]. cbn [bind] in H.
  match type of H with context [o_get ROOT_ID ?x] => destruct (o_get ROOT_ID x) end; [|discriminate].
  injection H as <-. intros k; destruct k; reflexivity.
Qed.

Theorem run_script_records_nodup icf s codes o : run_script icf s = Ok (codes, Ok o) ->
  forall k, NoDup (map a_id (o_records k o)).
Proof.
  destruct s as [[[[ver terms] parents] annots] kindb] eqn:Es. unfold run_script. intros H.
  apply bind_Ok' in H as [[ob cs] [Hb H]].
  destruct (run_builder_stages _ ob cs Hb) as (o2 & o3 & an & c4 & B2 & P2 & _ & N2 & R2 & Hc & Hr).
  pose proof (BI_run an o3 ob c4 (BI_after_connect o2 o3 B2 P2 N2 R2 Hc) Hr) as Bb.
  unfold finish in H. destruct (b_calculate_ic icf ob) as [o5| | |] eqn:E5; cbn [bind] in H; try discriminate.
  destruct (calculate_ic_spec icf ob o5 E5) as (R5 & _).
  destruct (kindb =? 0).
  - injection H as _ <-. intros k. assert (o_records k (b_build_minimal o5) = o_records k o5) as -> by (destruct k; reflexivity).
    rewrite R5. apply (bi_nodup ob Bb).
  - destruct (b_build_with_defaults o5) as [o6| | |] eqn:E6; try discriminate. injection H as _ <-.
    intros k. rewrite (build_with_defaults_records o5 o6 E6), R5. apply (bi_nodup ob Bb).
Qed.

(* build_with_defaults is idempotent: its result is a fixed point *)
Lemma build_with_defaults_fix o o' : b_build_with_defaults o = Ok o' -> b_build_with_defaults o' = Ok o'.
Proof.
  intros H. unfold b_build_with_defaults, set_default_categories, set_default_modifier, o_get in *.
  cbn [o_arena set_cat set_mod b_build_minimal] in *.
  destruct (ar_get ROOT_ID_CAT (o_arena o)) as [r|] eqn:E1; cbn [bind] in H; [|discriminate H].
  destruct (ar_get PHENOTYPE_ID (o_arena o)) as [p|] eqn:E2; cbn [bind o_arena set_cat set_mod b_build_minimal] in H; [|discriminate H].
  destruct (ar_get ROOT_ID (o_arena o)) as [r1|] eqn:E3; [|discriminate H].
  injection H as <-. cbn [o_arena set_mod set_cat b_build_minimal]. rewrite E1, E2. cbn [bind o_arena set_mod set_cat b_build_minimal]. rewrite E3.
  reflexivity.
Qed.

(* THE BINARY ROUND TRIP OF EVERY BUILDER-BUILT ONTOLOGY: whatever script built o (any calls, any
   order, failing calls included), if the format can carry o, then for every permutation of the
   records in the file a reload with the same information-content function returns
   (1) every term at the same position with the same id, name (cut at the limit), flags, parents,
       children and ancestor cache,
   (2) with the same three annotation sets,
   (3) and the same information content;
   (4) exactly the records written (gene names cut at the limit), in file order, and the release
       version;
   (5) and, if the script ended in build_with_defaults, the same category and modifier sets. *)
Theorem builder_roundtrip_complete icf s codes o order o'' :
  run_script icf s = Ok (codes, Ok o) -> file_ok order o -> (forall l, Permutation (order l) l) ->
  decode icf (encode_with order o) = Ok o'' ->
  Forall2 term_kept (ar_terms (o_arena o)) (ar_terms (o_arena o'')) /\
  Forall2 (fun t t'' => forall k, t_annots k t'' = t_annots k t) (ar_terms (o_arena o)) (ar_terms (o_arena o'')) /\
  Forall2 (fun t t'' => t_ic t'' = t_ic t) (ar_terms (o_arena o)) (ar_terms (o_arena o'')) /\
  (forall k, o_records k o'' = map (raw_record k) (order (o_records k o))) /\ o_version o'' = o_version o /\
  (b_build_with_defaults o = Ok o -> o_cat o'' = o_cat o /\ o_mod o'' = o_mod o).
Proof.
  intros Hs F Hp Hd. rewrite (decode_encode_is_rebuild icf order o F) in Hd.
  pose proof (run_script_src_ok icf s codes o Hs) as S.
  destruct (run_script_ann_ok icf s codes o Hs) as [Ac A].
  pose proof (run_script_records_nodup icf s codes o Hs) as Nd.
  assert (ic_ok icf o) as Ic by (intros t Ht k; apply (run_script_ic icf s codes o Hs t Ht k)).
  split; [apply (rebuild_keeps_terms icf order o o'' S Hd)|].
  split; [apply (rebuild_keeps_annotations icf order o o'' S Ac A (perm_In order Hp) Hd)|].
  split; [apply (rebuild_keeps_ic icf order o o'' S Ac A Ic Hp Nd Hd)|].
  destruct (rebuild_records icf order o o'' Hp Nd Hd) as [R V]. split; [exact R|]. split; [exact V|].
  intros Fix. apply (rebuild_keeps_defaults icf order o o'' S Fix Hd).
Qed.

(* the premise of (5) holds whenever the script ended in build_with_defaults *)
Theorem builder_defaults_fixed icf s codes o : run_script icf s = Ok (codes, Ok o) ->
  (let '(_, _, _, _, kindb) := s in kindb =? 0) = false -> b_build_with_defaults o = Ok o.
Proof.
  destruct s as [[[[ver terms] parents] annots] kindb]. unfold run_script. intros H Hk.
  apply bind_Ok' in H as [[ob cs] [Hb H]]. unfold finish in H.
  destruct (b_calculate_ic icf ob) as [o5| | |]; cbn [bind] in H; try discriminate. rewrite Hk in H.
  destruct (b_build_with_defaults o5) as [o6| | |] eqn:E6; try discriminate. injection H as _ <-.
  apply (build_with_defaults_fix o5 o6 E6).
Qed.
