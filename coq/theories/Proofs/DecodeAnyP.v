(* DecodeAnyP.v — Ontology::from_bytes on ANY byte string it accepts (not only on what as_bytes
   wrote): if every id of the parent section names a term of the term section (bin_closed) and no
   record id occurs twice inside one annotation section (bin_distinct), the ontology returned has
   exact ancestor caches with children = parents^-1 (src_ok), is acyclic, carries on every term
   exactly the inherited annotations of the records kept (ann_ok), the information content
   calculate(N, n) (ic_ok), the records of the file in file order, and its default sets are a fixed
   point of build_with_defaults.  Both hypotheses are needed: an absent id in the parent section
   mutates the arena's placeholder slot (ar_update_unchecked) and leaves a dangling link; a repeated
   record id replaces the stored record while the links of the first one stay. *)
From Coq Require Import Lia Relations Sorted Permutation.
From HpoV Require Import Gen.Consts Model.Base Model.Group Model.Onto Model.Query Model.Dump Model.Script Model.Binary
  Proofs.GroupP Proofs.BaseP Proofs.ClosureP Proofs.AcyclicP Proofs.DistP Proofs.QgoodP Proofs.LinkP Proofs.C03W
  Proofs.SectionP Proofs.RoundTripP Proofs.AnnotP Proofs.BuilderAnnotP Proofs.ReloadP Proofs.RoundTripAllP
  Proofs.SubLinksP Proofs.RecordsP Proofs.C09P Proofs.JaxP Proofs.RoundTripSrcP.

(* ---------------- what the sections say (no arena involved) ---------------- *)

Fixpoint parse_parent_ids (n : nat) (b : bytes) (i : N) : res (list N * N) :=
  match n with
  | O => Ok ([], i)
  | S n' => do p <- u32_at b i ;; do r <- parse_parent_ids n' b (i + 4) ;; let (ps, j) := r : list N * N in Ok (p :: ps, j)
  end.

(* (child, parent) pairs in file order *)
Fixpoint parse_parents (fuel : nat) (b : bytes) (i : N) : res (list (N * N)) :=
  match fuel with
  | O => Fuel
  | S f =>
      if i =? Nlen b then Ok []
      else
        do np <- u32_from b i ;;
        do term <- u32_at b (i + 4) ;;
        do r <- parse_parent_ids (nat_of np) b (i + 8) ;;
        let (ps, i') := r : list N * N in
        do rest <- parse_parents f b i' ;;
        Ok (map (fun p => (term, p)) ps ++ rest)
  end.

Fixpoint parse_records (fuel : nat) (k : kind) (b : bytes) (i : N) : res (list annot) :=
  match fuel with
  | O => Fuel
  | S f =>
      if Nlen b <=? i then Ok []
      else
        do rl <- u32_from b i ;;
        do rb <- slice b i (i + rl) ;;
        do r <- (match k with KGene => gene_of_bytes rb | _ => disease_of_bytes rb end) ;;
        do rest <- parse_records f k b (i + rl) ;;
        Ok (r :: rest)
  end.

Lemma read_parent_ids_parse n : forall b i term a a' i',
  read_parent_ids n b i term a = Ok (a', i') ->
  exists ps, parse_parent_ids n b i = Ok (ps, i') /\ foldM (fun a p => b_add_parent_unchecked p term a) ps a = Ok a'.
Proof.
  induction n as [|n IH]; intros b i term a a' i' H; cbn [read_parent_ids parse_parent_ids] in *.
  - injection H as <- <-. exists []. split; reflexivity.
  - destruct (u32_at b i) as [p| | |]; cbn [bind] in *; try discriminate.
    destruct (b_add_parent_unchecked p term a) as [a1| | |] eqn:E1; cbn [bind] in H; try discriminate.
    destruct (IH b (i + 4) term a1 a' i' H) as [ps [Hp Hf]]. rewrite Hp. cbn [bind].
    exists (p :: ps). split; [reflexivity|]. cbn [foldM]. rewrite E1. cbn [bind]. exact Hf.
Qed.

Lemma read_parents_parse f : forall b i a a', read_parents f b i a = Ok a' ->
  exists conns, parse_parents f b i = Ok conns /\
    foldM (fun a (cp : N * N) => b_add_parent_unchecked (snd cp) (fst cp) a) conns a = Ok a'.
Proof.
  induction f as [|f IH]; intros b i a a' H; cbn [read_parents parse_parents] in *; [discriminate|].
  destruct (i =? Nlen b); [injection H as <-; exists []; split; reflexivity|].
  destruct (u32_from b i) as [np| | |]; cbn [bind] in *; try discriminate.
  destruct (u32_at b (i + 4)) as [term| | |]; cbn [bind] in *; try discriminate.
  destruct (read_parent_ids (nat_of np) b (i + 8) term a) as [[a1 i1]| | |] eqn:E1; cbn [bind] in H; try discriminate.
  destruct (read_parent_ids_parse _ _ _ _ _ _ _ E1) as [ps [Hp Hf]]. rewrite Hp. cbn [bind].
  destruct (IH b i1 a1 a' H) as [rest [Hr Hfr]]. rewrite Hr. cbn [bind].
  exists (map (fun p => (term, p)) ps ++ rest). split; [reflexivity|]. rewrite foldM_app2.
  assert (foldM (fun a0 (cp : N * N) => b_add_parent_unchecked (snd cp) (fst cp) a0) (map (fun p => (term, p)) ps) a = Ok a1) as ->; [|exact Hfr].
  clear -Hf. revert a Hf. induction ps as [|p ps IHp]; intros a Hf; cbn [foldM map] in *; [exact Hf|].
  cbn [fst snd]. destruct (b_add_parent_unchecked p term a) as [a2| | |]; cbn [bind] in *; try discriminate. apply IHp, Hf.
Qed.

Lemma read_records_parse f k : forall b i o o', read_records f k b i o = Ok o' ->
  exists rs, parse_records f k b i = Ok rs /\ foldM (load_record k) rs o = Ok o'.
Proof.
  induction f as [|f IH]; intros b i o o' H; cbn [read_records parse_records] in *; [discriminate|].
  destruct (Nlen b <=? i); [injection H as <-; exists []; split; reflexivity|].
  destruct (u32_from b i) as [rl| | |]; cbn [bind] in *; try discriminate.
  destruct (slice b i (i + rl)) as [rb| | |]; cbn [bind] in *; try discriminate.
  destruct (match k with KGene => gene_of_bytes rb | _ => disease_of_bytes rb end) as [r| | |]; cbn [bind] in *; try discriminate.
  destruct (foldM (fun a t => link (link_fuel a) k a t (a_id r)) (a_hpos r) (o_arena o)) as [a1| | |] eqn:El; cbn [bind] in H; try discriminate.
  destruct (IH b (i + rl) _ o' H) as [rest [Hr Hf]]. rewrite Hr. cbn [bind].
  exists (r :: rest). split; [reflexivity|]. cbn [foldM]. unfold load_record at 1. rewrite El. cbn [bind]. exact Hf.
Qed.

(* ---------------- the term section: any accepted bytes leave a blank, well-formed arena ---------------- *)

Definition blank_ok (a : arena) : Prop := binv a /\ SP a /\ SC a /\ noannot a.

Lemma term_of_bytes_blank v b t : (match v with V1 => term_v1 b | _ => term_v2 b end) = Ok t ->
  t_parents t = [] /\ t_children t = [] /\ t_allp t = [] /\ forall k, t_annots k t = [].
Proof.
  assert (forall name id, let t0 := new_term name id in
            t_parents t0 = [] /\ t_children t0 = [] /\ t_allp t0 = [] /\ forall k, t_annots k t0 = []) as Hn
    by (intros name id; repeat split; intros k; destruct k; reflexivity).
  assert (forall o r t0, (t_parents t0 = [] /\ t_children t0 = [] /\ t_allp t0 = [] /\ forall k, t_annots k t0 = []) ->
            let t1 := set_flags o r t0 in t_parents t1 = [] /\ t_children t1 = [] /\ t_allp t1 = [] /\ forall k, t_annots k t1 = []) as Hs.
  { intros o r t0 (A & B & C & D). destruct t0; cbn in *. repeat split; try assumption. }
  intros H. destruct v.
  - unfold term_v1 in H. destruct (Nlen b <? 9); [discriminate|].
    destruct (u32_at b 0) as [total| | |]; cbn [bind] in H; try discriminate.
    destruct (u32_at b 4) as [id| | |]; cbn [bind] in H; try discriminate.
    destruct (idx b 8) as [nl| | |]; cbn [bind] in H; try discriminate.
    destruct (Nlen b <? 9 + nl); [discriminate|].
    destruct (slice b 9 total) as [name| | |]; cbn [bind] in H; try discriminate.
    destruct (utf8_valid name); [|discriminate]. injection H as <-. apply Hn.
  - unfold term_v2 in H. destruct (Nlen b <? 14); [discriminate|].
    destruct (u32_at b 4) as [id| | |]; cbn [bind] in H; try discriminate.
    destruct (idx b 8) as [nl| | |]; cbn [bind] in H; try discriminate.
    destruct (Nlen b <? 14 + nl); [discriminate|].
    destruct (slice b 9 (9 + nl)) as [name| | |]; cbn [bind] in H; try discriminate.
    destruct (utf8_valid name); [|discriminate].
    destruct (idx b (9 + nl)) as [fl| | |]; cbn [bind] in H; try discriminate.
    destruct (u32_at b (10 + nl)) as [repl| | |]; cbn [bind] in H; try discriminate.
    injection H as <-. apply Hs, Hn.
  - unfold term_v2 in H. destruct (Nlen b <? 14); [discriminate|].
    destruct (u32_at b 4) as [id| | |]; cbn [bind] in H; try discriminate.
    destruct (idx b 8) as [nl| | |]; cbn [bind] in H; try discriminate.
    destruct (Nlen b <? 14 + nl); [discriminate|].
    destruct (slice b 9 (9 + nl)) as [name| | |]; cbn [bind] in H; try discriminate.
    destruct (utf8_valid name); [|discriminate].
    destruct (idx b (9 + nl)) as [fl| | |]; cbn [bind] in H; try discriminate.
    destruct (u32_at b (10 + nl)) as [repl| | |]; cbn [bind] in H; try discriminate.
    injection H as <-. apply Hs, Hn.
Qed.

Lemma insert_blank_ok t a a' : t_parents t = [] -> t_children t = [] -> t_allp t = [] -> (forall k, t_annots k t = []) ->
  blank_ok a -> ar_insert t a = Ok a' -> blank_ok a'.
Proof.
  intros E1 E2 E3 E4 (B & P & C & Na) Ei. split; [apply (binv_insert _ t a' B E1 E2 E3 Ei)|].
  split; [apply (SP_insert_empty t _ a' E1 E3 P Ei)|].
  unfold ar_insert in Ei. destruct (MAX_HPO_ID <=? _); [discriminate|]. destruct (ar_find _ a); injection Ei as <-; [split; assumption|].
  split.
  - intros x [Hin| ->]; [|apply C; right; reflexivity]. cbn [ar_terms] in Hin.
    apply in_app_or in Hin as [Hin|[<-|[]]]; [apply C; left; exact Hin|rewrite E2; constructor].
  - intros x Hin k. cbn [ar_terms] in Hin. apply in_app_or in Hin as [Hin|[<-|[]]]; [apply Na, Hin|apply E4].
Qed.

Lemma read_terms_blank f v : forall b a a', read_terms f v b a = Ok a' -> blank_ok a -> blank_ok a'.
Proof.
  induction f as [|f IH]; intros b a a' H Ba; cbn [read_terms] in H; [discriminate|].
  destruct b as [|x b']; [injection H as <-; exact Ba|]. set (b := x :: b') in *.
  destruct (Nlen b <=? 4); [discriminate|].
  destruct (u32_at b 0) as [tl| | |]; cbn [bind] in H; try discriminate.
  destruct (Nlen b <? tl); [discriminate|].
  destruct (match v with V1 => term_v1 b | _ => term_v2 b end) as [t| | |] eqn:Et; try discriminate.
  destruct (ar_insert t a) as [a1| | |] eqn:Ei; cbn [bind] in H; try discriminate.
  destruct (term_of_bytes_blank v b t Et) as (E1 & E2 & E3 & E4).
  apply (IH _ a1 a' H). apply (insert_blank_ok t a a1 E1 E2 E3 E4 Ba Ei).
Qed.

Lemma blank_default : blank_ok arena_default.
Proof. split; [apply binv_default|split; [apply SP_default|split; [apply SC_default|intros t []]]]. Qed.

(* ---------------- the loading pipeline on arbitrary parsed sections ---------------- *)

Lemma in_records_find k o r : NoDup (map a_id (o_records k o)) -> In r (o_records k o) -> an_find (a_id r) (o_records k o) = Some r.
Proof. intros Nd Hin. unfold an_find. apply find_by_unique; assumption. Qed.

Theorem pipeline_ok icf ver a1 conns a2 a3 gs ms os o4 o5 o6 o7 o :
  blank_ok a1 ->
  Forall (fun cp : N * N => In (fst cp) (ar_keys a1) /\ In (snd cp) (ar_keys a1)) conns ->
  foldM (fun a (cp : N * N) => b_add_parent_unchecked (snd cp) (fst cp) a) conns a1 = Ok a2 ->
  connect_all (default_fuel a2) a2 = Ok a3 ->
  foldM (load_record KGene) gs (set_arena a3 (set_version ver onto_new)) = Ok o4 ->
  foldM (load_record KOmim) ms o4 = Ok o5 ->
  foldM (load_record KOrpha) os o5 = Ok o6 ->
  NoDup (map a_id gs) -> NoDup (map a_id ms) -> NoDup (map a_id os) ->
  b_calculate_ic icf o6 = Ok o7 -> b_build_with_defaults o7 = Ok o ->
  src_ok o /\ acyclic (o_arena o) /\ ann_ok o /\ ic_ok icf o /\
  (o_records KGene o = gs /\ o_records KOmim o = ms /\ o_records KOrpha o = os) /\ o_version o = ver /\
  b_build_with_defaults o = Ok o.
Proof.
  intros (B1 & P1 & C1 & N1) Hcl H2 H3 H4 H5 H6 NdG NdM NdO H7 H8.
  destruct (obo_links conns a1 a2 B1 P1 N1 Hcl H2) as (B2 & P2 & N2 & K2).
  pose proof (obo_links_SC conns a1 a2 C1 H2) as C2.
  set (o0 := set_version ver onto_new) in *. set (o2 := set_arena a2 o0). set (o3 := set_arena a3 o0) in *.
  assert (b_connect_all_terms o2 = Ok o3) as Hc by (unfold b_connect_all_terms, o2; cbn [o_arena set_arena]; rewrite H3; reflexivity).
  assert (norecords o2) as R2 by (intros k; destruct k; reflexivity).
  pose proof (connect_src_ok o2 o3 B2 P2 C2 Hc) as S3.
  pose proof (BI_after_connect o2 o3 B2 P2 N2 R2 Hc) as Bi3.
  pose proof (bi_q o3 Bi3) as G3. pose proof (bi_ac o3 Bi3) as R3.
  assert (noannot (o_arena o3)) as N3.
  { intros t Ht k. destruct (t_annots k t) as [|x l] eqn:E; [reflexivity|exfalso].
    assert (In x (t_annots k t)) as Hx by (rewrite E; left; reflexivity).
    apply (bi_exact o3 Bi3 k t Ht x) in Hx as [d [Hd _]]. unfold direct in Hd.
    assert (o_records k o3 = []) as Er by (destruct k; reflexivity). rewrite Er in Hd. destruct Hd. }
  (* the three phases *)
  destruct (phase_spec KGene o3 _ o4 G3 R3 (fun t0 Ht0 => N3 t0 Ht0 KGene) H4) as [FrG SpG].
  pose proof (frame_same_struct _ _ _ FrG) as SSG.
  assert (qgood o4) as G4 by (apply (qgood_same_links o3 o4 G3), same_struct_links, SSG).
  assert (acyclic (o_arena o4)) as R4 by (apply (ranked_links _ _ (same_struct_links _ _ SSG) R3)).
  assert (forall t0, In t0 (ar_terms (o_arena o4)) -> t_annots KOmim t0 = [] /\ t_annots KOrpha t0 = []) as N4.
  { intros t0 H0. destruct (frame_In_r KGene _ _ t0 FrG H0) as [t3 [Ht3 ->]].
    rewrite !other_kind_annots by discriminate. split; apply (N3 t3 Ht3). }
  destruct (phase_spec KOmim o4 _ o5 G4 R4 (fun t0 Ht0 => proj1 (N4 t0 Ht0)) H5) as [FrM SpM].
  pose proof (frame_same_struct _ _ _ FrM) as SSM.
  assert (qgood o5) as G5 by (apply (qgood_same_links o4 o5 G4), same_struct_links, SSM).
  assert (acyclic (o_arena o5)) as R5 by (apply (ranked_links _ _ (same_struct_links _ _ SSM) R4)).
  assert (forall t0, In t0 (ar_terms (o_arena o5)) -> t_annots KOrpha t0 = []) as N5.
  { intros t0 H0. destruct (frame_In_r KOmim _ _ t0 FrM H0) as [t4 [Ht4 ->]].
    rewrite other_kind_annots by discriminate. apply (N4 t4 Ht4). }
  destruct (phase_spec KOrpha o5 _ o6 G5 R5 N5 H6) as [FrR SpR].
  pose proof (frame_same_struct _ _ _ FrR) as SSR.
  (* the record maps *)
  destruct (load_records_list KGene gs o3 o4 NdG (fun r _ Hin => Hin) H4) as (Rg4 & Ro4 & V4 & _).
  destruct (load_records_list KOmim ms o4 o5 NdM) as (Rm5 & Ro5 & V5 & _); [|exact H5|].
  { intros r _ Hin. rewrite (Ro4 KOmim ltac:(discriminate)) in Hin. destruct Hin. }
  destruct (load_records_list KOrpha os o5 o6 NdO) as (Rr6 & Ro6 & V6 & _); [|exact H6|].
  { intros r _ Hin. rewrite (Ro5 KOrpha ltac:(discriminate)), (Ro4 KOrpha ltac:(discriminate)) in Hin. destruct Hin. }
  assert (o_records KGene o6 = gs /\ o_records KOmim o6 = ms /\ o_records KOrpha o6 = os) as (Eg & Em & Eo).
  { split; [rewrite (Ro6 KGene ltac:(discriminate)), (Ro5 KGene ltac:(discriminate)), Rg4; reflexivity|].
    split; [rewrite (Ro6 KOmim ltac:(discriminate)), Rm5, (Ro4 KOmim ltac:(discriminate)); reflexivity|].
    rewrite Rr6, (Ro5 KOrpha ltac:(discriminate)), (Ro4 KOrpha ltac:(discriminate)); reflexivity. }
  (* structure of o6 *)
  pose proof (same_struct_trans _ _ _ (same_struct_trans _ _ _ SSG SSM) SSR) as SS36.
  pose proof (src_ok_same_struct o3 o6 S3 SS36) as S6.
  assert (acyclic (o_arena o6)) as R6 by (apply (ranked_links _ _ (same_struct_links _ _ SSR) R5)).
  assert (forall d, allp_of (o_arena o4) d = allp_of (o_arena o3) d) as Al4 by (intros d; apply (allp_of_struct _ _ d SSG)).
  assert (forall d, allp_of (o_arena o5) d = allp_of (o_arena o3) d) as Al5 by (intros d; rewrite (allp_of_struct _ _ d SSM); apply Al4).
  assert (forall d, allp_of (o_arena o6) d = allp_of (o_arena o3) d) as Al6 by (intros d; rewrite (allp_of_struct _ _ d SSR); apply Al5).
  (* annotation sets of o6 *)
  assert (ann_ok o6) as A6.
  { constructor.
    - intros k t6 Ht6. destruct (frame_In_r KOrpha _ _ t6 FrR Ht6) as [t5 [Ht5 E5]].
      destruct (frame_In_r KOmim _ _ t5 FrM Ht5) as [t4 [Ht4 E4]]. destruct k.
      + rewrite E5, other_kind_annots by discriminate. rewrite E4, other_kind_annots by discriminate. apply (SpG t4 Ht4).
      + rewrite E5, other_kind_annots by discriminate. apply (SpM t5 Ht5).
      + apply (SpR t6 Ht6).
    - intros k t6 Ht6 x. destruct (frame_In_r KOrpha _ _ t6 FrR Ht6) as [t5 [Ht5 E5]].
      destruct (frame_In_r KOmim _ _ t5 FrM Ht5) as [t4 [Ht4 E4]].
      assert (t_id t6 = t_id t5) as I65 by (rewrite E5; apply set_annots_struct).
      assert (t_id t5 = t_id t4) as I54 by (rewrite E4; apply set_annots_struct).
      destruct k.
      + assert (t_annots KGene t6 = t_annots KGene t4) as ->.
        { rewrite E5, other_kind_annots by discriminate. rewrite E4, other_kind_annots by discriminate. reflexivity. }
        rewrite (proj2 (SpG t4 Ht4) x), Eg, I65, I54. setoid_rewrite Al6. reflexivity.
      + assert (t_annots KOmim t6 = t_annots KOmim t5) as -> by (rewrite E5, other_kind_annots by discriminate; reflexivity).
        rewrite (proj2 (SpM t5 Ht5) x), Em, I65. setoid_rewrite Al6. setoid_rewrite Al4. reflexivity.
      + rewrite (proj2 (SpR t6 Ht6) x), Eo. setoid_rewrite Al6. setoid_rewrite Al5. reflexivity. }
  (* calculate_information_content and build_with_defaults *)
  destruct (calculate_ic_spec icf o6 o7 H7) as (R7 & V7 & _ & _ & _ & F7).
  pose proof (calculate_ic_same_struct icf o6 o7 H7) as SS7. pose proof (build_with_defaults_arena o7 o H8) as Ea.
  assert (forall k, o_records k o = o_records k o6) as Ro by (intros k; rewrite (build_with_defaults_records o7 o H8), R7; reflexivity).
  assert (same_links (o_arena o6) (o_arena o)) as SL by (rewrite Ea; apply same_struct_links, SS7).
  split; [apply (src_ok_arena o7 o (src_ok_same_struct o6 o7 S6 SS7) Ea)|].
  split; [apply (ranked_links _ _ SL R6)|].
  split.
  { apply (ann_ok_transfer o6 o A6 Ro). rewrite Ea. eapply Forall2_impl_In; [|exact F7]. intros t t' _ _ [Et _].
    rewrite Et. split; [destruct t; reflexivity|split; [destruct t; reflexivity|intros k; apply annots_set_ic]]. }
  split.
  { intros t' Ht' k. rewrite Ea in Ht'. destruct (Forall2_In_r _ _ _ t' F7 Ht') as [t [Ht [Et Hic]]].
    rewrite Ro. rewrite Et at 1. rewrite annots_set_ic. apply Hic. }
  split; [rewrite !Ro; auto|].
  split; [|apply (build_with_defaults_fix o7 o H8)].
  assert (o_version o = o_version o7) as ->.
  { unfold b_build_with_defaults, set_default_categories, set_default_modifier in H8.
    destruct (o_get ROOT_ID_CAT (b_build_minimal o7)); [|discriminate].
    destruct (o_get PHENOTYPE_ID (b_build_minimal o7)); [|discriminate]. cbn [bind] in H8.
    match type of H8 with context [o_get ROOT_ID ?x] => destruct (o_get ROOT_ID x) end; [|discriminate].
    injection H8 as <-. reflexivity. }
  rewrite V7, V6, V5, V4. reflexivity.
Qed.

(* ---------------- the sections of a file (slicing only) ---------------- *)

Definition bin_sections (input : bytes) : res (bversion * (N * N * N) * nat * (bytes * bytes * bytes * bytes * option bytes)) :=
  do bv <- bin_version input ;;
  let (b, v) := bv : bytes * bversion in
  do vo <- (match v with
            | V1 => Ok ((0, 0, 0), 0)
            | _ => if Nlen b <? 4 then Err ParseBinaryError
                   else do y0 <- idx b 0 ;; do y1 <- idx b 1 ;; do m <- idx b 2 ;; do d <- idx b 3 ;;
                        Ok ((y0 * 256 + y1, m, d), 4)
            end) ;;
  let (ver, offset) := vo : (N * N * N) * N in
  let start := offset in
  do len <- u32_from b start ;;
  let stop := start + 4 + len in
  do st <- slice b (start + 4) stop ;;
  let start := start + len + 4 in
  do len <- u32_from b start ;;
  let stop := stop + 4 + len in
  do sp <- slice b (start + 4) stop ;;
  let start := start + len + 4 in
  do len <- u32_from b start ;;
  let stop := stop + 4 + len in
  do sg <- slice b (start + 4) stop ;;
  let start := start + len + 4 in
  do len <- u32_from b start ;;
  let stop := stop + 4 + len in
  do sm <- slice b (start + 4) stop ;;
  let start := start + len + 4 in
  do so <- (match v with
            | V3 => do len <- u32_from b start ;;
                    let stop := stop + 4 + len in
                    do sec <- slice b (start + 4) stop ;; Ok (Some sec)
            | _ => Ok None
            end) ;;
  Ok (v, ver, S (length b), (st, sp, sg, sm, so)).

(* the stages of an accepted load *)
Lemma decode_stages icf input o : decode icf input = Ok o ->
  exists v ver f st sp sg sm so a1 a2 a3 o4 o5 o6 o7,
    bin_sections input = Ok (v, ver, f, (st, sp, sg, sm, so)) /\
    read_terms f v st arena_default = Ok a1 /\ read_parents f sp 0 a1 = Ok a2 /\ connect_all (default_fuel a2) a2 = Ok a3 /\
    read_records f KGene sg 0 (set_arena a3 (set_version ver onto_new)) = Ok o4 /\
    read_records f KOmim sm 0 o4 = Ok o5 /\
    match so with Some s => read_records f KOrpha s 0 o5 = Ok o6 | None => o6 = o5 end /\
    b_calculate_ic icf o6 = Ok o7 /\ b_build_with_defaults o7 = Ok o.
Proof.
  intros H. unfold decode, decode_with in H. unfold bin_sections.
  destruct (bin_version input) as [[b v]| | |]; cbn [bind] in *; try discriminate.
  match type of H with context [bind ?X _] => destruct X as [[ver off]| | |] end; cbn [bind] in *; try discriminate.
  destruct (u32_from b off) as [l1| | |]; cbn [bind] in *; try discriminate.
  destruct (slice b (off + 4) (off + 4 + l1)) as [st| | |]; cbn [bind] in *; try discriminate.
  destruct (read_terms (S (length b)) v st (o_arena (set_version ver onto_new))) as [a1| | |] eqn:E1; cbn [bind] in H; try discriminate.
  destruct (u32_from b (off + l1 + 4)) as [l2| | |]; cbn [bind] in *; try discriminate.
  destruct (slice b (off + l1 + 4 + 4) (off + 4 + l1 + 4 + l2)) as [sp| | |]; cbn [bind] in *; try discriminate.
  destruct (read_parents (S (length b)) sp 0 a1) as [a2| | |] eqn:E2; cbn [bind] in H; try discriminate.
  destruct (connect_all (default_fuel a2) a2) as [a3| | |] eqn:E3; cbn [bind] in H; try discriminate.
  destruct (u32_from b (off + l1 + 4 + l2 + 4)) as [l3| | |]; cbn [bind] in *; try discriminate.
  destruct (slice b (off + l1 + 4 + l2 + 4 + 4) (off + 4 + l1 + 4 + l2 + 4 + l3)) as [sg| | |]; cbn [bind] in *; try discriminate.
  match type of H with context [read_records ?F KGene sg 0 ?O] => destruct (read_records F KGene sg 0 O) as [o4| | |] eqn:E4 end; cbn [bind] in H; try discriminate.
  destruct (u32_from b (off + l1 + 4 + l2 + 4 + l3 + 4)) as [l4| | |]; cbn [bind] in *; try discriminate.
  destruct (slice b (off + l1 + 4 + l2 + 4 + l3 + 4 + 4) (off + 4 + l1 + 4 + l2 + 4 + l3 + 4 + l4)) as [sm| | |]; cbn [bind] in *; try discriminate.
  destruct (read_records (S (length b)) KOmim sm 0 o4) as [o5| | |] eqn:E5; cbn [bind] in H; try discriminate.
  destruct v.
  - cbn [bind] in *. destruct (_ =? Nlen b); [|discriminate].
    destruct (b_calculate_ic icf o5) as [o7| | |] eqn:E7; cbn [bind] in H; try discriminate.
    exists V1, ver, (S (length b)), st, sp, sg, sm, None, a1, a2, a3, o4, o5, o5, o7. auto 12.
  - cbn [bind] in *. destruct (_ =? Nlen b); [|discriminate].
    destruct (b_calculate_ic icf o5) as [o7| | |] eqn:E7; cbn [bind] in H; try discriminate.
    exists V2, ver, (S (length b)), st, sp, sg, sm, None, a1, a2, a3, o4, o5, o5, o7. auto 12.
  - destruct (u32_from b (off + l1 + 4 + l2 + 4 + l3 + 4 + l4 + 4)) as [l5| | |]; cbn [bind] in *; try discriminate.
    match type of H with context [slice b ?I ?J] => destruct (slice b I J) as [so| | |] end; cbn [bind] in *; try discriminate.
    destruct (read_records (S (length b)) KOrpha so 0 o5) as [o6| | |] eqn:E6; cbn [bind] in H; try discriminate.
    destruct (_ =? Nlen b); [|discriminate].
    destruct (b_calculate_ic icf o6) as [o7| | |] eqn:E7; cbn [bind] in H; try discriminate.
    exists V3, ver, (S (length b)), st, sp, sg, sm, (Some so), a1, a2, a3, o4, o5, o6, o7. auto 12.
Qed.

(* ---------------- the two well-formedness conditions on a file ---------------- *)

(* every id of the parent section is the id of a term of the term section *)
Definition bin_closed (input : bytes) : Prop :=
  forall v ver f st sp sg sm so a1 conns,
    bin_sections input = Ok (v, ver, f, (st, sp, sg, sm, so)) ->
    read_terms f v st arena_default = Ok a1 -> parse_parents f sp 0 = Ok conns ->
    Forall (fun cp : N * N => In (fst cp) (ar_keys a1) /\ In (snd cp) (ar_keys a1)) conns.

(* no record id twice inside one annotation section *)
Definition bin_distinct (input : bytes) : Prop :=
  forall v ver f st sp sg sm so,
    bin_sections input = Ok (v, ver, f, (st, sp, sg, sm, so)) ->
    (forall rs, parse_records f KGene sg 0 = Ok rs -> NoDup (map a_id rs)) /\
    (forall rs, parse_records f KOmim sm 0 = Ok rs -> NoDup (map a_id rs)) /\
    (forall s rs, so = Some s -> parse_records f KOrpha s 0 = Ok rs -> NoDup (map a_id rs)).

(* WHATEVER from_bytes ACCEPTS (under the two conditions) IS A WELL-FORMED ONTOLOGY *)
Theorem decode_any_ok icf input o : decode icf input = Ok o -> bin_closed input -> bin_distinct input ->
  src_ok o /\ acyclic (o_arena o) /\ ann_ok o /\ ic_ok icf o /\
  (forall k, NoDup (map a_id (o_records k o))) /\ b_build_with_defaults o = Ok o.
Proof.
  intros H Cl Di.
  destruct (decode_stages icf input o H) as (v & ver & f & st & sp & sg & sm & so & a1 & a2 & a3 & o4 & o5 & o6 & o7 & Hs & H1 & H2 & H3 & H4 & H5 & H6 & H7 & H8).
  destruct (read_parents_parse f sp 0 a1 a2 H2) as [conns [Hpc Hfc]].
  destruct (read_records_parse f KGene sg 0 _ o4 H4) as [gs [Hpg Hfg]].
  destruct (read_records_parse f KOmim sm 0 o4 o5 H5) as [ms [Hpm Hfm]].
  destruct (Di v ver f st sp sg sm so Hs) as (Dg & Dm & Do).
  assert (exists os, foldM (load_record KOrpha) os o5 = Ok o6 /\ NoDup (map a_id os)) as [os [Hfo Ndo]].
  { destruct so as [s|].
    - destruct (read_records_parse f KOrpha s 0 o5 o6 H6) as [os [Hpo Hfo]]. exists os. split; [exact Hfo|apply (Do s os eq_refl Hpo)].
    - subst o6. exists []. split; [reflexivity|constructor]. }
  pose proof (read_terms_blank f v st arena_default a1 H1 blank_default) as Ba1.
  destruct (pipeline_ok icf ver a1 conns a2 a3 gs ms os o4 o5 o6 o7 o Ba1 (Cl v ver f st sp sg sm so a1 conns Hs H1 Hpc) Hfc H3 Hfg Hfm Hfo
              (Dg gs Hpg) (Dm ms Hpm) Ndo H7 H8) as (S & Ac & A & Ic & (Eg & Em & Eo) & _ & Fix).
  split; [exact S|]. split; [exact Ac|]. split; [exact A|]. split; [exact Ic|]. split; [|exact Fix].
  intros k; destruct k; [rewrite Eg; apply (Dg gs Hpg)|rewrite Em; apply (Dm ms Hpm)|rewrite Eo; exact Ndo].
Qed.

(* ... and therefore writing it out again and loading that returns the same ontology (C07 applies) *)
Theorem decode_any_roundtrip icf input o order o'' : decode icf input = Ok o -> bin_closed input -> bin_distinct input ->
  file_ok order o -> (forall l, Permutation (order l) l) -> decode icf (encode_with order o) = Ok o'' ->
  Forall2 term_kept (ar_terms (o_arena o)) (ar_terms (o_arena o'')) /\
  Forall2 (fun t t'' => forall k, t_annots k t'' = t_annots k t) (ar_terms (o_arena o)) (ar_terms (o_arena o'')) /\
  Forall2 (fun t t'' => t_ic t'' = t_ic t) (ar_terms (o_arena o)) (ar_terms (o_arena o'')) /\
  (forall k, o_records k o'' = map (raw_record k) (order (o_records k o))) /\ o_version o'' = o_version o /\
  o_cat o'' = o_cat o /\ o_mod o'' = o_mod o.
Proof.
  intros H Cl Di F Hp Hd. destruct (decode_any_ok icf input o H Cl Di) as (S & Ac & A & Ic & Nd & Fix).
  destruct (roundtrip_complete icf order o o'' S Ac A Ic Nd F Hp Hd) as (R1 & R2 & R3 & R4 & R5 & R6).
  repeat (split; [assumption|]). apply (R6 Fix).
Qed.

(* the premises are satisfiable: the file written for two linked terms, one gene, one disease *)
Example decode_any_example :
  let t1 := mkTerm 1 [65] [] [] [118] [7] [3] [] (0, 0, 0) false None in
  let t2 := mkTerm 118 [66; 195; 182] [1] [1] [] [7] [3] [] (0, 0, 0) true (Some 1) in
  let o := mkOnto (mkArena (new_term [] 0) [t1; t2]) [mkAnnot 7 [103] [118]] [mkAnnot 3 [100] [118]] [] (2024, 3, 1) [] [] in
  let input := encode_with (fun l => l) o in
  (exists o', decode (fun _ _ => Ok 0) input = Ok o') /\ bin_closed input /\ bin_distinct input.
Proof.
  cbv zeta. split; [|split].
  - eexists. vm_compute. reflexivity.
  - intros v ver f st sp sg sm so a1 conns Hs H1 H2. vm_compute in Hs. injection Hs as <- <- <- <- <- <- <- <-.
    vm_compute in H1. injection H1 as <-. vm_compute in H2. injection H2 as <-.
    repeat constructor; vm_compute; tauto.
  - intros v ver f st sp sg sm so Hs. vm_compute in Hs. injection Hs as <- <- <- <- <- <- <- <-.
    split; [|split].
    + intros rs H. vm_compute in H. injection H as <-. repeat constructor; cbn; tauto.
    + intros rs H. vm_compute in H. injection H as <-. repeat constructor; cbn; tauto.
    + intros s rs E H. injection E as <-. vm_compute in H. injection H as <-. constructor.
Qed.

(* ---------------- the ontology returned is the one the file describes ---------------- *)

Definition noparents (a : arena) : Prop := forall t, In t (ar_terms a) -> t_parents t = [].

Lemma read_terms_noparents f v : forall b a a', read_terms f v b a = Ok a' -> noparents a -> noparents a'.
Proof.
  induction f as [|f IH]; intros b a a' H Na; cbn [read_terms] in H; [discriminate|].
  destruct b as [|x b']; [injection H as <-; exact Na|]. set (b := x :: b') in *.
  destruct (Nlen b <=? 4); [discriminate|].
  destruct (u32_at b 0) as [tl| | |]; cbn [bind] in H; try discriminate.
  destruct (Nlen b <? tl); [discriminate|].
  destruct (match v with V1 => term_v1 b | _ => term_v2 b end) as [t| | |] eqn:Et; try discriminate.
  destruct (ar_insert t a) as [a1| | |] eqn:Ei; cbn [bind] in H; try discriminate.
  destruct (term_of_bytes_blank v b t Et) as (E1 & _).
  apply (IH _ a1 a' H). unfold ar_insert in Ei. destruct (MAX_HPO_ID <=? _); [discriminate|].
  destruct (ar_find _ a); injection Ei as <-; [exact Na|]. intros x0 Hin. cbn [ar_terms] in Hin.
  apply in_app_or in Hin as [Hin|[<-|[]]]; [apply Na, Hin|exact E1].
Qed.

Lemma links_rel conns : forall a a', binv a -> SP a ->
  Forall (fun cp : N * N => In (fst cp) (ar_keys a) /\ In (snd cp) (ar_keys a)) conns ->
  foldM (fun a (cp : N * N) => b_add_parent_unchecked (snd cp) (fst cp) a) conns a = Ok a' ->
  core (ar_terms a) (ar_terms a') /\ forall x y, parent_rel a' x y <-> parent_rel a x y \/ In (x, y) conns.
Proof.
  induction conns as [|[c p] conns IH]; intros a a' B P F H; cbn [foldM] in H.
  - injection H as <-. split; [apply core_refl|]. intros x y. cbn [In]. tauto.
  - inversion F as [|? ? [Hc Hp] F']; subst. cbn [fst snd] in *.
    destruct (link_step a p c B P Hp Hc) as [a1 [E1 [B1 [P1 [K1 PR1]]]]]. rewrite E1 in H. cbn [bind] in H.
    destruct (IH a1 a' B1 P1) as [C' PR']; [|exact H|].
    + eapply Forall_impl; [|exact F']. intros cp [H1 H2]. rewrite K1. auto.
    + split; [apply (core_trans _ _ _ (unchecked_core p c a a1 E1) C')|].
      intros x y. rewrite PR', PR1. cbn [In]. split.
      * intros [[H0|[-> ->]]|H0]; auto.
      * intros [H0|[H0|H0]]; auto. injection H0 as <- <-. auto.
Qed.

Lemma same_struct_core l l' : same_struct l l' -> core l l'.
Proof. unfold same_struct, core. apply Forall2_impl_In. intros t t' _ _ (A1 & A2 & A3 & A4 & _). auto. Qed.

(* WHAT AN ACCEPTED FILE DESCRIBES IS WHAT IS RETURNED: the release version of the header, one term
   per term record (same position, id, name, obsolete flag, replacement), a direct parent link
   exactly for every (term, parent) pair of the parent section, and the records of each annotation
   section in file order — for v1, v2 and v3 (so = None: no ORPHA section, no ORPHA records) *)
Theorem decode_any_describes icf input o : decode icf input = Ok o -> bin_closed input -> bin_distinct input ->
  exists v ver f st sp sg sm so a1 conns gs ms,
    bin_sections input = Ok (v, ver, f, (st, sp, sg, sm, so)) /\
    read_terms f v st arena_default = Ok a1 /\ parse_parents f sp 0 = Ok conns /\
    parse_records f KGene sg 0 = Ok gs /\ parse_records f KOmim sm 0 = Ok ms /\
    o_version o = ver /\
    core (ar_terms a1) (ar_terms (o_arena o)) /\
    (forall c p, parent_rel (o_arena o) c p <-> In (c, p) conns) /\
    o_records KGene o = gs /\ o_records KOmim o = ms /\
    match so with Some s => parse_records f KOrpha s 0 = Ok (o_records KOrpha o) | None => o_records KOrpha o = [] end.
Proof.
  intros H Cl Di.
  destruct (decode_stages icf input o H) as (v & ver & f & st & sp & sg & sm & so & a1 & a2 & a3 & o4 & o5 & o6 & o7 & Hs & H1 & H2 & H3 & H4 & H5 & H6 & H7 & H8).
  destruct (read_parents_parse f sp 0 a1 a2 H2) as [conns [Hpc Hfc]].
  destruct (read_records_parse f KGene sg 0 _ o4 H4) as [gs [Hpg Hfg]].
  destruct (read_records_parse f KOmim sm 0 o4 o5 H5) as [ms [Hpm Hfm]].
  destruct (Di v ver f st sp sg sm so Hs) as (Dg & Dm & Do).
  assert (exists os, foldM (load_record KOrpha) os o5 = Ok o6 /\ NoDup (map a_id os) /\
            match so with Some s => parse_records f KOrpha s 0 = Ok os | None => os = [] end) as [os [Hfo [Ndo Hos]]].
  { destruct so as [s|].
    - destruct (read_records_parse f KOrpha s 0 o5 o6 H6) as [os [Hpo Hfo]]. exists os. split; [exact Hfo|]. split; [apply (Do s os eq_refl Hpo)|exact Hpo].
    - subst o6. exists []. split; [reflexivity|]. split; [constructor|reflexivity]. }
  pose proof (read_terms_blank f v st arena_default a1 H1 blank_default) as Ba1.
  pose proof (Cl v ver f st sp sg sm so a1 conns Hs H1 Hpc) as Hcl.
  destruct (pipeline_ok icf ver a1 conns a2 a3 gs ms os o4 o5 o6 o7 o Ba1 Hcl Hfc H3 Hfg Hfm Hfo
              (Dg gs Hpg) (Dm ms Hpm) Ndo H7 H8) as (_ & _ & _ & _ & (Eg & Em & Eo) & Ev & _).
  exists v, ver, f, st, sp, sg, sm, so, a1, conns, gs, ms.
  repeat (split; [assumption|]).
  destruct Ba1 as (B1 & P1 & _ & _).
  destruct (links_rel conns a1 a2 B1 P1 Hcl Hfc) as [C12 PR12].
  destruct (obo_links conns a1 a2 B1 P1 (proj2 (proj2 (proj2 (read_terms_blank f v st arena_default a1 H1 blank_default)))) Hcl Hfc) as (B2 & _).
  destruct (connect_all_exact _ _ _ (b_wf _ B2) (b_empty _ B2) H3) as [Sm _].
  set (o3 := set_arena a3 (set_version ver onto_new)) in *.
  pose proof (load_records_same_struct KGene gs o3 o4 Hfg) as SSG. pose proof (load_records_same_struct KOmim ms o4 o5 Hfm) as SSM.
  pose proof (load_records_same_struct KOrpha os o5 o6 Hfo) as SSR. pose proof (calculate_ic_same_struct icf o6 o7 H7) as SS7.
  pose proof (build_with_defaults_arena o7 o H8) as Ea.
  pose proof (same_struct_trans _ _ _ (same_struct_trans _ _ _ (same_struct_trans _ _ _ SSG SSM) SSR) SS7) as SS37. rewrite <- Ea in SS37.
  split.
  { apply (core_trans _ _ _ C12). apply (core_trans _ (ar_terms a3)); [apply (same_but_allp_core _ _ Sm)|apply (same_struct_core _ _ SS37)]. }
  split.
  { intros c p. rewrite <- (same_links_parent_rel (o_arena o3) (o_arena o) c p (same_struct_links _ _ SS37)).
    unfold o3. cbn [o_arena set_arena]. rewrite <- (same_parent_rel a2 a3 c p Sm), PR12. split; [|auto].
    intros [[t [Ht [_ Hp]]]|Hin]; [|exact Hin]. rewrite (read_terms_noparents f v st arena_default a1 H1 (fun t0 H0 => match H0 with end) t Ht) in Hp. destruct Hp. }
  split; [exact Eg|]. split; [exact Em|].
  destruct so; [rewrite Eo; exact Hos|rewrite Eo; exact Hos].
Qed.
