(* WalkP.v — no dangling ids in Builder-built ontologies: the complete walk through the read API
   (Model/Dump.v: every parents() / children() / all_parents() / genes() / ... iterator of every
   term, to_hpo_set of every record — each of which panics on an id that does not resolve) returns
   for every ontology a Builder script produces, whatever calls failed on the way. *)
From Coq Require Import Lia Relations.
From HpoV Require Import Gen.Consts Model.Base Model.Group Model.Onto Model.Query Model.Dump Model.Script
  Proofs.GroupP Proofs.BaseP Proofs.ClosureP Proofs.AcyclicP Proofs.DistP Proofs.QgoodP Proofs.C18P
  Proofs.RoundTripP Proofs.AnnotP Proofs.BuilderAnnotP.

Lemma resolve_key o id : qgood o -> In id (ar_keys (o_arena o)) -> exists t, resolve o id = Ok t.
Proof.
  intros G Hk. destruct (key_find _ id (q_wf o G) Hk) as [t [Hf [_ [_ Hr]]]]. exists t.
  unfold resolve, o_get, ar_get. destruct (N.leb_spec MAX_HPO_ID id); [lia|]. rewrite Hf. reflexivity.
Qed.

Lemma resolve_all_keys o g : qgood o -> (forall x, In x g -> In x (ar_keys (o_arena o))) -> exists ts, resolve_all o g = Ok ts.
Proof. intros G H. unfold resolve_all. apply mapM_all_Ok. intros x Hx. apply (resolve_key o x G (H x Hx)). Qed.

(* the walk returns on EVERY ontology with exact caches, children = parents^-1, inherited annotation
   sets and records whose direct terms are terms of the ontology *)
Theorem wellformed_walk_returns o : src_ok o -> ann_ok o ->
  (forall k r d, In r (o_records k o) -> In d (a_hpos r) -> In d (ar_keys (o_arena o))) ->
  exists d, dump_onto o = Ok d.
Proof.
  intros S A DK. pose proof (so_q o S) as G. pose proof (q_wf o G) as W.
  (* every term *)
  assert (forall t, In t (ar_terms (o_arena o)) -> exists dt, dump_term o t = Ok dt) as HT.
  { intros t Ht. unfold dump_term.
    destruct (resolve_all_keys o (t_parents t) G) as [ps ->]; [intros x Hx; apply (wf_closed _ W t Ht x Hx)|]. cbn [bind].
    destruct (resolve_all_keys o (t_children t) G) as [cs ->].
    { intros c Hc. assert (child_rel (o_arena o) (t_id t) c) as Hcr by (exists t; auto).
      apply (so_inv o S c (t_id t)) in Hcr. destruct Hcr as [tc [Htc [Hid _]]]. rewrite <- Hid. unfold ar_keys. apply in_map, Htc. }
    cbn [bind].
    destruct (resolve_all_keys o (t_allp t) G) as [als ->]; [intros x Hx; apply (anc_in_keys _ (t_id t) x W), (q_exact o G t Ht x), Hx|]. cbn [bind].
    assert (forall k, exists rs, mapM (fun g => opt_panic (an_find g (o_records k o))) (t_annots k t) = Ok rs) as HA.
    { intros k. apply mapM_all_Ok. intros x Hx. apply (an_exact o A k t Ht x) in Hx as [r [Hr [Hid _]]].
      unfold an_find. destruct (find_by_In_key a_id x (o_records k o)) as [r' ->]; [rewrite <- Hid; apply in_map, Hr|].
      eexists. reflexivity. }
    destruct (HA KGene) as [r1 E1]. destruct (HA KOmim) as [r2 E2]. destruct (HA KOrpha) as [r3 E3].
    cbn [o_records t_annots] in E1, E2, E3. rewrite E1. cbn [bind]. rewrite E2. cbn [bind]. rewrite E3. cbn [bind].
    eexists. reflexivity. }
  (* every record *)
  assert (forall k r, In r (o_records k o) -> exists dr, dump_annot o r = Ok dr) as HR.
  { intros k r Hr. unfold dump_annot. destruct (resolve_all_keys o (a_hpos r) G) as [ts ->]; [intros d Hd; apply (DK k r d Hr Hd)|].
    cbn [bind]. eexists. reflexivity. }
  unfold dump_onto.
  destruct (mapM_all_Ok (dump_term o) (sort_by t_id (ar_terms (o_arena o)))) as [dts ->];
    [intros t Ht; apply HT, (sort_by_In t_id _ t), Ht|]. cbn [bind].
  destruct (mapM_all_Ok (dump_annot o) (sort_by a_id (o_genes o))) as [d1 ->];
    [intros r Hr; apply (HR KGene), (sort_by_In a_id _ r), Hr|]. cbn [bind].
  destruct (mapM_all_Ok (dump_annot o) (sort_by a_id (o_omim o))) as [d2 ->];
    [intros r Hr; apply (HR KOmim), (sort_by_In a_id _ r), Hr|]. cbn [bind].
  destruct (mapM_all_Ok (dump_annot o) (sort_by a_id (o_orpha o))) as [d3 ->];
    [intros r Hr; apply (HR KOrpha), (sort_by_In a_id _ r), Hr|]. cbn [bind].
  eexists. reflexivity.
Qed.

Theorem builder_walk_returns icf s codes o : run_script icf s = Ok (codes, Ok o) -> exists d, dump_onto o = Ok d.
Proof.
  intros Hs. apply wellformed_walk_returns.
  - apply (run_script_src_ok icf s codes o Hs).
  - apply (run_script_ann_ok icf s codes o Hs).
  - apply (run_script_direct_in_keys icf s codes o Hs).
Qed.
