(* LinkP.v — annotation propagation (Builder::link_gene_term / link_omim_disease_term /
   link_orpha_disease_term, Model/Onto.v [link]) reaches EXACTLY the term and its ancestors.
   The recursion stops as soon as it meets a term that already carries the annotation ("by
   definition all parent terms are already linked as well"); the theorem below proves that this
   early exit is sound — and shows on what it rests: the ancestor cache is transitive and
   irreflexive (C01), and every earlier propagation ran to completion. *)
From Coq Require Import Lia Sorted.
From HpoV Require Import Gen.Consts Model.Base Model.Group Model.Onto Proofs.GroupP Proofs.BaseP Proofs.ClosureP.

Section Link.
  Variable k : kind.
  Variable g : N.                (* the annotation (gene / disease id) being propagated *)

  (* ---------------------------------------------------------------------------------------- *)
  (* vocabulary                                                                                 *)
  (* ---------------------------------------------------------------------------------------- *)

  Definition has (a : arena) (id x : N) : Prop :=
    exists t, In t (ar_terms a) /\ t_id t = id /\ In x (t_annots k t).

  Definition allp_of (a : arena) (id : N) : group :=
    match ar_find id a with Some t => t_allp t | None => [] end.

  Record good (a : arena) : Prop := {
    g_nodup : NoDup (ar_keys a);
    g_range : forall t, In t (ar_terms a) -> t_id t < MAX_HPO_ID;
    (* the ancestor cache is transitive: every cached ancestor resolves and brings its own ancestors *)
    g_trans : forall t, In t (ar_terms a) -> forall p, In p (t_allp t) ->
                exists tp, In tp (ar_terms a) /\ t_id tp = p /\ incl (t_allp tp) (t_allp t);
    (* ... and irreflexive *)
    g_irr : forall t, In t (ar_terms a) -> ~ In (t_id t) (t_allp t);
    g_sorted : forall t, In t (ar_terms a) -> sorted (t_annots k t)
  }.

  (* a' differs from a at most in the annotation sets of kind k *)
  Definition frame (a a' : arena) : Prop :=
    ar_ph a' = ar_ph a /\ Forall2 (fun t t' => t' = set_annots k (t_annots k t') t) (ar_terms a) (ar_terms a').

  (* every term outside T that carries g has g on all its ancestors *)
  Definition upclosed_except (T : list N) (a : arena) : Prop :=
    forall t, In t (ar_terms a) -> ~ In (t_id t) T -> In g (t_annots k t) -> forall p, In p (t_allp t) -> has a p g.

  (* ---------------------------------------------------------------------------------------- *)
  (* field lemmas                                                                               *)
  (* ---------------------------------------------------------------------------------------- *)

  Lemma set_annots_fields l t : t_id (set_annots k l t) = t_id t /\ t_allp (set_annots k l t) = t_allp t
    /\ t_annots k (set_annots k l t) = l /\ t_parents (set_annots k l t) = t_parents t.
  Proof. destruct t, k; cbn; auto. Qed.

  Lemma set_annots_same t : t = set_annots k (t_annots k t) t.
  Proof. destruct t, k; reflexivity. Qed.

  Lemma set_annots_twice l m t : set_annots k l (set_annots k m t) = set_annots k l t.
  Proof. destruct t, k; reflexivity. Qed.

  Lemma frame_refl a : frame a a.
  Proof. split; [reflexivity|]. induction (ar_terms a) as [|t l IH]; constructor; [apply set_annots_same|exact IH]. Qed.

  Lemma frame_trans a b c : frame a b -> frame b c -> frame a c.
  Proof.
    intros [P1 F1] [P2 F2]. split; [congruence|].
    refine (Forall2_trans_gen _ _ _ _ _ _ _ F1 F2). intros x y z Hxy Hyz. cbn in *.
    rewrite Hyz, Hxy at 1. apply set_annots_twice.
  Qed.

  Lemma frame_keys a a' : frame a a' -> ar_keys a' = ar_keys a.
  Proof.
    intros [_ F]. unfold ar_keys. induction F as [|t t' l l' H F IH]; [reflexivity|].
    cbn [map]. rewrite IH. f_equal. rewrite H. apply set_annots_fields.
  Qed.

  Lemma frame_In_r a a' t' : frame a a' -> In t' (ar_terms a') ->
    exists t, In t (ar_terms a) /\ t' = set_annots k (t_annots k t') t.
  Proof. intros [_ F] Hin. destruct (Forall2_In_r _ _ _ t' F Hin) as [t [H1 H2]]. eauto. Qed.

  Lemma frame_In_l a a' t : frame a a' -> In t (ar_terms a) ->
    exists t', In t' (ar_terms a') /\ t' = set_annots k (t_annots k t') t.
  Proof. intros [_ F] Hin. destruct (Forall2_In_l _ _ _ t F Hin) as [t' [H1 H2]]. eauto. Qed.

  Lemma good_find a t : good a -> In t (ar_terms a) -> ar_find (t_id t) a = Some t.
  Proof. intros G Hin. unfold ar_find. apply find_by_unique; [exact (g_nodup a G)|exact Hin]. Qed.

  Lemma good_get a id t : good a -> ar_get id a = Some t -> In t (ar_terms a) /\ t_id t = id.
  Proof. intros G H. destruct (get_Some_key a id t H) as [H1 [H2 _]]. auto. Qed.

  Lemma good_get_of a t : good a -> In t (ar_terms a) -> ar_get (t_id t) a = Some t.
  Proof.
    intros G Hin. unfold ar_get. pose proof (g_range a G t Hin) as Hr.
    destruct (N.leb_spec MAX_HPO_ID (t_id t)); [lia|]. apply good_find; assumption.
  Qed.

  Lemma frame_good a a' : frame a a' -> good a -> (forall t', In t' (ar_terms a') -> sorted (t_annots k t')) -> good a'.
  Proof.
    intros Fr G Hs. pose proof (frame_keys a a' Fr) as K. constructor.
    - rewrite K. apply (g_nodup a G).
    - intros t' Hin. destruct (frame_In_r a a' t' Fr Hin) as [t [Ht E]]. rewrite E.
      destruct (set_annots_fields (t_annots k t') t) as [-> _]. apply (g_range a G t Ht).
    - intros t' Hin p Hp. destruct (frame_In_r a a' t' Fr Hin) as [t [Ht E]].
      destruct (set_annots_fields (t_annots k t') t) as [_ [Ea _]].
      rewrite E, Ea in Hp. destruct (g_trans a G t Ht p Hp) as [tp [Htp [Hid Hincl]]].
      destruct (frame_In_l a a' tp Fr Htp) as [tp' [Htp' E']].
      destruct (set_annots_fields (t_annots k tp') tp) as [Ei' [Ea' _]].
      exists tp'. split; [exact Htp'|]. rewrite E'. rewrite Ei', Ea'. split; [exact Hid|].
      rewrite E, Ea. exact Hincl.
    - intros t' Hin. destruct (frame_In_r a a' t' Fr Hin) as [t [Ht E]].
      destruct (set_annots_fields (t_annots k t') t) as [Ei [Ea _]]. rewrite E, Ei, Ea. apply (g_irr a G t Ht).
    - exact Hs.
  Qed.

  (* ---------------------------------------------------------------------------------------- *)
  (* one insertion                                                                              *)
  (* ---------------------------------------------------------------------------------------- *)

  Lemma insert_one a t : good a -> In t (ar_terms a) ->
    let a0 := ar_update (t_id t) (set_annots k (fst (g_insert g (t_annots k t)))) a in
    frame a a0 /\ good a0 /\
    (forall id x, has a0 id x <-> has a id x \/ (x = g /\ id = t_id t)).
  Proof.
    intros G Hin a0.
    set (f := set_annots k (fst (g_insert g (t_annots k t)))).
    assert (forall u, t_id (f u) = t_id u) as Hf by (intros u; apply set_annots_fields).
    assert (forall t', In t' (ar_terms a0) <-> exists u, In u (ar_terms a) /\ t' = if t_id u =? t_id t then f u else u) as T0
      by (intros t'; apply (update_terms f (t_id t) a t' (g_nodup a G) Hf)).
    assert (forall u, In u (ar_terms a) -> t_id u = t_id t -> u = t) as Uq.
    { intros u Hu E. pose proof (good_find a u G Hu) as F1. pose proof (good_find a t G Hin) as F2. rewrite E in F1. congruence. }
    assert (frame a a0) as Fr.
    { split; [reflexivity|]. unfold a0, ar_update. cbn [ar_terms].
      pose proof (update_by_Forall2 f (t_id t) (ar_terms a) (g_nodup a G)) as F.
      refine (Forall2_impl_In _ _ _ _ _ F). intros u u' _ _ Hc.
      destruct (t_id u =? t_id t); subst u'; [|apply set_annots_same].
      unfold f. destruct (set_annots_fields (fst (g_insert g (t_annots k t))) u) as [_ [_ [-> _]]]. reflexivity. }
    split; [exact Fr|]. split.
    - apply (frame_good a a0 Fr G). intros t' Hin'. apply T0 in Hin' as [u [Hu E]].
      destruct (N.eqb_spec (t_id u) (t_id t)) as [E1|E1]; subst t'; [|apply (g_sorted a G u Hu)].
      unfold f. destruct (set_annots_fields (fst (g_insert g (t_annots k t))) u) as [_ [_ [-> _]]].
      apply g_insert_sorted, (g_sorted a G t Hin).
    - intros id x. unfold has. split.
      + intros [t' [Hin' [Hid Hx]]]. apply T0 in Hin' as [u [Hu E]].
        destruct (N.eqb_spec (t_id u) (t_id t)) as [E1|E1]; subst t'.
        * pose proof (Uq u Hu E1) as ->. rewrite Hf in Hid. unfold f in Hx.
          destruct (set_annots_fields (fst (g_insert g (t_annots k t))) t) as [_ [_ [Ean _]]]. rewrite Ean in Hx.
          apply g_insert_In in Hx as [->|Hx]; [right; auto|left; exists t; auto].
        * left. exists u. auto.
      + intros [[u [Hu [Hid Hx]]]|[-> ->]].
        * exists (if t_id u =? t_id t then f u else u). split; [apply T0; exists u; auto|].
          destruct (N.eqb_spec (t_id u) (t_id t)) as [E1|E1]; [|auto].
          pose proof (Uq u Hu E1) as ->. rewrite Hf. split; [exact Hid|]. unfold f.
          destruct (set_annots_fields (fst (g_insert g (t_annots k t))) t) as [_ [_ [Ean _]]]. rewrite Ean.
          apply g_insert_In. right. exact Hx.
        * exists (f t). split; [apply T0; exists t; rewrite N.eqb_refl; auto|]. rewrite Hf. split; [reflexivity|].
          unfold f. destruct (set_annots_fields (fst (g_insert g (t_annots k t))) t) as [_ [_ [Ean _]]]. rewrite Ean.
          apply g_insert_In. left. reflexivity.
  Qed.

  (* allp is untouched by a frame step *)
  Lemma frame_allp a a' t t' : frame a a' -> good a -> In t (ar_terms a) -> In t' (ar_terms a') -> t_id t' = t_id t ->
    t_allp t' = t_allp t.
  Proof.
    intros Fr G Hin Hin' Hid. destruct (frame_In_r a a' t' Fr Hin') as [u [Hu E]].
    destruct (set_annots_fields (t_annots k t') u) as [Ei [Ea _]].
    assert (u = t) as ->.
    { pose proof (good_find a u G Hu) as F1. pose proof (good_find a t G Hin) as F2.
      rewrite E, Ei in Hid. rewrite Hid in F1. congruence. }
    rewrite E, Ea. reflexivity.
  Qed.

  Lemma has_mono a a' : (forall id x, has a id x -> has a' id x) -> forall id, has a id g -> has a' id g.
  Proof. intros H id. apply H. Qed.

  (* ---------------------------------------------------------------------------------------- *)
  (* the recursion                                                                              *)
  (* ---------------------------------------------------------------------------------------- *)

  Definition reach (a : arena) (tid id : N) : Prop := id = tid \/ In id (allp_of a tid).

  Theorem link_spec fuel : forall a tid a' T, good a ->
    (forall y ty, In y T -> ar_find y a = Some ty -> In tid (t_allp ty)) ->
    upclosed_except T a ->
    link fuel k a tid g = Ok a' ->
    frame a a' /\ good a' /\
    (forall id x, has a' id x <-> has a id x \/ (x = g /\ In id (ar_keys a) /\ reach a tid id)) /\
    upclosed_except T a'.
  Proof.
    induction fuel as [|f IH]; intros a tid a' T G HT Hup H; [discriminate|].
    cbn [link] in H. destruct (ar_get tid a) as [t|] eqn:Eg; [|discriminate].
    destruct (good_get a tid t G Eg) as [Hin Hid].
    pose proof (good_find a t G Hin) as Ft. rewrite Hid in Ft.
    destruct (g_insert g (t_annots k t)) as [set' isnew] eqn:Ei.
    pose proof (g_insert_flag g (t_annots k t) (g_sorted a G t Hin)) as Hflag. rewrite Ei in Hflag. cbn [snd] in Hflag.
    assert (In tid (ar_keys a)) as Hkt by (unfold ar_keys; rewrite <- Hid; apply in_map, Hin).
    destruct isnew.
    2:{ (* g is already at tid: the early exit *)
      injection H as <-. symmetry in Hflag. apply Bool.negb_false_iff in Hflag. apply mem_In in Hflag.
      assert (~ In tid T) as HnT.
      { intros HinT. apply (g_irr a G t Hin). rewrite Hid. apply (HT tid t HinT Ft). }
      split; [apply frame_refl|]. split; [exact G|]. split; [|exact Hup].
      intros id x. split; [auto|]. intros [Hx|[-> [Hk [->|Hr]]]]; [exact Hx| |].
      - exists t. auto.
      - unfold allp_of in Hr. rewrite Ft in Hr.
        apply (Hup t Hin); [rewrite Hid; exact HnT|exact Hflag|exact Hr]. }
    (* g is new at tid *)
    assert (set' = fst (g_insert g (t_annots k t))) as Es by (rewrite Ei; reflexivity).
    rewrite Es, <- Hid in H.
    destruct (insert_one a t G Hin) as [Fr0 [G0 Has0]]. cbn zeta in Fr0, G0, Has0.
    set (a0 := ar_update (t_id t) (set_annots k (fst (g_insert g (t_annots k t)))) a) in *.
    (* the loop over all_parents(tid) *)
    assert (forall ps a1 a2, frame a a1 -> good a1 -> incl ps (t_allp t) ->
              upclosed_except (tid :: T) a1 ->
              foldM (fun a1 p => link f k a1 p g) ps a1 = Ok a2 ->
              frame a1 a2 /\ good a2 /\
              (forall id x, has a2 id x <-> has a1 id x \/ (x = g /\ In id (ar_keys a) /\ exists p, In p ps /\ reach a p id)) /\
              upclosed_except (tid :: T) a2) as Loop.
    { induction ps as [|p ps IHps]; intros a1 a2 Fr1 G1 Hincl Hup1 Hf; cbn [foldM] in Hf.
      - injection Hf as <-. split; [apply frame_refl|]. split; [exact G1|]. split; [|exact Hup1].
        intros id x. split; [auto|]. intros [Hx|[_ [_ [p [[] _]]]]]. exact Hx.
      - destruct (link f k a1 p g) as [a1'| | |] eqn:El; cbn [bind] in Hf; try discriminate.
        assert (In p (t_allp t)) as Hp by (apply Hincl; left; reflexivity).
        (* every term on the stack has p among its ancestors *)
        assert (forall y ty, In y (tid :: T) -> ar_find y a1 = Some ty -> In p (t_allp ty)) as HT1.
        { intros y ty Hy Fy. apply find_by_Some in Fy as [Hty Hidy].
          destruct (frame_In_r a a1 ty Fr1 Hty) as [u [Hu Eu]].
          destruct (set_annots_fields (t_annots k ty) u) as [Eiu [Eau _]].
          assert (t_id u = y) as Hidu by (rewrite <- Hidy, Eu; symmetry; exact Eiu).
          rewrite Eu, Eau. destruct Hy as [<-|Hy].
          - assert (u = t) as ->; [|exact Hp].
            pose proof (good_find a u G Hu) as F1. rewrite Hidu in F1. congruence.
          - pose proof (good_find a u G Hu) as F1. rewrite Hidu in F1.
            pose proof (HT y u Hy F1) as Htid.
            destruct (g_trans a G u Hu tid Htid) as [tt [Htt [Hidtt Hinc]]].
            assert (tt = t) as -> by (pose proof (good_find a tt G Htt) as F2; rewrite Hidtt in F2; congruence).
            apply Hinc, Hp. }
        destruct (IH a1 p a1' (tid :: T) G1 HT1 Hup1 El) as [Fr2 [G2 [Has2 Hup2]]].
        assert (incl ps (t_allp t)) as Hincl' by (intros q Hq; apply Hincl; right; exact Hq).
        destruct (IHps a1' a2 (frame_trans _ _ _ Fr1 Fr2) G2 Hincl' Hup2 Hf) as [Fr3 [G3 [Has3 Hup3]]].
        split; [eapply frame_trans; eauto|]. split; [exact G3|]. split; [|exact Hup3].
        (* reach in a1 = reach in a (caches are framed) *)
        assert (forall id, reach a1 p id <-> reach a p id) as Rp.
        { intros id. unfold reach, allp_of.
          destruct (g_trans a G t Hin p Hp) as [tp [Htp [Hidp _]]].
          pose proof (good_find a tp G Htp) as F1. rewrite Hidp in F1. rewrite F1.
          destruct (frame_In_l a a1 tp Fr1 Htp) as [tp1 [Htp1 E1]].
          destruct (set_annots_fields (t_annots k tp1) tp) as [Ei1 [Ea1 _]].
          pose proof (good_find a1 tp1 G1 Htp1) as F2. rewrite E1 in F2 at 1. rewrite Ei1, Hidp in F2. rewrite F2.
          rewrite E1, Ea1. reflexivity. }
        pose proof (frame_keys a a1 Fr1) as K1.
        intros id x. rewrite Has3, Has2, K1. split.
        + intros [[Hx|[-> [Hk Hr]]]|[-> [Hk [q [Hq Hr]]]]].
          * left; exact Hx.
          * right. split; [reflexivity|]. split; [exact Hk|]. exists p. split; [left; reflexivity|apply Rp, Hr].
          * right. split; [reflexivity|]. split; [exact Hk|]. exists q. split; [right; exact Hq|exact Hr].
        + intros [Hx|[-> [Hk [q [[<-|Hq] Hr]]]]].
          * left; left; exact Hx.
          * left; right. split; [reflexivity|]. split; [exact Hk|apply Rp, Hr].
          * right. split; [reflexivity|]. split; [exact Hk|]. exists q. split; [exact Hq|exact Hr]. }
    (* the invariant holds before the loop *)
    assert (upclosed_except (tid :: T) a0) as Hup0.
    { intros t0 Hin0 HnT Hg0 p Hp0.
      destruct (frame_In_r a a0 t0 Fr0 Hin0) as [u [Hu Eu]].
      destruct (set_annots_fields (t_annots k t0) u) as [Eiu [Eau _]].
      assert (t_id u = t_id t0) as Hidu by (rewrite Eu; symmetry; exact Eiu).
      assert (has a0 (t_id t0) g) as Hh by (exists t0; auto).
      apply Has0 in Hh as [[u' [Hu' [Hidu' Hgu']]]|[_ Hbad]].
      2:{ exfalso. apply HnT. left. congruence. }
      assert (u' = u) as ->.
      { pose proof (good_find a u' G Hu') as F1. pose proof (good_find a u G Hu) as F2. rewrite Hidu' in F1. rewrite Hidu in F2. congruence. }
      assert (In p (t_allp u)) as Hpu by (rewrite Eu, Eau in Hp0; exact Hp0).
      assert (~ In (t_id u) T) as HnT' by (intros Hc; apply HnT; right; rewrite <- Hidu; exact Hc).
      pose proof (Hup u Hu HnT' Hgu' p Hpu) as Hh. apply Has0. left. exact Hh. }
    destruct (Loop (t_allp t) a0 a' Fr0 G0 (fun x Hx => Hx) Hup0 H) as [Fr1 [G1 [Has1 Hup1]]].
    split; [eapply frame_trans; eauto|]. split; [exact G1|].
    assert (forall id x, has a' id x <-> has a id x \/ (x = g /\ In id (ar_keys a) /\ reach a tid id)) as HasF.
    { intros id x. rewrite Has1, Has0. split.
      - intros [[Hx|[-> ->]]|[-> [Hk [p [Hp Hr]]]]].
        + left; exact Hx.
        + right. split; [reflexivity|]. split; [rewrite Hid; exact Hkt|left; exact Hid].
        + right. split; [reflexivity|]. split; [exact Hk|]. right. unfold allp_of. rewrite Ft.
          destruct Hr as [->|Hr]; [exact Hp|].
          destruct (g_trans a G t Hin p Hp) as [tp [Htp [Hidp Hinc]]].
          unfold allp_of in Hr. pose proof (good_find a tp G Htp) as F1. rewrite Hidp in F1. rewrite F1 in Hr.
          apply Hinc, Hr.
      - intros [Hx|[-> [Hk [->|Hr]]]].
        + left; left; exact Hx.
        + left; right. split; [reflexivity|symmetry; exact Hid].
        + right. split; [reflexivity|]. split; [exact Hk|]. exists id.
          unfold allp_of in Hr. rewrite Ft in Hr. split; [exact Hr|left; reflexivity]. }
    split; [exact HasF|].
    (* tid leaves the exception set: all its ancestors carry g now *)
    intros t1 Hin1 HnT Hg1 p Hp1.
    destruct (N.eq_dec (t_id t1) tid) as [E1|E1].
    - apply HasF. right. split; [reflexivity|].
      assert (t_allp t1 = t_allp t) as Ea.
      { apply (frame_allp a a' t t1 (frame_trans _ _ _ Fr0 Fr1) G Hin Hin1). congruence. }
      rewrite Ea in Hp1. destruct (g_trans a G t Hin p Hp1) as [tp [Htp [Hidp _]]].
      split; [unfold ar_keys; rewrite <- Hidp; apply in_map, Htp|]. right. unfold allp_of. rewrite Ft. exact Hp1.
    - apply (Hup1 t1 Hin1); [|exact Hg1|exact Hp1]. intros [Hc|Hc]; [congruence|exact (HnT Hc)].
  Qed.
End Link.

(* ------------------------------------------------------------------------------------------ *)
(* sequences of propagations                                                                    *)
(* ------------------------------------------------------------------------------------------ *)

Section Links.
  Variable k : kind.

  (* propagating g leaves the up-closedness of every other annotation g' intact *)
  Lemma link_other_upclosed g g' fuel a tid a' : g' <> g -> good k a -> upclosed_except k g [] a ->
    link fuel k a tid g = Ok a' -> upclosed_except k g' [] a -> upclosed_except k g' [] a'.
  Proof.
    intros Hne G Hup H Hup'.
    destruct (link_spec k g fuel a tid a' [] G (fun y ty (F : In y []) => match F with end) Hup H) as [Fr [G' [Has _]]].
    intros t' Hin' _ Hg' p Hp.
    destruct (frame_In_r k a a' t' Fr Hin') as [t [Ht E]].
    destruct (set_annots_fields k (t_annots k t') t) as [Ei [Ea _]].
    assert (has k a (t_id t') g') as Hh.
    { assert (has k a' (t_id t') g') as Hh' by (exists t'; auto).
      apply Has in Hh' as [Hh'|[Hbad _]]; [exact Hh'|contradiction]. }
    destruct Hh as [u [Hu [Hidu Hgu]]].
    assert (u = t) as ->.
    { pose proof (good_find k a u G Hu) as F1. pose proof (good_find k a t G Ht) as F2.
      rewrite E, Ei in Hidu. rewrite Hidu in F1. congruence. }
    assert (In p (t_allp t)) as Hpt by (rewrite E, Ea in Hp; exact Hp).
    apply Has. left. apply (Hup' t Ht (fun F => F) Hgu p Hpt).
  Qed.

  (* a list of facts (annotation id, direct term), propagated one after the other *)
  Definition link_all (fuel : nat) (facts : list (N * N)) (a : arena) : res arena :=
    foldM (fun a (gd : N * N) => link fuel k a (snd gd) (fst gd)) facts a.

  (* INHERITED ANNOTATIONS ARE EXACT: after any sequence of propagations — in any order, with
     repetitions, for any fuel — a term carries an annotation iff it carried it before or the
     annotation has a direct fact at the term itself or at one of its descendants *)
  Theorem link_all_spec fuel facts : forall a a', good k a -> (forall g, upclosed_except k g [] a) ->
    link_all fuel facts a = Ok a' ->
    frame k a a' /\ good k a' /\ (forall g, upclosed_except k g [] a') /\
    forall id x, has k a' id x <->
      has k a id x \/ exists d, In (x, d) facts /\ In id (ar_keys a) /\ reach a d id.
  Proof.
    induction facts as [|[g d] facts IH]; intros a a' G Hup H; cbn [link_all foldM] in H.
    - injection H as <-. split; [apply frame_refl|]. split; [exact G|]. split; [exact Hup|].
      intros id x. split; [auto|]. intros [Hx|[d [[] _]]]. exact Hx.
    - cbn [fst snd] in H. destruct (link fuel k a d g) as [a1| | |] eqn:El; cbn [bind] in H; try discriminate.
      destruct (link_spec k g fuel a d a1 [] G (fun y ty (F : In y []) => match F with end) (Hup g) El)
        as [Fr1 [G1 [Has1 Hup1]]].
      assert (forall g', upclosed_except k g' [] a1) as Hupall.
      { intros g'. destruct (N.eq_dec g' g) as [->|Hne]; [exact Hup1|].
        apply (link_other_upclosed g g' fuel a d a1 Hne G (Hup g) El (Hup g')). }
      destruct (IH a1 a' G1 Hupall H) as [Fr2 [G2 [Hup2 Has2]]].
      split; [eapply frame_trans; eauto|]. split; [exact G2|]. split; [exact Hup2|].
      pose proof (frame_keys k a a1 Fr1) as K1.
      (* reach is a statement about the (framed) ancestor caches *)
      assert (forall d' id, In id (ar_keys a) -> (reach a1 d' id <-> reach a d' id)) as Rq.
      { intros d' id _. unfold reach, allp_of.
        destruct (ar_find d' a) as [td|] eqn:Fd.
        - apply find_by_Some in Fd as [Htd Hidd].
          destruct (frame_In_l k a a1 td Fr1 Htd) as [td1 [Htd1 E1]].
          destruct (set_annots_fields k (t_annots k td1) td) as [Ei1 [Ea1 _]].
          pose proof (good_find k a1 td1 G1 Htd1) as F2. rewrite E1 in F2 at 1. rewrite Ei1, Hidd in F2. rewrite F2.
          rewrite E1, Ea1. reflexivity.
        - destruct (ar_find d' a1) as [td1|] eqn:Fd1; [|reflexivity]. exfalso.
          apply find_by_Some in Fd1 as [Htd1 Hidd1].
          destruct (frame_In_r k a a1 td1 Fr1 Htd1) as [td [Htd E1]].
          destruct (set_annots_fields k (t_annots k td1) td) as [Ei1 _].
          pose proof (good_find k a td G Htd) as F1. rewrite E1, Ei1 in Hidd1. rewrite Hidd1 in F1.
          congruence. }
      intros id x. rewrite Has2, Has1, K1. split.
      + intros [[Hx|[-> [Hk Hr]]]|[d' [Hin [Hk Hr]]]].
        * left; exact Hx.
        * right. exists d. split; [left; reflexivity|auto].
        * right. exists d'. split; [right; exact Hin|]. split; [exact Hk|apply (Rq d' id Hk), Hr].
      + intros [Hx|[d' [[[= <- <-]|Hin] [Hk Hr]]]].
        * left; left; exact Hx.
        * left; right. auto.
        * right. exists d'. split; [exact Hin|]. split; [exact Hk|apply (Rq d' id Hk), Hr].
  Qed.
  Corollary link_all_membership fuel facts a a' : good k a -> (forall g, upclosed_except k g [] a) ->
    link_all fuel facts a = Ok a' ->
    forall id x, has k a' id x <-> has k a id x \/ exists d, In (x, d) facts /\ In id (ar_keys a) /\ reach a d id.
  Proof. intros G U H. exact (proj2 (proj2 (proj2 (link_all_spec fuel facts a a' G U H)))). Qed.
End Links.
