(* BaseP.v — lemmas about Model/Base.v utilities *)
From Coq Require Import Sorted Lia.
From HpoV Require Import Model.Base Model.Group Proofs.GroupP.

Lemma find_by_Some {A} (key : A -> N) k l a :
  find_by key k l = Some a -> In a l /\ key a = k.
Proof.
  induction l as [|x t IH]; cbn [find_by]; [discriminate|].
  destruct (N.eqb_spec (key x) k) as [E|E].
  - intros [= <-]. split; [left; reflexivity|exact E].
  - intros H. destruct (IH H). split; [right|]; assumption.
Qed.

Lemma find_by_None {A} (key : A -> N) k l :
  find_by key k l = None -> forall a, In a l -> key a <> k.
Proof.
  induction l as [|x t IH]; cbn [find_by]; [intros _ a []|].
  destruct (N.eqb_spec (key x) k) as [E|E]; [discriminate|].
  intros H a [<-|Ha]; [exact E|apply IH; assumption].
Qed.

Lemma find_by_unique {A} (key : A -> N) l a :
  NoDup (map key l) -> In a l -> find_by key (key a) l = Some a.
Proof.
  induction l as [|x t IH]; cbn [map find_by]; intros Hnd Ha; [destruct Ha|].
  inversion Hnd as [|? ? Hx Ht]; subst.
  destruct Ha as [->|Ha]; [rewrite N.eqb_refl; reflexivity|].
  destruct (N.eqb_spec (key x) (key a)) as [E|E]; [|apply IH; assumption].
  exfalso. apply Hx. rewrite E. apply in_map. exact Ha.
Qed.

Lemma find_by_In_key {A} (key : A -> N) k l :
  In k (map key l) -> exists a, find_by key k l = Some a.
Proof.
  induction l as [|x t IH]; cbn [map find_by]; intros H; [destruct H|].
  destruct (N.eqb_spec (key x) k) as [E|E]; [eexists; reflexivity|].
  destruct H as [H|H]; [congruence|apply IH; exact H].
Qed.

Lemma NoDup_incl_lt (x : N) (a b : list N) :
  NoDup a -> ~ In x a -> incl a b -> In x b -> (length a < length b)%nat.
Proof.
  intros Hnd Hx Hincl Hin.
  assert (NoDup (x :: a)) as Hnd' by (constructor; assumption).
  assert (incl (x :: a) b) as Hincl' by (intros z [<-|Hz]; auto).
  pose proof (NoDup_incl_length Hnd' Hincl') as H. cbn in H. lia.
Qed.

(* mapM succeeds iff every element succeeds, elementwise *)
Lemma mapM_Ok {A B} (f : A -> res B) l ys :
  mapM f l = Ok ys -> Forall2 (fun x y => f x = Ok y) l ys.
Proof.
  revert ys. induction l as [|x t IH]; cbn [mapM]; intros ys H.
  - injection H as <-. constructor.
  - destruct (f x) as [y| | |] eqn:E; cbn [bind] in H; try discriminate.
    destruct (mapM f t) as [ys'| | |] eqn:E2; cbn [bind] in H; try discriminate.
    injection H as <-. constructor; [exact E|apply IH; reflexivity].
Qed.

Lemma Forall2_In_l {A B} (R : A -> B -> Prop) l ys x :
  Forall2 R l ys -> In x l -> exists y, In y ys /\ R x y.
Proof.
  induction 1 as [|a b l' ys' Hab H IH]; intros Hin; [destruct Hin|].
  destruct Hin as [<-|Hin]; [exists b; split; [left; reflexivity|exact Hab]|].
  destruct (IH Hin) as [y [Hy HR]]. exists y. split; [right; exact Hy|exact HR].
Qed.

Lemma Forall2_In_r {A B} (R : A -> B -> Prop) l ys y :
  Forall2 R l ys -> In y ys -> exists x, In x l /\ R x y.
Proof.
  induction 1 as [|a b l' ys' Hab H IH]; intros Hin; [destruct Hin|].
  destruct Hin as [<-|Hin]; [exists a; split; [left; reflexivity|exact Hab]|].
  destruct (IH Hin) as [x [Hx HR]]. exists x. split; [right; exact Hx|exact HR].
Qed.
