(* C18P.v — ontology comparison.
   (a) what the reference report [exp_cmp] of Run/C18.v means (exact set differences, exact
       change predicate, exact deltas), for ALL pairs of observations;
   (b) theorems about the Gallina transcription of comparison.rs (Model/Compare.v):
       added/removed characterised, argument swap, comparing an ontology with itself. *)
From Coq Require Import Sorted Lia.
From HpoV Require Import Gen.Consts Model.Base Model.Group Model.Onto Model.Query Model.Dump Model.Compare
  Spec.Sets Proofs.GroupP Proofs.SetsP Proofs.BaseP Proofs.C01P Run.World Run.C01 Run.C18.

(* ------------------------------------------------------------------------------------------ *)
(* (a) the reference report                                                                     *)
(* ------------------------------------------------------------------------------------------ *)

Lemma somes_In {A} (l : list (option A)) x : In x (somes l) <-> In (Some x) l.
Proof.
  induction l as [|[y|] t IH]; cbn [somes In].
  - tauto.
  - rewrite IH. split; intros [H|H]; auto; [left; congruence|left; congruence].
  - rewrite IH. split; [auto|]. intros [H|H]; [discriminate|exact H].
Qed.

Definition tc_added (c : tcmp) : list N := fst (fst c).
Definition tc_removed (c : tcmp) : list N := snd (fst c).
Definition tc_changed (c : tcmp) : list tdelta := snd c.
Definition ac_added (c : acmp) : list N := fst (fst c).
Definition ac_removed (c : acmp) : list N := snd (fst c).
Definition ac_changed (c : acmp) : list adelta := snd c.

Theorem exp_terms_added d1 d2 x :
  In x (tc_added (exp_tcmp d1 d2)) <-> In x (map d_id (do_terms d2)) /\ ~ In x (map d_id (do_terms d1)).
Proof. apply set_diff_In. Qed.

Theorem exp_terms_removed d1 d2 x :
  In x (tc_removed (exp_tcmp d1 d2)) <-> In x (map d_id (do_terms d1)) /\ ~ In x (map d_id (do_terms d2)).
Proof. apply set_diff_In. Qed.

(* a term present in both is reported iff name, direct parents, obsolete flag or (resolved)
   replacement differ *)
Theorem exp_tdelta_none t1 t2 :
  exp_tdelta t1 t2 = None <->
  d_name t1 = d_name t2 /\ d_parents t1 = d_parents t2 /\ d_obsolete t1 = d_obsolete t2 /\ d_replby t1 = d_replby t2.
Proof.
  unfold exp_tdelta.
  destruct (list_eqb (d_name t1) (d_name t2)) eqn:E1; cbn [andb].
  2:{ split; [discriminate|]. intros [H _]. apply list_eqb_eq in H. congruence. }
  destruct (list_eqb (d_parents t1) (d_parents t2)) eqn:E2; cbn [andb].
  2:{ split; [discriminate|]. intros [_ [H _]]. apply list_eqb_eq in H. congruence. }
  destruct (N.eqb_spec (d_obsolete t1) (d_obsolete t2)) as [E3|E3]; cbn [andb].
  2:{ split; [discriminate|]. intros [_ [_ [H _]]]. congruence. }
  destruct (list_eqb (d_replby t1) (d_replby t2)) eqn:E4.
  2:{ split; [discriminate|]. intros [_ [_ [_ H]]]. apply list_eqb_eq in H. congruence. }
  apply list_eqb_eq in E1, E2, E4. tauto.
Qed.

(* and the delta lists exactly the added and removed parents, the old/new name, flag, replacement *)
Theorem exp_tdelta_some t1 t2 id nm ad rm ob rp :
  exp_tdelta t1 t2 = Some (id, nm, ad, rm, ob, rp) ->
  id = d_id t1 /\
  (forall p, In p ad <-> In p (d_parents t2) /\ ~ In p (d_parents t1)) /\
  (forall p, In p rm <-> In p (d_parents t1) /\ ~ In p (d_parents t2)) /\
  (nm = [] /\ d_name t1 = d_name t2 \/ nm = [d_name t1; d_name t2] /\ d_name t1 <> d_name t2) /\
  (ob = [] /\ d_obsolete t1 = d_obsolete t2 \/ ob = [d_obsolete t1; d_obsolete t2] /\ d_obsolete t1 <> d_obsolete t2) /\
  (rp = [] /\ d_replby t1 = d_replby t2 \/ rp = [d_replby t1; d_replby t2] /\ d_replby t1 <> d_replby t2).
Proof.
  unfold exp_tdelta.
  destruct (list_eqb (d_name t1) (d_name t2) && list_eqb (d_parents t1) (d_parents t2)
            && (d_obsolete t1 =? d_obsolete t2) && list_eqb (d_replby t1) (d_replby t2)); [discriminate|].
  intros [= <- <- <- <- <- <-]. split; [reflexivity|].
  split; [intros p; apply set_diff_In|]. split; [intros p; apply set_diff_In|].
  unfold chg. repeat split.
  - destruct (list_eqb (d_name t1) (d_name t2)) eqn:E; [left|right]; split; auto.
    + apply list_eqb_eq, E.
    + intros H. apply list_eqb_eq in H. congruence.
  - destruct (N.eqb_spec (d_obsolete t1) (d_obsolete t2)); [left|right]; split; auto.
  - destruct (list_eqb (d_replby t1) (d_replby t2)) eqn:E; [left|right]; split; auto.
    + apply list_eqb_eq, E.
    + intros H. apply list_eqb_eq in H. congruence.
Qed.

Theorem exp_terms_changed d1 d2 dl :
  In dl (tc_changed (exp_tcmp d1 d2)) <->
  exists t1 t2, In t1 (do_terms d1) /\ d_find (d_id t1) d2 = Some t2 /\ exp_tdelta t1 t2 = Some dl.
Proof.
  unfold tc_changed, exp_tcmp. cbn [snd]. rewrite somes_In, in_map_iff. split.
  - intros [t1 [H Hin]]. destruct (d_find (d_id t1) d2) as [t2|] eqn:E; [|discriminate].
    exists t1, t2. auto.
  - intros [t1 [t2 [Hin [Hf He]]]]. exists t1. rewrite Hf. auto.
Qed.

Theorem exp_records_added k d1 d2 x :
  In x (ac_added (exp_acmp k d1 d2)) <->
  In x (map da_id (do_records k d2)) /\ ~ In x (map da_id (do_records k d1)).
Proof. apply set_diff_In. Qed.

Theorem exp_records_removed k d1 d2 x :
  In x (ac_removed (exp_acmp k d1 d2)) <->
  In x (map da_id (do_records k d1)) /\ ~ In x (map da_id (do_records k d2)).
Proof. apply set_diff_In. Qed.

Theorem exp_adelta_none r1 r2 :
  exp_adelta r1 r2 = None <-> da_name r1 = da_name r2 /\ da_hpos r1 = da_hpos r2.
Proof.
  unfold exp_adelta.
  destruct (list_eqb (da_name r1) (da_name r2)) eqn:E1; cbn [andb].
  2:{ split; [discriminate|]. intros [H _]. apply list_eqb_eq in H. congruence. }
  destruct (list_eqb (da_hpos r1) (da_hpos r2)) eqn:E2.
  2:{ split; [discriminate|]. intros [_ H]. apply list_eqb_eq in H. congruence. }
  apply list_eqb_eq in E1, E2. tauto.
Qed.

Theorem exp_adelta_some r1 r2 id nm n1 n2 ad rm :
  exp_adelta r1 r2 = Some (id, nm, (n1, n2), ad, rm) ->
  id = da_id r1 /\ n1 = Nlen (da_hpos r1) /\ n2 = Nlen (da_hpos r2) /\
  (forall t, In t ad <-> In t (da_hpos r2) /\ ~ In t (da_hpos r1)) /\
  (forall t, In t rm <-> In t (da_hpos r1) /\ ~ In t (da_hpos r2)) /\
  (nm = [] /\ da_name r1 = da_name r2 \/ nm = [da_name r1; da_name r2] /\ da_name r1 <> da_name r2).
Proof.
  unfold exp_adelta.
  destruct (list_eqb (da_name r1) (da_name r2) && list_eqb (da_hpos r1) (da_hpos r2)); [discriminate|].
  intros [= <- <- <- <- <- <-]. split; [reflexivity|]. split; [reflexivity|]. split; [reflexivity|].
  split; [intros t; apply set_diff_In|]. split; [intros t; apply set_diff_In|].
  unfold chg. destruct (list_eqb (da_name r1) (da_name r2)) eqn:E; [left|right]; split; auto.
  - apply list_eqb_eq, E.
  - intros H. apply list_eqb_eq in H. congruence.
Qed.

Theorem exp_records_changed k d1 d2 dl :
  In dl (ac_changed (exp_acmp k d1 d2)) <->
  exists r1 r2, In r1 (do_records k d1) /\ find_by da_id (da_id r1) (do_records k d2) = Some r2
                /\ exp_adelta r1 r2 = Some dl.
Proof.
  unfold ac_changed, exp_acmp. cbn [snd]. rewrite somes_In, in_map_iff. split.
  - intros [r1 [H Hin]]. destruct (find_by da_id (da_id r1) (do_records k d2)) as [r2|] eqn:E; [|discriminate].
    exists r1, r2. auto.
  - intros [r1 [r2 [Hin [Hf He]]]]. exists r1. rewrite Hf. auto.
Qed.

(* a report accepted by the check has the same flat form as the reference report *)
Theorem cmp_eqb_sound a b : cmp_eqb a b = true -> ser_cmp a = ser_cmp b.
Proof. apply matrix_eqb_eq. Qed.

(* ------------------------------------------------------------------------------------------ *)
(* (b) the transcription of comparison.rs                                                       *)
(* ------------------------------------------------------------------------------------------ *)

Lemma ins_by_In {A} (key : A -> N) x l z : In z (ins_by key x l) <-> z = x \/ In z l.
Proof.
  induction l as [|y t IH]; cbn [ins_by In]; [split; [intros [H|[]]; auto|intros [H|[]]; auto]|].
  destruct (key x <=? key y); cbn [In]; [split; intros [H|H]; auto|]. rewrite IH.
  split; [intros [H|[H|H]]; auto|intros [H|[H|H]]; auto].
Qed.

Lemma sort_by_In {A} (key : A -> N) l z : In z (sort_by key l) <-> In z l.
Proof.
  unfold sort_by. induction l as [|y t IH]; cbn [fold_right In]; [tauto|].
  rewrite ins_by_In, IH. split; intros [H|H]; auto.
Qed.

(* added terms: exactly the terms of the new ontology whose id the old one does not resolve *)
Theorem model_added_terms ol orr x :
  In x (added_terms ol orr) <->
  exists t, In t (ar_terms (o_arena orr)) /\ t_id t = x /\ o_get x ol = None.
Proof.
  unfold added_terms, terms_sorted. rewrite in_map_iff. split.
  - intros [t [Hid Hin]]. apply filter_In in Hin as [Hin Hf]. apply sort_by_In in Hin.
    exists t. repeat split; auto. subst x. destruct (o_get (t_id t) ol); [discriminate|reflexivity].
  - intros [t [Hin [Hid Hn]]]. exists t. split; [exact Hid|]. apply filter_In. split.
    + apply sort_by_In, Hin.
    + rewrite Hid, Hn. reflexivity.
Qed.

(* swapping the arguments swaps added with removed (terms and the three record kinds) *)
Theorem model_swap_terms ol orr :
  removed_terms ol orr = added_terms orr ol /\ added_terms ol orr = removed_terms orr ol.
Proof. split; reflexivity. Qed.

Theorem model_swap_records k ol orr :
  removed_records k ol orr = added_records k orr ol /\ added_records k ol orr = removed_records k orr ol.
Proof. split; reflexivity. Qed.

Theorem model_added_records k ol orr x :
  In x (added_records k ol orr) <->
  exists r, In r (o_records k orr) /\ a_id r = x /\ an_find x (o_records k ol) = None.
Proof.
  unfold added_records, records_sorted. rewrite in_map_iff. split.
  - intros [r [Hid Hin]]. apply filter_In in Hin as [Hin Hf]. apply sort_by_In in Hin.
    exists r. repeat split; auto. subst x. destruct (an_find (a_id r) (o_records k ol)); [discriminate|reflexivity].
  - intros [r [Hin [Hid Hn]]]. exists r. split; [exact Hid|]. apply filter_In. split.
    + apply sort_by_In, Hin.
    + rewrite Hid, Hn. reflexivity.
Qed.

(* ---- comparing an ontology with itself reports nothing ---- *)

Lemma filter_none {A} (f : A -> bool) l : (forall x, In x l -> f x = false) -> filter f l = [].
Proof.
  induction l as [|y t IH]; cbn [filter]; intros H; [reflexivity|].
  rewrite (H y (or_introl eq_refl)). apply IH. intros x Hx. apply H. right. exact Hx.
Qed.

Lemma opt_eqb_refl o : opt_eqb o o = true.
Proof. destruct o; cbn; [apply N.eqb_refl|reflexivity]. Qed.

Lemma somes_all_None {A} (l : list (option A)) : (forall x, In x l -> x = None) -> somes l = [].
Proof.
  induction l as [|[y|] t IH]; cbn [somes]; intros H; [reflexivity| |].
  - specialize (H (Some y) (or_introl eq_refl)). discriminate.
  - apply IH. intros x Hx. apply H. right. exact Hx.
Qed.

Lemma mapM_all_Ok {A B} (f : A -> res B) l :
  (forall x, In x l -> exists y, f x = Ok y) -> exists ys, mapM f l = Ok ys.
Proof.
  induction l as [|x t IH]; cbn [mapM]; intros H; [eexists; reflexivity|].
  destruct (H x (or_introl eq_refl)) as [y ->]. cbn [bind].
  destruct IH as [ys ->]; [intros z Hz; apply H; right; exact Hz|]. cbn [bind]. eexists; reflexivity.
Qed.

(* the well-formedness facts used: arena invariants (established by ar_insert for every
   insertion sequence, see Proofs/C10P.v), parents resolve (referential closure, C15),
   record ids unique and direct-term groups ascending (C02 / C12) *)
Record wf_cmp (o : onto) : Prop := {
  wf_ids_nodup : NoDup (ar_keys (o_arena o));
  wf_ids_range : forall t, In t (ar_terms (o_arena o)) -> t_id t < MAX_HPO_ID;
  wf_parents_resolve : forall t, In t (ar_terms (o_arena o)) -> forall p, In p (t_parents t) -> exists tp, o_get p o = Some tp;
  wf_rec_nodup : forall k, NoDup (map a_id (o_records k o));
  wf_rec_sorted : forall k r, In r (o_records k o) -> sorted (a_hpos r)
}.

Lemma o_get_self o t : wf_cmp o -> In t (ar_terms (o_arena o)) -> o_get (t_id t) o = Some t.
Proof.
  intros W Hin. unfold o_get, ar_get. pose proof (wf_ids_range o W t Hin) as Hr.
  destruct (N.leb_spec MAX_HPO_ID (t_id t)); [lia|]. unfold ar_find.
  apply find_by_unique; [exact (wf_ids_nodup o W)|exact Hin].
Qed.

Lemma term_delta_self o t : wf_cmp o -> In t (ar_terms (o_arena o)) -> term_delta o o t t = Ok None.
Proof.
  intros W Hin. unfold term_delta.
  assert (exists ys, resolve_all o (t_parents t) = Ok ys) as [ys ->].
  { apply mapM_all_Ok. intros p Hp. destruct (wf_parents_resolve o W t Hin p Hp) as [tp Htp].
    exists tp. unfold resolve. rewrite Htp. reflexivity. }
  cbn [bind].
  assert (filter (fun p => negb (mem p (t_parents t))) (t_parents t) = []) as ->.
  { apply filter_none. intros p Hp. apply mem_In in Hp. rewrite Hp. reflexivity. }
  rewrite list_eqb_refl, opt_eqb_refl. unfold bool_eqb. rewrite Bool.eqb_reflx. reflexivity.
Qed.

Lemma annot_delta_self r : sorted (a_hpos r) -> annot_delta r r = None.
Proof.
  intros Hs. unfold annot_delta.
  assert (filter (fun t => negb (g_contains t (a_hpos r))) (a_hpos r) = []) as ->.
  { apply filter_none. intros x Hx. apply (g_contains_spec x _ Hs) in Hx. rewrite Hx. reflexivity. }
  rewrite list_eqb_refl. reflexivity.
Qed.

Theorem model_compare_self o : wf_cmp o -> compare o o = Ok empty_cmp.
Proof.
  intros W. unfold compare, changed_terms.
  assert (forall t, In t (terms_sorted o) ->
            (match o_get (t_id t) o with Some r => term_delta o o t r | None => Ok None end) = Ok None) as Hd.
  { intros t Ht. apply sort_by_In in Ht. rewrite (o_get_self o t W Ht). apply term_delta_self; assumption. }
  assert (exists ds, mapM (fun t => match o_get (t_id t) o with Some r => term_delta o o t r | None => Ok None end)
                          (terms_sorted o) = Ok ds /\ somes ds = []) as [ds [-> Hds]].
  { destruct (mapM_all_Ok (fun t => match o_get (t_id t) o with Some r => term_delta o o t r | None => Ok None end)
                (terms_sorted o)) as [ds E].
    - intros t Ht. exists None. apply Hd, Ht.
    - exists ds. split; [exact E|]. apply somes_all_None. intros x Hx.
      destruct (Forall2_In_r _ _ _ x (mapM_Ok _ _ _ E) Hx) as [t [Ht Hf]]. rewrite (Hd t Ht) in Hf. congruence. }
  cbn [bind]. rewrite Hds.
  assert (added_terms o o = []) as Ha.
  { unfold added_terms. rewrite filter_none; [reflexivity|]. intros t Ht. apply sort_by_In in Ht.
    rewrite (o_get_self o t W Ht). reflexivity. }
  assert (forall k, added_records k o o = []) as Hr.
  { intros k. unfold added_records. rewrite filter_none; [reflexivity|]. intros r Hin.
    apply sort_by_In in Hin. unfold an_find.
    rewrite (find_by_unique a_id _ r (wf_rec_nodup o W k) Hin). reflexivity. }
  assert (forall k, changed_records k o o = []) as Hc.
  { intros k. unfold changed_records. apply somes_all_None. intros x Hx. apply in_map_iff in Hx as [r [Hx Hin]].
    apply sort_by_In in Hin. unfold an_find in Hx.
    rewrite (find_by_unique a_id _ r (wf_rec_nodup o W k) Hin) in Hx. subst x.
    apply annot_delta_self. exact (wf_rec_sorted o W k r Hin). }
  unfold removed_terms, removed_records. rewrite Ha, !Hr, !Hc. reflexivity.
Qed.
