(* AllPathsP.v — "each construction path" of C01 / C02 / C03 in one statement: whichever public
   constructor produced the ontology (Builder API, JAX text loaders, sub_ontology of any such
   ontology, from_bytes on a well-formed file), it has exact ancestor caches with children =
   parents^-1 (src_ok), an acyclic graph, inherited annotation sets (ann_ok) and information
   content = calculate (N, n) (ic_ok). *)
From Coq Require Import Lia.
From HpoV Require Import Gen.Consts Model.Base Model.Group Model.Onto Model.Query Model.Script Model.Binary Model.Text Model.SubOnt
  Proofs.BaseP Proofs.ClosureP Proofs.AcyclicP Proofs.DistP Proofs.QgoodP Proofs.RoundTripP Proofs.AnnotP Proofs.BuilderAnnotP
  Proofs.BuilderICP Proofs.ReloadP Proofs.SubAnnotP Proofs.JaxP Proofs.RoundTripSrcP Proofs.DecodeAnyP Proofs.JaxDescribesP Proofs.WalkP Proofs.WalkAllP Proofs.SectionP Proofs.C04R Proofs.C04B Proofs.C16M Proofs.TotalReloadP
  Model.Dump Model.Similarity.
From Coq Require Import Permutation Reals.

Inductive constructed (icf : N -> N -> res N) : onto -> Prop :=
| by_builder s codes o : run_script icf s = Ok (codes, Ok o) -> constructed icf o
| by_jax tr obo genes hpoa o : obo_closed obo -> load_jax icf tr obo genes hpoa = Ok o -> constructed icf o
| by_binary input o : bin_closed input -> bin_distinct input -> decode icf input = Ok o ->
    (forall k r d, In r (o_records k o) -> In d (a_hpos r) -> In d (ar_keys (o_arena o))) -> constructed icf o
| by_sub_ontology o root leaves o' : constructed icf o -> (forall l, In l leaves -> In l (ar_keys (o_arena o))) ->
    sub_ontology icf o root leaves = Ok o' -> constructed icf o'.

Theorem constructed_wellformed icf o : constructed icf o ->
  src_ok o /\ acyclic (o_arena o) /\ ann_ok o /\ ic_ok icf o /\ (forall k, NoDup (map a_id (o_records k o))) /\
  (forall k r d, In r (o_records k o) -> In d (a_hpos r) -> In d (ar_keys (o_arena o))).
Proof.
  induction 1 as [s codes o Hs|tr obo genes hpoa o Cl H|input o Cl Di H Dk|o root leaves o' _ IH Hl H].
  - split; [apply (run_script_src_ok icf s codes o Hs)|]. destruct (run_script_ann_ok icf s codes o Hs) as [Ac A].
    split; [exact Ac|]. split; [exact A|]. split; [intros t Ht k; apply (run_script_ic icf s codes o Hs t Ht k)|].
    split; [apply (RoundTripAllP.run_script_records_nodup icf s codes o Hs)|apply (run_script_direct_in_keys icf s codes o Hs)].
  - destruct (load_jax_ok icf tr obo genes hpoa o Cl H) as (_ & Ac & A & Ic). destruct (load_jax_src icf tr obo genes hpoa o Cl H) as (S & Nd & _).
    pose proof (load_jax_direct_in_keys icf tr obo genes hpoa o Cl H). auto 10.
  - destruct (decode_any_ok icf input o H Cl Di) as (S & Ac & A & Ic & Nd & _). auto 10.
  - destruct IH as (S & _). pose proof (so_q o S) as G.
    destruct (sub_ontology_src icf o root leaves o' G Hl H) as (S' & Ic' & Nd').
    destruct (sub_ontology_annotations icf o root leaves o' G Hl H) as (ids & terms & _ & _ & Hst). cbv zeta in Hst. destruct Hst as (Ac' & A' & _).
    pose proof (sub_ontology_direct_in_keys icf o root leaves o' G Hl H). auto 10.
Qed.

(* C15 on every constructed ontology: the complete walk through the read API returns *)
Theorem constructed_walk_returns icf o : constructed icf o -> exists d, dump_onto o = Ok d.
Proof. intros C. destruct (constructed_wellformed icf o C) as (S & _ & A & _ & _ & Dk). apply (wellformed_walk_returns o S A Dk). Qed.

(* C07 on every constructed ontology ("for all ontologies reachable through the public constructors") *)
Theorem constructed_roundtrip icf o order o'' : constructed icf o ->
  file_ok order o -> (forall l, Permutation (order l) l) -> decode icf (encode_with order o) = Ok o'' ->
  Forall2 term_kept (ar_terms (o_arena o)) (ar_terms (o_arena o'')) /\
  Forall2 (fun t t'' => forall k, t_annots k t'' = t_annots k t) (ar_terms (o_arena o)) (ar_terms (o_arena o'')) /\
  Forall2 (fun t t'' => t_ic t'' = t_ic t) (ar_terms (o_arena o)) (ar_terms (o_arena o'')) /\
  (forall k, o_records k o'' = map (raw_record k) (order (o_records k o))) /\ o_version o'' = o_version o /\
  (b_build_with_defaults o = Ok o -> o_cat o'' = o_cat o /\ o_mod o'' = o_mod o).
Proof.
  intros C F Hp Hd. destruct (constructed_wellformed icf o C) as (S & Ac & A & Ic & Nd & _).
  apply (roundtrip_complete icf order o o'' S Ac A Ic Nd F Hp Hd).
Qed.

(* C04 (exact arithmetic) on every constructed ontology *)
Theorem constructed_similarity_nonneg icf o : constructed icf o ->
  forall g k ta tb r, In ta (ar_terms (o_arena o)) -> In tb (ar_terms (o_arena o)) ->
    simR (icRo o) g o k ta tb = Ok r -> (0 <= r)%R.
Proof.
  intros C g k ta tb r. destruct (constructed_wellformed icf o C) as (S & _ & A & _).
  apply (exact_similarity_nonneg o (so_q o S) A).
Qed.

Theorem constructed_structure icf o : constructed icf o -> src_ok o /\ acyclic (o_arena o).
Proof. intros C. destruct (constructed_wellformed icf o C) as (S & Ac & _). auto. Qed.

Theorem constructed_annotations icf o : constructed icf o ->
  ann_ok o /\ (forall k, NoDup (map a_id (o_records k o))) /\
  (forall k r d, In r (o_records k o) -> In d (a_hpos r) -> In d (ar_keys (o_arena o))).
Proof. intros C. destruct (constructed_wellformed icf o C) as (_ & _ & A & _ & Nd & Dk). auto. Qed.

Theorem constructed_ic icf o : constructed icf o -> ic_ok icf o.
Proof. intros C. destruct (constructed_wellformed icf o C) as (_ & _ & _ & Ic & _). exact Ic. Qed.

(* C16 across construction paths: two constructed ontologies — whichever constructors produced them —
   that state the same direct facts agree, term by term, on everything derived *)
Theorem constructed_same_facts_agree icf o1 o2 t1 t2 : constructed icf o1 -> constructed icf o2 ->
  C16M.same_facts o1 o2 ->
  In t1 (ar_terms (o_arena o1)) -> In t2 (ar_terms (o_arena o2)) -> t_id t2 = t_id t1 ->
  t_parents t2 = t_parents t1 /\ t_children t2 = t_children t1 /\ t_allp t2 = t_allp t1 /\
  (forall k, t_annots k t2 = t_annots k t1) /\ t_ic t2 = t_ic t1.
Proof.
  intros C1 C2. destruct (constructed_wellformed icf o1 C1) as (S1 & _ & A1 & I1 & N1 & D1).
  destruct (constructed_wellformed icf o2 C2) as (S2 & _ & A2 & I2 & N2 & D2).
  apply (C16M.derived_data_function_of_facts icf o1 o2 t1 t2 S1 S2 A1 A2 I1 I2 N1 N2 D1 D2).
Qed.

Theorem constructed_qgood icf o : constructed icf o -> qgood o.
Proof. intros C. destruct (constructed_wellformed icf o C) as (S & _). apply (so_q o S). Qed.

(* C07, last sentence, for every constructed ontology that contains the two standard roots: the
   loader accepts what the writer emits — it neither rejects it nor panics nor runs out of fuel *)
Theorem constructed_reload_accepted icf o order : constructed icf o -> file_ok order o -> (forall l, Permutation (order l) l) ->
  In ROOT_ID (ar_keys (o_arena o)) -> In PHENOTYPE_ID (ar_keys (o_arena o)) ->
  exists o'', decode icf (encode_with order o) = Ok o''.
Proof.
  intros C F Hp Hr Hph. destruct (constructed_wellformed icf o C) as (S & Ac & A & Ic & Nd & Dk).
  apply (TotalReloadP.reload_accepted icf order o F S Ac A Ic Nd Dk Hp Hr Hph).
Qed.
