(* JaxOrderP.v — C16 for the text files: two loads from JAX files that state the same facts — the same
   is_a pairs, the same gene rows, the same disease rows, in whatever order the stanzas and rows appear and
   however often a row is repeated — return ontologies that agree, term by term, on everything derived.
   The record ids need no separate hypothesis: a record only comes into being through a row that names
   a term, so every record of a loaded ontology has a direct term (RN) and the record ids are the ids
   that occur in a row. *)
From Coq Require Import Lia Relations Sorted Permutation.
From HpoV Require Import Gen.Consts Model.Base Model.Group Model.Onto Model.Query Model.Binary Model.TermId Model.Text Model.Script
  Proofs.GroupP Proofs.BaseP Proofs.ClosureP Proofs.AcyclicP Proofs.DistP Proofs.QgoodP Proofs.LinkP Proofs.RecordsP Proofs.C03W
  Proofs.SectionP Proofs.RoundTripP Proofs.AnnotP Proofs.BuilderAnnotP Proofs.SubLinksP Proofs.ReloadP Proofs.RoundTripAllP
  Proofs.C09P Proofs.JaxP Proofs.RoundTripSrcP Proofs.DecodeAnyP Proofs.BuilderICP Proofs.C16M Proofs.JaxDescribesP.

(* every record has at least one direct term *)
Definition RN (o : onto) : Prop := forall k g r, an_find g (o_records k o) = Some r -> a_hpos r <> [].

Lemma g_add_nonempty l x : g_add l x <> [].
Proof. intros E. assert (In x (g_add l x)) as H by (apply g_add_In; left; reflexivity). rewrite E in H. destruct H. Qed.

Lemma RN_annotate k id name tid o o' : RN o -> b_annotate k id name tid o = Ok o' -> RN o'.
Proof.
  intros R H k' g r Hf. destruct (kind_eq_dec k' k) as [->|Hne].
  - rewrite (annotate_records_k k id name tid o o' H), an_add_term_find, an_add_find in Hf.
    destruct (an_find g (o_records k o)) as [r0|] eqn:E0.
    + destruct (a_id r0 =? id); injection Hf as <-; [cbn [a_hpos]; apply g_add_nonempty|apply (R k g r0 E0)].
    + destruct (id =? g); [|discriminate]. cbn [a_id] in Hf. rewrite N.eqb_refl in Hf. injection Hf as <-.
      cbn [a_hpos]. apply g_add_nonempty.
  - destruct (annotate_records k id name tid o o' H) as (_ & _ & Ro). rewrite (Ro k' Hne) in Hf. apply (R k' g r Hf).
Qed.

Theorem load_jax_records_nonempty icf tr obo genes hpoa o : load_jax icf tr obo genes hpoa = Ok o -> RN o.
Proof.
  intros H. unfold load_jax in H.
  apply bind_Ok' in H as [o1 [H1 H]]. apply bind_Ok' in H as [o2 [H2 H]]. apply bind_Ok' in H as [o3 [H3 H]].
  apply bind_Ok' in H as [o4 [H4 H]]. apply bind_Ok' in H as [o5 [H5 H6]].
  assert (RN o2) as R2.
  { intros k g r Hf.
    rewrite read_obo_unfold in H1. apply bind_Ok' in H1 as [[ob conns] [Hs H1]].
    apply bind_Ok' in H1 as [a [Ha H1]]. injection H1 as <-.
    destruct (obo_scan_ok obo (ob, conns) Hs) as [_ _ _ _ R _]. cbn [fst] in R.
    unfold b_connect_all_terms in H2. destruct (connect_all _ _) as [a3| | |]; cbn [bind] in H2; try discriminate. injection H2 as <-.
    assert (o_records k (set_arena a3 (set_arena a ob)) = []) as E by (rewrite <- (R k); destruct k; reflexivity).
    rewrite E in Hf. discriminate. }
  assert (RN o3) as R3.
  { unfold parse_gene_file in H3. destruct (split_first_line genes) as [hdr rest]. destruct (negb _); [discriminate|].
    refine (foldM_inv _ RN _ _ o2 o3 R2 H3). intros s line s' _ Hs Rs.
    destruct (if tr then phenotype_to_gene_line line else genes_to_phenotype_line line) as [[[gid sym] hpo]| | |]; cbn [bind] in Hs; try discriminate.
    apply (RN_annotate KGene gid sym hpo s s' Rs Hs). }
  assert (RN o4) as R4.
  { unfold parse_hpoa in H4. refine (foldM_inv _ RN _ _ o3 o4 R3 H4). intros s line s' _ Hs Rs.
    destruct (if starts_with s_OMIM line then Some KOmim else if starts_with s_ORPHA line then Some KOrpha else None) as [k|];
      [|injection Hs as <-; exact Rs].
    destruct (disease_components line) as [[[[did name] h]|]| | |]; cbn [bind] in Hs; try discriminate; [|injection Hs as <-; exact Rs].
    destruct (parse_uint U32_MAX did) as [d|]; [|discriminate]. apply (RN_annotate k d name h s s' Rs Hs). }
  intros k g r Hf. rewrite (build_with_defaults_records o5 o H6), (calculate_ic_records icf o4 o5 H5) in Hf. apply (R4 k g r Hf).
Qed.

(* with RN on both sides, equal direct-term relations give the same record ids *)
Lemma record_ids_of_direct o1 o2 : RN o1 -> RN o2 ->
  (forall k, NoDup (map a_id (o_records k o1))) -> (forall k, NoDup (map a_id (o_records k o2))) ->
  (forall k g x, In x (direct k o1 g) <-> In x (direct k o2 g)) ->
  forall k, Permutation (map a_id (o_records k o1)) (map a_id (o_records k o2)).
Proof.
  intros R1 R2 N1 N2 D k. apply NoDup_Permutation; [apply N1|apply N2|]. intros g.
  assert (forall o, RN o -> (In g (map a_id (o_records k o)) <-> exists x, In x (direct k o g))) as Hm.
  { intros o R. unfold direct. split.
    - intros Hin. destruct (find_by_In_key a_id g _ Hin) as [r Hr]. unfold an_find. rewrite Hr.
      pose proof (R k g r Hr) as Hne. destruct (a_hpos r) as [|x l]; [congruence|]. exists x. left. reflexivity.
    - intros [x Hx]. unfold an_find in Hx. destruct (find_by a_id g (o_records k o)) as [r|] eqn:E; [|destruct Hx].
      apply find_by_Some in E as [Hin <-]. apply in_map, Hin. }
  rewrite (Hm o1 R1), (Hm o2 R2). split; intros [x Hx]; exists x; apply (D k g x); exact Hx.
Qed.

(* C16, text files *)
Theorem jax_files_order_irrelevant icf tr1 obo1 genes1 hpoa1 tr2 obo2 genes2 hpoa2 o1 o2 ob1 conns1 ob2 conns2 t1 t2 :
  obo_closed obo1 -> obo_closed obo2 ->
  load_jax icf tr1 obo1 genes1 hpoa1 = Ok o1 -> load_jax icf tr2 obo2 genes2 hpoa2 = Ok o2 ->
  obo_scan obo1 = Ok (ob1, conns1) -> obo_scan obo2 = Ok (ob2, conns2) ->
  (forall c p, In (c, p) conns1 <-> In (c, p) conns2) ->
  (forall g x, gene_row tr1 genes1 g x <-> gene_row tr2 genes2 g x) ->
  (forall k g x, disease_row k hpoa1 g x <-> disease_row k hpoa2 g x) ->
  In t1 (ar_terms (o_arena o1)) -> In t2 (ar_terms (o_arena o2)) -> t_id t2 = t_id t1 ->
  t_parents t2 = t_parents t1 /\ t_children t2 = t_children t1 /\ t_allp t2 = t_allp t1 /\
  (forall k, t_annots k t2 = t_annots k t1) /\ t_ic t2 = t_ic t1.
Proof.
  intros Cl1 Cl2 H1 H2 Hs1 Hs2 Hc Hg Hd.
  destruct (load_jax_describes icf tr1 obo1 genes1 hpoa1 o1 Cl1 H1) as (ob1' & conns1' & Hs1' & _ & _ & L1 & G1 & M1 & P1).
  destruct (load_jax_describes icf tr2 obo2 genes2 hpoa2 o2 Cl2 H2) as (ob2' & conns2' & Hs2' & _ & _ & L2 & G2 & M2 & P2).
  rewrite Hs1 in Hs1'. injection Hs1' as <- <-. rewrite Hs2 in Hs2'. injection Hs2' as <- <-.
  destruct (load_jax_ok icf tr1 obo1 genes1 hpoa1 o1 Cl1 H1) as (_ & _ & A1 & I1).
  destruct (load_jax_ok icf tr2 obo2 genes2 hpoa2 o2 Cl2 H2) as (_ & _ & A2 & I2).
  destruct (load_jax_src icf tr1 obo1 genes1 hpoa1 o1 Cl1 H1) as (S1 & N1 & _).
  destruct (load_jax_src icf tr2 obo2 genes2 hpoa2 o2 Cl2 H2) as (S2 & N2 & _).
  assert (forall k g x, In x (direct k o1 g) <-> In x (direct k o2 g)) as D.
  { intros k g x. destruct k.
    - rewrite G1, G2. apply Hg.
    - rewrite M1, M2. apply Hd.
    - rewrite P1, P2. apply Hd. }
  apply (C16M.derived_data_function_of_facts icf o1 o2 t1 t2 S1 S2 A1 A2 I1 I2 N1 N2
           (load_jax_direct_in_keys icf tr1 obo1 genes1 hpoa1 o1 Cl1 H1)
           (load_jax_direct_in_keys icf tr2 obo2 genes2 hpoa2 o2 Cl2 H2)).
  split.
  - intros c p. rewrite L1, L2. apply Hc.
  - apply (record_ids_of_direct o1 o2 (load_jax_records_nonempty _ _ _ _ _ _ H1) (load_jax_records_nonempty _ _ _ _ _ _ H2) N1 N2 D).
  - exact D.
Qed.

(* in particular: permuting (or repeating) the rows of the two annotation files changes nothing *)
Lemma gene_row_same_lines tr genes1 genes2 :
  (forall l, In l (lines (snd (split_first_line genes1))) <-> In l (lines (snd (split_first_line genes2)))) ->
  forall g x, gene_row tr genes1 g x <-> gene_row tr genes2 g x.
Proof.
  intros Hl g x. unfold gene_row. split; intros (line & sym & Hin & Hp); exists line, sym; (split; [apply Hl, Hin|exact Hp]).
Qed.

Lemma disease_row_same_lines hpoa1 hpoa2 : (forall l, In l (lines hpoa1) <-> In l (lines hpoa2)) ->
  forall k g x, disease_row k hpoa1 g x <-> disease_row k hpoa2 g x.
Proof.
  intros Hl k g x. unfold disease_row. split; intros (line & did & name & Hin & Hr); exists line, did, name; (split; [apply Hl, Hin|exact Hr]).
Qed.

Theorem jax_rows_order_irrelevant icf tr obo genes1 hpoa1 genes2 hpoa2 o1 o2 t1 t2 :
  obo_closed obo ->
  load_jax icf tr obo genes1 hpoa1 = Ok o1 -> load_jax icf tr obo genes2 hpoa2 = Ok o2 ->
  Permutation (lines (snd (split_first_line genes1))) (lines (snd (split_first_line genes2))) ->
  Permutation (lines hpoa1) (lines hpoa2) ->
  In t1 (ar_terms (o_arena o1)) -> In t2 (ar_terms (o_arena o2)) -> t_id t2 = t_id t1 ->
  t_parents t2 = t_parents t1 /\ t_children t2 = t_children t1 /\ t_allp t2 = t_allp t1 /\
  (forall k, t_annots k t2 = t_annots k t1) /\ t_ic t2 = t_ic t1.
Proof.
  intros Cl H1 H2 Pg Ph.
  destruct (load_jax_describes icf tr obo genes1 hpoa1 o1 Cl H1) as (ob & conns & Hs & _).
  apply (jax_files_order_irrelevant icf tr obo genes1 hpoa1 tr obo genes2 hpoa2 o1 o2 ob conns ob conns t1 t2 Cl Cl H1 H2 Hs Hs).
  - tauto.
  - apply gene_row_same_lines. intros l. split; [apply Permutation_in, Pg|apply Permutation_in, Permutation_sym, Pg].
  - apply disease_row_same_lines. intros l. split; [apply Permutation_in, Ph|apply Permutation_in, Permutation_sym, Ph].
Qed.

(* ---------------- the stanzas of hp.obo in any order ---------------- *)

(* the is_a pairs a chunk contributes *)
Definition chunk_link (chunk : bytes) (cp : N * N) : Prop :=
  exists stanza raw cs, strip_prefix term_header_nl chunk = Some stanza /\ term_from_obo stanza = Ok (Some raw) /\
    connections_of stanza (t_id raw) = Ok cs /\ In cp cs.

Lemma read_obo_chunks_links chunks : forall st st', read_obo_chunks chunks st = Ok st' ->
  forall cp, In cp (snd st') <-> In cp (snd st) \/ exists chunk, In chunk chunks /\ chunk_link chunk cp.
Proof.
  induction chunks as [|c chunks IH]; intros st st' H cp; unfold read_obo_chunks in H; cbn [foldM] in H.
  - injection H as <-. split; [auto|]. intros [H|(chunk & [] & _)]. exact H.
  - match type of H with bind ?e _ = _ => destruct e as [st1| | |] eqn:E1 end; cbn [bind] in H; try discriminate.
    change (read_obo_chunks chunks st1 = Ok st') in H. rewrite (IH st1 st' H cp).
    assert (In cp (snd st1) <-> In cp (snd st) \/ chunk_link c cp) as E.
    { destruct st as [o1 conns]. unfold chunk_link. destruct (strip_prefix term_header_nl c) as [stanza|].
      - destruct (term_from_obo stanza) as [[raw|]| | |] eqn:Et; cbn [bind] in E1; try discriminate.
        + destruct (b_add_term raw o1) as [o2| | |]; cbn [bind] in E1; try discriminate.
          destruct (connections_of stanza (t_id raw)) as [cs| | |] eqn:Ec; cbn [bind] in E1; try discriminate.
          injection E1 as <-. cbn [snd]. rewrite in_app_iff. split.
          * intros [Hc|Hc]; [left; exact Hc|right; exists stanza, raw, cs; auto].
          * intros [Hc|(s & r & cs' & Es & Er & Ecs & Hin)]; [left; exact Hc|]. injection Es as <-. rewrite Et in Er. injection Er as <-.
            rewrite Ec in Ecs. injection Ecs as <-. right. exact Hin.
        + injection E1 as <-. cbn [snd]. split; [auto|]. intros [Hc|(s & r & cs' & Es & Er & _)]; [exact Hc|].
          injection Es as <-. rewrite Et in Er. discriminate.
      - assert (snd st1 = conns) as ->.
        { destruct (starts_with OBO_HEADER_START c); [|injection E1 as <-; reflexivity].
          destruct (version_from_obo (lines c)) as [v| | |]; cbn [bind] in E1; try discriminate. injection E1 as <-. reflexivity. }
        cbn [snd]. split; [auto|]. intros [Hc|(s & r & cs' & Es & _)]; [exact Hc|discriminate]. }
    rewrite E. split.
    + intros [[Hc|Hc]|(chunk & Hin & Hl)]; [left; exact Hc|right; exists c; split; [left; reflexivity|exact Hc]|].
      right. exists chunk. split; [right; exact Hin|exact Hl].
    + intros [Hc|(chunk & [<-|Hin] & Hl)]; [left; left; exact Hc|left; right; exact Hl|right; exists chunk; auto].
Qed.

(* two obo files whose blank-line separated chunks are the same up to order (and repetition) yield the
   same set of is_a pairs *)
Theorem obo_scan_links_any_order obo1 obo2 ob1 conns1 ob2 conns2 :
  obo_scan obo1 = Ok (ob1, conns1) -> obo_scan obo2 = Ok (ob2, conns2) ->
  (forall c, In c (split_blank obo1 []) <-> In c (split_blank obo2 [])) ->
  forall cp, In cp conns1 <-> In cp conns2.
Proof.
  intros H1 H2 Hc cp. unfold obo_scan in H1, H2.
  rewrite (read_obo_chunks_links _ _ _ H1 cp), (read_obo_chunks_links _ _ _ H2 cp). cbn [snd In].
  split; (intros [[]|(chunk & Hin & Hl)]; right; exists chunk; split; [apply Hc, Hin|exact Hl]).
Qed.

(* C16 for whole sets of text files: stanzas and rows in any order *)
Theorem jax_files_any_order icf tr obo1 genes1 hpoa1 obo2 genes2 hpoa2 o1 o2 t1 t2 :
  obo_closed obo1 -> obo_closed obo2 ->
  load_jax icf tr obo1 genes1 hpoa1 = Ok o1 -> load_jax icf tr obo2 genes2 hpoa2 = Ok o2 ->
  Permutation (split_blank obo1 []) (split_blank obo2 []) ->
  Permutation (lines (snd (split_first_line genes1))) (lines (snd (split_first_line genes2))) ->
  Permutation (lines hpoa1) (lines hpoa2) ->
  In t1 (ar_terms (o_arena o1)) -> In t2 (ar_terms (o_arena o2)) -> t_id t2 = t_id t1 ->
  t_parents t2 = t_parents t1 /\ t_children t2 = t_children t1 /\ t_allp t2 = t_allp t1 /\
  (forall k, t_annots k t2 = t_annots k t1) /\ t_ic t2 = t_ic t1.
Proof.
  intros Cl1 Cl2 H1 H2 Po Pg Ph.
  destruct (load_jax_describes icf tr obo1 genes1 hpoa1 o1 Cl1 H1) as (ob1 & conns1 & Hs1 & _).
  destruct (load_jax_describes icf tr obo2 genes2 hpoa2 o2 Cl2 H2) as (ob2 & conns2 & Hs2 & _).
  apply (jax_files_order_irrelevant icf tr obo1 genes1 hpoa1 tr obo2 genes2 hpoa2 o1 o2 ob1 conns1 ob2 conns2 t1 t2 Cl1 Cl2 H1 H2 Hs1 Hs2).
  - intros c p. apply (obo_scan_links_any_order obo1 obo2 ob1 conns1 ob2 conns2 Hs1 Hs2).
    intros ch. split; [apply Permutation_in, Po|apply Permutation_in, Permutation_sym, Po].
  - apply gene_row_same_lines. intros l. split; [apply Permutation_in, Pg|apply Permutation_in, Permutation_sym, Pg].
  - apply disease_row_same_lines. intros l. split; [apply Permutation_in, Ph|apply Permutation_in, Permutation_sym, Ph].
Qed.
