(* C10P.v — the term arena: a lookup after any insertion sequence returns the first-inserted term
   with that id, nothing for any other id; iteration is duplicate-free and agrees with len *)
From Coq Require Import Lia Permutation.
From HpoV Require Import Gen.Consts Model.Base Model.Group Model.Onto Proofs.BaseP.

Lemma find_by_app {A} (key : A -> N) k l1 l2 :
  find_by key k (l1 ++ l2) = match find_by key k l1 with Some a => Some a | None => find_by key k l2 end.
Proof.
  induction l1 as [|x t IH]; cbn [app find_by]; [reflexivity|].
  destruct (key x =? k); [reflexivity|exact IH].
Qed.

Definition insert_all (ts : list term) (a0 : arena) : res arena := foldM (fun a t => ar_insert t a) ts a0.

Lemma insert_all_find ts : forall a0 a id, insert_all ts a0 = Ok a ->
  ar_find id a = match ar_find id a0 with Some t => Some t | None => find_by t_id id ts end.
Proof.
  induction ts as [|t ts IH]; intros a0 a id H; cbn [insert_all foldM] in H.
  - injection H as <-. destruct (ar_find id a0); reflexivity.
  - unfold ar_insert at 1 in H. destruct (MAX_HPO_ID <=? t_id t); [discriminate|].
    cbn [find_by]. destruct (ar_find (t_id t) a0) as [t0|] eqn:E; cbn [bind] in H.
    + rewrite (IH a0 a id H). destruct (ar_find id a0) as [x|] eqn:E2; [reflexivity|].
      destruct (N.eqb_spec (t_id t) id) as [Heq|Hne]; [congruence|reflexivity].
    + rewrite (IH _ a id H). unfold ar_find at 1. cbn [ar_terms]. rewrite find_by_app.
      fold (ar_find id a0). destruct (ar_find id a0) as [x|]; [reflexivity|].
      cbn [find_by]. destruct (t_id t =? id); reflexivity.
Qed.

(* Builder::new_term* then lookups: exactly the first term added with that id, for every id *)
Theorem get_after_inserts ts a id : insert_all ts arena_default = Ok a ->
  ar_get id a = if MAX_HPO_ID <=? id then None else find_by t_id id ts.
Proof.
  intros H. unfold ar_get. destruct (MAX_HPO_ID <=? id); [reflexivity|].
  rewrite (insert_all_find ts arena_default a id H). reflexivity.
Qed.

(* a returned term carries the id it was asked for *)
Theorem get_returns_that_id a id t : ar_get id a = Some t -> t_id t = id.
Proof.
  unfold ar_get. destruct (MAX_HPO_ID <=? id); [discriminate|]. unfold ar_find.
  intros H. apply find_by_Some in H. tauto.
Qed.

(* no id outside the id space is ever answered *)
Theorem get_out_of_range a id : MAX_HPO_ID <= id -> ar_get id a = None.
Proof. intros H. unfold ar_get. destruct (N.leb_spec MAX_HPO_ID id); [reflexivity|lia]. Qed.

Lemma insert_all_keys ts : forall a0 a, insert_all ts a0 = Ok a -> NoDup (ar_keys a0) ->
  NoDup (ar_keys a) /\ (forall id, In id (ar_keys a) <-> In id (ar_keys a0) \/ In id (map t_id ts)).
Proof.
  induction ts as [|t ts IH]; intros a0 a H Hnd; cbn [insert_all foldM] in H.
  - injection H as <-. split; [exact Hnd|]. intros id. cbn. tauto.
  - unfold ar_insert at 1 in H. destruct (MAX_HPO_ID <=? t_id t); [discriminate|].
    destruct (ar_find (t_id t) a0) as [t0|] eqn:E; cbn [bind] in H.
    + destruct (IH a0 a H Hnd) as [H1 H2]. split; [exact H1|]. intros id. rewrite H2. cbn [map In].
      split; [tauto|]. intros [Hi|[Hi|Hi]]; auto. left. subst id.
      unfold ar_find in E. apply find_by_Some in E as [Hin Hid]. unfold ar_keys. rewrite <- Hid. apply in_map, Hin.
    + assert (NoDup (ar_keys (mkArena (ar_ph a0) (ar_terms a0 ++ [t])))) as Hnd'.
      { unfold ar_keys. cbn [ar_terms]. rewrite map_app. cbn [map].
        apply (Permutation_NoDup (Permutation_cons_append (map t_id (ar_terms a0)) (t_id t))).
        constructor; [|exact Hnd]. intros Hin. apply in_map_iff in Hin as [x [Hx Hxin]].
        unfold ar_find in E. exact (find_by_None _ _ _ E x Hxin Hx). }
      destruct (IH _ a H Hnd') as [H1 H2]. split; [exact H1|]. intros id. rewrite H2.
      unfold ar_keys. cbn [ar_terms]. rewrite map_app, in_app_iff. cbn [map In]. tauto.
Qed.

(* iteration yields every added id exactly once, and len() is the number of yielded terms *)
Theorem iteration_exact ts a : insert_all ts arena_default = Ok a ->
  NoDup (ar_keys a) /\ (forall id, In id (ar_keys a) <-> In id (map t_id ts)) /\
  ar_len a = Nlen (ar_keys a).
Proof.
  intros H. destruct (insert_all_keys ts arena_default a H (NoDup_nil _)) as [H1 H2].
  split; [exact H1|]. split.
  - intros id. rewrite H2. cbn. tauto.
  - unfold ar_len, ar_keys, Nlen. rewrite map_length. reflexivity.
Qed.

(* inserting an id outside the id space panics (it is never added) *)
Theorem insert_out_of_range t a : MAX_HPO_ID <= t_id t -> ar_insert t a = Panic.
Proof. intros H. unfold ar_insert. destruct (N.leb_spec MAX_HPO_ID (t_id t)); [reflexivity|lia]. Qed.
