(* QgoodP.v — the hypothesis [qgood] of the distance / path / sub-ontology theorems (unique ids in
   range, links resolve, sorted groups, every ancestor cache EXACTLY the transitive closure) holds
   of every ontology a Builder script produces: it is established by connect_all_terms and kept by
   every later step (the annotate calls, calculate_information_content, both build calls). *)
From Coq Require Import Lia Relations Sorted.
From HpoV Require Import Gen.Consts Model.Base Model.Group Model.Onto Model.Query Model.Dump Model.Script
  Proofs.GroupP Proofs.BaseP Proofs.ClosureP Proofs.DistP.

(* ---------------- sorted parents / caches ---------------- *)

Definition tin (a : arena) (t : term) : Prop := In t (ar_terms a) \/ t = ar_ph a.
Definition SP (a : arena) : Prop := forall t, tin a t -> sorted (t_parents t) /\ sorted (t_allp t).

Lemma update_by_In (f : term -> term) id l t' : In t' (update_by t_id id f l) -> In t' l \/ exists t, In t l /\ t' = f t.
Proof.
  induction l as [|x l IH]; cbn [update_by]; [intros []|].
  destruct (t_id x =? id).
  - intros [<-|H]; [right; exists x; split; [left; reflexivity|reflexivity]|left; right; exact H].
  - intros [<-|H]; [left; left; reflexivity|]. destruct (IH H) as [H1|[t [H1 H2]]]; [left; right; exact H1|].
    right. exists t. split; [right; exact H1|exact H2].
Qed.

Lemma SP_update_unchecked a id f a' : SP a ->
  (forall t, tin a t -> sorted (t_parents (f t)) /\ sorted (t_allp (f t))) ->
  ar_update_unchecked id f a = Ok a' -> SP a'.
Proof.
  intros P Hf H. unfold ar_update_unchecked in H. destruct (MAX_HPO_ID <=? id); [discriminate|].
  destruct (ar_find id a) as [tf|]; injection H as <-; intros t' [Hin|E].
  - unfold ar_update in Hin. cbn [ar_terms] in Hin. destruct (update_by_In f id _ t' Hin) as [H|[t2 [H ->]]];
      [apply P; left; exact H|apply Hf; left; exact H].
  - subst t'. apply P. right. reflexivity.
  - apply P. left. exact Hin.
  - subst t'. cbn [ar_ph]. apply Hf. right. reflexivity.
Qed.

Lemma fold_g_add_sorted l : forall acc, sorted acc -> sorted (fold_left g_add l acc).
Proof. induction l as [|x l IH]; intros acc H; [exact H|]. cbn [fold_left]. apply IH, g_add_sorted, H. Qed.

Lemma get_unchecked_tin a id t : ar_get_unchecked id a = Ok t -> tin a t.
Proof.
  unfold ar_get_unchecked. destruct (MAX_HPO_ID <=? id); [discriminate|].
  destruct (ar_find id a) as [t0|] eqn:E; intros [= <-]; [left|right; reflexivity].
  unfold ar_find in E. clear -E. induction (ar_terms a) as [|x l IH]; cbn [find_by] in E; [discriminate|].
  destruct (t_id x =? id); [injection E as <-; left; reflexivity|right; apply IH, E].
Qed.

Lemma foldM_inv {A S} (f : S -> A -> res S) (I : S -> Prop) l :
  (forall s x s', In x l -> f s x = Ok s' -> I s -> I s') -> forall s s', I s -> foldM f l s = Ok s' -> I s'.
Proof.
  induction l as [|x l IH]; intros Hf s s' Hs H; cbn [foldM] in H; [injection H as <-; exact Hs|].
  destruct (f s x) as [s1| | |] eqn:E; cbn [bind] in H; try discriminate.
  apply (IH (fun s x s' Hx => Hf s x s' (or_intror Hx)) s1 s'); [|exact H].
  apply (Hf s x s1 (or_introl eq_refl) E Hs).
Qed.

(* create_cache keeps parents and caches sorted *)
Lemma create_cache_sorted fuel : forall a id a', SP a -> create_cache fuel a id = Ok a' -> SP a'.
Proof.
  induction fuel as [|f IH]; intros a id a' P H; [discriminate|]. cbn [create_cache] in H.
  destruct (ar_get_unchecked id a) as [t| | |] eqn:Et; cbn [bind] in H; try discriminate.
  match type of H with context [foldM ?F (t_parents t) ?s0] =>
    destruct (foldM F (t_parents t) s0) as [[a1 acc]| | |] eqn:Ef end; cbn [bind] in H; try discriminate.
  assert (SP a1 /\ sorted acc) as [P1 Sacc].
  { refine (foldM_inv _ (fun st : arena * group => SP (fst st) /\ sorted (snd st)) _ _ (a, []) (a1, acc) _ Ef).
    - intros [a2 acc2] p [a3 acc3] _ Hstep [P2 S2]. cbn [fst snd] in *.
      destruct (ar_get_unchecked p a2) as [tp| | |] eqn:Etp; cbn [bind] in Hstep; try discriminate.
      destruct (if parents_cached tp then Ok a2 else create_cache f a2 p) as [a4| | |] eqn:E4; cbn [bind] in Hstep; try discriminate.
      destruct (ar_get_unchecked p a4) as [tp'| | |] eqn:Etp'; cbn [bind] in Hstep; try discriminate.
      injection Hstep as <- <-.
      assert (SP a4) as P4 by (destruct (parents_cached tp); [injection E4 as <-; exact P2|apply (IH a2 p a4 P2 E4)]).
      split; [exact P4|]. apply fold_g_add_sorted; [exact S2].
    - split; [exact P|constructor]. }
  apply (SP_update_unchecked a1 id (set_allp (g_union acc (t_parents t))) a' P1); [|exact H].
  intros t0 Ht0. destruct (set_allp_fields (g_union acc (t_parents t)) t0) as [_ [Hp _]].
  split.
  - rewrite Hp. apply (P1 t0 Ht0).
  - cbn [set_allp t_allp]. apply g_union_sorted; [exact Sacc|]. apply (P t (get_unchecked_tin a id t Et)).
Qed.

(* ---------------- connect_all_terms establishes qgood ---------------- *)

Theorem connect_gives_qgood o o' : binv (o_arena o) -> SP (o_arena o) -> b_connect_all_terms o = Ok o' -> qgood o'.
Proof.
  intros B P H. unfold b_connect_all_terms in H.
  destruct (connect_all (default_fuel (o_arena o)) (o_arena o)) as [a'| | |] eqn:E; cbn [bind] in H; try discriminate.
  injection H as <-. cbn [o_arena set_arena].
  destruct (connect_all_exact _ _ _ (b_wf _ B) (b_empty _ B) E) as [Sm X].
  assert (SP a') as P'.
  { unfold connect_all in E. refine (foldM_inv _ SP _ _ (o_arena o) a' P E).
    intros s id s' _ Hs Ps. apply (create_cache_sorted _ s id s' Ps Hs). }
  constructor; cbn [o_arena set_arena].
  - apply (same_wf _ _ Sm), (b_wf _ B).
  - intros t Ht. apply (P' t). left. exact Ht.
  - intros t Ht. apply (P' t). left. exact Ht.
  - intros t Ht x. rewrite (X t Ht x). apply (same_anc _ _ (t_id t) x Sm).
Qed.

(* ---------------- steps that leave ids, parents and caches alone keep qgood ---------------- *)

Definition same_links (a a' : arena) : Prop :=
  Forall2 (fun t t' => t_id t' = t_id t /\ t_parents t' = t_parents t /\ t_allp t' = t_allp t) (ar_terms a) (ar_terms a').

Lemma same_links_refl a : same_links a a.
Proof. unfold same_links. induction (ar_terms a); constructor; auto. Qed.

Lemma same_links_trans a b c : same_links a b -> same_links b c -> same_links a c.
Proof.
  unfold same_links. generalize (ar_terms a) (ar_terms b) (ar_terms c). intros l1 l2 l3 H. revert l3.
  induction H as [|x y l1 l2 [H1 [H2 H3]] _ IH]; intros l3 H'; inversion H' as [|? z ? l3' [G1 [G2 G3]] H'']; subst; constructor.
  - repeat split; congruence.
  - apply IH, H''.
Qed.

Lemma same_links_In_r a a' t' : same_links a a' -> In t' (ar_terms a') ->
  exists t, In t (ar_terms a) /\ t_id t' = t_id t /\ t_parents t' = t_parents t /\ t_allp t' = t_allp t.
Proof. intros S H. destruct (Forall2_In_r _ _ _ _ S H) as [t [Ht Hr]]. exists t. auto. Qed.

Lemma same_links_In_l a a' t : same_links a a' -> In t (ar_terms a) ->
  exists t', In t' (ar_terms a') /\ t_id t' = t_id t /\ t_parents t' = t_parents t /\ t_allp t' = t_allp t.
Proof. intros S H. destruct (Forall2_In_l _ _ _ _ S H) as [t' [Ht Hr]]. exists t'. auto. Qed.

Lemma same_links_keys a a' : same_links a a' -> ar_keys a' = ar_keys a.
Proof.
  unfold same_links, ar_keys. generalize (ar_terms a) (ar_terms a'). intros l l' H.
  induction H as [|x y l l' [H1 _] _ IH]; [reflexivity|]. cbn [map]. rewrite H1, IH. reflexivity.
Qed.

Lemma same_links_parent_rel a a' c p : same_links a a' -> (parent_rel a c p <-> parent_rel a' c p).
Proof.
  intros S. split; intros [t [Hin [Hid Hp]]].
  - destruct (same_links_In_l a a' t S Hin) as [t' [Hin' [E1 [E2 _]]]]. exists t'. rewrite E1, E2. auto.
  - destruct (same_links_In_r a a' t S Hin) as [t0 [Hin0 [E1 [E2 _]]]]. exists t0. rewrite <- E1, <- E2. auto.
Qed.

Lemma same_links_anc a a' c x : same_links a a' -> (anc a c x <-> anc a' c x).
Proof.
  intros S. unfold anc. split; intros H; induction H as [u v Huv|u v w _ IH1 _ IH2];
    try (apply t_step; apply (same_links_parent_rel a a' u v S); exact Huv); eapply t_trans; eassumption.
Qed.

Theorem qgood_same_links o o' : qgood o -> same_links (o_arena o) (o_arena o') -> qgood o'.
Proof.
  intros [W Sp Sa X] S. constructor.
  - destruct W as [Nd Rg Cl]. constructor.
    + rewrite (same_links_keys _ _ S). exact Nd.
    + intros t' H. destruct (same_links_In_r _ _ t' S H) as [t [Ht [E _]]]. rewrite E. apply Rg, Ht.
    + intros t' H p Hp. destruct (same_links_In_r _ _ t' S H) as [t [Ht [_ [E _]]]]. rewrite E in Hp.
      rewrite (same_links_keys _ _ S). apply (Cl t Ht p Hp).
  - intros t' H. destruct (same_links_In_r _ _ t' S H) as [t [Ht [_ [E _]]]]. rewrite E. apply Sp, Ht.
  - intros t' H. destruct (same_links_In_r _ _ t' S H) as [t [Ht [_ [_ E]]]]. rewrite E. apply Sa, Ht.
  - intros t' H x. destruct (same_links_In_r _ _ t' S H) as [t [Ht [E1 [_ E3]]]]. rewrite E3, E1.
    rewrite (X t Ht x). apply (same_links_anc _ _ (t_id t) x S).
Qed.

(* ---------------- the steps after connect_all_terms are of that kind ---------------- *)

Lemma update_same_links a id f : (forall t, t_id (f t) = t_id t /\ t_parents (f t) = t_parents t /\ t_allp (f t) = t_allp t) ->
  same_links a (ar_update id f a).
Proof.
  intros Hf. unfold same_links, ar_update. cbn [ar_terms]. induction (ar_terms a) as [|x l IH]; cbn [update_by]; [constructor|].
  destruct (t_id x =? id); constructor; auto.
  clear IH. induction l; constructor; auto.
Qed.

Lemma set_annots_links k l t : t_id (set_annots k l t) = t_id t /\ t_parents (set_annots k l t) = t_parents t /\ t_allp (set_annots k l t) = t_allp t.
Proof. destruct k, t; cbn; auto. Qed.

Lemma link_same_links k gid fuel : forall a tid a', link fuel k a tid gid = Ok a' -> same_links a a'.
Proof.
  induction fuel as [|f IH]; intros a tid a' H; [discriminate|]. cbn [link] in H.
  destruct (ar_get tid a) as [t|]; [|discriminate].
  destruct (g_insert gid (t_annots k t)) as [set' isnew]. destruct isnew; [|injection H as <-; apply same_links_refl].
  refine (foldM_inv _ (fun s => same_links a s) _ _ _ a' _ H).
  - intros s p s' _ Hs Ss. apply (same_links_trans a s s' Ss). apply (IH s p s' Hs).
  - apply update_same_links. intros t0. apply set_annots_links.
Qed.

Lemma annotate_same_links k id name tid o o' : b_annotate k id name tid o = Ok o' -> same_links (o_arena o) (o_arena o').
Proof.
  unfold b_annotate. destruct (o_get tid o); [|discriminate].
  destruct (an_find id (an_add name id (o_records k o))); [|discriminate].
  set (o1 := set_records k _ o). assert (o_arena o1 = o_arena o) as E1 by (destruct k; reflexivity).
  destruct (link (link_fuel (o_arena o1)) k (o_arena o1) tid id) as [a'| | |] eqn:El; cbn [bind]; try discriminate.
  intros [= <-]. cbn [o_arena set_arena]. rewrite <- E1. apply (link_same_links k id _ _ tid a' El).
Qed.

Lemma add_record_arena k name id o : o_arena (b_add_record k name id o) = o_arena o.
Proof. destruct k; reflexivity. Qed.

Lemma calculate_ic_same_links icf o o' : b_calculate_ic icf o = Ok o' -> same_links (o_arena o) (o_arena o').
Proof.
  unfold b_calculate_ic. destruct (mapM (term_ic icf o) (ar_terms (o_arena o))) as [ts| | |] eqn:E; cbn [bind]; try discriminate.
  intros [= <-]. cbn [o_arena set_arena]. unfold same_links. cbn [ar_terms]. apply mapM_Ok in E.
  revert E. generalize (ar_terms (o_arena o)) ts. induction 1 as [|t t' l l' Ht _ IH]; constructor; [|exact IH].
  unfold term_ic in Ht.
  destruct (icf _ _) as [g| | |]; cbn [bind] in Ht; try discriminate.
  destruct (icf _ _) as [m| | |]; cbn [bind] in Ht; try discriminate.
  destruct (icf _ _) as [r| | |]; cbn [bind] in Ht; try discriminate.
  injection Ht as <-. destruct t; cbn; auto.
Qed.

Lemma build_minimal_arena o : o_arena (b_build_minimal o) = o_arena o.
Proof. reflexivity. Qed.

Lemma build_with_defaults_arena o o' : b_build_with_defaults o = Ok o' -> o_arena o' = o_arena o.
Proof.
  unfold b_build_with_defaults, set_default_categories, set_default_modifier.
  destruct (o_get ROOT_ID_CAT (b_build_minimal o)); [|discriminate].
  destruct (o_get PHENOTYPE_ID (b_build_minimal o)); [|discriminate]. cbn [bind].
  match goal with |- context [o_get ROOT_ID ?x] => destruct (o_get ROOT_ID x) end; [|discriminate].
  intros [= <-]. reflexivity.
Qed.

Lemma qgood_arena o o' : qgood o -> o_arena o' = o_arena o -> qgood o'.
Proof. intros G E. apply (qgood_same_links o o' G). rewrite E. apply same_links_refl. Qed.

(* ---------------- the builder phase keeps binv and sorted parents ---------------- *)

Lemma SP_default : SP arena_default.
Proof. intros t [[]| ->]. cbn. split; constructor. Qed.

Lemma SP_insert_new name id a a' : SP a -> ar_insert (new_term name id) a = Ok a' -> SP a'.
Proof.
  intros P H. unfold ar_insert in H. destruct (MAX_HPO_ID <=? _); [discriminate|].
  destruct (ar_find _ a); injection H as <-; [exact P|].
  intros t [Hin| ->]; [|apply P; right; reflexivity]. cbn [ar_terms] in Hin.
  apply in_app_or in Hin as [Hin|[<-|[]]]; [apply P; left; exact Hin|]. cbn. split; constructor.
Qed.

Lemma SP_update a id f : SP a -> (forall t, tin a t -> sorted (t_parents (f t)) /\ sorted (t_allp (f t))) -> SP (ar_update id f a).
Proof.
  intros P Hf t' [Hin| ->].
  - unfold ar_update in Hin. cbn [ar_terms] in Hin. destruct (update_by_In f id _ t' Hin) as [H|[t2 [H ->]]];
      [apply P; left; exact H|apply Hf; left; exact H].
  - apply P. right. reflexivity.
Qed.

Lemma SP_add_parent parent child o o' : SP (o_arena o) -> b_add_parent parent child o = Ok o' -> SP (o_arena o').
Proof.
  intros P H. unfold b_add_parent in H.
  destruct (ar_get child (o_arena o)); [|discriminate]. destruct (ar_get parent (o_arena o)); [|discriminate].
  match type of H with context [ar_get child ?a1] => destruct (ar_get child a1); [|discriminate] end.
  injection H as <-. cbn [o_arena set_arena].
  apply SP_update.
  - apply SP_update; [exact P|]. intros x Hx. destruct (set_children_fields (g_add (t_children x) child) x) as [_ [E1 [E2 _]]].
    rewrite E1, E2. apply P, Hx.
  - intros x Hx. destruct (set_parents_fields (g_add (t_parents x) parent) x) as [_ [E1 [E2 _]]]. rewrite E1, E2.
    assert (sorted (t_parents x) /\ sorted (t_allp x)) as [S1 S2].
    { revert Hx. apply SP_update; [exact P|]. intros y Hy. destruct (set_children_fields (g_add (t_children y) child) y) as [_ [F1 [F2 _]]].
      rewrite F1, F2. apply P, Hy. }
    split; [apply g_add_sorted, S1|exact S2].
Qed.

(* ---------------- every ontology a Builder script produces is qgood ---------------- *)

Theorem run_builder_qgood s o codes : run_builder s = Ok (o, codes) -> qgood o.
Proof.
  destruct s as [[[[ver terms] parents] annots] kindb]. unfold run_builder. intros H.
  apply bind_Ok' in H as [o1 [H1 H]]. apply bind_Ok' in H as [[o2 codes2] [H2 H]].
  apply bind_Ok' in H as [o3 [H3 H]]. apply bind_Ok' in H as [[o4 codes4] [H4 H]]. injection H as <- _.
  (* new_term calls *)
  assert (binv (o_arena o1) /\ SP (o_arena o1)) as [B1 P1].
  { refine (foldM_inv _ (fun o => binv (o_arena o) /\ SP (o_arena o)) _ _ _ o1 _ H1).
    - intros s [id name] s' _ Hs [Bs Ps]. cbn [fst snd] in Hs. unfold b_new_term, b_add_term in Hs.
      apply bind_Ok' in Hs as [a' [Ha Hs]]. injection Hs as <-. cbn [o_arena set_arena]. split.
      + apply (binv_insert (o_arena s) (new_term name id) a' Bs eq_refl eq_refl eq_refl Ha).
      + apply (SP_insert_new name id _ a' Ps Ha).
    - cbn [o_arena set_version onto_new]. split; [apply binv_default|apply SP_default]. }
  (* add_parent calls; a failing call leaves the builder as it is *)
  assert (binv (o_arena o2) /\ SP (o_arena o2)) as [B2 P2].
  { unfold run_ops in H2.
    refine (foldM_inv _ (fun st : onto * list N => binv (o_arena (fst st)) /\ SP (o_arena (fst st))) _ _ (o1, []) (o2, codes2) _ H2).
    - intros [s cs] [p c] [s' cs'] _ Hs [Bs Ps]. cbn [fst snd] in *.
      destruct (b_add_parent p c s) as [s2|e| |] eqn:Ea; cbn [step_keep bind] in Hs; try discriminate; injection Hs as <- _.
      + split; [apply (binv_add_parent s p c s2 Bs Ea)|apply (SP_add_parent p c s s2 Ps Ea)].
      + split; assumption.
    - split; assumption. }
  pose proof (connect_gives_qgood o2 o3 B2 P2 H3) as G3.
  (* add_* / annotate_* calls *)
  unfold run_ops in H4.
  refine (foldM_inv _ (fun st : onto * list N => qgood (fst st)) _ _ (o3, []) (o4, codes4) _ H4); [|exact G3].
  intros [s cs] [[[tag id] tid] name] [s' cs'] _ Hs Gs. cbn [fst snd] in *. unfold run_annot_op in Hs.
  destruct (tag <? 3).
  - cbn [bind] in Hs. injection Hs as <- _. apply (qgood_arena s _ Gs). apply add_record_arena.
  - destruct (b_annotate (kind_of tag) id name tid s) as [s2|e| |] eqn:Ea; cbn [step_keep bind] in Hs; try discriminate; injection Hs as <- _.
    + apply (qgood_same_links s s2 Gs). apply (annotate_same_links _ _ _ _ _ _ Ea).
    + exact Gs.
Qed.

Theorem run_script_qgood icf s codes o : run_script icf s = Ok (codes, Ok o) -> qgood o.
Proof.
  destruct s as [[[[ver terms] parents] annots] kindb]. unfold run_script. intros H.
  apply bind_Ok' in H as [[ob cs] [Hb H]]. pose proof (run_builder_qgood _ ob cs Hb) as Gb.
  unfold finish in H. destruct (b_calculate_ic icf ob) as [o5| | |] eqn:E5; cbn [bind] in H; try discriminate.
  pose proof (qgood_same_links ob o5 Gb (calculate_ic_same_links icf ob o5 E5)) as G5.
  destruct (kindb =? 0).
  - injection H as _ <-. apply (qgood_arena o5 _ G5). apply build_minimal_arena.
  - destruct (b_build_with_defaults o5) as [o6| | |] eqn:E6; try discriminate. injection H as _ <-.
    apply (qgood_arena o5 o6 G5). apply (build_with_defaults_arena o5 o6 E6).
Qed.
