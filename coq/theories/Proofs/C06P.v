(* C06P.v — enrichment: counting, the (N, K, n, k) wiring and the exact hypergeometric tail *)
From Coq Require Import Lia.
From HpoV Require Import Gen.Consts Model.Base Model.Group Model.Onto Model.Query Model.F64 Model.Enrich Proofs.BaseP.

(* ---------------- the tail is antitone in its lower bound (no binomial facts needed) ---------------- *)

(* dropping the first summand never increases the tail numerator: P[X >= k+1] <= P[X >= k] *)
Theorem tail_num_antitone pop succ draws lo cnt :
  tail_num pop succ draws (lo + 1) cnt <= tail_num pop succ draws lo (S cnt).
Proof. cbn [tail_num]. lia. Qed.

Lemma tail_num_nonneg_step pop succ draws lo cnt :
  tail_num pop succ draws lo (S cnt) =
  binN succ lo * binN (pop - succ) (draws - lo) + tail_num pop succ draws (lo + 1) cnt.
Proof. reflexivity. Qed.

(* sf within the summation branch: numerator for x+1 is at most the numerator for x *)
Theorem sf_exact_antitone_in_branch pop succ draws x :
  hg_min pop succ draws <= x -> x + 1 < hg_max succ draws ->
  fst (sf_exact pop succ draws (x + 1)) <= fst (sf_exact pop succ draws x)
  /\ snd (sf_exact pop succ draws (x + 1)) = snd (sf_exact pop succ draws x).
Proof.
  intros H1 H2. unfold sf_exact.
  destruct (N.ltb_spec x (hg_min pop succ draws)) as [H|_]; [lia|].
  destruct (N.ltb_spec (x + 1) (hg_min pop succ draws)) as [H|_]; [lia|].
  destruct (N.leb_spec (hg_max succ draws) x) as [H|_]; [lia|].
  destruct (N.leb_spec (hg_max succ draws) (x + 1)) as [H|_]; [lia|].
  cbn [fst snd]. split; [|reflexivity].
  replace (nat_of (hg_max succ draws - x)) with (S (nat_of (hg_max succ draws - (x + 1)))) by (unfold nat_of; lia).
  apply tail_num_antitone.
Qed.

(* the code's outer branches *)
Theorem sf_exact_below_min pop succ draws x : x < hg_min pop succ draws -> sf_exact pop succ draws x = (1, 1).
Proof. intros H. unfold sf_exact. destruct (N.ltb_spec x (hg_min pop succ draws)); [reflexivity|lia]. Qed.

Theorem sf_exact_at_max pop succ draws x : hg_min pop succ draws <= x -> hg_max succ draws <= x ->
  sf_exact pop succ draws x = (0, 1).
Proof.
  intros H1 H2. unfold sf_exact. destruct (N.ltb_spec x (hg_min pop succ draws)); [lia|].
  destruct (N.leb_spec (hg_max succ draws) x); [reflexivity|lia].
Qed.

(* ---------------- calculate_counts ---------------- *)

Fixpoint occ (g : N) (l : list N) : N :=
  match l with [] => 0 | x :: t => (if x =? g then 1 else 0) + occ g t end.

Definition cval (g : N) (c : list (N * N)) : N := match counts_get g c with Some v => v | None => 0 end.

Lemma count_add_val id c g : cval g (count_add id c) = cval g c + (if id =? g then 1 else 0).
Proof.
  unfold cval, counts_get. induction c as [|[x v] t IH]; cbn [count_add find_by fst snd].
  - destruct (N.eqb_spec id g); reflexivity.
  - destruct (N.eqb_spec x id) as [E|E]; cbn [find_by fst snd].
    + subst x. destruct (N.eqb_spec id g); [reflexivity|lia].
    + destruct (N.eqb_spec x g) as [E2|E2].
      * destruct (N.eqb_spec id g); [congruence|lia].
      * exact IH.
Qed.

Lemma count_add_all ids : forall c g, cval g (fold_left (fun c id => count_add id c) ids c) = cval g c + occ g ids.
Proof.
  induction ids as [|x t IH]; intros c g; cbn [fold_left occ]; [lia|].
  rewrite IH, count_add_val. lia.
Qed.

(* every count is positive once present, so "absent" and "count 0" coincide *)
Definition pos_counts (c : list (N * N)) : Prop := forall x v, In (x, v) c -> 0 < v.

Lemma count_add_pos id c : pos_counts c -> pos_counts (count_add id c).
Proof.
  unfold pos_counts. induction c as [|[x v] t IH]; cbn [count_add]; intros H y w Hin.
  - destruct Hin as [[= <- <-]|[]]. lia.
  - destruct (x =? id).
    + destruct Hin as [[= <- <-]|Hin]; [specialize (H x v (or_introl eq_refl)); lia|apply (H y w); right; exact Hin].
    + destruct Hin as [[= <- <-]|Hin]; [apply (H x v); left; reflexivity|].
      apply (IH (fun a b Hab => H a b (or_intror Hab)) y w Hin).
Qed.

Lemma count_add_all_pos ids : forall c, pos_counts c -> pos_counts (fold_left (fun c id => count_add id c) ids c).
Proof. induction ids as [|x t IH]; intros c H; cbn [fold_left]; [exact H|]. apply IH, count_add_pos, H. Qed.

(* SampleSet: size = number of terms, count(g) = number of (term, g) links among them *)
Theorem calculate_counts_spec o k terms : forall sz0 c0 sz c, pos_counts c0 ->
  foldM (fun (st : N * list (N * N)) t =>
           do ids <- term_annot_ids o k t ;;
           Ok (fst st + 1, fold_left (fun c id => count_add id c) ids (snd st))) terms (sz0, c0) = Ok (sz, c) ->
  sz = sz0 + Nlen terms /\ pos_counts c /\
  forall g, cval g c = cval g c0 + fold_right (fun t acc => occ g (t_annots k t) + acc) 0 terms.
Proof.
  induction terms as [|t ts IH]; intros sz0 c0 sz c Hpos H; cbn [foldM] in H.
  - injection H as <- <-. unfold Nlen. cbn. split; [lia|]. split; [exact Hpos|]. intros g. lia.
  - unfold term_annot_ids at 1 in H.
    destruct (mapM (fun g => opt_panic (an_find g (o_records k o))) (t_annots k t)) as [xs| | |]; cbn [bind] in H; try discriminate.
    cbn [fst snd] in H.
    destruct (IH _ _ sz c (count_add_all_pos (t_annots k t) c0 Hpos) H) as [Hs [Hp Hc]].
    split; [unfold Nlen in *; cbn [length]; lia|]. split; [exact Hp|].
    intros g. rewrite Hc, count_add_all. cbn [fold_right]. lia.
Qed.

Theorem calculate_counts_exact o k terms sz c : calculate_counts o k terms = Ok (sz, c) ->
  sz = Nlen terms /\ (forall x v, In (x, v) c -> 0 < v) /\
  forall g, cval g c = fold_right (fun t acc => occ g (t_annots k t) + acc) 0 terms.
Proof.
  intros H. assert (pos_counts []) as P0 by (intros x v []).
  destruct (calculate_counts_spec o k terms 0 [] sz c P0 H) as [A [B C]]. auto.
Qed.

(* ---------------- the executed recurrences agree with the definitional tail ---------------- *)

Definition upto (n : N) : list N := map N.of_nat (seq 0 (S (N.to_nat n))).

Lemma upto_In n x : x <= n -> In x (upto n).
Proof.
  intros H. unfold upto. apply in_map_iff. exists (N.to_nat x). split; [apply Nnat.N2Nat.id|].
  apply in_seq. lia.
Qed.

Definition pair_eqb (a b : N * N) : bool := (fst a =? fst b) && (snd a =? snd b).

Lemma pair_eqb_eq a b : pair_eqb a b = true -> a = b.
Proof.
  destruct a, b. unfold pair_eqb. cbn [fst snd]. intros H. apply andb_true_iff in H as [H1 H2].
  apply N.eqb_eq in H1, H2. congruence.
Qed.

(* BOUNDED statement (populations up to 22, every K, n, x): by evaluation of the finite domain.
   For larger populations the agreement of [sf_fast] with [sf_exact] is not yet proved; the
   recurrences are the textbook ratios C(K,i+1)/C(K,i) = (K-i)/(i+1) etc. *)
Theorem sf_fast_agrees_small pop succ draws x :
  pop <= 22 -> succ <= pop -> draws <= pop -> x <= pop + 1 ->
  sf_fast pop succ draws x = sf_exact pop succ draws x.
Proof.
  intros Hp Hs Hd Hx.
  assert (forallb (fun pop => forallb (fun succ => forallb (fun draws => forallb (fun x =>
            pair_eqb (sf_fast pop succ draws x) (sf_exact pop succ draws x))
            (upto (pop + 1))) (upto pop)) (upto pop)) (upto 22) = true) as H by (vm_compute; reflexivity).
  rewrite forallb_forall in H. specialize (H pop (upto_In 22 pop Hp)).
  rewrite forallb_forall in H. specialize (H succ (upto_In pop succ Hs)).
  rewrite forallb_forall in H. specialize (H draws (upto_In pop draws Hd)).
  rewrite forallb_forall in H. specialize (H x (upto_In (pop + 1) x Hx)).
  apply pair_eqb_eq, H.
Qed.
