(* DecodeP.v — Ontology::from_bytes (Model/Binary.v [decode]) accepts a file only when the five
   (four) sections exactly fill it: appending anything to an accepted file yields
   Err(ParseBinaryError), and therefore no proper prefix of an accepted file is accepted. *)
From Coq Require Import ZArith Lia ZifyN ZifyNat ZifyBool.
From HpoV Require Import Gen.Consts Model.Base Model.Group Model.Onto Model.Binary Proofs.BinaryP.

(* ---------------- reads inside a buffer are unaffected by appended bytes ---------------- *)

Lemma idx_app b s i x : idx b i = Ok x -> idx (b ++ s) i = Ok x.
Proof.
  unfold idx. destruct (nth_error b (nat_of i)) as [y|] eqn:E; cbn [opt_panic]; [|discriminate].
  intros [= <-]. rewrite nth_error_app1 by (apply nth_error_Some; congruence). rewrite E. reflexivity.
Qed.

Lemma u32_at_app b s i v : u32_at b i = Ok v -> u32_at (b ++ s) i = Ok v.
Proof.
  unfold u32_at. intros H.
  apply bind_Ok in H as [x0 [E0 H]]. apply bind_Ok in H as [x1 [E1 H]].
  apply bind_Ok in H as [x2 [E2 H]]. apply bind_Ok in H as [x3 [E3 H]].
  rewrite (idx_app _ s _ _ E0), (idx_app _ s _ _ E1), (idx_app _ s _ _ E2), (idx_app _ s _ _ E3). exact H.
Qed.

Lemma Nlen_app (b s : bytes) : Nlen (b ++ s) = Nlen b + Nlen s.
Proof. unfold Nlen. rewrite app_length. lia. Qed.

Lemma slice_from_app b s i x : slice_from b i = Ok x -> slice_from (b ++ s) i = Ok (x ++ s).
Proof.
  unfold slice_from. rewrite Nlen_app. destruct (N.ltb_spec (Nlen b) i) as [|H]; [discriminate|].
  intros [= <-]. destruct (N.ltb_spec (Nlen b + Nlen s) i); [lia|].
  rewrite skipn_app. replace (nat_of i - length b)%nat with 0%nat by (unfold nat_of, Nlen in *; lia).
  reflexivity.
Qed.

Lemma u32_from_app b s i v : u32_from b i = Ok v -> u32_from (b ++ s) i = Ok v.
Proof.
  unfold u32_from. intros H. apply bind_Ok in H as [x [E H]].
  rewrite (slice_from_app _ s _ _ E). cbn [bind]. apply u32_at_app, H.
Qed.

Lemma slice_app b s i j x : slice b i j = Ok x -> slice (b ++ s) i j = Ok x.
Proof.
  unfold slice. rewrite Nlen_app.
  destruct (N.ltb_spec j i) as [|Hij]; [discriminate|].
  destruct (N.ltb_spec (Nlen b) j) as [|Hj]; [discriminate|]. cbn [orb].
  intros [= <-]. destruct (N.ltb_spec (Nlen b + Nlen s) j); [lia|]. cbn [orb]. f_equal.
  rewrite skipn_app, firstn_app.
  replace (nat_of (j - i) - length (skipn (nat_of i) b))%nat with 0%nat
    by (rewrite skipn_length; unfold nat_of, Nlen in *; lia).
  cbn [firstn]. rewrite app_nil_r. reflexivity.
Qed.

(* ---------------- more fuel never changes a successful read ---------------- *)

Lemma read_terms_fuel f : forall f' v b a r, (f <= f')%nat -> read_terms f v b a = Ok r -> read_terms f' v b a = Ok r.
Proof.
  induction f as [|f IH]; intros f' v b a r Hle H; [discriminate|].
  destruct f' as [|f']; [lia|]. cbn [read_terms] in *.
  destruct b as [|b0 b']; [exact H|].
  destruct (Nlen (b0 :: b') <=? 4); [exact H|].
  destruct (u32_at (b0 :: b') 0) as [tl| | |]; cbn [bind] in *; try discriminate.
  destruct (Nlen (b0 :: b') <? tl); [exact H|].
  destruct (match v with V1 => term_v1 (b0 :: b') | _ => term_v2 (b0 :: b') end) as [t| | |]; try discriminate.
  destruct (ar_insert t a) as [a'| | |]; cbn [bind] in *; try discriminate.
  apply IH; [lia|exact H].
Qed.

Lemma read_parents_fuel f : forall f' b i a r, (f <= f')%nat -> read_parents f b i a = Ok r -> read_parents f' b i a = Ok r.
Proof.
  induction f as [|f IH]; intros f' b i a r Hle H; [discriminate|].
  destruct f' as [|f']; [lia|]. cbn [read_parents] in *.
  destruct (i =? Nlen b); [exact H|].
  destruct (u32_from b i) as [np| | |]; cbn [bind] in *; try discriminate.
  destruct (u32_at b (i + 4)) as [term| | |]; cbn [bind] in *; try discriminate.
  destruct (read_parent_ids (nat_of np) b (i + 8) term a) as [[a' i']| | |]; cbn [bind] in *; try discriminate.
  apply IH; [lia|exact H].
Qed.

Lemma read_records_fuel f : forall f' k b i o r, (f <= f')%nat -> read_records f k b i o = Ok r -> read_records f' k b i o = Ok r.
Proof.
  induction f as [|f IH]; intros f' k b i o r Hle H; [discriminate|].
  destruct f' as [|f']; [lia|]. cbn [read_records] in *.
  destruct (Nlen b <=? i); [exact H|].
  destruct (u32_from b i) as [rl| | |]; cbn [bind] in *; try discriminate.
  destruct (slice b i (i + rl)) as [rb| | |]; cbn [bind] in *; try discriminate.
  destruct (match k with KGene => gene_of_bytes rb | _ => disease_of_bytes rb end) as [rc| | |]; cbn [bind] in *; try discriminate.
  destruct (foldM (fun a t => link (link_fuel a) k a t (a_id rc)) (a_hpos rc) (o_arena o)) as [a| | |]; cbn [bind] in *; try discriminate.
  apply IH; [lia|exact H].
Qed.

(* ---------------- the version header ---------------- *)

Lemma bin_version_app f s b v : bin_version f = Ok (b, v) -> bin_version (f ++ s) = Ok (b ++ s, v).
Proof.
  unfold bin_version. rewrite Nlen_app.
  destruct (N.ltb_spec (Nlen f) MIN_LEN) as [|Hlen]; [discriminate|].
  destruct (N.ltb_spec (Nlen f + Nlen s) MIN_LEN); [lia|].
  assert (4 < length f)%nat as Hl by (unfold Nlen, MIN_LEN in Hlen; lia).
  rewrite firstn_app. replace (3 - length f)%nat with 0%nat by lia. rewrite firstn_O, app_nil_r.
  destruct (list_eqb (firstn 3 f) MAGIC_READER).
  - rewrite nth_error_app1 by lia. destruct (nth_error f 3) as [x|]; [|intros Hd; discriminate Hd].
    rewrite skipn_app. replace (4 - length f)%nat with 0%nat by lia. rewrite skipn_O.
    destruct ((x =? 3) && mem 3 ACCEPTED_VERSIONS); [intros [= <- <-]; reflexivity|].
    destruct ((x =? 2) && mem 2 ACCEPTED_VERSIONS); [intros [= <- <-]; reflexivity|intros Hd; discriminate Hd].
  - intros [= <- <-]. reflexivity.
Qed.

(* ---------------- the theorem ---------------- *)

Section Dec.
  Variable icf : N -> N -> res N.

  Ltac step H :=
    match type of H with
    | bind ?r _ = Ok _ => let E := fresh "E" in destruct r eqn:E; cbn [bind] in H; try discriminate
    end.

  (* an accepted file followed by any non-empty suffix is rejected with ParseBinaryError *)
  Theorem extension_rejected f s o : decode icf f = Ok o -> s <> [] ->
    decode icf (f ++ s) = Err ParseBinaryError.
  Proof.
    intros H Hs. unfold decode, decode_with in *.
    step H. destruct a as [b v]. rewrite (bin_version_app f s b v E). cbn [bind].
    (* version bytes *)
    assert (forall X (k : (N * N * N) * N -> res X) r,
              bind (match v with
                    | V1 => Ok ((0, 0, 0), 0)
                    | _ => if Nlen b <? 4 then Err ParseBinaryError
                           else do y0 <- idx b 0 ;; do y1 <- idx b 1 ;; do m <- idx b 2 ;; do d <- idx b 3 ;;
                                Ok ((y0 * 256 + y1, m, d), 4)
                    end) k = Ok r ->
              exists vo,
                (match v with
                 | V1 => Ok ((0, 0, 0), 0)
                 | _ => if Nlen (b ++ s) <? 4 then Err ParseBinaryError
                        else do y0 <- idx (b ++ s) 0 ;; do y1 <- idx (b ++ s) 1 ;; do m <- idx (b ++ s) 2 ;; do d <- idx (b ++ s) 3 ;;
                             Ok ((y0 * 256 + y1, m, d), 4)
                 end) = Ok vo /\ k vo = Ok r) as Hver.
    { intros X k r Hk. apply bind_Ok in Hk as [vo [Ev Hk]]. exists vo. split; [|exact Hk].
      destruct v; [exact Ev| |].
      all: rewrite Nlen_app; destruct (N.ltb_spec (Nlen b) 4) as [|Hb]; [discriminate|];
        destruct (N.ltb_spec (Nlen b + Nlen s) 4); [lia|];
        apply bind_Ok in Ev as [y0 [E0 Ev]]; apply bind_Ok in Ev as [y1 [E1 Ev]];
        apply bind_Ok in Ev as [m [E2 Ev]]; apply bind_Ok in Ev as [d [E3 Ev]];
        rewrite (idx_app _ s _ _ E0), (idx_app _ s _ _ E1), (idx_app _ s _ _ E2), (idx_app _ s _ _ E3); exact Ev. }
    destruct (Hver _ _ _ H) as [[ver offset] [Ev H1]]. rewrite Ev. cbn [bind]. clear H Hver Ev. cbn beta iota in H1.
    assert (S (length b) <= S (length (b ++ s)))%nat as Hfuel by (rewrite app_length; lia).
    (* terms *)
    step H1. rewrite (u32_from_app _ s _ _ E0). cbn [bind].
    step H1. rewrite (slice_app _ s _ _ _ E1). cbn [bind].
    step H1. rewrite (read_terms_fuel _ _ _ _ _ _ Hfuel E2). cbn [bind].
    (* parents *)
    step H1. rewrite (u32_from_app _ s _ _ E3). cbn [bind].
    step H1. rewrite (slice_app _ s _ _ _ E4). cbn [bind].
    step H1. rewrite (read_parents_fuel _ _ _ _ _ _ Hfuel E5). cbn [bind].
    step H1. cbn [bind].
    (* genes *)
    step H1. rewrite (u32_from_app _ s _ _ E7). cbn [bind].
    step H1. rewrite (slice_app _ s _ _ _ E8). cbn [bind].
    step H1. rewrite (read_records_fuel _ _ _ _ _ _ _ Hfuel E9). cbn [bind].
    (* omim *)
    step H1. rewrite (u32_from_app _ s _ _ E10). cbn [bind].
    step H1. rewrite (slice_app _ s _ _ _ E11). cbn [bind].
    step H1. rewrite (read_records_fuel _ _ _ _ _ _ _ Hfuel E12). cbn [bind].
    (* orpha (v3 only), then the final test: the sections must end exactly at the end of the file *)
    assert (forall start, start =? Nlen b = true -> start =? Nlen (b ++ s) = false) as Hend.
    { intros start Est. apply N.eqb_eq in Est. apply N.eqb_neq. rewrite Nlen_app.
      destruct s as [|s0 s']; [congruence|].
      assert (Nlen (s0 :: s') = N.succ (Nlen s')) as -> by (unfold Nlen; cbn [length]; apply Nat2N.inj_succ). lia. }
    destruct v.
    - cbn [bind] in H1 |- *. cbn beta iota in H1 |- *.
      match type of H1 with (if ?c then _ else _) = _ => destruct c eqn:Ec; [|discriminate] end.
      rewrite (Hend _ Ec). reflexivity.
    - cbn [bind] in H1 |- *. cbn beta iota in H1 |- *.
      match type of H1 with (if ?c then _ else _) = _ => destruct c eqn:Ec; [|discriminate] end.
      rewrite (Hend _ Ec). reflexivity.
    - step H1. cbn zeta in E13. apply bind_Ok in E13 as [len [El E13]]. apply bind_Ok in E13 as [sec [Es E13]].
      apply bind_Ok in E13 as [o6 [Eo E13]]. injection E13 as <-.
      rewrite (u32_from_app _ s _ _ El). cbn [bind]. cbn zeta. rewrite (slice_app _ s _ _ _ Es). cbn [bind].
      rewrite (read_records_fuel _ _ _ _ _ _ _ Hfuel Eo). cbn [bind]. cbn beta iota in H1 |- *.
      match type of H1 with (if ?c then _ else _) = _ => destruct c eqn:Ec; [|discriminate] end.
      rewrite (Hend _ Ec). reflexivity.
  Qed.

  (* no proper prefix of an accepted file is accepted *)
  Theorem prefix_rejected f o n : decode icf f = Ok o -> (n < length f)%nat ->
    forall o', decode icf (firstn n f) <> Ok o'.
  Proof.
    intros H Hn o' H'.
    assert (skipn n f <> []) as Hs.
    { intros E. pose proof (skipn_length n f) as L. rewrite E in L. cbn in L. lia. }
    pose proof (extension_rejected (firstn n f) (skipn n f) o' H' Hs) as Hx.
    rewrite firstn_skipn in Hx. congruence.
  Qed.
End Dec.
