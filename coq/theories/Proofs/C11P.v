(* C11P.v — the reference of spec_C11: [sd] is the length of a shortest chain of parent links *)
From Coq Require Import Lia.
From HpoV Require Import Model.Base Model.Group Spec.Sets Proofs.GroupP Proofs.SetsP Proofs.BaseP
  Model.Onto Model.Query Model.Dump Run.World Run.C01 Run.C11.

Lemma min_optN_Some l m : min_optN l = Some m ->
  In (Some m) l /\ forall x, In (Some x) l -> m <= x.
Proof.
  revert m. induction l as [|[y|] t IH]; cbn [min_optN]; intros m H; [discriminate| |].
  - destruct (min_optN t) as [z|] eqn:E.
    + injection H as <-. destruct (IH z eq_refl) as [Hin Hmin]. split.
      * destruct (N.min_spec y z) as [[_ ->]|[_ ->]]; [left; reflexivity|right; exact Hin].
      * intros x [[= <-]|Hx]; [lia|]. specialize (Hmin x Hx). lia.
    + injection H as <-. split; [left; reflexivity|].
      intros x [[= <-]|Hx]; [lia|]. exfalso.
      clear IH. induction t as [|[w|] t IHt]; cbn [min_optN] in E; [destruct Hx| |].
      * destruct (min_optN t); discriminate.
      * destruct Hx as [Hx|Hx]; [discriminate|auto].
  - destruct (IH m H) as [Hin Hmin]. split; [right; exact Hin|].
    intros x [Hx|Hx]; [discriminate|auto].
Qed.

Lemma min_optN_None l : min_optN l = None -> forall x, ~ In (Some x) l.
Proof.
  induction l as [|[y|] t IH]; cbn [min_optN]; intros H x Hx; [destruct Hx| |].
  - destruct (min_optN t); discriminate.
  - destruct Hx as [Hx|Hx]; [discriminate|]. exact (IH H x Hx).
Qed.

Lemma min_optN_exists l x : In (Some x) l -> exists m, min_optN l = Some m /\ m <= x.
Proof.
  intros Hx. destruct (min_optN l) as [m|] eqn:E.
  - exists m. split; [reflexivity|]. apply (proj2 (min_optN_Some l m E) x Hx).
  - exfalso. exact (min_optN_None l E x Hx).
Qed.

Lemma last_indep (l : list N) : forall a b, l <> [] -> last l a = last l b.
Proof.
  induction l as [|x t IH]; intros a b H; [congruence|]. destruct t as [|y t']; [reflexivity|].
  change (last (x :: y :: t') a) with (last (y :: t') a).
  change (last (x :: y :: t') b) with (last (y :: t') b). apply IH. discriminate.
Qed.

Lemma last_cons (p : N) l a : last (p :: l) a = last l p.
Proof. destruct l as [|x t]; [reflexivity|]. change (last (p :: x :: t) a) with (last (x :: t) a). apply last_indep. discriminate. Qed.

(* every reported distance is the length of an actual chain of parent links ending in b *)
Lemma sd_sound ts b : forall fuel a d, sd fuel ts a b = Some d ->
  exists l, is_chain ts a l = true /\ last l a = b /\ Nlen l = d.
Proof.
  induction fuel as [|f IH]; intros a d; cbn [sd]; destruct (N.eqb_spec a b) as [->|Hne].
  - intros [= <-]. exists []. repeat split.
  - discriminate.
  - intros [= <-]. exists []. repeat split.
  - intros H. destruct (min_optN (map (fun p => sd f ts p b) (parents_of ts a))) as [m|] eqn:E; [|discriminate].
    cbn [option_map] in H. injection H as <-.
    destruct (min_optN_Some _ _ E) as [Hin _]. apply in_map_iff in Hin as [p [Hp Hpin]].
    destruct (IH p m Hp) as [l [Hc [Hl Hlen]]]. exists (p :: l). repeat split.
    + cbn [is_chain]. rewrite Hc, andb_true_r. apply mem_In, Hpin.
    + rewrite last_cons. exact Hl.
    + unfold Nlen in *. cbn [length]. lia.
Qed.

(* no chain of parent links is shorter than the reported distance (and one is reported whenever
   a chain within the fuel exists) *)
Lemma sd_minimal ts b : forall l fuel a, is_chain ts a l = true -> last l a = b ->
  (length l <= fuel)%nat -> exists d, sd fuel ts a b = Some d /\ d <= Nlen l.
Proof.
  induction l as [|x l IH]; intros fuel a Hc Hl Hf.
  - cbn [last] in Hl. subst b. exists 0. split; [|unfold Nlen; cbn; lia].
    destruct fuel; cbn [sd]; rewrite N.eqb_refl; reflexivity.
  - destruct fuel as [|f]; [cbn in Hf; lia|]. cbn [sd].
    destruct (N.eqb_spec a b) as [->|Hne]; [exists 0; split; [reflexivity|lia]|].
    cbn [is_chain] in Hc. apply andb_true_iff in Hc as [Hx Hc]. apply mem_In in Hx.
    assert (last l x = b) as Hl' by (rewrite <- (last_cons x l a); exact Hl).
    destruct (IH f x Hc Hl' ltac:(cbn in Hf; lia)) as [d [Hd Hle]].
    destruct (min_optN_exists (map (fun p => sd f ts p b) (parents_of ts a)) d) as [m [Hm Hmd]].
    { apply in_map_iff. exists x. split; [exact Hd|exact Hx]. }
    rewrite Hm. exists (N.succ m). split; [reflexivity|]. unfold Nlen in *. cbn [length]. lia.
Qed.

(* the accepted path to an ancestor is a chain of exactly the shortest length *)
Lemma is_walk_of_chain ts : forall l a, is_chain ts a l = true -> is_walk ts a l = true.
Proof.
  induction l as [|x l IH]; intros a H; [reflexivity|]. cbn [is_chain is_walk] in *.
  apply andb_true_iff in H as [H1 H2]. rewrite H1, (IH x H2). reflexivity.
Qed.
