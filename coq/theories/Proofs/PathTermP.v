(* PathTermP.v — HpoTerm::path_to_term (Model/Query.v [path_term], after fix F4): for two distinct
   terms the returned list is a walk along is_a links (upwards to a common ancestor, then downwards)
   that ends in the target, and no pair of upward chains meeting anywhere is shorter. *)
From Coq Require Import Lia Relations.
From HpoV Require Import Gen.Consts Model.Base Model.Group Model.Onto Model.Query
  Proofs.GroupP Proofs.BaseP Proofs.ClosureP Proofs.DistP Proofs.DistTermP.

Section PathTerm.
  Variable o : onto.
  Hypothesis G : qgood o.
  Let a := o_arena o.

  (* consecutive is_a links in either direction *)
  Fixpoint walk (x : N) (l : list N) : Prop :=
    match l with [] => True | y :: t => (parent_rel a x y \/ parent_rel a y x) /\ walk y t end.

  Lemma links_walk l : forall x, links o x l -> walk x l.
  Proof. induction l as [|y l IH]; intros x H; [exact I|]. destruct H as [Hp Hl]. split; [left; exact Hp|apply IH, Hl]. Qed.

  Lemma walk_app l1 : forall x l2, walk x l1 -> walk (last l1 x) l2 -> walk x (l1 ++ l2).
  Proof.
    induction l1 as [|y l1 IH]; intros x l2 H1 H2; [exact H2|]. destruct H1 as [Hs H1].
    cbn [app walk]. split; [exact Hs|]. apply IH; [exact H1|]. rewrite last_cons in H2. exact H2.
  Qed.

  Lemma last_snoc (l : list N) x d : last (l ++ [x]) d = x.
  Proof. apply last_last. Qed.

  Lemma tl_app_ne (l1 l2 : list N) : l1 <> [] -> tl (l1 ++ l2) = tl l1 ++ l2.
  Proof. destruct l1; [congruence|reflexivity]. Qed.

  (* an upward chain b -> ... -> c, read backwards, is a walk from c down to b *)
  Lemma down_walk down : forall b c, down <> [] -> links o b down -> last down b = c ->
    walk c (tl (rev down) ++ [b]) /\ length (tl (rev down) ++ [b]) = length down.
  Proof.
    induction down as [|d rest IH]; intros b c Hne Hl Hlast; [congruence|]. destruct Hl as [Hp Hl].
    destruct rest as [|d2 rest'].
    - cbn in Hlast. subst c. cbn. split; [split; [right; exact Hp|exact I]|reflexivity].
    - rewrite last_cons in Hlast.
      destruct (IH d c ltac:(discriminate) Hl) as [Hw Hlen].
      { rewrite <- Hlast. apply last_default. discriminate. }
      change (rev (d :: d2 :: rest')) with (rev (d2 :: rest') ++ [d]).
      assert (rev (d2 :: rest') <> []) as Hr.
      { intros E. apply (f_equal (@length N)) in E. rewrite rev_length in E. discriminate. }
      rewrite tl_app_ne by exact Hr. rewrite <- app_assoc. split.
      + rewrite app_assoc. apply walk_app; [exact Hw|]. rewrite last_snoc. split; [right; exact Hp|exact I].
      + rewrite app_assoc, app_length, Hlen. cbn [length]. lia.
  Qed.

  Lemma path_term_unfold ta tb :
    path_term o ta tb =
    do cs <- resolve_all o (all_common_ancestor_ids ta tb) ;;
    do ds <- mapM (fun c => do d1 <- dist_anc (q_fuel o) o ta c ;;
                            do d2 <- dist_anc (q_fuel o) o tb c ;;
                            match d1, d2 with Some x, Some y => Ok (c, x + y) | _, _ => Panic end) cs ;;
    match first_min_by snd ds with
    | None => Ok None
    | Some (c, _) =>
        do up <- path_anc (q_fuel o) o ta c ;;
        match up with
        | None => Panic
        | Some up =>
            if negb (t_id ta =? t_id tb) && (t_id c =? t_id tb) then Ok (Some up)
            else do down <- path_anc (q_fuel o) o tb c ;;
                 match down with None => Panic | Some down => Ok (Some (up ++ tl (rev down) ++ [t_id tb])) end
        end
    end.
  Proof. reflexivity. Qed.

  (* shape of a successful run: the chosen meeting point and the two upward paths *)
  Lemma path_term_inv ta tb l : In ta (ar_terms a) -> In tb (ar_terms a) -> t_id ta <> t_id tb ->
    path_term o ta tb = Ok (Some l) ->
    exists tc x y up, In tc (ar_terms a) /\
      dist_anc (q_fuel o) o ta tc = Ok (Some x) /\ dist_anc (q_fuel o) o tb tc = Ok (Some y) /\
      path_anc (q_fuel o) o ta tc = Ok (Some up) /\
      (forall c n1 n2, chain a (t_id ta) n1 c -> chain a (t_id tb) n2 c -> (N.to_nat (x + y) <= n1 + n2)%nat) /\
      ((t_id tc = t_id tb /\ l = up) \/
       (t_id tc <> t_id tb /\ exists down, path_anc (q_fuel o) o tb tc = Ok (Some down) /\ l = up ++ tl (rev down) ++ [t_id tb])).
  Proof.
    intros Ha Hb Hne H. rewrite path_term_unfold in H.
    apply bind_Ok' in H as [cs [Hcs H]]. apply bind_Ok' in H as [ds [Hds H]].
    destruct (first_min_by snd ds) as [[tc s]|] eqn:Em; [|discriminate].
    apply first_min_by_spec in Em as [Hin Hmin]. cbn [snd] in Hmin.
    pose proof (mapM_Ok _ _ _ Hds) as F.
    destruct (Forall2_In_r _ _ _ _ F Hin) as [tc' [Htc' Hf]].
    apply bind_Ok' in Hf as [d1 [H1 Hf]]. apply bind_Ok' in Hf as [d2 [H2 Hf]].
    destruct d1 as [x|]; [|discriminate]. destruct d2 as [y|]; [|discriminate]. injection Hf as -> <-.
    unfold resolve_all in Hcs. pose proof (mapM_Ok _ _ _ Hcs) as Fc.
    destruct (Forall2_In_r _ _ _ _ Fc Htc') as [cid [Hcid Hr]]. destruct (resolve_In o cid tc Hr) as [Htcin Hid].
    apply bind_Ok' in H as [upo [Hup H]]. destruct upo as [up|]; [|discriminate].
    exists tc, x, y, up. repeat (split; [assumption|]). split.
    - (* minimal among all meeting points *)
      intros c n1 n2 C1 C2.
      assert (In c (all_common_ancestor_ids ta tb)) as Hc.
      { apply (common_In o ta tb c Ha Hb). split; [apply (up_in_self_or_allp o G ta n1 c Ha C1)|apply (up_in_self_or_allp o G tb n2 c Hb C2)]. }
      destruct (Forall2_In_l _ _ _ c Fc Hc) as [tc2 [Htc2 Hr2]]. destruct (resolve_In o c tc2 Hr2) as [Htc2in Hid2].
      destruct (Forall2_In_l _ _ _ tc2 F Htc2) as [e [He Hf2]].
      apply bind_Ok' in Hf2 as [e1 [E1 Hf2]]. apply bind_Ok' in Hf2 as [e2 [E2 Hf2]].
      rewrite <- Hid2 in C1, C2.
      destruct (dist_anc_minimal o G _ ta tc2 e1 Ha E1 n1 C1) as [x2 [-> Hx2]].
      destruct (dist_anc_minimal o G _ tb tc2 e2 Hb E2 n2 C2) as [y2 [-> Hy2]].
      injection Hf2 as <-. specialize (Hmin _ He). cbn [snd] in Hmin. lia.
    - destruct (N.eqb_spec (t_id ta) (t_id tb)) as [E|_]; [contradiction|]. cbn [negb andb] in H.
      destruct (N.eqb_spec (t_id tc) (t_id tb)) as [E|E].
      + left. injection H as <-. auto.
      + right. split; [exact E|]. apply bind_Ok' in H as [dno [Hdn H]]. destruct dno as [down|]; [|discriminate].
        injection H as <-. exists down. auto.
  Qed.

  Theorem path_term_sound ta tb l : In ta (ar_terms a) -> In tb (ar_terms a) -> t_id ta <> t_id tb ->
    path_term o ta tb = Ok (Some l) -> walk (t_id ta) l /\ last l (t_id ta) = t_id tb.
  Proof.
    intros Ha Hb Hne H.
    destruct (path_term_inv ta tb l Ha Hb Hne H) as (tc & x & y & up & Htc & H1 & H2 & Hup & _ & Hcase).
    destruct (path_anc_sound o G _ ta tc up Ha Hup) as [Hlk Hlast].
    destruct Hcase as [[E ->]|[E [down [Hdn ->]]]].
    - split; [apply links_walk, Hlk|rewrite Hlast; exact E].
    - destruct (path_anc_sound o G _ tb tc down Hb Hdn) as [Hlk2 Hlast2].
      assert (down <> []) as Hdne by (intros ->; cbn in Hlast2; congruence).
      destruct (down_walk down (t_id tb) (t_id tc) Hdne Hlk2 Hlast2) as [Hw _].
      split.
      + apply walk_app; [apply links_walk, Hlk|]. rewrite Hlast. exact Hw.
      + rewrite app_assoc. apply last_snoc.
  Qed.

  (* no pair of upward chains that meet is shorter than the returned walk *)
  Theorem path_term_minimal ta tb l : In ta (ar_terms a) -> In tb (ar_terms a) -> t_id ta <> t_id tb ->
    path_term o ta tb = Ok (Some l) ->
    forall c n1 n2, chain a (t_id ta) n1 c -> chain a (t_id tb) n2 c -> (length l <= n1 + n2)%nat.
  Proof.
    intros Ha Hb Hne H c n1 n2 C1 C2.
    destruct (path_term_inv ta tb l Ha Hb Hne H) as (tc & x & y & up & Htc & H1 & H2 & Hup & Hmin & Hcase).
    specialize (Hmin c n1 n2 C1 C2).
    pose proof (dist_anc_sound o G _ ta tc x Ha H1) as Cx.
    destruct (path_anc_minimal o G _ ta tc (Some up) Ha Hup _ Cx) as [up' [E Hle]]. injection E as <-.
    destruct Hcase as [[E ->]|[E [down [Hdn ->]]]]; [lia|].
    pose proof (dist_anc_sound o G _ tb tc y Hb H2) as Cy.
    destruct (path_anc_minimal o G _ tb tc (Some down) Hb Hdn _ Cy) as [down' [E' Hle']]. injection E' as <-.
    destruct (path_anc_sound o G _ tb tc down Hb Hdn) as [Hlk2 Hlast2].
    assert (down <> []) as Hdne by (intros ->; cbn in Hlast2; congruence).
    destruct (down_walk down (t_id tb) (t_id tc) Hdne Hlk2 Hlast2) as [_ Hlen].
    rewrite app_length, Hlen. lia.
  Qed.
End PathTerm.
