(* AcyclicP.v — connect_all_terms returns only on acyclic is_a graphs: whenever the fuelled
   transcription of create_cache_of_grandparents returns (the real code: whenever the recursion
   terminates), no term is its own ancestor.  (On a cycle the real recursion does not terminate;
   the transcription runs out of fuel.) *)
From Coq Require Import Lia Relations.
From HpoV Require Import Gen.Consts Model.Base Model.Group Model.Onto
  Proofs.GroupP Proofs.BaseP Proofs.ClosureP.

(* every term whose cache counts as filled is not its own ancestor *)
Definition AC (a : arena) : Prop :=
  forall t, In t (ar_terms a) -> parents_cached t = true -> ~ anc a (t_id t) (t_id t).

Lemma exact_cached a t : wf_ar a -> In t (ar_terms a) -> exact a t -> parents_cached t = true.
Proof.
  intros W Hin X. unfold parents_cached. destruct (t_parents t) as [|p ps] eqn:Ep; [reflexivity|].
  assert (In p (t_allp t)) as Hp.
  { apply X. apply t_step. apply (parent_rel_of_term a t p W Hin). rewrite Ep. left. reflexivity. }
  destruct (t_allp t); [destruct Hp|reflexivity].
Qed.

Lemma cached_step a a' t t' : wf_ar a -> step a a' -> In t (ar_terms a) -> In t' (ar_terms a') -> t_id t' = t_id t ->
  parents_cached t = true -> parents_cached t' = true.
Proof.
  intros W S Hin Hin' Hid Hc. pose proof (step_same a a' S) as Sm. pose proof (same_wf a a' Sm W) as W'.
  destruct S as [_ F]. destruct (Forall2_In_r _ _ _ t' F Hin') as [t0 [Hin0 [E [Hu|Hx]]]].
  - assert (t0 = t) as ->.
    { pose proof (find_unique a t0 W Hin0) as F1. pose proof (find_unique a t W Hin) as F2.
      assert (t_id t' = t_id t0) as E0 by (rewrite E at 1; apply set_allp_fields). rewrite <- E0, Hid in F1. congruence. }
    rewrite E, Hu, <- set_allp_id. exact Hc.
  - apply (exact_cached a' t' W' Hin' Hx).
Qed.

Lemma AC_same_unchanged a a' : wf_ar a -> same_but_allp a a' -> AC a ->
  forall t', In t' (ar_terms a') -> (exists t, In t (ar_terms a) /\ t' = t) -> parents_cached t' = true -> ~ anc a' (t_id t') (t_id t').
Proof.
  intros W Sm A t' Hin' [t [Hin ->]] Hc H. apply (same_anc a a' _ _ Sm) in H. apply (A t Hin Hc H).
Qed.

Section Fuel.
  Variable f : nat.
  Hypothesis IHac : forall a id a', wf_ar a -> Inv a -> AC a -> In id (ar_keys a) -> create_cache f a id = Ok a' -> AC a'.

  Lemma grand_fold_AC ps : forall parents a1 acc r, wf_ar a1 -> Inv a1 -> AC a1 -> (forall p, In p ps -> In p (ar_keys a1)) ->
    foldM (grand_step f parents) ps (a1, acc) = Ok r ->
    AC (fst r) /\ (forall p, In p ps -> forall t', In t' (ar_terms (fst r)) -> t_id t' = p -> parents_cached t' = true).
  Proof.
    induction ps as [|p ps IH]; intros parents a1 acc r W I A Hk H; cbn [foldM] in H.
    - injection H as <-. split; [exact A|intros p []].
    - destruct (get_unchecked_key a1 p W (Hk p (or_introl eq_refl))) as [tp [Eg [Hin Hid]]].
      unfold grand_step at 1 in H. rewrite Eg in H. cbn [bind] in H.
      assert (exists a2, (if parents_cached tp then Ok a1 else create_cache f a1 p) = Ok a2 /\ step a1 a2 /\ AC a2 /\
                (forall t', In t' (ar_terms a2) -> t_id t' = p -> parents_cached t' = true)) as [a2 [E2 [S2 [A2 C2]]]].
      { destruct (parents_cached tp) eqn:Ec.
        - exists a1. split; [reflexivity|]. split; [apply step_refl|]. split; [exact A|]. intros t' Hin' Hid'.
          assert (t' = tp) as ->; [|exact Ec].
          pose proof (find_unique a1 t' W Hin') as F1. pose proof (find_unique a1 tp W Hin) as F2.
          rewrite Hid' in F1. rewrite Hid in F2. congruence.
        - destruct (create_cache f a1 p) as [a2| | |] eqn:Ecc; cbn [bind] in H; try discriminate.
          exists a2. split; [reflexivity|].
          destruct (create_cache_spec f a1 p a2 W I (Hk p (or_introl eq_refl)) Ecc) as [S2 X2].
          split; [exact S2|]. split; [apply (IHac a1 p a2 W I A (Hk p (or_introl eq_refl)) Ecc)|].
          intros t' Hin' Hid'. apply (exact_cached a2 t' (same_wf a1 a2 (step_same _ _ S2) W) Hin' (X2 t' Hin' Hid')). }
      rewrite E2 in H. cbn [bind] in H.
      pose proof (step_same a1 a2 S2) as Sm2. pose proof (same_wf a1 a2 Sm2 W) as W2.
      pose proof (inv_step a1 a2 I S2) as I2. pose proof (same_keys a1 a2 Sm2) as K2.
      assert (In p (ar_keys a2)) as Hp2 by (rewrite K2; apply Hk; left; reflexivity).
      destruct (get_unchecked_key a2 p W2 Hp2) as [tp' [Eg' [Hin' Hid']]].
      rewrite Eg' in H. cbn [bind] in H.
      assert (forall q, In q ps -> In q (ar_keys a2)) as Hk2 by (intros q Hq; rewrite K2; apply Hk; right; exact Hq).
      destruct (IH parents a2 _ r W2 I2 A2 Hk2 H) as [A3 C3]. split; [exact A3|].
      intros q [<-|Hq] t' Ht' Hidt'; [|apply (C3 q Hq t' Ht' Hidt')].
      (* p itself: cached in a2, and it stays cached through the remaining steps *)
      destruct (grand_fold f (create_cache_spec f) ps parents a2 _ r W2 I2 Hk2 H) as [S3 _].
      apply (cached_step a2 (fst r) tp' t' W2 S3 Hin' Ht'); [congruence|apply (C2 tp' Hin' Hid')].
  Qed.
End Fuel.

Theorem create_cache_acyclic fuel : forall a id a', wf_ar a -> Inv a -> AC a -> In id (ar_keys a) ->
  create_cache fuel a id = Ok a' -> AC a'.
Proof.
  induction fuel as [|f IHf]; intros a id a' W I A Hk H; [discriminate|].
  pose proof H as Hfull. cbn [create_cache] in H.
  destruct (get_unchecked_key a id W Hk) as [t [Eg [Hin Hid]]]. rewrite Eg in H. cbn [bind] in H.
  change (fun (st : arena * group) (p : N) => let (a1, acc) := st in
            do tp <- ar_get_unchecked p a1 ;;
            do a2 <- (if parents_cached tp then Ok a1 else create_cache f a1 p) ;;
            do tp' <- ar_get_unchecked p a2 ;; Ok (a2, fold_left g_add (t_allp tp') acc))
    with (grand_step f (t_parents t)) in H.
  destruct (foldM (grand_step f (t_parents t)) (t_parents t) (a, [])) as [[a1 acc]| | |] eqn:Ef; cbn [bind] in H; try discriminate.
  assert (forall p, In p (t_parents t) -> In p (ar_keys a)) as Hpk by (intros p Hp; apply (wf_closed a W t Hin p Hp)).
  destruct (grand_fold f (create_cache_spec f) (t_parents t) (t_parents t) a [] (a1, acc) W I Hpk Ef) as [S1 _].
  destruct (grand_fold_AC f IHf (t_parents t) (t_parents t) a [] (a1, acc) W I A Hpk Ef) as [A1 C1]. cbn [fst] in S1, A1, C1.
  pose proof (step_same a a1 S1) as Sm1. pose proof (same_wf a a1 Sm1 W) as W1.
  (* the whole call is a step a -> a' *)
  destruct (create_cache_spec (S f) a id a' W I Hk Hfull) as [S _].
  pose proof (step_same a a' S) as Sm. pose proof (same_wf a a' Sm W) as W'.
  (* id is not its own ancestor: a cycle through id passes through one of its parents, all of which are filled and acyclic in a1 *)
  assert (~ anc a id id) as Hacyc.
  { intros Hc. apply anc_unfold in Hc.
    assert (exists p, In p (t_parents t) /\ anc a p p) as [p [Hp Hpp]].
    { destruct Hc as [Hself|[p [Hp Hpi]]].
      - exists id. split; [apply (parent_rel_of_term a t id W Hin); rewrite Hid; exact Hself|]. apply t_step. exact Hself.
      - exists p. split; [apply (parent_rel_of_term a t p W Hin); rewrite Hid; exact Hp|].
        eapply t_trans; [exact Hpi|apply t_step; exact Hp]. }
    assert (In p (ar_keys a1)) as Hpk1 by (rewrite (same_keys a a1 Sm1); apply Hpk, Hp).
    destruct (key_find a1 p W1 Hpk1) as [tp [_ [Htp [Hidp _]]]].
    apply (A1 tp Htp (C1 p Hp tp Htp Hidp)). rewrite Hidp. apply (same_anc a a1 p p Sm1), Hpp. }
  (* a' = a1 with the cache of id written *)
  unfold ar_update_unchecked in H. destruct (MAX_HPO_ID <=? id); [discriminate|].
  assert (In id (ar_keys a1)) as Hk1 by (rewrite (same_keys a a1 Sm1); exact Hk).
  destruct (key_find a1 id W1 Hk1) as [t1 [Ef1 _]]. rewrite Ef1 in H. injection H as <-.
  intros t' Hin' Hc' Hcyc. unfold ar_update in Hin'. cbn [ar_terms] in Hin'.
  pose proof (update_by_Forall2 (set_allp (g_union acc (t_parents t))) id (ar_terms a1) (wf_nodup a1 W1)) as F.
  destruct (Forall2_In_r _ _ _ t' F Hin') as [t0 [Hin0 Hrel]].
  destruct (N.eqb_spec (t_id t0) id) as [E|E].
  - (* the term whose cache was just written *)
    assert (t_id t' = id) as Eid by (rewrite Hrel, <- E; apply set_allp_fields).
    rewrite Eid in Hcyc. apply Hacyc. apply (same_anc a _ id id Sm), Hcyc.
  - (* an untouched term of a1 *)
    subst t'. apply (A1 t0 Hin0 Hc'). apply (same_anc a a1 _ _ Sm1). apply (same_anc a _ _ _ Sm), Hcyc.
Qed.

Definition acyclic (a : arena) : Prop := forall c, ~ anc a c c.

Lemma anc_source_is_term a c x : anc a c x -> exists t, In t (ar_terms a) /\ t_id t = c.
Proof.
  intros H. apply anc_unfold in H. destruct H as [[t [Hin [Hid _]]]|[p [[t [Hin [Hid _]]] _]]]; exists t; auto.
Qed.

(* connect_all_terms on a builder state returns only if the is_a graph is acyclic *)
Theorem connect_all_acyclic fuel a a' : binv a -> connect_all fuel a = Ok a' -> acyclic a /\ acyclic a'.
Proof.
  intros B H. pose proof (b_wf _ B) as W.
  destruct (connect_all_exact fuel a a' W (b_empty _ B) H) as [Sm X].
  pose proof (same_wf a a' Sm W) as W'.
  assert (Inv a) as I by (intros t Hin; left; apply (b_empty _ B), Hin).
  assert (AC a) as A0.
  { intros t Hin Hc Hcyc. unfold parents_cached in Hc. rewrite (b_empty _ B t Hin) in Hc.
    destruct (t_parents t) as [|p ps] eqn:Ep; [|discriminate].
    assert (exists y, parent_rel a (t_id t) y) as [y Hy].
    { apply anc_unfold in Hcyc. destruct Hcyc as [Hy|[y [Hy _]]]; eauto. }
    apply (parent_rel_of_term a t y W Hin) in Hy. rewrite Ep in Hy. destruct Hy. }
  assert (AC a') as A'.
  { unfold connect_all in H.
    assert (forall ids a1 a2, wf_ar a1 -> Inv a1 -> AC a1 -> (forall id, In id ids -> In id (ar_keys a1)) ->
              foldM (fun a id => create_cache fuel a id) ids a1 = Ok a2 -> AC a2) as K.
    { induction ids as [|id ids IH]; intros a1 a2 W1 I1 A1 Hk Hf; cbn [foldM] in Hf; [injection Hf as <-; exact A1|].
      destruct (create_cache fuel a1 id) as [a3| | |] eqn:Ec; cbn [bind] in Hf; try discriminate.
      destruct (create_cache_spec fuel a1 id a3 W1 I1 (Hk id (or_introl eq_refl)) Ec) as [S3 _].
      pose proof (step_same a1 a3 S3) as Sm3.
      apply (IH a3 a2 (same_wf a1 a3 Sm3 W1) (inv_step a1 a3 I1 S3) (create_cache_acyclic fuel a1 id a3 W1 I1 A1 (Hk id (or_introl eq_refl)) Ec)); [|exact Hf].
      intros q Hq. rewrite (same_keys a1 a3 Sm3). apply Hk. right. exact Hq. }
    apply (K (ar_keys a) a a' W I A0 (fun id Hid => Hid) H). }
  assert (acyclic a') as Ac'.
  { intros c Hc. destruct (anc_source_is_term a' c c Hc) as [t [Hin Hid]].
    apply (A' t Hin); [|rewrite Hid; exact Hc].
    apply (exact_cached a' t W' Hin). intros x. rewrite (X t Hin x). apply (same_anc a a' (t_id t) x Sm). }
  split; [|exact Ac']. intros c Hc. apply (Ac' c). apply (same_anc a a' c c Sm), Hc.
Qed.
