(* C04B.v — the hypotheses of C04R.similarity_nonneg hold in every ontology a Builder script builds
   when the information content is the documented -ln(n/N) over the reals: the annotation sets are
   the inherited ones (BuilderAnnotP), so a common ancestor carries at least the annotations of the
   term, and no term carries more annotations than there are records. *)
From Coq Require Import Reals Lra Lia Relations.
From HpoV Require Import Gen.Consts Model.Base Model.Group Model.Onto Model.Query Model.Similarity Model.Script
  Proofs.GroupP Proofs.BaseP Proofs.ClosureP Proofs.DistP Proofs.DistTermP Proofs.LinkP Proofs.AnnotP Proofs.QgoodP
  Proofs.BuilderAnnotP Proofs.C03P Proofs.C04R.

Definition icRo (o : onto) (k : kind) (t : term) : R := icR (length (t_annots k t)) (length (o_records k o)).

Section Inherited.
  Variable o : onto.
  Hypothesis G : qgood o.
  Hypothesis A : ann_ok o.
  Let a := o_arena o.

  Lemma annots_le_records k t : In t (ar_terms a) -> (length (t_annots k t) <= length (o_records k o))%nat.
  Proof.
    intros Ht. rewrite <- (map_length a_id (o_records k o)).
    apply NoDup_incl_length; [apply sorted_NoDup, (an_sorted o A k t Ht)|].
    intros x Hx. apply (an_exact o A k t Ht x) in Hx as [r [Hr [<- _]]]. apply in_map, Hr.
  Qed.

  (* an ancestor (or the term itself) carries every annotation of the term *)
  Lemma ancestor_annots_incl k t c : In t (ar_terms a) -> In c (ar_terms a) ->
    t_id c = t_id t \/ In (t_id c) (t_allp t) -> incl (t_annots k t) (t_annots k c).
  Proof.
    intros Ht Hc Hup x Hx. apply (an_exact o A k t Ht x) in Hx as [r [Hr [Hid [d [Hd Hreach]]]]].
    apply (an_exact o A k c Hc x). exists r. split; [exact Hr|]. split; [exact Hid|]. exists d. split; [exact Hd|].
    destruct Hup as [E|Hup]; [rewrite E; exact Hreach|]. right.
    assert (In (t_id c) (allp_of a (t_id t))) as Hct.
    { unfold allp_of. fold a. rewrite (find_unique a t (q_wf o G) Ht). exact Hup. }
    destruct Hreach as [<-|Hreach]; [exact Hct|].
    unfold allp_of in *. unfold a in *. destruct (ar_find d (o_arena o)) as [td|] eqn:Ed; [|cbn in Hreach; contradiction].
    unfold ar_find in Ed. apply find_by_Some in Ed as [Htd Hidd].
    pose proof (find_unique (o_arena o) t (q_wf o G) Ht) as Ft. rewrite Ft in Hct.
    apply (q_exact o G td Htd). apply (q_exact o G td Htd) in Hreach. apply (q_exact o G t Ht) in Hct.
    eapply t_trans; [exact Hreach|exact Hct].
  Qed.

  Lemma icRo_nonneg k t : In t (ar_terms a) -> 0 <= icRo o k t.
  Proof. intros Ht. apply icR_nonneg, annots_le_records, Ht. Qed.

  Lemma icRo_ancestor k t c : In t (ar_terms a) -> In c (ar_terms a) -> icRo o k t <> 0 ->
    t_id c = t_id t \/ In (t_id c) (t_allp t) -> icRo o k c <= icRo o k t.
  Proof.
    intros Ht Hc Hnz Hup. unfold icRo in *. apply icR_antitone.
    - destruct (length (t_annots k t)) eqn:E; [|lia]. exfalso. apply Hnz. reflexivity.
    - apply NoDup_incl_length; [apply sorted_NoDup, (an_sorted o A k t Ht)|apply ancestor_annots_incl; assumption].
  Qed.

  Lemma resolve_all_terms g ts : resolve_all o g = Ok ts -> Forall (fun t => In t (ar_terms a)) ts.
  Proof.
    intros H. apply mapM_Ok in H. induction H as [|x y l l' Hxy _ IH]; constructor; [|exact IH].
    apply (resolve_In o x y Hxy).
  Qed.

  Theorem exact_similarity_nonneg g k ta tb r : In ta (ar_terms a) -> In tb (ar_terms a) ->
    simR (icRo o) g o k ta tb = Ok r -> 0 <= r.
  Proof.
    intros Ha Hb. apply (similarity_nonneg (icRo o) (fun t => In t (ar_terms a))); [apply icRo_nonneg|apply resolve_all_terms|exact Ha|exact Hb|].
    intros Za Zb cs Hcs c Hc.
    pose proof (resolve_all_terms _ _ Hcs) as HT. rewrite Forall_forall in HT. pose proof (HT c Hc) as Hct.
    apply mapM_Ok in Hcs. destruct (Forall2_In_r _ _ _ c Hcs Hc) as [cid [Hcid Hres]].
    destruct (resolve_In o cid c Hres) as [_ Eid]. subst cid.
    apply (common_In o ta tb (t_id c) Ha Hb) in Hcid as [Ua Ub].
    split; apply icRo_ancestor; assumption.
  Qed.
End Inherited.

(* for every Builder script *)
Theorem builder_similarity_nonneg icf s codes o : run_script icf s = Ok (codes, Ok o) ->
  forall g k ta tb r, In ta (ar_terms (o_arena o)) -> In tb (ar_terms (o_arena o)) ->
    simR (icRo o) g o k ta tb = Ok r -> (0 <= r)%R.
Proof.
  intros Hs g k ta tb r. apply exact_similarity_nonneg; [apply (run_script_qgood icf s codes o Hs)|apply (run_script_ann_ok icf s codes o Hs)].
Qed.
