(* C09G.v — the two annotation files of the JAX download, file level: a rendered
   genes_to_phenotype.txt / phenotype_to_genes.txt / phenotype.hpoa is read as exactly one
   annotate_* call per (non-NOT, OMIM/ORPHA) row, in file order, with the ids and names of the
   rows; header, comment and other-database lines contribute nothing. *)
From Coq Require Import ZArith Lia ZifyN ZifyNat ZifyBool.
From HpoV Require Import Gen.Consts Model.Base Model.Group Model.Onto Model.Binary Model.TermId Model.Text
  Proofs.BinaryP Proofs.C20P Proofs.C09P.

Ltac Zify.zify_post_hook ::= Z.div_mod_to_equations.

(* ---------------- decimal ids ---------------- *)

Lemma parse_digits_max_app mx l1 : forall l2 acc,
  parse_digits_max mx (l1 ++ l2) acc =
  match parse_digits_max mx l1 acc with Some a => parse_digits_max mx l2 a | None => None end.
Proof.
  induction l1 as [|d t IH]; intros l2 acc; cbn [app parse_digits_max]; [reflexivity|].
  destruct ((48 <=? d) && (d <=? 57)); [|reflexivity].
  destruct (mx <? acc * 10 + (d - 48)); [reflexivity|]. apply IH.
Qed.

Lemma parse_digits_max_digits mx k : forall n, n < 10 ^ N.of_nat k -> n <= mx ->
  parse_digits_max mx (digits k n) 0 = Some n.
Proof.
  induction k as [|k IH]; intros n Hlt Hmax.
  - cbn in Hlt. cbn [digits parse_digits_max]. f_equal. lia.
  - cbn [digits]. rewrite parse_digits_max_app.
    assert (10 ^ N.of_nat (S k) = 10 * 10 ^ N.of_nat k) as Hpow by (rewrite Nat2N.inj_succ, N.pow_succ_r'; reflexivity).
    rewrite IH; [|rewrite Hpow in Hlt; lia|lia].
    cbn [parse_digits_max].
    assert ((48 <=? 48 + n mod 10) && (48 + n mod 10 <=? 57) = true) as -> by lia.
    replace (n / 10 * 10 + (48 + n mod 10 - 48)) with n by lia.
    assert (mx <? n = false) as -> by lia. reflexivity.
Qed.

(* a decimal rendering of any width (zero padded or not) parses back *)
Theorem parse_uint_digits mx k n : (0 < k)%nat -> n < 10 ^ N.of_nat k -> n <= mx ->
  parse_uint mx (digits k n) = Some n.
Proof.
  intros Hk Hlt Hmax. destruct (digits_head k n Hk) as [d [t [E Hd]]].
  rewrite <- (parse_digits_max_digits mx k n Hlt Hmax). rewrite E.
  assert (d = 48 \/ d = 49 \/ d = 50 \/ d = 51 \/ d = 52 \/ d = 53 \/ d = 54 \/ d = 55 \/ d = 56 \/ d = 57) as Hc by lia.
  destruct Hc as [->|[->|[->|[->|[->|[->|[->|[->|[->| ->]]]]]]]]]; reflexivity.
Qed.

Lemma digits_range k : forall n, Forall (fun d => 48 <= d <= 57) (digits k n).
Proof.
  induction k as [|k IH]; intros n; cbn [digits]; [constructor|].
  apply Forall_app. split; [apply IH|]. constructor; [lia|constructor].
Qed.

Lemma digits_no_byte k n b : b < 48 \/ 57 < b -> ~ In b (digits k n).
Proof.
  intros Hb Hin. pose proof (digits_range k n) as H. rewrite Forall_forall in H. specialize (H b Hin). lia.
Qed.

(* ---------------- lines with a final newline ---------------- *)

Lemma join_byte_snoc b ls : ls <> [] -> join_byte b (ls ++ [[]]) = join_byte b ls ++ [b].
Proof.
  induction ls as [|l t IH]; intros Hne; [congruence|]. destruct t as [|l2 t'].
  - cbn. reflexivity.
  - change ((l :: l2 :: t') ++ [[]]) with (l :: (l2 :: t') ++ [[]]).
    change (join_byte b (l :: (l2 :: t') ++ [[]])) with (l ++ b :: join_byte b ((l2 :: t') ++ [[]])).
    rewrite IH by discriminate. change (join_byte b (l :: l2 :: t')) with (l ++ b :: join_byte b (l2 :: t')).
    rewrite <- app_assoc. reflexivity.
Qed.

Theorem lines_join_nl ls : ls <> [] -> Forall plain_line ls -> lines (join_byte NL ls ++ [NL]) = ls.
Proof.
  intros Hne Hall. rewrite <- join_byte_snoc by exact Hne. unfold lines. cbv zeta.
  rewrite split_byte_join.
  - rewrite rev_app_distr. cbn [rev app]. rewrite rev_involutive.
    rewrite <- (map_id ls) at 2. apply map_ext_in. intros l Hl. apply strip_cr_plain.
    rewrite Forall_forall in Hall. apply Hall, Hl.
  - destruct ls; discriminate.
  - apply Forall_app. split; [eapply Forall_impl; [|exact Hall]; intros l [H _]; exact H|].
    constructor; [intros Hin; destruct Hin|constructor].
Qed.

(* ---------------- gene files ---------------- *)

Definition field (s : bytes) : Prop := ~ In TAB s /\ ~ In NL s /\ ~ In CR s.

Record gene_row := mkGeneRow {
  gr_gtxt : bytes; gr_gid : N;          (* the ncbi id as written, and its value *)
  gr_sym : bytes;
  gr_htxt : bytes; gr_hid : N;          (* the term id as written (HP:...), and its value *)
  gr_mid : bytes;                       (* phenotype_to_genes only: the term name column *)
  gr_extra : list bytes                 (* further columns (frequency, disease id, ...) *)
}.

Record gene_row_ok (r : gene_row) : Prop := {
  gro_g : parse_uint U32_MAX (gr_gtxt r) = Some (gr_gid r);
  gro_h : parse_id (gr_htxt r) = Ok (gr_hid r);
  gro_f : Forall field (gr_gtxt r :: gr_sym r :: gr_htxt r :: gr_mid r :: gr_extra r)
}.

Definition g2p_line (r : gene_row) : bytes := join_byte TAB (gr_gtxt r :: gr_sym r :: gr_htxt r :: gr_extra r).
Definition p2g_line (r : gene_row) : bytes := join_byte TAB (gr_htxt r :: gr_mid r :: gr_gtxt r :: gr_sym r :: gr_extra r).
Definition gene_line (transitive : bool) (r : gene_row) : bytes := if transitive then p2g_line r else g2p_line r.

Lemma join_fields_clean b (ps : list bytes) : b <> NL -> b <> CR -> Forall field ps -> clean (join_byte b ps).
Proof.
  intros H1 H2. induction ps as [|p t IH]; intros Hall; [split; intros Hin; destruct Hin|].
  inversion Hall as [|? ? [_ [Hn Hc]] Ht]; subst. destruct t as [|p2 t'].
  - split; assumption.
  - change (join_byte b (p :: p2 :: t')) with (p ++ b :: join_byte b (p2 :: t')).
    destruct (IH Ht) as [I1 I2]. split; intros Hin; apply in_app_or in Hin as [Hin|[Hin|Hin]]; auto; congruence.
Qed.

Lemma gene_line_parse (tr : bool) r : gene_row_ok r ->
  (if tr then phenotype_to_gene_line (gene_line tr r) else genes_to_phenotype_line (gene_line tr r))
  = @Ok (N * bytes * N) (gr_gid r, gr_sym r, gr_hid r).
Proof.
  intros [Hg Hh Hf].
  assert (Forall (no_byte TAB) (gr_gtxt r :: gr_sym r :: gr_htxt r :: gr_mid r :: gr_extra r)) as Hnt
    by (eapply Forall_impl; [|exact Hf]; intros s [H _]; exact H).
  inversion Hnt as [|? ? N1 Hnt1]; subst. inversion Hnt1 as [|? ? N2 Hnt2]; subst.
  inversion Hnt2 as [|? ? N3 Hnt3]; subst. inversion Hnt3 as [|? ? N4 Hnt4]; subst.
  destruct tr; cbn [gene_line].
  - unfold phenotype_to_gene_line, p2g_line. rewrite split_byte_join; [|discriminate|repeat (constructor; [assumption|]); exact Hnt4].
    unfold parsed_gene. rewrite Hh. cbn [bind]. rewrite Hg. reflexivity.
  - unfold genes_to_phenotype_line, g2p_line. rewrite split_byte_join; [|discriminate|repeat (constructor; [assumption|]); exact Hnt4].
    unfold parsed_gene. rewrite Hh. cbn [bind]. rewrite Hg. reflexivity.
Qed.

Lemma gene_line_plain (tr : bool) r : gene_row_ok r -> plain_line (gene_line tr r) /\ gene_line tr r <> [].
Proof.
  intros [Hg Hh Hf]. inversion Hf as [|? ? F1 Hf1]; subst. inversion Hf1 as [|? ? F2 Hf2]; subst.
  inversion Hf2 as [|? ? F3 Hf3]; subst. inversion Hf3 as [|? ? F4 Hf4]; subst.
  assert (gr_gtxt r <> []) as Hne by (intros E; rewrite E in Hg; discriminate).
  assert (gr_htxt r <> []) as Hne2 by (intros E; rewrite E in Hh; discriminate).
  split.
  - apply clean_plain. destruct tr; cbn [gene_line]; apply join_fields_clean; try discriminate;
      repeat (constructor; [assumption|]); exact Hf4.
  - destruct tr; cbn [gene_line]; unfold p2g_line, g2p_line;
      [destruct (gr_htxt r)|destruct (gr_gtxt r)]; try congruence; discriminate.
Qed.

Definition gene_header_ok (hdr : bytes) : Prop :=
  ~ In NL hdr /\ (starts_with s_hash hdr || starts_with s_ncbi_gene_id hdr || starts_with s_hpo_id hdr) = true.

Definition gene_step (o : onto) (r : gene_row) : res onto := b_annotate KGene (gr_gid r) (gr_sym r) (gr_hid r) o.

Lemma gene_rows_fold (tr : bool) rows : Forall gene_row_ok rows -> forall o,
  foldM (fun o1 line =>
           do g <- (if tr then phenotype_to_gene_line line else genes_to_phenotype_line line) ;;
           let '(gid, symbol, hpo) := g in b_annotate KGene gid symbol hpo o1)
        (map (gene_line tr) rows) o
  = foldM gene_step rows o.
Proof.
  induction 1 as [|r rows Hr _ IH]; intros o; cbn [map foldM]; [reflexivity|].
  pose proof (gene_line_parse tr r Hr) as Hp. destruct tr; rewrite Hp; cbn [bind]; unfold gene_step at 1;
    destruct (b_annotate KGene _ _ _ o); cbn [bind]; auto.
Qed.

(* THE GENE FILE (genes_to_phenotype.txt when transitive = false, phenotype_to_genes.txt when true):
   one header line, then the rows, with or without a final newline *)
Theorem parse_gene_file_render tr hdr rows (final_nl : bool) o : gene_header_ok hdr -> rows <> [] ->
  Forall gene_row_ok rows ->
  parse_gene_file tr (hdr ++ NL :: join_byte NL (map (gene_line tr) rows) ++ (if final_nl then [NL] else [])) o
  = foldM gene_step rows o.
Proof.
  intros [Hnl Hst] Hne Hall. unfold parse_gene_file, split_first_line.
  rewrite (split_once1_first hdr [] _ NL Hnl). cbn [rev app]. rewrite Hst. cbn [negb].
  assert (map (gene_line tr) rows <> []) as Hne' by (destruct rows; [congruence|discriminate]).
  assert (Forall plain_line (map (gene_line tr) rows)) as Hpl.
  { apply Forall_forall. intros l Hl. apply in_map_iff in Hl as [r [<- Hr]]. rewrite Forall_forall in Hall.
    apply (gene_line_plain tr r (Hall r Hr)). }
  assert (lines (join_byte NL (map (gene_line tr) rows) ++ (if final_nl then [NL] else [])) = map (gene_line tr) rows) as ->.
  { destruct final_nl; [apply lines_join_nl; assumption|]. rewrite app_nil_r. apply lines_join; try assumption.
    assert (In (last (map (gene_line tr) rows) []) (map (gene_line tr) rows)) as Hin by (apply last_In'; exact Hne').
    apply in_map_iff in Hin as [r [E Hr]]. rewrite <- E. rewrite Forall_forall in Hall.
    apply (gene_line_plain tr r (Hall r Hr)). }
  apply gene_rows_fold. exact Hall.
Qed.

Lemma split_once1_none b (s : bytes) : forall cur, ~ In b s -> split_once1 b s cur = None.
Proof.
  induction s as [|c t IH]; intros cur Hn; cbn [split_once1]; [reflexivity|].
  destruct (N.eqb_spec c b) as [->|]; [exfalso; apply Hn; left; reflexivity|]. apply IH. intros Hin. apply Hn. right. exact Hin.
Qed.

(* a file with only the header line adds nothing *)
Theorem parse_gene_file_header_only tr hdr o : gene_header_ok hdr ->
  parse_gene_file tr (hdr ++ [NL]) o = Ok o /\ parse_gene_file tr hdr o = Ok o.
Proof.
  intros [Hnl Hst]. unfold parse_gene_file, split_first_line. split.
  - rewrite (split_once1_first hdr [] [] NL Hnl). cbn [rev app]. rewrite Hst. reflexivity.
  - rewrite (split_once1_none NL hdr [] Hnl).
    rewrite Hst. reflexivity.
Qed.

(* ---------------- phenotype.hpoa ---------------- *)

Lemma trim_start_id l : is_ws (hd 0 l) = false -> trim_start l = l.
Proof. destruct l as [|c t]; [reflexivity|]. cbn [hd trim_start]. intros ->. reflexivity. Qed.

Lemma hd_rev_last (l : bytes) : hd 0 (rev l) = last l 0.
Proof.
  induction l as [|c t IH]; [reflexivity|]. cbn [rev]. destruct t as [|c2 t']; [reflexivity|].
  change (last (c :: c2 :: t') 0) with (last (c2 :: t') 0). rewrite <- IH.
  destruct (rev (c2 :: t')) as [|x r] eqn:E; [|reflexivity].
  exfalso. apply (f_equal (@length N)) in E. rewrite rev_length in E. discriminate.
Qed.

Lemma trim_id l : is_ws (hd 0 l) = false -> is_ws (last l 0) = false -> trim l = l.
Proof.
  intros H1 H2. unfold trim. rewrite (trim_start_id l H1). rewrite trim_start_id by (rewrite hd_rev_last; exact H2).
  apply rev_involutive.
Qed.

Lemma splitn_tab_piece n p : forall cur rest, ~ In TAB p ->
  splitn_tab (S (S n)) (p ++ TAB :: rest) cur = (rev cur ++ p) :: splitn_tab (S n) rest [].
Proof.
  induction p as [|c t IH]; intros cur rest Hn.
  - cbn [app]. change (splitn_tab (S (S n)) (TAB :: rest) cur) with
      (if TAB =? TAB then rev cur :: splitn_tab (S n) rest [] else splitn_tab (S (S n)) rest (TAB :: cur)).
    rewrite N.eqb_refl, app_nil_r. reflexivity.
  - change ((c :: t) ++ TAB :: rest) with (c :: t ++ TAB :: rest).
    change (splitn_tab (S (S n)) (c :: t ++ TAB :: rest) cur) with
      (if c =? TAB then rev cur :: splitn_tab (S n) (t ++ TAB :: rest) [] else splitn_tab (S (S n)) (t ++ TAB :: rest) (c :: cur)).
    destruct (N.eqb_spec c TAB) as [->|_]; [exfalso; apply Hn; left; reflexivity|].
    rewrite IH by (intros Hin; apply Hn; right; exact Hin). cbn [rev]. rewrite <- app_assoc. reflexivity.
Qed.

Record dis_row := mkDisRow {
  dr_omim : bool;                       (* OMIM row or ORPHA row *)
  dr_dtxt : bytes; dr_did : N;          (* the numeric part of the database id, and its value *)
  dr_name : bytes;
  dr_not : bool;                        (* qualifier column is NOT *)
  dr_q : bytes;                         (* otherwise: the qualifier column as written (normally empty) *)
  dr_htxt : bytes; dr_hid : N;
  dr_tail : bytes                       (* reference, evidence, onset, frequency, ... *)
}.

Definition dr_db (r : dis_row) : bytes := if dr_omim r then s_OMIM else s_ORPHA.
Definition dr_qual (r : dis_row) : bytes := if dr_not r then s_NOT else dr_q r.

Record dis_row_ok (r : dis_row) : Prop := {
  dro_d : parse_uint U32_MAX (dr_dtxt r) = Some (dr_did r);
  dro_h : parse_id (dr_htxt r) = Ok (dr_hid r);
  dro_f : Forall field [dr_dtxt r; dr_name r; dr_q r; dr_htxt r];
  dro_q : dr_q r <> s_NOT;
  dro_t : clean (dr_tail r) /\ dr_tail r <> [] /\ is_ws (last (dr_tail r) 0) = false
}.

Definition dis_line (r : dis_row) : bytes :=
  (dr_db r ++ 58 :: dr_dtxt r) ++ TAB :: dr_name r ++ TAB :: dr_qual r ++ TAB :: dr_htxt r ++ TAB :: dr_tail r.

Lemma last_app_ne (a b : bytes) : b <> [] -> last (a ++ b) 0 = last b 0.
Proof.
  intros Hb. induction a as [|x a IH]; [reflexivity|]. cbn [app].
  destruct (a ++ b) eqn:E; [destruct a; [cbn in E; congruence|discriminate]|]. exact IH.
Qed.

Lemma dis_line_components r : dis_row_ok r ->
  disease_components (dis_line r) = Ok (if dr_not r then None else Some (dr_dtxt r, dr_name r, dr_hid r)).
Proof.
  intros [Hd Hh Hf Hq [Ht [Htn Htw]]].
  inversion Hf as [|? ? [T1 _] Hf1]; subst. inversion Hf1 as [|? ? [T2 _] Hf2]; subst.
  inversion Hf2 as [|? ? [T3 _] Hf3]; subst. inversion Hf3 as [|? ? [T4 _] _]; subst.
  unfold disease_components.
  assert (trim (dis_line r) = dis_line r) as ->.
  { apply trim_id.
    - unfold dis_line, dr_db. destruct (dr_omim r); reflexivity.
    - unfold dis_line. rewrite !last_app_ne; try discriminate.
      change (TAB :: dr_name r ++ TAB :: dr_qual r ++ TAB :: dr_htxt r ++ TAB :: dr_tail r)
        with ((TAB :: dr_name r) ++ (TAB :: dr_qual r) ++ (TAB :: dr_htxt r) ++ [TAB] ++ dr_tail r).
      rewrite !last_app_ne; try assumption; try discriminate.
      all: try (intros E; apply app_eq_nil in E as [_ E]; try discriminate; try (apply app_eq_nil in E as [_ E]; try discriminate; try (apply app_eq_nil in E as [_ E]; try discriminate; apply app_eq_nil in E as [_ E]; contradiction))). }
  assert (~ In TAB (dr_db r ++ 58 :: dr_dtxt r)) as Tid.
  { intros Hin. apply in_app_or in Hin as [Hin|[Hin|Hin]]; [|discriminate|contradiction].
    unfold dr_db in Hin. destruct (dr_omim r); cbn in Hin; repeat (destruct Hin as [Hin|Hin]; [discriminate|]); exact Hin. }
  assert (~ In TAB (dr_qual r)) as Tq.
  { unfold dr_qual. destruct (dr_not r); [|exact T3]. intros Hin. cbn in Hin. repeat (destruct Hin as [Hin|Hin]; [discriminate|]). exact Hin. }
  unfold dis_line.
  rewrite (splitn_tab_piece 3 _ [] _ Tid). cbn [rev app].
  rewrite (splitn_tab_piece 2 _ [] _ T2). cbn [rev app].
  rewrite (splitn_tab_piece 1 _ [] _ Tq). cbn [rev app].
  rewrite (splitn_tab_piece 0 _ [] _ T4). cbn [rev app splitn_tab].
  assert (~ In 58 (dr_db r)) as Hc.
  { unfold dr_db. destruct (dr_omim r); intros Hin; cbn in Hin; repeat (destruct Hin as [Hin|Hin]; [discriminate|]); exact Hin. }
  rewrite (split_once1_first (dr_db r) [] (dr_dtxt r) 58 Hc). cbn [rev app].
  unfold dr_qual. destruct (dr_not r).
  - reflexivity.
  - rewrite (list_eqb_neq _ _ Hq). rewrite Hh. reflexivity.
Qed.

(* a line of the file: a comment / header / other-database line, or an OMIM / ORPHA row *)
Inductive hpoa_item := Skip (l : bytes) | Row (r : dis_row).

Definition item_line (i : hpoa_item) : bytes := match i with Skip l => l | Row r => dis_line r end.

Definition item_ok (i : hpoa_item) : Prop :=
  match i with
  | Skip l => plain_line l /\ l <> [] /\ starts_with s_OMIM l = false /\ starts_with s_ORPHA l = false
  | Row r => dis_row_ok r
  end.

Definition hpoa_step (o : onto) (i : hpoa_item) : res onto :=
  match i with
  | Skip _ => Ok o
  | Row r => if dr_not r then Ok o
             else b_annotate (if dr_omim r then KOmim else KOrpha) (dr_did r) (dr_name r) (dr_hid r) o
  end.

Lemma dis_line_plain r : dis_row_ok r -> plain_line (dis_line r) /\ dis_line r <> [].
Proof.
  intros [Hd Hh Hf Hq [Ht [Htn Htw]]].
  inversion Hf as [|? ? [_ [A1 B1]] Hf1]; subst. inversion Hf1 as [|? ? [_ [A2 B2]] Hf2]; subst.
  inversion Hf2 as [|? ? [_ [A3 B3]] Hf3]; subst. inversion Hf3 as [|? ? [_ [A4 B4]] _]; subst.
  split; [|unfold dis_line, dr_db; destruct (dr_omim r); discriminate].
  apply clean_plain. unfold dis_line.
  assert (clean (dr_db r)) as C0 by (unfold dr_db; destruct (dr_omim r); apply clean_const; reflexivity).
  assert (clean (dr_qual r)) as Cq by (unfold dr_qual; destruct (dr_not r); [apply clean_const; reflexivity|split; assumption]).
  assert (forall x l, x <> NL -> x <> CR -> clean l -> clean (x :: l)) as CC.
  { intros x l H1 H2 [L1 L2]. split; intros [E|Hin]; try congruence; auto. }
  apply clean_app; [apply clean_app; [exact C0|apply CC; [discriminate|discriminate|split; assumption]]|].
  apply CC; [discriminate|discriminate|]. apply clean_app; [split; assumption|].
  apply CC; [discriminate|discriminate|]. apply clean_app; [exact Cq|].
  apply CC; [discriminate|discriminate|]. apply clean_app; [split; assumption|].
  apply CC; [discriminate|discriminate|exact Ht].
Qed.

Definition hpoa_fn (o1 : onto) (line : bytes) : res onto :=
  let k := if starts_with s_OMIM line then Some KOmim
           else if starts_with s_ORPHA line then Some KOrpha else None in
  match k with
  | None => Ok o1
  | Some k =>
      do c <- disease_components line ;;
      match c with
      | None => Ok o1
      | Some (did, name, h) =>
          match parse_uint U32_MAX did with
          | Some d => b_annotate k d name h o1
          | None => Err ParseIntError
          end
      end
  end.

Lemma parse_hpoa_is_fold content o : parse_hpoa content o = foldM hpoa_fn (lines content) o.
Proof. reflexivity. Qed.

Lemma hpoa_line_step i o : item_ok i -> hpoa_fn o (item_line i) = hpoa_step o i.
Proof.
  unfold hpoa_fn. destruct i as [l|r]; cbn [item_ok item_line hpoa_step]; cbv zeta.
  - intros (_ & _ & -> & ->). reflexivity.
  - intros Hr. rewrite (dis_line_components r Hr). destruct Hr as [Hd Hh Hf Hq Ht].
    assert (starts_with s_OMIM (dis_line r) = dr_omim r) as ->.
    { unfold dis_line, dr_db. destruct (dr_omim r); reflexivity. }
    assert (dr_omim r = false -> starts_with s_ORPHA (dis_line r) = true) as Ho.
    { intros E. unfold dis_line, dr_db. rewrite E. reflexivity. }
    destruct (dr_omim r) eqn:Eo.
    + cbn [bind]. destruct (dr_not r); [reflexivity|]. rewrite Hd. reflexivity.
    + rewrite (Ho eq_refl). cbn [bind]. destruct (dr_not r); [reflexivity|]. rewrite Hd. reflexivity.
Qed.

(* THE ANNOTATION FILE phenotype.hpoa: any mix of comment / header / other-database lines and
   OMIM / ORPHA rows (NOT rows included), with or without a final newline *)
Theorem parse_hpoa_render items (final_nl : bool) o : items <> [] -> Forall item_ok items ->
  parse_hpoa (join_byte NL (map item_line items) ++ (if final_nl then [NL] else [])) o = foldM hpoa_step items o.
Proof.
  intros Hne Hall. rewrite parse_hpoa_is_fold.
  assert (map item_line items <> []) as Hne' by (destruct items; [congruence|discriminate]).
  assert (forall i, In i items -> plain_line (item_line i) /\ item_line i <> []) as Hpl.
  { intros i Hi. rewrite Forall_forall in Hall. specialize (Hall i Hi). destruct i as [l|r]; cbn [item_ok item_line] in *.
    - destruct Hall as (H1 & H2 & _). split; assumption.
    - apply dis_line_plain, Hall. }
  assert (lines (join_byte NL (map item_line items) ++ (if final_nl then [NL] else [])) = map item_line items) as ->.
  { assert (Forall plain_line (map item_line items)) as Hp.
    { apply Forall_forall. intros l Hl. apply in_map_iff in Hl as [i [<- Hi]]. apply (Hpl i Hi). }
    destruct final_nl; [apply lines_join_nl; assumption|]. rewrite app_nil_r. apply lines_join; try assumption.
    assert (In (last (map item_line items) []) (map item_line items)) as Hin by (apply last_In'; exact Hne').
    apply in_map_iff in Hin as [i [E Hi]]. rewrite <- E. apply (Hpl i Hi). }
  clear Hne Hne' Hpl. revert o. induction Hall as [|i items Hi _ IH]; intros o; cbn [map foldM]; [reflexivity|].
  rewrite (hpoa_line_step i o Hi). destruct (hpoa_step o i); cbn [bind]; auto.
Qed.

(* ---------------- the premises are met by rendered ids ---------------- *)

Lemma field_digits k n : field (digits k n).
Proof. repeat split; apply digits_no_byte; left; reflexivity. Qed.

Lemma field_show h : field (show h).
Proof.
  destruct (clean_show h) as [[H1 H2] _]. split; [|split; assumption].
  unfold show. intros Hin. apply in_app_or in Hin as [Hin|Hin].
  - cbn in Hin. repeat (destruct Hin as [Hin|Hin]; [discriminate|]). exact Hin.
  - revert Hin. apply digits_no_byte. left. reflexivity.
Qed.

Theorem rendered_gene_row_ok k g sym h mid extra : (0 < k)%nat -> g < 10 ^ N.of_nat k -> g <= U32_MAX -> h <= U32_MAX ->
  Forall field (sym :: mid :: extra) ->
  gene_row_ok (mkGeneRow (digits k g) g sym (show h) h mid extra).
Proof.
  intros Hk Hg Hgm Hh Hf. inversion Hf as [|? ? F1 Hf1]; subst. inversion Hf1 as [|? ? F2 Hf2]; subst.
  split; cbn [gr_gtxt gr_gid gr_sym gr_htxt gr_hid gr_mid gr_extra].
  - apply parse_uint_digits; assumption.
  - apply parse_show, Hh.
  - repeat (constructor; [first [apply field_digits|apply field_show|assumption]|]). exact Hf2.
Qed.

Theorem rendered_dis_row_ok om k d name isnot q h tail : (0 < k)%nat -> d < 10 ^ N.of_nat k -> d <= U32_MAX -> h <= U32_MAX ->
  field name -> field q -> q <> s_NOT -> clean tail -> tail <> [] -> is_ws (last tail 0) = false ->
  dis_row_ok (mkDisRow om (digits k d) d name isnot q (show h) h tail).
Proof.
  intros Hk Hd Hdm Hh Fn Fq Hq Ht Htn Htw. split; cbn [dr_dtxt dr_did dr_name dr_q dr_htxt dr_hid dr_tail].
  - apply parse_uint_digits; assumption.
  - apply parse_show, Hh.
  - repeat (constructor; [first [apply field_digits|apply field_show|assumption]|]). constructor.
  - exact Hq.
  - repeat split; try assumption; apply Ht.
Qed.

Example gene_file_example :
  let r := mkGeneRow (digits 4 2175) 2175 [70; 65; 78; 67; 65] (show 118) 118 [65; 98; 110] [[45]; [79; 77; 73; 77; 58; 49]] in
  gene_row_ok r /\ gene_header_ok s_ncbi_gene_id.
Proof.
  cbv zeta. split.
  - apply rendered_gene_row_ok; [lia|reflexivity|discriminate|discriminate|].
    repeat (constructor; [repeat split; intros Hin; cbn in Hin; repeat (destruct Hin as [Hin|Hin]; [discriminate|]); exact Hin|]). constructor.
  - split; [intros Hin; cbn in Hin; repeat (destruct Hin as [Hin|Hin]; [discriminate|]); exact Hin|reflexivity].
Qed.

Example hpoa_file_example :
  item_ok (Skip [35; 99]) /\
  item_ok (Row (mkDisRow false (digits 3 166) 166 [77; 97; 114] false [] (show 1250) 1250 [80; 77; 73; 68; 9; 84; 65; 83])).
Proof.
  split.
  - cbn [item_ok]. repeat split; try discriminate; try reflexivity.
    all: try (intros Hin; cbn in Hin; repeat (destruct Hin as [Hin|Hin]; [discriminate|]); exact Hin).
    all: try (intros r E; cbn in E; discriminate).
  - cbn [item_ok]. apply rendered_dis_row_ok; try lia; try reflexivity; try discriminate.
    all: try (apply clean_const; reflexivity).
    all: repeat split; intros Hin; cbn in Hin; repeat (destruct Hin as [Hin|Hin]; [discriminate|]); exact Hin.
Qed.
