(* SetsP.v — facts about the specification vocabulary Spec/Sets.v *)
From Coq Require Import Sorted Lia.
From HpoV Require Import Model.Base Model.Group Spec.Sets Proofs.GroupP.

Lemma set_ins_In x l z : In z (set_ins x l) <-> z = x \/ In z l.
Proof.
  induction l as [|y t IH]; cbn [set_ins]; [cbn; intuition|].
  destruct (N.ltb_spec x y); [cbn; intuition|].
  destruct (N.eqb_spec x y) as [->|Hne]; [cbn; intuition|].
  cbn [In]. rewrite IH. intuition.
Qed.

Lemma set_ins_sorted x l : sorted l -> sorted (set_ins x l).
Proof.
  induction l as [|y t IH]; cbn [set_ins]; intros Hs.
  - apply sorted_cons; constructor.
  - apply sorted_cons_inv in Hs as [Ht Hy].
    destruct (N.ltb_spec x y) as [Hlt|Hge].
    + apply sorted_cons; [apply sorted_cons; auto|].
      constructor; [exact Hlt|]. eapply Forall_impl; [|exact Hy]. cbn. intros; lia.
    + destruct (N.eqb_spec x y) as [->|Hne]; [apply sorted_cons; auto|].
      apply sorted_cons; [auto|]. rewrite Forall_forall in *. intros z Hz.
      apply set_ins_In in Hz as [->|Hz]; [lia|auto].
Qed.

Lemma set_of_sorted l : sorted (set_of l).
Proof. induction l; cbn; [constructor|apply set_ins_sorted; auto]. Qed.

Lemma set_of_In l z : In z (set_of l) <-> In z l.
Proof. induction l as [|x t IH]; cbn; [tauto|]. rewrite set_ins_In, IH. intuition. Qed.

Lemma set_union_In a b z : In z (set_union a b) <-> In z a \/ In z b.
Proof. unfold set_union. rewrite set_of_In, in_app_iff. tauto. Qed.
Lemma set_union_sorted a b : sorted (set_union a b).
Proof. apply set_of_sorted. Qed.

Lemma set_inter_In a b z : In z (set_inter a b) <-> In z a /\ In z b.
Proof. unfold set_inter. rewrite filter_In, set_of_In, mem_In. tauto. Qed.
Lemma set_inter_sorted a b : sorted (set_inter a b).
Proof. apply filter_sorted, set_of_sorted. Qed.

Lemma set_diff_In a b z : In z (set_diff a b) <-> In z a /\ ~ In z b.
Proof.
  unfold set_diff. rewrite filter_In, set_of_In, negb_true_iff, <- not_true_iff_false, mem_In. tauto.
Qed.
Lemma set_diff_sorted a b : sorted (set_diff a b).
Proof. apply filter_sorted, set_of_sorted. Qed.

Lemma list_eqb_refl l : list_eqb l l = true.
Proof. induction l; cbn; [reflexivity|]. rewrite N.eqb_refl; auto. Qed.

Lemma list_eqb_eq a : forall b, list_eqb a b = true <-> a = b.
Proof.
  induction a as [|x a IH]; intros [|y b]; cbn; try (split; [discriminate|congruence]); [tauto|].
  rewrite andb_true_iff, N.eqb_eq, IH. split; [intros [-> ->]; reflexivity|intros [= -> ->]; auto].
Qed.

Lemma ascb_sorted l : ascb l = true <-> sorted l.
Proof.
  induction l as [|x t IH]; [cbn; split; [constructor|reflexivity]|].
  destruct t as [|y t'].
  - cbn. split; [intros _; apply sorted_cons; constructor|reflexivity].
  - change (ascb (x :: y :: t')) with ((x <? y) && ascb (y :: t')).
    rewrite andb_true_iff, N.ltb_lt, IH. split.
    + intros [Hxy Hs]. apply sorted_cons; [auto|]. constructor; [auto|].
      apply sorted_cons_inv in Hs as [_ Hy]. eapply Forall_impl; [|exact Hy]. cbn; intros; lia.
    + intros Hs. apply sorted_cons_inv in Hs as [Hs Hx]. split; [|auto]. inversion Hx; auto.
Qed.

Lemma subsetb_spec a b : subsetb a b = true <-> (forall x, In x a -> In x b).
Proof.
  unfold subsetb. rewrite forallb_forall. split; intros H x Hx; specialize (H x Hx);
    [apply mem_In|apply mem_In]; auto.
Qed.

(* the model's group built from a list is the canonical set of that list *)
Lemma g_from_list_set_of l : g_from_list l = set_of l.
Proof.
  apply sorted_ext; [apply g_from_list_sorted|apply set_of_sorted|].
  intros z. rewrite g_from_list_In, set_of_In. tauto.
Qed.
