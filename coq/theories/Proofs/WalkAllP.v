(* WalkAllP.v — C15 "no dangling ids" on the other construction paths: the complete walk through the
   read API returns on every JAX-loaded ontology (closed hp.obo), on every sub-ontology of an
   ontology with exact caches, and on every accepted well-formed binary file whose records name
   stored terms. *)
From Coq Require Import Lia Relations Sorted.
From HpoV Require Import Gen.Consts Model.Base Model.Group Model.Onto Model.Query Model.Dump Model.Script Model.Binary
  Model.TermId Model.Text Model.SubOnt
  Proofs.GroupP Proofs.BaseP Proofs.ClosureP Proofs.AcyclicP Proofs.DistP Proofs.QgoodP Proofs.LinkP Proofs.RecordsP Proofs.C03W
  Proofs.SectionP Proofs.RoundTripP Proofs.AnnotP Proofs.BuilderAnnotP Proofs.ReloadP Proofs.RoundTripAllP
  Proofs.SubLinksP Proofs.SubAnnotP Proofs.C09P Proofs.JaxP Proofs.RoundTripSrcP Proofs.DecodeAnyP Proofs.JaxDescribesP Proofs.WalkP.

Theorem jax_walk_returns icf tr obo genes hpoa o : obo_closed obo -> load_jax icf tr obo genes hpoa = Ok o ->
  exists d, dump_onto o = Ok d.
Proof.
  intros Cl H. apply wellformed_walk_returns.
  - apply (load_jax_src icf tr obo genes hpoa o Cl H).
  - apply (load_jax_ok icf tr obo genes hpoa o Cl H).
  - apply (load_jax_direct_in_keys icf tr obo genes hpoa o Cl H).
Qed.

Lemma sub_annotate_DK k o ids pheno b b' : DK b -> sub_annotate k o ids pheno b = Ok b' -> DK b'.
Proof.
  intros D H. rewrite sub_annotate_unfold in H. refine (foldM_inv _ DK _ _ b b' D H). intros s r s' _ Hs Ds.
  destruct (g_is_empty _); [injection Hs as <-; exact Ds|].
  refine (foldM_inv _ DK _ _ s s' Ds Hs). intros s2 t s3 _ H3 D2. apply (DK_annotate _ _ _ _ s2 s3 D2 H3).
Qed.

Theorem sub_ontology_direct_in_keys icf o root leaves o' : qgood o ->
  (forall l, In l leaves -> In l (ar_keys (o_arena o))) -> sub_ontology icf o root leaves = Ok o' ->
  forall k r d, In r (o_records k o') -> In d (a_hpos r) -> In d (ar_keys (o_arena o')).
Proof.
  intros G Hl H. destruct (sub_ontology_src icf o root leaves o' G Hl H) as (_ & _ & Nd).
  destruct (sub_ontology_stages icf o root leaves o' G Hl H) as (ids & terms & b2 & b3 & b4 & b5 & b6 & Eids & Ft & Bi2 & S2 & K2 & R2 & Hst).
  cbv zeta in Hst. set (pheno := g_from_list _) in *. destruct Hst as (E3 & E4 & E5 & E6 & ->).
  assert (DK b2) as D2 by (intros k g d Hd; unfold direct in Hd; rewrite (R2 k) in Hd; destruct Hd).
  pose proof (sub_annotate_DK _ _ _ _ _ _ D2 E3) as D3. pose proof (sub_annotate_DK _ _ _ _ _ _ D3 E4) as D4.
  pose proof (sub_annotate_DK _ _ _ _ _ _ D4 E5) as D5.
  assert (forall k, o_records k (b_build_minimal b6) = o_records k b5) as R6
    by (intros k; rewrite <- (calculate_ic_records icf b5 b6 E6 k); destruct k; reflexivity).
  assert (ar_keys (o_arena (b_build_minimal b6)) = ar_keys (o_arena b5)) as Ek
    by (rewrite build_minimal_arena; apply same_struct_keys, (calculate_ic_same_struct icf b5 b6 E6)).
  intros k r d Hr Hd. rewrite Ek. apply (D5 k (a_id r) d). unfold direct, an_find.
  rewrite R6 in Hr. specialize (Nd k). rewrite R6 in Nd. rewrite (find_by_unique a_id _ r Nd Hr). exact Hd.
Qed.

Theorem sub_walk_returns icf o root leaves o' : qgood o ->
  (forall l, In l leaves -> In l (ar_keys (o_arena o))) -> sub_ontology icf o root leaves = Ok o' ->
  exists d, dump_onto o' = Ok d.
Proof.
  intros G Hl H. apply wellformed_walk_returns.
  - apply (sub_ontology_src icf o root leaves o' G Hl H).
  - destruct (sub_ontology_annotations icf o root leaves o' G Hl H) as (ids & terms & _ & _ & Hst). cbv zeta in Hst. apply Hst.
  - apply (sub_ontology_direct_in_keys icf o root leaves o' G Hl H).
Qed.

Theorem decoded_walk_returns icf input o : decode icf input = Ok o -> bin_closed input -> bin_distinct input ->
  (forall k r d, In r (o_records k o) -> In d (a_hpos r) -> In d (ar_keys (o_arena o))) ->
  exists d, dump_onto o = Ok d.
Proof.
  intros H Cl Di DKo. destruct (decode_any_ok icf input o H Cl Di) as (S & _ & A & _).
  apply (wellformed_walk_returns o S A DKo).
Qed.
