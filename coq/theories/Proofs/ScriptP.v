(* ScriptP.v — a Builder call that returns Err leaves the builder unchanged, so the ontology finally
   built equals the one built from the successful calls alone (Model/Script.v run_builder,
   Run/C15.v filter_script).  In the transcription a failing call has no state to modify — the
   theorem says what that buys at the level of whole call histories. *)
From Coq Require Import Lia.
From HpoV Require Import Gen.Consts Model.Base Model.Group Model.Onto Model.Query Model.Dump Model.Script
  Run.World Run.C01 Run.C02 Run.Ser Run.C15.

Section Ops.
  Context {Op : Type}.
  Variable stepf : onto -> Op -> res onto.

  Definition opstep (st : onto * list N) (op : Op) : res (onto * list N) :=
    let (o1, codes) := st in
    do r <- step_keep (stepf o1 op) o1 ;; let (o2, c) := r : onto * N in Ok (o2, codes ++ [c]).

  Lemma run_ops_is_fold ops o : run_ops (fun o op => step_keep (stepf o op) o) ops o = foldM opstep ops (o, []).
  Proof. reflexivity. Qed.

  (* the codes are appended one per call; the calls with code 0 alone reproduce the final state *)
  Lemma fold_filter ops : forall o0 pre o' codes,
    foldM opstep ops (o0, pre) = Ok (o', codes) ->
    exists cs, codes = pre ++ cs /\ length cs = length ops /\
      forall pre', exists zs, foldM opstep (fst (keep_ok ops cs)) (o0, pre') = Ok (o', pre' ++ zs)
                              /\ Forall (fun c => c = 0) zs.
  Proof.
    induction ops as [|op ops IH]; intros o0 pre o' codes H; cbn [foldM] in H.
    - injection H as <- <-. exists []. rewrite app_nil_r. split; [reflexivity|]. split; [reflexivity|].
      intros pre'. exists []. cbn [keep_ok fst foldM]. rewrite app_nil_r. split; [reflexivity|constructor].
    - unfold opstep at 1 in H.
      destruct (stepf o0 op) as [o1|e| |] eqn:Es; cbn [step_keep bind] in H; try discriminate.
      + (* the call succeeded: code 0, state o1 *)
        destruct (IH o1 (pre ++ [0]) o' codes H) as [cs [Ec [Hl Hk]]].
        exists (0 :: cs). split; [rewrite Ec, <- app_assoc; reflexivity|]. split; [cbn; lia|].
        intros pre'. cbn [keep_ok]. destruct (keep_ok ops cs) as [kept rest] eqn:Ek. cbn [N.eqb fst].
        cbn [foldM]. unfold opstep at 1. rewrite Es. cbn [step_keep bind].
        destruct (Hk (pre' ++ [0])) as [zs [Hz Hall]]. rewrite ?Ek in Hz. cbn [fst] in Hz.
        exists (0 :: zs). rewrite Hz, <- app_assoc. split; [reflexivity|constructor; [reflexivity|exact Hall]].
      + (* the call failed: the state is o0 again, the code is not 0 *)
        destruct (IH o0 (pre ++ [code (@Err onto e)]) o' codes H) as [cs [Ec [Hl Hk]]].
        exists (code (@Err onto e) :: cs). split; [rewrite Ec, <- app_assoc; reflexivity|]. split; [cbn; lia|].
        intros pre'. cbn [keep_ok]. destruct (keep_ok ops cs) as [kept rest] eqn:Ek.
        assert (code (@Err onto e) =? 0 = false) as -> by (destruct e; reflexivity). cbn [fst].
        destruct (Hk pre') as [zs [Hz Hall]]. rewrite ?Ek in Hz. cbn [fst] in Hz. exists zs. auto.
  Qed.
End Ops.

(* add_parent histories: dropping the calls that returned Err changes nothing *)
Theorem failed_add_parent_calls_leave_no_trace (ops : list (N * N)) o0 o' codes :
  run_ops (fun o (pc : N * N) => step_keep (b_add_parent (fst pc) (snd pc) o) o) ops o0 = Ok (o', codes) ->
  length codes = length ops /\
  exists zs, run_ops (fun o (pc : N * N) => step_keep (b_add_parent (fst pc) (snd pc) o) o)
                     (fst (keep_ok ops codes)) o0 = Ok (o', zs) /\ Forall (fun c => c = 0) zs.
Proof.
  intros H. rewrite (run_ops_is_fold (fun o (pc : N * N) => b_add_parent (fst pc) (snd pc) o)) in H.
  destruct (fold_filter _ ops o0 [] o' codes H) as [cs [Ec [Hl Hk]]]. cbn [app] in Ec. subst cs.
  split; [exact Hl|]. destruct (Hk []) as [zs [Hz Hall]]. exists zs. split; [exact Hz|exact Hall].
Qed.

Lemma foldM_ext {A S} (f g : S -> A -> res S) l : (forall s a, f s a = g s a) -> forall s, foldM f l s = foldM g l s.
Proof.
  intros H. induction l as [|a l IH]; intros s; cbn [foldM]; [reflexivity|]. rewrite H.
  destruct (g s a); cbn [bind]; auto.
Qed.

(* add_gene / add_*_disease / annotate_* histories *)
Definition annot_stepf (o : onto) (op : annot_op) : res onto :=
  let '(tag, id, tid, name) := op in
  if tag <? 3 then Ok (b_add_record (kind_of tag) name id o) else b_annotate (kind_of tag) id name tid o.

Lemma run_annot_op_is_step o op : run_annot_op o op = step_keep (annot_stepf o op) o.
Proof. destruct op as [[[tag id] tid] name]. unfold run_annot_op, annot_stepf. destruct (tag <? 3); reflexivity. Qed.

Theorem failed_annotate_calls_leave_no_trace (ops : list annot_op) o0 o' codes :
  run_ops run_annot_op ops o0 = Ok (o', codes) ->
  length codes = length ops /\
  exists zs, run_ops run_annot_op (fst (keep_ok ops codes)) o0 = Ok (o', zs) /\ Forall (fun c => c = 0) zs.
Proof.
  intros H.
  assert (forall l o, run_ops run_annot_op l o = foldM (opstep annot_stepf) l (o, [])) as R.
  { intros l o. unfold run_ops. apply foldM_ext. intros [o1 cs] op. unfold opstep. rewrite run_annot_op_is_step. reflexivity. }
  rewrite R in H. destruct (fold_filter _ ops o0 [] o' codes H) as [cs [Ec [Hl Hk]]]. cbn [app] in Ec. subst cs.
  split; [exact Hl|]. destruct (Hk []) as [zs [Hz Hall]]. exists zs. rewrite R. split; [exact Hz|exact Hall].
Qed.
