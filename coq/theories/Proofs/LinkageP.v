(* LinkageP.v — the clustering loop itself (Model/Linkage.v, transcription of src/stats/linkage.rs):
   a run is a sequence of rounds; every round merges the entry of the distance matrix that
   closest_clusters returns (a minimum, C17P.closest_is_minimum) at that distance, with the sizes
   added; the matrix always holds exactly the pairs of live nodes, so the run ends with exactly
   n-1 merges and one live node. *)
From Coq Require Import Lia Arith PeanoNat List.
From HpoV Require Import Model.Base Model.Group Model.Linkage Proofs.BaseP Proofs.DistP Proofs.QgoodP Proofs.C17P Proofs.C04P.
Import ListNotations.
Local Open Scope nat_scope.

Section L.
  Variable F : Type.
  Variable flt fgt : F -> F -> bool.
  Variable mean : F -> F -> F.
  Variable dist : group -> group -> F.

  Notation lstate := (lstate F).
  Notation dmat := (dmat F).

  (* ---------------- a run is a sequence of rounds ---------------- *)

  Inductive steps (round : lstate -> res (option lstate)) : lstate -> lstate -> Prop :=
  | steps_done s : round s = Ok None -> steps round s s
  | steps_more s s' sf : round s = Ok (Some s') -> steps round s' sf -> steps round s sf.

  Lemma loop_steps round fuel : forall s sf, loop F fuel round s = Ok sf -> steps round s sf.
  Proof.
    induction fuel as [|f IH]; intros s sf H; [discriminate|]. cbn [loop] in H.
    destruct (round s) as [[s'|]| | |] eqn:E; cbn [bind] in H; try discriminate.
    - eapply steps_more; [exact E|apply IH, H].
    - injection H as <-. apply steps_done, E.
  Qed.

  (* ---------------- association-list matrix ---------------- *)

  Definition keq (k k' : nat * nat) : bool := Nat.eqb (fst k') (fst k) && Nat.eqb (snd k') (snd k).

  Lemma keq_true k k' : keq k k' = true -> k' = k.
  Proof. unfold keq. intros H. apply andb_true_iff in H as [E1 E2]. apply Nat.eqb_eq in E1, E2. destruct k, k'; cbn in *; congruence. Qed.
  Lemma keq_refl k : keq k k = true.
  Proof. unfold keq. rewrite !Nat.eqb_refl. reflexivity. Qed.

  Lemma keq_pair k k' : keq k (fst k', snd k') = keq k k'.
  Proof. reflexivity. Qed.

  Definition repl (k' : nat * nat) (v : F) (e : nat * nat * F) : nat * nat * F :=
    if Nat.eqb (fst (fst e)) (fst k') && Nat.eqb (snd (fst e)) (snd k') then (fst k', snd k', v) else e.

  Lemma dm_get_cons k a b x (m : dmat) : dm_get F k ((a, b, x) :: m) = if keq k (a, b) then Some x else dm_get F k m.
  Proof. reflexivity. Qed.

  Lemma dm_get_map k k' v (m : dmat) : dm_get F k (map (repl k' v) m) =
    match dm_get F k m with
    | Some w => if keq k k' then Some v else Some w
    | None => None
    end.
  Proof.
    induction m as [|[[a b] x] m IH]; [reflexivity|]. cbn [map]. unfold repl at 1. cbn [fst snd].
    destruct (Nat.eqb a (fst k') && Nat.eqb b (snd k')) eqn:Ek'.
    - apply andb_true_iff in Ek' as [E1 E2]. apply Nat.eqb_eq in E1, E2. subst a b.
      rewrite !dm_get_cons, !keq_pair.
      destruct (keq k k') eqn:E; [reflexivity|exact IH].
    - rewrite !dm_get_cons. destruct (keq k (a, b)) eqn:E; [|exact IH].
      apply keq_true in E. subst k. unfold keq. cbn [fst snd]. rewrite Nat.eqb_sym, (Nat.eqb_sym (snd k')), Ek'. reflexivity.
  Qed.

  Lemma dm_get_app_single k k' v (m : dmat) : dm_get F k (m ++ [(fst k', snd k', v)]) =
    match dm_get F k m with Some w => Some w | None => if keq k k' then Some v else None end.
  Proof.
    induction m as [|[[a b] x] m IH]; cbn [app].
    - rewrite dm_get_cons, keq_pair. reflexivity.
    - rewrite !dm_get_cons. destruct (keq k (a, b)); [reflexivity|exact IH].
  Qed.

  Lemma dm_get_insert k k' v (m : dmat) :
    dm_get F k (dm_insert F k' v m) = if keq k k' then Some v else dm_get F k m.
  Proof.
    unfold dm_insert. destruct (dm_get F k' m) as [w|] eqn:E.
    - change (map _ m) with (map (repl k' v) m). rewrite dm_get_map. destruct (keq k k') eqn:Ek.
      + apply keq_true in Ek. subst k'. rewrite E. reflexivity.
      + destruct (dm_get F k m); reflexivity.
    - rewrite dm_get_app_single. destruct (keq k k') eqn:Ek.
      + apply keq_true in Ek. subst k'. rewrite E. reflexivity.
      + destruct (dm_get F k m); reflexivity.
  Qed.

  Lemma dm_get_retain i j k (m : dmat) :
    dm_get F k (retain_not F i j m) =
      if negb (Nat.eqb (fst k) i) && negb (Nat.eqb (fst k) j) && negb (Nat.eqb (snd k) i) && negb (Nat.eqb (snd k) j)
      then dm_get F k m else None.
  Proof.
    unfold retain_not. induction m as [|[[a b] x] m IH]; cbn [filter dm_get].
    - destruct (_ && _); reflexivity.
    - destruct (negb (Nat.eqb a i) && negb (Nat.eqb a j) && negb (Nat.eqb b i) && negb (Nat.eqb b j)) eqn:Ekeep; cbn [dm_get fst snd].
      + destruct (Nat.eqb a (fst k) && Nat.eqb b (snd k)) eqn:Ek; [|exact IH].
        apply andb_true_iff in Ek as [E1 E2]. apply Nat.eqb_eq in E1, E2. subst a b. rewrite Ekeep. reflexivity.
      + destruct (Nat.eqb a (fst k) && Nat.eqb b (snd k)) eqn:Ek; [|exact IH].
        apply andb_true_iff in Ek as [E1 E2]. apply Nat.eqb_eq in E1, E2. subst a b. rewrite Ekeep in IH |- *. exact IH.
  Qed.

  (* ---------------- set_nth ---------------- *)

  Lemma set_nth_length {A} n (x : A) l : length (set_nth n x l) = length l.
  Proof. revert n. induction l as [|y l IH]; intros [|n]; cbn [set_nth length]; auto. Qed.

  Lemma set_nth_get {A} n (x : A) l : forall m, nth_error (set_nth n x l) m =
    if Nat.eqb m n && Nat.ltb n (length l) then Some x else nth_error l m.
  Proof.
    revert n. induction l as [|y l IH]; intros n m.
    - destruct n; cbn [set_nth length]; rewrite andb_false_r; reflexivity.
    - destruct n as [|n]; cbn [set_nth].
      + destruct m as [|m]; reflexivity.
      + destruct m as [|m]; cbn [nth_error]; [reflexivity|]. rewrite IH. reflexivity.
  Qed.

  (* ---------------- live nodes ---------------- *)

  Definition live {A} (sets : list (option A)) (x : nat) : Prop := exists g, nth_error sets x = Some (Some g).

  Fixpoint nlive {A} (l : list (option A)) : nat :=
    match l with [] => 0 | Some _ :: t => S (nlive t) | None :: t => nlive t end.

  Lemma nlive_app {A} (l1 l2 : list (option A)) : nlive (l1 ++ l2) = nlive l1 + nlive l2.
  Proof. induction l1 as [|[x|] l1 IH]; cbn [app nlive]; lia. Qed.

  Lemma nlive_set_none {A} (l : list (option A)) : forall i g, nth_error l i = Some (Some g) -> S (nlive (set_nth i None l)) = nlive l.
  Proof.
    induction l as [|y l IH]; intros [|i] g H; cbn [nth_error] in H; try discriminate.
    - injection H as ->. reflexivity.
    - cbn [set_nth]. destruct y; cbn [nlive]; rewrite <- (IH i g H); reflexivity.
  Qed.

  Lemma live_lt {A} (sets : list (option A)) x : live sets x -> x < length sets.
  Proof. intros [g H]. apply nth_error_Some. rewrite H. discriminate. Qed.

  Lemma live_set_none {A} (sets : list (option A)) i x : live (set_nth i None sets) x <-> live sets x /\ x <> i.
  Proof.
    unfold live. rewrite set_nth_get. destruct (Nat.eqb_spec x i) as [->|Hne]; cbn [andb].
    - destruct (Nat.ltb_spec i (length sets)).
      + split; [intros [g Hg]; discriminate|intros [_ Hf]; congruence].
      + split; [intros [g Hg]|intros [_ Hf]; congruence]. exfalso. assert (nth_error sets i <> None) as Hn by (rewrite Hg; discriminate).
        apply nth_error_Some in Hn. lia.
    - split; [intros H; split; [exact H|exact Hne]|intros [H _]; exact H].
  Qed.

  Lemma live_app_single {A} (sets : list (option A)) (y : option A) x :
    live (sets ++ [y]) x <-> live sets x \/ (x = length sets /\ exists g, y = Some g).
  Proof.
    unfold live. destruct (Nat.lt_ge_cases x (length sets)) as [Hlt|Hge].
    - rewrite nth_error_app1 by exact Hlt. split; [auto|]. intros [H|[E _]]; [exact H|lia].
    - rewrite nth_error_app2 by exact Hge. split.
      + intros [g Hg]. right. destruct (x - length sets) as [|k] eqn:Ek; cbn [nth_error] in Hg; [|destruct k; discriminate].
        injection Hg as ->. split; [lia|eauto].
      + intros [[g Hg]|[-> [g ->]]].
        * exfalso. assert (nth_error sets x <> None) as Hn by (rewrite Hg; discriminate). apply nth_error_Some in Hn. lia.
        * exists g. rewrite Nat.sub_diag. reflexivity.
  Qed.

  Lemma In_combine_seq {A} (l : list A) : forall start a y, In (a, y) (combine (seq start (length l)) l) <-> (start <= a /\ nth_error l (a - start) = Some y).
  Proof.
    induction l as [|z l IH]; intros start a y; cbn [length seq combine In].
    - split; [intros []|intros [_ H]; destruct (a - start); discriminate].
    - rewrite IH. split.
      + intros [E|[Hle Hn]]; [injection E as <- <-; split; [lia|rewrite Nat.sub_diag; reflexivity]|].
        split; [lia|]. replace (a - start) with (S (a - S start)) by lia. exact Hn.
      + intros [Hle Hn]. destruct (Nat.eq_dec a start) as [->|Hne].
        * rewrite Nat.sub_diag in Hn. injection Hn as ->. left. reflexivity.
        * right. split; [lia|]. replace (a - start) with (S (a - S start)) in Hn by lia. exact Hn.
  Qed.

  Lemma In_dm_get (m : dmat) a b v : In (a, b, v) m -> dm_get F (a, b) m <> None.
  Proof.
    induction m as [|[[x y] w] m IH]; intros H; [destruct H|]. rewrite dm_get_cons.
    destruct (keq (a, b) (x, y)) eqn:E; [discriminate|]. destruct H as [H|H]; [|apply IH, H].
    injection H as -> -> ->. rewrite keq_refl in E. discriminate.
  Qed.

  Lemma closest_In (m : dmat) e : closest F flt m = Some e -> In e m.
  Proof.
    unfold closest. destruct m as [|x t]; [discriminate|]. intros [= <-].
    assert (forall (t : list (nat * nat * F)) (x : nat * nat * F), In (fold_left (fun mx e => if flt (snd e) (snd mx) then e else mx) t x) (x :: t)) as K.
    { clear. induction t as [|y t IH]; intros x; cbn [fold_left]; [left; reflexivity|].
      destruct (flt (snd y) (snd x)); [right; apply IH|]. destruct (IH x) as [H|H]; [left; exact H|right; right; exact H]. }
    apply K.
  Qed.

  (* ---------------- the matrix holds exactly the pairs of live nodes ---------------- *)

  Definition keys_ok {A} (sets : list (option A)) (m : dmat) : Prop :=
    forall a b, dm_get F (a, b) m <> None <-> (a < b /\ live sets a /\ live sets b).

  Lemma keys_after_merge {A} (sets : list (option A)) (m m' : dmat) i j (u : A) :
    keys_ok sets m -> live sets i -> live sets j -> i <> j ->
    let sets1 := set_nth j None (set_nth i None sets) in
    (forall a b, dm_get F (a, b) m' <> None <->
       (a <> i /\ a <> j /\ b <> i /\ b <> j /\ dm_get F (a, b) m <> None) \/ (b = length sets /\ live sets1 a)) ->
    keys_ok (sets1 ++ [Some u]) m'.
  Proof.
    intros K Li Lj Hij sets1 Hm a b. rewrite Hm, (K a b), !live_app_single.
    assert (length sets1 = length sets) as El by (unfold sets1; rewrite !set_nth_length; reflexivity).
    assert (forall x, live sets1 x <-> live sets x /\ x <> i /\ x <> j) as L1.
    { intros x. unfold sets1. rewrite !live_set_none. tauto. }
    rewrite El, !L1. split.
    - intros [(Ha1 & Ha2 & Hb1 & Hb2 & Hab & La & Lb)|(-> & La & Ha1 & Ha2)].
      + split; [exact Hab|]. split; left; auto.
      + split; [apply (live_lt sets a La)|]. split; [left; auto|right; split; [reflexivity|eauto]].
    - intros (Hab & [(La & Ha1 & Ha2)|(-> & _)] & [(Lb & Hb1 & Hb2)|(-> & _)]).
      + left. auto 10.
      + right. auto.
      + exfalso. pose proof (live_lt sets b Lb). lia.
      + lia.
  Qed.

  (* the inserts of one round of arithmetic_cluster *)
  Lemma arith_fold_keys mt i j newi (l : list (nat * option group)) : forall (m m' : dmat),
    foldM (fun (m : dmat) (p : nat * option group) =>
             let (idx, st) := p in
             if Nat.eqb idx i || Nat.eqb idx j then Ok m
             else match st with
                  | None => Ok m
                  | Some _ =>
                      let k0 := if Nat.ltb idx i then (idx, i) else (i, idx) in
                      let k1 := if Nat.ltb idx j then (idx, j) else (j, idx) in
                      do v <- arith F flt fgt mean mt (dm_get F k0 m) (dm_get F k1 m) ;;
                      Ok (dm_insert F (idx, newi) v m)
                  end) l m = Ok m' ->
    forall a b, dm_get F (a, b) m' <> None <->
      dm_get F (a, b) m <> None \/ (b = newi /\ a <> i /\ a <> j /\ exists g, In (a, Some g) l).
  Proof.
    induction l as [|[idx st] l IH]; intros m m' H a b; cbn [foldM] in H.
    - injection H as <-. split; [auto|]. intros [Hx|(_ & _ & _ & g & Hf)]; [exact Hx|destruct Hf].
    - destruct (Nat.eqb idx i || Nat.eqb idx j) eqn:Eij; cbn [bind] in H.
      + rewrite (IH m m' H a b). split; [intros [Hx|(Eb & H1 & H2 & g & Hin)]; [auto|right; split; [exact Eb|split; [exact H1|split; [exact H2|exists g; right; exact Hin]]]]|].
        intros [Hx|(Eb & H1 & H2 & g & [E|Hin])]; [auto| |right; eauto 8].
        injection E as -> ->. apply orb_true_iff in Eij as [E|E]; apply Nat.eqb_eq in E; congruence.
      + apply orb_false_iff in Eij as [E1 E2]. apply Nat.eqb_neq in E1, E2.
        destruct st as [g0|]; cbn [bind] in H.
        * destruct (arith F flt fgt mean mt _ _) as [v| | |]; cbn [bind] in H; try discriminate.
          rewrite (IH _ m' H a b), dm_get_insert. split.
          -- intros [Hx|(Eb & H1 & H2 & g & Hin)]; [|right; split; [exact Eb|split; [exact H1|split; [exact H2|exists g; right; exact Hin]]]].
             destruct (keq (a, b) (idx, newi)) eqn:Ek; [|left; exact Hx].
             apply keq_true in Ek. injection Ek as -> ->. right. split; [reflexivity|]. split; [exact E1|]. split; [exact E2|]. exists g0. left. reflexivity.
          -- intros [Hx|(Eb & H1 & H2 & g & [E|Hin])].
             ++ left. destruct (keq (a, b) (idx, newi)); [discriminate|exact Hx].
             ++ injection E as -> _. subst b. left. rewrite keq_refl. discriminate.
             ++ right. eauto 8.
        * rewrite (IH m m' H a b). split; [intros [Hx|(Eb & H1 & H2 & g & Hin)]; [auto|right; split; [exact Eb|split; [exact H1|split; [exact H2|exists g; right; exact Hin]]]]|].
          intros [Hx|(Eb & H1 & H2 & g & [E|Hin])]; [auto|discriminate|right; eauto 8].
  Qed.

  (* ---------------- the invariant of the loop ---------------- *)

  Record LI (s : lstate) : Prop := {
    li_len : length (l_sets F s) = l_n F s + length (l_clusters F s);
    li_keys : keys_ok (l_sets F s) (l_dm F s);
    li_cnt : nlive (l_sets F s) + length (l_clusters F s) = l_n F s
  }.

  Definition merged (s s' : lstate) (i j : nat) (d : F) : Prop :=
    closest F flt (l_dm F s) = Some (i, j, d) /\ i < j /\ live (l_sets F s) i /\ live (l_sets F s) j /\
    (exists a b, size_of F (l_n F s) (l_clusters F s) i = Ok a /\ size_of F (l_n F s) (l_clusters F s) j = Ok b /\
                 l_clusters F s' = l_clusters F s ++ [(i, j, d, a + b)]) /\
    l_n F s' = l_n F s.

  Lemma new_cluster_inv s i j d cl : new_cluster F s i j d = Ok cl ->
    exists a b, size_of F (l_n F s) (l_clusters F s) i = Ok a /\ size_of F (l_n F s) (l_clusters F s) j = Ok b /\
                cl = l_clusters F s ++ [(i, j, d, a + b)].
  Proof.
    unfold new_cluster. intros H. apply bind_Ok' in H as [a [Ha H]]. apply bind_Ok' in H as [b [Hb H]]. injection H as <-. eauto 6.
  Qed.

  Lemma closest_live s i j d : LI s -> closest F flt (l_dm F s) = Some (i, j, d) ->
    i < j /\ live (l_sets F s) i /\ live (l_sets F s) j.
  Proof. intros I H. apply (li_keys s I i j). apply (In_dm_get _ i j d). apply (closest_In _ _ H). Qed.

  (* ONE ROUND OF single / complete / average LINKAGE *)
  Theorem arith_round_spec mt s s' : LI s -> arith_round F flt fgt mean mt s = Ok (Some s') ->
    exists i j d, merged s s' i j d /\ LI s'.
  Proof.
    intros I H. unfold arith_round in H.
    destruct (closest F flt (l_dm F s)) as [[[i j] d]|] eqn:Ec; [|discriminate].
    destruct (closest_live s i j d I Ec) as (Hij & Li & Lj).
    destruct (new_cluster F s i j d) as [cl| | |] eqn:En; cbn [bind] in H; try discriminate.
    destruct (new_cluster_inv s i j d cl En) as (a & b & Sa & Sb & Ecl).
    destruct (negb _); [discriminate|].
    set (sets1 := set_nth j None (set_nth i None (l_sets F s))) in *.
    match type of H with context [foldM ?f ?l (l_dm F s)] => destruct (foldM f l (l_dm F s)) as [dm2| | |] eqn:Ef end; cbn [bind] in H; try discriminate.
    injection H as <-. exists i, j, d. split.
    - unfold merged. cbn [l_clusters l_n]. repeat (split; [assumption|]). split; [exists a, b; auto|reflexivity].
    - destruct Li as [gi Hgi]. assert (length sets1 = length (l_sets F s)) as El by (unfold sets1; rewrite !set_nth_length; reflexivity).
      constructor; cbn [l_sets l_dm l_n l_clusters].
      + rewrite app_length, El, Ecl, app_length, (li_len s I). cbn [length]. lia.
      + rewrite Hgi. apply (keys_after_merge (l_sets F s) (l_dm F s) _ i j gi (li_keys s I) (ex_intro _ gi Hgi) Lj ltac:(lia)).
        fold sets1. intros x y. rewrite dm_get_retain. cbn [fst snd].
        pose proof (arith_fold_keys mt i j (length sets1) _ _ _ Ef x y) as K. rewrite <- El.
        destruct (Nat.eqb_spec x i), (Nat.eqb_spec x j), (Nat.eqb_spec y i), (Nat.eqb_spec y j); cbn [negb andb];
          try (split; [intros Hf; congruence|]).
        all: try (intros [(A1 & A2 & A3 & A4 & _)|(E & Lx)]; [congruence|];
                  try (subst y; rewrite El in *; pose proof (live_lt _ _ (ex_intro _ gi Hgi)); destruct Lj as [gj Hgj]; pose proof (live_lt _ _ (ex_intro _ gj Hgj)); lia);
                  apply live_set_none in Lx as [Lx Hx]; apply live_set_none in Lx as [Lx Hx']; congruence).
        rewrite K. split.
        * intros [Hx|(Ey & _ & _ & g & Hin)]; [left; auto 6|right]. split; [exact Ey|].
          apply In_combine_seq in Hin as [_ Hin]. rewrite Nat.sub_0_r in Hin. exists g. exact Hin.
        * intros [(_ & _ & _ & _ & Hx)|(Ey & [g Hg])]; [left; exact Hx|right]. split; [exact Ey|]. split; [assumption|]. split; [assumption|].
          exists g. apply In_combine_seq. split; [lia|]. rewrite Nat.sub_0_r. exact Hg.
      + rewrite nlive_app, Hgi, Ecl, app_length. cbn [nlive length]. unfold sets1.
        assert (nth_error (set_nth i None (l_sets F s)) j = nth_error (l_sets F s) j) as Ej.
        { rewrite set_nth_get. destruct (Nat.eqb_spec j i); [lia|reflexivity]. }
        destruct Lj as [gj Hgj]. rewrite <- Ej in Hgj.
        pose proof (nlive_set_none _ j gj Hgj) as N1. pose proof (nlive_set_none _ i gi Hgi) as N2.
        pose proof (li_cnt s I). lia.
  Qed.

  (* the inserts of one round of cluster_set_unions *)
  Lemma union_fold_keys lastidx (l : list (nat * option group)) : forall (st st' : dmat * list F),
    foldM (fun (st : dmat * list F) (p : nat * option group) =>
             let (m, ds) := st in
             match snd p with
             | None => Ok (m, ds)
             | Some _ => match ds with
                         | [] => Panic
                         | v :: ds' => Ok (dm_insert F (fst p, lastidx) v m, ds')
                         end
             end) l st = Ok st' ->
    forall a b, dm_get F (a, b) (fst st') <> None <->
      dm_get F (a, b) (fst st) <> None \/ (b = lastidx /\ exists g, In (a, Some g) l).
  Proof.
    induction l as [|[idx o] l IH]; intros [m ds] st' H a b; cbn [foldM] in H.
    - injection H as <-. cbn [fst]. split; [auto|]. intros [Hx|(_ & g & Hf)]; [exact Hx|destruct Hf].
    - cbn [snd fst] in H. destruct o as [g0|]; cbn [bind] in H.
      + destruct ds as [|v ds']; cbn [bind] in H; [discriminate|].
        rewrite (IH _ st' H a b). cbn [fst]. rewrite dm_get_insert. split.
        * intros [Hx|(Eb & g & Hin)]; [|right; split; [exact Eb|exists g; right; exact Hin]].
          destruct (keq (a, b) (idx, lastidx)) eqn:Ek; [|left; exact Hx].
          apply keq_true in Ek. injection Ek as -> ->. right. split; [reflexivity|]. exists g0. left. reflexivity.
        * intros [Hx|(Eb & g & [E|Hin])].
          -- left. destruct (keq (a, b) (idx, lastidx)); [discriminate|exact Hx].
          -- injection E as -> _. subst b. left. rewrite keq_refl. discriminate.
          -- right. eauto.
      + rewrite (IH _ st' H a b). cbn [fst]. split; [intros [Hx|(Eb & g & Hin)]; [auto|right; split; [exact Eb|exists g; right; exact Hin]]|].
        intros [Hx|(Eb & g & [E|Hin])]; [auto|discriminate|right; eauto].
  Qed.

  Lemma firstn_app_exact {A} (l1 l2 : list A) n : n = length l1 -> firstn n (l1 ++ l2) = l1.
  Proof. intros ->. rewrite firstn_app, Nat.sub_diag, firstn_all. cbn. apply app_nil_r. Qed.

  (* ONE ROUND OF union LINKAGE *)
  Theorem union_round_spec s s' : LI s -> union_round F flt dist s = Ok (Some s') ->
    exists i j d, merged s s' i j d /\ LI s'.
  Proof.
    intros I H. unfold union_round in H.
    destruct (closest F flt (l_dm F s)) as [[[i j] d]|] eqn:Ec; [|discriminate].
    destruct (closest_live s i j d I Ec) as (Hij & Li & Lj).
    destruct (new_cluster F s i j d) as [cl| | |] eqn:En; cbn [bind] in H; try discriminate.
    destruct (new_cluster_inv s i j d cl En) as (a & b & Sa & Sb & Ecl).
    destruct Li as [gi Hgi]. destruct Lj as [gj Hgj]. rewrite Hgi, Hgj in H.
    set (sets1 := set_nth j None (set_nth i None (l_sets F s))) in *.
    assert (length sets1 = length (l_sets F s)) as El by (unfold sets1; rewrite !set_nth_length; reflexivity).
    destruct (comb_last (sets1 ++ [Some (set_extend gi gj)])) as [pairs| | |]; cbn [bind] in H; try discriminate.
    assert (length (sets1 ++ [Some (set_extend gi gj)]) - 1 = length sets1) as Elast by (rewrite app_length; cbn [length]; lia).
    rewrite Elast in H. rewrite (firstn_app_exact sets1 _ _ eq_refl) in H.
    match type of H with context [foldM ?f ?l ?st0] => destruct (foldM f l st0) as [r| | |] eqn:Ef end; cbn [bind] in H; try discriminate.
    injection H as <-. exists i, j, d. split.
    - unfold merged. cbn [l_clusters l_n]. split; [exact Ec|]. split; [exact Hij|]. split; [exists gi; exact Hgi|]. split; [exists gj; exact Hgj|].
      split; [exists a, b; auto|reflexivity].
    - constructor; cbn [l_sets l_dm l_n l_clusters].
      + rewrite app_length, El, Ecl, app_length, (li_len s I). cbn [length]. lia.
      + apply (keys_after_merge (l_sets F s) (l_dm F s) _ i j (set_extend gi gj) (li_keys s I) (ex_intro _ gi Hgi) (ex_intro _ gj Hgj) ltac:(lia)).
        fold sets1. intros x y. rewrite <- El. rewrite (union_fold_keys (length sets1) _ _ r Ef x y). cbn [fst]. rewrite dm_get_retain. cbn [fst snd].
        split.
        * intros [Hx|(Ey & g & Hin)].
          -- left. destruct (Nat.eqb_spec x i), (Nat.eqb_spec x j), (Nat.eqb_spec y i), (Nat.eqb_spec y j); cbn [negb andb] in Hx; try congruence. auto 6.
          -- right. split; [exact Ey|]. apply In_combine_seq in Hin as [_ Hin]. rewrite Nat.sub_0_r in Hin. exists g. exact Hin.
        * intros [(A1 & A2 & A3 & A4 & Hx)|(Ey & [g Hg])].
          -- left. destruct (Nat.eqb_spec x i), (Nat.eqb_spec x j), (Nat.eqb_spec y i), (Nat.eqb_spec y j); cbn [negb andb]; try congruence.
          -- right. split; [exact Ey|]. exists g. apply In_combine_seq. split; [lia|]. rewrite Nat.sub_0_r. exact Hg.
      + rewrite nlive_app, Ecl, app_length. cbn [nlive length]. unfold sets1.
        assert (nth_error (set_nth i None (l_sets F s)) j = nth_error (l_sets F s) j) as Ej.
        { rewrite set_nth_get. destruct (Nat.eqb_spec j i); [lia|reflexivity]. }
        rewrite <- Ej in Hgj.
        pose proof (nlive_set_none _ j gj Hgj) as N1. pose proof (nlive_set_none _ i gi Hgi) as N2.
        pose proof (li_cnt s I). lia.
  Qed.

  (* ---------------- the start ---------------- *)

  Lemma all_pairs_len {A B} (l : list A) (l' : list B) : length l = length l' -> length (all_pairs_of l) = length (all_pairs_of l').
  Proof.
    revert l'. induction l as [|x l IH]; intros [|y l'] H; cbn [length] in H; try discriminate; [reflexivity|].
    cbn [all_pairs_of]. rewrite !app_length, !map_length. rewrite (IH l') by lia. lia.
  Qed.

  Lemma all_pairs_seq_In n : forall start a b, In (a, b) (all_pairs_of (seq start n)) <-> (start <= a /\ a < b /\ b < start + n).
  Proof.
    induction n as [|n IH]; intros start a b; cbn [seq all_pairs_of].
    - split; [intros []|lia].
    - rewrite in_app_iff, in_map_iff, IH. split.
      + intros [[y [E Hy]]|H]; [injection E as <- <-; apply in_seq in Hy; lia|lia].
      + intros (H1 & H2 & H3). destruct (Nat.eq_dec a start) as [->|Hne].
        * left. exists b. split; [reflexivity|]. apply in_seq. lia.
        * right. lia.
  Qed.

  Lemma fold_insert_keys (kv : list ((nat * nat) * F)) : forall (m : dmat) a b,
    dm_get F (a, b) (fold_left (fun m (e : (nat * nat) * F) => dm_insert F (fst e) (snd e) m) kv m) <> None <->
    dm_get F (a, b) m <> None \/ In (a, b) (map fst kv).
  Proof.
    induction kv as [|[k v] kv IH]; intros m a b; cbn [fold_left map In fst snd]; [tauto|].
    rewrite IH, dm_get_insert. split.
    - intros [H|H]; [|right; right; exact H]. destruct (keq (a, b) k) eqn:E; [apply keq_true in E; right; left; exact E|left; exact H].
    - intros [H|[->|H]]; [left; destruct (keq (a, b) k); [discriminate|exact H]|left; rewrite keq_refl; discriminate|right; exact H].
  Qed.

  Lemma map_fst_combine {A B} (l1 : list A) : forall (l2 : list B), length l1 = length l2 -> map fst (combine l1 l2) = l1.
  Proof. induction l1 as [|x l1 IH]; intros [|y l2] H; cbn in *; try discriminate; [reflexivity|]. rewrite IH by lia. reflexivity. Qed.

  Lemma nlive_all {A} (l : list A) : nlive (map (@Some A) l) = length l.
  Proof. induction l; cbn; lia. Qed.

  Lemma l_new_LI sets s0 : l_new F dist sets = Ok s0 ->
    LI s0 /\ l_clusters F s0 = [] /\ l_n F s0 = length sets.
  Proof.
    unfold l_new. intros H. apply bind_Ok' in H as [pairs [Hp H]]. apply bind_Ok' in H as [idx [Hi H]]. injection H as <-.
    split; [|split; reflexivity].
    apply comb_new_all_live in Hp. apply comb_new_all_live in Hi.
    constructor; cbn [l_sets l_dm l_n l_clusters length].
    - rewrite map_length. lia.
    - intros a b. rewrite fold_insert_keys. cbn [dm_get]. rewrite map_fst_combine.
      + rewrite Hi, all_pairs_seq_In. unfold live. split.
        * intros [Hf|(H1 & H2 & H3)]; [congruence|]. split; [exact H2|].
          assert (forall x, x < length sets -> exists g, nth_error (map (@Some group) sets) x = Some (Some g)) as K.
          { intros x Hx. destruct (nth_error sets x) as [g|] eqn:E; [|apply nth_error_None in E; lia]. exists g. rewrite nth_error_map, E. reflexivity. }
          split; apply K; lia.
        * intros (H1 & [g Hg] & [g' Hg']). right. split; [lia|]. split; [exact H1|].
          assert (nth_error (map (@Some group) sets) b <> None) as Hn by (rewrite Hg'; discriminate).
          apply nth_error_Some in Hn. rewrite map_length in Hn. lia.
      + rewrite map_length, Hp, Hi. apply all_pairs_len. rewrite seq_length. reflexivity.
    - rewrite nlive_all. lia.
  Qed.

  (* ---------------- the end ---------------- *)

  Lemma closest_none (m : dmat) : closest F flt m = None -> m = [].
  Proof. destruct m; [reflexivity|discriminate]. Qed.

  Lemma nlive_two {A} (l : list (option A)) : 2 <= nlive l -> exists a b, a < b /\ live l a /\ live l b.
  Proof.
    induction l as [|[x|] l IH]; cbn [nlive]; intros H; [lia| |].
    - destruct (nlive l) as [|k] eqn:E; [lia|].
      assert (exists b, live l b) as [b [g Hb]].
      { clear -E. induction l as [|[y|] l IH]; cbn [nlive] in E; [discriminate|exists 0, y; reflexivity|].
        destruct (IH E) as [b [g Hb]]. exists (S b), g. exact Hb. }
      exists 0, (S b). split; [lia|]. split; [exists x; reflexivity|exists g; exact Hb].
    - destruct (IH H) as (a & b & Hab & [g Ha] & [g' Hb]). exists (S a), (S b). split; [lia|]. split; [exists g; exact Ha|exists g'; exact Hb].
  Qed.

  Lemma LI_done s : LI s -> l_dm F s = [] -> nlive (l_sets F s) <= 1.
  Proof.
    intros I E. destruct (Nat.le_gt_cases (nlive (l_sets F s)) 1) as [H|H]; [exact H|].
    destruct (nlive_two _ H) as (a & b & Hab & La & Lb).
    exfalso. apply (proj2 (li_keys s I a b)); [auto|]. rewrite E. reflexivity.
  Qed.

  (* ---------------- the whole run ---------------- *)

  Inductive mrun : lstate -> lstate -> Prop :=
  | mrun_done s : l_dm F s = [] -> mrun s s
  | mrun_step s s' sf i j d : merged s s' i j d -> mrun s' sf -> mrun s sf.

  Definition round_of (mt : method) : lstate -> res (option lstate) :=
    match mt with MUnion => union_round F flt dist | _ => arith_round F flt fgt mean mt end.

  Lemma round_spec mt s s' : LI s -> round_of mt s = Ok (Some s') -> exists i j d, merged s s' i j d /\ LI s'.
  Proof. destruct mt; cbn [round_of]; [apply union_round_spec|apply arith_round_spec..]. Qed.

  Lemma round_none mt s : round_of mt s = Ok None -> l_dm F s = [].
  Proof.
    intros H. apply closest_none. destruct mt; cbn [round_of] in H; unfold union_round, arith_round in H;
      destruct (closest F flt (l_dm F s)) as [[[i j] d]|]; try reflexivity; exfalso.
    - destruct (new_cluster F s i j d); cbn [bind] in H; try discriminate.
      destruct (nth_error (l_sets F s) i) as [[ga|]|]; try discriminate. destruct (nth_error (l_sets F s) j) as [[gb|]|]; try discriminate.
      destruct (comb_last _); cbn [bind] in H; try discriminate. destruct (foldM _ _ _); cbn [bind] in H; discriminate.
    - destruct (new_cluster F s i j d); cbn [bind] in H; try discriminate. destruct (negb _); [discriminate|].
      destruct (foldM _ _ _); cbn [bind] in H; discriminate.
    - destruct (new_cluster F s i j d); cbn [bind] in H; try discriminate. destruct (negb _); [discriminate|].
      destruct (foldM _ _ _); cbn [bind] in H; discriminate.
    - destruct (new_cluster F s i j d); cbn [bind] in H; try discriminate. destruct (negb _); [discriminate|].
      destruct (foldM _ _ _); cbn [bind] in H; discriminate.
  Qed.

  Lemma live_nlive {A} (l : list (option A)) : forall a, live l a -> 1 <= nlive l.
  Proof.
    induction l as [|[x|] l IH]; intros a [g H]; [destruct a; discriminate|cbn [nlive]; lia|].
    destruct a as [|a]; cbn [nth_error] in H; [discriminate|]. cbn [nlive]. apply (IH a). exists g. exact H.
  Qed.

  Lemma live_two_nlive {A} (l : list (option A)) : forall a b, a < b -> live l a -> live l b -> 2 <= nlive l.
  Proof.
    induction l as [|y l IH]; intros a b Hab [g Ha] [g' Hb]; [destruct a; discriminate|].
    destruct a as [|a]; destruct b as [|b]; try lia; cbn [nth_error] in Ha, Hb.
    - injection Ha as ->. cbn [nlive]. pose proof (live_nlive l b (ex_intro _ g' Hb)). lia.
    - assert (2 <= nlive l) by (apply (IH a b); [lia|exists g; exact Ha|exists g'; exact Hb]). destruct y; cbn [nlive]; lia.
  Qed.

  Lemma steps_mrun mt s sf : LI s -> 1 <= nlive (l_sets F s) -> steps (round_of mt) s sf -> mrun s sf /\ LI sf /\ 1 <= nlive (l_sets F sf).
  Proof.
    intros I Hl H. induction H as [s Hn|s s' sf Hr _ IH].
    - split; [apply mrun_done, (round_none mt s Hn)|auto].
    - destruct (round_spec mt s s' I Hr) as (i & j & d & M & I').
      assert (1 <= nlive (l_sets F s')) as Hl'.
      { destruct M as (_ & Hij & Li & Lj & (a & b & _ & _ & Ecl) & En).
        pose proof (live_two_nlive _ i j Hij Li Lj) as H2. pose proof (li_cnt s I) as C1. pose proof (li_cnt s' I') as C2.
        rewrite Ecl, app_length, En in C2. cbn [length] in C2. lia. }
      destruct (IH I' Hl') as (R & If & Hf). split; [eapply mrun_step; eassumption|auto].
  Qed.

  Lemma mrun_count s sf : mrun s sf -> l_n F sf = l_n F s /\ l_dm F sf = [].
  Proof.
    induction 1 as [s E|s s' sf i j d M _ IH]; [auto|]. destruct IH as [E1 E2]. split; [|exact E2].
    destruct M as (_ & _ & _ & _ & _ & En). congruence.
  Qed.

  (* THE CLUSTERING LOOP: a successful run from n >= 1 input sets is a sequence of merges, each joining
     the pair closest_clusters returns for the matrix of that moment (a minimum of it) at that
     distance with the sizes added, and it ends after exactly n-1 merges with one live node *)
  Theorem linkage_run mt sets sf : 1 <= length sets -> linkage F flt fgt mean dist mt sets = Ok sf ->
    exists s0, l_new F dist sets = Ok s0 /\ l_clusters F s0 = [] /\ mrun s0 sf /\ LI sf /\
      length (l_clusters F sf) + 1 = length sets /\ nlive (l_sets F sf) = 1.
  Proof.
    intros Hn H. unfold linkage in H. apply bind_Ok' in H as [s0 [H0 H]]. exists s0. split; [exact H0|].
    destruct (l_new_LI sets s0 H0) as (I0 & C0 & N0). split; [exact C0|].
    change (match mt with MUnion => union_round F flt dist | _ => arith_round F flt fgt mean mt end) with (round_of mt) in H.
    assert (1 <= nlive (l_sets F s0)) as Hl0 by (pose proof (li_cnt s0 I0) as C; rewrite C0, N0 in C; cbn [length] in C; lia).
    destruct (steps_mrun mt s0 sf I0 Hl0 (loop_steps _ _ s0 sf H)) as (R & If & Hge). split; [exact R|]. split; [exact If|].
    destruct (mrun_count s0 sf R) as [En Ed]. pose proof (LI_done sf If Ed) as Hle.
    pose proof (li_cnt sf If) as Hc. rewrite En, N0 in Hc. lia.
  Qed.

  (* ---------------- the distances to the new cluster follow the method ---------------- *)

  Definition pair_key (idx i : nat) : nat * nat := if Nat.ltb idx i then (idx, i) else (i, idx).

  Lemma arith_fold_vals mt i j newi (l : list (nat * option group)) : newi <> i -> newi <> j ->
    NoDup (map fst l) -> (forall p, In p l -> fst p <> newi) ->
    forall (m m' : dmat),
    foldM (fun (m : dmat) (p : nat * option group) =>
             let (idx, st) := p in
             if Nat.eqb idx i || Nat.eqb idx j then Ok m
             else match st with
                  | None => Ok m
                  | Some _ =>
                      let k0 := if Nat.ltb idx i then (idx, i) else (i, idx) in
                      let k1 := if Nat.ltb idx j then (idx, j) else (j, idx) in
                      do v <- arith F flt fgt mean mt (dm_get F k0 m) (dm_get F k1 m) ;;
                      Ok (dm_insert F (idx, newi) v m)
                  end) l m = Ok m' ->
    (forall k, snd k <> newi -> dm_get F k m' = dm_get F k m) /\
    forall idx g, In (idx, Some g) l -> idx <> i -> idx <> j ->
      exists v, arith F flt fgt mean mt (dm_get F (pair_key idx i) m) (dm_get F (pair_key idx j) m) = Ok v /\
                dm_get F (idx, newi) m' = Some v.
  Proof.
    intros Hni Hnj. induction l as [|[idx st] l IH]; intros Nd Hl m m' H; cbn [foldM] in H.
    - injection H as <-. split; [reflexivity|intros idx g []].
    - inversion Nd as [|? ? Hx Nd']; subst. cbn [map fst] in Hx.
      assert (forall p, In p l -> fst p <> newi) as Hl' by (intros p Hp; apply Hl; right; exact Hp).
      destruct (Nat.eqb idx i || Nat.eqb idx j) eqn:Eij; cbn [bind] in H.
      + destruct (IH Nd' Hl' m m' H) as [K V]. split; [exact K|].
        intros x g [E|Hin] H1 H2; [|apply (V x g Hin H1 H2)]. injection E as -> ->.
        apply orb_true_iff in Eij as [E|E]; apply Nat.eqb_eq in E; congruence.
      + apply orb_false_iff in Eij as [E1 E2]. apply Nat.eqb_neq in E1, E2.
        destruct st as [g0|]; cbn [bind] in H.
        * destruct (arith F flt fgt mean mt _ _) as [v| | |] eqn:Ea; cbn [bind] in H; try discriminate.
          destruct (IH Nd' Hl' _ m' H) as [K V].
          assert (forall k, snd k <> newi -> dm_get F k (dm_insert F (idx, newi) v m) = dm_get F k m) as K0.
          { intros k Hk. rewrite dm_get_insert. destruct (keq k (idx, newi)) eqn:E; [|reflexivity].
            apply keq_true in E. subst k. cbn in Hk. congruence. }
          split; [intros k Hk; rewrite (K k Hk); apply (K0 k Hk)|].
          assert (forall x y, y = i \/ y = j -> snd (pair_key x y) <> newi \/ x = newi) as PK.
          { intros x y Hy. unfold pair_key. destruct (Nat.ltb x y); cbn [snd]; [left; destruct Hy; congruence|].
            destruct (Nat.eq_dec x newi); [right; assumption|left; assumption]. }
          intros x g [E|Hin] H1 H2.
          -- injection E as -> ->. exists v. split; [exact Ea|].
             (* later inserts use other keys *)
             assert (forall l m1 m2, ~ In x (map fst l) ->
                       foldM (fun (m : dmat) (p : nat * option group) =>
                                let (idx, st) := p in
                                if Nat.eqb idx i || Nat.eqb idx j then Ok m
                                else match st with
                                     | None => Ok m
                                     | Some _ =>
                                         let k0 := if Nat.ltb idx i then (idx, i) else (i, idx) in
                                         let k1 := if Nat.ltb idx j then (idx, j) else (j, idx) in
                                         do v <- arith F flt fgt mean mt (dm_get F k0 m) (dm_get F k1 m) ;;
                                         Ok (dm_insert F (idx, newi) v m)
                                     end) l m1 = Ok m2 -> dm_get F (x, newi) m2 = dm_get F (x, newi) m1) as Later.
             { clear. induction l as [|[y sy] l IHl]; intros m1 m2 Hn Hf; cbn [foldM] in Hf; [injection Hf as <-; reflexivity|].
               cbn [map fst In] in Hn. destruct (Nat.eqb y i || Nat.eqb y j); cbn [bind] in Hf; [apply IHl; tauto|].
               destruct sy; cbn [bind] in Hf; [|apply IHl; tauto].
               destruct (arith F flt fgt mean mt _ _); cbn [bind] in Hf; try discriminate.
               rewrite (IHl _ m2 ltac:(tauto) Hf), dm_get_insert. destruct (keq (x, newi) (y, newi)) eqn:E; [|reflexivity].
               apply keq_true in E. injection E as ->. tauto. }
             rewrite (Later l _ m' Hx H), dm_get_insert, keq_refl. reflexivity.
          -- destruct (V x g Hin H1 H2) as [w [Ew Gw]]. exists w. split; [|exact Gw].
             assert (x <> newi) as Hxn by (apply (Hl' (x, Some g) Hin)).
             rewrite <- Ew. f_equal; symmetry; apply K0.
             ++ destruct (PK x i (or_introl eq_refl)); [assumption|congruence].
             ++ destruct (PK x j (or_intror eq_refl)); [assumption|congruence].
        * destruct (IH Nd' Hl' m m' H) as [K V]. split; [exact K|].
          intros x g [E|Hin] H1 H2; [discriminate|apply (V x g Hin H1 H2)].
  Qed.

  (* single / complete / average: the distance from every other live node to the new cluster is the
     method's combination of its distances to the two merged nodes; all other distances are kept *)
  Theorem arith_round_distances mt s s' i j d : LI s -> arith_round F flt fgt mean mt s = Ok (Some s') ->
    closest F flt (l_dm F s) = Some (i, j, d) ->
    (forall idx, live (l_sets F s) idx -> idx <> i -> idx <> j ->
       exists v, arith F flt fgt mean mt (dm_get F (pair_key idx i) (l_dm F s)) (dm_get F (pair_key idx j) (l_dm F s)) = Ok v /\
                 dm_get F (idx, length (l_sets F s)) (l_dm F s') = Some v) /\
    (forall a b, a <> i -> a <> j -> b <> i -> b <> j -> b <> length (l_sets F s) ->
       dm_get F (a, b) (l_dm F s') = dm_get F (a, b) (l_dm F s)).
  Proof.
    intros I H Ec. unfold arith_round in H. rewrite Ec in H.
    destruct (closest_live s i j d I Ec) as (Hij & Li & Lj).
    destruct (new_cluster F s i j d) as [cl| | |]; cbn [bind] in H; try discriminate.
    destruct (negb _); [discriminate|].
    set (sets1 := set_nth j None (set_nth i None (l_sets F s))) in *.
    assert (length sets1 = length (l_sets F s)) as El by (unfold sets1; rewrite !set_nth_length; reflexivity).
    match type of H with context [foldM ?f ?l (l_dm F s)] => destruct (foldM f l (l_dm F s)) as [dm2| | |] eqn:Ef end; cbn [bind] in H; try discriminate.
    injection H as <-. cbn [l_dm].
    pose proof (live_lt _ _ Li) as Hi. pose proof (live_lt _ _ Lj) as Hj.
    destruct (arith_fold_vals mt i j (length sets1) (combine (seq 0 (length sets1)) sets1) ltac:(lia) ltac:(lia)) with (m := l_dm F s) (m' := dm2) as [K V].
    - rewrite map_fst_combine by (rewrite seq_length; reflexivity). apply seq_NoDup.
    - intros [x y] Hp. apply In_combine_seq in Hp as [_ Hn]. cbn [fst]. rewrite Nat.sub_0_r in Hn.
      assert (nth_error sets1 x <> None) as Hnn by (rewrite Hn; discriminate). apply nth_error_Some in Hnn. lia.
    - exact Ef.
    - split.
      + intros idx [g Hg] H1 H2.
        assert (In (idx, Some g) (combine (seq 0 (length sets1)) sets1)) as Hin.
        { apply In_combine_seq. split; [lia|]. rewrite Nat.sub_0_r. unfold sets1. rewrite !set_nth_get.
          destruct (Nat.eqb_spec idx j); [congruence|]. destruct (Nat.eqb_spec idx i); [congruence|]. exact Hg. }
        destruct (V idx g Hin H1 H2) as [v [Ev Gv]]. exists v. split; [exact Ev|].
        rewrite dm_get_retain. cbn [fst snd]. rewrite <- El.
        destruct (Nat.eqb_spec idx i); [congruence|]. destruct (Nat.eqb_spec idx j); [congruence|].
        destruct (Nat.eqb_spec (length sets1) i); [lia|]. destruct (Nat.eqb_spec (length sets1) j); [lia|]. exact Gv.
      + intros a b A1 A2 B1 B2 B3. rewrite dm_get_retain. cbn [fst snd].
        destruct (Nat.eqb_spec a i); [congruence|]. destruct (Nat.eqb_spec a j); [congruence|].
        destruct (Nat.eqb_spec b i); [congruence|]. destruct (Nat.eqb_spec b j); [congruence|]. cbn [negb andb].
        apply K. cbn [snd]. lia.
  Qed.

  (* ---------------- union linkage: the user distance on the union ---------------- *)

  (* what set_to_last yields: the last entry paired with every live entry, itself included, in order *)
  Lemma comb_last_spec {A} (inner : list (option A)) (u : A) ps : comb_last (inner ++ [Some u]) = Ok ps ->
    ps = map (fun b => (u, b)) (somes' inner ++ [u]).
  Proof.
    unfold comb_last. intros H. rewrite app_length in H. cbn [length] in H.
    replace (length inner + 1 - 1) with (length inner) in H by lia.
    apply comb_run_spec in H; [|lia|rewrite app_length; cbn [length]; lia].
    rewrite H. unfold comb_spec. rewrite app_length. cbn [length]. replace (length inner + 1 - S (length inner)) with 0 by lia.
    cbn [seq flat_map]. rewrite app_nil_r. unfold row_from.
    rewrite nth_error_app2, Nat.sub_diag by lia. cbn [nth_error skipn].
    f_equal. clear. induction inner as [|[x|] l IH]; cbn [app somes']; [reflexivity|f_equal; exact IH|exact IH].
  Qed.

  Lemma union_fold_vals lastidx (f : group -> F) : forall (l : list (option group)) start (m : dmat) ds rest st',
    (forall k, k < length l -> start + k <> lastidx) ->
    ds = map f (somes' l) ++ rest ->
    foldM (fun (st : dmat * list F) (p : nat * option group) =>
             let (m, ds) := st in
             match snd p with
             | None => Ok (m, ds)
             | Some _ => match ds with
                         | [] => Panic
                         | v :: ds' => Ok (dm_insert F (fst p, lastidx) v m, ds')
                         end
             end) (combine (seq start (length l)) l) (m, ds) = Ok st' ->
    (forall k, snd k <> lastidx -> dm_get F k (fst st') = dm_get F k m) /\
    (forall x, x < start -> dm_get F (x, lastidx) (fst st') = dm_get F (x, lastidx) m) /\
    forall k g, nth_error l k = Some (Some g) -> dm_get F (start + k, lastidx) (fst st') = Some (f g).
  Proof.
    induction l as [|o l IH]; intros start m ds rest st' Hne Eds H; cbn [length seq combine foldM] in H.
    - injection H as <-. cbn [fst]. split; [reflexivity|]. split; [reflexivity|]. intros k g Hk. destruct k; discriminate.
    - cbn [snd fst] in H. assert (forall k, k < length l -> S start + k <> lastidx) as Hne' by (intros k Hk; specialize (Hne (S k)); cbn [length] in Hne; lia).
      destruct o as [g0|].
      + cbn [somes' map app] in Eds. subst ds. cbn [bind] in H.
        destruct (IH (S start) _ _ rest st' Hne' eq_refl H) as (K & B & V).
        split; [|split].
        * intros k Hk. rewrite (K k Hk), dm_get_insert. destruct (keq k (start, lastidx)) eqn:E; [|reflexivity].
          apply keq_true in E. subst k. cbn in Hk. congruence.
        * intros x Hx. rewrite (B x ltac:(lia)), dm_get_insert. destruct (keq (x, lastidx) (start, lastidx)) eqn:E; [|reflexivity].
          apply keq_true in E. injection E as ->. lia.
        * intros k g Hk. destruct k as [|k]; cbn [nth_error] in Hk.
          -- injection Hk as ->. rewrite Nat.add_0_r, (B start ltac:(lia)), dm_get_insert, keq_refl. reflexivity.
          -- replace (start + S k) with (S start + k) by lia. apply (V k g Hk).
      + cbn [somes'] in Eds. cbn [bind] in H. destruct (IH (S start) m ds rest st' Hne' Eds H) as (K & B & V).
        split; [exact K|]. split; [intros x Hx; apply B; lia|].
        intros k g Hk. destruct k as [|k]; cbn [nth_error] in Hk; [discriminate|].
        replace (start + S k) with (S start + k) by lia. apply (V k g Hk).
  Qed.

  (* union: the distance from every other live node to the new cluster is the user's distance between
     the union of the two merged sets and that node's set; all other distances are kept *)
  Theorem union_round_distances s s' i j d gi gj : LI s -> union_round F flt dist s = Ok (Some s') ->
    closest F flt (l_dm F s) = Some (i, j, d) ->
    nth_error (l_sets F s) i = Some (Some gi) -> nth_error (l_sets F s) j = Some (Some gj) ->
    (forall idx g, nth_error (l_sets F s) idx = Some (Some g) -> idx <> i -> idx <> j ->
       dm_get F (idx, length (l_sets F s)) (l_dm F s') = Some (dist (set_extend gi gj) g)) /\
    (forall a b, a <> i -> a <> j -> b <> i -> b <> j -> b <> length (l_sets F s) ->
       dm_get F (a, b) (l_dm F s') = dm_get F (a, b) (l_dm F s)) /\
    nth_error (l_sets F s') (length (l_sets F s)) = Some (Some (set_extend gi gj)).
  Proof.
    intros I H Ec Hgi Hgj. unfold union_round in H. rewrite Ec in H.
    destruct (new_cluster F s i j d) as [cl| | |]; cbn [bind] in H; try discriminate.
    rewrite Hgi, Hgj in H.
    set (sets1 := set_nth j None (set_nth i None (l_sets F s))) in *.
    assert (length sets1 = length (l_sets F s)) as El by (unfold sets1; rewrite !set_nth_length; reflexivity).
    destruct (comb_last (sets1 ++ [Some (set_extend gi gj)])) as [pairs| | |] eqn:Ep; cbn [bind] in H; try discriminate.
    apply comb_last_spec in Ep.
    assert (length (sets1 ++ [Some (set_extend gi gj)]) - 1 = length sets1) as Elast by (rewrite app_length; cbn [length]; lia).
    rewrite Elast in H. rewrite (firstn_app_exact sets1 _ _ eq_refl) in H.
    match type of H with context [foldM ?f ?l ?st0] => destruct (foldM f l st0) as [r| | |] eqn:Ef end; cbn [bind] in H; try discriminate.
    injection H as <-. cbn [l_dm l_sets].
    destruct (union_fold_vals (length sets1) (dist (set_extend gi gj)) sets1 0 (retain_not F i j (l_dm F s)) (map (fun p : group * group => dist (fst p) (snd p)) pairs) [dist (set_extend gi gj) (set_extend gi gj)] r) with (3 := Ef) as (K & _ & V).
    - intros k Hk. lia.
    - rewrite Ep, map_map, map_app. reflexivity.
    - split; [|split].
      + intros idx g Hg H1 H2. rewrite <- El. rewrite <- (V idx g); [reflexivity|].
        unfold sets1. rewrite !set_nth_get. destruct (Nat.eqb_spec idx j); [congruence|]. destruct (Nat.eqb_spec idx i); [congruence|]. exact Hg.
      + intros a b A1 A2 B1 B2 B3. rewrite (K (a, b)) by (cbn [snd]; lia). rewrite dm_get_retain. cbn [fst snd].
        destruct (Nat.eqb_spec a i); [congruence|]. destruct (Nat.eqb_spec a j); [congruence|].
        destruct (Nat.eqb_spec b i); [congruence|]. destruct (Nat.eqb_spec b j); [congruence|]. reflexivity.
      + rewrite <- El, nth_error_app2, Nat.sub_diag by lia. reflexivity.
  Qed.

  (* ---------------- the initial matrix ---------------- *)

  Lemma fold_insert_get (kv : list ((nat * nat) * F)) : forall (m : dmat) k v, NoDup (map fst kv) -> In (k, v) kv ->
    dm_get F k (fold_left (fun m (e : (nat * nat) * F) => dm_insert F (fst e) (snd e) m) kv m) = Some v.
  Proof.
    induction kv as [|[k' v'] kv IH]; intros m k v Nd Hin; [destruct Hin|]. cbn [fold_left fst snd].
    inversion Nd as [|? ? Hn Nd']; subst. destruct Hin as [E|Hin].
    - injection E as -> ->.
      assert (forall m0, dm_get F k (fold_left (fun m (e : (nat * nat) * F) => dm_insert F (fst e) (snd e) m) kv m0) = dm_get F k m0) as Keep.
      { clear -Hn. induction kv as [|[k2 v2] kv IH]; intros m0; cbn [fold_left fst snd]; [reflexivity|].
        cbn [map fst In] in Hn. rewrite IH by tauto. rewrite dm_get_insert. destruct (keq k k2) eqn:E; [|reflexivity].
        apply keq_true in E. subst k2. tauto. }
      rewrite Keep, dm_get_insert, keq_refl. reflexivity.
    - apply IH; assumption.
  Qed.

  Lemma combine_app_eq {A B} (a1 a2 : list A) (b1 b2 : list B) : length a1 = length b1 ->
    combine (a1 ++ a2) (b1 ++ b2) = combine a1 b1 ++ combine a2 b2.
  Proof. revert b1. induction a1 as [|x a1 IH]; intros [|y b1] H; cbn in *; try discriminate; [reflexivity|]. rewrite IH by lia. reflexivity. Qed.

  Lemma row_combine {A} (f : A * A -> F) (zi : nat) (z : A) (l : list A) : forall s b y,
    s <= b -> nth_error l (b - s) = Some y ->
    In ((zi, b), f (z, y)) (combine (map (fun y => (zi, y)) (seq s (length l))) (map f (map (fun y => (z, y)) l))).
  Proof.
    induction l as [|w l IH]; intros s b y Hs Hy; [destruct (b - s); discriminate|].
    cbn [length seq map combine]. destruct (Nat.eq_dec b s) as [->|Hne].
    - rewrite Nat.sub_diag in Hy. injection Hy as ->. left. reflexivity.
    - right. apply IH; [lia|]. replace (b - s) with (S (b - S s)) in Hy by lia. exact Hy.
  Qed.

  Lemma pairs_combine {A} (f : A * A -> F) (l : list A) : forall start a b x y,
    a < b -> nth_error l (a - start) = Some x -> nth_error l (b - start) = Some y -> start <= a ->
    In ((a, b), f (x, y)) (combine (all_pairs_of (seq start (length l))) (map f (all_pairs_of l))).
  Proof.
    induction l as [|z l IH]; intros start a b x y Hab Ha Hb Hs; [destruct (a - start); discriminate|].
    cbn [length seq all_pairs_of]. rewrite map_app, combine_app_eq by (rewrite !map_length, seq_length; reflexivity).
    apply in_or_app. destruct (Nat.eq_dec a start) as [->|Hne].
    - left. rewrite Nat.sub_diag in Ha. injection Ha as ->.
      apply row_combine; [lia|]. replace (b - start) with (S (b - S start)) in Hb by lia. exact Hb.
    - right. apply IH; try lia.
      + replace (a - start) with (S (a - S start)) in Ha by lia. exact Ha.
      + replace (b - start) with (S (b - S start)) in Hb by lia. exact Hb.
  Qed.

  Lemma all_pairs_NoDup n : forall start, NoDup (all_pairs_of (seq start n)).
  Proof.
    induction n as [|n IH]; intros start; cbn [seq all_pairs_of]; [constructor|].
    apply C04P.NoDup_app_disj.
    - apply FinFun.Injective_map_NoDup; [intros x y E; congruence|apply seq_NoDup].
    - apply IH.
    - intros [a b] H1 H2. apply in_map_iff in H1 as [y [E _]]. injection E as <- <-.
      apply all_pairs_seq_In in H2. lia.
  Qed.

  (* the matrix a run starts from: the user's distance of every pair of input sets *)
  Theorem l_new_distances sets s0 : l_new F dist sets = Ok s0 ->
    forall a b ga gb, a < b -> nth_error sets a = Some ga -> nth_error sets b = Some gb ->
    dm_get F (a, b) (l_dm F s0) = Some (dist ga gb).
  Proof.
    unfold l_new. intros H a b ga gb Hab Ha Hb. apply bind_Ok' in H as [pairs [Hp H]]. apply bind_Ok' in H as [idx [Hi H]]. injection H as <-.
    apply comb_new_all_live in Hp. apply comb_new_all_live in Hi. cbn [l_dm]. subst pairs idx.
    apply fold_insert_get.
    - rewrite map_fst_combine; [apply all_pairs_NoDup|]. rewrite map_length. apply all_pairs_len. rewrite seq_length. reflexivity.
    - apply (pairs_combine (fun p : group * group => dist (fst p) (snd p)) sets 0 a b ga gb Hab); [rewrite Nat.sub_0_r; exact Ha|rewrite Nat.sub_0_r; exact Hb|lia].
  Qed.
End L.
